import SaphyrVerif.Lemmas.C11_Typed2Rounds
/-!
Typed multi-document theorems (C11), continued — part 4: the streaming iterator over a whole stream of served
documents (with or without a per-document enforcer), document by document, each with its rounds.
-/
namespace SaphyrVerif.Lemmas.C11B
open SaphyrVerif SaphyrVerif.Scalars SaphyrVerif.Pump SaphyrVerif.De SaphyrVerif.Spec SaphyrVerif.Budget SaphyrVerif.Entry
open SaphyrVerif.Lemmas.C11 (Doc docsItems)
open SaphyrVerif.Lemmas.C11T (RunP J DocOk peek_congr Item sameItem sameItems iterLoop_congr fsim_peek_none evIsNull
  docsItems_cons itemsOf_neutral)
open SaphyrVerif.Lemmas.Frame (Ctx FSim RF pos dep)

/-- the rounds of one document with events `evs`, on its own -/
def docSpec (cfg : Cfg) (ty : Ty) (N : Nat) (evs : List Ev) : Option Rounds :=
  docRounds cfg ty N (.replay evs 0 none)

/-- the number of rounds is bounded by the fuel -/
theorem docRounds_le (cfg : Cfg) (ty : Ty) : ∀ (fuel : Nat) (c : Cur) (r : Rounds),
    docRounds cfg ty fuel c = some r → r.2.2 ≤ fuel := by
  intro fuel
  induction fuel with
  | zero =>
    intro c r h
    simp only [docRounds] at h
    split at h
    · cases h; exact Nat.le_refl _
    · cases h
  | succ n ih =>
    intro c r h
    simp only [docRounds] at h
    split at h
    · cases h
    · cases h; exact Nat.zero_le _
    · cases h; simp
    · cases h; simp
    · split at h
      · split at h
        · rename_i x c2 hn
          cases hr : docRounds cfg ty n c2 with
          | none => rw [hr] at h; cases h
          | some r2 =>
            rw [hr] at h
            simp only [Option.map_some, Option.some.injEq] at h
            subst h
            have := ih c2 r2 hr
            simp only [Rounds.push]
            omega
        · cases h
      · split at h
        · cases h; simp
        · rename_i v c2 hd
          cases hr : docRounds cfg ty n c2 with
          | none => rw [hr] at h; cases h
          | some r2 =>
            rw [hr] at h
            simp only [Option.map_some, Option.some.injEq] at h
            subst h
            have := ih c2 r2 hr
            simp only [Rounds.push]
            omega

/-- every document of `ds` is served, with delivered events `evss` (in order) -/
def DocsServe (L : AliasLimits) (ob : Option Limits) : List Doc → List (List Ev) → Prop
  | [], [] => True
  | d :: ds, evs :: evss => DocServe L ob d evs ∧ DocsServe L ob ds evss
  | _, _ => False

/-- the items of a stream and the number of rounds, document by document (`none`: some document needs more than
`N` rounds) -/
def streamSpec (cfg : Cfg) (ty : Ty) (N : Nat) : List (List Ev) → Option (List Item × Nat)
  | [] => some ([], 0)
  | evs :: rest =>
    match docSpec cfg ty N evs, streamSpec cfg ty N rest with
    | some r, some (its, k) => some (r.1 ++ its, r.2.2 + k)
    | _, _ => none

/-- the iterator at a document boundary, in front of one served document -/
theorem iter_docB {L : AliasLimits} {ob : Option Limits} {d : Doc} {evs : List Ev} (h : DocServe L ob d evs)
    {q : Pump} (hq : BoundaryB L ob q) (hl : q.look = none) (le : Loc) (X : List RawItem) (cfg : Cfg) (ty : Ty)
    (N : Nat) (r : Rounds) (hr : docSpec cfg ty N evs = some r) :
    RoundsSpec L ob cfg ty X q (.ev (.docStart d.2.1) d.2.2.1 :: (itemsOf d.1 ++ .ev .docEnd le :: X)) r := by
  obtain ⟨hq1, -⟩ := startB_start hq hl d.2.2.1
  have hpk : Cur.peek (.live q (.ev (.docStart d.2.1) d.2.2.1 :: (itemsOf d.1 ++ .ev .docEnd le :: X))) =
      Cur.peek (.live (startB ob q d.2.2.1) (itemsOf d.1 ++ .ev .docEnd le :: X)) :=
    peek_congr hl hq1.look (step_docStartB hq d.2.1 d.2.2.1 _)
  have hK := docCtxB_ok (ob := ob) h.ok (.ev .docEnd le :: X)
  have hI : LiveInvB L ob (.ev .docEnd le :: X) (AtEndB L ob (.ev .docEnd le :: X))
      (.live (startB ob q d.2.2.1) (itemsOf d.1 ++ .ev .docEnd le :: X)) evs :=
    ⟨_, _, rfl, hq1.statB, ⟨itemsOf d.1, rfl, itemsOf_neutral d.1⟩, .inl ⟨hq1.look, h.run _ _ hq1⟩⟩
  have hs : FSim (docCtxB L ob (.ev .docEnd le :: X) evs) (.replay evs 0 none)
      (.live (startB ob q d.2.2.1) (itemsOf d.1 ++ .ev .docEnd le :: X)) :=
    FSim.mk' hK (Nat.zero_le _) (by simpa [docCtxB] using hI)
  obtain ⟨its', hsame, hT, hF⟩ := iter_rounds h.ok le X cfg ty N _ _ _ r hs hr
  refine ⟨its', hsame, ?_, ?_⟩
  · intro hT'
    obtain ⟨q2, hb2, hl2, hp2, hf2, heq⟩ := hT hT'
    exact ⟨q2, hb2, hl2, hp2, hf2, fun m acc => (iterLoop_congr cfg ty hpk _ acc).trans (heq m acc)⟩
  · intro hF'
    obtain ⟨h1, h2⟩ := hF hF'
    refine ⟨fun l1 hX m acc => (iterLoop_congr cfg ty hpk _ acc).trans (h1 l1 hX m acc), fun ex ls Y hX => ?_⟩
    obtain ⟨q4, hs4, hp4, heq⟩ := h2 ex ls Y hX
    exact ⟨q4, hs4, hp4, fun m acc => (iterLoop_congr cfg ty hpk _ acc).trans (heq m acc)⟩

/-- the end of the stream, at a document boundary after at least one event, with a silent `finish()` -/
theorem iter_endB {L : AliasLimits} {ob : Option Limits} {q : Pump} (hq : BoundaryB L ob q) (hl : q.look = none)
    (hp : q.producedAny = true) (hf : FinOk q) (l1 : Loc) (cfg : Cfg) (ty : Ty) (m : Nat) (acc : List Item) :
    iterLoop cfg ty (m + 1) q [.ev .streamEnd l1] acc = acc := by
  have hn : (nextImpl q [.ev .streamEnd l1]).1 = .eof ∧ FinOk (nextImpl q [.ev .streamEnd l1]).2.1 := by
    rw [nextImpl_inject_nil hq.inj]
    cases hb : q.budget with
    | none =>
      refine ⟨by simp [parserLoop, hb, hp], ?_⟩
      simp [parserLoop, hb, hp, FinOk, Pump.finish]
    | some E =>
      have hbs := hq.bud
      rw [hb] at hbs
      cases ob with
      | none => exact hbs.elim
      | some lim =>
        have ho := observe_frame_stat (ev := .streamEnd) hbs rfl
        have hf' : E.finalize.2 = none := by
          simpa [FinOk, Pump.finish, hb] using hf
        refine ⟨by simp [parserLoop, hb, ho, Except.map, hp], ?_⟩
        simp [parserLoop, hb, ho, Except.map, hp, FinOk, Pump.finish, hf']
  rcases hx : nextImpl q [.ev .streamEnd l1] with ⟨s, p', r⟩
  rw [hx] at hn
  obtain ⟨hs, hf'⟩ := hn
  simp only at hs hf'
  subst hs
  simp only [FinOk] at hf'
  simp [iterLoop, Cur.peek, Pump.peek, hl, hx, finishCur, hf']

/-- the iterator over a stream of served documents: the items of `streamSpec`, given fuel for all rounds -/
theorem iter_docsB {L : AliasLimits} {ob : Option Limits}
    (l1 : Loc) (cfg : Cfg) (ty : Ty) (N : Nat) :
    ∀ (ds : List Doc) (evss : List (List Ev)) (q : Pump) (fuel : Nat) (acc its : List Item) (k : Nat),
      DocsServe L ob ds evss → BoundaryB L ob q → q.look = none → (ds = [] → q.producedAny = true ∧ FinOk q) →
      streamSpec cfg ty N evss = some (its, k) → k + 1 ≤ fuel →
      ∃ items, iterLoop cfg ty fuel q (docsItems ds ++ [.ev .streamEnd l1]) acc = acc ++ items ∧
        sameItems items its := by
  intro ds
  induction ds with
  | nil =>
    intro evss q fuel acc its k hds hq hl hp hspec hf
    cases evss with
    | cons _ _ => exact hds.elim
    | nil =>
      simp only [streamSpec, Option.some.injEq, Prod.mk.injEq] at hspec
      obtain ⟨rfl, rfl⟩ := hspec
      obtain ⟨m, rfl⟩ : ∃ m, fuel = m + 1 := ⟨fuel - 1, by omega⟩
      exact ⟨[], by simpa [docsItems] using iter_endB hq hl (hp rfl).1 (hp rfl).2 l1 cfg ty m acc, .nil⟩
  | cons d ds ih =>
    intro evss q fuel acc its k hds hq hl _ hspec hf
    cases evss with
    | nil => exact hds.elim
    | cons evs evss' =>
      obtain ⟨hd, hrest⟩ := hds
      simp only [streamSpec] at hspec
      cases hr : docSpec cfg ty N evs with
      | none => rw [hr] at hspec; cases hspec
      | some r =>
        rw [hr] at hspec
        cases hr2 : streamSpec cfg ty N evss' with
        | none => rw [hr2] at hspec; cases hspec
        | some r2 =>
          obtain ⟨its2, k2⟩ := r2
          rw [hr2] at hspec
          simp only [Option.some.injEq, Prod.mk.injEq] at hspec
          obtain ⟨rfl, rfl⟩ := hspec
          obtain ⟨t, ex, ls, le⟩ := d
          have hdoc := iter_docB hd hq hl le (docsItems ds ++ [.ev .streamEnd l1]) cfg ty N r hr
          rw [docsItems_cons]
          obtain ⟨its', hsame, hT, hF⟩ := hdoc
          obtain ⟨m, rfl⟩ : ∃ m, fuel = m + r.2.2 := ⟨fuel - r.2.2, by omega⟩
          have hm : k2 + 1 ≤ m := by omega
          cases hended : r.2.1 with
          | true =>
            obtain ⟨q2, hb2, hl2, hp2, hf2, heq⟩ := hT hended
            obtain ⟨items, hi, hsame2⟩ := ih evss' q2 m (acc ++ its') its2 k2 hrest hb2 hl2 (fun _ => ⟨hp2, hf2⟩) hr2 hm
            refine ⟨its' ++ items, by rw [heq, hi, List.append_assoc], sameItems.append hsame hsame2⟩
          | false =>
            obtain ⟨h1, h2⟩ := hF hended
            by_cases hds' : ds = []
            · subst hds'
              cases evss' with
              | cons _ _ => exact hrest.elim
              | nil =>
                simp only [streamSpec, Option.some.injEq, Prod.mk.injEq] at hr2
                obtain ⟨rfl, rfl⟩ := hr2
                refine ⟨its', h1 l1 rfl m acc, ?_⟩
                simpa using hsame
            · obtain ⟨d2, ds2, rfl⟩ := List.exists_cons_of_ne_nil hds'
              obtain ⟨t2, ex2, ls2, le2⟩ := d2
              obtain ⟨q4, hs4, hp4, heq⟩ := h2 ex2 ls2 _ (docsItems_cons t2 ex2 ls2 le2 ds2 _)
              -- the recovery has consumed the next `DocumentStart` marker: put it back
              obtain ⟨hb4, hq4⟩ := start_readd hs4
              have hpk4 : Cur.peek (.live q4 (itemsOf t2 ++ .ev .docEnd le2 :: (docsItems ds2 ++ [.ev .streamEnd l1]))) =
                  Cur.peek (.live q4 (.ev (.docStart ex2) ls2 ::
                    (itemsOf t2 ++ .ev .docEnd le2 :: (docsItems ds2 ++ [.ev .streamEnd l1])))) := by
                symm
                apply peek_congr hs4.look hs4.look
                rw [step_docStartB hb4 ex2 ls2, hq4]
              obtain ⟨items, hi, hsame2⟩ := ih evss' q4 m (acc ++ its') its2 k2 hrest hb4 hs4.look
                (fun h => absurd h hds') hr2 hm
              refine ⟨its' ++ items, ?_, sameItems.append hsame hsame2⟩
              rw [heq, iterLoop_congr cfg ty hpk4, ← docsItems_cons, hi, List.append_assoc]

/-! ### the start of the stream -/

/-- the pump of the `read*` iterators: alias limits `L`, and the per-document enforcer `ob` (if any) -/
def pumpOf (L : AliasLimits) (ob : Option Limits) : Pump :=
  { limits := L, budget := ob.map fun lim => Enf.new lim true }

/-- the pump state after the stream-start marker -/
theorem start_boundaryB (L : AliasLimits) (ob : Option Limits) (hmax : ∀ lim, ob = some lim → 1 ≤ lim.maxEvents)
    (l0 : Loc) (X : List RawItem) :
    ∃ q, BoundaryB L ob q ∧ q.look = none ∧
      Cur.peek (.live (pumpOf L ob) (.ev .streamStart l0 :: X)) = Cur.peek (.live q X) := by
  cases ob with
  | none =>
    refine ⟨{ limits := L, lastLoc := l0 }, ⟨trivial, rfl, rfl, rfl, rfl, rfl, rfl, rfl, rfl⟩, rfl, ?_⟩
    apply peek_congr rfl rfl
    simp [pumpOf, nextImpl, serveInject, parserLoop]
  | some lim =>
    have h1 := hmax lim rfl
    have hst := enfStat_new lim h1
    have ho := observe_frame_stat (ev := .streamStart) hst rfl
    refine ⟨{ limits := L, lastLoc := l0, budget := some (Enf.new lim true) },
      ⟨hst, rfl, rfl, rfl, rfl, rfl, rfl, rfl, rfl⟩, rfl, ?_⟩
    apply peek_congr rfl rfl
    simp [pumpOf, nextImpl, serveInject, parserLoop, ho, Except.map]

/-! ### documents whose rounds fit into the loop fuel -/

/-- every document needs at most (number of its parser items) + 2 rounds -/
def Fits (cfg : Cfg) (ty : Ty) : List Doc → List (List Ev) → Prop
  | [], [] => True
  | d :: ds, evs :: evss => (∃ r, docSpec cfg ty ((itemsOf d.1).length + 2) evs = some r) ∧ Fits cfg ty ds evss
  | _, _ => False

theorem docsItems_length_cons (d : Doc) (ds : List Doc) :
    (docsItems (d :: ds)).length = (itemsOf d.1).length + 2 + (docsItems ds).length := by
  obtain ⟨t, ex, ls, le⟩ := d
  simp [docsItems]
  omega

theorem docSpec_mono {cfg : Cfg} {ty : Ty} {n N : Nat} {evs : List Ev} {r : Rounds}
    (h : docSpec cfg ty n evs = some r) (hn : n ≤ N) : docSpec cfg ty N evs = some r := by
  obtain ⟨k, rfl⟩ : ∃ k, N = n + k := ⟨N - n, by omega⟩
  exact docRounds_mono cfg ty n _ r h k

/-- the rounds of a stream of fitting documents: they fit into the parser items of the documents -/
theorem fits_streamSpec (cfg : Cfg) (ty : Ty) (N : Nat) : ∀ (ds : List Doc) (evss : List (List Ev)),
    Fits cfg ty ds evss → (docsItems ds).length ≤ N →
    ∃ its k, streamSpec cfg ty N evss = some (its, k) ∧ k ≤ (docsItems ds).length := by
  intro ds
  induction ds with
  | nil =>
    intro evss h _
    cases evss with
    | nil => exact ⟨[], 0, rfl, Nat.zero_le _⟩
    | cons _ _ => exact h.elim
  | cons d ds ih =>
    intro evss h hN
    cases evss with
    | nil => exact h.elim
    | cons evs evss =>
      obtain ⟨⟨r, hr⟩, hrest⟩ := h
      rw [docsItems_length_cons] at hN
      obtain ⟨its2, k2, hs2, hk2⟩ := ih evss hrest (by omega)
      have hr' := docSpec_mono hr (by omega : (itemsOf d.1).length + 2 ≤ N)
      have hle := docRounds_le cfg ty _ _ r hr
      refine ⟨r.1 ++ its2, r.2.2 + k2, by simp [streamSpec, hr', hs2], ?_⟩
      rw [docsItems_length_cons]
      omega

/-! ### documents that are not left over: one round -/

theorem docRounds_at_end (cfg : Cfg) (ty : Ty) (n : Nat) {c c' : Cur} (h : c.peek = .ok none c') :
    docRounds cfg ty n c = some ([], true, 0) := by
  cases n <;> simp [docRounds, h]

/-- a document that is not left over takes ONE round, and its items are those of `C11T.perDoc` -/
theorem docSpec_of_perDoc (cfg : Cfg) (ty : Ty) {evs : List Ev} {e0 : Ev} {tl : List Ev} (hcons : evs = e0 :: tl)
    (hopen : Lemmas.C05.Ev.isOpen e0 = true) (hsc : ∀ v tg rt st a l, e0 = .scalar v tg rt st a l → tl = [])
    (n : Nat) :
    match Lemmas.C11T.perDoc cfg ty evs with
    | .skipped => docSpec cfg ty (n + 1) evs = some ([], true, 1)
    | .clean v => docSpec cfg ty (n + 1) evs = some ([.ok v], true, 1)
    | .failed => ∃ e, docSpec cfg ty (n + 1) evs = some ([.error e], false, 1)
    | .leftover v => ∃ c2, deser (fuelFor 100000) cfg ty false false (.replay evs 0 none) = .ok v c2 ∧
        docSpec cfg ty (n + 1) evs = (docRounds cfg ty n c2).map (Rounds.push [.ok v]) := by
  subst hcons
  have hpk : Cur.peek (.replay (e0 :: tl) 0 none) = .ok (some e0) (.replay (e0 :: tl) 0 none) := rfl
  -- the deserializer at the root
  have hrun : evIsNull e0 = false →
      match (match deser (fuelFor 100000) cfg ty false false (.replay (e0 :: tl) 0 none) with
        | .err _ _ => Lemmas.C11T.DocRes.failed
        | .ok v c => match c.peek with
          | .ok none _ => Lemmas.C11T.DocRes.clean v
          | _ => Lemmas.C11T.DocRes.leftover v) with
      | .skipped => docSpec cfg ty (n + 1) (e0 :: tl) = some ([], true, 1)
      | .clean v => docSpec cfg ty (n + 1) (e0 :: tl) = some ([.ok v], true, 1)
      | .failed => ∃ e, docSpec cfg ty (n + 1) (e0 :: tl) = some ([.error e], false, 1)
      | .leftover v => ∃ c2, deser (fuelFor 100000) cfg ty false false (.replay (e0 :: tl) 0 none) = .ok v c2 ∧
          docSpec cfg ty (n + 1) (e0 :: tl) = (docRounds cfg ty n c2).map (Rounds.push [.ok v]) := by
    intro hnull
    have hdoc : docSpec cfg ty (n + 1) (e0 :: tl) =
        (match deser (fuelFor 100000) cfg ty false false (.replay (e0 :: tl) 0 none) with
          | .err e _ => some ([.error e], false, 1)
          | .ok v c2 => (docRounds cfg ty n c2).map (Rounds.push [.ok v])) := by
      simp only [docSpec, docRounds, hpk]
      cases e0 <;> first | (simp only [hnull]; rfl) | simp [Lemmas.C05.Ev.isOpen] at hopen
    cases hL : deser (fuelFor 100000) cfg ty false false (.replay (e0 :: tl) 0 none) with
    | err e c => exact ⟨e, by rw [hdoc, hL]⟩
    | ok v c =>
      simp only []
      cases hpk2 : c.peek with
      | err e c2 => exact ⟨c, rfl, by rw [hdoc, hL]⟩
      | ok o c2 =>
        cases o with
        | some e => exact ⟨c, rfl, by rw [hdoc, hL]⟩
        | none =>
          show docSpec cfg ty (n + 1) (e0 :: tl) = some ([.ok v], true, 1)
          rw [hdoc, hL]
          simp only [docRounds_at_end cfg ty n hpk2, Option.map_some]
          rfl
  unfold Lemmas.C11T.perDoc
  simp only [List.head?_cons]
  cases e0 with
  | scalar s tg rt st a l =>
    simp only []
    by_cases hn : scalarIsNullish s st = true
    · simp only [hn, if_true]
      have htl := hsc s tg rt st a l rfl
      subst htl
      have hnx : Cur.next (.replay [Ev.scalar s tg rt st a l] 0 none) =
          .ok (some (Ev.scalar s tg rt st a l)) (.replay [Ev.scalar s tg rt st a l] 1 none) := rfl
      have hend : Cur.peek (.replay [Ev.scalar s tg rt st a l] 1 none) =
          .ok none (.replay [Ev.scalar s tg rt st a l] 1 none) := rfl
      simp only [docSpec, docRounds, hpk, evIsNull, hn, if_true, hnx, docRounds_at_end cfg ty n hend, Option.map_some]
      rfl
    · simp only [hn, if_false, Bool.false_eq_true]
      exact hrun (by simpa [evIsNull] using hn)
  | seqStart a tg rt l => exact hrun rfl
  | mapStart a l => exact hrun rfl
  | seqEnd l => simp [Lemmas.C05.Ev.isOpen] at hopen
  | mapEnd l => simp [Lemmas.C05.Ev.isOpen] at hopen

/-- a good document that is not left over fits (one round), and its items are those of `C11T.perDoc` -/
theorem docSpec_of_docOk {L : AliasLimits} {t : LNode} {evs : List Ev} (h : DocOk L t evs) (cfg : Cfg) (ty : Ty)
    (hnl : (Lemmas.C11T.perDoc cfg ty evs).isLeftover = false) (n : Nat) :
    ∃ r, docSpec cfg ty (n + 1) evs = some r ∧ sameItems r.1 (Lemmas.C11T.docItems (Lemmas.C11T.perDoc cfg ty evs)) := by
  obtain ⟨nd, hn⟩ := h.tree
  obtain ⟨e0, tl, hcons, hopen, -⟩ := Lemmas.C05.eflatten_cons nd
  rw [← hn] at hcons
  have hsc : ∀ v tg rt st a l, e0 = .scalar v tg rt st a l → tl = [] := by
    intro v tg rt st a l he
    subst he
    rw [hn] at hcons
    cases nd <;> simp [eflatten] at hcons
    exact hcons.2
  have := docSpec_of_perDoc cfg ty hcons hopen hsc n
  cases hp : Lemmas.C11T.perDoc cfg ty evs with
  | skipped => rw [hp] at this; exact ⟨_, this, .nil⟩
  | clean v => rw [hp] at this; exact ⟨_, this, .cons rfl .nil⟩
  | failed => rw [hp] at this; obtain ⟨e, he⟩ := this; exact ⟨_, he, .cons trivial .nil⟩
  | leftover v => rw [hp] at hnl; cases hnl

/-- a stream without left-over documents fits -/
theorem fits_of_not_leftover {L : AliasLimits} (cfg : Cfg) (ty : Ty) : ∀ (ds : List Doc) (evss : List (List Ev)),
    Lemmas.C11T.DocsOk L ds evss → (∀ evs ∈ evss, (Lemmas.C11T.perDoc cfg ty evs).isLeftover = false) →
    Fits cfg ty ds evss
  | [], [], _, _ => trivial
  | d :: ds, evs :: evss, h, hnl => by
    obtain ⟨r, hr, -⟩ := docSpec_of_docOk h.1 cfg ty (hnl evs (List.mem_cons_self ..)) ((itemsOf d.1).length + 1)
    exact ⟨⟨r, hr⟩, fits_of_not_leftover cfg ty ds evss h.2 (fun e he => hnl e (List.mem_cons_of_mem _ he))⟩
  | [], _ :: _, h, _ => h.elim
  | _ :: _, [], h, _ => h.elim

end SaphyrVerif.Lemmas.C11B
