import SaphyrVerif.Lemmas.C05_MapAccess
import SaphyrVerif.Lemmas.C05_Seq
import SaphyrVerif.Lemmas.C05_Any
/-!
Helper lemmas for C05, part 11: `nextValue`, recorded keys (`deserKey`), and the consumer loops of the map
access (`mapEntries`, `structEntries`), `deserMapLike`.
-/
namespace SaphyrVerif.Lemmas.C05
open SaphyrVerif SaphyrVerif.Scalars SaphyrVerif.Pump SaphyrVerif.De SaphyrVerif.Spec

/-! ### `nextValue` -/

theorem nextValue_spec (X : MCtx) (cfg : Cfg) (df : Bool) (vt : Ty) {v : ENode} {st' : ASt} {seen' : List FP} {m' : MA}
    {c' : Cur} (hrel : RelV X v st' seen' m' c') (href : Ref df cfg vt v) :
    match interp cfg vt v with
    | some val => ∃ n m'' c'', Rel X st' seen' m'' c'' ∧
        ∀ fuel, n ≤ fuel → nextValue fuel cfg vt c' m' = .ok (val, m'') c''
    | none => ∃ n, ∀ fuel, n ≤ fuel → IsErr (nextValue fuel cfg vt c' m') ∨
        (df = true ∧ ∃ val m'' j, nextValue fuel cfg vt c' m' = .ok (val, m'') (.replay X.buf j X.ref) ∧
          ∀ c'', Stays X.buf X.ref j 1 c'' → ∃ j', c'' = .replay X.buf j' X.ref ∧ X.i0 < j' ∧ j' < X.iEnd) := by
  cases st' with
  | live rem q =>
    obtain ⟨hhave, hpv, i, rfl, hi0, ⟨el, rest, hdrop⟩, hend, hp, hfl, hst, hs⟩ := hrel
    obtain ⟨n0, hn0⟩ := href X.buf i X.ref _ hdrop
    have hstep : ∀ fuel, nextValue (fuel + 1) cfg vt (.replay X.buf i X.ref) m' =
        match deser fuel cfg vt false false (.replay X.buf i X.ref) with
        | .err e c => .err (attachAlias e (Cur.replay X.buf i X.ref).refLoc
            (match X.buf[i]? with | some e => e.loc | none => (Cur.replay X.buf i X.ref).lastLoc)) c
        | .ok val c => .ok (val, { m' with haveKey := false }) c := by
      intro fuel
      rw [nextValue]
      simp only [hhave, hpv, Cur.peek]
      rfl
    cases hint : interp cfg vt v with
    | some val =>
      refine ⟨n0 + 1, { m' with haveKey := false }, .replay X.buf (i + (eflatten v).length) X.ref, ?_, fun fuel hf => ?_⟩
      · exact ⟨_, rfl, by omega, ⟨el, rest, drop_add_of_drop hdrop⟩, by omega, hp, hfl, hst, hs⟩
      · obtain ⟨fuel, rfl⟩ : ∃ f, fuel = f + 1 := ⟨fuel - 1, by omega⟩
        have := hn0 fuel (by omega)
        rw [hint] at this
        simp only [NodeOut] at this
        rw [hstep, this]
    | none =>
      refine ⟨n0 + 1, fun fuel hf => ?_⟩
      obtain ⟨fuel, rfl⟩ : ∃ f, fuel = f + 1 := ⟨fuel - 1, by omega⟩
      have := hn0 fuel (by omega)
      rw [hint] at this
      rw [hstep]
      rcases this with ⟨e, c, he⟩ | ⟨hd, val, j, he, hj1, hj2⟩
      · left; simp [he]
      · right
        refine ⟨hd, val, { m' with haveKey := false }, j, by simp [he], fun c'' hs'' => ?_⟩
        have hdrop' : X.buf.drop i = eflatten v ++ ((eflattenE rem ++ [.mapEnd el]) ++ rest) := by
          rw [hdrop]; simp
        obtain ⟨j', rfl, h1, h2⟩ := deficit_continue hdrop' (by simp [(eflattenE_bal rem).1, Ev.delta]) hj1 hj2 hs''
        exact ⟨j', rfl, by omega, by simp at h2; omega⟩
  | flush q =>
    obtain ⟨hhave, ⟨r, hpv⟩, rfl, hfl, hq, hs⟩ := hrel
    obtain ⟨n0, hn0⟩ := href (eflatten v) 0 (some r) [] (by simp)
    have hstep : ∀ fuel, nextValue (fuel + 1) cfg vt (.replay X.buf X.iEnd X.ref) m' =
        match deser fuel cfg vt false false (.replay (eflatten v) 0 (some r)) with
        | .err e _ => .err (attachAlias e r (match (eflatten v)[0]? with | some e => e.loc | none => 0))
            (.replay X.buf X.iEnd X.ref)
        | .ok val rc' =>
          match rc'.peek with
          | .ok (some ev) _ => .err ⟨"Unexpected", ev.loc, 0⟩ (.replay X.buf X.iEnd X.ref)
          | _ => .ok (val, { m' with haveKey := false, pendingValue := none }) (.replay X.buf X.iEnd X.ref) := by
      intro fuel
      rw [nextValue]
      simp only [hhave, hpv]
      rfl
    cases hint : interp cfg vt v with
    | some val =>
      refine ⟨n0 + 1, { m' with haveKey := false, pendingValue := none }, .replay X.buf X.iEnd X.ref, ?_, fun fuel hf => ?_⟩
      · exact ⟨rfl, hfl, hq, hs⟩
      · obtain ⟨fuel, rfl⟩ : ∃ f, fuel = f + 1 := ⟨fuel - 1, by omega⟩
        have := hn0 fuel (by omega)
        rw [hint] at this
        simp only [NodeOut] at this
        rw [hstep, this]
        simp [Cur.peek]
    | none =>
      refine ⟨n0 + 1, fun fuel hf => ?_⟩
      obtain ⟨fuel, rfl⟩ : ∃ f, fuel = f + 1 := ⟨fuel - 1, by omega⟩
      have := hn0 fuel (by omega)
      rw [hint] at this
      rw [hstep]
      left
      rcases this with ⟨e, c, he⟩ | ⟨hd, val, j, he, hj1, hj2⟩
      · simp [he]
      · rw [he]
        have : ∃ ev, (eflatten v)[j]? = some ev := by
          have : j < (eflatten v).length := by omega
          exact ⟨_, List.getElem?_eq_getElem this⟩
        obtain ⟨ev, hev⟩ := this
        simp [Cur.peek, hev]

/-! ### recorded keys -/

/-- a key position of type `kt`: like a value position, except that an empty mapping in `Option` key position is `None` -/
def keyFn (cfg : Cfg) (kt : Ty) (k : ENode) : Option Val :=
  match isOptionKeyTy kt, k with
  | true, .map _ _ _ [] => some .none
  | _, _ => interp cfg kt k

/-- a field identifier -/
def identFn (cfg : Cfg) (k : ENode) : Option Val := (identOf cfg k).map .str

theorem deserKey_step_ty (fuel : Nat) (cfg : Cfg) (kt : Ty) (events : List Ev) (kemn : Bool) :
    deserKey (fuel + 1) cfg (.inl kt) events kemn =
      match deser fuel cfg kt true kemn (.replay events 0 none) with
      | .err e _ => .error (if (e.loc == 0 && e.kind != "AliasError") = true then
          { e with loc := (Cur.replay events 0 none).refLoc } else e)
      | .ok v c' =>
        match c'.peek with
        | .ok (some ev) _ => .error ⟨"Unexpected", ev.loc, 0⟩
        | _ => .ok v := by
  rw [deserKey]; rfl

theorem deserKey_step_ident (fuel : Nat) (cfg : Cfg) (events : List Ev) (kemn : Bool) :
    deserKey (fuel + 1) cfg (.inr ()) events kemn =
      match deserStr cfg (.replay events 0 none) with
      | .err e _ => .error (if (e.loc == 0 && e.kind != "AliasError") = true then
          { e with loc := (Cur.replay events 0 none).refLoc } else e)
      | .ok s c' =>
        match c'.peek with
        | .ok (some ev) _ => .error ⟨"Unexpected", ev.loc, 0⟩
        | _ => .ok (.str s) := by
  rw [deserKey]; rfl

theorem keyRef_ident (cfg : Cfg) (k : ENode) : KeyRef cfg (.inr ()) (identFn cfg) k := by
  refine ⟨1, fun fuel hf => ?_⟩
  obtain ⟨fuel, rfl⟩ : ∃ f, fuel = f + 1 := ⟨fuel - 1, by omega⟩
  rw [deserKey_step_ident]
  cases k with
  | scalar v tag rt st a l =>
    have e1 : eflatten (.scalar v tag rt st a l) = [.scalar v tag rt st a l] := by simp [eflatten]
    rw [e1]
    have h : [Ev.scalar v tag rt st a l].drop 0 = .scalar v tag rt st a l :: [] := rfl
    have := deserStr_scalar none cfg h
    simp only [identFn]
    cases hid : identOf cfg (.scalar v tag rt st a l) with
    | none =>
      simp only [hid, expect_none] at this
      obtain ⟨e, c, he⟩ := this
      simp [he]
    | some s =>
      simp only [hid, expect_some] at this
      simp [this, Cur.peek]
  | seq a tag rt l el items =>
    have h : (eflatten (.seq a tag rt l el items)).drop 0 = .seqStart a tag rt l :: (eflattenL items ++ [.seqEnd el]) := by
      simp [eflatten]
    obtain ⟨e, c, he⟩ := deserStr_other none cfg h rfl
    simp [he, identFn, identOf]
  | map a l el es =>
    have h : (eflatten (.map a l el es)).drop 0 = .mapStart a l :: (eflattenE es ++ [.mapEnd el]) := by
      simp [eflatten]
    obtain ⟨e, c, he⟩ := deserStr_other none cfg h rfl
    simp [he, identFn, identOf]

theorem deser_kemn (cfg : Cfg) (a : Nat) (l el : Loc) : ∀ (kt : Ty), isOptionKeyTy kt = true → ∃ n, ∀ fuel, n ≤ fuel →
    deser fuel cfg kt true true (.replay [.mapStart a l, .mapEnd el] 0 none) =
      .ok .none (.replay [.mapStart a l, .mapEnd el] 2 none)
  | .newtype t, h => by
    obtain ⟨n, hn⟩ := deser_kemn cfg a l el t (by simpa [isOptionKeyTy] using h)
    refine ⟨n + 1, fun fuel hf => ?_⟩
    obtain ⟨fuel, rfl⟩ : ∃ f, fuel = f + 1 := ⟨fuel - 1, by omega⟩
    rw [deser]
    exact hn fuel (by omega)
  | .option t, _ => ⟨1, fun fuel hf => by
    obtain ⟨fuel, rfl⟩ : ∃ f, fuel = f + 1 := ⟨fuel - 1, by omega⟩
    rw [deser]
    simp [Cur.next]⟩
  | .bool, h | .int _ _, h | .float _, h | .char, h | .string, h | .unit, h | .bytes, h | .seq _, h | .tuple _, h
  | .map _ _, h | .struct _ _, h | .enum _ _, h | .any, h => by simp [isOptionKeyTy] at h

theorem kemnOf_fpOf (k : ENode) : kemnOf (fpOf k) = true ↔ ∃ a l el, k = .map a l el [] := by
  cases k with
  | scalar => simp [kemnOf]
  | seq => simp [kemnOf]
  | map a l el es =>
    cases es with
    | nil => simp [kemnOf]
    | cons e es => obtain ⟨k1, v1⟩ := e; simp [kemnOf]

theorem keyRef_ty {cfg : Cfg} {df : Bool} {kt : Ty} {k : ENode} (href : Ref df cfg kt k) :
    KeyRef cfg (.inl kt) (keyFn cfg kt) k := by
  by_cases hA : kemnOf (fpOf k) = true ∧ isOptionKeyTy kt = true
  · obtain ⟨hk, hopt⟩ := hA
    obtain ⟨a, l, el, rfl⟩ := (kemnOf_fpOf k).mp hk
    obtain ⟨n, hn⟩ := deser_kemn cfg a l el kt hopt
    refine ⟨n + 1, fun fuel hf => ?_⟩
    obtain ⟨fuel, rfl⟩ : ∃ f, fuel = f + 1 := ⟨fuel - 1, by omega⟩
    rw [deserKey_step_ty, hk]
    have e1 : eflatten (.map a l el []) = [.mapStart a l, .mapEnd el] := by simp [eflatten]
    rw [e1, hn fuel (by omega)]
    simp [keyFn, hopt, Cur.peek]
  · have hkf : keyFn cfg kt k = interp cfg kt k := by
      simp only [keyFn]
      cases hopt : isOptionKeyTy kt with
      | false => rfl
      | true =>
        cases k with
        | scalar => rfl
        | seq => rfl
        | map a l el es =>
          cases es with
          | nil => exact absurd ⟨by simp [kemnOf], hopt⟩ hA
          | cons e es => rfl
    have hfl : ∀ fuel c, deser fuel cfg kt true (kemnOf (fpOf k)) c = deser fuel cfg kt false false c := by
      intro fuel c
      apply deser_flags
      cases hk : kemnOf (fpOf k) with
      | false => left; simp
      | true =>
        right
        cases hopt : isOptionKeyTy kt with
        | false => rfl
        | true => exact absurd ⟨hk, hopt⟩ hA
    obtain ⟨n, hn⟩ := href (eflatten k) 0 none [] (by simp)
    refine ⟨n + 1, fun fuel hf => ?_⟩
    obtain ⟨fuel, rfl⟩ : ∃ f, fuel = f + 1 := ⟨fuel - 1, by omega⟩
    rw [deserKey_step_ty, hfl, hkf]
    rcases (hn fuel (by omega)).cases with ⟨v, hv, hx⟩ | ⟨hv, e, c, hx⟩ | ⟨hv, hd, v, j, hx, hj1, hj2⟩ <;>
      simp only [hv, hx]
    · simp [Cur.peek]
    · simp
    · have : ∃ ev, (eflatten k)[j]? = some ev := ⟨_, List.getElem?_eq_getElem (by omega)⟩
      obtain ⟨ev, hev⟩ := this
      simp [Cur.peek, hev]

/-! ### the `HashMap` visitor -/

/-- outcome of a consumer loop of the map access -/
def LoopOut {α : Type} (X : MCtx) (df : Bool) (exp : Option α) (x : R α) : Prop :=
  match exp with
  | some a => x = .ok a (.replay X.buf X.iEnd X.ref)
  | none => IsErr x ∨ (df = true ∧ ∃ a j, x = .ok a (.replay X.buf j X.ref) ∧ X.i0 < j ∧ j < X.iEnd)

theorem mapEntries_step (fuel : Nat) (cfg : Cfg) (kt vt : Ty) (c : Cur) (m : MA) (acc : List (Val × Val)) :
    mapEntries (fuel + 1) cfg kt vt c m acc =
      match nextKey fuel cfg (.inl kt) c m with
      | .err e c => .err e c
      | .ok (.done, _) c => .ok acc c
      | .ok (.key k _, m) c =>
        match nextValue fuel cfg vt c m with
        | .err e c => .err e c
        | .ok (v, m) c => mapEntries fuel cfg kt vt c m (acc ++ [(k, v)]) := by
  rw [mapEntries]; rfl

theorem mapEntries_spec (X : MCtx) (cfg : Cfg) (df : Bool) (kt vt : Ty) (d : Nat)
    (hK : ∀ e, EntOK d e → KeyRef cfg (.inl kt) (keyFn cfg kt) e.1) (hV : ∀ e, EntOK d e → Ref df cfg vt e.2) :
    ∀ (st : ASt) (seen : List FP) (m : MA) (c : Cur), st.OK d → Rel X st seen m c →
      ∃ n, ∀ fuel, n ≤ fuel → ∀ acc,
        LoopOut X df (((remaining cfg.dup st seen).bind (pairsFrom (keyFn cfg kt) (interp cfg vt))).map (acc ++ ·))
          (mapEntries fuel cfg kt vt c m acc) := by
  intro st
  induction st using ASt.wf_induction with
  | h st ih =>
    intro seen m c hok hrel
    have hnk := nextKey_spec X cfg (.inl kt) (keyFn cfg kt) d hK seen st m c hok hrel
    rw [remaining_step]
    cases hstep : nextStep cfg.dup st seen with
    | fail =>
      rw [hstep] at hnk
      obtain ⟨n, hn⟩ := hnk
      refine ⟨n + 1, fun fuel hf acc => ?_⟩
      obtain ⟨fuel, rfl⟩ : ∃ f, fuel = f + 1 := ⟨fuel - 1, by omega⟩
      obtain ⟨e, c', he⟩ := hn fuel (by omega)
      rw [mapEntries_step, he]
      exact Or.inl (by simp)
    | done =>
      rw [hstep] at hnk
      obtain ⟨n, m', hn⟩ := hnk
      refine ⟨n + 1, fun fuel hf acc => ?_⟩
      obtain ⟨fuel, rfl⟩ : ∃ f, fuel = f + 1 := ⟨fuel - 1, by omega⟩
      rw [mapEntries_step, hn fuel (by omega)]
      simp [pairsFrom, LoopOut]
    | deliver k v st' =>
      rw [hstep] at hnk
      simp only [NKOut] at hnk
      obtain ⟨hent, hok'⟩ := nextStep_ok hok hstep
      have hlt := nextStep_lt hstep
      simp only []
      cases hk : keyFn cfg kt k with
      | none =>
        simp only [hk] at hnk
        obtain ⟨n, hn⟩ := hnk
        refine ⟨n + 1, fun fuel hf acc => ?_⟩
        obtain ⟨fuel, rfl⟩ : ∃ f, fuel = f + 1 := ⟨fuel - 1, by omega⟩
        obtain ⟨e, c', he⟩ := hn fuel (by omega)
        rw [mapEntries_step, he]
        have : ((remaining cfg.dup st' (fpOf k :: seen)).map ((k, v) :: ·)).bind
            (pairsFrom (keyFn cfg kt) (interp cfg vt)) = none := by
          cases remaining cfg.dup st' (fpOf k :: seen) <;> simp [pairsFrom_cons, hk]
        rw [this]
        exact Or.inl (by simp)
      | some kv =>
        simp only [hk] at hnk
        obtain ⟨n1, m1, c1, hrelv, hn1⟩ := hnk
        have hnv := nextValue_spec X cfg df vt hrelv (hV (k, v) hent)
        cases hv : interp cfg vt v with
        | none =>
          simp only [hv] at hnv
          obtain ⟨n2, hn2⟩ := hnv
          refine ⟨max n1 n2 + 1, fun fuel hf acc => ?_⟩
          obtain ⟨fuel, rfl⟩ : ∃ f, fuel = f + 1 := ⟨fuel - 1, by omega⟩
          rw [mapEntries_step, hn1 fuel (by omega)]
          simp only []
          have : ((remaining cfg.dup st' (fpOf k :: seen)).map ((k, v) :: ·)).bind
              (pairsFrom (keyFn cfg kt) (interp cfg vt)) = none := by
            cases remaining cfg.dup st' (fpOf k :: seen) <;> simp [pairsFrom_cons, hk, hv]
          rw [this]
          rcases hn2 fuel (by omega) with ⟨e, c', he⟩ | ⟨hd, val, m2, j, he, hcont⟩
          · rw [he]; exact Or.inl (by simp)
          · rw [he]
            simp only []
            cases hres : mapEntries fuel cfg kt vt (.replay X.buf j X.ref) m2 (acc ++ [(kv, val)]) with
            | err e c' => exact Or.inl (by simp)
            | ok es c' =>
              obtain ⟨j', rfl, h1, h2⟩ := hcont _ (mapEntries_weak hres)
              exact Or.inr ⟨hd, es, j', rfl, h1, h2⟩
        | some val =>
          simp only [hv] at hnv
          obtain ⟨n2, m2, c2, hrel2, hn2⟩ := hnv
          obtain ⟨n3, hn3⟩ := ih st' hlt (fpOf k :: seen) m2 c2 hok' hrel2
          refine ⟨max n1 (max n2 n3) + 1, fun fuel hf acc => ?_⟩
          obtain ⟨fuel, rfl⟩ : ∃ f, fuel = f + 1 := ⟨fuel - 1, by omega⟩
          rw [mapEntries_step, hn1 fuel (by omega)]
          simp only [hn2 fuel (by omega)]
          have := hn3 fuel (by omega) (acc ++ [(kv, val)])
          cases hrem : remaining cfg.dup st' (fpOf k :: seen) with
          | none => simpa [hrem] using this
          | some es =>
            simp only [hrem, Option.map_some, Option.bind_some, pairsFrom_cons, hk, hv] at this ⊢
            cases hp : pairsFrom (keyFn cfg kt) (interp cfg vt) es with
            | none => simpa [hp] using this
            | some ps => simpa [hp] using this

end SaphyrVerif.Lemmas.C05
