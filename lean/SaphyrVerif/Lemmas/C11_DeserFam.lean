import SaphyrVerif.Lemmas.C11_DeserLe
/-!
Helper lemmas for C11, part 6: the functions of the mutual block of the typed deserializer only move
their cursor forward (induction on the fuel, all functions at once).
-/
namespace SaphyrVerif.Lemmas.C11
open SaphyrVerif SaphyrVerif.Scalars SaphyrVerif.Pump SaphyrVerif.De

/-- all functions of the mutual block, at fuel `n` -/
structure AllLe (n : Nat) : Prop where
  capture : ∀ c, RLe c (capture n c)
  captureSeq : ∀ c fps evs, RLe c (captureSeq n c fps evs)
  captureMap : ∀ c fps evs, RLe c (captureMap n c fps evs)
  mergeSeqBatches : ∀ c bs, RLe c (mergeSeqBatches n c bs)
  pendingFromLive : ∀ c l, RLe c (pendingFromLive n c l)
  collectEntriesFromMap : ∀ c l, RLe c (collectEntriesFromMap n c l)
  collectLoop : ∀ c l fs ms, RLe c (collectLoop n c l fs ms)
  skipOneNode : ∀ c, RLe c (skipOneNode n c)
  skipDepth : ∀ c d, RLe c (skipDepth n c d)
  deser : ∀ cfg ty ik k c, RLe c (deser n cfg ty ik k c)
  bytesLoop : ∀ cfg c acc, RLe c (bytesLoop n cfg c acc)
  deserSeqLike : ∀ cfg sh c, RLe c (deserSeqLike n cfg sh c)
  seqElems : ∀ cfg t c acc, RLe c (seqElems n cfg t c acc)
  tupleElems : ∀ cfg ts c acc, RLe c (tupleElems n cfg ts c acc)
  deserMapLike : ∀ cfg sh c, RLe c (deserMapLike n cfg sh c)
  mapEntries : ∀ cfg kt vt c m acc, RLe c (mapEntries n cfg kt vt c m acc)
  structEntries : ∀ cfg fields deny c m acc, RLe c (structEntries n cfg fields deny c m acc)
  nextKey : ∀ cfg ks c m, RLe c (nextKey n cfg ks c m)
  nextValue : ∀ cfg vt c m, RLe c (nextValue n cfg vt c m)
  deserEnum : ∀ cfg name vs c, RLe c (deserEnum n cfg name vs c)
  collectTaggedSeq : ∀ c d acc, RLe c (collectTaggedSeq n c d acc)
  variantPayload : ∀ cfg vs vn vl mm tg c, RLe c (variantPayload n cfg vs vn vl mm tg c)

theorem allLe_zero : AllLe 0 := by
  constructor <;> intros <;> first
    | (simp only [capture, captureSeq, captureMap, mergeSeqBatches, pendingFromLive, collectEntriesFromMap, collectLoop, skipOneNode, skipDepth, deser, bytesLoop, deserSeqLike, seqElems, tupleElems, deserMapLike, mapEntries, structEntries, nextKey, nextValue, deserEnum, collectTaggedSeq, variantPayload]; exact Le.refl _)
    | (rename_i ts _ _; cases ts <;> simp only [tupleElems] <;> exact Le.refl _)

theorem allLe_succ (n : Nat) (ih : AllLe n) : AllLe (n + 1) := by
  obtain ⟨i0, i1, i2, i3, i4, i5, i6, i7, i8, i9, i10, i11, i12, i13, i14, i15, i16, i17, i18, i19, i20, i21⟩ := ih
  constructor
  · intro c
    simp only [capture]
    have hroot : Root c := trivial
    repeat' split
    all_goals grind (splits := 40) (gen := 40) (ematch := 40)
  · intro c fps evs
    simp only [captureSeq]
    have hroot : Root c := trivial
    repeat' split
    all_goals grind (splits := 40) (gen := 40) (ematch := 40)
  · intro c fps evs
    simp only [captureMap]
    have hroot : Root c := trivial
    repeat' split
    all_goals grind (splits := 40) (gen := 40) (ematch := 40)
  · intro c bs
    simp only [mergeSeqBatches]
    have hroot : Root c := trivial
    repeat' split
    all_goals grind (splits := 40) (gen := 40) (ematch := 40)
  · intro c l
    simp only [pendingFromLive]
    have hroot : Root c := trivial
    repeat' split
    all_goals grind (splits := 40) (gen := 40) (ematch := 40)
  · intro c l
    simp only [collectEntriesFromMap]
    have hroot : Root c := trivial
    repeat' split
    all_goals grind (splits := 40) (gen := 40) (ematch := 40)
  · intro c l fs ms
    simp only [collectLoop]
    have hroot : Root c := trivial
    repeat' split
    all_goals grind (splits := 40) (gen := 40) (ematch := 40)
  · intro c
    simp only [skipOneNode]
    have hroot : Root c := trivial
    repeat' split
    all_goals grind (splits := 40) (gen := 40) (ematch := 40)
  · intro c d
    simp only [skipDepth]
    have hroot : Root c := trivial
    repeat' split
    all_goals grind (splits := 40) (gen := 40) (ematch := 40)
  · intro cfg ty ik k c
    simp only [deser]
    have hroot : Root c := trivial
    repeat' split
    all_goals grind (splits := 40) (gen := 40) (ematch := 40)
  · intro cfg c acc
    simp only [bytesLoop]
    have hroot : Root c := trivial
    repeat' split
    all_goals grind (splits := 40) (gen := 40) (ematch := 40)
  · intro cfg sh c
    simp only [deserSeqLike]
    have hroot : Root c := trivial
    repeat' split
    all_goals grind (splits := 40) (gen := 40) (ematch := 40)
  · intro cfg t c acc
    simp only [seqElems]
    have hroot : Root c := trivial
    repeat' split
    all_goals grind (splits := 40) (gen := 40) (ematch := 40)
  · intro cfg ts c acc
    have hroot : Root c := trivial
    cases ts <;> simp only [tupleElems] <;> (repeat' split) <;> grind (splits := 40) (gen := 40) (ematch := 40)
  · intro cfg sh c
    simp only [deserMapLike]
    have hroot : Root c := trivial
    repeat' split
    all_goals grind (splits := 40) (gen := 40) (ematch := 40)
  · intro cfg kt vt c m acc
    simp only [mapEntries]
    have hroot : Root c := trivial
    repeat' split
    all_goals grind (splits := 40) (gen := 40) (ematch := 40)
  · intro cfg fields deny c m acc
    simp only [structEntries]
    have hroot : Root c := trivial
    repeat' split
    all_goals grind (splits := 40) (gen := 40) (ematch := 40)
  · intro cfg ks c m
    simp only [nextKey]
    have hroot : Root c := trivial
    repeat' split
    all_goals grind (splits := 40) (gen := 40) (ematch := 40)
  · intro cfg vt c m
    simp only [nextValue]
    have hroot : Root c := trivial
    repeat' split
    all_goals grind (splits := 40) (gen := 40) (ematch := 40)
  · intro cfg name vs c
    simp only [deserEnum]
    have hroot : Root c := trivial
    repeat' split
    all_goals grind (splits := 40) (gen := 40) (ematch := 40)
  · intro c d acc
    simp only [collectTaggedSeq]
    have hroot : Root c := trivial
    repeat' split
    all_goals grind (splits := 40) (gen := 40) (ematch := 40)
  · intro cfg vs vn vl mm tg c
    simp only [variantPayload]
    have hroot : Root c := trivial
    grind (splits := 40) (gen := 40) (ematch := 40)

theorem allLe : ∀ n, AllLe n
  | 0 => allLe_zero
  | n + 1 => allLe_succ n (allLe n)

end SaphyrVerif.Lemmas.C11
