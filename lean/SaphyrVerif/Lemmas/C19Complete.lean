import SaphyrVerif.Lemmas.C19Pre
/-!
C19: COMPLETENESS of the evaluator model for the AST grammar of `Spec/Robotics.lean` — the converse of
`Lemmas/C19Ast.lean`: on the rendering of every lexically well-formed syntax tree (nested within the
depth guard) each parser function succeeds, consumes exactly the rendering and returns the reference
evaluation of the tree.  Consequently a scalar has only one evaluation (`Parses` is deterministic up to
the placement of white space), and `mixed_units_rejected` holds in the converse direction.
-/
set_option linter.unusedSimpArgs false
namespace SaphyrVerif.Lemmas.C19
open SaphyrVerif SaphyrVerif.F64 SaphyrVerif.Robotics SaphyrVerif.Spec.Robotics

/-! ## followers -/

/-- bytes that may follow a primary / unary (after white space): a binary operator or `)` -/
def stopU (c : Nat) : Bool := c == 43 || c == 45 || c == 42 || c == 47 || c == 41
/-- bytes that may follow a complete term: `+`, `-`, `)` -/
def stopT (c : Nat) : Bool := c == 43 || c == 45 || c == 41
/-- bytes that may follow a complete expression: `)` -/
def stopE (c : Nat) : Bool := c == 41

/-- `k` is empty or starts with a byte of class `stop` -/
def StopHead (stop : Nat → Bool) (k : List Nat) : Prop := k = [] ∨ ∃ c r, k = c :: r ∧ stop c = true

/-- `k` is white space followed by the end of the input or by a byte of class `stop` -/
def Fol (stop : Nat → Bool) (k : List Nat) : Prop :=
  ∃ ws k', k = ws ++ k' ∧ IsWs ws ∧ StopHead stop k'

theorem stopT_U {c : Nat} (h : stopT c = true) : stopU c = true := by
  simp only [stopT, stopU, Bool.or_eq_true, beq_iff_eq] at h ⊢
  omega

theorem stopE_T {c : Nat} (h : stopE c = true) : stopT c = true := by
  simp only [stopT, stopE, Bool.or_eq_true, beq_iff_eq] at h ⊢
  omega

theorem StopHead.mono {s1 s2 : Nat → Bool} (hs : ∀ c, s1 c = true → s2 c = true) {k : List Nat}
    (h : StopHead s1 k) : StopHead s2 k := by
  rcases h with h | ⟨c, r, h, hc⟩
  · exact Or.inl h
  · exact Or.inr ⟨c, r, h, hs c hc⟩

theorem stopU_facts {c : Nat} (h : stopU c = true) :
    isWs c = false ∧ isIdentCont c = false ∧ isCont c = false := by
  simp only [stopU, Bool.or_eq_true, beq_iff_eq] at h
  rcases h with (((h | h) | h) | h) | h <;> subst h <;> decide

theorem isWs_facts {c : Nat} (h : isWs c = true) :
    isIdentCont c = false ∧ isCont c = false ∧ c ≠ 43 ∧ c ≠ 45 ∧ c ≠ 42 ∧ c ≠ 47 ∧ c ≠ 41 ∧ c ≠ 40 := by
  simp only [isWs, Bool.or_eq_true, beq_iff_eq] at h
  rcases h with ((h | h) | h) | h <;> subst h <;> decide

/-- the head of a follower is white space or a stop byte -/
theorem Fol.head {stop : Nat → Bool} {k : List Nat} (h : Fol stop k) (c : Nat) (r : List Nat) (hk : k = c :: r) :
    isWs c = true ∨ stop c = true := by
  obtain ⟨ws, k', rfl, hws, hk'⟩ := h
  cases ws with
  | nil =>
    rcases hk' with h0 | ⟨c', r', h1, hc'⟩
    · subst h0; cases hk
    · subst h1
      simp only [List.nil_append, List.cons.injEq] at hk
      rw [← hk.1]; exact Or.inr hc'
  | cons w ws =>
    simp only [List.cons_append, List.cons.injEq] at hk
    rw [← hk.1]; exact Or.inl (hws w (by simp))

theorem StopHead.nonWs {stop : Nat → Bool} (hs : ∀ c, stop c = true → isWs c = false) {k : List Nat}
    (h : StopHead stop k) : ∀ c r, k = c :: r → isWs c = false := by
  intro c r hk
  rcases h with h | ⟨c', r', h1, hc'⟩
  · subst h; cases hk
  · subst h1; cases hk; exact hs c hc'

theorem stopU_nonWs (c : Nat) (h : stopU c = true) : isWs c = false := (stopU_facts h).1
theorem stopT_nonWs (c : Nat) (h : stopT c = true) : isWs c = false := stopU_nonWs c (stopT_U h)
theorem stopE_nonWs (c : Nat) (h : stopE c = true) : isWs c = false := stopT_nonWs c (stopE_T h)

/-! ## white space -/

theorem skipWsL_append (ws : List Nat) (hws : IsWs ws) (pre rest : List Nat) :
    skipWsL pre (ws ++ rest) = skipWsL (ws.reverse ++ pre) rest := by
  induction ws generalizing pre with
  | nil => rfl
  | cons c ws ih =>
    have hc : isWs c = true := hws c (by simp)
    simp only [List.cons_append, skipWsL, hc, ↓reduceIte]
    rw [ih (fun x hx => hws x (List.mem_cons_of_mem _ hx))]
    simp

theorem skipWs_append (ws : List Nat) (hws : IsWs ws) (pre rest : List Nat) (d : Nat) (tm : Bool) :
    (⟨pre, ws ++ rest, d, tm⟩ : St).skipWs = (⟨ws.reverse ++ pre, rest, d, tm⟩ : St).skipWs := by
  simp only [St.skipWs, skipWsL_append ws hws]

theorem skipWs_stop (pre rest : List Nat) (d : Nat) (tm : Bool) (h : ∀ c r, rest = c :: r → isWs c = false) :
    (⟨pre, rest, d, tm⟩ : St).skipWs = ⟨pre, rest, d, tm⟩ :=
  C19L.skipWs_noop _ h

/-- white space followed by a non-white-space byte (or the end) is skipped exactly -/
theorem skipWs_ws (ws : List Nat) (hws : IsWs ws) (pre rest : List Nat) (d : Nat) (tm : Bool)
    (h : ∀ c r, rest = c :: r → isWs c = false) :
    (⟨pre, ws ++ rest, d, tm⟩ : St).skipWs = ⟨ws.reverse ++ pre, rest, d, tm⟩ := by
  rw [skipWs_append ws hws, skipWs_stop _ _ _ _ h]

/-! ## sign chains and identifiers -/

theorem signLoop_run (signs : List Bool) (pre rest : List Nat) (s : Fl)
    (h : ∀ c r, rest = c :: r → c ≠ 43 ∧ c ≠ 45) :
    ∃ pre', signLoop pre (signs.map (fun b => if b then 45 else 43) ++ rest) s =
      (pre', rest, signs.foldl (fun s b => if b then neg s else s) s) := by
  induction signs generalizing pre s with
  | nil =>
    refine ⟨pre, ?_⟩
    cases rest with
    | nil => rfl
    | cons c r =>
      obtain ⟨h1, h2⟩ := h c r rfl
      simp [signLoop, h1, h2]
  | cons b signs ih =>
    cases b
    · obtain ⟨p, hp⟩ := ih (43 :: pre) s
      exact ⟨p, by simpa [signLoop] using hp⟩
    · obtain ⟨p, hp⟩ := ih (45 :: pre) (neg s)
      refine ⟨p, ?_⟩
      have e : ((45 : Nat) == 43) = false := rfl
      simpa [signLoop, e] using hp

theorem identLoop_run (tok : List Nat) (pre rest acc : List Nat) (ht : ∀ x ∈ tok, isIdentCont x = true)
    (h : ∀ c r, rest = c :: r → isIdentCont c = false) :
    identLoop pre (tok ++ rest) acc = (tok.reverse ++ pre, rest, tok.reverse ++ acc) := by
  induction tok generalizing pre acc with
  | nil =>
    cases rest with
    | nil => rfl
    | cons c r => simp [identLoop, h c r rfl]
  | cons x tok ih =>
    have hx : isIdentCont x = true := ht x (by simp)
    simp only [List.cons_append, identLoop, hx, ↓reduceIte]
    rw [ih _ _ (fun y hy => ht y (List.mem_cons_of_mem _ hy))]
    simp

theorem lower_alpha {x y : Nat} (h : lowerByte x = y) (hy : 97 ≤ y ∧ y ≤ 122) : isAlpha x = true := by
  unfold lowerByte at h
  simp only [isAlpha, Bool.or_eq_true, Bool.and_eq_true, decide_eq_true_eq]
  split at h
  · rename_i hc
    simp only [Bool.and_eq_true, decide_eq_true_eq] at hc
    omega
  · omega

/-- a token spelled (in any letter case) like a lower-case keyword consists of letters -/
theorem lower_alpha_list (tok name : List Nat) (h : tok.map lowerByte = name) (hn : ∀ y ∈ name, 97 ≤ y ∧ y ≤ 122) :
    ∀ x ∈ tok, isAlpha x = true := by
  intro x hx
  have : lowerByte x ∈ name := by rw [← h]; exact List.mem_map_of_mem hx
  exact lower_alpha rfl (hn _ this)

theorem alpha_facts {x : Nat} (h : isAlpha x = true) :
    isIdentCont x = true ∧ isIdentStart x = true ∧ isCont x = false ∧ isWs x = false ∧ isDigit x = false ∧
      x ≠ 40 ∧ x ≠ 46 ∧ x ≠ 43 ∧ x ≠ 45 := by
  simp only [isAlpha, Bool.or_eq_true, Bool.and_eq_true, decide_eq_true_eq] at h
  simp only [isIdentCont, isIdentStart, isAlpha, isCont, isWs, isDigit, Bool.or_eq_true, Bool.and_eq_true,
    decide_eq_true_eq, beq_iff_eq, Bool.or_eq_false_iff, Bool.and_eq_false_iff, decide_eq_false_iff_not,
    beq_eq_false_iff_ne, ne_eq]
  omega

theorem const_name_range (c : Const) : ∀ y ∈ c.name, 97 ≤ y ∧ y ≤ 122 := by
  cases c <;> simp [Const.name]

/-! ## the loops stop at a follower -/

theorem termLoop_stop (tag : Nat) (E : St → Res (Eval × St)) (j : Nat) (ev : Eval) (ws k' pre : List Nat)
    (d : Nat) (tm : Bool) (hws : IsWs ws) (hk : StopHead stopT k') :
    termLoop tag E (j + 1) ev ⟨pre, ws ++ k', d, tm⟩ = .ok (ev, ⟨ws.reverse ++ pre, k', d, tm⟩) := by
  obtain ⟨v, uu, sp⟩ := ev
  unfold termLoop
  simp only []
  rw [skipWs_ws ws hws _ _ _ _ (hk.nonWs stopT_nonWs)]
  rcases hk with h | ⟨c, r, h, hc⟩
  · subst h; rfl
  · subst h
    simp only [stopT, Bool.or_eq_true, beq_iff_eq] at hc
    have h1 : (c == 42) = false := by simp only [beq_eq_false_iff_ne, ne_eq]; omega
    have h2 : (c == 47) = false := by simp only [beq_eq_false_iff_ne, ne_eq]; omega
    simp only [h1, h2, Bool.false_eq_true, ↓reduceIte]

theorem exprLoop_stop (tag lf : Nat) (E : St → Res (Eval × St)) (j : Nat) (ev : Eval) (k' pre : List Nat)
    (d : Nat) (tm : Bool) (hk : StopHead stopE k') :
    exprLoop tag lf E (j + 1) ev ⟨pre, k', d, tm⟩ = .ok (ev, ⟨pre, k', d, tm⟩) := by
  obtain ⟨v, uu, sp⟩ := ev
  unfold exprLoop
  simp only []
  rw [skipWs_stop _ _ _ _ (hk.nonWs stopE_nonWs)]
  rcases hk with h | ⟨c, r, h, hc⟩
  · subst h; rfl
  · subst h
    simp only [stopE, beq_iff_eq] at hc
    subst hc
    rfl

/-! ## number of loop iterations -/

/-- number of `+`/`-` at the top level of an expression = iterations of the `loop` of `expr` -/
def opsE : Expr → Nat
  | .term _ => 0
  | .add l _ _ => opsE l + 1
  | .sub l _ _ => opsE l + 1

/-- number of `*`/`/` at the top level of a term = iterations of the `loop` of `term` -/
def opsT : Term → Nat
  | .un _ => 0
  | .mul l _ _ => opsT l + 1
  | .div l _ _ => opsT l + 1

theorem opsE_le : ∀ e : Expr, opsE e ≤ e.render.length
  | .term _ => by simp [opsE]
  | .add l ws r => by
    have := opsE_le l
    simp only [opsE, Expr.render, List.length_append, List.length_cons]
    omega
  | .sub l ws r => by
    have := opsE_le l
    simp only [opsE, Expr.render, List.length_append, List.length_cons]
    omega

theorem opsT_le : ∀ t : Term, opsT t ≤ t.render.length
  | .un _ => by simp [opsT]
  | .mul l ws r => by
    have := opsT_le l
    simp only [opsT, Term.render, List.length_append, List.length_cons]
    omega
  | .div l ws r => by
    have := opsT_le l
    simp only [opsT, Term.render, List.length_append, List.length_cons]
    omega

/-! ## completeness statements, one per grammar level

`E = expr tag lf n` is the recursive call (`n` levels of recursion fuel left); `lf` is the loop fuel. -/

def PComp (tag lf : Nat) (p : Primary) : Prop :=
  ∀ (n d : Nat) (tm : Bool) (k pre : List Nat), p.nest ≤ n → p.nest + d ≤ MAX_EXPR_DEPTH →
    p.lexOk tag tm k → Fol stopU k → p.render.length < lf →
    ∃ pre', primary tag (expr tag lf n) ⟨pre, p.render ++ k, d, tm⟩ = .ok (p.eval, ⟨pre', k, d, tm⟩)

def UComp (tag lf : Nat) (u : Unary) : Prop :=
  ∀ (n d : Nat) (tm : Bool) (k pre : List Nat), u.nest ≤ n → u.nest + d ≤ MAX_EXPR_DEPTH →
    u.lexOk tag tm k → Fol stopU k → u.render.length < lf →
    ∃ pre', unary tag (expr tag lf n) ⟨pre, u.render ++ k, d, tm⟩ = .ok (u.eval, ⟨pre', k, d, tm⟩)

/-- the first `unary` and `opsT t` iterations of the loop of `term` consume `t` -/
def TComp (tag lf : Nat) (t : Term) : Prop :=
  ∀ (n d : Nat) (tm : Bool) (k pre : List Nat) (j : Nat), t.nest ≤ n → t.nest + d ≤ MAX_EXPR_DEPTH →
    t.lexOk tag tm k → Fol stopU k → t.render.length < lf →
    ∃ pre', (unary tag (expr tag lf n) ⟨pre, t.render ++ k, d, tm⟩).bind
        (fun x => termLoop tag (expr tag lf n) (j + opsT t) x.1 x.2) =
      termLoop tag (expr tag lf n) j t.eval ⟨pre', k, d, tm⟩

/-- the first `term` and `opsE e` iterations of the loop of `expr` consume `e` (and the white space
behind it) -/
def EComp (tag lf : Nat) (e : Expr) : Prop :=
  ∀ (n d : Nat) (tm : Bool) (ws k' pre : List Nat) (j : Nat), e.nest ≤ n → e.nest + d ≤ MAX_EXPR_DEPTH →
    e.lexOk tag tm (ws ++ k') → IsWs ws → StopHead stopT k' → e.render.length < lf →
    ∃ pre', (term tag lf (expr tag lf n) ⟨pre, e.render ++ (ws ++ k'), d, tm⟩).bind
        (fun x => exprLoop tag lf (expr tag lf n) (j + opsE e) x.1 x.2) =
      exprLoop tag lf (expr tag lf n) j e.eval ⟨pre', k', d, tm⟩

theorem term_eq (tag lf : Nat) (E : St → Res (Eval × St)) (st : St) :
    term tag lf E st = (unary tag E st).bind (fun x => termLoop tag E lf x.1 x.2) := rfl

theorem expr_eq (tag lf n : Nat) (st : St) :
    expr tag lf (n + 1) st =
      (term tag lf (expr tag lf n) st).bind (fun x => exprLoop tag lf (expr tag lf n) lf x.1 x.2) := rfl

/-- a complete term: `term` consumes it and the white space behind it -/
theorem term_of_TComp {tag lf : Nat} {t : Term} (h : TComp tag lf t) (n d : Nat) (tm : Bool) (ws k' pre : List Nat)
    (hn : t.nest ≤ n) (hd : t.nest + d ≤ MAX_EXPR_DEPTH) (hlex : t.lexOk tag tm (ws ++ k')) (hws : IsWs ws)
    (hk : StopHead stopT k') (hl : t.render.length < lf) :
    ∃ pre', term tag lf (expr tag lf n) ⟨pre, t.render ++ (ws ++ k'), d, tm⟩ = .ok (t.eval, ⟨pre', k', d, tm⟩) := by
  have hops := opsT_le t
  obtain ⟨j, hj⟩ : ∃ j, lf = (j + 1) + opsT t := ⟨lf - opsT t - 1, by omega⟩
  obtain ⟨p1, h1⟩ := h n d tm (ws ++ k') pre (j + 1) hn hd hlex ⟨ws, k', rfl, hws, hk.mono (fun _ => stopT_U)⟩ hl
  rw [← hj] at h1
  rw [term_eq, h1, termLoop_stop tag _ j t.eval ws k' p1 d tm hws hk]
  exact ⟨_, rfl⟩

/-- a complete expression: `expr` consumes it and the white space behind it -/
theorem expr_of_EComp {tag lf : Nat} {e : Expr} (h : EComp tag lf e) (n d : Nat) (tm : Bool) (ws k' pre : List Nat)
    (hn : e.nest ≤ n) (hd : e.nest + d ≤ MAX_EXPR_DEPTH) (hlex : e.lexOk tag tm (ws ++ k')) (hws : IsWs ws)
    (hk : StopHead stopE k') (hl : e.render.length < lf) :
    ∃ pre', expr tag lf (n + 1) ⟨pre, e.render ++ (ws ++ k'), d, tm⟩ = .ok (e.eval, ⟨pre', k', d, tm⟩) := by
  have hops := opsE_le e
  obtain ⟨j, hj⟩ : ∃ j, lf = (j + 1) + opsE e := ⟨lf - opsE e - 1, by omega⟩
  obtain ⟨p1, h1⟩ := h n d tm ws k' pre (j + 1) hn hd hlex hws (hk.mono (fun _ => stopE_T)) hl
  rw [← hj] at h1
  rw [expr_eq, h1, exprLoop_stop tag lf _ j e.eval k' p1 d tm hk]
  exact ⟨_, rfl⟩

/-! ## one loop iteration -/

theorem termLoop_step (tag : Nat) (E : St → Res (Eval × St)) (j : Nat) (v : Fl) (uu sp : Bool)
    (ws : List Nat) (c : Nat) (r' pre : List Nat) (d : Nat) (tm : Bool) (hws : IsWs ws) (hc : c = 42 ∨ c = 47) :
    termLoop tag E (j + 1) (v, uu, sp) ⟨pre, ws ++ c :: r', d, tm⟩ =
      (unary tag E ⟨c :: (ws.reverse ++ pre), r', d, tm⟩).bind fun x =>
        termLoop tag E j ((if c = 42 then mul F v x.1.1 else div F v x.1.1), uu || x.1.2.1, sp || x.1.2.2) x.2 := by
  conv => lhs; unfold termLoop
  simp only []
  have hnw : ∀ c' r'', c :: r' = c' :: r'' → isWs c' = false := by
    intro c' r'' h; cases h
    rcases hc with h | h <;> subst h <;> rfl
  rw [skipWs_ws ws hws _ _ _ _ hnw]
  rcases hc with h | h <;> subst h <;> simp [St.adv]

theorem exprLoop_step (tag lf : Nat) (E : St → Res (Eval × St)) (j : Nat) (v : Fl) (uu sp : Bool)
    (c : Nat) (r' pre : List Nat) (d : Nat) (tm : Bool) (hc : c = 43 ∨ c = 45) :
    exprLoop tag lf E (j + 1) (v, uu, sp) ⟨pre, c :: r', d, tm⟩ =
      (term tag lf E ⟨c :: pre, r', d, tm⟩).bind fun x =>
        exprLoop tag lf E j ((if c = 43 then add F v x.1.1 else sub F v x.1.1), uu || x.1.2.1, sp || x.1.2.2) x.2 := by
  conv => lhs; unfold exprLoop
  simp only []
  have hnw : ∀ c' r'', c :: r' = c' :: r'' → isWs c' = false := by
    intro c' r'' h; cases h
    rcases hc with h | h <;> subst h <;> rfl
  rw [skipWs_stop _ _ _ _ hnw]
  rcases hc with h | h <;> subst h <;> simp [St.adv]

/-! ## the grammar levels -/

theorem TComp_un {tag lf : Nat} {u : Unary} (hu : UComp tag lf u) : TComp tag lf (.un u) := by
  intro n d tm k pre j hn hd hlex hk hl
  obtain ⟨p1, h1⟩ := hu n d tm k pre (by simpa [Term.nest] using hn) (by simpa [Term.nest] using hd)
    (by simpa [Term.lexOk] using hlex) hk (by simpa [Term.render] using hl)
  refine ⟨p1, ?_⟩
  simp only [Term.render, opsT, Term.eval, Nat.add_zero]
  rw [h1]
  rfl

/-- `l (*|/) r` -/
theorem TComp_bin {tag lf : Nat} {l : Term} {r : Unary} (ws : List Nat) (isMul : Bool)
    (hl : TComp tag lf l) (hr : UComp tag lf r) :
    TComp tag lf (if isMul then .mul l ws r else .div l ws r) := by
  intro n d tm k pre j hn hd hlex hk hlen
  let c : Nat := if isMul then 42 else 47
  have hc : c = 42 ∨ c = 47 := by cases isMul <;> simp [c]
  have hnest : max l.nest r.nest ≤ n ∧ max l.nest r.nest + d ≤ MAX_EXPR_DEPTH := by
    cases isMul <;> simpa [Term.nest] using And.intro hn hd
  have hlex' : l.lexOk tag tm (ws ++ c :: (r.render ++ k)) ∧ IsWs ws ∧ r.lexOk tag tm k := by
    cases isMul <;> simpa [Term.lexOk, c] using hlex
  have hren : (if isMul then Term.mul l ws r else Term.div l ws r).render ++ k =
      l.render ++ (ws ++ c :: (r.render ++ k)) := by
    cases isMul <;> simp [Term.render, c]
  have hlen' : l.render.length + ws.length + 1 + r.render.length < lf := by
    cases isMul <;> (simp [Term.render] at hlen; omega)
  have hops : j + opsT (if isMul then Term.mul l ws r else Term.div l ws r) = (j + 1) + opsT l := by
    cases isMul <;> (simp [opsT]; omega)
  obtain ⟨p1, h1⟩ := hl n d tm (ws ++ c :: (r.render ++ k)) pre (j + 1) (by omega) (by omega) hlex'.1
    ⟨ws, c :: (r.render ++ k), rfl, hlex'.2.1, Or.inr ⟨c, _, rfl, by rcases hc with h | h <;> rw [h] <;> rfl⟩⟩ (by omega)
  rw [hren, hops, h1]
  generalize hle : l.eval = le
  obtain ⟨v, uu, sp⟩ := le
  rw [termLoop_step tag _ j v uu sp ws c _ p1 d tm hlex'.2.1 hc]
  obtain ⟨p2, h2⟩ := hr n d tm k (c :: (ws.reverse ++ p1)) (by omega) (by omega) hlex'.2.2 hk (by omega)
  rw [h2]
  refine ⟨p2, ?_⟩
  simp only [Res.ok_bind]
  cases isMul <;> simp [Term.eval, orFlags, hle, c]

theorem EComp_term {tag lf : Nat} {t : Term} (ht : TComp tag lf t) : EComp tag lf (.term t) := by
  intro n d tm ws k' pre j hn hd hlex hws hk hl
  obtain ⟨p1, h1⟩ := term_of_TComp ht n d tm ws k' pre (by simpa [Expr.nest] using hn) (by simpa [Expr.nest] using hd)
    (by simpa [Expr.lexOk] using hlex) hws hk (by simpa [Expr.render] using hl)
  refine ⟨p1, ?_⟩
  simp only [Expr.render, opsE, Expr.eval, Nat.add_zero]
  rw [h1]
  rfl

/-- `l (+|-) r` -/
theorem EComp_bin {tag lf : Nat} {l : Expr} {r : Term} (wsl : List Nat) (isAdd : Bool)
    (hl : EComp tag lf l) (hr : TComp tag lf r) :
    EComp tag lf (if isAdd then .add l wsl r else .sub l wsl r) := by
  intro n d tm ws k' pre j hn hd hlex hws hk hlen
  let c : Nat := if isAdd then 43 else 45
  have hc : c = 43 ∨ c = 45 := by cases isAdd <;> simp [c]
  have hnest : max l.nest r.nest ≤ n ∧ max l.nest r.nest + d ≤ MAX_EXPR_DEPTH := by
    cases isAdd <;> simpa [Expr.nest] using And.intro hn hd
  have hlex' : l.lexOk tag tm (wsl ++ c :: (r.render ++ (ws ++ k'))) ∧ IsWs wsl ∧ r.lexOk tag tm (ws ++ k') := by
    cases isAdd <;> simpa [Expr.lexOk, c] using hlex
  have hren : (if isAdd then Expr.add l wsl r else Expr.sub l wsl r).render ++ (ws ++ k') =
      l.render ++ (wsl ++ c :: (r.render ++ (ws ++ k'))) := by
    cases isAdd <;> simp [Expr.render, c]
  have hlen' : l.render.length + wsl.length + 1 + r.render.length < lf := by
    cases isAdd <;> (simp [Expr.render] at hlen; omega)
  have hops : j + opsE (if isAdd then Expr.add l wsl r else Expr.sub l wsl r) = (j + 1) + opsE l := by
    cases isAdd <;> (simp [opsE]; omega)
  obtain ⟨p1, h1⟩ := hl n d tm wsl (c :: (r.render ++ (ws ++ k'))) pre (j + 1) (by omega) (by omega) hlex'.1
    hlex'.2.1 (Or.inr ⟨c, _, rfl, by rcases hc with h | h <;> rw [h] <;> rfl⟩) (by omega)
  rw [hren, hops, h1]
  generalize hle : l.eval = le
  obtain ⟨v, uu, sp⟩ := le
  rw [exprLoop_step tag lf _ j v uu sp c _ p1 d tm hc]
  obtain ⟨p2, h2⟩ := term_of_TComp hr n d tm ws k' (c :: p1) (by omega) (by omega) hlex'.2.2 hws hk (by omega)
  rw [h2]
  refine ⟨p2, ?_⟩
  simp only [Res.ok_bind]
  cases isAdd <;> simp [Expr.eval, orFlags, hle, c]

/-! ## primaries -/

theorem digit_facts {c : Nat} (h : isDigit c = true ∨ c = 46) :
    isWs c = false ∧ c ≠ 43 ∧ c ≠ 45 ∧ (c == 40) = false ∧ (isDigit c || c == 46) = true := by
  rcases h with h | h
  · simp only [isDigit, Bool.and_eq_true, decide_eq_true_eq] at h
    simp only [isWs, isDigit, Bool.or_eq_false_iff, beq_eq_false_iff_ne, ne_eq, Bool.or_eq_true, Bool.and_eq_true,
      decide_eq_true_eq, beq_iff_eq]
    omega
  · subst h; decide

/-- a token spelled like a non-empty lower-case keyword starts with a letter -/
theorem kw_head (tok name : List Nat) (h : tok.map lowerByte = name) (hn : ∀ y ∈ name, 97 ≤ y ∧ y ≤ 122) (hne : name ≠ []) :
    ∃ x tok', tok = x :: tok' ∧ isAlpha x = true := by
  cases tok with
  | nil => simp at h; exact absurd h.symm hne.symm
  | cons x tok' => exact ⟨x, tok', rfl, lower_alpha_list _ _ h hn x (by simp)⟩

theorem const_name_ne (c : Const) : c.name ≠ [] := by cases c <;> simp [Const.name]

/-- the rendering of a primary (followed by anything) is white space and then a byte that is neither white
space nor a sign -/
theorem primary_render_head (tag : Nat) (tm : Bool) (p : Primary) (k : List Nat) (h : p.lexOk tag tm k) :
    ∃ wsp c r, p.render ++ k = wsp ++ c :: r ∧ IsWs wsp ∧ isWs c = false ∧ c ≠ 43 ∧ c ≠ 45 := by
  cases p with
  | atom ws tok ev =>
    obtain ⟨hws, ⟨c, r, htk, hc⟩, _⟩ := h
    have hf := digit_facts hc
    exact ⟨ws, c, r, by simp [Primary.render, htk], hws, hf.1, hf.2.1, hf.2.2.1⟩
  | const ws tok c =>
    obtain ⟨hws, hname⟩ := h
    obtain ⟨x, tok', rfl, hx⟩ := kw_head tok c.name hname (const_name_range c) (const_name_ne c)
    have hf := alpha_facts hx
    exact ⟨ws, x, tok' ++ k, by simp [Primary.render], hws, hf.2.2.2.1, hf.2.2.2.2.2.2.2.1, hf.2.2.2.2.2.2.2.2⟩
  | paren ws e ws' =>
    exact ⟨ws, 40, e.render ++ (ws' ++ 41 :: k), by simp [Primary.render], h.1, by decide, by decide, by decide⟩
  | fn ws isDeg name ws1 e ws' =>
    obtain ⟨hws, _, _, hname, _⟩ := h
    obtain ⟨x, tok', rfl, hx⟩ := kw_head name _ hname (by cases isDeg <;> simp) (by cases isDeg <;> simp)
    have hf := alpha_facts hx
    exact ⟨ws, x, tok' ++ (ws1 ++ 40 :: (e.render ++ (ws' ++ 41 :: k))), by simp [Primary.render], hws, hf.2.2.2.1,
      hf.2.2.2.2.2.2.2.1, hf.2.2.2.2.2.2.2.2⟩

theorem primary_ws (tag : Nat) (E : St → Res (Eval × St)) (ws : List Nat) (hws : IsWs ws) (pre rest : List Nat)
    (d : Nat) (tm : Bool) :
    primary tag E ⟨pre, ws ++ rest, d, tm⟩ = primary tag E ⟨ws.reverse ++ pre, rest, d, tm⟩ := by
  unfold primary
  simp only [skipWs_append ws hws]

theorem UComp_mk {tag lf : Nat} {p : Primary} (ws : List Nat) (signs : List Bool) (hp : PComp tag lf p) :
    UComp tag lf (.mk ws signs p) := by
  intro n d tm k pre hn hd hlex hk hl
  obtain ⟨hws, hplex⟩ : IsWs ws ∧ p.lexOk tag tm k := by simpa [Unary.lexOk] using hlex
  obtain ⟨wsp, c, r, hrh, hwsp, hcw, hc43, hc45⟩ := primary_render_head tag tm p k hplex
  have hlen : p.render.length < lf := by simp [Unary.render] at hl; omega
  have hren : (Unary.mk ws signs p).render ++ k =
      ws ++ (signs.map (fun s => if s then 45 else 43) ++ (p.render ++ k)) := by simp [Unary.render]
  have key : ∀ pre1, ∃ pre', (primary tag (expr tag lf n) ⟨pre1, p.render ++ k, d, tm⟩).bind
      (fun x => (Res.ok ((mul F (signValue signs) x.1.1, x.1.2.1, x.1.2.2), x.2) : Res (Eval × St))) =
      .ok ((Unary.mk ws signs p).eval, ⟨pre', k, d, tm⟩) := by
    intro pre1
    obtain ⟨p2, h2⟩ := hp n d tm k pre1 (by simpa [Unary.nest] using hn) (by simpa [Unary.nest] using hd) hplex hk hlen
    exact ⟨p2, by rw [h2]; rfl⟩
  unfold unary
  simp only []
  rw [hren]
  cases signs with
  | nil =>
    simp only [List.map_nil, List.nil_append]
    rw [hrh, ← List.append_assoc, skipWs_ws (ws ++ wsp) (IsWs.append hws hwsp) _ _ _ _
      (by intro c' r' h; cases h; exact hcw)]
    simp only []
    obtain ⟨ps, hs⟩ := signLoop_run [] ((ws ++ wsp).reverse ++ pre) (c :: r) ONE
      (by intro c' r' h; cases h; exact ⟨hc43, hc45⟩)
    simp only [List.map_nil, List.nil_append, List.foldl_nil] at hs
    rw [hs]
    simp only []
    have hps : ps = (ws ++ wsp).reverse ++ pre := by
      simp [signLoop, hc43, hc45] at hs
      rw [← hs]; simp
    subst hps
    rw [List.reverse_append, List.append_assoc, ← primary_ws tag _ wsp hwsp, ← hrh]
    exact key _
  | cons b signs =>
    have hnw : ∀ c' r', (b :: signs).map (fun s => if s then 45 else 43) ++ (p.render ++ k) = c' :: r' →
        isWs c' = false := by
      intro c' r' h
      simp only [List.map_cons, List.cons_append, List.cons.injEq] at h
      rw [← h.1]
      cases b <;> rfl
    rw [skipWs_ws ws hws _ _ _ _ hnw]
    simp only []
    obtain ⟨ps, hs⟩ := signLoop_run (b :: signs) (ws.reverse ++ pre) (p.render ++ k) ONE (by
      intro c' r' h
      rw [hrh] at h
      cases wsp with
      | nil => cases h; exact ⟨hc43, hc45⟩
      | cons w wsp' =>
        cases h
        have := isWs_facts (hwsp c' (by simp))
        exact ⟨this.2.2.1, this.2.2.2.1⟩)
    rw [hs]
    simp only []
    exact key _

theorem PComp_atom {tag lf : Nat} (ws tok : List Nat) (ev : Eval) : PComp tag lf (.atom ws tok ev) := by
  intro n d tm k pre hn hd hlex hk hl
  obtain ⟨hws, htok⟩ : IsWs ws ∧ TokenOk tag tm tok k ev := by
    simp only [Primary.lexOk] at hlex; exact hlex
  obtain ⟨c, r, htk, hc⟩ := htok.1
  have hf := digit_facts hc
  have hren : (Primary.atom ws tok ev).render ++ k = ws ++ (tok ++ k) := by simp [Primary.render]
  obtain ⟨p2, h2⟩ := TokenOk.any htok (ws.reverse ++ pre) d
  refine ⟨p2, ?_⟩
  rw [hren, primary_ws tag _ ws hws]
  unfold primary
  simp only []
  rw [skipWs_stop _ _ _ _ (by intro c' r' h; rw [htk] at h; cases h; exact hf.1)]
  rw [htk] at h2 ⊢
  simp only [hf.2.2.2.1, hf.2.2.2.2, Bool.false_eq_true, ↓reduceIte]
  exact h2

theorem fol_head_facts {k : List Nat} (hk : Fol stopU k) :
    ∀ c' r', k = c' :: r' → isIdentCont c' = false ∧ isCont c' = false := by
  intro c' r' h
  rcases hk.head c' r' h with hw | hs
  · exact ⟨(isWs_facts hw).1, (isWs_facts hw).2.1⟩
  · exact ⟨(stopU_facts hs).2.1, (stopU_facts hs).2.2⟩

/-- `primary` on an identifier -/
theorem primary_ident (tag : Nat) (E : St → Res (Eval × St)) (x : Nat) (r pre : List Nat) (d : Nat) (tm : Bool)
    (hx : isAlpha x = true) :
    primary tag E ⟨pre, x :: r, d, tm⟩ = parseIdentOrSpecial E ⟨pre, x :: r, d, tm⟩ := by
  have hf := alpha_facts hx
  unfold primary
  simp only []
  rw [skipWs_stop _ _ _ _ (by intro c' r' h; cases h; exact hf.2.2.2.1)]
  have h40 : (x == 40) = false := by simpa using hf.2.2.2.2.2.1
  have h46 : (x == 46) = false := by simpa using hf.2.2.2.2.2.2.1
  simp only [h40, h46, hf.2.2.2.2.1, hf.2.1, Bool.false_eq_true, ↓reduceIte, Bool.or_self]

theorem PComp_const {tag lf : Nat} (ws tok : List Nat) (c : Const) : PComp tag lf (.const ws tok c) := by
  intro n d tm k pre hn hd hlex hk hl
  obtain ⟨hws, hname⟩ : IsWs ws ∧ tok.map lowerByte = c.name := by simpa [Primary.lexOk] using hlex
  obtain ⟨x, tok', htok, hx⟩ := kw_head tok c.name hname (const_name_range c) (const_name_ne c)
  have hal := lower_alpha_list tok c.name hname (const_name_range c)
  have hren : (Primary.const ws tok c).render ++ k = ws ++ (tok ++ k) := by simp [Primary.render]
  have htk : tok ++ k = x :: (tok' ++ k) := by rw [htok]; rfl
  have hkh := fol_head_facts hk
  rw [hren, primary_ws tag _ ws hws, htk, primary_ident tag _ x _ _ d tm hx, ← htk]
  unfold parseIdentOrSpecial
  simp only []
  rw [identLoop_run tok _ k [] (fun y hy => (alpha_facts (hal y hy)).1) (fun c' r' h => (hkh c' r' h).1)]
  simp only [List.append_nil, List.reverse_reverse]
  have hb1 : boundaryAhead (tok ++ k) 0 = true :=
    boundaryAhead_zero (by intro c' r' h; rw [htk] at h; cases h; exact (alpha_facts hx).2.2.1)
  have hb2 : boundaryAhead k 0 = true := boundaryAhead_zero (fun c' r' h => (hkh c' r' h).2)
  simp only [hb1, hb2, Bool.and_self, Bool.not_true, Bool.false_eq_true, ↓reduceIte, hname]
  refine ⟨tok.reverse ++ (ws.reverse ++ pre), ?_⟩
  cases c <;> simp [Const.name, Primary.eval, Const.value]

theorem enter_ok_eq (pre rest : List Nat) (d : Nat) (tm : Bool) (hd : d < MAX_EXPR_DEPTH) :
    St.enter ⟨pre, rest, d, tm⟩ = .ok ⟨pre, rest, d + 1, tm⟩ := by
  have : MAX_EXPR_DEPTH = 256 := rfl
  unfold St.enter
  simp only []
  rw [if_neg (by omega), if_neg (by omega)]

theorem exitAfter_ok_eq {α} (a : α) (pre rest : List Nat) (d : Nat) (tm : Bool) :
    exitAfter (.ok (a, (⟨pre, rest, d + 1, tm⟩ : St))) = .ok (a, ⟨pre, rest, d, tm⟩) := by
  simp [exitAfter, St.exit, Res.bind]

theorem PComp_paren {tag lf : Nat} {e : Expr} (ws ws' : List Nat) (he : EComp tag lf e) :
    PComp tag lf (.paren ws e ws') := by
  intro n d tm k pre hn hd hlex hk hl
  obtain ⟨hws, hws', helex⟩ : IsWs ws ∧ IsWs ws' ∧ e.lexOk tag tm (ws' ++ 41 :: k) := by
    simpa [Primary.lexOk] using hlex
  simp only [Primary.nest] at hn hd
  obtain ⟨m, rfl⟩ : ∃ m, n = m + 1 := ⟨n - 1, by omega⟩
  have hren : (Primary.paren ws e ws').render ++ k = ws ++ 40 :: (e.render ++ (ws' ++ 41 :: k)) := by
    simp [Primary.render]
  have hlen : e.render.length < lf := by simp [Primary.render] at hl; omega
  obtain ⟨p1, h1⟩ := expr_of_EComp he m (d + 1) tm ws' (41 :: k) (40 :: (ws.reverse ++ pre)) (by omega) (by omega)
    helex hws' (Or.inr ⟨41, k, rfl, rfl⟩) hlen
  refine ⟨41 :: p1, ?_⟩
  rw [hren, primary_ws tag _ ws hws]
  unfold primary
  simp only []
  rw [skipWs_stop _ _ _ _ (by intro c' r' h; cases h; rfl)]
  simp only [beq_self_eq_true, ↓reduceIte, St.adv]
  rw [enter_ok_eq _ _ _ _ (by omega)]
  simp only [Res.ok_bind]
  rw [h1, exitAfter_ok_eq]
  simp only [Res.ok_bind]
  rw [skipWs_stop _ _ _ _ (by intro c' r' h; cases h; rfl)]
  rfl

theorem PComp_fn {tag lf : Nat} {e : Expr} (ws : List Nat) (isDeg : Bool) (name ws1 ws' : List Nat)
    (he : EComp tag lf e) : PComp tag lf (.fn ws isDeg name ws1 e ws') := by
  intro n d tm k pre hn hd hlex hk hl
  obtain ⟨hws, hws1, hws', hname, helex⟩ : IsWs ws ∧ IsWs ws1 ∧ IsWs ws' ∧
      name.map lowerByte = (if isDeg then [100, 101, 103] else [114, 97, 100]) ∧
      e.lexOk tag false (ws' ++ 41 :: k) := by
    simpa [Primary.lexOk] using hlex
  simp only [Primary.nest] at hn hd
  obtain ⟨m, rfl⟩ : ∃ m, n = m + 1 := ⟨n - 1, by omega⟩
  have hren : (Primary.fn ws isDeg name ws1 e ws').render ++ k =
      ws ++ (name ++ (ws1 ++ 40 :: (e.render ++ (ws' ++ 41 :: k)))) := by
    simp [Primary.render]
  have hlen : e.render.length < lf := by simp [Primary.render] at hl; omega
  have hrange : ∀ y ∈ (if isDeg then [100, 101, 103] else [114, 97, 100] : List Nat), 97 ≤ y ∧ y ≤ 122 := by
    cases isDeg <;> simp
  obtain ⟨x, name', hn', hx⟩ := kw_head name _ hname hrange (by cases isDeg <;> simp)
  have hal := lower_alpha_list name _ hname hrange
  generalize hR : ws1 ++ 40 :: (e.render ++ (ws' ++ 41 :: k)) = R at hren
  have hRh : ∀ c' r', R = c' :: r' → isIdentCont c' = false ∧ isCont c' = false := by
    intro c' r' h
    rw [← hR] at h
    cases ws1 with
    | nil => cases h; decide
    | cons w ws1' =>
      cases h
      have := isWs_facts (hws1 c' (by simp))
      exact ⟨this.1, this.2.1⟩
  have htk : name ++ R = x :: (name' ++ R) := by rw [hn']; rfl
  obtain ⟨p1, h1⟩ := expr_of_EComp he m (d + 1) false ws' (41 :: k)
    (40 :: (ws1.reverse ++ (name.reverse ++ (ws.reverse ++ pre)))) (by omega) (by omega)
    helex hws' (Or.inr ⟨41, k, rfl, rfl⟩) hlen
  refine ⟨41 :: p1, ?_⟩
  rw [hren, primary_ws tag _ ws hws, htk, primary_ident tag _ x _ _ d tm hx, ← htk]
  unfold parseIdentOrSpecial
  simp only []
  rw [identLoop_run name _ R [] (fun y hy => (alpha_facts (hal y hy)).1) (fun c' r' h => (hRh c' r' h).1)]
  simp only [List.append_nil, List.reverse_reverse]
  have hb1 : boundaryAhead (name ++ R) 0 = true :=
    boundaryAhead_zero (by intro c' r' h; rw [htk] at h; cases h; exact (alpha_facts hx).2.2.1)
  have hb2 : boundaryAhead R 0 = true := boundaryAhead_zero (fun c' r' h => (hRh c' r' h).2)
  simp only [hb1, hb2, Bool.and_self, Bool.not_true, Bool.false_eq_true, ↓reduceIte, hname]
  rw [← hR, skipWs_ws ws1 hws1 _ _ _ _ (by intro c' r' h; cases h; rfl)]
  simp only [St.adv]
  rw [enter_ok_eq _ _ _ _ (by omega)]
  simp only [Res.ok_bind]
  rw [h1, exitAfter_ok_eq]
  simp only [Primary.eval]
  generalize e.eval = ev
  obtain ⟨v, u1, u2⟩ := ev
  simp only [Res.ok_bind]
  rw [skipWs_stop _ _ _ _ (by intro c' r' h; cases h; rfl)]
  cases isDeg <;> simp [Primary.eval]

/-! ## every tree -/

mutual
  theorem Expr.comp (tag lf : Nat) : ∀ e : Expr, EComp tag lf e
    | .term t => EComp_term (Term.comp tag lf t)
    | .add l ws r => by simpa using EComp_bin ws true (Expr.comp tag lf l) (Term.comp tag lf r)
    | .sub l ws r => by simpa using EComp_bin ws false (Expr.comp tag lf l) (Term.comp tag lf r)
  theorem Term.comp (tag lf : Nat) : ∀ t : Term, TComp tag lf t
    | .un u => TComp_un (Unary.comp tag lf u)
    | .mul l ws r => by simpa using TComp_bin ws true (Term.comp tag lf l) (Unary.comp tag lf r)
    | .div l ws r => by simpa using TComp_bin ws false (Term.comp tag lf l) (Unary.comp tag lf r)
  theorem Unary.comp (tag lf : Nat) : ∀ u : Unary, UComp tag lf u
    | .mk ws signs p => UComp_mk ws signs (Primary.comp tag lf p)
  theorem Primary.comp (tag lf : Nat) : ∀ p : Primary, PComp tag lf p
    | .atom ws tok ev => PComp_atom ws tok ev
    | .const ws tok c => PComp_const ws tok c
    | .paren ws e ws' => PComp_paren ws ws' (Expr.comp tag lf e)
    | .fn ws isDeg name ws1 e ws' => PComp_fn ws isDeg name ws1 ws' (Expr.comp tag lf e)
end

/-! ## the whole scalar -/

theorem skipWsL_idem (pre rest : List Nat) :
    skipWsL (skipWsL pre rest).1 (skipWsL pre rest).2 = skipWsL pre rest := by
  induction rest generalizing pre with
  | nil => rfl
  | cons c r ih =>
    by_cases hc : isWs c = true
    · simp only [skipWsL, hc, ↓reduceIte]
      exact ih _
    · simp only [skipWsL, hc, Bool.false_eq_true, ↓reduceIte]

theorem skipWs_idem (st : St) : st.skipWs.skipWs = st.skipWs := by
  simp only [St.skipWs, skipWsL_idem]

theorem unary_skipWs (tag : Nat) (E : St → Res (Eval × St)) (st : St) : unary tag E st.skipWs = unary tag E st := by
  unfold unary
  simp only [skipWs_idem]

theorem expr_skipWs (tag lf n : Nat) (st : St) : expr tag lf n st.skipWs = expr tag lf n st := by
  cases n with
  | zero => rfl
  | succ n => simp only [expr, term, unary_skipWs]

/-- the parser proper on a scalar of the grammar: the whole tree is consumed, its reference evaluation
(value and both unit flags) is returned -/
theorem expr_complete_top (tag : Nat) (s : List Nat) (e : Expr) (h : Parses tag s e) :
    ∃ p1, expr tag (s.length + 1) (MAX_EXPR_DEPTH + 1) ⟨[], s, 0, true⟩ = .ok (e.eval, ⟨p1, [], 0, true⟩) := by
  obtain ⟨wsL, wsR, hs, hwsL, hwsR, hlex, hnest⟩ := h
  have hlen : e.render.length < s.length + 1 := by rw [hs]; simp; omega
  obtain ⟨p1, h1⟩ := expr_of_EComp (Expr.comp tag (s.length + 1) e) MAX_EXPR_DEPTH 0 true wsR [] (wsL.reverse ++ [])
    hnest (by omega) (by simpa using hlex) hwsR (Or.inl rfl) hlen
  have e1 : expr tag (s.length + 1) (MAX_EXPR_DEPTH + 1) ⟨[], s, 0, true⟩ =
      expr tag (s.length + 1) (MAX_EXPR_DEPTH + 1) ⟨wsL.reverse ++ [], e.render ++ (wsR ++ []), 0, true⟩ := by
    rw [← expr_skipWs, hs, skipWs_append wsL hwsL, expr_skipWs]
    simp
  exact ⟨p1, by rw [e1, h1]⟩

/-- two trees of the same scalar have the same reference evaluation -/
theorem parses_eval_unique (tag : Nat) (s : List Nat) (e e' : Expr) (h : Parses tag s e) (h' : Parses tag s e') :
    e.eval = e'.eval := by
  obtain ⟨p1, h1⟩ := expr_complete_top tag s e h
  obtain ⟨p2, h2⟩ := expr_complete_top tag s e' h'
  rw [h1] at h2
  simp only [Res.ok.injEq, Prod.mk.injEq] at h2
  exact h2.1

/-- COMPLETENESS: on the rendering of a tree of the grammar (between white space; lexically well-formed;
nested within the depth guard) the evaluator returns the reference evaluation of the tree finished by
`topValue` — a value, or the `ambiguous mix` error exactly when `topValue` is `none`. -/
theorem evalExpr_complete (tag : Nat) (s : List Nat) (e : Expr) (h : Parses tag s e) :
    evalExpr tag s = match topValue tag e.eval with
      | some v => .ok v
      | none => .err .ambiguousMix 0 := by
  obtain ⟨p1, h1⟩ := expr_complete_top tag s e h
  unfold evalExpr
  simp only []
  rw [expr_skipWs, h1]
  simp only [Res.ok_bind]
  rw [skipWs_stop _ _ _ _ (by intro c r h; cases h)]
  generalize e.eval = ev
  obtain ⟨v, used, plain⟩ := ev
  simp only [List.isEmpty_nil, Bool.not_true, Bool.false_eq_true, ↓reduceIte, topValue, St.err]
  cases used <;> cases plain <;> by_cases ht : tag = TAG_DEGREES <;> simp [ht]

end SaphyrVerif.Lemmas.C19
