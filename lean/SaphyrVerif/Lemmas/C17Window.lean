import SaphyrVerif.Lemmas.C17Crop
/-!
Helper lemmas for C17, part 4: the line loops of `crop_window_text` and `crop_source_window`.
-/
namespace SaphyrVerif.Lemmas.C17
open SaphyrVerif SaphyrVerif.Snippet

/-! ### `find('\n')` -/

theorem findNl_none (s : List Char) (h : findNl s = none) : '\n' ∉ s := by
  induction s with
  | nil => simp
  | cons c cs ih =>
    unfold findNl at h
    by_cases hc : c = '\n'
    · rw [if_pos hc] at h; cases h
    · rw [if_neg hc] at h
      cases hq : findNl cs with
      | none =>
        intro hm
        rcases List.mem_cons.mp hm with h1 | h1
        · exact hc h1.symm
        · exact ih hq h1
      | some i => rw [hq] at h; cases h

theorem findNl_some (s : List Char) (i : Nat) (h : findNl s = some i) :
    ∃ pre post, s = pre ++ '\n' :: post ∧ '\n' ∉ pre ∧ i = blen pre := by
  induction s generalizing i with
  | nil => cases h
  | cons c cs ih =>
    unfold findNl at h
    by_cases hc : c = '\n'
    · rw [if_pos hc] at h
      cases h
      exact ⟨[], cs, by rw [hc]; rfl, by simp, rfl⟩
    · rw [if_neg hc] at h
      cases hq : findNl cs with
      | none => rw [hq] at h; cases h
      | some j =>
        rw [hq] at h
        simp only [Option.map_some, Option.some.injEq] at h
        obtain ⟨pre, post, e, hn, hj⟩ := ih j hq
        refine ⟨c :: pre, post, by rw [e]; rfl, ?_, ?_⟩
        · intro hm
          rcases List.mem_cons.mp hm with h1 | h1
          · exact hc h1.symm
          · exact hn h1
        · rw [blen_cons, ← h, hj]; omega

/-- outcome of `nextLine` at a character boundary -/
theorem nextLine_spec (p rest : List Char) (site : String) :
    (('\n' ∉ rest ∧ nextLine (p ++ rest) (blen p) site = .ok (rest, false, blen (p ++ rest) - blen p)) ∨
     (∃ pre post, rest = pre ++ '\n' :: post ∧ '\n' ∉ pre ∧
        nextLine (p ++ rest) (blen p) site = .ok (pre, true, blen pre + 1))) := by
  unfold nextLine
  rw [slice_from p rest]
  simp only [res_bind_ok]
  cases hq : findNl rest with
  | none =>
    left
    refine ⟨findNl_none _ hq, ?_⟩
    simp only [Option.map_none]
    rfl
  | some i =>
    right
    obtain ⟨pre, post, e, hn, hi⟩ := findNl_some _ _ hq
    refine ⟨pre, post, e, hn, ?_⟩
    simp only [Option.map_some]
    have e2 : p ++ rest = p ++ pre ++ ('\n' :: post) := by rw [e, List.append_assoc]
    rw [e2, slice_append3' p pre ('\n' :: post) (blen p) (blen p + i) _ rfl (by rw [hi])]
    simp only [res_bind_ok, res_pure]
    have : blen p + i - blen p = blen pre := by omega
    rw [this]

/-! ### the loop of `crop_window_text` -/

theorem stripCR_length_le (l : List Char) : (stripCR l).length ≤ l.length := by
  unfold stripCR
  split
  · rw [List.length_dropLast]; omega
  · omega

/-- (safety) the loop of `crop_window_text` neither panics nor runs out of fuel -/
theorem cwtLoop_safe (w : List Char) (errorRow : Nat) (doCrop : Bool) (leftCol rightCol ls le : Nat)
    (hw : w.length + 1 ≤ usizeMax) (hlr : leftCol ≤ satAdd rightCol 1) :
    ∀ (fuel : Nat) (st : CwtState) (p rest : List Char), w = p ++ rest → st.oldPos = blen p → blen rest ≤ fuel →
      ∃ st', cwtLoop w errorRow doCrop leftCol rightCol ls le fuel st = .ok st' := by
  intro fuel
  induction fuel with
  | zero =>
    intro st p rest hwp hpos hfuel
    have : rest = [] := blen_eq_zero rest (by omega)
    subst this
    unfold cwtLoop
    rw [hwp, hpos]
    simp
  | succ fuel ih =>
    intro st p rest hwp hpos hfuel
    unfold cwtLoop
    by_cases hlt : st.oldPos < blen w
    · rw [if_pos hlt]
      have hline_len : ∀ l : List Char, l.length ≤ w.length → (stripCR l).length + 1 ≤ usizeMax := by
        intro l hl
        have := stripCR_length_le l
        omega
      rcases nextLine_spec p rest "crop_window_text" with ⟨_, hnl⟩ | ⟨pre, post, e, _, hnl⟩
      · rw [hwp, hpos, hnl]
        simp only [res_bind_ok]
        have hl : rest.length ≤ w.length := by rw [hwp, List.length_append]; omega
        unfold renderLine
        cases doCrop with
        | false => simp
        | true =>
          simp only [if_true]
          rw [cropLine_eq _ _ _ (hline_len rest hl) hlr]
          simp
      · rw [hwp, hpos, hnl]
        simp only [res_bind_ok]
        have hl : pre.length ≤ w.length := by
          rw [hwp, e, List.length_append, List.length_append]; omega
        have hrec : ∀ st2 : CwtState, st2.oldPos = blen p + (blen pre + 1) →
            ∃ st', cwtLoop (p ++ rest) errorRow doCrop leftCol rightCol ls le fuel st2 = .ok st' := by
          intro st2 h2
          have := ih st2 (p ++ pre ++ ['\n']) post (by rw [hwp, e]; simp) (by
            rw [h2, blen_append, blen_append]; rfl) (by
            rw [e, blen_append, blen_cons] at hfuel
            have : utf8LenChar '\n' = 1 := by decide
            omega)
          rw [hwp] at this
          exact this
        unfold renderLine
        cases doCrop with
        | false =>
          simp only [Bool.false_eq_true, if_false, res_bind_ok, if_true]
          exact hrec _ rfl
        | true =>
          simp only [if_true]
          rw [cropLine_eq _ _ _ (hline_len pre hl) hlr]
          simp only [res_bind_ok]
          exact hrec _ rfl
    · rw [if_neg hlt]
      exact ⟨st, rfl⟩

end SaphyrVerif.Lemmas.C17
