import SaphyrVerif.Lemmas.C13_Emit
import SaphyrVerif.Lemmas.C13_Quoted
import SaphyrVerif.Lemmas.C13_Tag
/-!
C13 proof machinery, part 4: what `serialize_str` writes when no block style is involved (one token),
and the contracts of the SAFE leaf class: for scalar-text functions that satisfy `SafeContract`, safe
strings are written plain — under `quote_all` string values and the names of variants with data in
single quotes — and these tokens read back.
-/
set_option linter.unusedSimpArgs false
set_option linter.unusedVariables false
namespace SaphyrVerif.Emit
open SaphyrVerif

variable {o : Opts} {f : ScalarFns}

/-! ### `serialize_str` as a token -/

/-- does `serialize_str` select a block style (literal / folded) automatically for `v` in block
context? (the guard of the auto-selection at the head of `serialize_str`) -/
def autoBlock (o : Opts) (f : ScalarFns) (v : List Char) : Bool :=
  !o.quoteAll && o.preferBlockScalars &&
    (if v.contains '\n' then
      (decide (v.length > o.foldedWrapCol) && (!(v.any fun c => isControl c && c != '\n' && c != '\t') && !(trimEndNl v).isEmpty)) ||
        f.isPlainValueSafe ((trimEndNl v).map fun c => if c == '\n' then ' ' else c) o.yaml12 false
     else f.isPlainValueSafe v o.yaml12 false && decide (v.length > o.foldedWrapCol))

/-- the token `serialize_str` writes for `v` in block context when no block style is involved -/
def strTok (o : Opts) (f : ScalarFns) (v : List Char) : List Char :=
  if v == ['.'] || v == ['#'] || v == ['-'] then '\'' :: v ++ ['\''] else plainOrQuotedValue o f false v

/-- the auto-selection of a block style at the head of `serialize_str` (same text as in the model) -/
def autoSel (o : Opts) (f : ScalarFns) (v : List Char) (s : St) : St :=
    if s.pendingStrStyle.isNone && s.inFlow == 0 && !o.quoteAll then
      if v.contains '\n' then
        if o.preferBlockScalars then
          let blockOk := !(v.any fun c => isControl c && c != '\n' && c != '\t') && !(trimEndNl v).isEmpty
          if v.length > o.foldedWrapCol && blockOk then
            { s with pendingStrStyle := some .literal, pendingStrFromAuto := true }
          else
            let trimmed := trimEndNl v
            let normalized := trimmed.map fun c => if c == '\n' then ' ' else c
            if f.isPlainValueSafe normalized o.yaml12 false then
              { s with pendingStrStyle := some .literal, pendingStrFromAuto := true }
            else s
        else s
      else if o.preferBlockScalars then
        let needsQuoting := !f.isPlainValueSafe v o.yaml12 false
        if !needsQuoting && v.length > o.foldedWrapCol then
          { s with pendingStrStyle := some .folded, pendingStrFromAuto := true }
        else s
      else s
    else s

theorem serToken_eq (tok : List Char) (s : St) :
    serToken o tok s = writeEndOfScalar ((indentIfLineStart o (writeSpaceIfPending s)).write tok) := rfl

theorem inFlow_indent (s : St) : (indentIfLineStart o (writeSpaceIfPending s)).inFlow = s.inFlow := by
  by_cases hpsc : s.pendingSpaceAfterColon = true <;> by_cases hals : s.atLineStart = true <;>
    by_cases hd : s.docStarted = true <;> by_cases hy : o.yaml12 = true <;>
    simp [hpsc, hals, hd, hy, writeSpaceIfPending, St.write, indentIfLineStart, writeIndent]

/-- `serialize_str` after the auto-selection, when no style is pending: the plain / quoted token -/
theorem serStr_of_autoSel {v : List Char} {s : St} (h : autoSel o f v s = s) (h1 : s.pendingStrStyle = none)
    (h2 : s.inFlow = 0) : serStr o f v s = serToken o (strTok o f v) s := by
  have h' := h
  simp only [autoSel] at h'
  have h0 : decide ((indentIfLineStart o (writeSpaceIfPending s)).inFlow > 0) = false := by simp [inFlow_indent, h2]
  rw [serToken_eq]
  simp only [serStr, h']
  simp only [h1, h0, strTok]
  by_cases hp : (v == ['.'] || v == ['#'] || v == ['-']) = true
  · simp only [hp, if_true]
  · simp only [hp, Bool.false_eq_true, if_false]

theorem autoSel_id {v : List Char} {s : St} (ha : autoBlock o f v = false) : autoSel o f v s = s := by
  unfold autoBlock at ha
  unfold autoSel
  cases hq : o.quoteAll
  · cases hp : o.preferBlockScalars
    · simp
    · cases hn : v.contains '\n'
      · simp only [hq, hp, hn, Bool.not_false, Bool.true_and, Bool.false_eq_true, if_false] at ha
        simp [ha, hn]
      · simp only [hq, hp, hn, Bool.not_false, Bool.true_and, if_true, Bool.or_eq_false_iff] at ha
        have h2' := ha.2
        simp only [beq_iff_eq] at h2'
        simp [ha.1, h2', hn]
  · simp

/-- `serialize_str` without a pending style and without automatic block style: one token -/
theorem serStr_token {v : List Char} {s : St} (h1 : s.pendingStrStyle = none) (h2 : s.inFlow = 0)
    (ha : autoBlock o f v = false) : serStr o f v s = serToken o (strTok o f v) s :=
  serStr_of_autoSel (autoSel_id ha) h1 h2

/-! ### the SAFE class -/

/-- the tokens of the safe class: a safe string is written as itself; under `quote_all` string values
(hence unit variants) and the names of variants with data are single-quoted, string keys stay plain
(`KeyScalarSink` does not look at `quote_all`); under `tagged_enums` a unit variant is `!!Enum variant` -/
def safeToks (o : Opts) : Toks :=
  Toks.ofStr (fun s => if o.quoteAll then singleQuoted s else s) (fun s => s)
    (fun s => if o.quoteAll then singleQuoted s else s)
    (fun e n =>
      if o.taggedEnums then '!' :: '!' :: e ++ ' ' :: (if o.quoteAll then singleQuoted n else n)
      else if o.quoteAll then singleQuoted n else n)

/-- `serialize_unit_variant` under `tagged_enums`: the tag, a blank and the variant name by the value rule,
as one token -/
theorem ser_unit_tagged (ht : o.taggedEnums = true) (e n : List Char) {s : St} (h2 : s.inFlow = 0) :
    ser o f (.unitVariant e n) s = .ok (serToken o ('!' :: '!' :: e ++ ' ' :: plainOrQuotedValue o f false n) s) := by
  have h0 : decide ((indentIfLineStart o (writeSpaceIfPending s)).inFlow > 0) = false := by simp [inFlow_indent, h2]
  rw [ser, serToken_eq]
  simp only [ht, if_true, serTaggedScalar, h0]
  simp

theorem safeToks_plain (hq : o.quoteAll = false) (ht : o.taggedEnums = false) : safeToks o = plainToks := by
  simp [safeToks, plainToks, hq, ht]

theorem needsDoubleQuotes_safe {s : List Char} (h : isSafeStr s = true) : needsDoubleQuotes s = false := by
  simp only [needsDoubleQuotes, List.any_eq_false]
  intro c hc
  have hc' := safe_chars h c hc
  have h1 : c ≠ '\'' := by rintro rfl; exact absurd hc' (by decide)
  have h2 : c ≠ '\\' := by rintro rfl; exact absurd hc' (by decide)
  have h3 : isControl c = false := by
    simp only [isLowerAlnum, isLowerAlpha, Bool.or_eq_true, Bool.and_eq_true, decide_eq_true_eq] at hc'
    simp only [isControl, Bool.or_eq_false_iff, Bool.and_eq_false_iff, decide_eq_false_iff_not]
    rcases hc' with ⟨h, h'⟩ | ⟨h, h'⟩
    · have : (97 : Nat) ≤ c.toNat := Char.le_def.mp h
      have : c.toNat ≤ 122 := Char.le_def.mp h'
      refine ⟨by omega, Or.inl (by omega)⟩
    · have : (48 : Nat) ≤ c.toNat := Char.le_def.mp h
      have : c.toNat ≤ 57 := Char.le_def.mp h'
      exact ⟨by omega, Or.inl (by omega)⟩
  simp [h1, h2, h3]

theorem strTok_safe (hf : SafeContract f) {v : List Char} (hs : isSafeStr v = true) : strTok o f v = (safeToks o).str v := by
  have hp := isSafeStr_not_punct hs
  simp only [strTok, hp, Bool.false_eq_true, if_false, plainOrQuotedValue, needsDoubleQuotes_safe hs, safeToks,
    hf.value v o.yaml12 false hs, hf.shape v hs, Bool.not_false, Bool.and_self, if_true, Toks.ofStr_str]

theorem autoBlock_safe {v : List Char} (hs : isSafeStr v = true) (hl : v.length ≤ o.foldedWrapCol) : autoBlock o f v = false := by
  have hnl := isSafeStr_no_nl hs
  have hlen : ¬ (o.foldedWrapCol < v.length) := by omega
  have hnm : '\n' ∉ v := by simpa using hnl
  simp [autoBlock, hnm, hlen]

/-- the write side of the safe-leaf contract -/
theorem safe_write (ho : FragOpts o) (hf : SafeContract f) : WriteContract o f (safePred o) (safeToks o) :=
  WriteContract.ofTok ho (Toks.ofStr_isTok _ _ _ _)
  (fun s hs st h1 h2 => by
    simp only [safePred, Bool.and_eq_true, decide_eq_true_eq] at hs
    rw [serStr_token h1 h2 (autoBlock_safe hs.1 hs.2), strTok_safe hf hs.1])
  (fun e n hs st h1 h2 => by
    simp only [safePred, Bool.and_eq_true, decide_eq_true_eq] at hs
    cases ht : o.taggedEnums
    · rw [ser]
      simp only [ht, Bool.false_eq_true, if_false]
      rw [serStr_token h1 h2 (autoBlock_safe hs.1.1 hs.1.2), strTok_safe hf hs.1.1]
      simp [safeToks, ht]
    · rw [ser_unit_tagged ht e n h2]
      have hp := isSafeStr_not_punct hs.1.1
      have := strTok_safe (o := o) hf hs.1.1
      simp only [strTok, hp, Bool.false_eq_true, if_false] at this
      simp [safeToks, ht, this])
  (fun s hs => by
    simp only [safePred] at hs
    simp [keyStrText, safeToks, hf.plain s hs, hf.value s o.yaml12 true hs, hf.shape s hs])
  (fun n hs => by
    simp only [safePred] at hs
    simp [plainOrQuoted, safeToks, needsDoubleQuotes_safe hs, hf.plain n hs, hf.value n o.yaml12 true hs, hf.shape n hs])

/-- a safe string as a plain scalar token -/
theorem safe_scalarTok {s : List Char} (h : isSafeStr s = true) : ScalarTok s (.str s) := by
  have := (safe_plainTok h).scalarTok (fun cs e => by
    obtain ⟨c, cs', e', hc, _, _⟩ := safe_cons h
    rw [e'] at e
    simp only [List.cons.injEq] at e
    rw [e.1] at hc; exact absurd hc (by decide))
  rwa [resolvePlain_safe h] at this

/-- a safe string as a plain key token -/
theorem safe_keyTok {s : List Char} (h : isSafeStr s = true) : KeyTok s s := by
  obtain ⟨c, cs, e, hc, _, _⟩ := safe_cons h
  have htc : isTokChar c = true := alnum_tok (alpha_alnum hc)
  refine ⟨fun after ha => implicitKey_key h after ha, fun after => classify_key h after, ⟨c, cs, e, ?_⟩,
    fun x hx => tok_lineChar (alnum_tok (safe_chars h x hx)), ?_, safe_scalarTok h⟩
  · have hne : ∀ x : Char, isTokChar x = false → c ≠ x := fun x hx => isTokChar_ne htc x hx
    simp [keyStart, hne ' ' (by decide), hne '#' (by decide), hne '%' (by decide), hne '!' (by decide), hne '[' (by decide),
      hne '{' (by decide), hne '|' (by decide), hne '>' (by decide), hne '&' (by decide), hne '*' (by decide),
      hne '@' (by decide), hne '`' (by decide)]
  · intro after
    subst e
    exact notMarker_head (t := (c :: cs) ++ ':' :: after) rfl (Or.inl (by rintro rfl; exact absurd hc (by decide)))
      (isTokChar_ne htc '.' (by decide)) 0

/-- a safe string as a plain token that may follow a tag -/
theorem safe_coreTok {s : List Char} (h : isSafeStr s = true) : CoreTok s (.str s) := by
  obtain ⟨c, cs, e, hc, _, _⟩ := safe_cons h
  refine ⟨safe_scalarTok h, classify_plainTok (safe_plainTok h), ?_⟩
  rw [e]
  simp only [List.head?_cons, ne_eq, Option.some.injEq]
  rintro rfl; exact absurd hc (by decide)

/-- the read side of the safe-leaf contract -/
theorem safe_read (o : Opts) (k : Nat) : ReadContract (safePred o) (safeToks o) k :=
  ReadContract.ofTok (Toks.ofStr_isTok _ _ _ _)
  (fun s hs => by
    simp only [safePred, Bool.and_eq_true] at hs
    cases hq : o.quoteAll
    · simpa [safeToks, hq] using safe_scalarTok hs.1
    · simpa [safeToks, hq] using singleQuoted_scalarTok (needsDoubleQuotes_safe hs.1))
  (fun e n hs => by
    simp only [safePred, Bool.and_eq_true] at hs
    cases ht : o.taggedEnums
    · cases hq : o.quoteAll
      · simpa [safeToks, hq, ht] using safe_scalarTok hs.1.1
      · simpa [safeToks, hq, ht] using singleQuoted_scalarTok (needsDoubleQuotes_safe hs.1.1)
    · have he : tagNameOk e = true := by simpa [ht] using hs.2
      cases hq : o.quoteAll
      · simpa [safeToks, hq, ht] using tagged_scalarTok he (safe_coreTok hs.1.1)
      · simpa [safeToks, hq, ht] using tagged_scalarTok he (singleQuoted_coreTok (needsDoubleQuotes_safe hs.1.1)))
  (fun s hs => by
    simp only [safePred] at hs
    simpa [safeToks] using safe_keyTok hs)
  (fun n hs => by
    simp only [safePred] at hs
    cases hq : o.quoteAll
    · simpa [safeToks, hq] using safe_keyTok hs
    · simpa [safeToks, hq] using singleQuoted_keyTok (needsDoubleQuotes_safe hs))
  k

end SaphyrVerif.Emit
