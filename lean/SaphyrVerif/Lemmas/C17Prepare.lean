import SaphyrVerif.Lemmas.C17Source
import SaphyrVerif.Lemmas.C17Breaks
/-!
Helper lemmas for C17, part 8: `line_col_to_byte_offset_with_starts`, `next_char_boundary`, and the
window / span computation shared by both renderers (`prepare`).
-/
namespace SaphyrVerif.Lemmas.C17
open SaphyrVerif SaphyrVerif.Snippet
open SaphyrVerif.Spec.Snippet (isControl sanitizeChar clean takeRows dropRows row visibleLine)

/-! ### one row -/

theorem takeRows_one (s : List Char) :
    ('\n' ∉ s ∧ takeRows 1 s = s) ∨
    (∃ body post, s = body ++ '\n' :: post ∧ '\n' ∉ body ∧ takeRows 1 s = body ++ ['\n'] ∧ dropRows 1 s = post) := by
  induction s with
  | nil => left; simp
  | cons c cs ih =>
    rw [takeRows_succ_cons, dropRows_succ_cons]
    by_cases hc : c = '\n'
    · right
      rw [if_pos hc, if_pos hc]
      exact ⟨[], cs, by rw [hc]; rfl, by simp, by simp [hc], by simp⟩
    · rw [if_neg hc, if_neg hc]
      rcases ih with ⟨h1, h2⟩ | ⟨body, post, h1, h2, h3, h4⟩
      · left
        refine ⟨?_, by rw [h2]⟩
        intro hm
        rcases List.mem_cons.mp hm with h | h
        · exact hc h.symm
        · exact h1 h
      · right
        refine ⟨c :: body, post, by rw [h1]; rfl, ?_, by rw [h3]; rfl, h4⟩
        intro hm
        rcases List.mem_cons.mp hm with h | h
        · exact hc h.symm
        · exact h2 h

theorem stripNl_append_nl (body : List Char) : Spec.Snippet.stripNl (body ++ ['\n']) = body := by
  unfold Spec.Snippet.stripNl
  rw [if_pos (by simp)]
  simp

theorem stripNl_of_not_mem (s : List Char) (h : '\n' ∉ s) : Spec.Snippet.stripNl s = s := by
  unfold Spec.Snippet.stripNl
  rw [if_neg]
  intro hl
  exact h (List.mem_of_getLast? hl)

theorem stripCR_eq (l : List Char) : stripCR l = Spec.Snippet.stripCr l := rfl

/-! ### bytes of the text -/

theorem byteAt_append (A B : List Char) (i : Nat) : byteAt (A ++ B) (blen A + i) = byteAt B i := by
  induction A with
  | nil => simp
  | cons c cs ih =>
    rw [List.cons_append, byteAt, blen_cons, if_neg (by omega)]
    have : utf8LenChar c + blen cs + i - utf8LenChar c = blen cs + i := by omega
    rw [this, ih]

theorem byteAt_cons_lt (c : Char) (B : List Char) (i : Nat) (h : i < utf8LenChar c) :
    byteAt (c :: B) i = (utf8Bytes c)[i]? := by
  rw [byteAt, if_pos h]

theorem char_eq_of_toNat (c : Char) (n : Nat) (h : c.toNat = n) : c = Char.ofNat n := by
  rw [← h, Char.ofNat_toNat]

/-- the last byte of a character is `0x0D` exactly for `\r` -/
theorem last_byte_cr (c : Char) :
    (utf8Bytes c)[utf8LenChar c - 1]? = some 0x0D ↔ c = '\r' := by
  have hl := utf8Bytes_length c
  rcases shape c with ⟨h, e⟩ | ⟨h1, h2, e⟩ | ⟨h1, h2, e⟩ | ⟨h1, e⟩
  · have : utf8LenChar c = 1 := by rw [← hl, e]; rfl
    rw [this, e]
    simp only [Nat.sub_self, List.getElem?_cons_zero, Option.some.injEq]
    constructor
    · intro h0; exact char_eq_of_toNat c 0x0D h0
    · intro h0; rw [h0]; decide
  · have : utf8LenChar c = 2 := by rw [← hl, e]; rfl
    rw [this, e]
    simp only [List.getElem?_cons_succ, List.getElem?_cons_zero, Option.some.injEq]
    constructor
    · intro h0; omega
    · intro h0; subst h0; exact absurd h1 (by decide)
  · have : utf8LenChar c = 3 := by rw [← hl, e]; rfl
    rw [this, e]
    simp only [List.getElem?_cons_succ, List.getElem?_cons_zero, Option.some.injEq]
    constructor
    · intro h0; omega
    · intro h0; subst h0; exact absurd h1 (by decide)
  · have : utf8LenChar c = 4 := by rw [← hl, e]; rfl
    rw [this, e]
    simp only [List.getElem?_cons_succ, List.getElem?_cons_zero, Option.some.injEq]
    constructor
    · intro h0; omega
    · intro h0; subst h0; exact absurd h1 (by decide)

/-- the byte just before the end of `body` inside `P ++ body ++ T` is `\r` iff `body` ends with `\r` -/
theorem byteAt_body_end (P body T : List Char) (hb : body ≠ []) :
    byteAt (P ++ body ++ T) (blen P + blen body - 1) = some 0x0D ↔ body.getLast? = some '\r' := by
  rcases List.eq_nil_or_concat body with h | ⟨init, c, h⟩
  · exact absurd h hb
  · subst h
    rw [List.concat_eq_append]
    have hpos := utf8LenChar_pos c
    have e1 : P ++ (init ++ [c]) ++ T = (P ++ init) ++ (c :: T) := by simp
    have e2 : blen P + blen (init ++ [c]) - 1 = blen (P ++ init) + (utf8LenChar c - 1) := by
      rw [blen_append, blen_append, blen_cons, blen_nil]; omega
    rw [e1, e2, byteAt_append, byteAt_cons_lt _ _ _ (by omega), last_byte_cr]
    simp

theorem blen_dropLast_cr (body : List Char) (h : body.getLast? = some '\r') :
    blen body = blen body.dropLast + 1 ∧ body = body.dropLast ++ ['\r'] := by
  rcases List.eq_nil_or_concat body with h0 | ⟨init, c, h0⟩
  · subst h0; cases h
  · subst h0
    rw [List.concat_eq_append] at h ⊢
    have : c = '\r' := by simpa using h
    subst this
    rw [List.dropLast_concat, blen_append]
    exact ⟨rfl, rfl⟩

/-! ### `line_col_to_byte_offset_with_starts` -/

/-- decomposition of a text around row `row`: everything before, the visible line, the rest -/
theorem row_decomp (text : List Char) (row : Nat) (h1 : 1 ≤ row) :
    ∃ body T, text = takeRows (row - 1) text ++ body ++ T ∧ '\n' ∉ body ∧
      visibleLine text row = Spec.Snippet.stripCr body ∧
      ((T = [] ∧ (dropRows (row - 1) text).count '\n' = 0) ∨
       (∃ post, T = '\n' :: post ∧ takeRows row text = takeRows (row - 1) text ++ body ++ ['\n'])) := by
  have hsplit := takeRows_append_dropRows (row - 1) text
  rcases takeRows_one (dropRows (row - 1) text) with ⟨hn, ht⟩ | ⟨body, post, hd, hn, ht, _⟩
  · refine ⟨dropRows (row - 1) text, [], by rw [List.append_nil, hsplit], hn, ?_, .inl ⟨rfl, count_nl_zero_of_not_mem _ hn⟩⟩
    unfold visibleLine Spec.Snippet.row
    rw [ht, stripNl_of_not_mem _ hn]
  · refine ⟨body, '\n' :: post, by rw [List.append_assoc, ← hd, hsplit], hn, ?_, .inr ⟨post, rfl, ?_⟩⟩
    · unfold visibleLine Spec.Snippet.row
      rw [ht, stripNl_append_nl]
    · have : row = (row - 1) + 1 := by omega
      conv => lhs; rw [this, takeRows_add]
      rw [ht, List.append_assoc]

/-- (boundary) `line_col_to_byte_offset_with_starts` with `starts = line_starts(text)`: never panics;
the answer is the byte length of everything before the row plus the first `col − 1` characters of the
visible line — hence a character boundary of the text — for `1 ≤ col ≤ len + 1`, and `None` otherwise -/
theorem lineColToByte_spec (text : List Char) (ht : text ≠ []) (row col : Nat) (h1 : 1 ≤ row)
    (h2 : row ≤ text.count '\n' + 1) :
    lineColToByte text (lineStarts text) row col =
      .ok ((colToByte (visibleLine text row) col).map (blen (takeRows (row - 1) text) + ·)) := by
  unfold lineColToByte
  by_cases hc0 : col = 0
  · subst hc0
    rw [if_pos (.inr rfl)]
    simp [colToByte]
  · rw [if_neg (by omega)]
    have hse : (lineStarts text).isEmpty = false := by
      cases hq : (lineStarts text).isEmpty with
      | false => rfl
      | true => exact absurd ((lineStarts_nil_iff text).mp hq) ht
    rw [hse]
    simp only [Bool.false_eq_true, if_false]
    rw [lineStarts_length text ht, if_neg (by omega), idx_lineStarts text ht (row - 1) (by omega)]
    simp only [res_bind_ok]
    obtain ⟨body, T, htext, hnb, hvis, hT⟩ := row_decomp text row h1
    -- CR stripping and the slice, once `line_end` (before the CR check) is known
    have hslice : ∀ (e : Nat) (v : List Char) (rest : List Char), body = v ++ rest → e = blen (takeRows (row - 1) text) + blen v →
        slice text (blen (takeRows (row - 1) text)) e "line_col_to_byte:source[line_start..line_end]" = .ok v := by
      intro e v rest hb he
      have : text = takeRows (row - 1) text ++ v ++ (rest ++ T) := by
        conv => lhs; rw [htext, hb]
        simp
      conv => lhs; arg 1; rw [this]
      exact slice_append3' _ _ _ _ _ _ rfl he
    have htail : (do
        let line ← slice text (blen (takeRows (row - 1) text))
          (if blen (takeRows (row - 1) text) + blen body > blen (takeRows (row - 1) text) ∧
              byteAt text (blen (takeRows (row - 1) text) + blen body - 1) = some 13
            then blen (takeRows (row - 1) text) + blen body - 1 else blen (takeRows (row - 1) text) + blen body)
          "line_col_to_byte:source[line_start..line_end]"
        pure (Option.map (fun x => blen (takeRows (row - 1) text) + x) (colToByte line col))) =
        Res.ok (Option.map (fun x => blen (takeRows (row - 1) text) + x) (colToByte (visibleLine text row) col)) := by
      by_cases hbe : body = []
      · subst hbe
        have hng : ¬ (blen (takeRows (row - 1) text) + blen ([] : List Char) > blen (takeRows (row - 1) text) ∧
            byteAt text (blen (takeRows (row - 1) text) + blen ([] : List Char) - 1) = some 13) := by
          intro h; have := h.1; simp at this
        rw [if_neg hng]
        rw [hslice _ [] [] rfl rfl]
        simp only [res_bind_ok, res_pure]
        rw [hvis]; rfl
      · have hpos := blen_pos_of_ne_nil body hbe
        have hbyte := byteAt_body_end (takeRows (row - 1) text) body T hbe
        rw [← htext] at hbyte
        by_cases hcr : body.getLast? = some '\r'
        · rw [if_pos ⟨by omega, hbyte.mpr hcr⟩]
          obtain ⟨hl, hbd⟩ := blen_dropLast_cr body hcr
          rw [hslice _ body.dropLast ['\r'] hbd (by omega)]
          simp only [res_bind_ok, res_pure]
          rw [hvis]
          unfold Spec.Snippet.stripCr
          rw [if_pos hcr]
        · rw [if_neg (fun h => hcr (hbyte.mp h.2))]
          rw [hslice _ body [] (by simp) rfl]
          simp only [res_bind_ok, res_pure]
          rw [hvis]
          unfold Spec.Snippet.stripCr
          rw [if_neg hcr]
    rcases hT with ⟨hT0, hcnt⟩ | ⟨post, hT1, htr⟩
    · rw [count_dropRows] at hcnt
      rw [if_neg (by omega)]
      simp only [res_bind_ok, res_pure]
      have e : blen text = blen (takeRows (row - 1) text) + blen body := by
        conv => lhs; rw [htext, hT0, List.append_nil, blen_append]
      rw [e]
      exact htail
    · have hcnt : row - 1 < text.count '\n' := by
        have h3 := count_dropRows (row - 1) text
        have h4 : (dropRows (row - 1) text).count '\n' ≥ 1 := by
          have e := takeRows_append_dropRows (row - 1) text
          have e2 : dropRows (row - 1) text = body ++ T := by
            have := htext
            rw [List.append_assoc] at this
            have h5 : takeRows (row - 1) text ++ dropRows (row - 1) text = takeRows (row - 1) text ++ (body ++ T) := by
              rw [e]; exact this
            exact List.append_cancel_left h5
          rw [e2, hT1, List.count_append, List.count_cons]
          simp
          omega
        omega
      rw [if_pos (by omega)]
      have e3 : row - 1 + 1 = row := by omega
      rw [e3, idx_lineStarts text ht row (by omega), htr]
      simp only [res_bind_ok, res_pure]
      have e : blen (takeRows (row - 1) text ++ body ++ ['\n']) - 1 = blen (takeRows (row - 1) text) + blen body := by
        simp only [blen_append, blen_cons, blen_nil]
        have : utf8LenChar '\n' = 1 := by decide
        omega
      rw [e]
      exact htail

/-- the offset found is a character boundary of the text -/
theorem lineColToByte_boundary (text : List Char) (row col : Nat) (h1 : 1 ≤ row) :
    ∃ rest, text = (takeRows (row - 1) text ++ (visibleLine text row).take (col - 1)) ++ rest := by
  obtain ⟨body, T, htext, _, hvis, _⟩ := row_decomp text row h1
  have hpre : ∃ r2, body = Spec.Snippet.stripCr body ++ r2 := by
    unfold Spec.Snippet.stripCr
    split
    · exact ⟨body.drop (body.length - 1), by rw [List.dropLast_eq_take, List.take_append_drop]⟩
    · exact ⟨[], by simp⟩
  obtain ⟨r2, hr2⟩ := hpre
  refine ⟨(visibleLine text row).drop (col - 1) ++ r2 ++ T, ?_⟩
  conv => lhs; rw [htext, hr2, ← hvis]
  conv => lhs; rw [← List.take_append_drop (col - 1) (visibleLine text row)]
  simp only [List.append_assoc]

/-! ### `next_char_boundary` -/

theorem nextCharBoundary_spec (A B : List Char) :
    nextCharBoundary (A ++ B) (blen A) =
      .ok (match B with
           | [] => none
           | c :: _ => some (blen A + utf8LenChar c)) := by
  unfold nextCharBoundary
  cases B with
  | nil => simp
  | cons c rest =>
    have hpos := utf8LenChar_pos c
    rw [if_neg (by rw [blen_append, blen_cons]; omega), slice_from A (c :: rest)]
    simp only [res_bind_ok, res_pure]
    cases rest with
    | nil => simp [blen_append, blen_cons]
    | cons d ds => rfl

end SaphyrVerif.Lemmas.C17

namespace SaphyrVerif.Lemmas.C17
open SaphyrVerif SaphyrVerif.Snippet
open SaphyrVerif.Spec.Snippet (isControl sanitizeChar clean takeRows dropRows row visibleLine)

/-! ### `prepare`: the window and span handed to the renderers -/

/-- facts about a successfully prepared window -/
structure PreparedOk (text : List Char) (loc : Snippet.Loc) (m : Mapping) (p : Prepared) : Prop where
  clean : clean p.windowText = true
  span_ordered : p.localStart ≤ p.localEnd
  span_inside : p.localEnd ≤ blen p.windowText
  row_rel : relativeRow m loc.line = some p.row
  ws_pos : 1 ≤ p.windowStartRow
  ws_le : p.windowStartRow ≤ p.row
  row_le : p.row ≤ p.windowEndRow
  we_le : p.windowEndRow ≤ p.totalLines
  total : p.totalLines = text.count '\n' + 1
  height : p.windowEndRow - p.windowStartRow ≤ 2 * ctxLines
  display : p.displayStartRow = absoluteRow m p.windowStartRow
  col_ok : 1 ≤ loc.column ∧ loc.column ≤ (visibleLine text p.row).length + 1

/-- `prepare` after its `normalize_line_breaks` step: the computation on the text whose line breaks have
been normalised (proof device: `prepare text = prepareOn (normBreaks text)`, by unfolding) -/
def prepareOn (text : List Char) (loc : Snippet.Loc) (m : Mapping) (cropRadius : Nat) : Res (Option Prepared) :=
  if loc.isUnknown then .ok none
  else
    match relativeRow m loc.line with
    | none => .ok none
    | some row =>
      let starts := lineStarts text
      if starts.isEmpty then .ok none
      else if row = 0 ∨ row > starts.length then .ok none
      else do
        let some start ← lineColToByte text starts row loc.column | pure none
        let endB ← spanEnd text start
        let (ws, we) := windowRows row starts.length
        let (a, bnd) ← windowBytes text starts ws we "fmt"
        let w ← slice text a bnd "fmt:text[window_start..window_end]"
        let ls := min (start - a) (blen w)
        let le := min (endB - a) (blen w)
        let (wt, ls', le') ← cropWindowText w ws row loc.column cropRadius ls le
        pure (some ⟨wt, ls', le', row, ws, we, starts.length, absoluteRow m ws⟩)

theorem prepare_norm (text : List Char) (loc : Snippet.Loc) (m : Mapping) (r : Nat) :
    prepare text loc m r = prepareOn (normBreaks text) loc m r := rfl

/-- (safety) the computation shared by `Snippet::fmt_or_fallback` and the crate's own window renderer
never panics; when it yields a window, the window text is terminal-clean, the span is ordered and lies
inside it, the window is at most `2·ctx+1` rows high and contains the row of the location -/
theorem prepareOn_safe (text : List Char) (loc : Snippet.Loc) (m : Mapping) (r : Nat)
    (hlen : text.length + 1 ≤ usizeMax) (hcol : loc.column ≤ usizeMax) :
    ∃ res, prepareOn text loc m r = .ok res ∧ ∀ p, res = some p → PreparedOk text loc m p := by
  unfold prepareOn
  by_cases hu : loc.isUnknown = true
  · rw [if_pos hu]; exact ⟨none, rfl, fun p h => by cases h⟩
  · rw [if_neg hu]
    cases hrel : relativeRow m loc.line with
    | none => exact ⟨none, rfl, fun p h => by cases h⟩
    | some rw_ =>
      simp only []
      by_cases h1 : (lineStarts text).isEmpty = true
      · rw [if_pos h1]; exact ⟨none, rfl, fun p h => by cases h⟩
      · rw [if_neg h1]
        have hne : text ≠ [] := fun h => h1 ((lineStarts_nil_iff _).mpr h)
        rw [lineStarts_length _ hne]
        by_cases h2 : rw_ = 0 ∨ rw_ > text.count '\n' + 1
        · rw [if_pos h2]; exact ⟨none, rfl, fun p h => by cases h⟩
        · rw [if_neg h2]
          rw [lineColToByte_spec text hne rw_ loc.column (by omega) (by omega)]
          simp only [res_bind_ok]
          rw [colToByte_eq]
          by_cases hcc : 1 ≤ loc.column ∧ loc.column - 1 ≤ (visibleLine text rw_).length
          · rw [if_pos hcc]
            simp only [Option.map_some]
            -- the start offset is a boundary
            obtain ⟨B, hAB⟩ := lineColToByte_boundary text rw_ loc.column (by omega)
            generalize hA : takeRows (rw_ - 1) text ++ (visibleLine text rw_).take (loc.column - 1) = A at hAB
            have hstart : blen (takeRows (rw_ - 1) text) + blen ((visibleLine text rw_).take (loc.column - 1)) = blen A := by
              rw [← hA, blen_append]
            rw [hstart]
            have hend : ∃ endB, spanEnd text (blen A) = Res.ok endB ∧ blen A ≤ endB := by
              unfold spanEnd
              simp only []
              by_cases hb : byteAt text (blen A) = some 0x0A ∨ byteAt text (blen A) = some 0x0D
              · rw [if_pos hb]; exact ⟨_, rfl, Nat.le_refl _⟩
              · rw [if_neg hb]
                have := nextCharBoundary_spec A B
                rw [← hAB] at this
                rw [this]
                simp only [res_bind_ok, res_pure]
                refine ⟨_, rfl, ?_⟩
                cases B with
                | nil => simp
                | cons c cs => simp
            obtain ⟨endB, hendeq, hendle⟩ := hend
            rw [hendeq]
            simp only [res_bind_ok]
            -- the vertical window
            have hrel_le : rw_ ≤ usizeMax := by
              have h3 : text.count '\n' ≤ text.length := List.count_le_length
              omega
            obtain ⟨f1, f2, f3, f4, f5⟩ := windowRows_facts rw_ (text.count '\n' + 1) (by omega) (by omega) hrel_le
            generalize hws : (windowRows rw_ (text.count '\n' + 1)).1 = ws at f1 f2 f3 f4 f5
            generalize hwe : (windowRows rw_ (text.count '\n' + 1)).2 = we at f1 f2 f3 f4 f5
            obtain ⟨hwb, hsl⟩ := window_slice text hne ws we f1 (by omega) f4 "fmt" "fmt:text[window_start..window_end]"
            rw [hwb]
            simp only [res_bind_ok]
            rw [hsl]
            simp only [res_bind_ok]
            generalize hw : takeRows (we - (ws - 1)) (dropRows (ws - 1) text) = w
            have hwlen : w.length ≤ text.length := by
              rw [← hw]
              have a1 := takeRows_length_le (we - (ws - 1)) (dropRows (ws - 1) text)
              have a2 := dropRows_length_le (ws - 1) text
              omega
            obtain ⟨out, ns, ne, hcw, hclean, hspan⟩ := cropWindowText_safe w ws rw_ loc.column r
              (min (blen A - blen (takeRows (ws - 1) text)) (blen w)) (min (endB - blen (takeRows (ws - 1) text)) (blen w))
              (by omega) hcol
            rw [hcw]
            simp only [res_bind_ok, res_pure]
            refine ⟨_, rfl, ?_⟩
            intro p hp
            simp only [Option.some.injEq] at hp
            subst hp
            have hsp := hspan ⟨by omega, Nat.min_le_right _ _⟩
            exact ⟨hclean, hsp.1, hsp.2, hrel, f1, f2, f3, f4, rfl, f5, rfl, hcc.1, by
              show loc.column ≤ (visibleLine text rw_).length + 1
              omega⟩
          · rw [if_neg hcc]
            simp only [Option.map_none]
            exact ⟨none, rfl, fun p h => by cases h⟩

/-- (safety) `prepare` itself: the facts hold for the text with its line breaks normalised, i.e. for
the lines of the text under the YAML rule -/
theorem prepare_safe (text : List Char) (loc : Snippet.Loc) (m : Mapping) (r : Nat)
    (hlen : text.length + 1 ≤ usizeMax) (hcol : loc.column ≤ usizeMax) :
    ∃ res, prepare text loc m r = .ok res ∧ ∀ p, res = some p → PreparedOk (normBreaks text) loc m p := by
  rw [prepare_norm]
  exact prepareOn_safe (normBreaks text) loc m r (by rw [normBreaks_length]; exact hlen) hcol

/-! ### decimal digits are clean -/

theorem digit_range (c : Char) (h : c.isDigit = true) : 48 ≤ c.toNat ∧ c.toNat ≤ 57 := by
  unfold Char.isDigit at h
  simp only [Bool.and_eq_true, decide_eq_true_eq] at h
  have h1 : (48 : UInt32).toNat ≤ c.val.toNat := UInt32.le_iff_toNat_le.mp h.1
  have h2 : c.val.toNat ≤ (57 : UInt32).toNat := UInt32.le_iff_toNat_le.mp h.2
  exact ⟨h1, h2⟩

theorem toDigits_clean (n : Nat) : clean (Nat.toDigits 10 n) = true := by
  unfold clean
  rw [List.all_eq_true]
  intro c hc
  have hd := digit_range c (Nat.isDigit_of_mem_toDigits (by decide) (by decide) hc)
  unfold isControl; simp only []
  have h1 : ¬ c.toNat < 0x20 := by omega
  have h2 : ¬ c.toNat = 0x7F := by omega
  have h3 : ¬ 0x80 ≤ c.toNat := by omega
  simp [h1, h2, h3]

theorem clean_append (a b : List Char) : clean (a ++ b) = (clean a && clean b) := by
  unfold clean; rw [List.all_append]

end SaphyrVerif.Lemmas.C17
