import SaphyrVerif.Lemmas.C11_Typed2LockTac
/-!
Lock-step simulation (twin of `Lemmas/E2EBudget*.lean`, see `Lemmas/C11_Typed2LockRel.lean`), part 4: the statement `LA` — every function of the mutual
block of `Model/De.lean` that reads from the cursor maps a cursor and its twin `σ c` to results
related by `LR` — and the automation that proves one induction step per function.
(`pendingFromEvents` and `deserKey` read from private replay buffers only: they are literally the same call on
both sides.)
-/
namespace SaphyrVerif.Lemmas.Lock
open SaphyrVerif SaphyrVerif.Scalars SaphyrVerif.Pump SaphyrVerif.De
open SaphyrVerif.Lemmas.CurSim (newestCallEq)

set_option linter.unusedSimpArgs false
set_option linter.unusedVariables false

/-- the comparison statement for all cursor-reading functions of the mutual block at one fuel value -/
structure LA (P : LP) (fuel : Nat) : Prop where
  capture : ∀ {c}, P.Inv c → LR P (De.capture fuel c) (De.capture fuel (P.σ c))
  captureSeq : ∀ fps evs {c}, P.Inv c → LR P (De.captureSeq fuel c fps evs) (De.captureSeq fuel (P.σ c) fps evs)
  captureMap : ∀ fps evs {c}, P.Inv c → LR P (De.captureMap fuel c fps evs) (De.captureMap fuel (P.σ c) fps evs)
  mergeSeqBatches : ∀ b {c}, P.Inv c → LR P (De.mergeSeqBatches fuel c b) (De.mergeSeqBatches fuel (P.σ c) b)
  pendingFromLive : ∀ r {c}, P.Inv c → LR P (De.pendingFromLive fuel c r) (De.pendingFromLive fuel (P.σ c) r)
  collectEntriesFromMap : ∀ r {c}, P.Inv c →
    LR P (De.collectEntriesFromMap fuel c r) (De.collectEntriesFromMap fuel (P.σ c) r)
  collectLoop : ∀ r f m {c}, P.Inv c → LR P (De.collectLoop fuel c r f m) (De.collectLoop fuel (P.σ c) r f m)
  skipOneNode : ∀ {c}, P.Inv c → LR P (De.skipOneNode fuel c) (De.skipOneNode fuel (P.σ c))
  skipDepth : ∀ depth {c}, P.Inv c → LR P (De.skipDepth fuel c depth) (De.skipDepth fuel (P.σ c) depth)
  deser : ∀ cfg ty ik km {c}, P.Inv c → LR P (De.deser fuel cfg ty ik km c) (De.deser fuel cfg ty ik km (P.σ c))
  bytesLoop : ∀ cfg acc {c}, P.Inv c → LR P (De.bytesLoop fuel cfg c acc) (De.bytesLoop fuel cfg (P.σ c) acc)
  deserSeqLike : ∀ cfg shape {c}, P.Inv c →
    LR P (De.deserSeqLike fuel cfg shape c) (De.deserSeqLike fuel cfg shape (P.σ c))
  seqElems : ∀ cfg t acc {c}, P.Inv c → LR P (De.seqElems fuel cfg t c acc) (De.seqElems fuel cfg t (P.σ c) acc)
  tupleElems : ∀ cfg ts acc {c}, P.Inv c →
    LR P (De.tupleElems fuel cfg ts c acc) (De.tupleElems fuel cfg ts (P.σ c) acc)
  deserMapLike : ∀ cfg shape {c}, P.Inv c →
    LR P (De.deserMapLike fuel cfg shape c) (De.deserMapLike fuel cfg shape (P.σ c))
  mapEntries : ∀ cfg kt vt m acc {c}, P.Inv c →
    LR P (De.mapEntries fuel cfg kt vt c m acc) (De.mapEntries fuel cfg kt vt (P.σ c) m acc)
  structEntries : ∀ cfg fields deny m acc {c}, P.Inv c →
    LR P (De.structEntries fuel cfg fields deny c m acc) (De.structEntries fuel cfg fields deny (P.σ c) m acc)
  nextKey : ∀ cfg ks m {c}, P.Inv c → LR P (De.nextKey fuel cfg ks c m) (De.nextKey fuel cfg ks (P.σ c) m)
  nextValue : ∀ cfg vt m {c}, P.Inv c → LR P (De.nextValue fuel cfg vt c m) (De.nextValue fuel cfg vt (P.σ c) m)
  deserEnum : ∀ cfg name variants {c}, P.Inv c →
    LR P (De.deserEnum fuel cfg name variants c) (De.deserEnum fuel cfg name variants (P.σ c))
  collectTaggedSeq : ∀ depth acc {c}, P.Inv c →
    LR P (De.collectTaggedSeq fuel c depth acc) (De.collectTaggedSeq fuel (P.σ c) depth acc)
  variantPayload : ∀ cfg variants vname vloc mapMode tagged {c}, P.Inv c →
    LR P (De.variantPayload fuel cfg variants vname vloc mapMode tagged c)
      (De.variantPayload fuel cfg variants vname vloc mapMode tagged (P.σ c))

/-! ### automation -/

open Lean Elab Tactic Meta in
/-- the `LR` fact for a call with head symbol `n` (all explicit arguments are left to unification, the
invariant of the cursor is found among the hypotheses) -/
def lkFact (n : Name) : TacticM (Option Term) := do
  match n with
  | ``De.capture => return some (← `(LA.capture ‹LA _ _› (by assumption)))
  | ``De.captureSeq => return some (← `(LA.captureSeq ‹LA _ _› _ _ (by assumption)))
  | ``De.captureMap => return some (← `(LA.captureMap ‹LA _ _› _ _ (by assumption)))
  | ``De.mergeSeqBatches => return some (← `(LA.mergeSeqBatches ‹LA _ _› _ (by assumption)))
  | ``De.pendingFromLive => return some (← `(LA.pendingFromLive ‹LA _ _› _ (by assumption)))
  | ``De.collectEntriesFromMap => return some (← `(LA.collectEntriesFromMap ‹LA _ _› _ (by assumption)))
  | ``De.collectLoop => return some (← `(LA.collectLoop ‹LA _ _› _ _ _ (by assumption)))
  | ``De.skipOneNode => return some (← `(LA.skipOneNode ‹LA _ _› (by assumption)))
  | ``De.skipDepth => return some (← `(LA.skipDepth ‹LA _ _› _ (by assumption)))
  | ``De.deser => return some (← `(LA.deser ‹LA _ _› _ _ _ _ (by assumption)))
  | ``De.bytesLoop => return some (← `(LA.bytesLoop ‹LA _ _› _ _ (by assumption)))
  | ``De.deserSeqLike => return some (← `(LA.deserSeqLike ‹LA _ _› _ _ (by assumption)))
  | ``De.seqElems => return some (← `(LA.seqElems ‹LA _ _› _ _ _ (by assumption)))
  | ``De.tupleElems => return some (← `(LA.tupleElems ‹LA _ _› _ _ _ (by assumption)))
  | ``De.deserMapLike => return some (← `(LA.deserMapLike ‹LA _ _› _ _ (by assumption)))
  | ``De.mapEntries => return some (← `(LA.mapEntries ‹LA _ _› _ _ _ _ _ (by assumption)))
  | ``De.structEntries => return some (← `(LA.structEntries ‹LA _ _› _ _ _ _ _ (by assumption)))
  | ``De.nextKey => return some (← `(LA.nextKey ‹LA _ _› _ _ _ (by assumption)))
  | ``De.nextValue => return some (← `(LA.nextValue ‹LA _ _› _ _ _ (by assumption)))
  | ``De.deserEnum => return some (← `(LA.deserEnum ‹LA _ _› _ _ _ (by assumption)))
  | ``De.collectTaggedSeq => return some (← `(LA.collectTaggedSeq ‹LA _ _› _ _ (by assumption)))
  | ``De.variantPayload => return some (← `(LA.variantPayload ‹LA _ _› _ _ _ _ _ _ (by assumption)))
  | ``De.takeStringScalar => return some (← `(takeStringScalar_lk ‹Closed _› _ (by assumption)))
  | ``De.deserScalarTyped => return some (← `(deserScalarTyped_lk ‹Closed _› _ _ (by assumption)))
  | ``De.deserString => return some (← `(deserString_lk ‹Closed _› _ (by assumption)))
  | ``De.deserStr => return some (← `(deserStr_lk ‹Closed _› _ (by assumption)))
  | ``De.deserAnyScalar => return some (← `(deserAnyScalar_lk ‹Closed _› _ _ _ _ _ (by assumption)))
  | ``De.byteSeqVisit => return some (← `(byteSeqVisit_lk ‹Closed _› _ _ (by assumption)))
  | ``De.structFinish => return some (← `(structFinish_lk ‹Closed _› _ _ (by assumption)))
  | _ => return none

open Lean Elab Tactic Meta in
/-- is the cursor argument of the call in `lhs` a live-able cursor variable (not a literal replay cursor)? -/
def callOnReplay (lhs : Expr) : Bool :=
  lhs.getAppArgs.any fun a => a.isAppOf ``SaphyrVerif.De.Cur.replay

open Lean Elab Tactic Meta in
/-- transport the outcome of the call in the newest equation produced by `split` to the right side -/
elab "lk_fwd" : tactic => withMainContext do
  let decls := (← getLCtx).decls.toList.reverse.filterMap id
  for ldecl in decls.take 6 do
    if ldecl.isImplementationDetail then continue
    let ty ← instantiateMVars ldecl.type
    if let some (_, lhs, rhs) := ty.eq? then
      let isOk := rhs.isAppOf ``SaphyrVerif.De.R.ok
      let isErr := rhs.isAppOf ``SaphyrVerif.De.R.err
      if isOk || isErr then
        if let .const n _ := lhs.getAppFn then
          if callOnReplay lhs then throwError "lk_fwd: call on a replay cursor (same on both sides)"
          let some prf ← lkFact n | throwError "lk_fwd: no rule for {n}"
          let h ← Term.exprToSyntax ldecl.toExpr
          if isOk then evalTactic (← `(tactic| lkfwd_ok $h, $prf))
          else evalTactic (← `(tactic| lkfwd_err $h, $prf))
          return
  throwError "lk_fwd: no call"

open Lean Elab Tactic Meta in
/-- the head symbols of the two sides of a goal `LR P lhs rhs` -/
def lkGoalHeads : TacticM (Option (Name × Name)) := withMainContext do
  let tgt := (← instantiateMVars (← getMainTarget)).cleanupAnnotations
  if tgt.isAppOfArity ``LR 4 then
    let l := (tgt.getArg! 2).cleanupAnnotations
    let r := (tgt.getArg! 3).cleanupAnnotations
    match l.getAppFn, r.getAppFn with
    | .const a _, .const b _ => return some (a, b)
    | _, _ => return none
  return none

open Lean Elab Tactic Meta in
/-- close a leaf: both sides failed alike / succeeded alike -/
elab "lk_leaf" : tactic => do
  let some (a, b) ← lkGoalHeads | throwError "lk_leaf: not a leaf"
  if a == ``R.err && b == ``R.err then evalTactic (← `(tactic| lk_err))
  else if a == ``R.ok && b == ``R.ok then evalTactic (← `(tactic| with_reducible exact LR.ok (by assumption)))
  else throwError "lk_leaf: not a leaf"

open Lean Elab Tactic Meta in
/-- close a tail call by the induction hypothesis (or by a leaf lemma) -/
elab "lk_tail" : tactic => do
  let some (a, b) ← lkGoalHeads | throwError "lk_tail: not a call"
  unless a == b do throwError "lk_tail: different heads"
  let some prf ← lkFact a | throwError "lk_tail: no rule for {a}"
  evalTactic (← `(tactic| exact $prf))

theorem act1_eq1 (p : Prop) [Decidable p] : ((if p then (1 : Nat) else 0) == 1) = decide p := by
  by_cases h : p <;> simp [h]
theorem act1_eq2 (p : Prop) [Decidable p] : ((if p then (1 : Nat) else 0) == 2) = false := by
  by_cases h : p <;> simp [h]
theorem act2_eq1 (p : Prop) [Decidable p] : ((if p then (2 : Nat) else 0) == 1) = false := by
  by_cases h : p <;> simp [h]
theorem act2_eq2 (p : Prop) [Decidable p] : ((if p then (2 : Nat) else 0) == 2) = decide p := by
  by_cases h : p <;> simp [h]
theorem act0_eq1 : ((0 : Nat) == 1) = false := rfl
theorem act0_eq2 : ((0 : Nat) == 2) = false := rfl

macro "lk_simp" : tactic =>
  `(tactic| simp only [*, ↓reduceIte, Bool.false_eq_true, act1_eq1, act1_eq2, act2_eq1, act2_eq2, act0_eq1, act0_eq2,
      decide_eq_true_eq, LP.σ_lastLoc, LP.σ_refLoc, LP.σ_atAlias, LP.σ_tagUseSite, LP.σ_eofErr, LP.σ_replay])

macro "lk_loop" : tactic =>
  `(tactic| repeat' (first | lk_leaf | lk_step | lk_simp | (split <;> try lk_fwd) | lk_tail))

end SaphyrVerif.Lemmas.Lock
