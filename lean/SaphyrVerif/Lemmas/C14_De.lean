import SaphyrVerif.Spec.Anchors
/-!
Helper lemmas for C14, deserializer side: what `IgnoredAny` and wrapper-free types leave untouched,
what a weak wrapper needs, how a recursive placeholder is filled.
-/
namespace SaphyrVerif.Lemmas.C14
open SaphyrVerif.Anchors SaphyrVerif.Spec.Anchors

/-- the part of the state that belongs to the thread-local `AnchorState` and the rebuilt heap -/
def SameStore (s s' : DeSt) : Prop :=
  s'.stack = s.stack ∧ s'.store = s.store ∧ s'.heap = s.heap ∧ s'.nextPtr = s.nextPtr

theorem SameStore.refl (s : DeSt) : SameStore s s := ⟨rfl, rfl, rfl, rfl⟩

theorem SameStore.trans {a b c : DeSt} (h1 : SameStore a b) (h2 : SameStore b c) : SameStore a c :=
  ⟨h2.1.trans h1.1, h2.2.1.trans h1.2.1, h2.2.2.1.trans h1.2.2.1, h2.2.2.2.trans h1.2.2.2⟩

mutual
theorem skipLive_sameStore : ∀ (o : Out) (s : DeSt) (e : Out) (s' : DeSt),
    skipLive o s = .ok (e, s') → SameStore s s'
  | .leaf a k, s, e, s', h => by
    simp only [skipLive, Except.ok.injEq, Prod.mk.injEq] at h
    obtain ⟨_, rfl⟩ := h
    split <;> exact ⟨rfl, rfl, rfl, rfl⟩
  | .alias id, s, e, s', h => by
    simp only [skipLive] at h
    split at h
    · cases h
    · simp only [Except.ok.injEq, Prod.mk.injEq] at h
      obtain ⟨_, rfl⟩ := h
      exact SameStore.refl _
  | .node a isMap items, s, e, s', h => by
    simp only [skipLive] at h
    split at h
    · cases h
    · rename_i es s2 hl
      simp only [Except.ok.injEq, Prod.mk.injEq] at h
      obtain ⟨_, rfl⟩ := h
      have := skipLiveList_sameStore items _ es s2 hl
      have h0 : SameStore s (if a = 0 then s else { s with opn := a :: s.opn }) := by
        split <;> exact ⟨rfl, rfl, rfl, rfl⟩
      have h2 : SameStore s2 (if a = 0 then s2 else
          { s2 with opn := s2.opn.tail, defs := (a, Out.node a isMap es) :: s2.defs }) := by
        split <;> exact ⟨rfl, rfl, rfl, rfl⟩
      exact (h0.trans this).trans h2
theorem skipLiveList_sameStore : ∀ (os : List Out) (s : DeSt) (es : List Out) (s' : DeSt),
    skipLiveList os s = .ok (es, s') → SameStore s s'
  | [], s, es, s', h => by
    simp only [skipLiveList, Except.ok.injEq, Prod.mk.injEq] at h
    obtain ⟨_, rfl⟩ := h
    exact SameStore.refl _
  | x :: xs, s, es, s', h => by
    simp only [skipLiveList] at h
    split at h
    · cases h
    · rename_i e1 s1 h1
      split at h
      · cases h
      · rename_i es2 s2 h2
        simp only [Except.ok.injEq, Prod.mk.injEq] at h
        obtain ⟨_, rfl⟩ := h
        exact (skipLive_sameStore x s e1 s1 h1).trans (skipLiveList_sameStore xs s1 es2 s2 h2)
end

theorem getStored_some (s : DeSt) (k : Kind) (id tid : Nat) (q : Ptr)
    (h : getStored s k id tid = .ok (some q)) : s.store.lookup (k, id) = some (q, tid) := by
  unfold getStored at h
  cases hl : s.store.lookup (k, id) with
  | none => rw [hl] at h; cases h
  | some r =>
    obtain ⟨q', t⟩ := r
    rw [hl] at h
    simp only at h
    split at h
    · rename_i ht
      simp only [Except.ok.injEq, Option.some.injEq] at h
      rw [h, ht]
    · cases h

theorem popCtx_store (s : DeSt) (a : Nat) : (popCtx s a).store = s.store := rfl

theorem pushCtx_store (s : DeSt) (k : Kind) (a : Nat) : (pushCtx s k a).store = s.store := rfl

/-- the anchored case of a weak wrapper on a node `o` (not an alias) -/
theorem weak_anchored_ok (live : Bool) (k : Kind) (tid : Nat) (o : Out) (s : DeSt) (v : RVal) (e : Out) (s' : DeSt)
    (h : (match currentAnchorId (pushCtx s k o.rootAnchor) k with
      | none => (Except.error DeErr.weakNoAnchor : DeRes)
      | some id =>
        match (if live then skipLive o (pushCtx s k o.rootAnchor) else .ok (o, pushCtx s k o.rootAnchor)) with
        | .error e => .error e
        | .ok (e, s2) =>
          match getStored s2 k id tid with
          | .error e => .error e
          | .ok (some q) => .ok (.weak k q, e, popCtx s2 o.rootAnchor)
          | .ok none =>
            .error (if k.isRec then .weakUnknown else if reentrant s2 k id then .recNeedsWeak else .weakUnknown))
        = .ok (v, e, s')) :
    ∃ id q, currentAnchorId (pushCtx s k o.rootAnchor) k = some id ∧
      s.store.lookup (k, id) = some (q, tid) ∧ v = .weak k q ∧ s'.store = s.store := by
  split at h
  · cases h
  · rename_i id hid
    split at h
    · cases h
    · rename_i e2 s2 hsk
      have hst : s2.store = (pushCtx s k o.rootAnchor).store := by
        cases live with
        | false =>
          simp only [Bool.false_eq_true, if_false, Except.ok.injEq, Prod.mk.injEq] at hsk
          rw [← hsk.2]
        | true =>
          simp only [if_true] at hsk
          exact (skipLive_sameStore _ _ _ _ hsk).2.1
      split at h
      · cases h
      · rename_i q hq
        simp only [Except.ok.injEq, Prod.mk.injEq] at h
        obtain ⟨rfl, _, rfl⟩ := h
        have := getStored_some _ _ _ _ _ hq
        rw [hst, pushCtx_store] at this
        exact ⟨id, q, hid, this, rfl, by rw [popCtx_store, hst, pushCtx_store]⟩
      · cases h

/-- A weak wrapper that reads a node (not an alias) succeeds in exactly two ways: the node is an
unanchored `null` and the result is a dangling weak (state untouched), or the node is anchored and the
result is the pointer that the store holds under that anchor id, with the same `TypeId`. -/
theorem weak_node_ok (onAlias : Ty → Nat → DeSt → DeRes) (live : Bool) (k : Kind) (tid : Nat)
    (o : Out) (hna : ∀ id, o ≠ .alias id) (s : DeSt) (v : RVal) (e : Out) (s' : DeSt)
    (h : deCore onAlias live (.weak k tid) o s = .ok (v, e, s')) :
    (o.rootAnchor = 0 ∧ o.isNull = true ∧ v = .weakNull k ∧ e = o ∧ s' = s) ∨
    (o.rootAnchor ≠ 0 ∧ ∃ id q, currentAnchorId (pushCtx s k o.rootAnchor) k = some id ∧
      s.store.lookup (k, id) = some (q, tid) ∧ v = .weak k q ∧ s'.store = s.store) := by
  cases o with
  | alias id => exact absurd rfl (hna id)
  | leaf a lk =>
    simp only [deCore] at h
    split at h
    · rename_i ha
      split at h
      · rename_i hn
        simp only [Except.ok.injEq, Prod.mk.injEq] at h
        obtain ⟨rfl, rfl, rfl⟩ := h
        exact Or.inl ⟨ha, hn, rfl, rfl, rfl⟩
      · split at h <;> cases h
    · rename_i ha
      exact Or.inr ⟨ha, weak_anchored_ok live k tid _ s v e s' h⟩
  | node a isMap items =>
    simp only [deCore] at h
    split at h
    · rename_i ha
      split at h
      · rename_i hn
        simp [Out.isNull] at hn
      · split at h <;> cases h
    · rename_i ha
      exact Or.inr ⟨ha, weak_anchored_ok live k tid _ s v e s' h⟩

/-- `current_anchor_id` right after entering the context of a node is that node's own id -/
theorem current_after_push (s : DeSt) (k : Kind) (a : Nat) (_ha : a ≠ 0) :
    currentAnchorId (pushCtx s k a) k = some a := by
  simp [currentAnchorId, pushCtx]

theorem pop_push (s : DeSt) (k : Kind) (a : Nat) : popCtx (pushCtx s k a) a = s := by
  simp [popCtx, pushCtx]

/-! ### wrapper-free types: the value is the node without its marks, nothing is allocated or stored -/

mutual
theorem plain_replay :
    ∀ (ty : Ty) (o : Out) (s : DeSt) (v : RVal) (e : Out) (s' : DeSt),
      plainTy ty = true → deCore noAlias false ty o s = .ok (v, e, s') →
      v = plainVal o ∧ e = o ∧ SameStore s s' ∧ s'.defs = s.defs ∧ s'.opn = s.opn ∧ pointerFree v = true
  | .leaf probe, o, s, v, e, s', _, h => by
    cases o with
    | alias id => simp [deCore, noAlias] at h
    | node a isMap items => simp [deCore] at h
    | leaf a k =>
      simp only [deCore] at h
      cases hr : probeRejects probe k with
      | true => rw [hr] at h; simp at h
      | false =>
        rw [hr] at h
        simp only [Bool.false_eq_true, if_false, Bool.false_and, Except.ok.injEq, Prod.mk.injEq] at h
        obtain ⟨rfl, rfl, rfl⟩ := h
        refine ⟨rfl, rfl, ?_, ?_, ?_, rfl⟩
        · split <;> exact ⟨rfl, rfl, rfl, rfl⟩
        · split <;> rfl
        · split <;> rfl
  | .node tys, o, s, v, e, s', hp, h => by
    cases o with
    | alias id => simp [deCore, noAlias] at h
    | leaf a k => simp [deCore] at h
    | node a isMap items =>
      simp only [deCore, Bool.false_and, Bool.false_eq_true, if_false] at h
      split at h
      · cases h
      · rename_i vs es s2 hl
        simp only [Except.ok.injEq, Prod.mk.injEq] at h
        obtain ⟨rfl, rfl, rfl⟩ := h
        simp only [plainTy] at hp
        have := plain_replay_list tys items s vs es s2 hp hl
        obtain ⟨q1, q2, q3, q4, q5, q6⟩ := this
        refine ⟨by simp [plainVal, q1], by rw [q2], q3, q4, q5, by simp [pointerFree, q6]⟩
  | .strong k tid inner, _, _, _, _, _, hp, _ => by simp [plainTy] at hp
  | .weak k tid, _, _, _, _, _, hp, _ => by simp [plainTy] at hp
theorem plain_replay_list :
    ∀ (tys : List Ty) (os : List Out) (s : DeSt) (vs : List RVal) (es : List Out) (s' : DeSt),
      plainTyList tys = true → deList noAlias false tys os s = .ok (vs, es, s') →
      vs = plainValList os ∧ es = os ∧ SameStore s s' ∧ s'.defs = s.defs ∧ s'.opn = s.opn ∧
        pointerFreeList vs = true
  | [], [], s, vs, es, s', _, h => by
    simp only [deList, Except.ok.injEq, Prod.mk.injEq] at h
    obtain ⟨rfl, rfl, rfl⟩ := h
    exact ⟨rfl, rfl, SameStore.refl _, rfl, rfl, rfl⟩
  | [], _ :: _, _, _, _, _, _, h => by simp [deList] at h
  | _ :: _, [], _, _, _, _, _, h => by simp [deList] at h
  | t :: ts, o :: os, s, vs, es, s', hp, h => by
    simp only [deList] at h
    simp only [plainTyList, Bool.and_eq_true] at hp
    split at h
    · cases h
    · rename_i v1 e1 s1 h1
      split at h
      · cases h
      · rename_i vs2 es2 s2 h2
        simp only [Except.ok.injEq, Prod.mk.injEq] at h
        obtain ⟨rfl, rfl, rfl⟩ := h
        have a1 := plain_replay t o s v1 e1 s1 hp.1 h1
        have a2 := plain_replay_list ts os s1 vs2 es2 s2 hp.2 h2
        obtain ⟨b1, b2, b3, b4, b5, b6⟩ := a1
        obtain ⟨c1, c2, c3, c4, c5, c6⟩ := a2
        refine ⟨by simp [plainValList, b1, c1], by rw [b2, c2], b3.trans c3, by rw [c4, b4], by rw [c5, b5], ?_⟩
        simp [pointerFreeList, b6, c6]
end

end SaphyrVerif.Lemmas.C14
