import SaphyrVerif.Lemmas.C02_Basic
/-!
Helper lemmas for C02, part 2: recording frames, the state invariant `Good`, and the single-step
behaviour of `nextImpl` on scalar / container start / container end items.
-/
namespace SaphyrVerif.Lemmas.C02
open SaphyrVerif SaphyrVerif.Scalars SaphyrVerif.Pump SaphyrVerif.Spec

/-- append a list of events to every frame -/
def recordL (fs : List RecFrame) (es : List Ev) : List RecFrame :=
  fs.map fun f => { f with buf := f.buf ++ es }

def decAll (fs : List RecFrame) : List RecFrame := fs.map fun f => { f with depth := f.depth - 1 }

theorem recordAll_eq (fs : List RecFrame) (e : Ev) : recordAll fs e = recordL fs [e] := rfl

@[simp] theorem recordL_nil (fs : List RecFrame) : recordL fs [] = fs := by
  induction fs with
  | nil => rfl
  | cons f fs ih => simp_all [recordL]

@[simp] theorem recordL_recordL (fs : List RecFrame) (a b : List Ev) :
    recordL (recordL fs a) b = recordL fs (a ++ b) := by
  simp [recordL, List.map_map, Function.comp_def, List.append_assoc]

@[simp] theorem ids_recordL (fs : List RecFrame) (a : List Ev) :
    (recordL fs a).map (·.id) = fs.map (·.id) := by
  simp [recordL, List.map_map, Function.comp_def]

@[simp] theorem ids_bump (fs : List RecFrame) : (bumpDepthOnStart fs).map (·.id) = fs.map (·.id) := by
  simp [bumpDepthOnStart, List.map_map, Function.comp_def]

theorem decAll_recordL_bump (fs : List RecFrame) (a : List Ev) :
    decAll (recordL (bumpDepthOnStart fs) a) = recordL fs a := by
  simp [recordL, bumpDepthOnStart, decAll, List.map_map, Function.comp_def]

def DepthPos (fs : List RecFrame) : Prop := ∀ f ∈ fs, 1 ≤ f.depth

theorem DepthPos_recordL {fs : List RecFrame} (a : List Ev) (h : DepthPos fs) : DepthPos (recordL fs a) := by
  intro f hf
  simp only [recordL, List.mem_map] at hf
  obtain ⟨g, hg, rfl⟩ := hf
  exact h g hg

theorem DepthPos_bump (fs : List RecFrame) : DepthPos (bumpDepthOnStart fs) := by
  intro f hf
  simp only [bumpDepthOnStart, List.mem_map] at hf
  obtain ⟨g, _, rfl⟩ := hf
  simp

theorem DepthPos_cons {f : RecFrame} {fs : List RecFrame} (h1 : 1 ≤ f.depth) (h2 : DepthPos fs) :
    DepthPos (f :: fs) := by
  intro g hg
  simp only [List.mem_cons] at hg
  rcases hg with rfl | hg
  · exact h1
  · exact h2 g hg

theorem finalize_id (σ : Tab) (fs : List RecFrame) (h : DepthPos fs) : finalizeFrames σ fs = (σ, fs) := by
  cases fs with
  | nil => rfl
  | cons f fs =>
    have : 1 ≤ f.depth := h f (by simp)
    simp [finalizeFrames]; omega

theorem bumpDepthOnEnd_pos (σ : Tab) (fs : List RecFrame) (h : DepthPos fs) :
    bumpDepthOnEnd σ fs = some (finalizeFrames σ (decAll fs)) := by
  have : fs.any (fun f => f.depth == 0) = false := by
    rw [List.any_eq_false]
    intro f hf
    have := h f hf
    simp; omega
  simp [bumpDepthOnEnd, this, decAll]

theorem any_id_iff (fs : List RecFrame) (x : Nat) :
    fs.any (fun f => f.id == x) = (fs.map (·.id)).contains x := by
  induction fs with
  | nil => rfl
  | cons f fs ih =>
    rw [List.any_cons, ih, List.map_cons, List.contains_cons]
    congr 1
    exact BEq.comm

/-- every stored buffer is non-empty -/
def TabNe (σ : Tab) : Prop := ∀ x ∈ σ, x.2 ≠ []

theorem TabNe_nil : TabNe [] := by intro x hx; cases hx

theorem TabNe_set {σ : Tab} (h : TabNe σ) (a : Nat) {buf : List Ev} (hb : buf ≠ []) : TabNe (setAnchor σ a buf) := by
  intro x hx
  simp only [setAnchor, List.mem_cons] at hx
  rcases hx with rfl | hx
  · exact hb
  · exact h x hx

theorem lookupAnchor_ne {σ : Tab} (h : TabNe σ) {id : Nat} {buf : List Ev} (hl : lookupAnchor σ id = some buf) :
    buf ≠ [] := by
  unfold lookupAnchor at hl
  cases hf : σ.find? (fun p => p.1 == id) with
  | none => simp [hf] at hl
  | some x =>
    simp [hf] at hl
    subst hl
    exact h x (List.mem_of_find?_eq_some hf)

/-- an inject frame whose buffer has been served completely -/
def Exhausted (σ : Tab) (fr : InjectFrame) : Prop :=
  ∃ buf, lookupAnchor σ fr.anchorId = some buf ∧ buf.length ≤ fr.idx

/-- the state invariant between two nodes -/
structure Good (p : Pump) : Prop where
  bud : p.budget = none
  rip : p.recursiveInProgress = []
  inj : ∀ fr ∈ p.inject, Exhausted p.anchors fr
  dep : DepthPos p.recStack
  ne : TabNe p.anchors

/-- drop the (exhausted) inject frames -/
def clr (p : Pump) : Pump := { p with inject := [] }

theorem serveInject_exhausted (p : Pump) (fs : List InjectFrame) (h : ∀ fr ∈ fs, Exhausted p.anchors fr) :
    serveInject p fs = (none, clr p) := by
  induction fs with
  | nil => rfl
  | cons fr rest ih =>
    obtain ⟨buf, hl, hlen⟩ := h fr (by simp)
    have ih' := ih (fun g hg => h g (by simp [hg]))
    simp only [serveInject, hl]
    simp [hlen, ih']

theorem nextImpl_good {p : Pump} (hg : Good p) (inp : List RawItem) :
    nextImpl p inp = parserLoop (clr p) inp := by
  simp only [nextImpl, serveInject_exhausted p p.inject hg.inj]

theorem clr_of_inject_nil {p : Pump} (h : p.inject = []) : clr p = p := by
  cases p; simp_all [clr]

/-- the fields that a scalar / start / end step leaves alone -/
structure Plain (p p' : Pump) : Prop where
  bud : p'.budget = none
  rip : p'.recursiveInProgress = p.recursiveInProgress
  lim : p'.limits = p.limits
  sade : p'.stopAtDocEnd = p.stopAtDocEnd
  tot : p'.totalReplayed = p.totalReplayed
  per : p'.perAnchor = p.perAnchor
  inj : p'.inject = []
  prod : p'.producedAny = true

theorem Good_of_plain {p p' : Pump} (hg : Good p) (hp : Plain p p') (hd : DepthPos p'.recStack)
    (hn : TabNe p'.anchors) : Good p' :=
  ⟨hp.bud, by rw [hp.rip, hg.rip], (by rw [hp.inj]; intro fr hfr; cases hfr), hd, hn⟩

/-- the folded-scalar check of the parser loop -/
def foldedBad (v : List Char) (st : Style) (loc : Loc) : Bool :=
  st == .folded && locCol0 loc && !(trim v).isEmpty

theorem step_scalar {p : Pump} (hg : Good p) (v : List Char) (st : Style) (a : Nat) (tag : Option (List Char))
    (loc : Loc) (rest : List RawItem) (hf : foldedBad v st loc = false) :
    ∃ p1, nextImpl p (.ev (.scalar v st a tag) loc :: rest) = (.event (scalarEv v st a tag loc), p1, rest) ∧
      Plain p p1 ∧
      p1.anchors = (if a != 0 then setAnchor p.anchors a [scalarEv v st a tag loc] else p.anchors) ∧
      p1.recStack = recordL p.recStack [scalarEv v st a tag loc] := by
  rw [nextImpl_good hg]
  unfold foldedBad at hf
  have hb : (clr p).budget = none := hg.bud
  simp only [parserLoop, hb, hf, Bool.false_eq_true, if_false]
  refine ⟨_, rfl, ?_, ?_, ?_⟩
  · by_cases ha : a = 0
    · subst ha; constructor <;> simp [clr, hg.bud]
    · constructor <;> simp [clr, hg.bud, ha]
  · by_cases ha : a = 0
    · subst ha; simp [clr]
    · simp [clr, scalarEv, normStyle, ha]
  · by_cases ha : a = 0
    · subst ha; simp [clr, recordAll_eq, scalarEv, normStyle]
    · simp [clr, recordAll_eq, scalarEv, normStyle, ha]

theorem step_scalar_bad {p : Pump} (hg : Good p) (v : List Char) (st : Style) (a : Nat) (tag : Option (List Char))
    (loc : Loc) (rest : List RawItem) (hf : foldedBad v st loc = true) :
    ∃ p1, nextImpl p (.ev (.scalar v st a tag) loc :: rest) = (.error (.foldedIndent loc), p1, rest) := by
  rw [nextImpl_good hg]
  unfold foldedBad at hf
  have hb : (clr p).budget = none := hg.bud
  simp only [parserLoop, hb, hf]
  exact ⟨_, rfl⟩

/-- frames after a container start event -/
def startFrames (fs : List RecFrame) (a : Nat) (ev : Ev) : List RecFrame :=
  if a != 0 then { id := a, depth := 1, buf := [ev] } :: recordL (bumpDepthOnStart fs) [ev]
  else recordL (bumpDepthOnStart fs) [ev]

theorem step_seqStart {p : Pump} (hg : Good p) (a : Nat) (tag : Option (List Char)) (loc : Loc)
    (rest : List RawItem) :
    ∃ p1, nextImpl p (.ev (.seqStart a tag) loc :: rest) = (.event (.seqStart a (tagCode tag) tag loc), p1, rest) ∧
      Plain p p1 ∧ p1.anchors = p.anchors ∧
      p1.recStack = startFrames p.recStack a (.seqStart a (tagCode tag) tag loc) := by
  rw [nextImpl_good hg]
  have hb : (clr p).budget = none := hg.bud
  simp only [parserLoop, hb]
  refine ⟨_, rfl, ?_, ?_, ?_⟩
  · constructor <;> simp [clr, hg.bud]
  · simp [clr]
  · by_cases ha : a = 0 <;> simp [clr, startFrames, record, recordAll_eq, ha]

theorem step_mapStart {p : Pump} (hg : Good p) (a : Nat) (tag : Option (List Char)) (loc : Loc)
    (rest : List RawItem) :
    ∃ p1, nextImpl p (.ev (.mapStart a tag) loc :: rest) = (.event (.mapStart a loc), p1, rest) ∧
      Plain p p1 ∧ p1.anchors = p.anchors ∧
      p1.recStack = startFrames p.recStack a (.mapStart a loc) := by
  rw [nextImpl_good hg]
  have hb : (clr p).budget = none := hg.bud
  simp only [parserLoop, hb]
  refine ⟨_, rfl, ?_, ?_, ?_⟩
  · constructor <;> simp [clr, hg.bud]
  · simp [clr]
  · by_cases ha : a = 0 <;> simp [clr, startFrames, record, recordAll_eq, ha]

theorem step_seqEnd {p : Pump} (hg : Good p) (loc : Loc) (rest : List RawItem) :
    ∃ p1, nextImpl p (.ev .seqEnd loc :: rest) = (.event (.seqEnd loc), p1, rest) ∧
      Plain p p1 ∧
      (p1.anchors, p1.recStack) = finalizeFrames p.anchors (decAll (recordL p.recStack [.seqEnd loc])) := by
  rw [nextImpl_good hg]
  have hb : (clr p).budget = none := hg.bud
  have he : bumpDepthOnEnd (clr p).anchors (recordAll (clr p).recStack (.seqEnd loc)) =
      some (finalizeFrames p.anchors (decAll (recordL p.recStack [.seqEnd loc]))) :=
    bumpDepthOnEnd_pos _ _ (DepthPos_recordL _ hg.dep)
  simp only [parserLoop, hb, he]
  refine ⟨_, rfl, ?_, ?_⟩
  · constructor <;> simp [clr, hg.bud]
  · simp

theorem step_mapEnd {p : Pump} (hg : Good p) (loc : Loc) (rest : List RawItem) :
    ∃ p1, nextImpl p (.ev .mapEnd loc :: rest) = (.event (.mapEnd loc), p1, rest) ∧
      Plain p p1 ∧
      (p1.anchors, p1.recStack) = finalizeFrames p.anchors (decAll (recordL p.recStack [.mapEnd loc])) := by
  rw [nextImpl_good hg]
  have hb : (clr p).budget = none := hg.bud
  have he : bumpDepthOnEnd (clr p).anchors (recordAll (clr p).recStack (.mapEnd loc)) =
      some (finalizeFrames p.anchors (decAll (recordL p.recStack [.mapEnd loc]))) :=
    bumpDepthOnEnd_pos _ _ (DepthPos_recordL _ hg.dep)
  simp only [parserLoop, hb, he]
  refine ⟨_, rfl, ?_, ?_⟩
  · constructor <;> simp [clr, hg.bud]
  · simp

/-- closing a container: what `finalizeFrames` yields for the frames built by `startFrames` -/
theorem finalize_container (σ' : Tab) (R : List RecFrame) (hd : DepthPos R) (a : Nat) (ev eend : Ev)
    (es : List Ev) :
    finalizeFrames σ' (decAll (recordL (recordL (startFrames R a ev) es) [eend])) =
      (if a != 0 then setAnchor σ' a (ev :: (es ++ [eend])) else σ', recordL R (ev :: (es ++ [eend]))) := by
  have hR : DepthPos (recordL R (ev :: (es ++ [eend]))) := DepthPos_recordL _ hd
  by_cases ha : a = 0
  · simp only [startFrames, ha, bne_self_eq_false, Bool.false_eq_true, if_false, recordL_recordL,
      decAll_recordL_bump]
    rw [finalize_id _ _ (by simpa using hR)]
    simp
  · have ha' : (a != 0) = true := by simp [ha]
    simp only [startFrames, ha', if_true]
    simp only [recordL, List.map_cons, decAll, finalizeFrames, List.map_map, Function.comp_def]
    simp only [bumpDepthOnStart, List.map_map, Function.comp_def, Nat.add_sub_cancel]
    have := finalize_id (setAnchor σ' a (ev :: (es ++ [eend]))) _ hR
    simp [recordL] at this
    simp [this]

end SaphyrVerif.Lemmas.C02
