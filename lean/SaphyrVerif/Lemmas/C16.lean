import SaphyrVerif.Model.Locs
import SaphyrVerif.Spec.Locs
/-! Helper lemmas for C16: the position walk, and the event cursor around `peek`. -/
namespace SaphyrVerif.Lemmas.C16
open SaphyrVerif SaphyrVerif.Scalars SaphyrVerif.Pump SaphyrVerif.De SaphyrVerif.Locs

/-! ## the walk -/

theorem step_index (p : Pos) (c : Char) (nx : Option Char) : (p.step c nx).index = p.index + 1 := by
  unfold Pos.step
  split
  · rfl
  · split <;> rfl

theorem step_byte (p : Pos) (c : Char) (nx : Option Char) : (p.step c nx).byte = p.byte + utf8LenChar c := by
  unfold Pos.step
  split
  · rfl
  · split <;> rfl

/-- (line, column) in lexicographic order -/
def lexLt (p q : Pos) : Prop := p.line < q.line ∨ (p.line = q.line ∧ p.col < q.col)

theorem lexLt_trans {p q r : Pos} (h1 : lexLt p q) (h2 : lexLt q r) : lexLt p r := by
  unfold lexLt at *; omega

theorem lexLt_irrefl (p : Pos) : ¬ lexLt p p := by unfold lexLt; omega

theorem step_lex (p : Pos) (c : Char) (nx : Option Char) : lexLt p (p.step c nx) := by
  unfold Pos.step lexLt
  split
  · right; simp
  · split
    · left; simp
    · right; simp

theorem step_line_le (p : Pos) (c : Char) (nx : Option Char) :
    (p.step c nx).line ≤ p.line + 1 ∧ p.line ≤ (p.step c nx).line ∧ (p.step c nx).col ≤ p.col + 1 := by
  unfold Pos.step
  split
  · simp
  · split <;> simp

theorem walk_nil (p : Pos) (n : Nat) : walk p [] n = p := by
  cases n <;> rfl

theorem walk_index (p : Pos) (text : List Char) (n : Nat) :
    (walk p text n).index = p.index + min n text.length := by
  induction text generalizing p n with
  | nil => simp [walk_nil]
  | cons c rest ih =>
    cases n with
    | zero => simp [walk]
    | succ n =>
      simp only [walk, ih, step_index, List.length_cons]
      omega

theorem utf8Len_nil : utf8Len [] = 0 := rfl
theorem utf8Len_cons (c : Char) (s : List Char) : utf8Len (c :: s) = utf8LenChar c + utf8Len s := by
  simp [utf8Len]
theorem utf8Len_append (a b : List Char) : utf8Len (a ++ b) = utf8Len a + utf8Len b := by
  simp [utf8Len]

theorem walk_byte (p : Pos) (text : List Char) (n : Nat) :
    (walk p text n).byte = p.byte + utf8Len (text.take n) := by
  induction text generalizing p n with
  | nil => simp [walk_nil, utf8Len_nil]
  | cons c rest ih =>
    cases n with
    | zero => simp [walk, utf8Len_nil]
    | succ n =>
      simp only [walk, ih, step_byte, List.take_succ_cons, utf8Len_cons]
      omega

theorem walk_add (p : Pos) (text : List Char) (a b : Nat) :
    walk p text (a + b) = walk (walk p text a) (text.drop a) b := by
  induction text generalizing p a with
  | nil => simp [walk_nil]
  | cons c rest ih =>
    cases a with
    | zero => simp [walk]
    | succ a =>
      have : a + 1 + b = (a + b) + 1 := by omega
      rw [this]
      simp only [walk, List.drop_succ_cons]
      exact ih _ a

theorem walk_lex (p : Pos) (text : List Char) (n : Nat) (ht : text ≠ []) (hn : 0 < n) :
    lexLt p (walk p text n) := by
  induction text generalizing p n with
  | nil => exact absurd rfl ht
  | cons c rest ih =>
    cases n with
    | zero => omega
    | succ n =>
      simp only [walk]
      by_cases hr : rest = []
      · subst hr; rw [walk_nil]; exact step_lex _ _ _
      · by_cases h0 : n = 0
        · subst h0; simp only [walk]; exact step_lex _ _ _
        · exact lexLt_trans (step_lex _ _ _) (ih _ n hr (by omega))

theorem walk_bounds (p : Pos) (text : List Char) (n : Nat) :
    (walk p text n).line ≤ p.line + min n text.length ∧ p.line ≤ (walk p text n).line ∧
    (walk p text n).col ≤ p.col + min n text.length := by
  induction text generalizing p n with
  | nil => simp [walk_nil]
  | cons c rest ih =>
    cases n with
    | zero => simp [walk]
    | succ n =>
      simp only [walk, List.length_cons]
      have h1 := ih (p.step c rest.head?) n
      have h2 := step_line_le p c rest.head?
      omega

/-- strictly increasing (line, column): different character offsets have different line/column pairs -/
theorem posOf_lex_mono (text : List Char) (i j : Nat) (hij : i < j) (hi : i < text.length) :
    lexLt (posOf text i) (posOf text j) := by
  unfold posOf
  obtain ⟨d, rfl⟩ := Nat.exists_eq_add_of_lt hij
  have : i + d + 1 = i + (d + 1) := by omega
  rw [this, walk_add]
  apply walk_lex
  · intro h
    have := congrArg List.length h
    simp at this
    omega
  · omega

theorem posOf_lineCol_injective (text : List Char) (i j : Nat) (hi : i ≤ text.length) (hj : j ≤ text.length)
    (hl : (posOf text i).line = (posOf text j).line) (hc : (posOf text i).col = (posOf text j).col) : i = j := by
  rcases Nat.lt_trichotomy i j with h | h | h
  · have := posOf_lex_mono text i j h (by omega)
    unfold lexLt at this; omega
  · exact h
  · have := posOf_lex_mono text j i h (by omega)
    unfold lexLt at this; omega

theorem posOf_index (text : List Char) (i : Nat) (hi : i ≤ text.length) : (posOf text i).index = i := by
  unfold posOf; rw [walk_index]; simp [Pos.start]; omega

theorem posOf_byte (text : List Char) (i : Nat) : (posOf text i).byte = utf8Len (text.take i) := by
  unfold posOf; rw [walk_byte]; simp [Pos.start]

theorem posOf_bounds (text : List Char) (i : Nat) :
    1 ≤ (posOf text i).line ∧ (posOf text i).line ≤ 1 + min i text.length ∧ (posOf text i).col ≤ min i text.length := by
  have := walk_bounds Pos.start text i
  unfold posOf
  simp only [Pos.start] at this ⊢
  omega

theorem utf8Len_take_le (text : List Char) (i j : Nat) (h : i ≤ j) : utf8Len (text.take i) ≤ utf8Len (text.take j) := by
  obtain ⟨d, rfl⟩ := Nat.exists_eq_add_of_le h
  rw [List.take_add, utf8Len_append]; omega

theorem utf8Len_span (text : List Char) (i j : Nat) (h : i ≤ j) :
    utf8Len (text.take j) - utf8Len (text.take i) = utf8Len ((text.drop i).take (j - i)) := by
  obtain ⟨d, rfl⟩ := Nat.exists_eq_add_of_le h
  rw [List.take_add, utf8Len_append]; simp

theorem utf8LenChar_pos (c : Char) : 1 ≤ utf8LenChar c := by
  unfold utf8LenChar
  simp only
  repeat' split
  all_goals omega

/-- byte offsets grow strictly with the character offset -/
theorem byte_strict_mono (text : List Char) (i j : Nat) (hij : i < j) (hj : j ≤ text.length) :
    utf8Len (text.take i) < utf8Len (text.take j) := by
  obtain ⟨d, rfl⟩ := Nat.exists_eq_add_of_lt hij
  have : i + d + 1 = i + (d + 1) := by omega
  rw [this, List.take_add, utf8Len_append]
  have hne : (text.drop i).take (d + 1) ≠ [] := by
    intro h
    have := congrArg List.length h
    simp at this
    omega
  cases hh : (text.drop i).take (d + 1) with
  | nil => exact absurd hh hne
  | cons c r =>
    rw [utf8Len_cons]
    have := utf8LenChar_pos c
    omega

/-! ## the walk against the counting specification -/

open SaphyrVerif.Spec.Locs in
theorem lineEndsBefore_succ (text : List Char) (i : Nat) :
    lineEndsBefore text (i + 1) = lineEndsBefore text i ++ (if endsLine text i then [i] else []) := by
  unfold lineEndsBefore
  rw [List.range_succ, List.filter_append]
  congr 1
  by_cases h : endsLine text i = true <;> simp [List.filter, h]

open SaphyrVerif.Spec.Locs in
theorem lineStart_le (text : List Char) (i : Nat) : lineStart text i ≤ i := by
  unfold lineStart
  cases h : (lineEndsBefore text i).getLast? with
  | none => simp
  | some j =>
    have hm : j ∈ lineEndsBefore text i := List.mem_of_getLast? h
    unfold lineEndsBefore at hm
    simp only [List.mem_filter, List.mem_range] at hm
    simp only
    omega

/-- the walk, one character further -/
theorem posOf_succ (text : List Char) (i : Nat) (hi : i < text.length) :
    posOf text (i + 1) = (posOf text i).step text[i] text[i + 1]? := by
  unfold posOf
  rw [walk_add, List.drop_eq_getElem_cons hi]
  simp only [walk, List.head?_drop]

open SaphyrVerif.Spec.Locs in
/-- the scanner's walk computes the counting specification -/
theorem posOf_eq_spec (text : List Char) (i : Nat) (hi : i ≤ text.length) :
    posOf text i = ⟨i, lineOf text i, colOf text i, byteOf text i⟩ := by
  induction i with
  | zero =>
    simp [posOf, walk, Pos.start, lineOf, colOf, byteOf, lineStart, lineEndsBefore, utf8Len]
  | succ i ih =>
    have hlt : i < text.length := by omega
    rw [posOf_succ text i hlt, ih (by omega)]
    have hget : text[i]? = some text[i] := List.getElem?_eq_getElem hlt
    have hls := lineStart_le text i
    have hbyte : byteOf text (i + 1) = byteOf text i + utf8LenChar text[i] := by
      unfold byteOf
      rw [List.take_add_one, utf8Len_append, hget]
      simp [utf8Len]
    have hends : endsLine text i = (text[i] == '\n' || (text[i] == '\r' && text[i + 1]? != some '\n')) := by
      simp only [endsLine, hget]
    have hline : lineOf text (i + 1) = lineOf text i + (if endsLine text i then 1 else 0) := by
      unfold lineOf
      rw [lineEndsBefore_succ]
      by_cases h : endsLine text i = true <;> simp [h] <;> omega
    have hstart : lineStart text (i + 1) = if endsLine text i then i + 1 else lineStart text i := by
      unfold lineStart
      rw [lineEndsBefore_succ]
      by_cases h : endsLine text i = true <;> simp [h]
    unfold Pos.step
    simp only [hbyte]
    by_cases h1 : (text[i] == '\r' && text[i + 1]? == some '\n') = true
    · have he : endsLine text i = false := by
        rw [hends]
        simp only [Bool.and_eq_true, beq_iff_eq] at h1
        obtain ⟨a, b⟩ := h1
        simp [a, b]
      simp only [h1, if_true, hline, he, colOf, hstart, Bool.false_eq_true, if_false, Nat.add_zero]
      congr 1
      omega
    · by_cases h2 : isBreak text[i] = true
      · have he : endsLine text i = true := by
          rw [hends]
          simp only [isBreak, Bool.or_eq_true, beq_iff_eq] at h2
          simp only [Bool.and_eq_true, beq_iff_eq, not_and] at h1
          rcases h2 with a | a
          · simp [a]
          · have := h1 a
            simp [a, this]
        simp only [h1, h2, if_true, Bool.false_eq_true, if_false, hline, he, colOf, hstart]
        congr 1
        omega
      · have he : endsLine text i = false := by
          rw [hends]
          simp only [isBreak, Bool.or_eq_true, beq_iff_eq, not_or] at h2
          simp [h2.1, h2.2]
        simp only [h1, h2, Bool.false_eq_true, if_false, hline, he, colOf, hstart, Nat.add_zero]
        congr 1
        omega

/-! ## the cursor around `peek` -/

theorem pump_peek_look (p : Pump) (inp : List RawItem) (ev : Ev) (p' : Pump) (rest : List RawItem)
    (h : Pump.peek p inp = (.event ev, p', rest)) : p'.look = some ev := by
  unfold Pump.peek at h
  cases hl : p.look with
  | some e0 =>
    rw [hl] at h
    simp only [Prod.mk.injEq, Step.event.injEq] at h
    obtain ⟨rfl, rfl, rfl⟩ := h
    first | rfl | exact hl
  | none =>
    rw [hl] at h
    rcases hn : nextImpl p inp with ⟨s, p'', r⟩
    rw [hn] at h
    cases s with
    | event e0 =>
      simp only [Prod.mk.injEq, Step.event.injEq] at h
      obtain ⟨rfl, rfl, rfl⟩ := h
      rfl
    | eof => simp at h
    | error err => simp at h

/-- what a successful `Cur.peek` on a live cursor is -/
theorem live_peek_inv (p : Pump) (inp : List RawItem) (ev : Ev) (c1 : Cur)
    (h : Cur.peek (.live p inp) = .ok (some ev) c1) :
    ∃ p' rest, c1 = .live p' rest ∧ Pump.peek p inp = (.event ev, p', rest) := by
  simp only [Cur.peek] at h
  split at h
  · rename_i e0 p' rest hp
    simp only [R.ok.injEq, Option.some.injEq] at h
    obtain ⟨rfl, rfl⟩ := h
    exact ⟨p', rest, rfl, hp⟩
  · simp at h
  · simp at h

theorem live_peek_of (p : Pump) (inp : List RawItem) (ev : Ev) (p' : Pump) (rest : List RawItem)
    (h : Pump.peek p inp = (.event ev, p', rest)) : Cur.peek (.live p inp) = .ok (some ev) (.live p' rest) := by
  simp only [Cur.peek, h]

theorem live_next_of (p : Pump) (inp : List RawItem) (ev : Ev) (p' : Pump) (rest : List RawItem)
    (h : Pump.next p inp = (.event ev, p', rest)) : Cur.next (.live p inp) = .ok (some ev) (.live p' rest) := by
  simp only [Cur.next, h]

/-- `peek` twice is `peek` once, and `next` then returns the peeked event -/
theorem pump_peek_with_look (p : Pump) (inp : List RawItem) (ev : Ev) (h : p.look = some ev) :
    Pump.peek p inp = (.event ev, { p with lastLoc := ev.loc }, inp) ∧
    Pump.next p inp = (.event ev, { p with look := none, lastLoc := ev.loc }, inp) := by
  unfold Pump.peek Pump.next
  rw [h]
  exact ⟨rfl, rfl⟩

theorem cur_peek_then (c : Cur) (ev : Ev) (c1 : Cur) (h : c.peek = .ok (some ev) c1) :
    (∃ c2, c1.next = .ok (some ev) c2) ∧
    (∃ c1', c1.peek = .ok (some ev) c1' ∧ c1'.refLoc = c1.refLoc ∧ ∃ c2, c1'.next = .ok (some ev) c2) := by
  cases c with
  | live p inp =>
    obtain ⟨p', rest, rfl, hp⟩ := live_peek_inv p inp ev c1 h
    have hl := pump_peek_look p inp ev p' rest hp
    obtain ⟨h1, h2⟩ := pump_peek_with_look p' rest ev hl
    have hl' : ({ p' with lastLoc := ev.loc } : Pump).look = some ev := hl
    obtain ⟨_, h2'⟩ := pump_peek_with_look { p' with lastLoc := ev.loc } rest ev hl'
    refine ⟨⟨_, live_next_of _ _ _ _ _ h2⟩, ⟨_, live_peek_of _ _ _ _ _ h1, ?_, ⟨_, live_next_of _ _ _ _ _ h2'⟩⟩⟩
    simp only [Cur.refLoc, Pump.referenceLocation, hl]
  | replay buf idx ref =>
    simp only [Cur.peek, R.ok.injEq] at h
    obtain ⟨hb, rfl⟩ := h
    have hn : Cur.next (.replay buf idx ref) = .ok (some ev) (.replay buf (idx + 1) ref) := by
      simp only [Cur.next, hb]
    have hp : Cur.peek (.replay buf idx ref) = .ok (some ev) (.replay buf idx ref) := by
      simp only [Cur.peek, hb]
    exact ⟨⟨_, hn⟩, ⟨_, hp, rfl, ⟨_, hn⟩⟩⟩

/-- the inject loop with a live frame on top: it answers (never falls through to the parser), keeps the
frame on top with the index advanced, leaves the anchor table and the look-ahead alone, and an event it
delivers is the frame's next buffered event -/
theorem serveInject_top (p : Pump) (fr : InjectFrame) (frs : List InjectFrame) (buf : List Ev)
    (hb : lookupAnchor p.anchors fr.anchorId = some buf) (hidx : fr.idx < buf.length) :
    ∃ s q, serveInject p (fr :: frs) = (some s, q) ∧ q.inject = { fr with idx := fr.idx + 1 } :: frs ∧
      q.anchors = p.anchors ∧ q.look = p.look ∧ (∀ ev, s = .event ev → buf[fr.idx]? = some ev) := by
  have hget : buf[fr.idx]? = some buf[fr.idx] := List.getElem?_eq_getElem hidx
  have hnot : ¬ (fr.idx ≥ buf.length) := by omega
  simp only [serveInject, hb, hnot, if_false, hget]
  split
  · exact ⟨_, _, rfl, rfl, rfl, rfl, by intro ev h; cases h⟩
  · split
    · exact ⟨_, _, rfl, rfl, rfl, rfl, by intro ev h; cases h; rfl⟩
    · split
      · exact ⟨_, _, rfl, rfl, rfl, rfl, by intro ev h; cases h⟩
      · exact ⟨_, _, rfl, rfl, rfl, rfl, by intro ev h; cases h; rfl⟩

/-- an alias token arriving from the parser (no budget, nothing being replayed, not a recursive
reference, anchor known with a non-empty recorded buffer): if an event comes out, it is the FIRST event of
the definition's buffer and the inject stack holds exactly the new frame carrying the alias token's location -/
theorem parserLoop_alias (p : Pump) (id : Nat) (aloc : Loc) (rest : List RawItem) (buf : List Ev)
    (hb : p.budget = none) (hi : p.inject = [])
    (hrec : p.recStack.any (fun f => f.id == id) = false)
    (hbuf : lookupAnchor p.anchors id = some buf) (hlen : 0 < buf.length) :
    ∃ s q, parserLoop p (.ev (.alias id) aloc :: rest) = (s, q, rest) ∧
      (∀ ev, s = .event ev → buf[0]? = some ev ∧
        q.inject = [{ anchorId := id, idx := 1, refLoc := aloc }] ∧ q.anchors = p.anchors) := by
  simp only [parserLoop, hb, hi, hrec, hbuf]
  split
  · exact ⟨_, _, rfl, by intro ev h; cases h⟩
  · split
    · exact ⟨_, _, rfl, by intro ev h; cases h⟩
    · simp only [Bool.false_eq_true, if_false]
      obtain ⟨st, q, hs, hq1, hq2, _, hq4⟩ := serveInject_top
        { p with budget := none,
                 perAnchor := (id, min (lookupCount p.perAnchor id + 1) Budget.USIZE_MAX) :: p.perAnchor,
                 inject := [{ anchorId := id, idx := 0, refLoc := aloc }] }
        { anchorId := id, idx := 0, refLoc := aloc } [] buf hbuf hlen
      rw [hs]
      exact ⟨_, _, rfl, by intro ev h; exact ⟨hq4 ev h, hq1, hq2⟩⟩

end SaphyrVerif.Lemmas.C16
