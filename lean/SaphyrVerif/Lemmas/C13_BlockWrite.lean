import SaphyrVerif.Lemmas.C13_BlockLay
/-!
C13 / C12 composition, block scalars, part 2: the EMITTER side.  `serialize_str` on a string of the auto-block
class, in each position of the fragment (`ValCtx`: right after `key:`; `ItemCtx`: right after `- ` / `? ` / `: `;
the root), writes exactly the text of the layout `blkStr` and leaves the state of a finished scalar behind.
-/
set_option linter.unusedSimpArgs false
set_option linter.unusedVariables false
namespace SaphyrVerif.Emit
open SaphyrVerif

variable {o : Opts} {f : ScalarFns}

/-- the block-scalar arm of `serialize_str` (same text as in the model), on the state in which the pending style
has been taken -/
def blockArm (o : Opts) (f : ScalarFns) (v : List Char) (style : StrStyle) (s : St) : St :=
    let wasMapValue := s.pendingSpaceAfterColon
    let s := writeSpaceIfPending s
    let base := if wasMapValue then s.currentMapDepth.getD s.depth else s.afterDashDepth.getD s.depth
    let s := if s.atLineStart then writeIndent o s base else s
    let bodyBase := base + 1
    let indentN := indentCols o s bodyBase
    let contentTrimmed := trimEndNl v
    let needsIndicator := firstLineLeadingSpaces contentTrimmed > 0
    let shallowInlineSeq := o.indentStep < 2 && !wasMapValue && base > 0
    let hasControls := v.any fun c => isControl c && c != '\n' && c != '\t'
    if (needsIndicator && (indentN > 9 || base > 0)) || shallowInlineSeq || hasControls || s.inFlow > 0 then
      let s := { s with pendingStrStyle := none, pendingStrFromAuto := false }
      let s := s.write (plainOrQuotedValue o f (s.inFlow > 0) v)
      writeEndOfScalar s
    else
      let s := match style with
        | .literal => literalBlock o v needsIndicator bodyBase s
        | .folded => foldedBlockScalar o v needsIndicator bodyBase s
      { s with pendingStrFromAuto := false }

/-- `serialize_str` when the auto-selection picks a block style -/
theorem serStr_of_autoSel_block {v : List Char} {s : St} {style : StrStyle}
    (h : autoSel o f v s = { s with pendingStrStyle := some style, pendingStrFromAuto := true }) :
    serStr o f v s = blockArm o f v style { s with pendingStrStyle := none, pendingStrFromAuto := true } := by
  have h' := h
  simp only [autoSel] at h'
  simp only [serStr, h']
  rfl

/-- the auto-selection for a string of the auto-block class -/
theorem autoSel_block {v : List Char} {s : St} (ha : autoBlock o f v = true) (h1 : s.pendingStrStyle = none) (h2 : s.inFlow = 0) :
    autoSel o f v s =
      { s with pendingStrStyle := some (if v.contains '\n' then .literal else .folded), pendingStrFromAuto := true } := by
  unfold autoBlock at ha
  unfold autoSel
  simp only [Bool.and_eq_true, Bool.not_eq_true'] at ha
  obtain ⟨⟨hq, hp⟩, hc⟩ := ha
  cases hn : v.contains '\n'
  · simp only [hn, Bool.false_eq_true, if_false, Bool.and_eq_true, decide_eq_true_eq] at hc
    simp [h1, h2, hq, hp, hn, hc.1, hc.2]
  · simp only [hn, if_true, Bool.or_eq_true, Bool.and_eq_true, decide_eq_true_eq, Bool.not_eq_true'] at hc
    rcases hc with ⟨hl, hb1, hb2⟩ | hc
    · simp [h1, h2, hq, hp, hn, hl, hb1, hb2]
    · simp only [beq_iff_eq] at hc
      by_cases ha : o.foldedWrapCol < v.length <;>
        cases hb : (v.any fun c => isControl c && c != '\n' && c != '\t') <;>
        cases he : (trimEndNl v).isEmpty <;>
        simp [h1, h2, hq, hp, hn, hc, ha, hb, he]

/-! ### the two block writers -/

/-- the text of a block of body lines: every line after `N` blanks -/
def bodyText (N : Nat) (lines : List (List Char)) : List Char := lines.flatMap fun l => spaces N ++ l ++ ['\n']

theorem foldl_writeBodyLine_eq (ind : List Char) : ∀ (lines : List (List Char)) (s : St), lines ≠ [] →
    lines.foldl (fun s l => writeBodyLine ind l s) s =
      { s with out := s.out ++ lines.flatMap (fun l => ind ++ l ++ ['\n']), atLineStart := true }
  | [], _, h => absurd rfl h
  | [l], s, _ => by simp [writeBodyLine, newline, List.append_assoc]
  | l :: l2 :: ls, s, _ => by
    rw [List.foldl_cons, foldl_writeBodyLine_eq ind (l2 :: ls) _ (by simp)]
    simp [writeBodyLine, newline, List.append_assoc]

theorem litLines_ne_nil (v : List Char) : litLines v ≠ [] := by
  unfold litLines
  cases h : splitNl (trimEndNl v) with
  | nil => exact absurd h (splitNl_ne_nil _)
  | cons a as => simp

@[simp] theorem indentCols_write (s : St) (cs : List Char) (d : Nat) : indentCols o (s.write cs) d = indentCols o s d := rfl
@[simp] theorem indentCols_newline (s : St) (d : Nat) : indentCols o (newline s) d = indentCols o s d := rfl

/-- `serialize_str`, literal arm after the header position: the header, a line break, the body lines -/
theorem literalBlock_eq (v : List Char) (ni : Bool) (bb : Nat) (s : St) (hc : (trimEndNl v).isEmpty = false) :
    literalBlock o v ni bb s =
      { s with out := s.out ++ ('|' :: (indChars ni (indentCols o s bb) ++ chompChars (trailNl v))) ++
                 '\n' :: bodyText (indentCols o s bb) (litLines v),
               atLineStart := true } := by
  have hbody : ∀ (ind : List Char) (st : St), (splitNl (trimEndNl v)).foldl (fun s' line => writeBodyLine ind line s') st =
      { st with out := st.out ++ (splitNl (trimEndNl v)).flatMap (fun l => ind ++ l ++ ['\n']), atLineStart := true } :=
    fun ind st => foldl_writeBodyLine_eq _ _ st (splitNl_ne_nil _)
  have hr : ∀ (t : Nat) (ind : List Char) (st : St), (List.range (t + 1)).foldl (fun s' _ => writeBodyLine ind [] s') st =
      { st with out := st.out ++ (List.replicate (t + 1) ([] : List Char)).flatMap (fun l => ind ++ l ++ ['\n']),
                atLineStart := true } := by
    intro t ind st
    rw [foldl_range_eq]
    exact foldl_writeBodyLine_eq _ _ st (by simp)
  unfold literalBlock
  simp only [hc, Bool.false_eq_true, if_false]
  unfold trailNl litLines bodyText
  generalize v.length - (trimEndNl v).length = t
  match t with
  | 0 => cases ni <;> simp [hbody, indChars, chompChars, St.write, newline, indentCols, List.append_assoc]
  | 1 => cases ni <;> simp [hbody, indChars, chompChars, St.write, newline, indentCols, List.append_assoc]
  | t + 2 =>
    cases ni <;>
      simp [hbody, hr, indChars, chompChars, St.write, newline, indentCols, List.append_assoc, List.flatMap_append]

/-- `serialize_str`, folded arm after the header position (automatic selection: the chomping indicator is written) -/
theorem foldedBlockScalar_eq (v : List Char) (ni : Bool) (bb : Nat) (s : St) (ha : s.pendingStrFromAuto = true) :
    foldedBlockScalar o v ni bb s =
      { s with out := s.out ++ ('>' :: (indChars ni (indentCols o s bb) ++ chompChars (trailNl v))) ++
                 '\n' :: foldedBlock v (indentCols o s bb) 1 o.foldedWrapCol,
               atLineStart := true } := by
  unfold foldedBlockScalar trailNl
  dsimp only
  generalize v.length - (trimEndNl v).length = t
  match t with
  | 0 => cases ni <;> simp [ha, indChars, chompChars, St.write, newline, indentCols, List.append_assoc]
  | 1 => cases ni <;> simp [ha, indChars, chompChars, St.write, newline, indentCols, List.append_assoc]
  | t + 2 => cases ni <;> simp [ha, indChars, chompChars, St.write, newline, indentCols, List.append_assoc]

/-! ### lines ↔ text of a body -/

theorem spaces_add (a b : Nat) : spaces (a + b) = spaces a ++ spaces b := by
  induction a with
  | zero => simp [spaces]
  | succ n ih =>
    simp only [spaces] at ih ⊢
    rw [show n + 1 + b = (n + b) + 1 by omega, List.replicate_succ, List.replicate_succ, ih]; rfl

theorem render_bodyLineAt (N : Nat) (x : List Char) :
    spaces (bodyLineAt N x).indent ++ (bodyLineAt N x).text = spaces N ++ x := by
  simp only [bodyLineAt, spaces_add, List.append_assoc]
  congr 1
  have h1 : spaces (x.takeWhile (· == ' ')).length = x.takeWhile (· == ' ') := (takeWhile_space_replicate x).symm
  rw [h1, List.takeWhile_append_dropWhile]

theorem renderLines_body (N : Nat) (lines : List (List Char)) :
    renderLines (lines.map (bodyLineAt N)) = bodyText N lines := by
  induction lines with
  | nil => rfl
  | cons x xs ih =>
    simp only [List.map_cons, renderLines_cons, ih, bodyText, List.flatMap_cons, render_bodyLineAt]

theorem render_mkLine (raw : List Char) : spaces (mkLine raw).indent ++ (mkLine raw).text = raw := by
  simp only [mkLine]
  have h1 : spaces (raw.takeWhile (· == ' ')).length = raw.takeWhile (· == ' ') := (takeWhile_space_replicate raw).symm
  rw [h1, List.takeWhile_append_dropWhile]

theorem splitNl_snoc_nl : ∀ (t : List Char), splitNl (t ++ ['\n']) = splitNl t ++ [[]]
  | [] => rfl
  | c :: cs => by
    have ih := splitNl_snoc_nl cs
    simp only [List.cons_append]
    rw [splitNl_cons, splitNl_cons, ih]
    cases h : splitNl cs with
    | nil => exact absurd h (splitNl_ne_nil cs)
    | cons l ls => by_cases hc : c = '\n' <;> simp [hc]

theorem flat_nl_eq : ∀ (ls : List (List Char)), ls ≠ [] → ls.flatMap (· ++ ['\n']) = joinNl ls ++ ['\n']
  | [], h => absurd rfl h
  | [l], _ => by simp [joinNl]
  | l :: l2 :: ls, _ => by
    have ih := flat_nl_eq (l2 :: ls) (by simp)
    have e : joinNl (l :: l2 :: ls) = l ++ ['\n'] ++ joinNl (l2 :: ls) := rfl
    rw [List.flatMap_cons, ih, e]
    simp [List.append_assoc]

/-- the lines of a text that ends with a line break render as the text -/
theorem render_textLines (t : List Char) : renderLines (textLines (t ++ ['\n'])) = t ++ ['\n'] := by
  have h1 : textLines (t ++ ['\n']) = (splitNl t).map mkLine := by
    simp [textLines, splitNl_snoc_nl]
  have h2 : ∀ ls : List (List Char), renderLines (ls.map mkLine) = ls.flatMap (· ++ ['\n']) := by
    intro ls
    induction ls with
    | nil => rfl
    | cons x xs ih => simp only [List.map_cons, renderLines_cons, ih, List.flatMap_cons, render_mkLine]
  rw [h1, h2, flat_nl_eq _ (splitNl_ne_nil t), joinNl_splitNl]

theorem foldedLine_snoc (ind : List Char) (w : Nat) (line : List Char) : ∃ x, foldedLine ind w line = x ++ ['\n'] := by
  unfold foldedLine
  split
  · exact ⟨_, rfl⟩
  · split
    · exact ⟨_, rfl⟩
    · exact ⟨_, rfl⟩

theorem foldedBlock_snoc (s : List Char) (N k w : Nat) : ∃ x, foldedBlock s N k w = x ++ ['\n'] := by
  unfold foldedBlock
  have : ∀ ls : List (List Char), ls ≠ [] → ∃ x, ls.flatMap (foldedLine (spaces (k * N)) w) = x ++ ['\n'] := by
    intro ls
    induction ls with
    | nil => intro h; exact absurd rfl h
    | cons l ls ih =>
      intro _
      cases ls with
      | nil =>
        obtain ⟨x, hx⟩ := foldedLine_snoc (spaces (k * N)) w l
        exact ⟨x, by simp [hx]⟩
      | cons l2 ls2 =>
        obtain ⟨x, hx⟩ := ih (by simp)
        exact ⟨foldedLine (spaces (k * N)) w l ++ x, by rw [List.flatMap_cons, hx, List.append_assoc]⟩
  exact this _ (splitNl_ne_nil s)

theorem render_foldedBlock (s : List Char) (N k w : Nat) :
    renderLines (textLines (foldedBlock s N k w)) = foldedBlock s N k w := by
  obtain ⟨x, hx⟩ := foldedBlock_snoc s N k w
  rw [hx, render_textLines]

/-! ### `serialize_str` on a string of the auto-block class, position by position -/

theorem needsInd_eq (v : List Char) : decide (firstLineLeadingSpaces (trimEndNl v) > 0) = needsInd v := rfl
theorem hasCtl_eq (v : List Char) : (v.any fun c => isControl c && c != '\n' && c != '\t') = hasCtl v := rfl

/-- what the literal / folded writers need to know about the string: a literal block has content -/
def BlockOk (v : List Char) : Prop := v.contains '\n' = true → (trimEndNl v).isEmpty = false

/-- right after `key:` -/
theorem serStr_block_val (ho : FragOpts o) {v : List Char} (ha : autoBlock o f v = true) (hb : BlockOk v)
    {s : St} {m c : Nat} (h : ValCtx o s m c) :
    Good o s (' ' :: (blkStr o f o.indentStep (.val c) v).1, (blkStr o f o.indentStep (.val c) v).2, false)
      (.ok (serStr o f v s)) := by
  have hals := h.als; have hpsc := h.psc; have hif := h.inFlow; have hpic := h.pic; have hdoc := h.doc
  have hic := indentCols_col (h.col.succ ho.indent)
  have hbase : s.currentMapDepth.getD s.depth = m := by
    rcases h.cmd with hc | ⟨hc, hm, hd0⟩
    · simp [hc]
    · simp [hc, hm, hd0]
  have hz : decide (m > 0) = decide (c > 0) := by
    have := h.col.zero
    by_cases hm : m = 0
    · have hc0 := this.mp hm; simp [hm, hc0]
    · have hc0 : c ≠ 0 := fun e => hm (this.mpr e)
      have h1 : m > 0 := by omega
      have h2 : c > 0 := by omega
      simp [h1, h2]
  rw [serStr_of_autoSel_block (autoSel_block ha h.pss h.inFlow)]
  simp only [blkStr, ha, if_true]
  by_cases hfb : blockFallback o.indentStep (.val c) v = true
  · -- the quoted / plain fall-back
    have hcond : ((needsInd v && (decide (c + o.indentStep > 9) || decide (c > 0))) || hasCtl v) = true := by
      simpa [blockFallback, bodyCol, parentCol] using hfb
    simp only [hfb, if_true]
    refine ⟨_, rfl, ?_, ?_, ?_⟩
    · simp [blockArm, writeSpaceIfPending, writeEndOfScalar, newline, St.write, hals, hpsc, hif, hpic, hbase, hic, needsInd_eq, hasCtl_eq, hz, hcond]
    · simp [blockArm, writeSpaceIfPending, writeEndOfScalar, newline, St.write, hals, hpsc, hif, hpic, hbase, hic, needsInd_eq, hasCtl_eq, hz, hcond]
    · constructor
      · constructor <;> simp [blockArm, writeSpaceIfPending, writeEndOfScalar, newline, St.write, hals, hpsc, hif, hpic, hbase, hic, needsInd_eq, hasCtl_eq, hz, hcond, h.pendingFlow, hdoc]
      all_goals simp [blockArm, writeSpaceIfPending, writeEndOfScalar, newline, St.write, hals, hpsc, hif, hpic, hbase, hic, needsInd_eq, hasCtl_eq, hz, hcond]
  · have hfb' : blockFallback o.indentStep (.val c) v = false := by simpa using hfb
    have hcond : ((needsInd v && (decide (c + o.indentStep > 9) || decide (c > 0))) || hasCtl v) = false := by
      simpa [blockFallback, bodyCol, parentCol] using hfb'
    simp only [hfb', Bool.false_eq_true, if_false]
    cases hn : v.contains '\n'
    · -- folded
      simp only [Bool.false_eq_true, if_false, foldLeaf, bodyCol]
      refine ⟨_, rfl, ?_, ?_, ?_⟩
      · simp [blockArm, writeSpaceIfPending, foldedBlockScalar_eq, St.write, hals, hpsc, hif, hpic, hbase, hic, needsInd_eq, hasCtl_eq, hz, hcond, hn,
          render_foldedBlock, blockHdr, List.append_assoc]
      · simp [blockArm, writeSpaceIfPending, foldedBlockScalar_eq, St.write, hals, hpsc, hif, hpic, hbase, hic, needsInd_eq, hasCtl_eq, hz, hcond, hn]
      · constructor
        · constructor <;> simp [blockArm, writeSpaceIfPending, foldedBlockScalar_eq, St.write, hals, hpsc, hif, hpic, hbase, hic, needsInd_eq, hasCtl_eq, hz, hcond, hn, h.pendingFlow, hdoc]
        all_goals simp [blockArm, writeSpaceIfPending, foldedBlockScalar_eq, St.write, hals, hpsc, hif, hpic, hbase, hic, needsInd_eq, hasCtl_eq, hz, hcond, hn]
    · -- literal
      have hce := hb hn
      simp only [if_true, litLeaf, bodyCol]
      refine ⟨_, rfl, ?_, ?_, ?_⟩
      · simp [blockArm, writeSpaceIfPending, literalBlock_eq _ _ _ _ hce, St.write, hals, hpsc, hif, hpic, hbase, hic, needsInd_eq, hasCtl_eq, hz, hcond, hn,
          renderLines_body, blockHdr, List.append_assoc]
      · simp [blockArm, writeSpaceIfPending, literalBlock_eq _ _ _ _ hce, St.write, hals, hpsc, hif, hpic, hbase, hic, needsInd_eq, hasCtl_eq, hz, hcond, hn]
      · constructor
        · constructor <;> simp [blockArm, writeSpaceIfPending, literalBlock_eq _ _ _ _ hce, St.write, hals, hpsc, hif, hpic, hbase, hic, needsInd_eq, hasCtl_eq, hz, hcond, hn, h.pendingFlow, hdoc]
        all_goals simp [blockArm, writeSpaceIfPending, literalBlock_eq _ _ _ _ hce, St.write, hals, hpsc, hif, hpic, hbase, hic, needsInd_eq, hasCtl_eq, hz, hcond, hn]

/-- right after `- ` (`? `, `: `) -/
theorem serStr_block_item (ho : FragOpts o) {v : List Char} (ha : autoBlock o f v = true) (hb : BlockOk v)
    {s : St} {d c : Nat} (h : ItemCtx o s d c) :
    Good o s ((blkStr o f o.indentStep (.item c) v).1, (blkStr o f o.indentStep (.item c) v).2, false)
      (.ok (serStr o f v s)) := by
  have hals := h.als; have hpsc := h.psc; have hif := h.inFlow; have hpic := h.pic; have hdoc := h.doc; have hadd := h.add
  have hic := indentCols_col (h.col.succ ho.indent)
  have hz : decide (d > 0) = decide (c > 0) := by
    have := h.col.zero
    by_cases hm : d = 0
    · have hc0 := this.mp hm; simp [hm, hc0]
    · have hc0 : c ≠ 0 := fun e => hm (this.mpr e)
      have h1 : d > 0 := by omega
      have h2 : c > 0 := by omega
      simp [h1, h2]
  rw [serStr_of_autoSel_block (autoSel_block ha h.pss h.inFlow)]
  simp only [blkStr, ha, if_true]
  by_cases hfb : blockFallback o.indentStep (.item c) v = true
  · have hcond : ((needsInd v && (decide (c + o.indentStep > 9) || decide (c > 0))) || (decide (o.indentStep < 2) && decide (c > 0)) || hasCtl v) = true := by
      simpa [blockFallback, bodyCol, parentCol] using hfb
    simp only [hfb, if_true]
    refine ⟨_, rfl, ?_, ?_, ?_⟩
    · simp [blockArm, writeSpaceIfPending, writeEndOfScalar, newline, St.write, hals, hpsc, hif, hpic, hadd, hic, needsInd_eq, hasCtl_eq, hz, hcond]
    · simp [blockArm, writeSpaceIfPending, writeEndOfScalar, newline, St.write, hals, hpsc, hif, hpic, hadd, hic, needsInd_eq, hasCtl_eq, hz, hcond]
    · constructor
      · constructor <;> simp [blockArm, writeSpaceIfPending, writeEndOfScalar, newline, St.write, hals, hpsc, hif, hpic, hadd, hic, needsInd_eq, hasCtl_eq, hz, hcond, h.pendingFlow, hdoc]
      all_goals simp [blockArm, writeSpaceIfPending, writeEndOfScalar, newline, St.write, hals, hpsc, hif, hpic, hadd, hic, needsInd_eq, hasCtl_eq, hz, hcond]
  · have hfb' : blockFallback o.indentStep (.item c) v = false := by simpa using hfb
    have hcond : ((needsInd v && (decide (c + o.indentStep > 9) || decide (c > 0))) || (decide (o.indentStep < 2) && decide (c > 0)) || hasCtl v) = false := by
      simpa [blockFallback, bodyCol, parentCol] using hfb'
    simp only [hfb', Bool.false_eq_true, if_false]
    cases hn : v.contains '\n'
    · simp only [Bool.false_eq_true, if_false, foldLeaf, bodyCol]
      refine ⟨_, rfl, ?_, ?_, ?_⟩
      · simp [blockArm, writeSpaceIfPending, foldedBlockScalar_eq, St.write, hals, hpsc, hif, hpic, hadd, hic, needsInd_eq, hasCtl_eq, hz, hcond, hn,
          render_foldedBlock, blockHdr, List.append_assoc]
      · simp [blockArm, writeSpaceIfPending, foldedBlockScalar_eq, St.write, hals, hpsc, hif, hpic, hadd, hic, needsInd_eq, hasCtl_eq, hz, hcond, hn]
      · constructor
        · constructor <;> simp [blockArm, writeSpaceIfPending, foldedBlockScalar_eq, St.write, hals, hpsc, hif, hpic, hadd, hic, needsInd_eq, hasCtl_eq, hz, hcond, hn, h.pendingFlow, hdoc]
        all_goals simp [blockArm, writeSpaceIfPending, foldedBlockScalar_eq, St.write, hals, hpsc, hif, hpic, hadd, hic, needsInd_eq, hasCtl_eq, hz, hcond, hn]
    · have hce := hb hn
      simp only [if_true, litLeaf, bodyCol]
      refine ⟨_, rfl, ?_, ?_, ?_⟩
      · simp [blockArm, writeSpaceIfPending, literalBlock_eq _ _ _ _ hce, St.write, hals, hpsc, hif, hpic, hadd, hic, needsInd_eq, hasCtl_eq, hz, hcond, hn,
          renderLines_body, blockHdr, List.append_assoc]
      · simp [blockArm, writeSpaceIfPending, literalBlock_eq _ _ _ _ hce, St.write, hals, hpsc, hif, hpic, hadd, hic, needsInd_eq, hasCtl_eq, hz, hcond, hn]
      · constructor
        · constructor <;> simp [blockArm, writeSpaceIfPending, literalBlock_eq _ _ _ _ hce, St.write, hals, hpsc, hif, hpic, hadd, hic, needsInd_eq, hasCtl_eq, hz, hcond, hn, h.pendingFlow, hdoc]
        all_goals simp [blockArm, writeSpaceIfPending, literalBlock_eq _ _ _ _ hce, St.write, hals, hpsc, hif, hpic, hadd, hic, needsInd_eq, hasCtl_eq, hz, hcond, hn]

/-- at the root -/
theorem serStr_block_root (ho : FragOpts o) {v : List Char} (ha : autoBlock o f v = true) (hb : BlockOk v) :
    (serStr o f v (startSt o)).out =
      prologue o ++ renderLines (⟨0, (blkStr o f o.indentStep .root v).1⟩ :: (blkStr o f o.indentStep .root v).2) := by
  rw [serStr_of_autoSel_block (autoSel_block ha rfl rfl)]
  simp only [blkStr, ha, if_true]
  by_cases hfb : blockFallback o.indentStep .root v = true
  · have hcond : ((needsInd v && decide (o.indentStep > 9)) || hasCtl v) = true := by
      simpa [blockFallback, bodyCol, parentCol] using hfb
    simp only [hfb, if_true]
    simp [blockArm, writeSpaceIfPending, writeIndent, writeEndOfScalar, newline, St.write, startSt, indentCols, needsInd_eq, hasCtl_eq, hcond, spaces]
  · have hfb' : blockFallback o.indentStep .root v = false := by simpa using hfb
    have hcond : ((needsInd v && decide (o.indentStep > 9)) || hasCtl v) = false := by
      simpa [blockFallback, bodyCol, parentCol] using hfb'
    simp only [hfb', Bool.false_eq_true, if_false]
    cases hn : v.contains '\n'
    · simp only [Bool.false_eq_true, if_false, foldLeaf, bodyCol]
      simp [blockArm, writeSpaceIfPending, writeIndent, foldedBlockScalar_eq, St.write, startSt, indentCols, needsInd_eq, hasCtl_eq, hcond, hn,
        render_foldedBlock, blockHdr, spaces, List.append_assoc]
    · have hce := hb hn
      simp only [if_true, litLeaf, bodyCol]
      simp [blockArm, writeSpaceIfPending, writeIndent, literalBlock_eq _ _ _ _ hce, St.write, startSt, indentCols, needsInd_eq, hasCtl_eq, hcond, hn,
        renderLines_body, blockHdr, spaces, List.append_assoc]

/-- the block arm from two states at a line start that agree after `write_indent` -/
theorem blockArm_congr {v : List Char} {style : StrStyle} {a b : St} {base : Nat}
    (hpa : a.pendingSpaceAfterColon = false) (hpb : b.pendingSpaceAfterColon = false)
    (haa : (writeSpaceIfPending a).atLineStart = true) (hab : (writeSpaceIfPending b).atLineStart = true)
    (hba : (writeSpaceIfPending a).afterDashDepth.getD (writeSpaceIfPending a).depth = base)
    (hbb : (writeSpaceIfPending b).afterDashDepth.getD (writeSpaceIfPending b).depth = base)
    (hw : writeIndent o (writeSpaceIfPending a) base = writeIndent o (writeSpaceIfPending b) base) :
    blockArm o f v style a = blockArm o f v style b := by
  simp only [blockArm, hpa, hpb, haa, hab, hba, hbb, Bool.false_eq_true, if_false, if_true, hw]

/-- from the initial state `serialize_str` runs exactly as from `startSt o` (the first `write_indent` emits the
prologue) -/
theorem serStr_block_init {v : List Char} (ha : autoBlock o f v = true) : serStr o f v {} = serStr o f v (startSt o) := by
  rw [serStr_of_autoSel_block (autoSel_block ha rfl rfl), serStr_of_autoSel_block (autoSel_block ha rfl rfl)]
  refine blockArm_congr (base := 0) rfl rfl rfl rfl rfl rfl ?_
  cases hy : o.yaml12 <;> simp [writeSpaceIfPending, writeIndent, St.write, startSt, prologue, hy, prologueText_eq, indentCols]

end SaphyrVerif.Emit
