import SaphyrVerif.Model.SerScalar
import SaphyrVerif.Spec.ScalarRead
/-!
Helper lemmas for C12, plain style: what `is_plain_value_safe` / `is_plain_safe` guarantee about a string,
and that the plain reader of `Spec/ScalarRead.lean` reads such a string back unchanged when it has no
trailing blank (and, in flow context, does not end in blank + `-`).
-/
namespace SaphyrVerif.Lemmas.C12
open SaphyrVerif SaphyrVerif.SerScalar SaphyrVerif.Spec.Read

theorem char_of_toNat' {c : Char} {n : Nat} (h : c.toNat = n) : c = Char.ofNat n := by
  rw [← h, Char.ofNat_toNat]

/-- characters that may occur anywhere in a string the writer leaves plain -/
def SafeChars (flow : Bool) (u : List Char) : Prop :=
  ∀ c ∈ u, isControl c = false ∧ c ≠ '#' ∧ (flow = true → isFlowInd c = false)

/-- no `:` + space inside, and the last character is not `:` -/
def colonOk : List Char → Bool
  | [] => true
  | [c] => c != ':'
  | c :: d :: r => !(c == ':' && d == ' ') && colonOk (d :: r)

theorem SafeChars.tail {flow c u} (h : SafeChars flow (c :: u)) : SafeChars flow u :=
  fun d hd => h d (List.mem_cons_of_mem _ hd)

theorem SafeChars.weaken {u} (h : SafeChars true u) (flow : Bool) : SafeChars flow u :=
  fun d hd => ⟨(h d hd).1, (h d hd).2.1, fun _ => (h d hd).2.2 rfl⟩

theorem not_control_facts {c : Char} (h : isControl c = false) :
    c ≠ '\t' ∧ isBreak c = false ∧ isNul c = false := by
  simp only [isControl, Bool.or_eq_false_iff, Bool.and_eq_false_iff, decide_eq_false_iff_not] at h
  refine ⟨?_, ?_, ?_⟩
  · intro e; subst e; revert h; decide
  · simp only [isBreak, Bool.or_eq_false_iff]
    constructor
    · apply Bool.eq_false_iff.mpr; intro e; have := eq_of_beq e; subst this; revert h; decide
    · apply Bool.eq_false_iff.mpr; intro e; have := eq_of_beq e; subst this; revert h; decide
  · simp only [isNul]
    apply Bool.eq_false_iff.mpr; intro e
    have : c.toNat = 0 := eq_of_beq e
    omega

theorem any_false_mem {α} {p : α → Bool} {l : List α} (h : l.any p = false) : ∀ x ∈ l, p x = false := by
  intro x hx
  cases hp : p x with
  | false => rfl
  | true =>
    have : l.any p = true := List.any_eq_true.mpr ⟨x, hx, hp⟩
    rw [h] at this; cases this

/-- what `contains_any_or_is_control(s, vals) == false` means -/
theorem cac_false {s vals : List Char} (hne : vals ≠ []) (h : containsAnyOrIsControl s vals = false) :
    ∀ c ∈ s, isControl c = false ∧ ∀ v ∈ vals, c ≠ v := by
  intro c hc
  have h1 := any_false_mem h c hc
  have h2 := any_false_mem h1
  constructor
  · cases vals with
    | nil => exact absurd rfl hne
    | cons v vs =>
      have := h2 v (by simp)
      simp only [Bool.or_eq_false_iff] at this
      exact this.2
  · intro v hv e
    have := h2 v hv
    simp only [Bool.or_eq_false_iff] at this
    subst e
    simp at this

theorem containsColonSpace_cons (c d : Char) (r : List Char) :
    containsColonSpace (c :: d :: r) = ((c == ':' && d == ' ') || containsColonSpace (d :: r)) := by
  rw [containsColonSpace]

theorem colonOk_of (s : List Char) (h1 : containsColonSpace s = false) (h2 : s.getLast? ≠ some ':') :
    colonOk s = true := by
  induction s with
  | nil => rfl
  | cons c s ih =>
    cases s with
    | nil =>
      simp only [colonOk, bne_iff_ne, ne_eq]
      intro e; subst e; simp at h2
    | cons d r =>
      rw [containsColonSpace_cons] at h1
      simp only [Bool.or_eq_false_iff] at h1
      simp only [colonOk, Bool.and_eq_true, Bool.not_eq_true']
      refine ⟨h1.1, ih h1.2 ?_⟩
      simpa [List.getLast?_cons_cons] using h2

theorem isTerm_scan {flow : Bool} {term : List Char}
    (ht : (match term with
           | [] => true
           | c :: t => isBreak c || isNul c || plainStops flow c t.head?) = true) (acc : List Char) :
    plainScan flow term acc [] = some (acc.reverse, term) := by
  cases term with
  | nil => simp [plainScan]
  | cons c t =>
    simp only [Bool.or_eq_true] at ht
    have hb : isBlank c = false := by
      rcases ht with (hbk | hn) | hs
      · simp only [isBreak, Bool.or_eq_true] at hbk
        rcases hbk with e | e <;> (have := eq_of_beq e; subst this; decide)
      · simp only [isNul] at hn
        have hc := SaphyrVerif.Lemmas.C12.char_of_toNat' (eq_of_beq hn); subst hc; decide
      · simp only [plainStops, Bool.or_eq_true, Bool.and_eq_true] at hs
        rcases hs with ⟨e, _⟩ | ⟨_, hf⟩
        · have := eq_of_beq e; subst this; decide
        · simp only [isFlowInd, Bool.or_eq_true] at hf
          rcases hf with (((e | e) | e) | e) | e <;> (have := eq_of_beq e; subst this; decide)
    rcases ht with (hbk | hn) | hs
    · simp [plainScan, hb, hbk]
    · simp [plainScan, hb, hn]
    · simp [plainScan, hb, hs]


/-- the terminators a plain scalar may be followed by -/
def isTerm (flow : Bool) (term : List Char) : Bool :=
  match term with
  | [] => true
  | c :: t => isBreak c || isNul c || plainStops flow c t.head?

/-- Main scan lemma: a run `u` of safe characters in front of a terminator is consumed entirely;
pending blanks `ws` are kept because content follows. -/
theorem plain_scan_run (flow : Bool) (term : List Char) (ht : isTerm flow term = true) :
    ∀ (u acc ws : List Char), SafeChars flow u → colonOk u = true →
      (flow = true → ¬ [' ', '-'] <:+ u) → (flow = true → ws ≠ [] → u ≠ ['-']) →
      (u = [] → ws = []) → u.getLast? ≠ some ' ' →
      plainScan flow (u ++ term) acc ws = some (acc.reverse ++ ws.reverse ++ u, term) := by
  intro u
  induction u with
  | nil =>
    intro acc ws _ _ _ _ hws _
    rw [hws rfl]
    simpa using isTerm_scan (flow := flow) (term := term) ht acc
  | cons c u ih =>
    intro acc ws hs hc hd hd2 _ hl
    have hcs := hs c (by simp)
    obtain ⟨hnt, hnb, hnn⟩ := not_control_facts hcs.1
    by_cases hsp : c = ' '
    · -- a blank: becomes pending
      subst hsp
      have hune : u ≠ [] := by intro e; subst e; simp at hl
      have hstep : plainScan flow ((' ' :: u) ++ term) acc ws = plainScan flow (u ++ term) acc (' ' :: ws) := by
        simp [plainScan, isBlank]
      rw [hstep, ih acc (' ' :: ws) hs.tail]
      · simp
      · cases u with
        | nil => exact absurd rfl hune
        | cons d r => simp only [colonOk, Bool.and_eq_true] at hc; exact hc.2
      · intro hf hsuf; exact hd hf (List.IsSuffix.trans hsuf (List.suffix_cons _ _))
      · intro hf _ hu; subst hu; exact hd hf (List.suffix_refl _)
      · intro e; exact absurd e hune
      · cases u with
        | nil => exact absurd rfl hune
        | cons d r => simpa [List.getLast?_cons_cons] using hl
    · -- a content character
      have hblank : isBlank c = false := by
        simp only [isBlank, Bool.or_eq_false_iff]
        exact ⟨by simpa using hsp, by simpa using hnt⟩
      have hhash : (c == '#') = false := by simpa using hcs.2.1
      have hdash : (flow && c == '-' && !ws.isEmpty && headSat isFlowInd (u ++ term)) = false := by
        cases hf : flow with
        | false => simp
        | true =>
          by_cases hcd : c = '-'
          · subst hcd
            cases hw : ws with
            | nil => simp
            | cons w ws' =>
              cases u with
              | nil => exact absurd rfl (hd2 hf (by simp [hw]))
              | cons d r =>
                have := (hs d (by simp)).2.2 hf
                simp [headSat, this]
          · simp [hcd]
      have hstop : plainStops flow c (u ++ term).head? = false := by
        simp only [plainStops, Bool.or_eq_false_iff, Bool.and_eq_false_iff]
        constructor
        · by_cases hcc : c = ':'
          · subst hcc
            right
            cases u with
            | nil => simp [colonOk] at hc
            | cons d r =>
              simp only [colonOk, Bool.and_eq_true, Bool.not_eq_true', Bool.and_eq_false_iff] at hc
              have hds := hs d (by simp)
              obtain ⟨hdt, hdb, hdn⟩ := not_control_facts hds.1
              have hdsp : d ≠ ' ' := by
                rcases hc.1 with h | h
                · simp at h
                · simpa using h
              have : isBlankOrBreakZ d = false := by
                simp only [isBlankOrBreakZ, isBlank, Bool.or_eq_false_iff]
                exact ⟨⟨⟨by simpa using hdsp, by simpa using hdt⟩, hdb⟩, hdn⟩
              simp only [List.cons_append, List.head?_cons, this, Bool.false_or, Bool.and_eq_false_iff]
              cases hf : flow with
              | false => left; rfl
              | true => right; exact hds.2.2 hf
          · left; simpa using hcc
        · cases hf : flow with
          | false => left; rfl
          | true => right; exact hcs.2.2 hf
      have hstep : plainScan flow ((c :: u) ++ term) acc ws = plainScan flow (u ++ term) (c :: (ws ++ acc)) [] := by
        rw [List.cons_append, plainScan]
        rw [if_neg (by simp [hblank]), if_neg (by simp [hnb, hnn]), if_neg (by simp [hhash]), if_neg (by rw [hdash]; simp), if_neg (by rw [hstop]; simp)]
      rw [hstep]
      by_cases hune : u = []
      · subst hune
        have := isTerm_scan (flow := flow) (term := term) ht (c :: (ws ++ acc))
        simp only [List.nil_append]
        rw [this]
        simp
      · rw [ih (c :: (ws ++ acc)) [] hs.tail]
        · simp
        · cases u with
          | nil => exact absurd rfl hune
          | cons d r => simp only [colonOk, Bool.and_eq_true] at hc; exact hc.2
        · intro hf hsuf; exact hd hf (List.IsSuffix.trans hsuf (List.suffix_cons _ _))
        · intro _ h; exact absurd rfl h
        · intro _; rfl
        · cases u with
          | nil => exact absurd rfl hune
          | cons d r => simpa [List.getLast?_cons_cons] using hl


/-! ### what the writer's predicates guarantee -/

theorem pvs_unfold {s : List Char} {y flow : Bool} (h : isPlainValueSafe s y flow = true) :
    isAmbiguousValue s y = false ∧ headRejects s = false ∧ containsColonSpace s = false ∧
      endsWithColon (trim s) = false ∧ SafeChars flow s ∧ (flow = true → endsWithBlankDash s = false) := by
  unfold isPlainValueSafe at h
  by_cases h1 : isAmbiguousValue s y = true
  · rw [if_pos h1] at h; cases h
  rw [if_neg h1] at h
  by_cases h0 : (flow && endsWithBlankDash s) = true
  · rw [if_pos h0] at h; cases h
  rw [if_neg h0] at h
  by_cases h2 : headRejects s = true
  · rw [if_pos h2] at h; cases h
  rw [if_neg h2] at h
  by_cases h3 : (containsColonSpace s || endsWithColon (trim s)) = true
  · rw [if_pos h3] at h; cases h
  rw [if_neg h3] at h
  simp only [Bool.or_eq_true, not_or, Bool.not_eq_true] at h3
  have hdash : flow = true → endsWithBlankDash s = false := by
    intro hf; subst hf; simpa using h0
  refine ⟨by simpa using h1, by simpa using h2, h3.1, h3.2, ?_, hdash⟩
  cases flow with
  | true =>
    simp only [if_true, Bool.not_eq_true'] at h
    have := cac_false (by simp) h
    intro c hc
    obtain ⟨hctl, hv⟩ := this c hc
    refine ⟨hctl, hv '#' (by simp), fun _ => ?_⟩
    simp only [isFlowInd, Bool.or_eq_false_iff]
    refine ⟨⟨⟨⟨?_, ?_⟩, ?_⟩, ?_⟩, ?_⟩ <;> (apply Bool.eq_false_iff.mpr; intro e; have e' := eq_of_beq e; exact hv _ (by simp) e')
  | false =>
    simp only [Bool.false_eq_true, if_false, Bool.not_eq_true'] at h
    have := cac_false (by simp) h
    intro c hc
    obtain ⟨hctl, hv⟩ := this c hc
    exact ⟨hctl, hv '#' (by simp), fun hf => by cases hf⟩

/-- `s.ends_with(" -")` false ⇒ not a suffix -/
theorem not_suffix_of_endsWithBlankDash {s : List Char} (h : endsWithBlankDash s = false) : ¬ [' ', '-'] <:+ s := by
  intro hs
  have : endsWithBlankDash s = true := by
    unfold endsWithBlankDash
    exact List.isSuffixOf_iff_suffix.mpr hs
  rw [h] at this; cases this

/-- what `is_unsafe_plain_shape(s) == false` gives -/
theorem unsafe_shape_facts {s : List Char} (h : isUnsafePlainShape s = false) :
    s.getLast? ≠ some ' ' ∧ s.head? ≠ some (Char.ofNat 0xFEFF) ∧ docMarkerLike s = false := by
  unfold isUnsafePlainShape at h
  simp only [Bool.or_eq_false_iff] at h
  refine ⟨by simpa using h.1.1, ?_, h.2⟩
  cases s with
  | nil => simp
  | cons c r =>
    simp only [List.head?_cons, ne_eq, Option.some.injEq]
    intro e; subst e
    have := h.1.2
    simp [startsWithBom] at this

theorem ps_unfold {s : List Char} (h : isPlainSafe s = true) :
    isAmbiguous s = false ∧ headRejects s = false ∧ (∀ c ∈ s, isControl c = false ∧ c ≠ ':' ∧ c ≠ '#') := by
  unfold isPlainSafe at h
  by_cases h1 : isAmbiguous s = true
  · rw [if_pos h1] at h; cases h
  rw [if_neg h1] at h
  by_cases h2 : headRejects s = true
  · rw [if_pos h2] at h; cases h
  rw [if_neg h2] at h
  simp only [Bool.not_eq_true'] at h
  have := cac_false (by simp) h
  refine ⟨by simpa using h1, by simpa using h2, fun c hc => ?_⟩
  obtain ⟨hctl, hv⟩ := this c hc
  exact ⟨hctl, hv ':' (by simp), hv '#' (by simp)⟩

theorem dropWhile_getLast {p : Char → Bool} {x : Char} :
    ∀ (l : List Char), l.getLast? = some x → p x = false → (l.dropWhile p).getLast? = some x := by
  intro l
  induction l with
  | nil => intro h; simp at h
  | cons a l ih =>
    intro h hp
    cases l with
    | nil =>
      simp only [List.getLast?_singleton, Option.some.injEq] at h
      subst h
      simp [List.dropWhile, hp]
    | cons b r =>
      rw [List.getLast?_cons_cons] at h
      rw [List.dropWhile]
      cases hpa : p a with
      | true => exact ih h hp
      | false => simp only; rw [List.getLast?_cons_cons]; exact h

theorem trimEnd_of_last {x : Char} (l : List Char) (h : l.getLast? = some x) (hp : isWhitespace x = false) :
    trimEnd l = l := by
  unfold trimEnd
  have : l.reverse.head? = some x := by rw [List.head?_reverse]; exact h
  cases hr : l.reverse with
  | nil => rw [hr] at this; simp at this
  | cons a r =>
    rw [hr] at this
    simp only [List.head?_cons, Option.some.injEq] at this
    subst this
    rw [List.dropWhile, hp]
    simp only
    rw [← hr, List.reverse_reverse]

/-- `s.trim().ends_with(':')` is false ⇒ the string itself does not end with `:` -/
theorem last_not_colon {s : List Char} (h : endsWithColon (trim s) = false) : s.getLast? ≠ some ':' := by
  intro hl
  have hw : isWhitespace ':' = false := by decide
  have h1 : (trimStart s).getLast? = some ':' := dropWhile_getLast s hl hw
  have h2 : trim s = trimStart s := trimEnd_of_last _ h1 hw
  unfold endsWithColon at h
  rw [h2, h1] at h
  simp at h

theorem not_asciiws_facts {d : Char} (h : isAsciiWhitespace d = false) : d ≠ ' ' ∧ d ≠ '\t' ∧ d ≠ '\n' ∧ d ≠ '\r' := by
  simp only [isAsciiWhitespace, Bool.or_eq_false_iff] at h
  refine ⟨by simpa using h.1.1.1.1, by simpa using h.1.1.1.2, by simpa using h.1.1.2, by simpa using h.2⟩

theorem not_bbz {d : Char} (h1 : isAsciiWhitespace d = false) (h2 : isControl d = false) : isBlankOrBreakZ d = false := by
  obtain ⟨a, b, c, e⟩ := not_asciiws_facts h1
  obtain ⟨_, hb, hn⟩ := not_control_facts h2
  simp only [isBlankOrBreakZ, isBlank, Bool.or_eq_false_iff]
  exact ⟨⟨⟨by simpa using a, by simpa using b⟩, hb⟩, hn⟩

/-- A string that passes the head test of the writer's predicates starts a *plain* scalar for the reader
(unless it is a document marker at column 0). -/
theorem plain_start (flow col0 : Bool) (s rest : List Char) (hs : SafeChars flow s)
    (hh : headRejects s = false) (hm : col0 = true → isDocMarker (s ++ rest) = false) :
    startKind flow col0 (s ++ rest) = .plain := by
  cases s with
  | nil => simp [headRejects] at hh
  | cons c r =>
    have hcs := hs c (by simp)
    rw [headRejects] at hh
    by_cases hws : isAsciiWhitespace c = true
    · rw [if_pos hws] at hh; cases hh
    rw [if_neg hws] at hh
    have hws' : isAsciiWhitespace c = false := by simpa using hws
    have hbbz : isBlankOrBreakZ c = false := not_bbz hws' hcs.1
    by_cases hdq : (c == '-' || c == '?') = true
    · rw [if_pos hdq] at hh
      cases r with
      | nil => simp [secondRejects] at hh
      | cons d r2 =>
        simp only [secondRejects] at hh
        have hd := hs d (by simp)
        have hdb : isBlankOrBreakZ d = false := not_bbz hh hd.1
        have hm' : (col0 && (c == '%' || isDocMarker ((c :: d :: r2) ++ rest))) = false := by
          cases col0 with
          | false => rfl
          | true =>
            have := hm rfl
            simp only [Bool.true_and, Bool.or_eq_false_iff]
            refine ⟨?_, this⟩
            simp only [Bool.or_eq_true] at hdq
            rcases hdq with e | e <;> (have := eq_of_beq e; subst this; decide)
        have hfl : (flow && isFlowInd d) = false := by
          cases hf : flow with
          | false => rfl
          | true => simpa using hd.2.2 hf
        simp only [Bool.or_eq_true] at hdq
        rcases hdq with e | e
        · have := eq_of_beq e; subst this
          simp only [List.cons_append] at hm' hm ⊢
          simp only [startKind, hm', hdb, hfl]
          simp
          decide
        · have := eq_of_beq e; subst this
          simp only [List.cons_append] at hm' hm ⊢
          simp only [startKind, hm', hdb]
          simp
          decide
    · rw [if_neg hdq] at hh
      by_cases hcomma : (c == ',') = true
      · rw [if_pos hcomma] at hh; cases hh
      rw [if_neg hcomma] at hh
      simp only [Bool.or_eq_true, not_or, Bool.not_eq_true] at hdq
      simp only [startIndicators, List.contains_cons, List.contains_nil, Bool.or_false, Bool.or_eq_false_iff] at hh
      obtain ⟨h1, h2, h3, h4, h5, h6, h7, h8, h9, h10, h11, h12, h13, h14, h15, h16⟩ := hh
      have hm' : (col0 && (c == '%' || isDocMarker ((c :: r) ++ rest))) = false := by
        cases col0 with
        | false => rfl
        | true =>
          have := hm rfl
          simp only [Bool.true_and, Bool.or_eq_false_iff]
          exact ⟨h14, this⟩
      have hfi : isFlowInd c = false := by
        simp only [isFlowInd, Bool.or_eq_false_iff]
        exact ⟨⟨⟨⟨by simpa using hcomma, h2⟩, h3⟩, h4⟩, h5⟩
      have hhash : (c == '#') = false := h6
      simp only [List.cons_append] at hm' ⊢
      unfold startKind
      simp only []
      rw [hm']
      simp only [hfi, hdq.1, hdq.2, h1, h7, h8, h9, h10, h11, h12, h13, h14, h15, h16, hhash, hbbz,
        Bool.false_eq_true, if_false, Bool.or_self]


/-- what `is_ambiguous(s) == false` gives (after 1fdb06b / b4ece9d: the merge key and everything the
crate's own readers take for a number are ambiguous) -/
theorem not_ambiguous_facts {s : List Char} (h : isAmbiguous s = false) :
    s ≠ [] ∧ s ≠ ['<', '<'] ∧ Scalars.scalarIsNullish s .plain = false ∧ readsAsNumber s = false := by
  unfold isAmbiguous at h
  by_cases e1 : s.isEmpty = true
  · rw [if_pos e1] at h; cases h
  rw [if_neg e1] at h
  by_cases e0 : (s == ['<', '<']) = true
  · rw [if_pos e0] at h; cases h
  rw [if_neg e0] at h
  by_cases e2 : (s == ['~'] || eqIgnoreAsciiCase s "null".toList || eqIgnoreAsciiCase s "true".toList
      || eqIgnoreAsciiCase s "false".toList) = true
  · rw [if_pos e2] at h; cases h
  rw [if_neg e2] at h
  by_cases e3 : isSpecialInfNan s = true
  · rw [if_pos e3] at h; cases h
  rw [if_neg e3] at h
  by_cases e4 : isNumericLooking s = true
  · rw [if_pos e4] at h; cases h
  rw [if_neg e4] at h
  by_cases e5 : readsAsNumber s = true
  · rw [if_pos e5] at h; cases h
  simp only [Bool.or_eq_true, not_or, Bool.not_eq_true] at e2
  refine ⟨by intro e; subst e; simp at e1, by intro e; subst e; simp at e0, ?_, by simpa using e5⟩
  simp only [Scalars.scalarIsNullish, Bool.and_eq_false_iff, Bool.or_eq_false_iff]
  right
  exact ⟨⟨by simpa using e1, e2.1.1.1⟩, e2.1.1.2⟩

theorem not_ambiguous_value_facts {s : List Char} {y : Bool} (h : isAmbiguousValue s y = false) :
    isAmbiguous s = false ∧ (y = false → (Scalars.parseYaml11Bool s).isSome = false) := by
  unfold isAmbiguousValue at h
  by_cases h1 : isAmbiguous s = true
  · rw [if_pos h1] at h; cases h
  rw [if_neg h1] at h
  refine ⟨by simpa using h1, ?_⟩
  intro hy; subst hy
  by_cases h2 : (!false && (Scalars.parseYaml11Bool s).isSome) = true
  · rw [if_pos h2] at h; cases h
  simpa using h2

end SaphyrVerif.Lemmas.C12
