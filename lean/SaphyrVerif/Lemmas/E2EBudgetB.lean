import SaphyrVerif.Lemmas.E2EBudgetDe
/-!
End-to-end composition with the budget enforcer, part 5b: the merge machinery (`mergeSeqBatches`,
`pendingFromLive`, `collectEntriesFromMap`, `collectLoop`).  The reference locations handed down are the SAME
on both sides (`strip` keeps `reference_location`), so are the collected entries.
-/
namespace SaphyrVerif.Lemmas.E2EBudget
open SaphyrVerif SaphyrVerif.Scalars SaphyrVerif.Pump SaphyrVerif.Budget SaphyrVerif.De

set_option linter.unusedSimpArgs false
set_option linter.unusedVariables false

variable {P : BP} (hcl : Closed P)
include hcl

theorem mergeSeqBatches_brStep {fuel : Nat} (ih : BA P fuel) :
    ∀ b {c}, P.Inv c → BR P (De.mergeSeqBatches (fuel + 1) c b) (De.mergeSeqBatches (fuel + 1) (strip c) b) := by
  intro b c hi
  rw [De.mergeSeqBatches, De.mergeSeqBatches]
  b_loop

theorem pendingFromLive_brStep {fuel : Nat} (ih : BA P fuel) :
    ∀ r {c}, P.Inv c → BR P (De.pendingFromLive (fuel + 1) c r) (De.pendingFromLive (fuel + 1) (strip c) r) := by
  intro r c hi
  rw [De.pendingFromLive, De.pendingFromLive]
  b_loop

theorem collectEntriesFromMap_brStep {fuel : Nat} (ih : BA P fuel) :
    ∀ r {c}, P.Inv c →
      BR P (De.collectEntriesFromMap (fuel + 1) c r) (De.collectEntriesFromMap (fuel + 1) (strip c) r) := by
  intro r c hi
  rw [De.collectEntriesFromMap, De.collectEntriesFromMap]
  b_loop

theorem collectLoop_brStep {fuel : Nat} (ih : BA P fuel) :
    ∀ r f m {c}, P.Inv c → BR P (De.collectLoop (fuel + 1) c r f m) (De.collectLoop (fuel + 1) (strip c) r f m) := by
  intro r f m c hi
  rw [De.collectLoop, De.collectLoop]
  b_loop

end SaphyrVerif.Lemmas.E2EBudget
