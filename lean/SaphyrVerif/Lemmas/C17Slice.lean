import SaphyrVerif.Lemmas.C17Utf8
/-!
Helper lemmas for C17, part 2: byte slices of character lists (`dropBytes`, `takeBytes`, `slice`),
the `Res` monad, column → byte mapping.
-/
namespace SaphyrVerif.Lemmas.C17
open SaphyrVerif SaphyrVerif.Snippet

/-! ### `Res` -/

@[simp] theorem res_bind_ok {α β} (a : α) (f : α → Res β) : (Res.ok a >>= f) = f a := rfl
@[simp] theorem res_bind_panic {α β} (s : String) (f : α → Res β) : (Res.panic s >>= f) = Res.panic s := rfl
@[simp] theorem res_pure {α} (a : α) : (pure a : Res α) = Res.ok a := rfl

/-! ### byte length -/

theorem blen_cons (c : Char) (s : List Char) : blen (c :: s) = utf8LenChar c + blen s := utf8Len_cons c s
theorem blen_append (a b : List Char) : blen (a ++ b) = blen a + blen b := utf8Len_append a b
@[simp] theorem blen_nil : blen [] = 0 := rfl

theorem blen_pos_of_ne_nil (s : List Char) (h : s ≠ []) : 0 < blen s := by
  cases s with
  | nil => exact absurd rfl h
  | cons c cs =>
    have := utf8LenChar_pos c
    rw [blen_cons]; omega

theorem length_le_blen (s : List Char) : s.length ≤ blen s := by
  induction s with
  | nil => simp
  | cons c cs ih =>
    have := utf8LenChar_pos c
    rw [blen_cons, List.length_cons]; omega

theorem blen_eq_zero (s : List Char) (h : blen s = 0) : s = [] := by
  cases s with
  | nil => rfl
  | cons c cs =>
    have := utf8LenChar_pos c
    rw [blen_cons] at h; omega

theorem blen_take_le (s : List Char) (k : Nat) : blen (s.take k) ≤ blen s := by
  conv => rhs; rw [← List.take_append_drop k s]
  rw [blen_append]; omega

/-! ### dropBytes / takeBytes -/

theorem dropBytes_zero (s : List Char) : dropBytes s 0 = some s := by
  cases s <;> rfl

theorem dropBytes_cons_ge (c : Char) (cs : List Char) (n : Nat) (h : utf8LenChar c ≤ n) :
    dropBytes (c :: cs) n = dropBytes cs (n - utf8LenChar c) := by
  have := utf8LenChar_pos c
  cases n with
  | zero => omega
  | succ n => simp only [dropBytes, h, if_true]

theorem dropBytes_cons_lt (c : Char) (cs : List Char) (n : Nat) (h0 : 0 < n) (h : n < utf8LenChar c) :
    dropBytes (c :: cs) n = none := by
  cases n with
  | zero => omega
  | succ n =>
    have : ¬ utf8LenChar c ≤ n + 1 := by omega
    simp only [dropBytes, this, if_false]

theorem dropBytes_append (p q : List Char) : dropBytes (p ++ q) (blen p) = some q := by
  induction p with
  | nil => exact dropBytes_zero q
  | cons c cs ih =>
    rw [List.cons_append, blen_cons, dropBytes_cons_ge _ _ _ (by omega)]
    have : utf8LenChar c + blen cs - utf8LenChar c = blen cs := by omega
    rw [this, ih]

theorem dropBytes_some (s : List Char) (n : Nat) (r : List Char) (h : dropBytes s n = some r) :
    ∃ p, s = p ++ r ∧ blen p = n := by
  induction s generalizing n with
  | nil =>
    cases n with
    | zero => simp only [dropBytes] at h; cases h; exact ⟨[], rfl, rfl⟩
    | succ n => simp [dropBytes] at h
  | cons c cs ih =>
    cases n with
    | zero => rw [dropBytes_zero] at h; cases h; exact ⟨[], rfl, rfl⟩
    | succ n =>
      by_cases hc : utf8LenChar c ≤ n + 1
      · rw [dropBytes_cons_ge _ _ _ hc] at h
        obtain ⟨p, hp, hl⟩ := ih _ h
        refine ⟨c :: p, by rw [hp]; rfl, ?_⟩
        rw [blen_cons, hl]; omega
      · rw [dropBytes_cons_lt _ _ _ (by omega) (by omega)] at h
        cases h

theorem takeBytes_zero (s : List Char) : takeBytes s 0 = some [] := by
  cases s <;> rfl

theorem takeBytes_cons_ge (c : Char) (cs : List Char) (n : Nat) (h : utf8LenChar c ≤ n) :
    takeBytes (c :: cs) n = (takeBytes cs (n - utf8LenChar c)).map (c :: ·) := by
  have := utf8LenChar_pos c
  cases n with
  | zero => omega
  | succ n => simp only [takeBytes, h, if_true]

theorem takeBytes_cons_lt (c : Char) (cs : List Char) (n : Nat) (h0 : 0 < n) (h : n < utf8LenChar c) :
    takeBytes (c :: cs) n = none := by
  cases n with
  | zero => omega
  | succ n =>
    have : ¬ utf8LenChar c ≤ n + 1 := by omega
    simp only [takeBytes, this, if_false]

theorem takeBytes_append (p q : List Char) : takeBytes (p ++ q) (blen p) = some p := by
  induction p with
  | nil => exact takeBytes_zero q
  | cons c cs ih =>
    rw [List.cons_append, blen_cons, takeBytes_cons_ge _ _ _ (by omega)]
    have : utf8LenChar c + blen cs - utf8LenChar c = blen cs := by omega
    rw [this, ih]; rfl

theorem takeBytes_some (s : List Char) (n : Nat) (t : List Char) (h : takeBytes s n = some t) :
    ∃ q, s = t ++ q ∧ blen t = n := by
  induction s generalizing n t with
  | nil =>
    cases n with
    | zero => simp only [takeBytes] at h; cases h; exact ⟨[], rfl, rfl⟩
    | succ n => simp [takeBytes] at h
  | cons c cs ih =>
    cases n with
    | zero => rw [takeBytes_zero] at h; cases h; exact ⟨c :: cs, rfl, rfl⟩
    | succ n =>
      by_cases hc : utf8LenChar c ≤ n + 1
      · rw [takeBytes_cons_ge _ _ _ hc] at h
        cases ht : takeBytes cs (n + 1 - utf8LenChar c) with
        | none => rw [ht] at h; cases h
        | some t' =>
          rw [ht] at h
          simp only [Option.map_some, Option.some.injEq] at h
          obtain ⟨q, hq, hl⟩ := ih _ _ ht
          refine ⟨q, by rw [← h, hq]; rfl, ?_⟩
          rw [← h, blen_cons, hl]; omega
      · rw [takeBytes_cons_lt _ _ _ (by omega) (by omega)] at h
        cases h

/-! ### slice -/

theorem slice_append3 (p m q : List Char) (site : String) :
    slice (p ++ m ++ q) (blen p) (blen p + blen m) site = .ok m := by
  unfold slice
  rw [if_pos (by omega), List.append_assoc, dropBytes_append]
  have : blen p + blen m - blen p = blen m := by omega
  simp only [this, takeBytes_append]

theorem slice_append3' (p m q : List Char) (a b : Nat) (site : String) (ha : a = blen p) (hb : b = blen p + blen m) :
    slice (p ++ m ++ q) a b site = .ok m := by
  subst ha; subst hb; exact slice_append3 p m q site

/-- `&s[a..]` of `s = p ++ r` at `a = blen p` -/
theorem slice_from (p r : List Char) (site : String) : slice (p ++ r) (blen p) (blen (p ++ r)) site = .ok r := by
  have := slice_append3 p r [] site
  rw [List.append_nil] at this
  rw [blen_append]; exact this

/-- `&s[..b]` -/
theorem slice_to (m q : List Char) (site : String) : slice (m ++ q) 0 (blen m) site = .ok m := by
  have := slice_append3 [] m q site
  simpa using this

theorem slice_ok (s : List Char) (a b : Nat) (site : String) (t : List Char) (h : slice s a b site = .ok t) :
    ∃ p q, s = p ++ t ++ q ∧ blen p = a ∧ a + blen t = b := by
  unfold slice at h
  by_cases hab : a ≤ b
  · rw [if_pos hab] at h
    cases hd : dropBytes s a with
    | none => simp only [hd] at h; cases h
    | some r =>
      simp only [hd] at h
      cases ht : takeBytes r (b - a) with
      | none => simp only [ht] at h; cases h
      | some t' =>
        simp only [ht, Res.ok.injEq] at h
        subst h
        obtain ⟨p, hp, hpl⟩ := dropBytes_some _ _ _ hd
        obtain ⟨q, hq, hql⟩ := takeBytes_some _ _ _ ht
        exact ⟨p, q, by rw [hp, hq, List.append_assoc], hpl, by omega⟩
  · rw [if_neg hab] at h; cases h

/-- slicing between two character indices -/
theorem slice_take (s : List Char) (i j : Nat) (site : String) (h : i ≤ j) :
    slice s (blen (s.take i)) (blen (s.take j)) site = .ok ((s.take j).drop i) := by
  have e1 : s.take j = s.take i ++ (s.take j).drop i := by
    have : (s.take j).take i = s.take i := by rw [List.take_take]; congr 1; omega
    rw [← this, List.take_append_drop]
  have e2 : s = s.take i ++ (s.take j).drop i ++ s.drop j := by
    rw [← e1, List.take_append_drop]
  have e3 : blen (s.take j) = blen (s.take i) + blen ((s.take j).drop i) := by
    conv => lhs; rw [e1]
    rw [blen_append]
  conv => lhs; arg 1; rw [e2]
  exact slice_append3' _ _ _ _ _ site rfl e3

/-! ### column → byte -/

theorem colToByteGo_eq (col1 : Nat) (l : List Char) (col i : Nat) :
    colToByteGo col1 l col i =
      if col ≤ col1 ∧ col1 - col ≤ l.length then some (i + blen (l.take (col1 - col))) else none := by
  induction l generalizing col i with
  | nil =>
    unfold colToByteGo
    by_cases h : col = col1
    · subst h; simp
    · rw [if_neg h]
      have : ¬ (col ≤ col1 ∧ col1 - col ≤ ([] : List Char).length) := by
        simp only [List.length_nil]; omega
      rw [if_neg this]
  | cons c cs ih =>
    unfold colToByteGo
    by_cases h : col = col1
    · subst h; simp
    · rw [if_neg h, ih]
      by_cases h2 : col + 1 ≤ col1 ∧ col1 - (col + 1) ≤ cs.length
      · rw [if_pos h2, if_pos (by simp only [List.length_cons]; omega)]
        have : col1 - col = (col1 - (col + 1)) + 1 := by omega
        rw [this, List.take_succ_cons, blen_cons]
        congr 1; omega
      · rw [if_neg h2, if_neg (by simp only [List.length_cons]; omega)]

/-- `col_to_byte_offset_in_line` = byte length of the first `col-1` characters, for `1 ≤ col ≤ len+1` -/
theorem colToByte_eq (line : List Char) (col1 : Nat) :
    colToByte line col1 =
      if 1 ≤ col1 ∧ col1 - 1 ≤ line.length then some (blen (line.take (col1 - 1))) else none := by
  unfold colToByte
  by_cases h : col1 = 0
  · subst h; simp
  · rw [if_neg h, colToByteGo_eq]
    by_cases h2 : 1 ≤ col1 ∧ col1 - 1 ≤ line.length
    · rw [if_pos h2, if_pos h2]; simp
    · rw [if_neg h2, if_neg h2]

end SaphyrVerif.Lemmas.C17
