import SaphyrVerif.Lemmas.E2EBudgetRel
import SaphyrVerif.Lemmas.CurSimTac
/-!
End-to-end composition with the budget enforcer, part 3: proof automation for the pass over the typed
deserializer (the twin of `Lemmas/CurSimTac.lean` / `CurSimDe.lean` for the relation `BR`), the statement `BA`
for all functions of the mutual block at one fuel value, and the lemmas for the non-recursive leaves.
-/
namespace SaphyrVerif.Lemmas.E2EBudget
open SaphyrVerif SaphyrVerif.Scalars SaphyrVerif.Pump SaphyrVerif.Budget SaphyrVerif.De
open SaphyrVerif.Lemmas.CurSim (newestCallEq)

set_option linter.unusedSimpArgs false
set_option linter.unusedVariables false

open Lean Elab Tactic Meta in
/-- advance the budgeted cursor and its stripped twin: for a hypothesis `P.Inv c` such that `c.next` (or
`c.peek`) occurs in the goal, distinguish the three outcomes of the primitive (same answer / same error /
breach) and rewrite both calls; if some `match` on the call distinguishes the delivered event, distinguish the
event kinds so that both sides take the same branch -/
elab "b_step" : tactic => withMainContext do
  let tgt ← instantiateMVars (← getMainTarget)
  let env ← getEnv
  for ldecl in (← getLCtx) do
    if ldecl.isImplementationDetail then continue
    let ty ← instantiateMVars ldecl.type
    if ty.isAppOfArity ``BP.Inv 2 then
      let c := ty.getArg! 1
      for (op, lem) in [(``SaphyrVerif.De.Cur.next, ``Closed.next_cases), (``SaphyrVerif.De.Cur.peek, ``Closed.peek_cases)] do
        let t := mkApp (mkConst op) c
        if (tgt.find? (· == t)).isSome then
          let inspected := (tgt.find? fun e =>
            match e.getAppFn with
            | .const n _ =>
              match Lean.Meta.getMatcherInfoCore? env n with
              | some info =>
                let args := e.getAppArgs
                let pos := info.getFirstDiscrPos
                pos < args.size && args[pos]! == t && info.altNumParams != #[2, 2]
              | none => false
            | _ => false).isSome
          let direct := (tgt.find? fun e =>
            match e.getAppFn with
            | .const n _ =>
              match Lean.Meta.getMatcherInfoCore? env n with
              | some info =>
                let args := e.getAppArgs
                let pos := info.getFirstDiscrPos
                pos < args.size && args[pos]! == t
              | none => false
            | _ => false).isSome
          let hstx ← Term.exprToSyntax ldecl.toExpr
          if inspected || !direct then
            evalTactic (← `(tactic| (
              have hx := $(mkIdent lem) ‹Closed _› $hstx
              rcases hx with ⟨o, _, h1, h2, _⟩ | ⟨_, _, h1, h2⟩ | ⟨_, _, h1, hab, _, _⟩ <;>
                first
                | (rw [h1, h2]
                   clear h1 h2
                   try (rcases o with _ | (_ | _ | _ | _ | _)))
                | (have _ := hab
                   rw [h1]
                   clear h1))))
          else
            evalTactic (← `(tactic| (
              have hx := $(mkIdent lem) ‹Closed _› $hstx
              rcases hx with ⟨_, _, h1, h2, _⟩ | ⟨_, _, h1, h2⟩ | ⟨_, _, h1, hab, _, _⟩ <;>
                first
                | (rw [h1, h2]
                   clear h1 h2)
                | (have _ := hab
                   rw [h1]
                   clear h1))))
          return
  throwError "b_step: no cursor operation to advance"


/-- transport a successful call on the budgeted side (`h : f … c = .ok a d`, produced by `split`) to the
stripped side; `prf` is the `BR` fact for that call -/
macro "bfwd_ok " h:term ", " prf:term : tactic =>
  `(tactic| (
    have hx := BR.fwd_ok $h $prf
    obtain ⟨h2, _⟩ := hx
    rw [h2]
    clear h2))

/-- close a goal whose budgeted side has been reduced to the breach error -/
macro "b_breach" : tactic =>
  `(tactic| first
    | exact BR.breach ‹_› ‹budgetish _› ‹noSyn _›
    | exact BR.breach ‹_› (budgetish_attach ‹budgetish _› _ _) ‹noSyn _›
    | exact BR.breach ‹_› (budgetish_ite ‹budgetish _› _ _ _) ‹noSyn _›)

/-- transport a failed call: the stripped side fails alike, or the failure is a breach (and the goal is closed) -/
macro "bfwd_err " h:term ", " prf:term : tactic =>
  `(tactic| (
    have hx := BR.fwd_err $h $prf
    rcases hx with h2 | ⟨_, _, _⟩ <;>
      first
      | (rw [h2]
         clear h2)
      | b_breach))

/-- both sides failed alike, or both succeeded with the same value and the invariant holds, or breach -/
macro "bleaf_close" : tactic =>
  `(tactic| first
    | with_reducible exact BR.err
    | with_reducible exact BR.ok (by assumption)
    | b_breach)

macro "b_simp0" : tactic =>
  `(tactic| simp only [*, ↓reduceIte, Bool.false_eq_true, strip_lastLoc, strip_refLoc, strip_atAlias, strip_eofErr, strip_replay])

theorem takeStringScalar_br {P : BP} (hcl : Closed P) (cfg : Cfg) {c : Cur} (hi : P.Inv c) :
    BR P (takeStringScalar cfg c) (takeStringScalar cfg (strip c)) := by
  unfold takeStringScalar
  repeat' (first | bleaf_close | b_step | b_simp0 | split)

open Lean Elab Tactic Meta in
elab "bleaf_fwd" : tactic => do
  let some (n, isOk, h) ← newestCallEq | throwError "bleaf_fwd: no call"
  unless n == ``SaphyrVerif.De.takeStringScalar do throwError "bleaf_fwd: no rule"
  if isOk then evalTactic (← `(tactic| bfwd_ok $h, (takeStringScalar_br ‹Closed _› _ (by assumption))))
  else evalTactic (← `(tactic| bfwd_err $h, (takeStringScalar_br ‹Closed _› _ (by assumption))))

macro "bleaf_loop" : tactic =>
  `(tactic| repeat' (first | bleaf_close | b_step | b_simp0 | (split <;> try bleaf_fwd)))

theorem deserString_br {P : BP} (hcl : Closed P) (cfg : Cfg) {c : Cur} (hi : P.Inv c) :
    BR P (deserString cfg c) (deserString cfg (strip c)) := by
  unfold deserString
  bleaf_loop

open Lean Elab Tactic Meta in
elab "bleaf_fwd2" : tactic => do
  let some (n, isOk, h) ← newestCallEq | throwError "bleaf_fwd: no call"
  unless n == ``SaphyrVerif.De.deserString do throwError "bleaf_fwd: no rule"
  if isOk then evalTactic (← `(tactic| bfwd_ok $h, (deserString_br ‹Closed _› _ (by assumption))))
  else evalTactic (← `(tactic| bfwd_err $h, (deserString_br ‹Closed _› _ (by assumption))))

theorem deserStr_br {P : BP} (hcl : Closed P) (cfg : Cfg) {c : Cur} (hi : P.Inv c) :
    BR P (deserStr cfg c) (deserStr cfg (strip c)) := by
  unfold deserStr
  repeat' (first | bleaf_close | b_step | b_simp0 | (split <;> try bleaf_fwd2))

theorem deserAnyScalar_br {P : BP} (hcl : Closed P) (cfg : Cfg) (v : List Char) (tag : Nat) (st : Style) (l : Loc)
    {c : Cur} (hi : P.Inv c) : BR P (deserAnyScalar cfg c v tag st l) (deserAnyScalar cfg (strip c) v tag st l) := by
  unfold deserAnyScalar
  bleaf_loop

theorem byteSeqVisit_br {P : BP} (hcl : Closed P) (shape : Ty ⊕ List Ty) (data : List Nat) {c : Cur} (hi : P.Inv c) :
    BR P (byteSeqVisit shape data c) (byteSeqVisit shape data (strip c)) := by
  unfold byteSeqVisit
  bleaf_loop

theorem structFinish_br {P : BP} (hcl : Closed P) (fields : List (String × Ty)) (got : List (String × Val)) {c : Cur}
    (hi : P.Inv c) : BR P (structFinish fields got c) (structFinish fields got (strip c)) := by
  unfold structFinish
  bleaf_loop

theorem deserScalarTyped_br {P : BP} (hcl : Closed P) (cfg : Cfg) (ty : Ty) {c : Cur} (hi : P.Inv c) :
    BR P (deserScalarTyped cfg ty c) (deserScalarTyped cfg ty (strip c)) := by
  cases ty
  case char =>
    unfold deserScalarTyped
    rcases hcl.peek_cases hi with ⟨o1, d1, hp, hp', hi1⟩ | ⟨e, d, hp, hp'⟩ | ⟨e, d, hp, hab, hb, hns⟩
    · simp only [hp, hp']
      rcases o1 with _ | (⟨v, tag, rt, st, a, l⟩ | _ | _ | _ | _)
      case some.scalar =>
        by_cases h1 : (tag != tagString) = true
        · by_cases h2 : (tag == tagNull || scalarIsNullish v st) = true
          · simp only [h1, h2, ↓reduceIte, Bool.false_eq_true]
            bleaf_loop
          · by_cases h3 : (cfg.noSchema && maybeNotString v st) = true
            · simp only [h1, h2, h3, ↓reduceIte, Bool.false_eq_true]
              bleaf_loop
            · simp only [h1, h2, h3, ↓reduceIte, Bool.false_eq_true]
              bleaf_loop
        · simp only [h1, ↓reduceIte, Bool.false_eq_true]
          bleaf_loop
      all_goals
        simp only []
        bleaf_loop
    · simp only [hp, hp']
      bleaf_loop
    · simp only [hp]
      bleaf_loop
  all_goals
    unfold deserScalarTyped
    bleaf_loop

end SaphyrVerif.Lemmas.E2EBudget
