import SaphyrVerif.Lemmas.C19Wf
/-!
C19: the token scanner (`parse_number_or_special` and its helpers) does not depend on what lies BEHIND
the cursor nor on the `depth` counter: the bytes already consumed (`pre`) are only pushed onto, and the
single look-behind (`self.b[self.i - 1]` in the digit loops) is guarded by `self.i > start`, i.e. it only
sees bytes consumed by the same loop.  Hence `Spec.Robotics.TokenOk` (stated for SOME `pre`/`depth`)
holds for EVERY `pre`/`depth`.
-/
set_option linter.unusedSimpArgs false
namespace SaphyrVerif.Lemmas.C19
open SaphyrVerif SaphyrVerif.F64 SaphyrVerif.Robotics SaphyrVerif.Spec.Robotics

theorem advN_pre (n : Nat) (a pre pre2 rest p r : List Nat)
    (h : advN n (a ++ pre) rest = .ok (p, r)) :
    ∃ a', p = a' ++ pre ∧ advN n (a ++ pre2) rest = .ok (a' ++ pre2, r) := by
  induction n generalizing a rest with
  | zero =>
    simp only [advN, HRes.ok.injEq, Prod.mk.injEq] at h
    exact ⟨a, h.1.symm, by simp [advN, h.2]⟩
  | succ n ih =>
    cases rest with
    | nil => simp [advN] at h
    | cons c rest =>
      simp only [advN] at h ⊢
      exact ih (c :: a) rest h

theorem numLoop_pre (eU : RErr) (a pre pre2 rest : List Nat) (k seen : Nat) (bufR : List Nat) (hv : Bool)
    (ns : NumSt) (hk : k ≠ 0 → a ≠ [])
    (h : numLoop eU (a ++ pre) rest k seen bufR hv = .ok ns) :
    ∃ a', ns.pre = a' ++ pre ∧
      numLoop eU (a ++ pre2) rest k seen bufR hv = .ok { ns with pre := a' ++ pre2 } := by
  induction rest generalizing a k seen bufR hv with
  | nil =>
    simp only [numLoop, HRes.ok.injEq] at h
    subst h
    exact ⟨a, rfl, by simp [numLoop]⟩
  | cons c r ih =>
    unfold numLoop at h ⊢
    split at h
    · rename_i hc
      simp only [hc, ↓reduceIte]
      split at h
      · cases h
      · rename_i hcap
        simp only [hcap, ↓reduceIte]
        exact ih (c :: a) (k + 1) (seen + 1) (c :: bufR) true (by simp) h
    · rename_i hc
      simp only [hc, Bool.false_eq_true, ↓reduceIte]
      split at h
      · rename_i hu
        simp only [hu, ↓reduceIte]
        have hp : prevIsDigit (a ++ pre2) k = prevIsDigit (a ++ pre) k := by
          unfold prevIsDigit
          split
          · rfl
          · rename_i hk0
            have := hk (by simpa using hk0)
            cases a with
            | nil => exact absurd rfl this
            | cons x a0 => rfl
        rw [hp]
        split at h
        · rename_i p hpd
          split at h
          · cases h
          · rename_i hcond
            simp only [hcond, Bool.false_eq_true, ↓reduceIte]
            split at h
            · cases h
            · rename_i hcap
              simp only [hcap, ↓reduceIte]
              exact ih (c :: a) (k + 1) seen bufR hv (by simp) h
        · cases h
        · cases h
      · rename_i hu
        simp only [hu, Bool.false_eq_true, ↓reduceIte]
        simp only [HRes.ok.injEq] at h
        subst h
        exact ⟨a, rfl, rfl⟩

theorem readUint_pre (a pre pre2 rest : List Nat) (v : Fl) (d : Nat) (p : Bool)
    (p' r' : List Nat) (v' : Fl) (d' : Nat)
    (h : readUint (a ++ pre) rest v d p = .ok (p', r', v', d')) :
    ∃ a', p' = a' ++ pre ∧ readUint (a ++ pre2) rest v d p = .ok (a' ++ pre2, r', v', d') := by
  induction rest generalizing a v d p with
  | nil =>
    unfold readUint at h ⊢
    split at h
    · cases h
    · rename_i hd
      simp only [hd, Bool.false_eq_true, ↓reduceIte]
      simp only [HRes.ok.injEq, Prod.mk.injEq] at h
      obtain ⟨h1, h2, h3, h4⟩ := h
      subst h1 h2 h3 h4
      exact ⟨a, rfl, rfl⟩
  | cons c r ih =>
    unfold readUint at h ⊢
    split at h
    · rename_i hc
      simp only [hc, ↓reduceIte]
      split at h
      · cases h
      · rename_i hcap
        simp only [hcap, ↓reduceIte]
        exact ih (c :: a) _ _ _ h
    · rename_i hc
      simp only [hc, Bool.false_eq_true, ↓reduceIte]
      split at h
      · rename_i hu
        simp only [hu, ↓reduceIte]
        split at h
        · cases h
        · rename_i hcond
          simp only [hcond, Bool.false_eq_true, ↓reduceIte]
          split at h
          · cases h
          · rename_i hcap
            simp only [hcap, ↓reduceIte]
            exact ih (c :: a) _ _ _ h
      · rename_i hu
        simp only [hu, Bool.false_eq_true, ↓reduceIte]
        split at h
        · cases h
        · rename_i hd
          simp only [hd, Bool.false_eq_true, ↓reduceIte]
          simp only [HRes.ok.injEq, Prod.mk.injEq] at h
          obtain ⟨h1, h2, h3, h4⟩ := h
          subst h1 h2 h3 h4
          exact ⟨a, rfl, rfl⟩

theorem readU32_pre (a pre pre2 rest : List Nat) (p' r' : List Nat) (v' d' : Nat)
    (h : readU32 (a ++ pre) rest = .ok (p', r', v', d')) :
    ∃ a', p' = a' ++ pre ∧ readU32 (a ++ pre2) rest = .ok (a' ++ pre2, r', v', d') := by
  unfold readU32 at h ⊢
  split at h
  · rename_i p1 r1 v1 d1 hu
    obtain ⟨a', ha, hu2⟩ := readUint_pre a pre pre2 rest _ _ _ _ _ _ _ hu
    rw [hu2]
    simp only []
    split at h
    · cases h
    · rename_i hg
      simp only [hg, Bool.false_eq_true, ↓reduceIte]
      simp only [HRes.ok.injEq, Prod.mk.injEq] at h
      obtain ⟨h1, h2, h3, h4⟩ := h
      subst h1 h2 h3 h4
      exact ⟨a', ha, rfl⟩
  · cases h
  · cases h

theorem readFrac_pre (a pre pre2 rest : List Nat) (num sc : Fl) (d : Nat) (p : Bool)
    (p' r' : List Nat) (v' : Fl) (d' : Nat)
    (h : readFrac (a ++ pre) rest num sc d p = .ok (p', r', v', d')) :
    ∃ a', p' = a' ++ pre ∧ readFrac (a ++ pre2) rest num sc d p = .ok (a' ++ pre2, r', v', d') := by
  induction rest generalizing a num sc d p with
  | nil =>
    unfold readFrac at h ⊢
    split at h
    · cases h
    · rename_i hd
      simp only [hd, Bool.false_eq_true, ↓reduceIte]
      simp only [HRes.ok.injEq, Prod.mk.injEq] at h
      obtain ⟨h1, h2, h3, h4⟩ := h
      subst h1 h2 h3 h4
      exact ⟨a, rfl, rfl⟩
  | cons c r ih =>
    unfold readFrac at h ⊢
    split at h
    · rename_i hc
      simp only [hc, ↓reduceIte]
      simp only [] at h
      split at h
      · cases h
      · rename_i hcap
        simp only [hcap, ↓reduceIte]
        exact ih (c :: a) _ _ _ _ h
    · rename_i hc
      simp only [hc, Bool.false_eq_true, ↓reduceIte]
      split at h
      · rename_i hu
        simp only [hu, ↓reduceIte]
        split at h
        · cases h
        · rename_i hcond
          simp only [hcond, Bool.false_eq_true, ↓reduceIte]
          split at h
          · cases h
          · rename_i hcap
            simp only [hcap, ↓reduceIte]
            exact ih (c :: a) _ _ _ _ h
      · rename_i hu
        simp only [hu, Bool.false_eq_true, ↓reduceIte]
        split at h
        · cases h
        · rename_i hd
          simp only [hd, Bool.false_eq_true, ↓reduceIte]
          simp only [HRes.ok.injEq, Prod.mk.injEq] at h
          obtain ⟨h1, h2, h3, h4⟩ := h
          subst h1 h2 h3 h4
          exact ⟨a, rfl, rfl⟩

theorem numFrac_pre (a pre pre2 : List Nat) (n1 n2 : NumSt) (hp : n1.pre = a ++ pre)
    (h : numFrac n1 = .ok n2) :
    ∃ a', n2.pre = a' ++ pre ∧ numFrac { n1 with pre := a ++ pre2 } = .ok { n2 with pre := a' ++ pre2 } := by
  unfold numFrac at h ⊢
  simp only []
  split at h
  · rename_i r heq
    rw [hp] at h
    exact numLoop_pre _ (46 :: a) pre pre2 r 0 _ _ _ n2 (by simp) h
  · rename_i hne
    simp only [HRes.ok.injEq] at h
    subst h
    exact ⟨a, hp, rfl⟩

theorem numExp_pre (a pre pre2 : List Nat) (n2 n3 : NumSt) (hp : n2.pre = a ++ pre)
    (h : numExp n2 = .ok n3) :
    ∃ a', n3.pre = a' ++ pre ∧ numExp { n2 with pre := a ++ pre2 } = .ok { n3 with pre := a' ++ pre2 } := by
  unfold numExp at h ⊢
  simp only []
  split at h
  · rename_i c r heq
    split at h
    · rename_i hc
      simp only [] at h ⊢
      -- the exponent marker and its sign are pushed onto `pre`
      have hem : ∃ b, (expMarker c n2.pre r n2.bufR).1 = b ++ pre ∧
          (expMarker c (a ++ pre2) r n2.bufR).1 = b ++ pre2 ∧
          (expMarker c (a ++ pre2) r n2.bufR).2 = (expMarker c n2.pre r n2.bufR).2 := by
        rw [hp]
        unfold expMarker
        split
        · split
          · exact ⟨_ :: c :: a, rfl, rfl, rfl⟩
          · exact ⟨c :: a, rfl, rfl, rfl⟩
        · exact ⟨c :: a, rfl, rfl, rfl⟩
      obtain ⟨b, hb1, hb2, hb3⟩ := hem
      split at h
      · rename_i n3' hn
        split at h
        · cases h
        · rename_i hhd
          simp only [HRes.ok.injEq] at h
          subst h
          rw [hb1] at hn
          obtain ⟨a', ha', hn'⟩ := numLoop_pre _ b pre pre2 _ 0 _ _ _ n3' (by simp) hn
          refine ⟨a', ha', ?_⟩
          have e1 : (expMarker c (a ++ pre2) r n2.bufR).2.1 = (expMarker c n2.pre r n2.bufR).2.1 := by rw [hb3]
          have e2 : (expMarker c (a ++ pre2) r n2.bufR).2.2 = (expMarker c n2.pre r n2.bufR).2.2 := by rw [hb3]
          rw [hb2, e1, e2, hn']
          simp only [hhd, hc, Bool.false_eq_true, ↓reduceIte]
      · cases h
      · cases h
    · rename_i hc
      simp only [hc, Bool.false_eq_true, ↓reduceIte]
      simp only [HRes.ok.injEq] at h
      subst h
      exact ⟨a, hp, rfl⟩
  · rename_i heq
    simp only [HRes.ok.injEq] at h
    subst h
    exact ⟨a, hp, by rw [heq]⟩

theorem Res.ok_bind {α β} (a : α) (g : α → Res β) : (Res.ok a).bind g = g a := rfl
theorem lift_ok_eq {α} (d : Nat) (a : α) : HRes.lift d (HRes.ok a) = Res.ok a := rfl

/-- same outcome of `try_parse_sexagesimal` up to `pre` / `depth` -/
def SexRel (d2 : Nat) (tm : Bool) (o o2 : Option (Eval × St)) : Prop :=
  match o with
  | none => o2 = none
  | some (ev, st') => ∃ p2, o2 = some (ev, ⟨p2, st'.rest, d2, tm⟩)

theorem trySexagesimal_pre (tag : Nat) (pre pre2 rest : List Nat) (d d2 : Nat) (tm : Bool)
    (o : Option (Eval × St)) (h : trySexagesimal tag ⟨pre, rest, d, tm⟩ = .ok o) :
    ∃ o2, trySexagesimal tag ⟨pre2, rest, d2, tm⟩ = .ok o2 ∧ SexRel d2 tm o o2 := by
  have none_ok : SexRel d2 tm none none := rfl
  unfold trySexagesimal at h ⊢
  simp only [] at h ⊢
  split at h
  · rename_i hc
    cases h; exact ⟨none, by rw [if_pos hc], none_ok⟩
  rename_i hc
  rw [if_neg hc]
  split at h
  · rename_i hc2
    cases h; exact ⟨none, by rw [if_pos hc2], none_ok⟩
  rename_i hc2
  rw [if_neg hc2]
  obtain ⟨⟨pre1, rest1, degWhole, d1⟩, hu, h⟩ := bind_ok h
  obtain ⟨a1, hp1, hu2⟩ := readUint_pre [] pre pre2 rest _ _ _ _ _ _ _ (hlift_ok hu)
  simp only [List.nil_append] at hu2
  rw [hu2]
  simp only [lift_ok_eq, Res.ok_bind] at h ⊢
  split at h
  · rename_i rest1'
    obtain ⟨⟨pre2', rest2, minsU, dd2⟩, hm, h⟩ := bind_ok h
    rw [hp1] at hm
    obtain ⟨a2, hp2, hm2⟩ := readU32_pre (58 :: a1) pre pre2 rest1' _ _ _ _ (hlift_ok hm)
    simp only [List.cons_append] at hm2
    rw [hm2]
    simp only [lift_ok_eq, Res.ok_bind] at h ⊢
    split at h
    · cases h
    · rename_i hmr
      rw [if_neg hmr]
      obtain ⟨⟨preE, restE, secs, total⟩, ht, h⟩ := bind_ok h
      simp only [] at h
      -- the end: same for every `preE`
      have fin : ∀ pE2 : List Nat, ∃ o2,
          (if MAX_NUM_DIGITS < total then (St.err ⟨pre2, rest, d2, tm⟩ .tooManyDigitsSexa : Res (Option (Eval × St)))
          else
            if tm = true then
              if (tag == TAG_DEGREES || tag == TAG_RADIANS) = true then
                .ok (some ((mul F (add F (add F degWhole (div F (ofNat F minsU) SIXTY)) (div F secs C3600)) DEG2RAD,
                  true, false), ⟨pE2, restE, d2, tm⟩))
              else .ok (some ((add F (add F (mul F degWhole C3600) (mul F (ofNat F minsU) SIXTY)) secs, true, false),
                  ⟨pE2, restE, d2, tm⟩))
            else if (tag == TAG_TIMESTAMP) = true then
              .ok (some ((add F (add F (mul F degWhole C3600) (mul F (ofNat F minsU) SIXTY)) secs, true, false),
                  ⟨pE2, restE, d2, tm⟩))
            else .ok (some ((add F (add F degWhole (div F (ofNat F minsU) SIXTY)) (div F secs C3600), true, false),
                  ⟨pE2, restE, d2, tm⟩))) = .ok o2 ∧ SexRel d2 tm o o2 := by
        intro pE2
        split at h
        · cases h
        · rename_i htot
          rw [if_neg htot]
          split at h
          · rename_i htm
            rw [if_pos htm]
            split at h
            · rename_i htag; rw [if_pos htag]; cases h; exact ⟨_, rfl, _, rfl⟩
            · rename_i htag; rw [if_neg htag]; cases h; exact ⟨_, rfl, _, rfl⟩
          · rename_i htm
            rw [if_neg htm]
            split at h
            · rename_i htag; rw [if_pos htag]; cases h; exact ⟨_, rfl, _, rfl⟩
            · rename_i htag; rw [if_neg htag]; cases h; exact ⟨_, rfl, _, rfl⟩
      rw [hp2] at ht
      split at ht
      · rename_i rest2'
        obtain ⟨⟨pre3, rest3, secsU, d3⟩, hs, ht⟩ := bind_ok ht
        obtain ⟨a3, hp3, hs2⟩ := readU32_pre (58 :: a2) pre pre2 rest2' _ _ _ _ (hlift_ok hs)
        simp only [List.cons_append] at hs2
        rw [hs2]
        simp only [lift_ok_eq, Res.ok_bind] at ht ⊢
        split at ht
        · cases ht
        · rename_i hsr
          rw [if_neg hsr]
          split at ht
          · rename_i rest3'
            obtain ⟨⟨pre4, rest4, frac, df⟩, hf, ht⟩ := bind_ok ht
            rw [hp3] at hf
            obtain ⟨a4, hp4, hf2⟩ := readFrac_pre (46 :: a3) pre pre2 rest3' _ _ _ _ _ _ _ _ (hlift_ok hf)
            simp only [List.cons_append] at hf2
            rw [hf2]
            simp only [lift_ok_eq, Res.ok_bind, Res.ok.injEq, Prod.mk.injEq] at ht ⊢
            obtain ⟨_, h2, h3, h4⟩ := ht
            subst h2 h3 h4
            exact fin _
          · simp only [Res.ok.injEq, Prod.mk.injEq] at ht
            obtain ⟨_, h2, h3, h4⟩ := ht
            subst h2 h3 h4
            simp only [Res.ok_bind]
            exact fin _
      · simp only [Res.ok.injEq, Prod.mk.injEq] at ht
        obtain ⟨_, h2, h3, h4⟩ := ht
        subst h2 h3 h4
        simp only [Res.ok_bind]
        exact fin _
  · cases h
    exact ⟨none, rfl, none_ok⟩

theorem take_prefix (a pre : List Nat) : (a ++ pre).take ((a ++ pre).length - pre.length) = a := by
  simp

/-- `parse_number_or_special` succeeds in the same way whatever lies behind the cursor and whatever the
`depth` counter is. -/
theorem parseNumberOrSpecial_pre (tag : Nat) (pre pre2 rest : List Nat) (d d2 : Nat) (tm : Bool)
    (ev : Eval) (st' : St) (h : parseNumberOrSpecial tag ⟨pre, rest, d, tm⟩ = .ok (ev, st')) :
    ∃ p2, parseNumberOrSpecial tag ⟨pre2, rest, d2, tm⟩ = .ok (ev, ⟨p2, st'.rest, d2, tm⟩) := by
  unfold parseNumberOrSpecial at h ⊢
  simp only [] at h ⊢
  split at h
  · rename_i hs
    rw [if_pos hs]
    obtain ⟨⟨p, r⟩, ha, h⟩ := bind_ok h
    obtain ⟨a', _, ha2⟩ := advN_pre 4 [] pre pre2 rest p r (hlift_ok ha)
    simp only [List.nil_append] at ha2
    rw [ha2]
    simp only [lift_ok_eq, Res.ok_bind]
    cases h
    exact ⟨_, rfl⟩
  rename_i hs
  rw [if_neg hs]
  split at h
  · rename_i hs2
    rw [if_pos hs2]
    obtain ⟨⟨p, r⟩, ha, h⟩ := bind_ok h
    obtain ⟨a', _, ha2⟩ := advN_pre 4 [] pre pre2 rest p r (hlift_ok ha)
    simp only [List.nil_append] at ha2
    rw [ha2]
    simp only [lift_ok_eq, Res.ok_bind]
    cases h
    exact ⟨_, rfl⟩
  rename_i hs2
  rw [if_neg hs2]
  obtain ⟨sx, hsx, h⟩ := bind_ok h
  obtain ⟨o2, hsx2, hrel⟩ := trySexagesimal_pre tag pre pre2 rest d d2 tm sx hsx
  rw [hsx2]
  simp only [Res.ok_bind]
  cases sx with
  | some res =>
    obtain ⟨ev1, st1⟩ := res
    obtain ⟨p2, hp2⟩ := hrel
    subst hp2
    simp only [Res.ok.injEq, Prod.mk.injEq] at h
    obtain ⟨h1, h2⟩ := h
    subst h1 h2
    exact ⟨p2, rfl⟩
  | none =>
    have : o2 = none := hrel
    subst this
    simp only [] at h ⊢
    obtain ⟨n1, hn1, h⟩ := bind_ok h
    obtain ⟨a1, hp1, hn1'⟩ := numLoop_pre _ [] pre pre2 rest 0 0 [] false n1 (by simp) (hlift_ok hn1)
    simp only [List.nil_append] at hn1'
    rw [hn1']
    simp only [lift_ok_eq, Res.ok_bind]
    obtain ⟨n2, hn2, h⟩ := bind_ok h
    obtain ⟨a2, hp2, hn2'⟩ := numFrac_pre a1 pre pre2 n1 n2 hp1 (hlift_ok hn2)
    rw [hn2']
    simp only [lift_ok_eq, Res.ok_bind]
    obtain ⟨n3, hn3, h⟩ := bind_ok h
    obtain ⟨a3, hp3, hn3'⟩ := numExp_pre a2 pre pre2 n2 n3 hp2 (hlift_ok hn3)
    have hn3'' : numExp { pre := a2 ++ pre2, rest := n2.rest, seen := n2.seen, bufR := n2.bufR, hadDigit := n2.hadDigit } =
        .ok { n3 with pre := a3 ++ pre2 } := hn3'
    rw [hn3'']
    simp only [lift_ok_eq, Res.ok_bind]
    split at h
    · rename_i hemp
      rw [if_pos hemp]
      split at h
      · cases h
      · rename_i hb
        rw [if_neg hb]
        rw [hp3, take_prefix] at h
        rw [take_prefix]
        split at h
        · rename_i v hv
          cases h
          exact ⟨_, rfl⟩
        · cases h
    · rename_i hemp
      rw [if_neg hemp]
      split at h
      · rename_i v hv
        cases h
        exact ⟨_, rfl⟩
      · cases h

/-- `TokenOk` holds for every `pre` and `depth`, not just for some. -/
theorem TokenOk.any {tag : Nat} {tm : Bool} {tok k : List Nat} {ev : Eval} (h : TokenOk tag tm tok k ev)
    (pre : List Nat) (d : Nat) :
    ∃ pre', parseNumberOrSpecial tag ⟨pre, tok ++ k, d, tm⟩ = .ok (ev, ⟨pre', k, d, tm⟩) := by
  obtain ⟨_, p0, d0, p0', hp⟩ := h
  exact parseNumberOrSpecial_pre tag p0 pre (tok ++ k) d0 d tm ev _ hp

end SaphyrVerif.Lemmas.C19
