import SaphyrVerif.Lemmas.CurSimA
import SaphyrVerif.Lemmas.CurSimB
import SaphyrVerif.Lemmas.CurSimC
import SaphyrVerif.Lemmas.CurSimD
import SaphyrVerif.Lemmas.CurSimE
/-!
Cursor simulation, part 3: the induction on the fuel — every function of the mutual block of
`Model/De.lean` cannot tell apart two cursors that serve the same events.
-/
namespace SaphyrVerif.Lemmas.CurSim
open SaphyrVerif SaphyrVerif.Scalars SaphyrVerif.Pump SaphyrVerif.De

theorem simA : ∀ fuel, SimA fuel
  | 0 => by
    constructor
    · intro c c' _; rw [De.capture, De.capture]; exact RV.err
    · intro fps evs c c' _; rw [De.captureSeq, De.captureSeq]; exact RV.err
    · intro fps evs c c' _; rw [De.captureMap, De.captureMap]; exact RV.err
    · intro events loc loc' ref ref'; rw [De.pendingFromEvents, De.pendingFromEvents]; exact EV.err
    · intro b b' c c' _ _; rw [De.mergeSeqBatches, De.mergeSeqBatches]; exact RV.err
    · intro r r' c c' _; rw [De.pendingFromLive, De.pendingFromLive]; exact RV.err
    · intro r r' c c' _; rw [De.collectEntriesFromMap, De.collectEntriesFromMap]; exact RV.err
    · intro r r' f f' m m' c c' _ _ _; rw [De.collectLoop, De.collectLoop]; exact RV.err
    · intro c c' _; rw [De.skipOneNode, De.skipOneNode]; exact RV.err
    · intro d c c' _; rw [De.skipDepth, De.skipDepth]; exact RV.err
    · intro cfg ty ik km c c' _; rw [De.deser, De.deser]; exact RV.err
    · intro cfg acc c c' _; rw [De.bytesLoop, De.bytesLoop]; exact RV.err
    · intro cfg shape c c' _; rw [De.deserSeqLike, De.deserSeqLike]; exact RV.err
    · intro cfg t acc c c' _; rw [De.seqElems, De.seqElems]; exact RV.err
    · intro cfg ts acc c c' _; rw [De.tupleElems, De.tupleElems]; exact RV.err
    · intro cfg shape c c' _; rw [De.deserMapLike, De.deserMapLike]; exact RV.err
    · intro cfg kt vt acc c c' m m' _ _; rw [De.mapEntries, De.mapEntries]; exact RV.err
    · intro cfg fields deny acc c c' m m' _ _; rw [De.structEntries, De.structEntries]; exact RV.err
    · intro cfg ks c c' m m' _ _; rw [De.nextKey, De.nextKey]; exact RV.err
    · intro cfg vt c c' m m' _ _; rw [De.nextValue, De.nextValue]; exact RV.err
    · intro cfg name variants c c' _; rw [De.deserEnum, De.deserEnum]; exact RV.err
    · intro depth acc c c' _; rw [De.collectTaggedSeq, De.collectTaggedSeq]; exact RV.err
    · intro cfg variants vname vloc mapMode tagged c c' _; rw [De.variantPayload, De.variantPayload]; exact RV.err
  | fuel + 1 =>
    have ih := simA fuel
    { capture := capture_simStep ih
      captureSeq := captureSeq_simStep ih
      captureMap := captureMap_simStep ih
      pendingFromEvents := pendingFromEvents_simStep ih
      mergeSeqBatches := mergeSeqBatches_simStep ih
      pendingFromLive := pendingFromLive_simStep ih
      collectEntriesFromMap := collectEntriesFromMap_simStep ih
      collectLoop := collectLoop_simStep ih
      skipOneNode := skipOneNode_simStep ih
      skipDepth := skipDepth_simStep ih
      deser := deser_simStep ih
      bytesLoop := bytesLoop_simStep ih
      deserSeqLike := deserSeqLike_simStep ih
      seqElems := seqElems_simStep ih
      tupleElems := tupleElems_simStep ih
      deserMapLike := deserMapLike_simStep ih
      mapEntries := mapEntries_simStep ih
      structEntries := structEntries_simStep ih
      nextKey := nextKey_simStep ih
      nextValue := nextValue_simStep ih
      deserEnum := deserEnum_simStep ih
      collectTaggedSeq := collectTaggedSeq_simStep ih
      variantPayload := variantPayload_simStep ih }

#print axioms simA

end SaphyrVerif.Lemmas.CurSim
