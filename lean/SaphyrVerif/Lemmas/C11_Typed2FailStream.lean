import SaphyrVerif.Lemmas.C11_Typed2FailDoc
/-!
Typed multi-document theorems (C11), continued — part 10: a stream `pre ++ dk :: post` whose document `dk` makes
the pump fail (dangling alias, budget breach, …) while the documents of `pre` and `post` are served.
-/
namespace SaphyrVerif.Lemmas.C11B
open SaphyrVerif SaphyrVerif.Scalars SaphyrVerif.Pump SaphyrVerif.De SaphyrVerif.Spec SaphyrVerif.Budget SaphyrVerif.Entry
open SaphyrVerif.Lemmas.C11 (Doc docsItems)
open SaphyrVerif.Lemmas.C11T (Item sameItem sameItems peek_congr iterLoop_congr docsItems_cons)

/-- a start state reached by the recovery, seen as a document boundary in front of the marker it has consumed -/
theorem start_as_boundary {L : AliasLimits} {ob : Option Limits}
    {ls : Loc} {q4 : Pump} (hs4 : StartB L ob ls q4) (ex : Bool) (Z : List RawItem) :
    BoundaryB L ob q4 ∧ Cur.peek (.live q4 Z) = Cur.peek (.live q4 (.ev (.docStart ex) ls :: Z)) := by
  obtain ⟨hb4, hq4⟩ := start_readd hs4
  refine ⟨hb4, ?_⟩
  symm
  apply peek_congr hs4.look hs4.look
  rw [step_docStartB hb4 ex ls, hq4]

/-- the iterator over a PREFIX of served documents: their items, then it stands at the next document -/
theorem iter_docsB_prefix {L : AliasLimits} {ob : Option Limits}
    (cfg : Cfg) (ty : Ty) (N : Nat) (exk : Bool) (lsk : Loc) (Z : List RawItem) :
    ∀ (ds : List Doc) (evss : List (List Ev)) (q : Pump) (fuel : Nat) (acc its : List Item) (k : Nat),
      DocsServe L ob ds evss → BoundaryB L ob q → q.look = none →
      streamSpec cfg ty N evss = some (its, k) → k ≤ fuel →
      ∃ items q2, BoundaryB L ob q2 ∧ q2.look = none ∧
        iterLoop cfg ty fuel q (docsItems ds ++ .ev (.docStart exk) lsk :: Z) acc =
          iterLoop cfg ty (fuel - k) q2 (.ev (.docStart exk) lsk :: Z) (acc ++ items) ∧
        sameItems items its := by
  intro ds
  induction ds with
  | nil =>
    intro evss q fuel acc its k hds hq hl hspec _
    cases evss with
    | cons _ _ => exact hds.elim
    | nil =>
      simp only [streamSpec, Option.some.injEq, Prod.mk.injEq] at hspec
      obtain ⟨rfl, rfl⟩ := hspec
      exact ⟨[], q, hq, hl, by simp [docsItems], .nil⟩
  | cons d ds ih =>
    intro evss q fuel acc its k hds hq hl hspec hf
    cases evss with
    | nil => exact hds.elim
    | cons evs evss' =>
      obtain ⟨hd, hrest⟩ := hds
      simp only [streamSpec] at hspec
      cases hr : docSpec cfg ty N evs with
      | none => rw [hr] at hspec; cases hspec
      | some r =>
        rw [hr] at hspec
        cases hr2 : streamSpec cfg ty N evss' with
        | none => rw [hr2] at hspec; cases hspec
        | some r2 =>
          obtain ⟨its2, k2⟩ := r2
          rw [hr2] at hspec
          simp only [Option.some.injEq, Prod.mk.injEq] at hspec
          obtain ⟨rfl, rfl⟩ := hspec
          obtain ⟨t, ex, ls, le⟩ := d
          have hdoc := iter_docB hd hq hl le (docsItems ds ++ .ev (.docStart exk) lsk :: Z) cfg ty N r hr
          rw [docsItems_cons]
          obtain ⟨its', hsame, hT, hF⟩ := hdoc
          obtain ⟨m, rfl⟩ : ∃ m, fuel = m + r.2.2 := ⟨fuel - r.2.2, by omega⟩
          have hm : k2 ≤ m := by omega
          have hfu : m + r.2.2 - (r.2.2 + k2) = m - k2 := by omega
          rw [hfu]
          cases hended : r.2.1 with
          | true =>
            obtain ⟨q2, hb2, hl2, hp2, hf2, heq⟩ := hT hended
            obtain ⟨items, q3, hb3, hl3, hi, hsame2⟩ := ih evss' q2 m (acc ++ its') its2 k2 hrest hb2 hl2 hr2 hm
            exact ⟨its' ++ items, q3, hb3, hl3, by rw [heq, hi, List.append_assoc], sameItems.append hsame hsame2⟩
          | false =>
            obtain ⟨-, h2⟩ := hF hended
            have hnext : ∃ ex2 ls2 Y2, docsItems ds ++ .ev (.docStart exk) lsk :: Z = .ev (.docStart ex2) ls2 :: Y2 := by
              cases ds with
              | nil => exact ⟨exk, lsk, Z, by simp [docsItems]⟩
              | cons d2 ds2 =>
                obtain ⟨t2, ex2, ls2, le2⟩ := d2
                exact ⟨ex2, ls2, _, docsItems_cons t2 ex2 ls2 le2 ds2 _⟩
            obtain ⟨ex2, ls2, Y2, hY2⟩ := hnext
            obtain ⟨q4, hs4, hp4, heq⟩ := h2 ex2 ls2 Y2 hY2
            obtain ⟨hb4, hpk4⟩ := start_as_boundary hs4 ex2 Y2
            obtain ⟨items, q3, hb3, hl3, hi, hsame2⟩ := ih evss' q4 m (acc ++ its') its2 k2 hrest hb4 hs4.look hr2 hm
            refine ⟨its' ++ items, q3, hb3, hl3, ?_, sameItems.append hsame hsame2⟩
            rw [heq, iterLoop_congr cfg ty hpk4, ← hY2, hi, List.append_assoc]

theorem docsItems_mid (pre : List Doc) (t : LNode) (ex : Bool) (ls le : Loc) (post : List Doc) (Z : List RawItem) :
    docsItems (pre ++ (t, ex, ls, le) :: post) ++ Z =
      docsItems pre ++ .ev (.docStart ex) ls :: (itemsOf t ++ .ev .docEnd le :: (docsItems post ++ Z)) := by
  induction pre with
  | nil => simp [docsItems]
  | cons d pre ih =>
    obtain ⟨t0, ex0, ls0, le0⟩ := d
    simp [docsItems] at ih ⊢
    exact ih

/-- (stream level) `pre ++ dk :: post`: the items of the documents of `pre`, then EXACTLY the items of the failing
document `dk` on its own (`soloRounds` on the canonical start state in front of `DocumentEnd` and `Y0`), then — if
`dk` was left through the recovery — the items of the documents of `post`; otherwise nothing: the iterator is
finished -/
theorem iter_fail_stream {L : AliasLimits} {ob : Option Limits}
    (l1 : Loc) (cfg : Cfg) (ty : Ty) (N Ns : Nat)
    (pre : List Doc) (evssPre : List (List Ev)) (t : LNode) (ex : Bool) (ls le : Loc) (post : List Doc)
    (evssPost : List (List Ev)) (its1 its2 : List Item) (k1 k2 : Nat) (r : Rounds) (M Y0 : List RawItem) (hM : M ≠ [])
    {es : List Ev}
    (hpre : DocsServe L ob pre evssPre) (hspec1 : streamSpec cfg ty N evssPre = some (its1, k1))
    (hfail : FailRun M (canonStart L ob ls) (itemsOf t ++ M) es)
    (hsolo : soloRounds cfg ty Ns (canonStart L ob ls) (itemsOf t ++ .ev .docEnd le :: Y0) = some r)
    (hpost : DocsServe L ob post evssPost) (hspec2 : streamSpec cfg ty N evssPost = some (its2, k2))
    {q : Pump} (hq : BoundaryB L ob q) (hl : q.look = none) (fuel : Nat) (hfuel : k1 + r.2.2 + k2 + 1 ≤ fuel)
    (acc : List Item) :
    ∃ A B, iterLoop cfg ty fuel q (docsItems (pre ++ (t, ex, ls, le) :: post) ++ [.ev .streamEnd l1]) acc =
        acc ++ A ++ r.1 ++ B ∧ sameItems A its1 ∧
      (r.2.1 = true → sameItems B its2) ∧ (r.2.1 = false → B = []) := by
  have hitems := docsItems_mid pre t ex ls le post [.ev .streamEnd l1]
  rw [hitems]
  obtain ⟨A, q2, hb2, hl2, hi, hsameA⟩ := iter_docsB_prefix cfg ty N ex ls
    (itemsOf t ++ .ev .docEnd le :: (docsItems post ++ [.ev .streamEnd l1])) pre evssPre q fuel acc its1 k1
    hpre hq hl hspec1 (by omega)
  rw [hi]
  obtain ⟨m, hm⟩ : ∃ m, fuel - k1 = m + r.2.2 := ⟨fuel - k1 - r.2.2, by omega⟩
  rw [hm]
  obtain ⟨hF, hT⟩ := iter_fail_docB t ex ls le M (docsItems post ++ [.ev .streamEnd l1]) Y0 hM hfail cfg ty Ns r hsolo hb2 hl2
  cases hfate : r.2.1 with
  | false =>
    refine ⟨A, [], ?_, hsameA, (fun h => by cases h), fun _ => rfl⟩
    have e1 : iterLoop cfg ty (m + r.2.2) q2 _ (acc ++ A) = (acc ++ A) ++ r.1 := hF hfate m (acc ++ A)
    rw [e1]
    simp
  | true =>
    obtain ⟨h1, h2⟩ := hT hfate
    cases post with
    | nil =>
      cases evssPost with
      | cons _ _ => exact hpost.elim
      | nil =>
        simp only [streamSpec, Option.some.injEq, Prod.mk.injEq] at hspec2
        obtain ⟨rfl, rfl⟩ := hspec2
        refine ⟨A, [], ?_, hsameA, fun _ => .nil, fun h => by cases h⟩
        have e1 : iterLoop cfg ty (m + r.2.2) q2 _ (acc ++ A) = (acc ++ A) ++ r.1 :=
          h1 l1 (by simp [docsItems]) m (acc ++ A)
        rw [e1]
        simp
    | cons d2 post2 =>
      obtain ⟨t2, ex2, ls2, le2⟩ := d2
      obtain ⟨q4, hs4, hp4, heq⟩ := h2 ex2 ls2 _ (docsItems_cons t2 ex2 ls2 le2 post2 _)
      obtain ⟨hb4, hpk4⟩ := start_as_boundary hs4 ex2
        (itemsOf t2 ++ .ev .docEnd le2 :: (docsItems post2 ++ [.ev .streamEnd l1]))
      obtain ⟨B, hiB, hsameB⟩ := iter_docsB l1 cfg ty N ((t2, ex2, ls2, le2) :: post2) evssPost q4 m
        (acc ++ A ++ r.1) its2 k2 hpost hb4 hs4.look (fun h => by cases h) hspec2 (by omega)
      refine ⟨A, B, ?_, hsameA, fun _ => hsameB, fun h => by cases h⟩
      have e1 : iterLoop cfg ty (m + r.2.2) q2 _ (acc ++ A) = _ := heq m (acc ++ A)
      rw [e1, iterLoop_congr cfg ty hpk4, ← docsItems_cons, hiB]

end SaphyrVerif.Lemmas.C11B
