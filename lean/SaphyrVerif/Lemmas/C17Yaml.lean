import SaphyrVerif.Lemmas.C17Caret
import SaphyrVerif.Lemmas.C17Breaks
/-!
Helper lemmas for C17, part 13 (fix of finding `C17-lone-cr-line-break`): for a location that is a
position of the text under the YAML line-break rule (LF, CRLF, lone CR) a window IS rendered, its rows
are the YAML lines, and the marker is under the character of the reported column of that YAML line.
-/
namespace SaphyrVerif.Lemmas.C17
open SaphyrVerif SaphyrVerif.Snippet
open SaphyrVerif.Spec.Snippet (isControl sanitizeChar clean takeRows dropRows row visibleLine yamlLines yamlLine)

theorem isUnknown_false_of_col (loc : Snippet.Loc) (h : 1 ≤ loc.column) : loc.isUnknown = false := by
  unfold Snippet.Loc.isUnknown
  have : (loc.column == 0) = false := by
    rw [beq_eq_false_iff_ne]; omega
  rw [this, Bool.and_false]

/-- what the window / span computation of both renderers yields for a location on YAML line `line`
(number `rel` relative to the text), column `1 ≤ column ≤ len + 1`, of a non-empty text -/
structure YamlWindowOk (loc : Snippet.Loc) (m : Mapping) (rel : Nat) (line : List Char) (p : Prepared) : Prop where
  row_eq : p.row = rel
  ws_pos : 1 ≤ p.windowStartRow
  ws_le : p.windowStartRow ≤ rel
  row_le : rel ≤ p.windowEndRow
  height : p.windowEndRow - p.windowStartRow ≤ 2 * ctxLines
  display : p.displayStartRow = absoluteRow m p.windowStartRow
  clean : clean p.windowText = true
  marker : ∃ pre rest, p.windowText = pre ++ rest ∧ blen pre = p.localStart ∧
      pre.count '\n' = rel - p.windowStartRow ∧
      (rest.head? = (line[loc.column - 1]?).map sanitizeChar ∨
        (line[loc.column - 1]? = none ∧ (rest = [] ∨ rest.head? = some '\n'))) ∧
      (∃ Q lead j, pre = Q ++ (lead ++ Spec.Snippet.sanitize ((line.take (loc.column - 1)).drop j)) ∧
        (Q = [] ∨ Q.getLast? = some '\n') ∧ (lead = [] ∨ lead = [ellipsis]))

theorem prepare_yaml (text : List Char) (loc : Snippet.Loc) (m : Mapping) (r rel : Nat) (line : List Char)
    (hlen : text.length + 1 ≤ usizeMax) (hcol : loc.column ≤ usizeMax) (hne : text ≠ [])
    (hrel : relativeRow m loc.line = some rel) (hline : yamlLine text rel = some line)
    (hc1 : 1 ≤ loc.column) (hc2 : loc.column ≤ line.length + 1) :
    ∃ p, prepare text loc m r = .ok (some p) ∧ YamlWindowOk loc m rel line p := by
  obtain ⟨hr1, hr2, hl⟩ := (yamlLine_some_iff text rel line).mp hline
  have hu := isUnknown_false_of_col loc hc1
  have hlen' : (normBreaks text).length + 1 ≤ usizeMax := by rw [normBreaks_length]; exact hlen
  have hne' : normBreaks text ≠ [] := fun h0 => hne ((normBreaks_eq_nil text).mp h0)
  obtain ⟨endB, ws, we, g1, g2, g3, g4, g5, g7, g6, heq⟩ :=
    prepareOn_eq (normBreaks text) loc m r hlen' rel hu hrel hne' hr1 hr2 ⟨hc1, by rw [← hl]; omega⟩
  obtain ⟨res, hs, hok⟩ := prepareOn_safe (normBreaks text) loc m r hlen' hcol
  -- the window computation cannot fail, so the result is a window
  have hsome : ∃ p, prepareOn (normBreaks text) loc m r = .ok (some p) := by
    rw [heq] at hs ⊢
    cases hq : cropWindowText (takeRows (we - (ws - 1)) (dropRows (ws - 1) (normBreaks text))) ws rel loc.column r
        (min (blen (takeRows (rel - 1) (normBreaks text)) +
              blen ((visibleLine (normBreaks text) rel).take (loc.column - 1)) -
            blen (takeRows (ws - 1) (normBreaks text)))
          (blen (takeRows (we - (ws - 1)) (dropRows (ws - 1) (normBreaks text)))))
        (min (endB - blen (takeRows (ws - 1) (normBreaks text)))
          (blen (takeRows (we - (ws - 1)) (dropRows (ws - 1) (normBreaks text))))) with
    | ok x => exact ⟨_, rfl⟩
    | panic site => rw [hq] at hs; cases hs
  obtain ⟨p, hp⟩ := hsome
  have ok := hok p (by rw [hp] at hs; cases hs; rfl)
  have hrow : p.row = rel := by
    have := ok.row_rel
    rw [hrel] at this
    exact (Option.some.inj this).symm
  refine ⟨p, by rw [prepare_norm]; exact hp, ?_⟩
  obtain ⟨pre, rest, c1, c2, c3, c4, c5⟩ := prepareOn_caret (normBreaks text) loc m r hlen' hcol p hp
  rw [hrow] at c3 c4 c5
  rw [← hl] at c4 c5
  exact ⟨hrow, ok.ws_pos, by rw [← hrow]; exact ok.ws_le, by rw [← hrow]; exact ok.row_le, ok.height,
    ok.display, ok.clean, ⟨pre, rest, c1, c2, c3, c4, c5⟩⟩

/-- the empty text has one (empty) line under the YAML rule, but no window is rendered for it -/
theorem prepare_nil (loc : Snippet.Loc) (m : Mapping) (r : Nat) : prepare [] loc m r = .ok none := by
  unfold prepare
  by_cases hu : loc.isUnknown = true
  · rw [if_pos hu]
  · rw [if_neg hu]
    cases relativeRow m loc.line with
    | none => rfl
    | some row => rfl

end SaphyrVerif.Lemmas.C17
