import SaphyrVerif.Lemmas.CurSimDe
/-!
Cursor simulation, part 2c: the merge machinery (`pendingFromEvents`, `mergeSeqBatches`,
`pendingFromLive`, `collectEntriesFromMap`, `collectLoop`).  The reference locations handed down
(`ref`, `mergeRef`, `elemRef`) differ between the two sides; they only end up in the `ref` field of the
collected entries, which the relation `PL` ignores.
-/
namespace SaphyrVerif.Lemmas.CurSim
open SaphyrVerif SaphyrVerif.Scalars SaphyrVerif.Pump SaphyrVerif.De

set_option linter.unusedSimpArgs false
set_option linter.unusedVariables false

theorem pendingFromEvents_simStep {fuel : Nat} (ih : SimA fuel) :
    ∀ events loc loc' ref ref',
      EV PL (De.pendingFromEvents (fuel + 1) events loc ref) (De.pendingFromEvents (fuel + 1) events loc' ref') := by
  intro events loc loc' ref ref'
  have hs := Sim.replay events 0 (some ref) (some ref')
  rw [De.pendingFromEvents, De.pendingFromEvents]
  cases hh : events.head? with
  | none => exact EV.err
  | some ev =>
    cases ev with
    | mapStart a l =>
      simp only []
      have h := ih.collectEntriesFromMap ref ref' hs
      revert h
      generalize De.collectEntriesFromMap fuel _ ref = x
      generalize De.collectEntriesFromMap fuel _ ref' = x'
      intro h
      cases h with
      | ok hr _ => exact EV.ok hr
      | err => exact EV.err
    | _ =>
      simp only []
      sim_loop

theorem mergeSeqBatches_simStep {fuel : Nat} (ih : SimA fuel) :
    ∀ {b b' c c'}, Sim c c' → PLL b b' →
      RV PLL (De.mergeSeqBatches (fuel + 1) c b) (De.mergeSeqBatches (fuel + 1) c' b') := by
  intro b b' c c' hs hb
  rw [De.mergeSeqBatches, De.mergeSeqBatches]
  sim_loop

theorem pendingFromLive_simStep {fuel : Nat} (ih : SimA fuel) :
    ∀ r r' {c c'}, Sim c c' → RV PL (De.pendingFromLive (fuel + 1) c r) (De.pendingFromLive (fuel + 1) c' r') := by
  intro r r' c c' hs
  rw [De.pendingFromLive, De.pendingFromLive]
  sim_loop

theorem collectEntriesFromMap_simStep {fuel : Nat} (ih : SimA fuel) :
    ∀ r r' {c c'}, Sim c c' →
      RV PL (De.collectEntriesFromMap (fuel + 1) c r) (De.collectEntriesFromMap (fuel + 1) c' r') := by
  intro r r' c c' hs
  rw [De.collectEntriesFromMap, De.collectEntriesFromMap]
  sim_loop

theorem collectLoop_simStep {fuel : Nat} (ih : SimA fuel) :
    ∀ r r' {f f' m m' c c'}, Sim c c' → PL f f' → PLL m m' →
      RV PL (De.collectLoop (fuel + 1) c r f m) (De.collectLoop (fuel + 1) c' r' f' m') := by
  intro r r' f f' m m' c c' hs hf hm
  rw [De.collectLoop, De.collectLoop]
  sim_loop

end SaphyrVerif.Lemmas.CurSim
