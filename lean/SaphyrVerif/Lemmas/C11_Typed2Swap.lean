import SaphyrVerif.Lemmas.C11_Typed2Doc
/-!
Typed multi-document theorems (C11), continued — part 5 (pump level): `next_impl` only depends on the parser
items it consumes.  If a call on the input `A ++ X` leaves (at least) `X` unread, the same call on `A ++ Y`
makes the same step into the same state and leaves `Y` unread (`nextImpl_swap`) — whatever the state of the pump
is (replays pending, enforcer, …).  The same for the recovery `skip_to_next_document`.
-/
namespace SaphyrVerif.Lemmas.C11B
open SaphyrVerif SaphyrVerif.Scalars SaphyrVerif.Pump SaphyrVerif.De SaphyrVerif.Spec SaphyrVerif.Budget

set_option linter.unusedSimpArgs false

theorem append_right_cancel_len {α : Type} {A A' X : List α} (h : A ++ X = A' ++ X) : A = A' :=
  List.append_cancel_right h

theorem serveInject_sade {p : Pump} {fs : List InjectFrame} {r : Option Step} {p' : Pump}
    (h : serveInject p fs = (r, p')) : p'.stopAtDocEnd = p.stopAtDocEnd := by
  have := (Lemmas.C11T.serveInject_fixed p fs).2.2
  rw [h] at this
  exact this

/-- the parser loop: what is left unread is not looked at -/
theorem parserLoop_swap (X Y : List RawItem) (hX : X ≠ []) :
    ∀ (A : List RawItem) (p : Pump) (s : Step) (p' : Pump) (A' : List RawItem), p.stopAtDocEnd = false →
      parserLoop p (A ++ X) = (s, p', A' ++ X) → parserLoop p (A ++ Y) = (s, p', A' ++ Y) := by
  intro A
  induction A with
  | nil =>
    intro p s p' A' _ h
    exfalso
    have := Lemmas.C11.parserLoop_length_lt p X hX
    simp only [List.nil_append] at h
    rw [h] at this
    simp at this
    omega
  | cons it A ih =>
    intro p s p' A' hs h
    have key : ∀ {s0 : Step} {p0 : Pump}, (s0, p0, A ++ X) = (s, p', A' ++ X) → (s0, p0, A ++ Y) = (s, p', A' ++ Y) := by
      intro s0 p0 h0
      simp only [Prod.mk.injEq] at h0
      obtain ⟨rfl, rfl, h3⟩ := h0
      rw [List.append_cancel_right h3]
    cases it with
    | err ua l =>
      simp only [List.cons_append, parserLoop] at h ⊢
      exact key h
    | ev raw loc =>
      simp only [List.cons_append, parserLoop, Pump.resetDocumentState, hs, Bool.false_eq_true, ↓reduceIte] at h ⊢
      repeat' (split at h)
      all_goals first
        | exact key h
        | exact ih _ _ _ _ (by simp [Pump.resetDocumentState]) h
        | (simp_all; done)
        | (simp only [*, ↓reduceIte, Bool.false_eq_true]; done)
        | (simp only [*, ↓reduceIte, Bool.false_eq_true]
           first
             | exact key h
             | exact ih _ _ _ _ (by simp [Pump.resetDocumentState]) h)
        | (simp only [*, ↓reduceIte, Bool.false_eq_true]
           have hsv := ‹serveInject _ _ = (none, _)›
           exact ih _ _ _ _ (by rw [serveInject_sade hsv]) h)

/-- `next_impl`: what is left unread is not looked at -/
theorem nextImpl_swap (X Y : List RawItem) (hX : X ≠ []) (A : List RawItem) (p : Pump) (s : Step) (p' : Pump)
    (A' : List RawItem) (hs : p.stopAtDocEnd = false) (h : nextImpl p (A ++ X) = (s, p', A' ++ X)) :
    nextImpl p (A ++ Y) = (s, p', A' ++ Y) := by
  unfold nextImpl at h ⊢
  rcases hsv : serveInject p p.inject with ⟨_ | step, p1⟩
  · rw [hsv] at h
    simp only at h ⊢
    exact parserLoop_swap X Y hX A p1 s p' A' (by rw [serveInject_sade hsv, hs]) h
  · rw [hsv] at h
    simp only [Prod.mk.injEq] at h ⊢
    obtain ⟨rfl, rfl, h3⟩ := h
    exact ⟨rfl, rfl, by rw [List.append_cancel_right h3]⟩

/-! ### the flags `produced_any_in_doc` / `synthesized_null_emitted` do not matter while input remains -/

/-- the pump with other flags -/
def withFlags (p : Pump) (a b : Bool) : Pump := { p with producedAny := a, synthesizedNull := b }

/-- the state after a step of the pump with other flags: an event sets `produced_any_in_doc` -/
def adjFlags (s : Step) (p' : Pump) (a b : Bool) : Pump :=
  match s with
  | .event _ => { p' with synthesizedNull := b }
  | _ => withFlags p' a b

/-- the state after a call of the inject loop of the pump with other flags -/
def adjFlagsO (r : Option Step) (p' : Pump) (a b : Bool) : Pump :=
  match r with
  | some s => adjFlags s p' a b
  | none => withFlags p' a b

theorem serveInject_flags (a b : Bool) (p : Pump) (fs : List InjectFrame) {r : Option Step} {p' : Pump}
    (h : serveInject p fs = (r, p')) : serveInject (withFlags p a b) fs = (r, adjFlagsO r p' a b) := by
  obtain ⟨pa, sn, lk, inj, anc, rs, bud, ll, lim, tr, pera, sade, sde, rip⟩ := p
  induction fs with
  | nil => cases h; rfl
  | cons fr rest ih =>
    simp only [serveInject, withFlags] at h ih ⊢
    split at h
    · cases h; rfl
    · split at h
      · rename_i hc; simp only [hc, ↓reduceIte]; exact ih h
      · rename_i hc; simp only [hc, ↓reduceIte]
        split at h
        · exact ih h
        · split at h
          · rename_i hc2; simp only [hc2, ↓reduceIte]; cases h; rfl
          · rename_i hc2; simp only [hc2, ↓reduceIte]
            split at h
            · cases h; rfl
            · split at h
              · cases h; rfl
              · cases h; rfl

/-- the parser loop with other flags: the same step, while input remains -/
theorem parserLoop_flags (a b : Bool) (X : List RawItem) (hX : X ≠ []) :
    ∀ (A : List RawItem) (p : Pump) (s : Step) (p' : Pump) (A' : List RawItem), p.stopAtDocEnd = false →
      parserLoop p (A ++ X) = (s, p', A' ++ X) →
      parserLoop (withFlags p a b) (A ++ X) = (s, adjFlags s p' a b, A' ++ X) := by
  intro A
  induction A with
  | nil =>
    intro p s p' A' _ h
    exfalso
    have := Lemmas.C11.parserLoop_length_lt p X hX
    simp only [List.nil_append] at h
    rw [h] at this
    simp at this
    omega
  | cons it A ih =>
    intro p s p' A' hs h
    have key : ∀ {s0 : Step} {p0 q0 : Pump}, (s0, p0, A ++ X) = (s, p', A' ++ X) → q0 = adjFlags s0 p0 a b →
        (s0, q0, A ++ X) = (s, adjFlags s p' a b, A' ++ X) := by
      intro s0 p0 q0 h0 hq
      simp only [Prod.mk.injEq] at h0
      obtain ⟨rfl, rfl, h3⟩ := h0
      rw [hq, h3]
    cases it with
    | err ua l =>
      simp only [List.cons_append, parserLoop] at h ⊢
      exact key h rfl
    | ev raw loc =>
      simp only [List.cons_append, parserLoop, Pump.resetDocumentState, withFlags, hs, Bool.false_eq_true, ↓reduceIte] at h ⊢
      repeat' (split at h)
      all_goals first
        | exact key h rfl
        | (refine key h ?_; simp [adjFlags, withFlags, hs]; done)
        | (refine key h ?_; simp_all [adjFlags, withFlags]; done)
        | exact ih _ _ _ _ (by simp [Pump.resetDocumentState]) h
        | (simp only [*, ↓reduceIte, Bool.false_eq_true]
           first
             | exact key h rfl
             | (refine key h ?_; simp [adjFlags, withFlags, hs]; done)
             | (refine key h ?_; simp_all [adjFlags, withFlags]; done)
             | exact ih _ _ _ _ (by simp [Pump.resetDocumentState]) h)
        | (have hsv := ‹serveInject _ _ = (some _, _)›
           have hfl := serveInject_flags a b _ _ hsv
           simp only [withFlags] at hfl
           simp only [*, ↓reduceIte, Bool.false_eq_true, hfl]
           exact key h rfl)
        | (have hsv := ‹serveInject _ _ = (none, _)›
           have hfl := serveInject_flags a b _ _ hsv
           simp only [withFlags] at hfl
           simp only [*, ↓reduceIte, Bool.false_eq_true, hfl]
           exact ih _ _ _ _ (by rw [serveInject_sade hsv]) h)

/-- `next_impl` with other flags: the same step, while input remains -/
theorem nextImpl_flags (a b : Bool) (X : List RawItem) (hX : X ≠ []) (A : List RawItem) (p : Pump) (s : Step)
    (p' : Pump) (A' : List RawItem) (hs : p.stopAtDocEnd = false) (h : nextImpl p (A ++ X) = (s, p', A' ++ X)) :
    nextImpl (withFlags p a b) (A ++ X) = (s, adjFlags s p' a b, A' ++ X) := by
  unfold nextImpl at h ⊢
  rcases hsv : serveInject p p.inject with ⟨_ | step, p1⟩
  · rw [hsv] at h
    have hfl := serveInject_flags a b p p.inject hsv
    have hinj : (withFlags p a b).inject = p.inject := rfl
    rw [hinj, hfl]
    simp only [adjFlagsO] at h ⊢
    exact parserLoop_flags a b X hX A p1 s p' A' (by rw [serveInject_sade hsv, hs]) h
  · rw [hsv] at h
    have hfl := serveInject_flags a b p p.inject hsv
    have hinj : (withFlags p a b).inject = p.inject := rfl
    rw [hinj, hfl]
    simp only [Prod.mk.injEq, adjFlagsO] at h ⊢
    obtain ⟨rfl, rfl, h3⟩ := h
    exact ⟨rfl, rfl, h3⟩

theorem serveInject_event_produced (p : Pump) (fs : List InjectFrame) {e : Ev} {p' : Pump}
    (h : serveInject p fs = (some (.event e), p')) : p'.producedAny = true := by
  induction fs with
  | nil => simp [serveInject] at h
  | cons fr rest ih =>
    simp only [serveInject] at h
    repeat' split at h
    all_goals first
      | exact ih h
      | (simp only [Prod.mk.injEq, Option.some.injEq, Step.event.injEq, reduceCtorEq, false_and] at h
         obtain ⟨-, rfl⟩ := h
         rfl)
      | (simp at h; done)

theorem parserLoop_event_produced (p : Pump) (inp : List RawItem) {e : Ev} {p' : Pump} {rest : List RawItem}
    (h : parserLoop p inp = (.event e, p', rest)) : p'.producedAny = true := by
  fun_induction parserLoop p inp
  all_goals try (simp_all +zetaDelta; done)
  all_goals try (simp +zetaDelta only [Prod.mk.injEq, Step.event.injEq] at h
                 obtain ⟨-, rfl, -⟩ := h
                 rfl)
  case case18 =>
    rename_i p3 step p4 hs ob hx
    simp only [Prod.mk.injEq] at h
    obtain ⟨rfl, rfl, -⟩ := h
    exact serveInject_event_produced _ _ hs

theorem nextImpl_event_produced {p : Pump} {inp : List RawItem} {e : Ev} {p' : Pump} {rest : List RawItem}
    (h : nextImpl p inp = (.event e, p', rest)) : p'.producedAny = true := by
  unfold nextImpl at h
  rcases hs : serveInject p p.inject with ⟨_ | step, p1⟩
  · rw [hs] at h
    exact parserLoop_event_produced _ _ h
  · rw [hs] at h
    simp only [Prod.mk.injEq] at h
    obtain ⟨rfl, rfl, -⟩ := h
    exact serveInject_event_produced _ _ hs

end SaphyrVerif.Lemmas.C11B
