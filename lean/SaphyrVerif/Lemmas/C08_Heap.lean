import SaphyrVerif.Lemmas.C08_Step
/-!
Helper lemmas for C08, part 3: the number of buffered events (open recording frames + anchor table).
-/
namespace SaphyrVerif.Lemmas.C08
open SaphyrVerif SaphyrVerif.Scalars SaphyrVerif.Pump SaphyrVerif.Budget SaphyrVerif.Spec

/-- events held by the open recording frames -/
def fsum (fs : List RecFrame) : Nat := (fs.map (·.buf.length)).sum
/-- events held by the anchor table -/
def asum (as : List (Nat × List Ev)) : Nat := (as.map (·.2.length)).sum

/-- buffered events (= `heapEvents` of Props/C08) -/
def heap (p : Pump) : Nat := fsum p.recStack + asum p.anchors

@[simp] theorem fsum_nil : fsum [] = 0 := rfl
@[simp] theorem asum_nil : asum [] = 0 := rfl
@[simp] theorem fsum_cons (f : RecFrame) (fs : List RecFrame) : fsum (f :: fs) = f.buf.length + fsum fs := by
  simp [fsum]
@[simp] theorem asum_cons (a : Nat × List Ev) (as : List (Nat × List Ev)) : asum (a :: as) = a.2.length + asum as := by
  simp [asum]

@[simp] theorem fsum_recordAll (fs : List RecFrame) (e : Ev) : fsum (recordAll fs e) = fsum fs + fs.length := by
  induction fs with
  | nil => rfl
  | cons f fs ih =>
    simp only [recordAll, List.map_cons, fsum_cons, List.length_cons, List.length_append, List.length_nil] at ih ⊢
    omega

@[simp] theorem length_recordAll (fs : List RecFrame) (e : Ev) : (recordAll fs e).length = fs.length := by
  simp [recordAll]

@[simp] theorem fsum_bumpStart (fs : List RecFrame) : fsum (bumpDepthOnStart fs) = fsum fs := by
  induction fs with
  | nil => rfl
  | cons f fs ih => simp only [bumpDepthOnStart, List.map_cons, fsum_cons] at ih ⊢; omega

@[simp] theorem length_bumpStart (fs : List RecFrame) : (bumpDepthOnStart fs).length = fs.length := by
  simp [bumpDepthOnStart]

theorem fsum_decr (fs : List RecFrame) :
    fsum (fs.map fun f => { f with depth := f.depth - 1 }) = fsum fs := by
  induction fs with
  | nil => rfl
  | cons f fs ih => simp only [List.map_cons, fsum_cons] at ih ⊢; omega

theorem finalizeFrames_sum (as : List (Nat × List Ev)) (fs : List RecFrame) :
    asum (finalizeFrames as fs).1 + fsum (finalizeFrames as fs).2 = asum as + fsum fs ∧
      (finalizeFrames as fs).2.length ≤ fs.length := by
  induction fs generalizing as with
  | nil => simp [finalizeFrames]
  | cons f fs ih =>
    simp only [finalizeFrames]
    split
    · obtain ⟨h1, h2⟩ := ih (setAnchor as f.id f.buf)
      simp only [setAnchor, asum_cons, fsum_cons, List.length_cons] at h1 h2 ⊢
      omega
    · simp

theorem bumpDepthOnEnd_sum {as as' : List (Nat × List Ev)} {fs fs' : List RecFrame}
    (h : bumpDepthOnEnd as fs = some (as', fs')) :
    asum as' + fsum fs' = asum as + fsum fs ∧ fs'.length ≤ fs.length := by
  unfold bumpDepthOnEnd at h
  split at h
  · cases h
  · have := finalizeFrames_sum as (fs.map fun f => { f with depth := f.depth - 1 })
    simp only [Option.some.injEq] at h
    rw [h, fsum_decr, List.length_map] at this
    exact this

theorem startFrames_sum (fs : List RecFrame) (anchor : Nat) (ev : Ev) :
    fsum (startFrames fs anchor ev) + fs.length ≤ fsum fs + fs.length + (startFrames fs anchor ev).length ∧
      fs.length ≤ (startFrames fs anchor ev).length := by
  unfold startFrames
  by_cases ha : (anchor != 0) = true
  · simp [ha, record]; omega
  · simp [ha, record]

theorem Skip1.heap_le {p q : Pump} (h : Skip1 p q) : heap q ≤ heap p ∧ q.recStack.length ≤ p.recStack.length := by
  cases h <;> simp [Pump.resetDocumentState, heap]

theorem Skips.heap_le {p q : Pump} (h : Skips p q) : heap q ≤ heap p ∧ q.recStack.length ≤ p.recStack.length := by
  induction h with
  | refl => exact ⟨Nat.le_refl _, Nat.le_refl _⟩
  | step h1 _ ih =>
    have := h1.heap_le
    omega

theorem Deliver.heap_le {q p' : Pump} {e : Ev} (h : Deliver q e p') :
    heap p' ≤ heap q + max q.recStack.length p'.recStack.length + 1 := by
  cases h with
  | scalar val style anchor tag loc bud hb =>
    by_cases ha : (anchor != 0) = true <;> simp [heap, ha, setAnchor] <;> omega
  | seqStart anchor tag loc bud hb =>
    have := startFrames_sum q.recStack anchor (.seqStart anchor (tagCode tag) tag loc)
    simp only [heap]; omega
  | mapStart anchor tag loc bud hb =>
    have := startFrames_sum q.recStack anchor (.mapStart anchor loc)
    simp only [heap]; omega
  | seqEnd loc bud as fs hb hd =>
    have := bumpDepthOnEnd_sum hd
    simp only [heap, fsum_recordAll, length_recordAll] at this ⊢; omega
  | mapEnd loc bud as fs hb hd =>
    have := bumpDepthOnEnd_sum hd
    simp only [heap, fsum_recordAll, length_recordAll] at this ⊢; omega
  | placeholder => simp [heap]; omega
  | replay => simp [heap]; omega
  | replay0 => simp [heap]; omega

theorem nextImpl_heap (p : Pump) (inp : List RawItem) (e : Ev) (p' : Pump) (rest : List RawItem)
    (h : nextImpl p inp = (.event e, p', rest)) :
    heap p' ≤ heap p + max p.recStack.length p'.recStack.length + 1 := by
  obtain ⟨q, hsk, hfin⟩ := nextImpl_event p inp e p' rest h
  have h1 := hsk.heap_le
  rcases hfin with ⟨⟨_, _, _, rfl⟩, _⟩ | hd
  · simp only [heap] at h1 ⊢; omega
  · have h2 := hd.heap_le
    omega

end SaphyrVerif.Lemmas.C08
