import SaphyrVerif.Lemmas.CurSimDe
/-!
Cursor simulation, part 2d: the deserializer proper (`deser`), sequences (`deserSeqLike`), mappings
(`deserMapLike`, `mapEntries`, `structEntries`).
-/
namespace SaphyrVerif.Lemmas.CurSim
open SaphyrVerif SaphyrVerif.Scalars SaphyrVerif.Pump SaphyrVerif.De

set_option linter.unusedSimpArgs false
set_option linter.unusedVariables false

theorem deser_simStep {fuel : Nat} (ih : SimA fuel) :
    ∀ cfg ty ik km {c c'}, Sim c c' →
      RV Eq (De.deser (fuel + 1) cfg ty ik km c) (De.deser (fuel + 1) cfg ty ik km c') := by
  intro cfg ty ik km c c' hs
  cases ty <;> rw [De.deser, De.deser]
  all_goals sim_loop

theorem deserMapLike_simStep {fuel : Nat} (ih : SimA fuel) :
    ∀ cfg shape {c c'}, Sim c c' →
      RV Eq (De.deserMapLike (fuel + 1) cfg shape c) (De.deserMapLike (fuel + 1) cfg shape c') := by
  intro cfg shape c c' hs
  rw [De.deserMapLike, De.deserMapLike]
  sim_loop

theorem mapEntries_simStep {fuel : Nat} (ih : SimA fuel) :
    ∀ cfg kt vt acc {c c' m m'}, Sim c c' → MRel m m' →
      RV Eq (De.mapEntries (fuel + 1) cfg kt vt c m acc) (De.mapEntries (fuel + 1) cfg kt vt c' m' acc) := by
  intro cfg kt vt acc c c' m m' hs hm
  rw [De.mapEntries, De.mapEntries]
  sim_loop

theorem structEntries_simStep {fuel : Nat} (ih : SimA fuel) :
    ∀ cfg fields deny acc {c c' m m'}, Sim c c' → MRel m m' →
      RV Eq (De.structEntries (fuel + 1) cfg fields deny c m acc)
        (De.structEntries (fuel + 1) cfg fields deny c' m' acc) := by
  intro cfg fields deny acc c c' m m' hs hm
  rw [De.structEntries, De.structEntries]
  sim_loop

theorem deserSeqLike_simStep {fuel : Nat} (ih : SimA fuel) :
    ∀ cfg shape {c c'}, Sim c c' →
      RV Eq (De.deserSeqLike (fuel + 1) cfg shape c) (De.deserSeqLike (fuel + 1) cfg shape c') := by
  intro cfg shape c c' hs
  rcases shape with t | ts
  case inr =>
    rw [De.deserSeqLike, De.deserSeqLike]
    obtain ⟨o, d, d', hp, hp', hs1⟩ := hs.peek
    obtain ⟨o2, e, e', hn, hn', hs2⟩ := hs1.next
    rw [hp, hp']
    simp only [hn, hn']
    rcases o with _ | (⟨v, tag, rt, st, a, l⟩ | _ | _ | _ | _)
    case some.scalar =>
      by_cases h1 : (tag == tagNull || scalarIsNullish v st) = true
      · by_cases h3 : ts.isEmpty = true
        · simp only [h1, h3, ↓reduceIte, Bool.false_eq_true]
          sim_loop
        · simp only [h1, h3, ↓reduceIte, Bool.false_eq_true]
          sim_loop
      · by_cases h2 : (tag == tagBinary) = true
        · simp only [h1, h2, ↓reduceIte, Bool.false_eq_true]
          cases Base64.decode (utf8Bytes v) <;> simp only [] <;> sim_loop
        · simp only [h1, h2, ↓reduceIte, Bool.false_eq_true]
          rcases o2 with _ | (_ | _ | _ | _ | _) <;> sim_loop
    all_goals
      simp only []
      rcases o2 with _ | (_ | _ | _ | _ | _) <;> sim_loop
  rw [De.deserSeqLike, De.deserSeqLike]
  obtain ⟨o, d, d', hp, hp', hs1⟩ := hs.peek
  obtain ⟨o2, e, e', hn, hn', hs2⟩ := hs1.next
  rw [hp, hp']
  simp only [hn, hn']
  rcases o with _ | (⟨v, tag, rt, st, a, l⟩ | _ | _ | _ | _)
  case some.scalar =>
    by_cases h1 : (tag == tagNull || scalarIsNullish v st) = true
    · simp only [h1, ↓reduceIte, Bool.false_eq_true]
      sim_loop
    · by_cases h2 : (tag == tagBinary) = true
      · simp only [h1, h2, ↓reduceIte, Bool.false_eq_true]
        cases Base64.decode (utf8Bytes v) <;> simp only [] <;> sim_loop
      · simp only [h1, h2, ↓reduceIte, Bool.false_eq_true]
        rcases o2 with _ | (_ | _ | _ | _ | _) <;> sim_loop
  all_goals
    simp only []
    rcases o2 with _ | (_ | _ | _ | _ | _) <;> sim_loop

end SaphyrVerif.Lemmas.CurSim
