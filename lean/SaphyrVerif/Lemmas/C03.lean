import SaphyrVerif.Lemmas.C04
/-!
Helper lemmas for C03, part 1 (specification level): `splitEntries`, `sourceEntries`, `effEntries`.
-/
namespace SaphyrVerif.Lemmas.C03
open SaphyrVerif SaphyrVerif.Scalars SaphyrVerif.Pump SaphyrVerif.De SaphyrVerif.Spec
open SaphyrVerif.Lemmas.C04 (keys)

/-- the tree-level null test of a scalar merge value is the model's `mergeScalarIsNull` -/
@[simp] theorem isNullMergeNode_scalar (v : List Char) (tag : Nat) (rt : Option (List Char)) (st : Style) (a : Nat) (l : Loc) :
    isNullMergeNode (.scalar v tag rt st a l) = mergeScalarIsNull v st tag := rfl

/-! ### `splitEntries` -/

theorem splitEntries_cons (k v : ENode) (rest : List (ENode × ENode)) :
    splitEntries ((k, v) :: rest) =
      if isMergeKeyNode k then ((splitEntries rest).1, v :: (splitEntries rest).2)
      else ((k, v) :: (splitEntries rest).1, (splitEntries rest).2) := by
  simp only [splitEntries]

theorem splitEntries_own_no_merge (es : List (ENode × ENode)) :
    ∀ e ∈ (splitEntries es).1, isMergeKeyNode e.1 = false := by
  induction es with
  | nil => simp [splitEntries]
  | cons kv rest ih =>
    obtain ⟨k, v⟩ := kv
    rw [splitEntries_cons]
    by_cases hk : isMergeKeyNode k = true
    · simpa [hk] using ih
    · simp only [hk, Bool.false_eq_true, if_false, List.mem_cons, forall_eq_or_imp]
      exact ⟨by simp, ih⟩

/-- a list without merge keys is all "own" -/
theorem splitEntries_of_no_merge (es : List (ENode × ENode)) (h : ∀ e ∈ es, isMergeKeyNode e.1 = false) :
    splitEntries es = (es, []) := by
  induction es with
  | nil => rfl
  | cons kv rest ih =>
    obtain ⟨k, v⟩ := kv
    simp only [List.mem_cons, forall_eq_or_imp] at h
    rw [splitEntries_cons, ih h.2]
    simp [h.1]

/-! ### `sourceEntries` never delivers a merge key -/

mutual
theorem sourceEntries_no_merge : ∀ (n : ENode) (es : List (ENode × ENode)), sourceEntries n = some es →
    ∀ e ∈ es, isMergeKeyNode e.1 = false
  | .scalar v _ _ st _ _, es, h => by
    simp only [sourceEntries] at h
    split at h
    · cases h; simp
    · cases h
  | .map _ _ _ entries, es, h => by
    simp only [sourceEntries] at h
    exact mapSourceEntries_no_merge entries es h
  | .seq _ _ _ _ _ items, es, h => by
    simp only [sourceEntries] at h
    exact seqSourceEntries_no_merge items es h
theorem mapSourceEntries_no_merge : ∀ (l : List (ENode × ENode)) (es : List (ENode × ENode)),
    mapSourceEntries l = some es → ∀ e ∈ es, isMergeKeyNode e.1 = false
  | [], es, h => by simp [mapSourceEntries] at h; subst h; simp
  | (k, v) :: rest, es, h => by
    simp only [mapSourceEntries] at h
    split at h
    · split at h
      · rename_i b r hb hr
        cases h
        intro e he
        rcases List.mem_append.1 he with he | he
        · exact mapSourceEntries_no_merge rest r hr e he
        · exact sourceEntries_no_merge v b hb e he
      · cases h
    · rename_i hk
      split at h
      · rename_i r hr
        cases h
        intro e he
        rcases List.mem_cons.1 he with rfl | he
        · simpa using hk
        · exact mapSourceEntries_no_merge rest r hr e he
      · cases h
theorem seqSourceEntries_no_merge : ∀ (l : List ENode) (es : List (ENode × ENode)),
    seqSourceEntries l = some es → ∀ e ∈ es, isMergeKeyNode e.1 = false
  | [], es, h => by simp [seqSourceEntries] at h; subst h; simp
  | n :: ns, es, h => by
    simp only [seqSourceEntries] at h
    split at h
    · rename_i b r hb hr
      cases h
      intro e he
      rcases List.mem_append.1 he with he | he
      · exact seqSourceEntries_no_merge ns r hr e he
      · exact sourceEntries_no_merge n b hb e he
    · cases h
end

/-! ### `mapM` over `Option` -/

theorem mapM_option_mem {α β} (f : α → Option β) : ∀ (l : List α) (r : List β), l.mapM f = some r →
    ∀ b ∈ r, ∃ a ∈ l, f a = some b := by
  intro l
  induction l with
  | nil => intro r h; simp at h; subst h; simp
  | cons a l ih =>
    intro r h
    rw [List.mapM_cons] at h
    cases ha : f a with
    | none => simp [ha] at h
    | some b0 =>
      cases hl : l.mapM f with
      | none => simp [ha, hl] at h
      | some r0 =>
        simp [ha, hl] at h
        subst h
        intro b hb
        rcases List.mem_cons.1 hb with rfl | hb
        · exact ⟨a, List.mem_cons_self .., ha⟩
        · obtain ⟨a', ha', h'⟩ := ih r0 hl b hb
          exact ⟨a', List.mem_cons_of_mem _ ha', h'⟩

/-! ### `effEntries` -/

theorem effEntries_eq_some_iff (dup : DupPolicy) (entries es : List (ENode × ENode)) :
    effEntries dup entries = some es ↔
      ∃ ownKept batches, applyPolicy dup (splitEntries entries).1 [] = some ownKept ∧
        (splitEntries entries).2.reverse.mapM sourceEntries = some batches ∧
        es = ownKept ++ dropSeen batches.flatten (keys ownKept).reverse := by
  unfold effEntries
  cases h1 : applyPolicy dup (splitEntries entries).1 [] with
  | none => simp [h1]
  | some ownKept =>
    cases h2 : (splitEntries entries).2.reverse.mapM sourceEntries with
    | none => simp [h1, h2]
    | some batches =>
      simp only [h1, h2, Option.some.injEq, keys]
      constructor
      · intro h; exact ⟨ownKept, batches, rfl, rfl, h.symm⟩
      · rintro ⟨o, b, ho, hb, rfl⟩; cases ho; cases hb; rfl

/-- merged part: no merge keys, no key of an own entry, no repeated keys -/
theorem eff_merged_props (ownKept : List (ENode × ENode)) (merges : List ENode) (batches : List (List (ENode × ENode)))
    (hb : merges.mapM sourceEntries = some batches) :
    let merged := dropSeen batches.flatten (keys ownKept).reverse
    (∀ e ∈ merged, isMergeKeyNode e.1 = false) ∧ (keys merged).Nodup ∧
      (∀ m ∈ merged, ∀ o ∈ ownKept, fpOf m.1 ≠ fpOf o.1) := by
  intro merged
  obtain ⟨hnd, hdis⟩ := C04.dropSeen_nodup batches.flatten (keys ownKept).reverse
  refine ⟨fun e he => ?_, hnd, fun m hm o ho heq => ?_⟩
  · have he' := (C04.dropSeen_sublist batches.flatten _).subset he
    obtain ⟨b, hb', heb⟩ := List.mem_flatten.1 he'
    obtain ⟨n, _, hn⟩ := mapM_option_mem sourceEntries merges batches hb b hb'
    exact sourceEntries_no_merge n b hn e heb
  · apply hdis (fpOf m.1) (List.mem_map.2 ⟨m, hm, rfl⟩)
    rw [List.mem_reverse, heq]
    exact List.mem_map.2 ⟨o, ho, rfl⟩

end SaphyrVerif.Lemmas.C03
