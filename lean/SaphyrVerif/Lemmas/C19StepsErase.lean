import SaphyrVerif.Lemmas.C19Steps
/-!
C19: the value component of the instrumented copy (`Lemmas/C19Steps.lean`) IS the evaluator model:
`(fT args).val = f args` for every function, `(fS args).1 = f args` for every loop.
-/
set_option linter.unusedSimpArgs false
namespace SaphyrVerif.Lemmas.C19S
open SaphyrVerif SaphyrVerif.F64 SaphyrVerif.Robotics

namespace T
variable {α β : Type}
@[simp] theorem ofLoop_val (x : α × Nat) : (ofLoop x).val = x.1 := rfl
@[simp] theorem ret_val (a : α) : (ret a).val = a := rfl
@[simp] theorem tick_val (n : Nat) (x : T α) : (tick n x).val = x.val := rfl
@[simp] theorem call_val (x : T α) : (call x).val = x.val := rfl
@[simp] theorem lift_val (d : Nat) (x : T (HRes α)) : (lift d x).val = HRes.lift d x.val := rfl

theorem bind_val (x : T (Res α)) (k : α → T (Res β)) : (x.bind k).val = x.val.bind (fun a => (k a).val) := by
  unfold bind
  cases x.val <;> rfl

/-- erasure through a sequence -/
theorem bind_val' {x : T (Res α)} {k : α → T (Res β)} {r : Res α} {k' : α → Res β}
    (hx : x.val = r) (hk : ∀ a, (k a).val = k' a) : (x.bind k).val = r.bind k' := by
  rw [bind_val, hx]
  congr 1
  funext a
  exact hk a
end T

/-! ## loops -/

theorem skipWsLS_fst (pre rest : List Nat) : (skipWsLS pre rest).1 = skipWsL pre rest := by
  induction rest generalizing pre with
  | nil => rfl
  | cons c r ih =>
    unfold skipWsLS skipWsL
    split
    · exact ih _
    · rfl

@[simp] theorem skipWsT_val (st : St) : (skipWsT st).val = st.skipWs := by
  simp only [skipWsT, St.skipWs, skipWsLS_fst]

theorem signLoopS_fst (pre rest : List Nat) (s : Fl) : (signLoopS pre rest s).1 = signLoop pre rest s := by
  induction rest generalizing pre s with
  | nil => rfl
  | cons c r ih =>
    unfold signLoopS signLoop
    split
    · exact ih _ _
    · split
      · exact ih _ _
      · rfl

theorem identLoopS_fst (pre rest acc : List Nat) : (identLoopS pre rest acc).1 = identLoop pre rest acc := by
  induction rest generalizing pre acc with
  | nil => rfl
  | cons c r ih =>
    unfold identLoopS identLoop
    split
    · exact ih _ _
    · rfl

theorem numLoopS_fst (eU : RErr) (pre rest : List Nat) (k seen : Nat) (bufR : List Nat) (hv : Bool) :
    (numLoopS eU pre rest k seen bufR hv).1 = numLoop eU pre rest k seen bufR hv := by
  induction rest generalizing pre k seen bufR hv with
  | nil => rfl
  | cons c r ih =>
    unfold numLoopS numLoop
    split
    · split
      · rfl
      · exact ih _ _ _ _ _
    · split
      · cases prevIsDigit pre k with
        | ok p =>
          simp only []
          split
          · rfl
          · split
            · rfl
            · exact ih _ _ _ _ _
        | err e => rfl
        | panic s => rfl
      · rfl

theorem sexaLookS_fst (rest : List Nat) (sd lu : Bool) : (sexaLookS rest sd lu).1 = sexaLook rest sd lu := by
  induction rest generalizing sd lu with
  | nil => rfl
  | cons c r ih =>
    unfold sexaLookS sexaLook
    split
    · exact ih _ _
    · split
      · split
        · rfl
        · exact ih _ _
      · rfl

theorem readUintS_fst (pre rest : List Nat) (v : Fl) (d : Nat) (p : Bool) :
    (readUintS pre rest v d p).1 = readUint pre rest v d p := by
  induction rest generalizing pre v d p with
  | nil => rfl
  | cons c r ih =>
    unfold readUintS readUint
    split
    · split
      · rfl
      · exact ih _ _ _ _
    · split
      · split
        · rfl
        · split
          · rfl
          · exact ih _ _ _ _
      · rfl

theorem readFracS_fst (pre rest : List Nat) (num sc : Fl) (d : Nat) (p : Bool) :
    (readFracS pre rest num sc d p).1 = readFrac pre rest num sc d p := by
  induction rest generalizing pre num sc d p with
  | nil => rfl
  | cons c r ih =>
    unfold readFracS readFrac
    split
    · simp only []
      split
      · rfl
      · exact ih _ _ _ _ _
    · split
      · split
        · rfl
        · split
          · rfl
          · exact ih _ _ _ _ _
      · rfl

/-! ## functions -/

@[simp] theorem readUintT_val (pre rest : List Nat) :
    (readUintT pre rest).val = readUint pre rest (zero F false) 0 false := by
  simp [readUintT, readUintS_fst]

@[simp] theorem readU32T_val (pre rest : List Nat) : (readU32T pre rest).val = readU32 pre rest := by
  simp only [readU32T, readU32, T.call_val, readUintT_val]
  cases readUint pre rest (zero F false) 0 false with
  | ok a => obtain ⟨p1, r1, v, d⟩ := a; rfl
  | err e => rfl
  | panic s => rfl

@[simp] theorem readFracT_val (pre rest : List Nat) :
    (readFracT pre rest).val = readFrac pre rest (zero F false) ONE 0 false := by
  simp [readFracT, readFracS_fst]

theorem trySexagesimalT_val (tag : Nat) (st : St) : (trySexagesimalT tag st).val = trySexagesimal tag st := by
  unfold trySexagesimalT trySexagesimal
  simp only [T.call_val, T.tick_val, sexaLookS_fst]
  split
  · rfl
  split
  · rfl
  refine T.bind_val' (by simp) ?_
  rintro ⟨pre1, rest1, degWhole, d1⟩
  simp only []
  split
  · refine T.bind_val' (by simp) ?_
    rintro ⟨pre2, rest2, minsU, d2⟩
    simp only []
    split
    · rfl
    · refine T.bind_val' ?_ ?_
      · split
        · refine T.bind_val' (by simp) ?_
          rintro ⟨pre3, rest3, secsU, d3⟩
          simp only []
          split
          · rfl
          · split
            · refine T.bind_val' (by simp) ?_
              rintro ⟨pre4, rest4, frac, df⟩
              rfl
            · rename_i hne
              split
              · exact absurd rfl (hne _)
              · rfl
        · rename_i hne
          split
          · exact absurd rfl (hne _)
          · rfl
      · rintro ⟨preE, restE, secs, total⟩
        simp only []
        split
        · rfl
        · split
          · split <;> rfl
          · split <;> rfl
  · rename_i hne
    split
    · exact absurd rfl (hne _)
    · rfl

theorem numFracS_fst (n1 : NumSt) : (numFracS n1).1 = numFrac n1 := by
  obtain ⟨p, rest, seen, bufR, hd⟩ := n1
  unfold numFracS numFrac
  simp only []
  split
  · exact numLoopS_fst _ _ _ _ _ _ _
  · rename_i hne
    split
    · exact absurd rfl (hne _)
    · rfl

theorem numExpS_fst (n2 : NumSt) : (numExpS n2).1 = numExp n2 := by
  obtain ⟨p, rest, seen, bufR, hd⟩ := n2
  unfold numExpS numExp
  simp only []
  split
  · split
    · rename_i hc
      simp only [numLoopS_fst, hc, ↓reduceIte]
      cases numLoop RErr.underscoreExponent _ _ 0 seen _ false <;> rfl
    · rename_i hc
      simp only [hc, Bool.false_eq_true, ↓reduceIte]
  · rfl

theorem parseNumberOrSpecialT_val (tag : Nat) (st : St) :
    (parseNumberOrSpecialT tag st).val = parseNumberOrSpecial tag st := by
  unfold parseNumberOrSpecialT parseNumberOrSpecial
  simp only [T.call_val, T.tick_val]
  split
  · refine T.bind_val' (by simp) ?_
    rintro ⟨p, r⟩
    rfl
  simp only [T.tick_val]
  split
  · refine T.bind_val' (by simp) ?_
    rintro ⟨p, r⟩
    rfl
  refine T.bind_val' (trySexagesimalT_val tag st) ?_
  intro sx
  split
  · rfl
  · refine T.bind_val' (by simp [numLoopS_fst]) ?_
    intro n1
    refine T.bind_val' (by simp [numFracS_fst]) ?_
    intro n2
    refine T.bind_val' (by simp [numExpS_fst]) ?_
    intro n3
    split
    · split
      · rfl
      · simp only [T.call_val, T.tick_val]
        cases fromStr F (List.take (n3.pre.length - st.pre.length) n3.pre).reverse <;> rfl
    · simp only [T.call_val, T.tick_val]
      cases fromStr F n3.bufR.reverse <;> rfl

@[simp] theorem exitAfterT_val {α} (r : T (Res (α × St))) : (exitAfterT r).val = exitAfter r.val := rfl

/-- the three-way match on `')'` at the end of a parenthesis / function call -/
theorem rparen_val (e1 e2 : RErr) (st : St) (f : St → Res (Eval × St)) (fT : St → T (Res (Eval × St)))
    (hf : ∀ s, (fT s).val = f s) :
    (match st.rest with
      | 41 :: r' => fT (st.adv 41 r')
      | c :: r' => T.ret ((st.adv c r').err e1)
      | [] => T.ret (st.err e2)).val =
    (match st.rest with
      | 41 :: r' => f (st.adv 41 r')
      | c :: r' => (st.adv c r').err e1
      | [] => st.err e2) := by
  obtain ⟨p, r, d, t⟩ := st
  simp only []
  cases r with
  | nil => rfl
  | cons c r =>
    by_cases hc : c = 41
    · subst hc; exact hf _
    · split
      · rename_i h; cases h; exact absurd rfl hc
      · rename_i h1 h; cases h; rfl
      · rename_i h; cases h

theorem parseIdentOrSpecialT_val (ET : St → T (Res (Eval × St))) (E : St → Res (Eval × St))
    (hE : ∀ st, (ET st).val = E st) (st : St) :
    (parseIdentOrSpecialT ET st).val = parseIdentOrSpecial E st := by
  unfold parseIdentOrSpecialT parseIdentOrSpecial
  simp only [T.call_val, T.tick_val, identLoopS_fst, skipWsT_val]
  split
  · rfl
  split
  · rfl
  split
  · rfl
  split
  · rfl
  split
  · rfl
  split
  · generalize ({ st with pre := (identLoop st.pre st.rest []).1, rest := (identLoop st.pre st.rest []).2.1 } : St).skipWs = st2
    obtain ⟨p2, r2, d2, t2⟩ := st2
    simp only []
    cases r2 with
    | nil => rfl
    | cons c r =>
      by_cases hc : c = 40
      · subst hc
        simp only []
        refine T.bind_val' rfl ?_
        intro st4
        refine T.bind_val' (by simp [hE]) ?_
        rintro ⟨⟨v, u1, u2⟩, st5⟩
        simp only [T.tick_val, skipWsT_val]
        exact rparen_val _ _ _
          (fun s => if (List.map lowerByte (identLoop st.pre st.rest []).2.2.reverse == [100, 101, 103]) = true
            then Res.ok ((mul F v DEG2RAD, true, false), s) else Res.ok ((v, true, false), s))
          (fun s => if (List.map lowerByte (identLoop st.pre st.rest []).2.2.reverse == [100, 101, 103]) = true
            then T.ret (Res.ok ((mul F v DEG2RAD, true, false), s)) else T.ret (Res.ok ((v, true, false), s)))
          (by intro s; split <;> rfl)
      · split
        · rename_i h; cases h; exact absurd rfl hc
        · rename_i h1 h
          cases h
          split
          · rename_i h; cases h; exact absurd rfl hc
          · rename_i h; cases h; rfl
          · rename_i h; cases h
        · rename_i h; cases h
  · rfl

theorem primaryT_val (tag : Nat) (ET : St → T (Res (Eval × St))) (E : St → Res (Eval × St))
    (hE : ∀ st, (ET st).val = E st) (st0 : St) :
    (primaryT tag ET st0).val = primary tag E st0 := by
  unfold primaryT primary
  simp only [T.call_val, T.tick_val, skipWsT_val]
  generalize st0.skipWs = st
  obtain ⟨p0, r0, d0, t0⟩ := st
  simp only []
  cases r0 with
  | nil => rfl
  | cons c r =>
    simp only []
    split
    · refine T.bind_val' rfl ?_
      intro st1
      refine T.bind_val' (by simp [hE]) ?_
      rintro ⟨ev, st2⟩
      simp only [T.tick_val, skipWsT_val]
      exact rparen_val _ _ _ (fun s => Res.ok (ev, s)) (fun s => T.ret (Res.ok (ev, s))) (fun _ => rfl)
    · split
      · exact parseNumberOrSpecialT_val tag _
      · split
        · exact parseIdentOrSpecialT_val ET E hE _
        · rfl

theorem unaryT_val (tag : Nat) (ET : St → T (Res (Eval × St))) (E : St → Res (Eval × St))
    (hE : ∀ st, (ET st).val = E st) (st0 : St) :
    (unaryT tag ET st0).val = unary tag E st0 := by
  unfold unaryT unary
  simp only [T.call_val, T.tick_val, skipWsT_val, signLoopS_fst]
  refine T.bind_val' (primaryT_val tag ET E hE _) ?_
  rintro ⟨⟨v, uu, sp⟩, st'⟩
  rfl

theorem termLoopT_val (tag : Nat) (ET : St → T (Res (Eval × St))) (E : St → Res (Eval × St))
    (hE : ∀ st, (ET st).val = E st) (k : Nat) (ev : Eval) (st0 : St) :
    (termLoopT tag ET k ev st0).val = termLoop tag E k ev st0 := by
  induction k generalizing ev st0 with
  | zero => rfl
  | succ k ih =>
    obtain ⟨v, uu, sp⟩ := ev
    unfold termLoopT termLoop
    simp only [T.tick_val, skipWsT_val]
    generalize st0.skipWs = st
    obtain ⟨p0, r0, d0, t0⟩ := st
    simp only []
    cases r0 with
    | nil => rfl
    | cons c r =>
    simp only []
    split
    · refine T.bind_val' (unaryT_val tag ET E hE _) ?_
      rintro ⟨⟨rhs, u2, s2⟩, st'⟩
      exact ih _ _
    · split
      · refine T.bind_val' (unaryT_val tag ET E hE _) ?_
        rintro ⟨⟨rhs, u2, s2⟩, st'⟩
        exact ih _ _
      · rfl

theorem termT_val (tag lf : Nat) (ET : St → T (Res (Eval × St))) (E : St → Res (Eval × St))
    (hE : ∀ st, (ET st).val = E st) (st : St) :
    (termT tag lf ET st).val = term tag lf E st := by
  unfold termT term
  simp only [T.call_val]
  refine T.bind_val' (unaryT_val tag ET E hE _) ?_
  rintro ⟨ev, st'⟩
  exact termLoopT_val tag ET E hE _ _ _

theorem exprLoopT_val (tag lf : Nat) (ET : St → T (Res (Eval × St))) (E : St → Res (Eval × St))
    (hE : ∀ st, (ET st).val = E st) (k : Nat) (ev : Eval) (st0 : St) :
    (exprLoopT tag lf ET k ev st0).val = exprLoop tag lf E k ev st0 := by
  induction k generalizing ev st0 with
  | zero => rfl
  | succ k ih =>
    obtain ⟨v, uu, sp⟩ := ev
    unfold exprLoopT exprLoop
    simp only [T.tick_val, skipWsT_val]
    generalize st0.skipWs = st
    obtain ⟨p0, r0, d0, t0⟩ := st
    simp only []
    cases r0 with
    | nil => rfl
    | cons c r =>
    simp only []
    split
    · refine T.bind_val' (termT_val tag lf ET E hE _) ?_
      rintro ⟨⟨rhs, u2, s2⟩, st'⟩
      exact ih _ _
    · split
      · refine T.bind_val' (termT_val tag lf ET E hE _) ?_
        rintro ⟨⟨rhs, u2, s2⟩, st'⟩
        exact ih _ _
      · rfl

theorem exprT_val (tag lf n : Nat) (st : St) : (exprT tag lf n st).val = expr tag lf n st := by
  induction n generalizing st with
  | zero => rfl
  | succ n ih =>
    unfold exprT expr
    simp only [T.call_val]
    refine T.bind_val' (termT_val tag lf _ _ ih _) ?_
    rintro ⟨ev, st'⟩
    exact exprLoopT_val tag lf _ _ ih _ _ _

/-- ERASURE: the value component of the instrumented evaluator is the evaluator model. -/
theorem evalExprT_val (tag : Nat) (s : List Nat) : (evalExprT tag s).val = evalExpr tag s := by
  unfold evalExprT evalExpr
  simp only [T.call_val, T.tick_val, skipWsT_val]
  refine T.bind_val' (exprT_val tag _ _ _) ?_
  rintro ⟨⟨v, used, plain⟩, st1⟩
  simp only [T.tick_val, skipWsT_val]
  split
  · rfl
  · split
    · rfl
    · split <;> rfl

end SaphyrVerif.Lemmas.C19S
