import SaphyrVerif.Lemmas.C03_TypedC
/-!
Helper lemmas for C03 (typed level), part D — the main induction: a tree and its written-out form have the
same typed meaning at every position; by induction on the nesting depth of the tree and the size of the type
(the same scheme as `Lemmas.C05.allRef`).
-/
namespace SaphyrVerif.Lemmas.C03T
open SaphyrVerif SaphyrVerif.Scalars SaphyrVerif.Pump SaphyrVerif.De SaphyrVerif.Spec
open SaphyrVerif.Lemmas.C04 (keys)

/-- the statement for nodes of depth at most `d` and types of size at most `s` -/
def Agree (cfg : Cfg) (d s : Nat) : Prop :=
  ∀ (ty : Ty) (t : ENode), sizeOf ty ≤ s → depthOf t ≤ d →
    (enumFree ty = true ∨ enumStable cfg.dup t = true) → interp cfg ty t = interp cfg ty (writeOut cfg.dup t)

/-- the sequence case -/
theorem agree_seq (cfg : Cfg) (d s : Nat) (ihd : ∀ s, Agree cfg d s) (ihs : Agree cfg (d + 1) s)
    (ty : Ty) (a tag : Nat) (rt : Option (List Char)) (l el : Loc) (items : List ENode)
    (hs : sizeOf ty ≤ s + 1) (hd : depthOf (ENode.seq a tag rt l el items) ≤ d + 1)
    (hH : enumFree ty = true ∨ enumStableL cfg.dup items = true) :
    interp cfg ty (.seq a tag rt l el items) = interp cfg ty (.seq a tag rt l el (writeOutL cfg.dup items)) := by
  simp only [C05.depthOf_seq] at hd
  have hrel := writeOutL_rel cfg.dup items
  -- the same node with other marks, at a smaller type
  have hsame : ∀ ty' a tag rt l el, sizeOf ty' ≤ s → (enumFree ty = true → enumFree ty' = true) →
      interp cfg ty' (.seq a tag rt l el items) = interp cfg ty' (.seq a tag rt l el (writeOutL cfg.dup items)) := by
    intro ty' a tag rt l el hs' hty
    have := ihs ty' (.seq a tag rt l el items) hs' (by simp; omega) (hH.imp hty (by rw [enumStable_seq]; exact id))
    rwa [writeOut_seq] at this
  -- items
  have hitem : ∀ ty', (enumFree ty = true → enumFree ty' = true) → ∀ n n', n ∈ items →
      writeOut cfg.dup n = n' → interp cfg ty' n = interp cfg ty' n' := by
    intro ty' hty n n' hn hxn
    have := C05.depthOfL_mem hn
    subst hxn
    exact ihd (sizeOf ty') ty' n (Nat.le_refl _) (by omega) (hH.imp hty (fun h => enumStableL_mem h hn))
  cases ty with
  | bool => rw [interp]
  | int sg w => rw [interp]
  | float w => rw [interp]
  | char => rw [interp]
  | string => rw [interp]
  | unit => rw [interp]
  | bytes =>
    rw [interp_bytes_seq, interp_bytes_seq, mapM_lrel hrel (fun n n' _ h => by subst h; exact byteItem_writeOut _ cfg n)]
  | newtype ty' =>
    rw [interp_newtype, interp_newtype]
    exact hsame ty' a tag rt l el (by simp at hs; omega) (by rw [enumFree_newtype]; exact id)
  | option ty' =>
    rw [interp_option_seq, interp_option_seq]
    congr 1
    exact hsame ty' a tag rt l el (by simp at hs; omega) (by rw [enumFree_option]; exact id)
  | seq te =>
    rw [C05.interp_seq_seq, C05.interp_seq_seq]
    congr 1
    exact listFrom_congr hrel (hitem te (by rw [enumFree_seq]; exact id))
  | tuple ts =>
    rw [C05.interp_tuple, C05.interp_tuple]
    simp only [tupleNode]
    congr 1
    apply tupleFrom_congr hrel
    intro f hf n n' hn hxn
    obtain ⟨t0, ht0, rfl⟩ := interpFns_mem cfg ts f hf
    exact hitem t0 (fun h => enumFreeL_mem (by rw [enumFree_tuple] at h; exact h) ht0) n n' hn hxn
  | map kt vt => rw [C05.interp_map_seq, C05.interp_map_seq]
  | struct fields deny =>
    rw [interp_struct, interp_struct]
    simp only [structNode]
  | any =>
    rw [interp_any_seq, interp_any_seq]
    congr 1
    exact listFrom_congr hrel (hitem .any (fun _ => enumFree_any))
  | enum name variants =>
    have hst : enumStableL cfg.dup items = true := by
      rcases hH with h | h
      · rw [enumFree_enum] at h; cases h
      · exact h
    rw [interp_enum, interp_enum]
    simp only [enumFrom]
    cases simpleTaggedEnumName rt tag with
    | none => rfl
    | some tn =>
      simp only []
      split
      · apply variant_payload_congr cfg name variants tn (.seq a tagNone none l el items)
          (.seq a tagNone none l el (writeOutL cfg.dup items)) true rfl
        intro ty' hty'
        have := ihs ty' (.seq a tagNone none l el items) (by omega) (by simp; omega)
          (Or.inr (by rw [enumStable_seq]; exact hst))
        rwa [writeOut_seq] at this
      · rfl

/-- the mapping case, when the written-out mapping has effective entries -/
theorem agree_map (cfg : Cfg) (d s : Nat) (ihd : ∀ s, Agree cfg d s) (ihs : Agree cfg (d + 1) s)
    (ty : Ty) (a : Nat) (l el : Loc) (entries es' : List (ENode × ENode))
    (hs : sizeOf ty ≤ s + 1) (hd : depthOf (ENode.map a l el entries) ≤ d + 1)
    (hf' : effEntries cfg.dup (writeOutE cfg.dup entries) = some es')
    (hH : enumFree ty = true ∨ enumStable cfg.dup (.map a l el entries) = true) :
    interp cfg ty (.map a l el entries) = interp cfg ty (.map a l el es') := by
  simp only [C05.depthOf_map] at hd
  have hx : writeOut cfg.dup (.map a l el entries) = .map a l el es' := by
    rw [writeOut_map, hf']
  have hrel := effEntries_writeOut cfg.dup entries
  rw [hf'] at hrel
  obtain ⟨es, hes, hv⟩ := hrel.of_some_right
  have hidem : effEntries cfg.dup es' = some es' := eff_idem _ _ es' hf'
  have hdepth := effEntries_depth cfg.dup entries es hes
  -- the same node at a smaller type
  have hsame : ∀ ty', sizeOf ty' ≤ s → (enumFree ty = true → enumFree ty' = true) →
      interp cfg ty' (.map a l el entries) = interp cfg ty' (.map a l el es') := by
    intro ty' hs' hty
    have := ihs ty' (.map a l el entries) hs' (by simp; omega) (hH.imp hty id)
    rwa [hx] at this
  -- values of the effective entries
  have hval : ∀ ty', (enumFree ty = true → enumFree ty' = true) → ∀ e ∈ es, ∀ v',
      writeOut cfg.dup e.2 = v' → interp cfg ty' e.2 = interp cfg ty' v' := by
    intro ty' hty e he v' hxv
    have := (hdepth e he).2
    subst hxv
    refine ihd (sizeOf ty') ty' e.2 (Nat.le_refl _) (by omega) (hH.imp hty (fun h => ?_))
    rw [enumStable_map, Bool.and_eq_true] at h
    exact enumStable_eff h.2 hes e he
  cases ty with
  | bool => rw [interp]
  | int sg w => rw [interp]
  | float w => rw [interp]
  | char => rw [interp]
  | string => rw [interp]
  | unit => rw [interp]
  | bytes => rw [interp]
  | newtype ty' =>
    rw [interp_newtype, interp_newtype]
    exact hsame ty' (by simp at hs; omega) (by rw [enumFree_newtype]; exact id)
  | option ty' =>
    rw [interp_option_map, interp_option_map]
    congr 1
    exact hsame ty' (by simp at hs; omega) (by rw [enumFree_option]; exact id)
  | seq te => rw [C05.interp_seq_map, C05.interp_seq_map]
  | tuple ts =>
    rw [C05.interp_tuple, C05.interp_tuple]
    simp only [tupleNode]
  | map kt vt =>
    rw [C05.interp_map_map, C05.interp_map_map, hes, hidem]
    simp only [Option.bind_some]
    congr 1
    exact pairsFrom_congr hv (hval vt (by rw [enumFree_map]; exact id))
  | struct fields deny =>
    rw [interp_struct, interp_struct, C05.structNode_map, C05.structNode_map, hes, hidem]
    simp only [Option.bind_some]
    have hfe : fieldEntriesFrom cfg (fieldFns cfg fields) deny es [] =
        fieldEntriesFrom cfg (fieldFns cfg fields) deny es' [] := by
      apply fieldEntriesFrom_congr cfg _ deny hv
      · intro f hf e he v' hxv
        obtain ⟨nt, hnt, rfl⟩ := fieldFns_mem cfg fields f hf
        exact hval nt.2 (fun h => enumFreeF_mem (by rw [enumFree_struct] at h; exact h) hnt) e he v' hxv
      · intro e he v' hxv
        have := hval .any (fun _ => enumFree_any) e he v' hxv
        rwa [C05.interp_any, C05.interp_any] at this
    rw [hfe]
  | any =>
    rw [interp_any_map, interp_any_map, hes, hidem]
    simp only []
    congr 1
    exact pairsFrom_congr hv (hval .any (fun _ => enumFree_any))
  | enum name variants =>
    have hst : shapeStable cfg.dup entries = true ∧ enumStableE cfg.dup entries = true := by
      rcases hH with h | h
      · rw [enumFree_enum] at h; cases h
      · rw [enumStable_map, Bool.and_eq_true] at h; exact h
    rw [interp_enum, interp_enum]
    by_cases hlen : entries.length = 1
    · -- one entry with an ordinary key
      obtain ⟨⟨k, p⟩, rfl⟩ := List.length_eq_one_iff.1 hlen
      have hk : isMergeKeyNode k = false := by
        have := hst.1
        simpa [shapeStable] using this
      rw [eff_singleton _ k p hk] at hes
      cases hes
      cases hv with
      | @cons _ _ p' _ _ hp hnil =>
        cases hnil
        cases k with
        | scalar kv ktag krt kst ka kl =>
          rw [C05.enumFrom_map_scalarKey, C05.enumFrom_map_scalarKey]
          simp only [List.isEmpty_nil, if_true]
          split
          · rfl
          · subst hp
            apply variant_payload_congr cfg name variants kv p (writeOut cfg.dup p) false (writeOut_isNullish _ p)
            intro ty' hty'
            have hpd : depthOf p ≤ d := by simp at hd; omega
            refine ihs ty' p (by omega) (by omega) (Or.inr ?_)
            have := enumStableE_mem hst.2 (List.mem_cons_self (a := (ENode.scalar kv ktag krt kst ka kl, p)) (l := []))
            simpa [hk] using this
        | seq => rw [C05.enumFrom_map_seqKey, C05.enumFrom_map_seqKey]
        | map => rw [C05.enumFrom_map_mapKey, C05.enumFrom_map_mapKey]
    · -- not one entry, and not one effective entry
      have hne : es.length ≠ 1 := by
        have h1 := hst.1
        unfold shapeStable at h1
        split at h1
        · simp at hlen
        · simpa [hes] using h1
      rw [enumFrom_map_not_singleton _ _ _ _ _ _ _ hlen,
        enumFrom_map_not_singleton _ _ _ _ _ _ _ (by rw [← hv.length_eq]; exact hne)]

theorem agree_all (cfg : Cfg) : ∀ d s, Agree cfg d s := by
  intro d
  induction d with
  | zero => intro s ty t _ hd; have := C05.depthOf_pos t; omega
  | succ d ihd =>
    intro s
    induction s with
    | zero => intro ty t hs; cases ty <;> simp at hs
    | succ s ihs =>
      intro ty t hs hd hH
      cases t with
      | scalar v tag rt st a l => rw [writeOut_scalar]
      | seq a tag rt l el items =>
        rw [writeOut_seq]
        exact agree_seq cfg d s ihd ihs ty a tag rt l el items hs hd (hH.imp id (by rw [enumStable_seq]; exact id))
      | map a l el entries =>
        rw [writeOut_map]
        cases hf' : effEntries cfg.dup (writeOutE cfg.dup entries) with
        | none => rfl
        | some es' => exact agree_map cfg d s ihd ihs ty a l el entries es' hs hd hf' hH

/-- a tree and its written-out form have the same typed meaning -/
theorem writeOut_interp (cfg : Cfg) (ty : Ty) (t : ENode)
    (hH : enumFree ty = true ∨ enumStable cfg.dup t = true) : interp cfg ty t = interp cfg ty (writeOut cfg.dup t) :=
  agree_all cfg (depthOf t) (sizeOf ty) ty t (Nat.le_refl _) (Nat.le_refl _) hH

end SaphyrVerif.Lemmas.C03T
