import SaphyrVerif.Lemmas.C13_Layout
/-!
C13 proof machinery, part 2: the EMITTER INVARIANT.  For every value of the fragment and every state
that satisfies the context predicate of a position (`ValCtx`: right after `key:`; `ItemCtx`: right
after `- `; `LineCtx`: at the start of a line), the state machine `ser` succeeds, appends exactly
the text of the layout function, and re-establishes the flags the next sibling relies on.
-/
set_option linter.unusedSimpArgs false
set_option linter.unusedVariables false
set_option linter.unusedSectionVars false
namespace SaphyrVerif.Emit
open SaphyrVerif

/-- flags that never change inside the fragment -/
structure Base (s : St) : Prop where
  depth : s.depth = 0
  inFlow : s.inFlow = 0
  pendingFlow : s.pendingFlow = none
  pss : s.pendingStrStyle = none
  pic : s.pendingInlineComment = none

/-- right after `key:` of a mapping whose keys are at depth `m` -/
structure ValCtx (s : St) (m : Nat) : Prop extends Base s where
  als : s.atLineStart = false
  psc : s.pendingSpaceAfterColon = true
  pim : s.pendingInlineMap = false
  add : s.afterDashDepth = none
  cmd : s.currentMapDepth = some m ∨ (s.currentMapDepth = none ∧ m = 0)

/-- right after `- ` of a sequence whose dashes are at depth `d` -/
structure ItemCtx (s : St) (d : Nat) : Prop extends Base s where
  als : s.atLineStart = false
  psc : s.pendingSpaceAfterColon = false
  pim : s.pendingInlineMap = true
  add : s.afterDashDepth = some d

/-- at the start of a line, nothing pending -/
structure LineCtx (s : St) : Prop extends Base s where
  als : s.atLineStart = true
  psc : s.pendingSpaceAfterColon = false

/-- what a value leaves behind: a finished line, nothing pending, `current_map_depth` restored -/
structure Post (s s' : St) : Prop extends Base s' where
  als : s'.atLineStart = true
  psc : s'.pendingSpaceAfterColon = false
  cmd : s'.currentMapDepth = s.currentMapDepth

theorem LineCtx.ofPost {s s' : St} (h : Post s s') : LineCtx s' :=
  { depth := h.depth, inFlow := h.inFlow, pendingFlow := h.pendingFlow, pss := h.pss, pic := h.pic,
    als := h.als, psc := h.psc }

variable {o : Opts} {f : ScalarFns}

@[simp] theorem renderLines_nil : renderLines [] = [] := rfl
@[simp] theorem renderLines_cons (l : Line) (ls : List Line) :
    renderLines (l :: ls) = spaces l.indent ++ l.text ++ ['\n'] ++ renderLines ls := rfl
theorem renderLines_append (a b : List Line) : renderLines (a ++ b) = renderLines a ++ renderLines b := by
  induction a with
  | nil => rfl
  | cons l ls ih => simp [ih, List.append_assoc]

/-- result shape of a value: head (rest of the current line), following lines, outgoing `lvb` -/
def Good (s : St) (r : List Char × List Line × Bool) (res : Except EmitErr St) : Prop :=
  ∃ s', res = .ok s' ∧ s'.out = s.out ++ r.1 ++ ['\n'] ++ renderLines r.2.1 ∧
    s'.lastValueWasBlock = r.2.2 ∧ Post s s'

/-- result shape of a list of items / entries that start at a line start -/
def GoodLines (s : St) (r : List Line × Bool) (s' : St) : Prop :=
  s'.out = s.out ++ renderLines r.1 ∧ s'.lastValueWasBlock = r.2 ∧ Post s s'

/-! ### leaf tokens -/

theorem serToken_wsp (tok : List Char) (s : St) :
    serToken o tok (writeSpaceIfPending s) = serToken o tok s := by
  unfold serToken writeSpaceIfPending
  by_cases h : s.pendingSpaceAfterColon = true <;> simp [h, St.write]

theorem isSafeStr_no_nl {s : List Char} (h : isSafeStr s = true) : s.contains '\n' = false := by
  cases s with
  | nil => simp [isSafeStr] at h
  | cons c cs =>
    simp only [isSafeStr, Bool.and_eq_true, Bool.not_eq_eq_eq_not, Bool.not_true] at h
    obtain ⟨⟨hc, hcs⟩, _⟩ := h
    have h1 : ∀ x ∈ c :: cs, x ≠ '\n' := by
      intro x hx
      simp only [List.mem_cons] at hx
      rcases hx with rfl | hx
      · intro e; subst e; simp [isLowerAlpha] at hc
      · have := List.all_eq_true.mp hcs x hx
        intro e; subst e; simp [isLowerAlnum, isLowerAlpha] at this
    simp only [List.contains_eq_mem, decide_eq_false_iff_not]
    intro hm
    exact h1 _ hm rfl

theorem isSafeStr_not_punct {s : List Char} (h : isSafeStr s = true) :
    (s == ['.'] || s == ['#'] || s == ['-']) = false := by
  cases s with
  | nil => simp [isSafeStr] at h
  | cons c cs =>
    simp only [isSafeStr, Bool.and_eq_true] at h
    obtain ⟨⟨hc, _⟩, _⟩ := h
    have : c ≠ '.' ∧ c ≠ '#' ∧ c ≠ '-' := by
      refine ⟨?_, ?_, ?_⟩ <;> (intro e; subst e; simp [isLowerAlpha] at hc)
    simp [this.1, this.2.1, this.2.2]

/-- a safe, short string is emitted like a fixed token -/
theorem serStr_safe (ho : FragOpts o) (hf : SafeContract f) {v : List Char} (hs : isSafeStr v = true)
    (hl : v.length ≤ o.foldedWrapCol) {s : St} (h1 : s.pendingStrStyle = none) (h2 : s.inFlow = 0) :
    serStr o f v s = serToken o v s := by
  have hnl := isSafeStr_no_nl hs
  have hp := isSafeStr_not_punct hs
  have hv := hf.value v o.yaml12 false hs
  have hq := ho.quoteAll
  have hlen : ¬ (o.foldedWrapCol < v.length) := by omega
  unfold serStr
  simp only [h1, h2, hq, hnl, hv, hlen, Option.isNone_none, beq_self_eq_true, Bool.not_false, Bool.and_self,
    Bool.and_true, if_true, Bool.false_eq_true, if_false, Bool.not_true, decide_false, Bool.and_false, ite_self]
  simp only [hp, Bool.false_eq_true, if_false, plainOrQuotedValue, hq, h2, hf.value v o.yaml12 _ hs, hf.shape v hs, if_true,
    Bool.not_false, Bool.and_self]
  unfold serToken writeSpaceIfPending
  by_cases hpsc : s.pendingSpaceAfterColon = true <;> simp [hpsc, St.write, indentIfLineStart, writeIndent]


/-- a leaf token in value position: ` tok` + line break -/
theorem serToken_val (tok : List Char) {s : St} {m : Nat} (h : ValCtx s m) :
    Good s (' ' :: tok, [], false) (.ok (serToken o tok s)) := by
  have := h.als; have := h.psc; have := h.inFlow; have := h.pic
  refine ⟨_, rfl, ?_, ?_, ?_⟩
  · simp [serToken, writeSpaceIfPending, indentIfLineStart, writeEndOfScalar, newline, St.write, *]
  · simp [serToken, writeSpaceIfPending, indentIfLineStart, writeEndOfScalar, newline, St.write, *]
  · constructor
    · constructor <;> simp [serToken, writeSpaceIfPending, indentIfLineStart, writeEndOfScalar, newline, St.write, *, h.depth, h.pendingFlow, h.pss]
    all_goals simp [serToken, writeSpaceIfPending, indentIfLineStart, writeEndOfScalar, newline, St.write, *]

/-- a leaf token right after `- ` -/
theorem serToken_item (tok : List Char) {s : St} {d : Nat} (h : ItemCtx s d) :
    Good s (tok, [], false) (.ok (serToken o tok s)) := by
  have := h.als; have := h.psc; have := h.inFlow; have := h.pic
  refine ⟨_, rfl, ?_, ?_, ?_⟩
  · simp [serToken, writeSpaceIfPending, indentIfLineStart, writeEndOfScalar, newline, St.write, *]
  · simp [serToken, writeSpaceIfPending, indentIfLineStart, writeEndOfScalar, newline, St.write, *]
  · constructor
    · constructor <;> simp [serToken, writeSpaceIfPending, indentIfLineStart, writeEndOfScalar, newline, St.write, *, h.depth, h.pendingFlow, h.pss]
    all_goals simp [serToken, writeSpaceIfPending, indentIfLineStart, writeEndOfScalar, newline, St.write, *]

/-- a leaf token at a line start at depth 0 (the root) -/
theorem serToken_line (ho : FragOpts o) (tok : List Char) {s : St} (h : LineCtx s) :
    GoodLines s ([⟨0, tok⟩], false) (serToken o tok s) := by
  have := h.als; have := h.psc; have := h.inFlow; have := h.pic; have := h.depth; have := ho.yaml12
  refine ⟨?_, ?_, ?_⟩
  · by_cases hd : s.docStarted = true <;>
      simp [serToken, writeSpaceIfPending, indentIfLineStart, writeIndent, writeEndOfScalar, newline, St.write, spaces, *]
  · by_cases hd : s.docStarted = true <;>
      simp [serToken, writeSpaceIfPending, indentIfLineStart, writeIndent, writeEndOfScalar, newline, St.write, *]
  · constructor
    · constructor <;> (by_cases hd : s.docStarted = true <;>
        simp [serToken, writeSpaceIfPending, indentIfLineStart, writeIndent, writeEndOfScalar, newline, St.write, *, h.depth, h.pendingFlow, h.pss])
    all_goals (by_cases hd : s.docStarted = true <;>
      simp [serToken, writeSpaceIfPending, indentIfLineStart, writeIndent, writeEndOfScalar, newline, St.write, *])

/-! ### sequence steps -/

theorem spaces_col (ho : FragOpts o) (d : Nat) : spaces (o.indentStep * d) = spaces (col d) := by
  simp [ho.indent, col]

/-- `seqElemPrefix` at a line start: indentation, `- `, and the item context -/
theorem seqElemPrefix_line (ho : FragOpts o) {s : St} {q : SeqSer} {d : Nat} (h : LineCtx s) (hq : q.depth = d)
    (hp : q.first = true → s.pendingInlineMap = false) :
    ItemCtx (seqElemPrefix o q s) d ∧ (seqElemPrefix o q s).out = s.out ++ spaces (col d) ++ ['-', ' '] ∧
    (seqElemPrefix o q s).lastValueWasBlock = s.lastValueWasBlock ∧
    (seqElemPrefix o q s).currentMapDepth = s.currentMapDepth := by
  have := h.als; have := h.psc; have := ho.yaml12; have := ho.indent
  subst hq
  cases hf : q.first
  · refine ⟨?_, ?_, ?_, ?_⟩
    · constructor
      · constructor <;> (by_cases hd : s.docStarted = true <;> by_cases hi : s.inlineMapAfterDash = true <;>
          simp [seqElemPrefix, writeIndent, St.write, hf, *, h.depth, h.inFlow, h.pendingFlow, h.pss, h.pic])
      all_goals (by_cases hd : s.docStarted = true <;> by_cases hi : s.inlineMapAfterDash = true <;>
          simp [seqElemPrefix, writeIndent, St.write, hf, *])
    all_goals (by_cases hd : s.docStarted = true <;> by_cases hi : s.inlineMapAfterDash = true <;>
          simp [seqElemPrefix, writeIndent, St.write, hf, *, col, List.append_assoc])
  · have := hp hf
    refine ⟨?_, ?_, ?_, ?_⟩
    · constructor
      · constructor <;> (by_cases hd : s.docStarted = true <;> by_cases hi : s.inlineMapAfterDash = true <;>
          simp [seqElemPrefix, writeIndent, St.write, hf, *, h.depth, h.inFlow, h.pendingFlow, h.pss, h.pic])
      all_goals (by_cases hd : s.docStarted = true <;> by_cases hi : s.inlineMapAfterDash = true <;>
          simp [seqElemPrefix, writeIndent, St.write, hf, *])
    all_goals (by_cases hd : s.docStarted = true <;> by_cases hi : s.inlineMapAfterDash = true <;>
          simp [seqElemPrefix, writeIndent, St.write, hf, *, col, List.append_assoc])

/-- `seqElemPrefix` of the first element of a sequence that starts right after `- ` -/
theorem seqElemPrefix_inline {s : St} {q : SeqSer} (hb : Base s) (hals : s.atLineStart = false)
    (hpsc : s.pendingSpaceAfterColon = false) (hf : q.first = true) :
    ItemCtx (seqElemPrefix o q s) q.depth ∧ (seqElemPrefix o q s).out = s.out ++ ['-', ' '] ∧
    (seqElemPrefix o q s).lastValueWasBlock = s.lastValueWasBlock ∧
    (seqElemPrefix o q s).currentMapDepth = s.currentMapDepth := by
  refine ⟨?_, ?_, ?_, ?_⟩
  · constructor
    · constructor <;> (by_cases hi : s.inlineMapAfterDash = true <;>
        simp [seqElemPrefix, St.write, hf, *, hb.depth, hb.inFlow, hb.pendingFlow, hb.pss, hb.pic])
    all_goals (by_cases hi : s.inlineMapAfterDash = true <;> simp [seqElemPrefix, St.write, hf, *])
  all_goals (by_cases hi : s.inlineMapAfterDash = true <;> simp [seqElemPrefix, St.write, hf, *])

/-- `serialize_seq` right after `- `: the nested sequence keeps its first dash on the line -/
theorem serializeSeq_item {s : St} {d : Nat} (h : ItemCtx s d) :
    (serializeSeq o s).1 = { depth := d + 1, flow := false, first := true } ∧
    Base (serializeSeq o s).2 ∧ (serializeSeq o s).2.atLineStart = false ∧
    (serializeSeq o s).2.pendingSpaceAfterColon = false ∧ (serializeSeq o s).2.out = s.out ∧
    (serializeSeq o s).2.lastValueWasBlock = s.lastValueWasBlock ∧
    (serializeSeq o s).2.currentMapDepth = s.currentMapDepth := by
  have := h.als; have := h.psc; have := h.add; have := h.inFlow; have := h.pendingFlow
  refine ⟨?_, ?_, ?_, ?_, ?_, ?_, ?_⟩
  · simp [serializeSeq, takeFlow, *]
  · constructor <;> simp [serializeSeq, takeFlow, *, h.depth, h.pss]
  all_goals simp [serializeSeq, takeFlow, *]

/-- `serialize_seq` at a line start at depth 0 (the root) -/
theorem serializeSeq_line {s : St} (h : LineCtx s) :
    (serializeSeq o s).1 = { depth := 0, flow := false, first := true } ∧
    LineCtx (serializeSeq o s).2 ∧ (serializeSeq o s).2.out = s.out ∧
    (serializeSeq o s).2.lastValueWasBlock = s.lastValueWasBlock ∧
    (serializeSeq o s).2.currentMapDepth = s.currentMapDepth ∧
    (serializeSeq o s).2.pendingInlineMap = s.pendingInlineMap := by
  have := h.als; have := h.psc; have := h.inFlow; have := h.pendingFlow; have := h.depth
  refine ⟨?_, ?_, ?_, ?_, ?_, ?_⟩
  · simp [serializeSeq, takeFlow, *]
  · constructor
    · constructor <;> simp [serializeSeq, takeFlow, *, h.pss]
    all_goals simp [serializeSeq, takeFlow, *]
  all_goals simp [serializeSeq, takeFlow, *]

/-- `serialize_seq` of a NON-EMPTY sequence right after `key:`: the items start on the next line at
depth `m + 1`, whether the line break is forced now (block sibling before) or deferred to the
first element -/
theorem serializeSeq_val (ho : FragOpts o) {s : St} {m : Nat} (h : ValCtx s m) (x : SVal) (xs : List SVal) :
    ∃ s2, serSeqElems o f (serializeSeq o s).1 (x :: xs) (serializeSeq o s).2 =
        serSeqElems o f { depth := m + 1, flow := false, first := true } (x :: xs) s2 ∧
      LineCtx s2 ∧ s2.pendingInlineMap = false ∧ s2.out = s.out ++ ['\n'] ∧
      s2.lastValueWasBlock = false ∧ s2.currentMapDepth = s.currentMapDepth := by
  have := h.als; have := h.psc; have := h.add; have := h.inFlow; have := h.pendingFlow; have := h.pim
  have := h.depth; have := ho.compact
  have hbase : (if s.currentMapDepth.isSome = true then s.currentMapDepth.getD 0 else 0) = m := by
    rcases h.cmd with hc | ⟨hc, hm⟩
    · simp [hc]
    · simp [hc, hm]
  cases hl : s.lastValueWasBlock
  · -- deferred: the first element prefix breaks the line
    refine ⟨newline { s with pendingSpaceAfterColon := false, pendingFlow := none, pendingInlineComment := none }, ?_, ?_, ?_, ?_, ?_, ?_⟩
    · simp [serializeSeq, takeFlow, serSeqElems, seqElemPrefix, newline, *]
    · constructor
      · constructor <;> simp [newline, *, h.pss]
      all_goals simp [newline]
    all_goals simp [newline, *]
  · refine ⟨(serializeSeq o s).2, ?_, ?_, ?_, ?_, ?_, ?_⟩
    · simp [serializeSeq, takeFlow, newline, *]
    · constructor
      · constructor <;> simp [serializeSeq, takeFlow, newline, *, h.pss]
      all_goals simp [serializeSeq, takeFlow, newline, *]
    all_goals simp [serializeSeq, takeFlow, newline, *]

/-- `SeqSer::end` of a non-empty block sequence -/
theorem seqEnd_nonempty {s0 s : St} {q : SeqSer} (hq : q.flow = false) (hf : q.first = false) (h : Post s0 s) :
    Post s0 (seqEnd o q s) ∧ (seqEnd o q s).out = s.out ∧ (seqEnd o q s).lastValueWasBlock = true := by
  refine ⟨?_, ?_, ?_⟩
  · constructor
    · constructor <;> simp [seqEnd, hq, hf, h.depth, h.inFlow, h.pendingFlow, h.pss, h.pic]
    all_goals simp [seqEnd, hq, hf, h.als, h.psc, h.cmd]
  all_goals simp [seqEnd, hq, hf]

/-! ### mapping steps -/

theorem keyText_safe (hf : SafeContract f) {k : List Char} (hk : isSafeStr k = true) :
    keyText o f (.str k) = some k := by
  simp [keyText, keyStrText, hf.plain k hk, hf.value k o.yaml12 true hk, hf.shape k hk]

theorem spaces_align (md : Nat) (h : md ≥ 1) : spaces (2 * (md - 1)) ++ [' ', ' '] = spaces (2 * md) := by
  obtain ⟨n, rfl⟩ : ∃ n, md = n + 1 := ⟨md - 1, by omega⟩
  simp only [spaces, Nat.add_sub_cancel]
  rw [show 2 * (n + 1) = 2 * n + 2 by omega, ← List.replicate_append_replicate]
  rfl

/-- the state right after `key:` has been written, `current_map_depth` set for the value -/
def afterKey (s : St) (md : Nat) (text : List Char) (doc : Bool) : St :=
  { s with out := s.out ++ text, atLineStart := false, pendingSpaceAfterColon := true, afterDashDepth := none,
           pendingInlineMap := false, currentMapDepth := some md, docStarted := doc }

/-- one entry with a safe string key at a line start: `mapKeyPrefix`, the key text, `:`, then the
value in `ValCtx`, then the restoration of `current_map_depth` / `pending_inline_map` -/
theorem serMapEntries_cons_line (ho : FragOpts o) (hf : SafeContract f) {m : MapSer} {s : St} {k : List Char}
    (v : SVal) (es : List (SVal × SVal)) (hk : isSafeStr k = true) (hm : m.flow = false)
    (hivs : m.inlineValueStart = false) (haad : m.alignAfterDash = true → m.depth ≥ 1) (h : LineCtx s) :
    ∃ s4, ValCtx s4 m.depth ∧ s4.out = s.out ++ spaces (col m.depth) ++ k ++ [':'] ∧
      s4.lastValueWasBlock = s.lastValueWasBlock ∧
      serMapEntries o f m ((.str k, v) :: es) s =
        (match ser o f v s4 with
         | .error e => .error e
         | .ok s5 => serMapEntries o f { m with first := false, lastKeyComplex := false } es
             { s5 with currentMapDepth := s.currentMapDepth, pendingInlineMap := false }) := by
  have := h.als; have := h.psc; have := ho.yaml12; have := ho.indent
  refine ⟨afterKey s m.depth (spaces (col m.depth) ++ k ++ [':']) (if m.alignAfterDash then s.docStarted else true), ?_, ?_, ?_, ?_⟩
  · constructor
    · constructor <;> simp [afterKey, h.depth, h.inFlow, h.pendingFlow, h.pss, h.pic]
    all_goals simp [afterKey]
  · simp [afterKey, List.append_assoc]
  · simp [afterKey]
  · rw [serMapEntries]
    simp only [hm, Bool.false_eq_true, if_false, keyText_safe hf hk]
    cases ha : m.alignAfterDash
    · by_cases hd : s.docStarted = true
      · simp [mapKeyPrefix, mapIndent, writeIndent, St.write, afterKey, hivs, ha, col, List.append_assoc, *]
        rfl
      · simp [mapKeyPrefix, mapIndent, writeIndent, St.write, afterKey, hivs, ha, col, List.append_assoc, *]
        rfl
    · have h1 := spaces_align m.depth (haad ha)
      simp [mapKeyPrefix, mapIndent, writeIndent, St.write, afterKey, hivs, ha, col, List.append_assoc, *]
      rfl

/-- the first entry of a mapping that starts right after `- `: the key stays on the dash line -/
theorem serMapEntries_cons_inline (hf : SafeContract f) {m : MapSer} {s : St} {k : List Char}
    (v : SVal) (es : List (SVal × SVal)) (hk : isSafeStr k = true) (hm : m.flow = false)
    (hivs : m.inlineValueStart = false) (hb : Base s) (hals : s.atLineStart = false)
    (hpsc : s.pendingSpaceAfterColon = false) :
    ∃ s4, ValCtx s4 m.depth ∧ s4.out = s.out ++ k ++ [':'] ∧ s4.lastValueWasBlock = false ∧
      serMapEntries o f m ((.str k, v) :: es) s =
        (match ser o f v s4 with
         | .error e => .error e
         | .ok s5 => serMapEntries o f { m with first := false, lastKeyComplex := false } es
             { s5 with currentMapDepth := s.currentMapDepth, pendingInlineMap := false }) := by
  refine ⟨{ afterKey s m.depth (k ++ [':']) s.docStarted with lastValueWasBlock := false }, ?_, ?_, ?_, ?_⟩
  · constructor
    · constructor <;> simp [afterKey, hb.depth, hb.inFlow, hb.pendingFlow, hb.pss, hb.pic]
    all_goals simp [afterKey]
  · simp [afterKey, List.append_assoc]
  · simp [afterKey]
  · rw [serMapEntries]
    simp only [hm, Bool.false_eq_true, if_false, keyText_safe hf hk]
    simp [mapKeyPrefix, mapIndent, writeIndent, writeSpaceIfPending, St.write, afterKey, hivs, List.append_assoc, *]
    rfl

/-- `serialize_map` right after `- `: first key inline, the others aligned under it -/
theorem serializeMap_item {s : St} {d : Nat} (len : Option Nat) (h : ItemCtx s d) :
    (serializeMap o len s).1 = { depth := d + 1, flow := false, first := true, alignAfterDash := true } ∧
    Base (serializeMap o len s).2 ∧ (serializeMap o len s).2.atLineStart = false ∧
    (serializeMap o len s).2.pendingSpaceAfterColon = false ∧ (serializeMap o len s).2.out = s.out ∧
    (serializeMap o len s).2.lastValueWasBlock = s.lastValueWasBlock ∧
    (serializeMap o len s).2.currentMapDepth = s.currentMapDepth := by
  have := h.als; have := h.psc; have := h.add; have := h.inFlow; have := h.pendingFlow; have := h.pim
  refine ⟨?_, ?_, ?_, ?_, ?_, ?_, ?_⟩
  · simp [serializeMap, takeFlow, *]
  · constructor <;> simp [serializeMap, takeFlow, *, h.depth, h.pss, h.pic]
  all_goals simp [serializeMap, takeFlow, *]

/-- `serialize_map` at a line start at depth 0 (the root) -/
theorem serializeMap_line {s : St} (len : Option Nat) (h : LineCtx s) (hp : s.pendingInlineMap = false) :
    (serializeMap o len s).1 = { depth := 0, flow := false, first := true } ∧
    LineCtx (serializeMap o len s).2 ∧ (serializeMap o len s).2.out = s.out ∧
    (serializeMap o len s).2.lastValueWasBlock = s.lastValueWasBlock ∧
    (serializeMap o len s).2.currentMapDepth = s.currentMapDepth := by
  have := h.als; have := h.psc; have := h.inFlow; have := h.pendingFlow; have := h.depth
  refine ⟨?_, ?_, ?_, ?_, ?_⟩
  · simp [serializeMap, takeFlow, *]
  · constructor
    · constructor <;> simp [serializeMap, takeFlow, *, h.pss, h.pic]
    all_goals simp [serializeMap, takeFlow, *]
  all_goals simp [serializeMap, takeFlow, *]

/-- `serialize_map` of a NON-EMPTY mapping right after `key:`: the entries start on the next line at
depth `m + 1` (line break forced by a block sibling, written because the length is known, or
deferred to the first key when the length is unknown) -/
theorem serializeMap_val (ho : FragOpts o) {s : St} {m : Nat} (h : ValCtx s m) (known : Bool)
    (e : SVal × SVal) (es : List (SVal × SVal)) :
    ∃ s2, serMapEntries o f (serializeMap o (if known then some (e :: es).length else none) s).1 (e :: es)
          (serializeMap o (if known then some (e :: es).length else none) s).2 =
        serMapEntries o f { depth := m + 1, flow := false, first := true } (e :: es) s2 ∧
      LineCtx s2 ∧ s2.out = s.out ++ ['\n'] ∧
      s2.lastValueWasBlock = false ∧ s2.currentMapDepth = s.currentMapDepth := by
  have := h.als; have := h.psc; have := h.add; have := h.inFlow; have := h.pendingFlow; have := h.pim
  have := h.depth; have := ho.braces
  have hbase : (if s.currentMapDepth.isSome = true then s.currentMapDepth.getD 0 else 0) = m := by
    rcases h.cmd with hc | ⟨hc, hm⟩
    · simp [hc]
    · simp [hc, hm]
  obtain ⟨k, v⟩ := e
  refine ⟨newline { s with pendingSpaceAfterColon := false, pendingFlow := none, lastValueWasBlock := false }, ?_, ?_, ?_, ?_, ?_⟩
  · cases hl : s.lastValueWasBlock <;> cases known
    · -- unknown length, no block sibling: the first key breaks the line
      rw [serMapEntries, serMapEntries]
      simp [serializeMap, takeFlow, mapKeyPrefix, newline, *]
    · simp [serializeMap, takeFlow, newline, *]
    · simp [serializeMap, takeFlow, newline, *]
    · simp [serializeMap, takeFlow, newline, *]
  · constructor
    · constructor <;> simp [newline, *, h.pss, h.pic]
    all_goals simp [newline]
  all_goals simp [newline, *]

/-- `MapSer::end` of a non-empty block mapping -/
theorem mapEnd_nonempty {s0 s : St} {m : MapSer} (hm : m.flow = false) (hf : m.first = false) (h : Post s0 s) :
    Post s0 (mapEnd o m s) ∧ (mapEnd o m s).out = s.out ∧ (mapEnd o m s).lastValueWasBlock = true := by
  refine ⟨?_, ?_, ?_⟩
  · constructor
    · constructor <;> simp [mapEnd, hm, hf, h.depth, h.inFlow, h.pendingFlow, h.pss, h.pic]
    all_goals simp [mapEnd, hm, hf, h.als, h.psc, h.cmd]
  all_goals simp [mapEnd, hm, hf]

/-! ### newtype variants -/

theorem plainOrQuoted_safe (ho : FragOpts o) (hf : SafeContract f) {n : List Char} (hn : isSafeStr n = true) :
    plainOrQuoted o f n = n := by
  simp [plainOrQuoted, ho.quoteAll, hf.plain n hn, hf.shape n hn]

/-- newtype variant right after `key:`: the label goes to the next line one level deeper -/
theorem nv_val (ho : FragOpts o) (hf : SafeContract f) {s : St} {m : Nat} (h : ValCtx s m) {n : List Char}
    (hn : isSafeStr n = true) (v : SVal) :
    ∃ s3, ValCtx s3 (m + 1) ∧ s3.out = s.out ++ ['\n'] ++ spaces (col (m + 1)) ++ n ++ [':'] ∧
      s3.lastValueWasBlock = s.lastValueWasBlock ∧
      ser o f (.newtypeVariant n v) s =
        (match ser o f v s3 with
         | .error e => .error e
         | .ok s5 => .ok { s5 with currentMapDepth := s.currentMapDepth }) := by
  have := h.als; have := h.psc; have := h.depth; have := ho.yaml12; have := ho.indent
  have hbase : s.currentMapDepth.getD 0 = m := by
    rcases h.cmd with hc | ⟨hc, hm⟩
    · simp [hc]
    · simp [hc, hm]
  refine ⟨{ afterKey s (m + 1) (['\n'] ++ spaces (col (m + 1)) ++ n ++ [':']) true with afterDashDepth := s.afterDashDepth }, ?_, ?_, ?_, ?_⟩
  · constructor
    · constructor <;> simp [afterKey, h.depth, h.inFlow, h.pendingFlow, h.pss, h.pic]
    all_goals simp [afterKey, h.add]
  · simp [afterKey, List.append_assoc]
  · simp [afterKey]
  · rw [ser]
    by_cases hd : s.docStarted = true <;>
      simp [newline, writeIndent, St.write, afterKey, plainOrQuoted_safe ho hf hn, col, List.append_assoc, *] <;> rfl

/-- newtype variant right after `- `: the label stays on the dash line -/
theorem nv_item (ho : FragOpts o) (hf : SafeContract f) {s : St} {d : Nat} (h : ItemCtx s d) {n : List Char}
    (hn : isSafeStr n = true) (v : SVal) :
    ∃ s3, ValCtx s3 (d + 1) ∧ s3.out = s.out ++ n ++ [':'] ∧
      s3.lastValueWasBlock = s.lastValueWasBlock ∧
      ser o f (.newtypeVariant n v) s =
        (match ser o f v s3 with
         | .error e => .error e
         | .ok s5 => .ok { s5 with currentMapDepth := s.currentMapDepth }) := by
  have := h.als; have := h.psc; have := h.add
  refine ⟨afterKey s (d + 1) (n ++ [':']) s.docStarted, ?_, ?_, ?_, ?_⟩
  · constructor
    · constructor <;> simp [afterKey, h.depth, h.inFlow, h.pendingFlow, h.pss, h.pic]
    all_goals simp [afterKey]
  · simp [afterKey, List.append_assoc]
  · simp [afterKey]
  · rw [ser]
    simp [indentIfLineStart, St.write, afterKey, plainOrQuoted_safe ho hf hn, List.append_assoc, *]
    rfl

/-! ### unfolding lemmas in projection form, empty containers -/

theorem ser_seq (xs : List SVal) (s : St) :
    ser o f (.seq xs) s =
      (match serSeqElems o f (serializeSeq o s).1 xs (serializeSeq o s).2 with
       | .error e => .error e
       | .ok (q, s') => .ok (seqEnd o q s')) := by
  rw [ser]
  generalize serializeSeq o s = p
  cases p; rfl

theorem ser_tuple (xs : List SVal) (s : St) :
    ser o f (.tuple xs) s =
      (match serSeqElems o f (serializeSeq o s).1 xs (serializeSeq o s).2 with
       | .error e => .error e
       | .ok (q, s') => .ok (seqEnd o q s')) := by
  rw [ser]
  generalize serializeSeq o s = p
  cases p; rfl

theorem ser_map (known : Bool) (es : List (SVal × SVal)) (s : St) :
    ser o f (.map known es) s =
      (match serMapEntries o f (serializeMap o (if known then some es.length else none) s).1 es
          (serializeMap o (if known then some es.length else none) s).2 with
       | .error e => .error e
       | .ok (m, s') => .ok (mapEnd o m s')) := by
  rw [ser]
  generalize serializeMap o (if known then some es.length else none) s = p
  cases p; rfl

theorem serSeqElems_nil (q : SeqSer) (s : St) : serSeqElems o f q [] s = .ok (q, s) := by rw [serSeqElems]
theorem serMapEntries_nil (m : MapSer) (s : St) : serMapEntries o f m [] s = .ok (m, s) := by rw [serMapEntries]

/-- empty sequence right after `key:`: ` []`, or `[]` on its own line after a block sibling -/
theorem seq_empty_val (ho : FragOpts o) {s : St} {m : Nat} (h : ValCtx s m) :
    Good s (seqValOf m s.lastValueWasBlock true []) (.ok (seqEnd o (serializeSeq o s).1 (serializeSeq o s).2)) := by
  have := h.als; have := h.psc; have := h.inFlow; have := h.pendingFlow; have := h.depth
  have := ho.braces; have := ho.compact; have := ho.yaml12; have := ho.indent
  have hbase : (if s.currentMapDepth.isSome = true then s.currentMapDepth.getD 0 else 0) = m := by
    rcases h.cmd with hc | ⟨hc, hm⟩
    · simp [hc]
    · simp [hc, hm]
  cases hl : s.lastValueWasBlock
  · refine ⟨_, rfl, ?_, ?_, ?_⟩
    · simp [serializeSeq, takeFlow, seqEnd, newline, St.write, seqValOf, *]
    · simp [serializeSeq, takeFlow, seqEnd, newline, St.write, seqValOf, *]
    · constructor
      · constructor <;> simp [serializeSeq, takeFlow, seqEnd, newline, St.write, *, h.pss]
      all_goals simp [serializeSeq, takeFlow, seqEnd, newline, St.write, *]
  · refine ⟨_, rfl, ?_, ?_, ?_⟩
    · by_cases hd : s.docStarted = true <;>
        simp [serializeSeq, takeFlow, seqEnd, newline, writeIndent, St.write, seqValOf, col, *]
    · by_cases hd : s.docStarted = true <;>
        simp [serializeSeq, takeFlow, seqEnd, newline, writeIndent, St.write, seqValOf, *]
    · constructor
      · constructor <;> (by_cases hd : s.docStarted = true <;>
          simp [serializeSeq, takeFlow, seqEnd, newline, writeIndent, St.write, *, h.pss])
      all_goals (by_cases hd : s.docStarted = true <;>
          simp [serializeSeq, takeFlow, seqEnd, newline, writeIndent, St.write, *])

/-- empty sequence right after `- ` -/
theorem seq_empty_item (ho : FragOpts o) {s : St} {d : Nat} (h : ItemCtx s d) :
    Good s ("[]".toList, [], s.lastValueWasBlock) (.ok (seqEnd o (serializeSeq o s).1 (serializeSeq o s).2)) := by
  have := h.als; have := h.psc; have := h.inFlow; have := h.pendingFlow; have := h.depth; have := h.add
  have := ho.braces
  refine ⟨_, rfl, ?_, ?_, ?_⟩
  · simp [serializeSeq, takeFlow, seqEnd, newline, St.write, *]
  · simp [serializeSeq, takeFlow, seqEnd, newline, St.write, *]
  · constructor
    · constructor <;> simp [serializeSeq, takeFlow, seqEnd, newline, St.write, *, h.pss]
    all_goals simp [serializeSeq, takeFlow, seqEnd, newline, St.write, *]

/-- empty mapping right after `key:` -/
theorem map_empty_val (ho : FragOpts o) {s : St} {m : Nat} (h : ValCtx s m) (len : Option Nat)
    (hlen : len = some 0 ∨ len = none) :
    Good s (if s.lastValueWasBlock then ([], [⟨col (m + 1), "{}".toList⟩], false) else (" {}".toList, [], false))
      (.ok (mapEnd o (serializeMap o len s).1 (serializeMap o len s).2)) := by
  have := h.als; have := h.psc; have := h.inFlow; have := h.pendingFlow; have := h.depth; have := h.pim
  have := ho.braces; have := ho.yaml12; have := ho.indent
  have hbase : (if s.currentMapDepth.isSome = true then s.currentMapDepth.getD 0 else 0) = m := by
    rcases h.cmd with hc | ⟨hc, hm⟩
    · simp [hc]
    · simp [hc, hm]
  rcases hlen with rfl | rfl <;> cases hl : s.lastValueWasBlock
  all_goals refine ⟨_, rfl, ?_, ?_, ?_⟩
  all_goals first
    | (constructor
       · constructor <;> (by_cases hd : s.docStarted = true <;>
           simp [serializeMap, takeFlow, mapEnd, mapIndent, newline, writeIndent, St.write, *, h.pss, h.pic])
       all_goals (by_cases hd : s.docStarted = true <;>
           simp [serializeMap, takeFlow, mapEnd, mapIndent, newline, writeIndent, St.write, *]))
    | (by_cases hd : s.docStarted = true <;>
        simp [serializeMap, takeFlow, mapEnd, mapIndent, newline, writeIndent, St.write, col, *])

/-- empty mapping right after `- ` -/
theorem map_empty_item (ho : FragOpts o) {s : St} {d : Nat} (h : ItemCtx s d) (len : Option Nat) :
    Good s ("{}".toList, [], s.lastValueWasBlock) (.ok (mapEnd o (serializeMap o len s).1 (serializeMap o len s).2)) := by
  have := h.als; have := h.psc; have := h.inFlow; have := h.pendingFlow; have := h.depth; have := h.add
  have := h.pim; have := ho.braces
  refine ⟨_, rfl, ?_, ?_, ?_⟩
  · simp [serializeMap, takeFlow, mapEnd, newline, St.write, *]
  · simp [serializeMap, takeFlow, mapEnd, newline, St.write, *]
  · constructor
    · constructor <;> simp [serializeMap, takeFlow, mapEnd, newline, St.write, *, h.pss, h.pic]
    all_goals simp [serializeMap, takeFlow, mapEnd, newline, St.write, *]

/-! ### the invariant -/

/-- restoring `current_map_depth` after a nested value keeps the result shape -/
theorem Good.restore {s s3 : St} {r : List Char × List Line × Bool} {res : Except EmitErr St}
    (pre : List Char) (h : Good s3 r res) (hout : s3.out = s.out ++ pre) :
    ∃ s5, res = .ok s5 ∧
      ({ s5 with currentMapDepth := s.currentMapDepth } : St).out = s.out ++ pre ++ r.1 ++ ['\n'] ++ renderLines r.2.1 ∧
      ({ s5 with currentMapDepth := s.currentMapDepth } : St).lastValueWasBlock = r.2.2 ∧
      Post s { s5 with currentMapDepth := s.currentMapDepth } := by
  obtain ⟨s5, he, ho5, hl5, hp5⟩ := h
  refine ⟨s5, he, ?_, ?_, ?_⟩
  · simp [ho5, hout, List.append_assoc]
  · simp [hl5]
  · constructor
    · constructor <;> simp [hp5.depth, hp5.inFlow, hp5.pendingFlow, hp5.pss, hp5.pic]
    all_goals simp [hp5.als, hp5.psc]

theorem wsp_pss (s : St) : (writeSpaceIfPending s).pendingStrStyle = s.pendingStrStyle := by
  unfold writeSpaceIfPending; split <;> simp [St.write]
theorem wsp_inFlow (s : St) : (writeSpaceIfPending s).inFlow = s.inFlow := by
  unfold writeSpaceIfPending; split <;> simp [St.write]

section
variable (ho : FragOpts o) (hf : SafeContract f)
include ho hf

mutual
/-- value position (right after `key:`) -/
theorem ser_val : ∀ (v : SVal), inFrag o.foldedWrapCol v = true → ∀ (s : St) (m : Nat), ValCtx s m →
    Good s (layVal m s.lastValueWasBlock v) (ser o f v s)
  | .unit, _, s, m, h => by rw [ser]; simpa [layVal] using serToken_val (o := o) "null".toList h
  | .none, _, s, m, h => by rw [ser]; simpa [layVal] using serToken_val (o := o) "null".toList h
  | .bool b, _, s, m, h => by
    rw [ser]; simpa [layVal] using serToken_val (o := o) (if b then "true".toList else "false".toList) h
  | .int i, _, s, m, h => by rw [ser]; simpa [layVal] using serToken_val (o := o) (intText i) h
  | .str t, hv, s, m, h => by
    simp only [inFrag, Bool.and_eq_true, decide_eq_true_eq] at hv
    rw [ser, serStr_safe ho hf hv.1 hv.2 h.pss h.inFlow]
    simpa [layVal] using serToken_val (o := o) t h
  | .unitVariant e n, hv, s, m, h => by
    simp only [inFrag, Bool.and_eq_true, decide_eq_true_eq] at hv
    rw [ser]
    simp only [ho.tagged, Bool.false_eq_true, if_false]
    rw [serStr_safe ho hf hv.1 hv.2 (by rw [wsp_pss]; exact h.pss) (by rw [wsp_inFlow]; exact h.inFlow), serToken_wsp]
    simpa [layVal] using serToken_val (o := o) n h
  | .some v, hv, s, m, h => by
    simp only [inFrag] at hv
    rw [ser]; simpa [layVal] using ser_val v hv s m h
  | .newtypeStruct v, hv, s, m, h => by
    simp only [inFrag] at hv
    rw [ser]; simpa [layVal] using ser_val v hv s m h
  | .newtypeVariant n v, hv, s, m, h => by
    simp only [inFrag, Bool.and_eq_true] at hv
    obtain ⟨s3, hc3, ho3, hl3, heq⟩ := nv_val ho hf h hv.1 v
    have ih := ser_val v hv.2 s3 (m + 1) hc3
    rw [hl3] at ih
    obtain ⟨s5, he, hout, hlvb, hpost⟩ :=
      Good.restore (s := s) (['\n'] ++ spaces (col (m + 1)) ++ n ++ [':']) ih (by rw [ho3]; simp [List.append_assoc])
    rw [heq, he]
    refine ⟨_, rfl, ?_, ?_, hpost⟩
    · rw [hout]; simp [layVal, List.append_assoc]
    · rw [hlvb]; simp [layVal]
  | .seq xs, hv, s, m, h => by
    simp only [inFrag] at hv
    rw [ser_seq]
    cases xs with
    | nil =>
      rw [serSeqElems_nil]
      simpa [layVal, layItems] using seq_empty_val (o := o) ho h
    | cons x xs' =>
      obtain ⟨s2, heq, hc2, hp2, hout2, hl2, hcmd2⟩ := serializeSeq_val (f := f) ho h x xs'
      obtain ⟨q', s', he, hqf, hqd, hqfirst, hg⟩ :=
        ser_items (x :: xs') hv s2 { depth := m + 1, flow := false, first := true } rfl hc2 (fun _ => hp2)
      rw [heq, he]
      have hfirst : q'.first = false := by simpa using hqfirst
      have hpost : Post s s' := { toBase := hg.2.2.toBase, als := hg.2.2.als, psc := hg.2.2.psc, cmd := by rw [hg.2.2.cmd, hcmd2] }
      obtain ⟨hp, hout, hlvb⟩ := seqEnd_nonempty (o := o) hqf hfirst hpost
      refine ⟨_, rfl, ?_, ?_, hp⟩
      · rw [hout, hg.1, hout2, hl2]; simp [layVal, seqValOf, List.append_assoc]
      · rw [hlvb]; simp [layVal, seqValOf]
  | .tuple xs, hv, s, m, h => by
    simp only [inFrag] at hv
    rw [ser_tuple]
    cases xs with
    | nil =>
      rw [serSeqElems_nil]
      simpa [layVal, layItems] using seq_empty_val (o := o) ho h
    | cons x xs' =>
      obtain ⟨s2, heq, hc2, hp2, hout2, hl2, hcmd2⟩ := serializeSeq_val (f := f) ho h x xs'
      obtain ⟨q', s', he, hqf, hqd, hqfirst, hg⟩ :=
        ser_items (x :: xs') hv s2 { depth := m + 1, flow := false, first := true } rfl hc2 (fun _ => hp2)
      rw [heq, he]
      have hfirst : q'.first = false := by simpa using hqfirst
      have hpost : Post s s' := { toBase := hg.2.2.toBase, als := hg.2.2.als, psc := hg.2.2.psc, cmd := by rw [hg.2.2.cmd, hcmd2] }
      obtain ⟨hp, hout, hlvb⟩ := seqEnd_nonempty (o := o) hqf hfirst hpost
      refine ⟨_, rfl, ?_, ?_, hp⟩
      · rw [hout, hg.1, hout2, hl2]; simp [layVal, seqValOf, List.append_assoc]
      · rw [hlvb]; simp [layVal, seqValOf]
  | .map known es, hv, s, m, h => by
    simp only [inFrag, Bool.and_eq_true] at hv
    rw [ser_map]
    cases es with
    | nil =>
      rw [serMapEntries_nil]
      have := map_empty_val (o := o) ho h (if known then some ([] : List (SVal × SVal)).length else none)
        (by cases known <;> simp)
      simpa [layVal] using this
    | cons e es' =>
      obtain ⟨s2, heq, hc2, hout2, hl2, hcmd2⟩ := serializeMap_val (f := f) ho h known e es'
      obtain ⟨m', s', he, hmf, hmfirst, hg⟩ :=
        ser_entries (e :: es') hv.1 s2 { depth := m + 1, flow := false, first := true } rfl rfl (by simp) hc2
      rw [heq, he]
      have hfirst : m'.first = false := by simpa using hmfirst
      have hpost : Post s s' := { toBase := hg.2.2.toBase, als := hg.2.2.als, psc := hg.2.2.psc, cmd := by rw [hg.2.2.cmd, hcmd2] }
      obtain ⟨hp, hout, hlvb⟩ := mapEnd_nonempty (o := o) hmf hfirst hpost
      refine ⟨_, rfl, ?_, ?_, hp⟩
      · rw [hout, hg.1, hout2, hl2]; simp [layVal, List.append_assoc]
      · rw [hlvb]; simp [layVal]
  | .tupleStruct _, hv, _, _, _ => by simp [inFrag] at hv
  | .tupleVariant _ _, hv, _, _, _ => by simp [inFrag] at hv
  | .structVariant _ _, hv, _, _, _ => by simp [inFrag] at hv
  | .flowSeq _, hv, _, _, _ => by simp [inFrag] at hv
  | .flowMap _, hv, _, _, _ => by simp [inFrag] at hv
  | .commented _ _, hv, _, _, _ => by simp [inFrag] at hv
  | .spaceAfter _, hv, _, _, _ => by simp [inFrag] at hv
  | .litStr _, hv, _, _, _ => by simp [inFrag] at hv
  | .foldStr _, hv, _, _, _ => by simp [inFrag] at hv
/-- item position (right after `- `) -/
theorem ser_item : ∀ (v : SVal), inFrag o.foldedWrapCol v = true → ∀ (s : St) (d : Nat), ItemCtx s d →
    Good s (layItem d s.lastValueWasBlock v) (ser o f v s)
  | .unit, _, s, d, h => by rw [ser]; simpa [layItem] using serToken_item (o := o) "null".toList h
  | .none, _, s, d, h => by rw [ser]; simpa [layItem] using serToken_item (o := o) "null".toList h
  | .bool b, _, s, d, h => by
    rw [ser]; simpa [layItem] using serToken_item (o := o) (if b then "true".toList else "false".toList) h
  | .int i, _, s, d, h => by rw [ser]; simpa [layItem] using serToken_item (o := o) (intText i) h
  | .str t, hv, s, d, h => by
    simp only [inFrag, Bool.and_eq_true, decide_eq_true_eq] at hv
    rw [ser, serStr_safe ho hf hv.1 hv.2 h.pss h.inFlow]
    simpa [layItem] using serToken_item (o := o) t h
  | .unitVariant e n, hv, s, d, h => by
    simp only [inFrag, Bool.and_eq_true, decide_eq_true_eq] at hv
    rw [ser]
    simp only [ho.tagged, Bool.false_eq_true, if_false]
    rw [serStr_safe ho hf hv.1 hv.2 (by rw [wsp_pss]; exact h.pss) (by rw [wsp_inFlow]; exact h.inFlow), serToken_wsp]
    simpa [layItem] using serToken_item (o := o) n h
  | .some v, hv, s, d, h => by
    simp only [inFrag] at hv
    rw [ser]; simpa [layItem] using ser_item v hv s d h
  | .newtypeStruct v, hv, s, d, h => by
    simp only [inFrag] at hv
    rw [ser]; simpa [layItem] using ser_item v hv s d h
  | .newtypeVariant n v, hv, s, d, h => by
    simp only [inFrag, Bool.and_eq_true] at hv
    obtain ⟨s3, hc3, ho3, hl3, heq⟩ := nv_item ho hf h hv.1 v
    have ih := ser_val v hv.2 s3 (d + 1) hc3
    rw [hl3] at ih
    obtain ⟨s5, he, hout, hlvb, hpost⟩ := Good.restore (s := s) (n ++ [':']) ih (by rw [ho3]; simp [List.append_assoc])
    rw [heq, he]
    refine ⟨_, rfl, ?_, ?_, hpost⟩
    · rw [hout]; simp [layItem, List.append_assoc]
    · rw [hlvb]; simp [layItem]
  | .seq xs, hv, s, d, h => by
    simp only [inFrag] at hv
    rw [ser_seq]
    obtain ⟨hq, hb1, hals1, hpsc1, hout1, hl1, hcmd1⟩ := serializeSeq_item (o := o) h
    cases xs with
    | nil =>
      rw [serSeqElems_nil]
      simpa [layItem, laySeqItem] using seq_empty_item (o := o) ho h
    | cons x xs' =>
      simp only [inFragList, Bool.and_eq_true] at hv
      rw [serSeqElems, hq]
      simp only [Bool.false_eq_true, if_false]
      obtain ⟨hc3, hout3, hl3, hcmd3⟩ := seqElemPrefix_inline (o := o)
        (q := { depth := d + 1, flow := false, first := true }) hb1 hals1 hpsc1 rfl
      obtain ⟨sx, hex, houtx, hlx, hpx⟩ := ser_item x hv.1 _ (d + 1) hc3
      rw [hex]
      obtain ⟨q', s', he, hqf, hqd, hqfirst, hg⟩ :=
        ser_items xs' hv.2 sx { depth := d + 1, flow := false, first := false } rfl (LineCtx.ofPost hpx) (by simp)
      simp only [he]
      have hfirst : q'.first = false := by simpa using hqfirst
      have hpost : Post s s' := { toBase := hg.2.2.toBase, als := hg.2.2.als, psc := hg.2.2.psc,
                                  cmd := by rw [hg.2.2.cmd, hpx.cmd, hcmd3, hcmd1] }
      obtain ⟨hp, hout, hlvb⟩ := seqEnd_nonempty (o := o) hqf hfirst hpost
      refine ⟨_, rfl, ?_, ?_, hp⟩
      · rw [hout, hg.1, houtx, hout3, hout1, hlx, hl3, hl1]
        simp [layItem, laySeqItem, renderLines_append, List.append_assoc]
      · rw [hlvb]; simp [layItem, laySeqItem]
  | .tuple xs, hv, s, d, h => by
    simp only [inFrag] at hv
    rw [ser_tuple]
    obtain ⟨hq, hb1, hals1, hpsc1, hout1, hl1, hcmd1⟩ := serializeSeq_item (o := o) h
    cases xs with
    | nil =>
      rw [serSeqElems_nil]
      simpa [layItem, laySeqItem] using seq_empty_item (o := o) ho h
    | cons x xs' =>
      simp only [inFragList, Bool.and_eq_true] at hv
      rw [serSeqElems, hq]
      simp only [Bool.false_eq_true, if_false]
      obtain ⟨hc3, hout3, hl3, hcmd3⟩ := seqElemPrefix_inline (o := o)
        (q := { depth := d + 1, flow := false, first := true }) hb1 hals1 hpsc1 rfl
      obtain ⟨sx, hex, houtx, hlx, hpx⟩ := ser_item x hv.1 _ (d + 1) hc3
      rw [hex]
      obtain ⟨q', s', he, hqf, hqd, hqfirst, hg⟩ :=
        ser_items xs' hv.2 sx { depth := d + 1, flow := false, first := false } rfl (LineCtx.ofPost hpx) (by simp)
      simp only [he]
      have hfirst : q'.first = false := by simpa using hqfirst
      have hpost : Post s s' := { toBase := hg.2.2.toBase, als := hg.2.2.als, psc := hg.2.2.psc,
                                  cmd := by rw [hg.2.2.cmd, hpx.cmd, hcmd3, hcmd1] }
      obtain ⟨hp, hout, hlvb⟩ := seqEnd_nonempty (o := o) hqf hfirst hpost
      refine ⟨_, rfl, ?_, ?_, hp⟩
      · rw [hout, hg.1, houtx, hout3, hout1, hlx, hl3, hl1]
        simp [layItem, laySeqItem, renderLines_append, List.append_assoc]
      · rw [hlvb]; simp [layItem, laySeqItem]
  | .map known es, hv, s, d, h => by
    simp only [inFrag, Bool.and_eq_true] at hv
    rw [ser_map]
    generalize (if known = true then some es.length else none) = len
    cases es with
    | nil =>
      rw [serMapEntries_nil]
      simpa [layItem, layMapItem] using map_empty_item (o := o) ho h len
    | cons e es' =>
      obtain ⟨hm1, hb1, hals1, hpsc1, hout1, hl1, hcmd1⟩ := serializeMap_item (o := o) len h
      obtain ⟨k, v⟩ := e
      simp only [inFragEntries, Bool.and_eq_true] at hv
      cases k with
      | str kt =>
        obtain ⟨⟨⟨hk, hvv⟩, hes⟩, _⟩ := hv
        simp only at hk
        rw [hm1]
        obtain ⟨s4, hc4, hout4, hl4, heq⟩ := serMapEntries_cons_inline (o := o) hf
          (m := { depth := d + 1, flow := false, first := true, alignAfterDash := true }) v es' hk rfl rfl hb1 hals1 hpsc1
        rw [heq]
        obtain ⟨sv, hev, houtv, hlv, hpv⟩ := ser_val v hvv s4 (d + 1) hc4
        rw [hev]
        obtain ⟨m', s', he, hmf, hmfirst, hg⟩ :=
          ser_entries es' hes
            { sv with currentMapDepth := (serializeMap o len s).2.currentMapDepth, pendingInlineMap := false }
            { depth := d + 1, flow := false, first := false, lastKeyComplex := false, alignAfterDash := true }
            rfl rfl (by simp)
            { depth := hpv.depth, inFlow := hpv.inFlow, pendingFlow := hpv.pendingFlow, pss := hpv.pss, pic := hpv.pic,
              als := hpv.als, psc := hpv.psc }
        simp only [he]
        have hfirst : m'.first = false := by simpa using hmfirst
        have hpost : Post s s' := { toBase := hg.2.2.toBase, als := hg.2.2.als, psc := hg.2.2.psc,
                                    cmd := by rw [hg.2.2.cmd]; exact hcmd1 }
        obtain ⟨hp, hout, hlvb⟩ := mapEnd_nonempty (o := o) hmf hfirst hpost
        refine ⟨_, rfl, ?_, ?_, hp⟩
        · rw [hout, hg.1]
          simp [houtv, hout4, hout1, hlv, hl4, layItem, layMapItem, keyOf, renderLines_append, List.append_assoc]
        · rw [hlvb]; simp [layItem, layMapItem]
      | _ => simp at hv
  | .tupleStruct _, hv, _, _, _ => by simp [inFrag] at hv
  | .tupleVariant _ _, hv, _, _, _ => by simp [inFrag] at hv
  | .structVariant _ _, hv, _, _, _ => by simp [inFrag] at hv
  | .flowSeq _, hv, _, _, _ => by simp [inFrag] at hv
  | .flowMap _, hv, _, _, _ => by simp [inFrag] at hv
  | .commented _ _, hv, _, _, _ => by simp [inFrag] at hv
  | .spaceAfter _, hv, _, _, _ => by simp [inFrag] at hv
  | .litStr _, hv, _, _, _ => by simp [inFrag] at hv
  | .foldStr _, hv, _, _, _ => by simp [inFrag] at hv
/-- the items of a block sequence, each starting at a line start -/
theorem ser_items : ∀ (xs : List SVal), inFragList o.foldedWrapCol xs = true → ∀ (s : St) (q : SeqSer),
    q.flow = false → LineCtx s → (q.first = true → s.pendingInlineMap = false) →
    ∃ q' s', serSeqElems o f q xs s = .ok (q', s') ∧ q'.flow = false ∧ q'.depth = q.depth ∧
      q'.first = (q.first && xs.isEmpty) ∧ GoodLines s (layItems q.depth s.lastValueWasBlock xs) s'
  | [], _, s, q, hq, h, _ => by
    refine ⟨q, s, by rw [serSeqElems], hq, rfl, by simp, ?_, ?_, ?_⟩
    · simp [layItems]
    · simp [layItems]
    · exact { toBase := h.toBase, als := h.als, psc := h.psc, cmd := rfl }
  | x :: xs, hv, s, q, hq, h, hp => by
    simp only [inFragList, Bool.and_eq_true] at hv
    obtain ⟨qd, qf, qfirst⟩ := q
    simp only at hq
    subst hq
    rw [serSeqElems]
    simp only [Bool.false_eq_true, if_false]
    obtain ⟨hc3, hout3, hl3, hcmd3⟩ := seqElemPrefix_line (o := o) (q := { depth := qd, flow := false, first := qfirst }) ho h rfl hp
    obtain ⟨sx, hex, houtx, hlx, hpx⟩ := ser_item x hv.1 _ qd hc3
    obtain ⟨q', s', he, hqf, hqd, hqfirst, hg⟩ :=
      ser_items xs hv.2 sx { depth := qd, flow := false, first := false } rfl (LineCtx.ofPost hpx) (by simp)
    refine ⟨q', s', by rw [hex]; exact he, hqf, by simpa using hqd, by simpa using hqfirst, ?_, ?_, ?_⟩
    · rw [hg.1, houtx, hout3, hlx, hl3]
      simp [layItems, renderLines_append, List.append_assoc]
    · rw [hg.2.1, hlx, hl3]; simp [layItems]
    · exact { toBase := hg.2.2.toBase, als := hg.2.2.als, psc := hg.2.2.psc,
              cmd := by rw [hg.2.2.cmd, hpx.cmd, hcmd3] }
/-- the entries of a block mapping, each starting at a line start -/
theorem ser_entries : ∀ (es : List (SVal × SVal)), inFragEntries o.foldedWrapCol es = true → ∀ (s : St) (m : MapSer),
    m.flow = false → m.inlineValueStart = false → (m.alignAfterDash = true → m.depth ≥ 1) → LineCtx s →
    ∃ m' s', serMapEntries o f m es s = .ok (m', s') ∧ m'.flow = false ∧
      m'.first = (m.first && es.isEmpty) ∧ GoodLines s (layEntries m.depth s.lastValueWasBlock es) s'
  | [], _, s, m, hm, _, _, h => by
    refine ⟨m, s, by rw [serMapEntries], hm, by simp, ?_, ?_, ?_⟩
    · simp [layEntries]
    · simp [layEntries]
    · exact { toBase := h.toBase, als := h.als, psc := h.psc, cmd := rfl }
  | (k, v) :: es, hv, s, m, hm, hivs, haad, h => by
    simp only [inFragEntries, Bool.and_eq_true] at hv
    cases k with
    | str kt =>
      obtain ⟨⟨hk, hvv⟩, hes⟩ := hv
      simp only at hk
      obtain ⟨s4, hc4, hout4, hl4, heq⟩ := serMapEntries_cons_line (o := o) ho hf v es hk hm hivs haad h
      rw [heq]
      obtain ⟨sv, hev, houtv, hlv, hpv⟩ := ser_val v hvv s4 m.depth hc4
      rw [hev]
      obtain ⟨m', s', he, hmf, hmfirst, hg⟩ :=
        ser_entries es hes { sv with currentMapDepth := s.currentMapDepth, pendingInlineMap := false }
          { m with first := false, lastKeyComplex := false } hm hivs haad
          { depth := hpv.depth, inFlow := hpv.inFlow, pendingFlow := hpv.pendingFlow, pss := hpv.pss, pic := hpv.pic,
            als := hpv.als, psc := hpv.psc }
      refine ⟨m', s', he, hmf, by simpa using hmfirst, ?_, ?_, ?_⟩
      · rw [hg.1]
        simp [houtv, hout4, hlv, hl4, layEntries, keyOf, renderLines_append, List.append_assoc]
      · rw [hg.2.1]; simp [hlv, hl4, layEntries]
      · exact { toBase := hg.2.2.toBase, als := hg.2.2.als, psc := hg.2.2.psc, cmd := by rw [hg.2.2.cmd] }
    | _ => simp at hv
end

end

/-! ### the root -/

theorem lineCtx_init : LineCtx ({} : St) :=
  { depth := rfl, inFlow := rfl, pendingFlow := rfl, pss := rfl, pic := rfl, als := rfl, psc := rfl }

/-- newtype variant at the root: the label at column 0, the value in `ValCtx _ 0` -/
theorem nv_root (ho : FragOpts o) (hf : SafeContract f) {n : List Char} (hn : isSafeStr n = true) (v : SVal) :
    ∃ s3, ValCtx s3 0 ∧ s3.out = n ++ [':'] ∧ s3.lastValueWasBlock = false ∧
      ser o f (.newtypeVariant n v) {} = ser o f v s3 := by
  have := ho.yaml12
  refine ⟨{ afterKey {} 0 (n ++ [':']) true with currentMapDepth := none }, ?_, ?_, ?_, ?_⟩
  · constructor
    · constructor <;> simp [afterKey]
    all_goals simp [afterKey]
  · simp [afterKey]
  · simp [afterKey]
  · rw [ser]
    simp [indentIfLineStart, writeIndent, St.write, afterKey, plainOrQuoted_safe ho hf hn, spaces, *]

section
variable (ho : FragOpts o) (hf : SafeContract f)
include ho hf

/-- The emitter invariant at the root: the state machine produces exactly the layout. -/
theorem ser_root : ∀ (v : SVal), inFrag o.foldedWrapCol v = true →
    ∃ s', ser o f v {} = .ok s' ∧ s'.out = renderLines (layRoot v)
  | .unit, _ => ⟨_, by rw [ser], by simpa [layRoot, leafTok] using (serToken_line (o := o) ho "null".toList lineCtx_init).1⟩
  | .none, _ => ⟨_, by rw [ser], by simpa [layRoot, leafTok] using (serToken_line (o := o) ho "null".toList lineCtx_init).1⟩
  | .bool b, _ => ⟨_, by rw [ser], by
      simpa [layRoot, leafTok] using (serToken_line (o := o) ho (if b then "true".toList else "false".toList) lineCtx_init).1⟩
  | .int i, _ => ⟨_, by rw [ser], by simpa [layRoot, leafTok] using (serToken_line (o := o) ho (intText i) lineCtx_init).1⟩
  | .str t, hv => by
    simp only [inFrag, Bool.and_eq_true, decide_eq_true_eq] at hv
    refine ⟨_, by rw [ser, serStr_safe ho hf hv.1 hv.2 rfl rfl], ?_⟩
    simpa [layRoot, leafTok] using (serToken_line (o := o) ho t lineCtx_init).1
  | .unitVariant e n, hv => by
    simp only [inFrag, Bool.and_eq_true, decide_eq_true_eq] at hv
    refine ⟨serToken o n {}, ?_, ?_⟩
    · rw [ser]
      simp only [ho.tagged, Bool.false_eq_true, if_false]
      rw [serStr_safe ho hf hv.1 hv.2 (by rw [wsp_pss]) (by rw [wsp_inFlow]), serToken_wsp]
    · simpa [layRoot, leafTok] using (serToken_line (o := o) ho n lineCtx_init).1
  | .some v, hv => by
    simp only [inFrag] at hv
    rw [ser]; simpa [layRoot] using ser_root v hv
  | .newtypeStruct v, hv => by
    simp only [inFrag] at hv
    rw [ser]; simpa [layRoot] using ser_root v hv
  | .newtypeVariant n v, hv => by
    simp only [inFrag, Bool.and_eq_true] at hv
    obtain ⟨s3, hc3, ho3, hl3, heq⟩ := nv_root (o := o) (f := f) ho hf hv.1 v
    obtain ⟨s5, he, hout, _, _⟩ := ser_val ho hf v hv.2 s3 0 hc3
    refine ⟨s5, by rw [heq, he], ?_⟩
    rw [hout, ho3, hl3]
    simp [layRoot, spaces, List.append_assoc]
  | .seq xs, hv => by
    simp only [inFrag] at hv
    rw [ser_seq]
    obtain ⟨hq, hc1, hout1, hl1, hcmd1, hpim1⟩ := serializeSeq_line (o := o) lineCtx_init
    cases xs with
    | nil =>
      rw [serSeqElems_nil]
      refine ⟨_, rfl, ?_⟩
      have := ho.braces; have := ho.yaml12
      simp [hq, seqEnd, writeIndent, newline, St.write, hc1.als, hc1.psc, hout1, layRoot, spaces, *]
      split <;> simp [hout1]
    | cons x xs' =>
      obtain ⟨q', s', he, hqf, hqd, hqfirst, hg⟩ :=
        ser_items ho hf (x :: xs') hv _ { depth := 0, flow := false, first := true } rfl hc1 (fun _ => by rw [hpim1])
      rw [hq, he]
      refine ⟨_, rfl, ?_⟩
      have hfirst : q'.first = false := by simpa using hqfirst
      simp [seqEnd, hqf, hfirst, hg.1, hout1, hl1, layRoot]
  | .tuple xs, hv => by
    simp only [inFrag] at hv
    rw [ser_tuple]
    obtain ⟨hq, hc1, hout1, hl1, hcmd1, hpim1⟩ := serializeSeq_line (o := o) lineCtx_init
    cases xs with
    | nil =>
      rw [serSeqElems_nil]
      refine ⟨_, rfl, ?_⟩
      have := ho.braces; have := ho.yaml12
      simp [hq, seqEnd, writeIndent, newline, St.write, hc1.als, hc1.psc, hout1, layRoot, spaces, *]
      split <;> simp [hout1]
    | cons x xs' =>
      obtain ⟨q', s', he, hqf, hqd, hqfirst, hg⟩ :=
        ser_items ho hf (x :: xs') hv _ { depth := 0, flow := false, first := true } rfl hc1 (fun _ => by rw [hpim1])
      rw [hq, he]
      refine ⟨_, rfl, ?_⟩
      have hfirst : q'.first = false := by simpa using hqfirst
      simp [seqEnd, hqf, hfirst, hg.1, hout1, hl1, layRoot]
  | .map known es, hv => by
    simp only [inFrag, Bool.and_eq_true] at hv
    rw [ser_map]
    generalize (if known = true then some es.length else none) = len
    obtain ⟨hm1, hc1, hout1, hl1, hcmd1⟩ := serializeMap_line (o := o) len lineCtx_init rfl
    cases es with
    | nil =>
      rw [serMapEntries_nil]
      refine ⟨_, rfl, ?_⟩
      have := ho.braces; have := ho.yaml12
      simp [hm1, mapEnd, mapIndent, writeIndent, newline, St.write, hc1.als, hc1.psc, hout1, layRoot, spaces, *]
      split <;> simp [hout1]
    | cons e es' =>
      obtain ⟨m', s', he, hmf, hmfirst, hg⟩ :=
        ser_entries ho hf (e :: es') hv.1 _ { depth := 0, flow := false, first := true } rfl rfl (by simp) hc1
      rw [hm1, he]
      refine ⟨_, rfl, ?_⟩
      have hfirst : m'.first = false := by simpa using hmfirst
      simp [mapEnd, hmf, hfirst, hg.1, hout1, hl1, layRoot]
  | .tupleStruct _, hv => by simp [inFrag] at hv
  | .tupleVariant _ _, hv => by simp [inFrag] at hv
  | .structVariant _ _, hv => by simp [inFrag] at hv
  | .flowSeq _, hv => by simp [inFrag] at hv
  | .flowMap _, hv => by simp [inFrag] at hv
  | .commented _ _, hv => by simp [inFrag] at hv
  | .spaceAfter _, hv => by simp [inFrag] at hv
  | .litStr _, hv => by simp [inFrag] at hv
  | .foldStr _, hv => by simp [inFrag] at hv

/-- `to_string_with_options` on the fragment = the rendered layout -/
theorem emit_eq_layout (v : SVal) (hv : inFrag o.foldedWrapCol v = true) :
    emit o f v = .ok (renderLines (layRoot v)) := by
  obtain ⟨s', he, hout⟩ := ser_root ho hf v hv
  simp [emit, ho.indent, he, hout]

end

end SaphyrVerif.Emit
