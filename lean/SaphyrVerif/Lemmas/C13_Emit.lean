import SaphyrVerif.Lemmas.C13_Layout
/-!
C13 proof machinery, part 2: the EMITTER INVARIANT.  For every value of the fragment and every state
that satisfies the context predicate of a position (`ValCtx`: right after `key:`; `ItemCtx`: right
after `- `; `LineCtx`: at the start of a line), the state machine `ser` succeeds, appends exactly
the text of the layout function, and re-establishes the flags the next sibling relies on.  Columns:
a line at serializer depth `d` is indented by `indent_step * d + indent_shift` blanks (`Col`); the
contexts carry the column of the enclosing keys / dashes, for every `indent_step ≥ 1` (and that only the nodes at
depth 0 stand at column 0).  Strings: whatever the `WriteContract` says the scalar-text functions write for the
strings of the class in each position (one token, or the header and the body lines of a block scalar, given by
`T : Toks`).  `yaml_12`: every context carries `Base.doc` (the prologue is not pending any more); the root
starts from `startSt o`, the state after the first `write_indent` has written the prologue (`ser_init`).
-/
set_option linter.unusedSimpArgs false
set_option linter.unusedVariables false
set_option linter.unusedSectionVars false
namespace SaphyrVerif.Emit
open SaphyrVerif

/-- flags that never change inside the fragment -/
structure Base (o : Opts) (s : St) : Prop where
  inFlow : s.inFlow = 0
  pendingFlow : s.pendingFlow = none
  pss : s.pendingStrStyle = none
  pic : s.pendingInlineComment = none
  /-- the `%YAML 1.2` prologue is not pending: the document has started, or there is no prologue -/
  doc : s.docStarted = true ∨ o.yaml12 = false

/-- the form of `Base.doc` the case analyses on `doc_started` use -/
theorem doc_imp {o : Opts} {s : St} (h : s.docStarted = true ∨ o.yaml12 = false) : s.docStarted = false → o.yaml12 = false := by
  intro hd; rcases h with h | h
  · rw [hd] at h; exact Bool.noConfusion h
  · exact h

/-- a line at serializer depth `d` starts at column `c` (in state `s`); only the nodes at depth 0 stand at
column 0 (what the emitter tests — `base > 0` — when it decides about an indentation indicator) -/
def Col (o : Opts) (s : St) (d c : Nat) : Prop :=
  ((o.indentStep * d : Nat) : Int) + s.indentShift = (c : Int) ∧ (d = 0 ↔ c = 0)

/-- right after `key:` of a mapping whose keys are at depth `m`, column `c` -/
structure ValCtx (o : Opts) (s : St) (m c : Nat) : Prop extends Base o s where
  als : s.atLineStart = false
  psc : s.pendingSpaceAfterColon = true
  pim : s.pendingInlineMap = false
  add : s.afterDashDepth = none
  cmd : s.currentMapDepth = some m ∨ (s.currentMapDepth = none ∧ m = 0 ∧ s.depth = 0)
  col : Col o s m c

/-- right after `- ` of a sequence whose dashes are at depth `d`, column `c` -/
structure ItemCtx (o : Opts) (s : St) (d c : Nat) : Prop extends Base o s where
  als : s.atLineStart = false
  psc : s.pendingSpaceAfterColon = false
  pim : s.pendingInlineMap = true
  add : s.afterDashDepth = some d
  col : Col o s d c

/-- at the start of a line, nothing pending -/
structure LineCtx (o : Opts) (s : St) : Prop extends Base o s where
  als : s.atLineStart = true
  psc : s.pendingSpaceAfterColon = false

/-- what a value leaves behind: a finished line, nothing pending, `current_map_depth` and
`indent_shift` restored -/
structure Post (o : Opts) (s s' : St) : Prop extends Base o s' where
  als : s'.atLineStart = true
  psc : s'.pendingSpaceAfterColon = false
  cmd : s'.currentMapDepth = s.currentMapDepth
  shift : s'.indentShift = s.indentShift

theorem LineCtx.ofPost {o : Opts} {s s' : St} (h : Post o s s') : LineCtx o s' :=
  { toBase := h.toBase, als := h.als, psc := h.psc }

variable {o : Opts} {f : ScalarFns} {P : LeafPred} {T : Toks}

/-! ### columns -/

theorem Col.of_shift {s s' : St} {d c : Nat} (h : Col o s d c) (hs : s'.indentShift = s.indentShift) : Col o s' d c := by
  unfold Col at *; rw [hs]; exact h

theorem Col.succ {s : St} {d c : Nat} (h : Col o s d c) (hk : o.indentStep ≥ 1) : Col o s (d + 1) (c + o.indentStep) := by
  unfold Col at *
  have : ((o.indentStep * (d + 1) : Nat) : Int) = ((o.indentStep * d : Nat) : Int) + (o.indentStep : Int) := by
    rw [Nat.mul_succ]; simp
  refine ⟨?_, by omega⟩
  rw [this]; have h1 := h.1; push_cast at h1 ⊢; omega

/-- the columns after `shift_for_inline_node`: one depth level deeper = two columns after the indicator -/
theorem Col.inline {s : St} {d c : Nat} (h : Col o s d c) : Col o (shiftForInlineNode o s) (d + 1) (c + 2) := by
  unfold Col at *
  have : ((o.indentStep * (d + 1) : Nat) : Int) = ((o.indentStep * d : Nat) : Int) + (o.indentStep : Int) := by
    rw [Nat.mul_succ]; simp
  refine ⟨?_, by omega⟩
  simp only [shiftForInlineNode]
  rw [this]; have h1 := h.1; push_cast at h1 ⊢; omega

/-- depth 0 ⟺ column 0 -/
theorem Col.zero {s : St} {d c : Nat} (h : Col o s d c) : d = 0 ↔ c = 0 := h.2

/-- `indent_cols(d)` in any state with the shift of `s` -/
theorem indentCols_col {s : St} {d c : Nat} (h : Col o s d c) (st : St) (hst : st.indentShift = s.indentShift) :
    indentCols o st d = c := by
  unfold Col at h
  simp only [indentCols, hst, h.1, Int.toNat_natCast]

theorem restoreShift_some (σ : Int) (s : St) : restoreShift (some σ) s = { s with indentShift := σ } := rfl
@[simp] theorem restoreShift_none (s : St) : restoreShift none s = s := rfl
@[simp] theorem shiftForInlineNode_out (s : St) : (shiftForInlineNode o s).out = s.out := rfl

@[simp] theorem renderLines_nil : renderLines [] = [] := rfl
@[simp] theorem renderLines_cons (l : Line) (ls : List Line) :
    renderLines (l :: ls) = spaces l.indent ++ l.text ++ ['\n'] ++ renderLines ls := rfl
theorem renderLines_append (a b : List Line) : renderLines (a ++ b) = renderLines a ++ renderLines b := by
  induction a with
  | nil => rfl
  | cons l ls ih => simp [ih, List.append_assoc]

/-- result shape of a value: head (rest of the current line), following lines, outgoing `lvb` -/
def Good (o : Opts) (s : St) (r : List Char × List Line × Bool) (res : Except EmitErr St) : Prop :=
  ∃ s', res = .ok s' ∧ s'.out = s.out ++ r.1 ++ ['\n'] ++ renderLines r.2.1 ∧
    s'.lastValueWasBlock = r.2.2 ∧ Post o s s'

/-- result shape of a list of items / entries that start at a line start -/
def GoodLines (o : Opts) (s : St) (r : List Line × Bool) (s' : St) : Prop :=
  s'.out = s.out ++ renderLines r.1 ∧ s'.lastValueWasBlock = r.2 ∧ Post o s s'

/-- the state of the serializer once the prologue is out: what the first `write_indent` of a document
makes of the initial state before it writes the indentation (`ser_init`: a value of the fragment
serializes from the initial state exactly as from this one) -/
def startSt (o : Opts) : St := { out := prologue o, docStarted := true }

@[simp] theorem startSt_out : (startSt o).out = prologue o := rfl
@[simp] theorem startSt_lvb : (startSt o).lastValueWasBlock = false := rfl
@[simp] theorem startSt_shift : (startSt o).indentShift = 0 := rfl
@[simp] theorem startSt_cmd : (startSt o).currentMapDepth = none := rfl

/-- what the emitter invariant assumes about the scalar-text functions, for the strings of a class
`P` and texts `T`: a string leaf is written as `T.strAt` says for its position — the text on the line of the
leaf, then the following lines (a plain / quoted token: no following lines; a block scalar: the header and the
body lines) — and leaves the state of a finished scalar behind; likewise a unit variant (`T.unitAt`);
keys and variant names are the key tokens -/
structure WriteContract (o : Opts) (f : ScalarFns) (P : LeafPred) (T : Toks) : Prop where
  strVal : ∀ s, P.str s = true → ∀ (st : St) (m c : Nat), ValCtx o st m c →
    Good o st (' ' :: (T.strAt o.indentStep (.val c) s).1, (T.strAt o.indentStep (.val c) s).2, false) (.ok (serStr o f s st))
  strItem : ∀ s, P.str s = true → ∀ (st : St) (d c : Nat), ItemCtx o st d c →
    Good o st ((T.strAt o.indentStep (.item c) s).1, (T.strAt o.indentStep (.item c) s).2, false) (.ok (serStr o f s st))
  strRoot : ∀ s, P.str s = true → (serStr o f s (startSt o)).out =
    prologue o ++ renderLines (⟨0, (T.strAt o.indentStep .root s).1⟩ :: (T.strAt o.indentStep .root s).2)
  strInit : ∀ s, P.str s = true → serStr o f s {} = serStr o f s (startSt o)
  unitVal : ∀ e n, P.unit e n = true → ∀ (st : St) (m c : Nat), ValCtx o st m c →
    Good o st (' ' :: (T.unitAt o.indentStep (.val c) e n).1, (T.unitAt o.indentStep (.val c) e n).2, false)
      (ser o f (.unitVariant e n) st)
  unitItem : ∀ e n, P.unit e n = true → ∀ (st : St) (d c : Nat), ItemCtx o st d c →
    Good o st ((T.unitAt o.indentStep (.item c) e n).1, (T.unitAt o.indentStep (.item c) e n).2, false)
      (ser o f (.unitVariant e n) st)
  unitRoot : ∀ e n, P.unit e n = true → ∃ s', ser o f (.unitVariant e n) (startSt o) = .ok s' ∧ s'.out =
    prologue o ++ renderLines (⟨0, (T.unitAt o.indentStep .root e n).1⟩ :: (T.unitAt o.indentStep .root e n).2)
  unitInit : ∀ e n, P.unit e n = true → ser o f (.unitVariant e n) {} = ser o f (.unitVariant e n) (startSt o)
  key : ∀ s, P.key s = true → keyStrText o f s = T.key s
  name : ∀ n, P.name n = true → plainOrQuoted o f n = T.name n

/-! ### leaf tokens -/

theorem isSafeStr_no_nl {s : List Char} (h : isSafeStr s = true) : s.contains '\n' = false := by
  cases s with
  | nil => simp [isSafeStr] at h
  | cons c cs =>
    simp only [isSafeStr, Bool.and_eq_true, Bool.not_eq_eq_eq_not, Bool.not_true] at h
    obtain ⟨⟨hc, hcs⟩, _⟩ := h
    have h1 : ∀ x ∈ c :: cs, x ≠ '\n' := by
      intro x hx
      simp only [List.mem_cons] at hx
      rcases hx with rfl | hx
      · intro e; subst e; simp [isLowerAlpha] at hc
      · have := List.all_eq_true.mp hcs x hx
        intro e; subst e; simp [isLowerAlnum, isLowerAlpha] at this
    simp only [List.contains_eq_mem, decide_eq_false_iff_not]
    intro hm
    exact h1 _ hm rfl

theorem isSafeStr_not_punct {s : List Char} (h : isSafeStr s = true) :
    (s == ['.'] || s == ['#'] || s == ['-']) = false := by
  cases s with
  | nil => simp [isSafeStr] at h
  | cons c cs =>
    simp only [isSafeStr, Bool.and_eq_true] at h
    obtain ⟨⟨hc, _⟩, _⟩ := h
    have : c ≠ '.' ∧ c ≠ '#' ∧ c ≠ '-' := by
      refine ⟨?_, ?_, ?_⟩ <;> (intro e; subst e; simp [isLowerAlpha] at hc)
    simp [this.1, this.2.1, this.2.2]

/-- a safe, short string is emitted like a fixed token -/
theorem serStr_safe (hq : o.quoteAll = false) (hf : SafeContract f) {v : List Char} (hs : isSafeStr v = true)
    (hl : v.length ≤ o.foldedWrapCol) {s : St} (h1 : s.pendingStrStyle = none) (h2 : s.inFlow = 0) :
    serStr o f v s = serToken o v s := by
  have hnl := isSafeStr_no_nl hs
  have hp := isSafeStr_not_punct hs
  have hv := hf.value v o.yaml12 false hs
  have hlen : ¬ (o.foldedWrapCol < v.length) := by omega
  unfold serStr
  simp only [h1, h2, hq, hnl, hv, hlen, Option.isNone_none, beq_self_eq_true, Bool.not_false, Bool.and_self,
    Bool.and_true, if_true, Bool.false_eq_true, if_false, Bool.not_true, decide_false, Bool.and_false, ite_self]
  simp only [hp, Bool.false_eq_true, if_false, plainOrQuotedValue, hq, h2, hf.value v o.yaml12 _ hs, hf.shape v hs, if_true,
    Bool.not_false, Bool.and_self]
  unfold serToken writeSpaceIfPending
  by_cases hpsc : s.pendingSpaceAfterColon = true <;> simp [hpsc, St.write, indentIfLineStart, writeIndent]

theorem keyText_safe (hf : SafeContract f) {k : List Char} (hk : isSafeStr k = true) :
    keyText o f (.str k) = some k := by
  simp [keyText, keyStrText, hf.plain k hk, hf.value k o.yaml12 true hk, hf.shape k hk]

theorem plainOrQuoted_safe (hq : o.quoteAll = false) (hf : SafeContract f) {n : List Char} (hn : isSafeStr n = true) :
    plainOrQuoted o f n = n := by
  simp [plainOrQuoted, hq, hf.plain n hn, hf.value n o.yaml12 true hn, hf.shape n hn]

/-- a leaf token in value position: ` tok` + line break -/
theorem serToken_val (tok : List Char) {s : St} {m c : Nat} (h : ValCtx o s m c) :
    Good o s (' ' :: tok, [], false) (.ok (serToken o tok s)) := by
  have := h.als; have := h.psc; have := h.inFlow; have := h.pic; have := h.doc
  refine ⟨_, rfl, ?_, ?_, ?_⟩
  · simp [serToken, writeSpaceIfPending, indentIfLineStart, writeEndOfScalar, newline, St.write, *]
  · simp [serToken, writeSpaceIfPending, indentIfLineStart, writeEndOfScalar, newline, St.write, *]
  · constructor
    · constructor <;> simp [serToken, writeSpaceIfPending, indentIfLineStart, writeEndOfScalar, newline, St.write, *, h.pendingFlow, h.pss]
    all_goals simp [serToken, writeSpaceIfPending, indentIfLineStart, writeEndOfScalar, newline, St.write, *]

/-- a leaf token right after `- ` -/
theorem serToken_item (tok : List Char) {s : St} {d c : Nat} (h : ItemCtx o s d c) :
    Good o s (tok, [], false) (.ok (serToken o tok s)) := by
  have := h.als; have := h.psc; have := h.inFlow; have := h.pic; have := h.doc
  refine ⟨_, rfl, ?_, ?_, ?_⟩
  · simp [serToken, writeSpaceIfPending, indentIfLineStart, writeEndOfScalar, newline, St.write, *]
  · simp [serToken, writeSpaceIfPending, indentIfLineStart, writeEndOfScalar, newline, St.write, *]
  · constructor
    · constructor <;> simp [serToken, writeSpaceIfPending, indentIfLineStart, writeEndOfScalar, newline, St.write, *, h.pendingFlow, h.pss]
    all_goals simp [serToken, writeSpaceIfPending, indentIfLineStart, writeEndOfScalar, newline, St.write, *]

/-- a leaf token at a line start at depth 0, column 0 (the root) -/
theorem serToken_line (ho : FragOpts o) (tok : List Char) {s : St} (h : LineCtx o s) (hd0 : s.depth = 0) (hcol : Col o s 0 0) :
    GoodLines o s ([⟨0, tok⟩], false) (serToken o tok s) := by
  have := h.als; have := h.psc; have := h.inFlow; have := h.pic; have := h.doc; have := doc_imp h.doc
  have hic := indentCols_col hcol
  refine ⟨?_, ?_, ?_⟩
  · by_cases hd : s.docStarted = true <;>
      simp [serToken, writeSpaceIfPending, indentIfLineStart, writeIndent, hic, writeEndOfScalar, newline, St.write, spaces, *]
  · by_cases hd : s.docStarted = true <;>
      simp [serToken, writeSpaceIfPending, indentIfLineStart, writeIndent, hic, writeEndOfScalar, newline, St.write, *]
  · constructor
    · constructor <;> (by_cases hd : s.docStarted = true <;>
        simp [serToken, writeSpaceIfPending, indentIfLineStart, writeIndent, hic, writeEndOfScalar, newline, St.write, *, h.pendingFlow, h.pss])
    all_goals (by_cases hd : s.docStarted = true <;>
      simp [serToken, writeSpaceIfPending, indentIfLineStart, writeIndent, hic, writeEndOfScalar, newline, St.write, *])


/-! ### sequence steps -/

/-- `seqElemPrefix` at a line start: indentation, `- `, and the item context -/
theorem seqElemPrefix_line (ho : FragOpts o) {s : St} {q : SeqSer} {d c : Nat} (h : LineCtx o s) (hq : q.depth = d)
    (hcol : Col o s d c) (hp : q.first = true → s.pendingInlineMap = false) :
    ItemCtx o (seqElemPrefix o q s) d c ∧ (seqElemPrefix o q s).out = s.out ++ spaces c ++ ['-', ' '] ∧
    (seqElemPrefix o q s).lastValueWasBlock = s.lastValueWasBlock ∧
    (seqElemPrefix o q s).currentMapDepth = s.currentMapDepth ∧
    (seqElemPrefix o q s).indentShift = s.indentShift := by
  have := h.als; have := h.psc; have := h.doc; have := doc_imp h.doc
  have hic := indentCols_col hcol
  subst hq
  have hsh : (seqElemPrefix o q s).indentShift = s.indentShift := by
    cases hf : q.first <;> (by_cases hd : s.docStarted = true <;> by_cases hi : s.inlineMapAfterDash = true <;>
      simp [seqElemPrefix, writeIndent, St.write, hf, *])
  refine ⟨?_, ?_, ?_, ?_, hsh⟩
  · cases hf : q.first
    · constructor
      · constructor <;> (by_cases hd : s.docStarted = true <;> by_cases hi : s.inlineMapAfterDash = true <;>
          simp [seqElemPrefix, writeIndent, St.write, hf, *, h.inFlow, h.pendingFlow, h.pss, h.pic])
      all_goals first
        | exact hcol.of_shift hsh
        | (by_cases hd : s.docStarted = true <;> by_cases hi : s.inlineMapAfterDash = true <;>
            simp [seqElemPrefix, writeIndent, St.write, hf, *])
    · have := hp hf
      constructor
      · constructor <;> (by_cases hd : s.docStarted = true <;> by_cases hi : s.inlineMapAfterDash = true <;>
          simp [seqElemPrefix, writeIndent, St.write, hf, *, h.inFlow, h.pendingFlow, h.pss, h.pic])
      all_goals first
        | exact hcol.of_shift hsh
        | (by_cases hd : s.docStarted = true <;> by_cases hi : s.inlineMapAfterDash = true <;>
            simp [seqElemPrefix, writeIndent, St.write, hf, *])
  all_goals
    cases hf : q.first
    · by_cases hd : s.docStarted = true <;> by_cases hi : s.inlineMapAfterDash = true <;>
        simp [seqElemPrefix, writeIndent, hic, St.write, hf, *, List.append_assoc]
    · have := hp hf
      by_cases hd : s.docStarted = true <;> by_cases hi : s.inlineMapAfterDash = true <;>
        simp [seqElemPrefix, writeIndent, hic, St.write, hf, *, List.append_assoc]

/-- `seqElemPrefix` of the first element of a sequence that starts right after `- ` -/
theorem seqElemPrefix_inline {s : St} {q : SeqSer} {c : Nat} (hb : Base o s) (hals : s.atLineStart = false)
    (hpsc : s.pendingSpaceAfterColon = false) (hf : q.first = true) (hcol : Col o s q.depth c) :
    ItemCtx o (seqElemPrefix o q s) q.depth c ∧ (seqElemPrefix o q s).out = s.out ++ ['-', ' '] ∧
    (seqElemPrefix o q s).lastValueWasBlock = s.lastValueWasBlock ∧
    (seqElemPrefix o q s).currentMapDepth = s.currentMapDepth ∧
    (seqElemPrefix o q s).indentShift = s.indentShift := by
  have hsh : (seqElemPrefix o q s).indentShift = s.indentShift := by
    by_cases hi : s.inlineMapAfterDash = true <;> simp [seqElemPrefix, St.write, hf, *]
  refine ⟨?_, ?_, ?_, ?_, hsh⟩
  · constructor
    · constructor <;> (by_cases hi : s.inlineMapAfterDash = true <;>
        simp [seqElemPrefix, St.write, hf, *, hb.inFlow, hb.pendingFlow, hb.pss, hb.pic, hb.doc])
    all_goals first
      | exact hcol.of_shift hsh
      | (by_cases hi : s.inlineMapAfterDash = true <;> simp [seqElemPrefix, St.write, hf, *])
  all_goals (by_cases hi : s.inlineMapAfterDash = true <;> simp [seqElemPrefix, St.write, hf, *])

/-- `serialize_seq` right after `- `: the nested sequence keeps its first dash on the line; its dashes
stand two columns after the outer dash -/
theorem serializeSeq_item {s : St} {d c : Nat} (h : ItemCtx o s d c) :
    (serializeSeq o s).1 = { depth := d + 1, flow := false, first := true, restoreShift := some s.indentShift } ∧
    Base o (serializeSeq o s).2 ∧ (serializeSeq o s).2.atLineStart = false ∧
    (serializeSeq o s).2.pendingSpaceAfterColon = false ∧ (serializeSeq o s).2.out = s.out ∧
    (serializeSeq o s).2.lastValueWasBlock = s.lastValueWasBlock ∧
    (serializeSeq o s).2.currentMapDepth = s.currentMapDepth ∧
    Col o (serializeSeq o s).2 (d + 1) (c + 2) := by
  have := h.als; have := h.psc; have := h.add; have := h.inFlow; have := h.pendingFlow; have := h.doc
  have hst : (serializeSeq o s).2 = shiftForInlineNode o { s with pendingFlow := none, pendingInlineComment := none } := by
    simp [serializeSeq, takeFlow, *]
  refine ⟨?_, ?_, ?_, ?_, ?_, ?_, ?_, ?_⟩
  · simp [serializeSeq, takeFlow, *]
  · constructor <;> simp [hst, shiftForInlineNode, h.pss, *]
  · simp [hst, shiftForInlineNode, *]
  · simp [hst, shiftForInlineNode, *]
  · simp [hst, shiftForInlineNode]
  · simp [hst, shiftForInlineNode]
  · simp [hst, shiftForInlineNode]
  · rw [hst]; exact Col.inline (h.col.of_shift rfl)

/-- `serialize_seq` at a line start at depth 0 (the root) -/
theorem serializeSeq_line {s : St} (h : LineCtx o s) (hd0 : s.depth = 0) :
    (serializeSeq o s).1 = { depth := 0, flow := false, first := true } ∧
    LineCtx o (serializeSeq o s).2 ∧ (serializeSeq o s).2.out = s.out ∧
    (serializeSeq o s).2.lastValueWasBlock = s.lastValueWasBlock ∧
    (serializeSeq o s).2.currentMapDepth = s.currentMapDepth ∧
    (serializeSeq o s).2.pendingInlineMap = s.pendingInlineMap ∧
    (serializeSeq o s).2.indentShift = s.indentShift := by
  have := h.als; have := h.psc; have := h.inFlow; have := h.pendingFlow; have := h.doc
  refine ⟨?_, ?_, ?_, ?_, ?_, ?_, ?_⟩
  · simp [serializeSeq, takeFlow, *]
  · constructor
    · constructor <;> simp [serializeSeq, takeFlow, *, h.pss]
    all_goals simp [serializeSeq, takeFlow, *]
  all_goals simp [serializeSeq, takeFlow, *]

/-- `serialize_seq` of a NON-EMPTY sequence right after `key:`: the first element breaks the line and
the items start one level deeper — or, with `compact_list_indent` inside a mapping, at the level of
the key (a block sibling before only has its marker consumed) -/
theorem serializeSeq_val (ho : FragOpts o) {s : St} {m c : Nat} (h : ValCtx o s m c) (x : SVal) (xs : List SVal) :
    ∃ s2 dq, serSeqElems o f (serializeSeq o s).1 (x :: xs) (serializeSeq o s).2 =
        serSeqElems o f { depth := dq, flow := false, first := true } (x :: xs) s2 ∧
      LineCtx o s2 ∧ s2.pendingInlineMap = false ∧ s2.out = s.out ++ ['\n'] ∧
      s2.lastValueWasBlock = false ∧ s2.currentMapDepth = s.currentMapDepth ∧ s2.indentShift = s.indentShift ∧
      Col o s2 dq (seqCol o.indentStep o.compactListIndent s.currentMapDepth.isSome c) := by
  have := h.als; have := h.psc; have := h.add; have := h.inFlow; have := h.pendingFlow; have := h.pim; have := h.doc
  have hbase : (if s.currentMapDepth.isSome = true then s.currentMapDepth.getD s.depth else s.depth) = m := by
    rcases h.cmd with hc | ⟨hc, hm, hd0⟩
    · simp [hc]
    · simp [hc, hm, hd0]
  refine ⟨newline { s with pendingSpaceAfterColon := false, pendingFlow := none, pendingInlineComment := none,
                            lastValueWasBlock := false },
    (if (o.compactListIndent && s.currentMapDepth.isSome) = true then m else m + 1), ?_, ?_, ?_, ?_, ?_, ?_, ?_, ?_⟩
  · cases hl : s.lastValueWasBlock <;>
      simp [serializeSeq, takeFlow, serSeqElems, seqElemPrefix, newline, *]
  · constructor
    · constructor <;> simp [newline, *, h.pss]
    all_goals simp [newline]
  · simp [newline, *]
  · simp [newline, *]
  · simp [newline, *]
  · simp [newline, *]
  · simp [newline, *]
  · by_cases hcp : (o.compactListIndent && s.currentMapDepth.isSome) = true
    · simp only [hcp, if_true, seqCol]
      exact h.col.of_shift rfl
    · simp only [hcp, if_false, seqCol, Bool.false_eq_true]
      exact (h.col.succ ho.indent).of_shift rfl

/-- `SeqSer::finish` of a non-empty block sequence (`s0` = the state the sequence started in) -/
theorem seqEnd_nonempty {s0 s : St} {q : SeqSer} (hq : q.flow = false) (hf : q.first = false)
    (hb : Base o s) (hals : s.atLineStart = true) (hpsc : s.pendingSpaceAfterColon = false)
    (hcmd : s.currentMapDepth = s0.currentMapDepth)
    (hr : (q.restoreShift = none ∧ s.indentShift = s0.indentShift) ∨ q.restoreShift = some s0.indentShift) :
    Post o s0 (seqEnd o q s) ∧ (seqEnd o q s).out = s.out ∧ (seqEnd o q s).lastValueWasBlock = true := by
  rcases hr with ⟨hr, hs⟩ | hr
  all_goals
    refine ⟨?_, ?_, ?_⟩
    · constructor
      · constructor <;> simp [seqEnd, restoreShift, hr, hq, hf, hb.inFlow, hb.pendingFlow, hb.pss, hb.pic, hb.doc]
      all_goals simp [seqEnd, restoreShift, hr, hq, hf, hals, hpsc, hcmd, *]
    all_goals simp [seqEnd, restoreShift, hr, hq, hf]

/-! ### mapping steps -/

theorem keyText_key (hw : WriteContract o f P T) {k : List Char} (hk : P.key k = true) :
    keyText o f (.str k) = some (T.key k) := by
  simp [keyText, hw.key k hk]

theorem fits_not_long {t : List Char} (h : fitsImplicit t = true) : ¬ (t.length > maxImplicitKeyChars) := by
  simp only [fitsImplicit, decide_eq_true_eq] at h
  simp only [maxImplicitKeyChars]; omega

theorem long_of_not_fits {t : List Char} (h : fitsImplicit t = false) : t.length > maxImplicitKeyChars := by
  simp only [fitsImplicit, decide_eq_false_iff_not] at h
  simp only [maxImplicitKeyChars]; omega

/-- the state right after `key:` has been written, `current_map_depth` set for the value -/
def afterKey (s : St) (md : Nat) (text : List Char) (doc : Bool) : St :=
  { s with out := s.out ++ text, atLineStart := false, pendingSpaceAfterColon := true, afterDashDepth := none,
           pendingInlineMap := false, currentMapDepth := some md, docStarted := doc }

/-- one entry with a safe string key at a line start: `mapKeyPrefix`, the key text, `:`, then the
value in `ValCtx`, then the restoration of `current_map_depth` / `pending_inline_map` -/
theorem serMapEntries_cons_line (ho : FragOpts o) (hw : WriteContract o f P T) {m : MapSer} {s : St} {k : List Char} {c : Nat}
    (v : SVal) (es : List (SVal × SVal)) (hk : P.key k = true) (hfit : fitsImplicit (T.key k) = true) (hm : m.flow = false)
    (hivs : m.inlineValueStart = false) (h : LineCtx o s) (hcol : Col o s m.depth c) :
    ∃ s4, ValCtx o s4 m.depth c ∧ s4.out = s.out ++ spaces c ++ T.key k ++ [':'] ∧
      s4.lastValueWasBlock = s.lastValueWasBlock ∧ s4.indentShift = s.indentShift ∧ s4.currentMapDepth.isSome = true ∧
      serMapEntries o f m ((.str k, v) :: es) s =
        (match ser o f v s4 with
         | .error e => .error e
         | .ok s5 => serMapEntries o f { m with first := false, lastKeyComplex := false } es
             { s5 with currentMapDepth := s.currentMapDepth, pendingInlineMap := false }) := by
  have := h.als; have := h.psc; have := h.doc; have := doc_imp h.doc
  have hic := indentCols_col hcol
  refine ⟨afterKey s m.depth (spaces c ++ T.key k ++ [':']) true, ?_, ?_, ?_, ?_, ?_, ?_⟩
  · constructor
    · constructor <;> simp [afterKey, h.inFlow, h.pendingFlow, h.pss, h.pic]
    all_goals first
      | exact hcol.of_shift rfl
      | simp [afterKey]
  · simp [afterKey, List.append_assoc]
  · simp [afterKey]
  · simp [afterKey]
  · simp [afterKey]
  · rw [serMapEntries]
    simp only [hm, Bool.false_eq_true, if_false, keyText_key hw hk, fits_not_long hfit]
    by_cases hd : s.docStarted = true
    · simp [mapKeyPrefix, mapIndent, writeIndent, hic, St.write, afterKey, hivs, List.append_assoc, *]
      rfl
    · simp [mapKeyPrefix, mapIndent, writeIndent, hic, St.write, afterKey, hivs, List.append_assoc, *]
      rfl

/-- the first entry of a mapping that starts right after `- `: the key stays on the dash line -/
theorem serMapEntries_cons_inline (hw : WriteContract o f P T) {m : MapSer} {s : St} {k : List Char} {c : Nat}
    (v : SVal) (es : List (SVal × SVal)) (hk : P.key k = true) (hfit : fitsImplicit (T.key k) = true) (hm : m.flow = false)
    (hivs : m.inlineValueStart = false) (hb : Base o s) (hals : s.atLineStart = false)
    (hpsc : s.pendingSpaceAfterColon = false) (hcol : Col o s m.depth c) :
    ∃ s4, ValCtx o s4 m.depth c ∧ s4.out = s.out ++ T.key k ++ [':'] ∧ s4.lastValueWasBlock = false ∧
      s4.indentShift = s.indentShift ∧ s4.currentMapDepth.isSome = true ∧
      serMapEntries o f m ((.str k, v) :: es) s =
        (match ser o f v s4 with
         | .error e => .error e
         | .ok s5 => serMapEntries o f { m with first := false, lastKeyComplex := false } es
             { s5 with currentMapDepth := s.currentMapDepth, pendingInlineMap := false }) := by
  refine ⟨{ afterKey s m.depth (T.key k ++ [':']) s.docStarted with lastValueWasBlock := false }, ?_, ?_, ?_, ?_, ?_, ?_⟩
  · constructor
    · constructor <;> simp [afterKey, hb.inFlow, hb.pendingFlow, hb.pss, hb.pic, hb.doc]
    all_goals first
      | exact hcol.of_shift rfl
      | simp [afterKey]
  · simp [afterKey, List.append_assoc]
  · simp [afterKey]
  · simp [afterKey]
  · simp [afterKey]
  · rw [serMapEntries]
    simp only [hm, Bool.false_eq_true, if_false, keyText_key hw hk, fits_not_long hfit]
    simp [mapKeyPrefix, mapIndent, writeIndent, writeSpaceIfPending, St.write, afterKey, hivs, List.append_assoc, *]
    rfl

/-- `serialize_map` right after `- `: first key inline, the others aligned under it (two columns
after the dash) -/
theorem serializeMap_item {s : St} {d c : Nat} (len : Option Nat) (h : ItemCtx o s d c) :
    (serializeMap o len s).1 = { depth := d + 1, flow := false, first := true, restoreShift := some s.indentShift } ∧
    Base o (serializeMap o len s).2 ∧ (serializeMap o len s).2.atLineStart = false ∧
    (serializeMap o len s).2.pendingSpaceAfterColon = false ∧ (serializeMap o len s).2.out = s.out ∧
    (serializeMap o len s).2.lastValueWasBlock = s.lastValueWasBlock ∧
    (serializeMap o len s).2.currentMapDepth = s.currentMapDepth ∧
    Col o (serializeMap o len s).2 (d + 1) (c + 2) := by
  have := h.als; have := h.psc; have := h.add; have := h.inFlow; have := h.pendingFlow; have := h.pim; have := h.doc
  have hst : (serializeMap o len s).2 =
      shiftForInlineNode o { s with pendingFlow := none, pendingInlineMap := false, inlineMapAfterDash := true } := by
    simp [serializeMap, takeFlow, *]
  refine ⟨?_, ?_, ?_, ?_, ?_, ?_, ?_, ?_⟩
  · simp [serializeMap, takeFlow, *]
  · constructor <;> simp [hst, shiftForInlineNode, h.pss, h.pic, *]
  · simp [hst, shiftForInlineNode, *]
  · simp [hst, shiftForInlineNode, *]
  · simp [hst, shiftForInlineNode]
  · simp [hst, shiftForInlineNode]
  · simp [hst, shiftForInlineNode]
  · rw [hst]; exact Col.inline (h.col.of_shift rfl)

/-- `serialize_map` at a line start at depth 0 (the root) -/
theorem serializeMap_line {s : St} (len : Option Nat) (h : LineCtx o s) (hd0 : s.depth = 0) (hp : s.pendingInlineMap = false) :
    (serializeMap o len s).1 = { depth := 0, flow := false, first := true } ∧
    LineCtx o (serializeMap o len s).2 ∧ (serializeMap o len s).2.out = s.out ∧
    (serializeMap o len s).2.lastValueWasBlock = s.lastValueWasBlock ∧
    (serializeMap o len s).2.currentMapDepth = s.currentMapDepth ∧
    (serializeMap o len s).2.indentShift = s.indentShift := by
  have := h.als; have := h.psc; have := h.inFlow; have := h.pendingFlow; have := h.doc
  refine ⟨?_, ?_, ?_, ?_, ?_, ?_⟩
  · simp [serializeMap, takeFlow, *]
  · constructor
    · constructor <;> simp [serializeMap, takeFlow, *, h.pss, h.pic]
    all_goals simp [serializeMap, takeFlow, *]
  all_goals simp [serializeMap, takeFlow, *]

/-- `serialize_map` of a NON-EMPTY mapping right after `key:`: the entries start on the next line at
depth `m + 1` (line break forced by a block sibling, written because the length is known, or
deferred to the first key when the length is unknown) -/
theorem serializeMap_val (ho : FragOpts o) {s : St} {m c : Nat} (h : ValCtx o s m c) (known : Bool)
    (e : SVal × SVal) (es : List (SVal × SVal)) :
    ∃ s2, serMapEntries o f (serializeMap o (if known then some (e :: es).length else none) s).1 (e :: es)
          (serializeMap o (if known then some (e :: es).length else none) s).2 =
        serMapEntries o f { depth := m + 1, flow := false, first := true } (e :: es) s2 ∧
      LineCtx o s2 ∧ s2.out = s.out ++ ['\n'] ∧
      s2.lastValueWasBlock = false ∧ s2.currentMapDepth = s.currentMapDepth ∧ s2.indentShift = s.indentShift := by
  have := h.als; have := h.psc; have := h.add; have := h.inFlow; have := h.pendingFlow; have := h.pim; have := h.doc
  have := ho.braces
  have hbase : (if s.currentMapDepth.isSome = true then s.currentMapDepth.getD s.depth else s.depth) = m := by
    rcases h.cmd with hc | ⟨hc, hm, hd0⟩
    · simp [hc]
    · simp [hc, hm, hd0]
  obtain ⟨k, v⟩ := e
  refine ⟨newline { s with pendingSpaceAfterColon := false, pendingFlow := none, lastValueWasBlock := false }, ?_, ?_, ?_, ?_, ?_, ?_⟩
  · cases hl : s.lastValueWasBlock <;> cases known
    · -- unknown length, no block sibling: the first key breaks the line
      rw [serMapEntries, serMapEntries]
      simp [serializeMap, takeFlow, mapKeyPrefix, newline, *]
    · simp [serializeMap, takeFlow, newline, *]
    · simp [serializeMap, takeFlow, newline, *]
    · simp [serializeMap, takeFlow, newline, *]
  · constructor
    · constructor <;> simp [newline, *, h.pss, h.pic]
    all_goals simp [newline]
  all_goals simp [newline, *]

/-- `MapSer::finish` of a non-empty block mapping (`s0` = the state the mapping started in) -/
theorem mapEnd_nonempty {s0 s : St} {m : MapSer} (hm : m.flow = false) (hf : m.first = false)
    (hb : Base o s) (hals : s.atLineStart = true) (hpsc : s.pendingSpaceAfterColon = false)
    (hcmd : s.currentMapDepth = s0.currentMapDepth)
    (hr : (m.restoreShift = none ∧ s.indentShift = s0.indentShift) ∨ m.restoreShift = some s0.indentShift) :
    Post o s0 (mapEnd o m s) ∧ (mapEnd o m s).out = s.out ∧ (mapEnd o m s).lastValueWasBlock = true := by
  rcases hr with ⟨hr, hs⟩ | hr
  all_goals
    refine ⟨?_, ?_, ?_⟩
    · constructor
      · constructor <;> simp [mapEnd, restoreShift, hr, hm, hf, hb.inFlow, hb.pendingFlow, hb.pss, hb.pic, hb.doc]
      all_goals simp [mapEnd, restoreShift, hr, hm, hf, hals, hpsc, hcmd, *]
    all_goals simp [mapEnd, restoreShift, hr, hm, hf]


/-! ### composite keys: `? key` / `: value` -/

theorem keyText_complex : ∀ (k : SVal), isComplexKey k = true → keyText o f k = none
  | .seq _, _ => rfl
  | .tuple _, _ => rfl
  | .tupleStruct _, _ => rfl
  | .map _ _, _ => rfl
  | .newtypeVariant _ _, _ => rfl
  | .tupleVariant _ _, _ => rfl
  | .structVariant _ _, _ => rfl
  | .some v, h => by simp only [isComplexKey] at h; simpa [keyText] using keyText_complex v h
  | .newtypeStruct v, h => by simp only [isComplexKey] at h; simpa [keyText] using keyText_complex v h
  | .unit, h => by simp [isComplexKey] at h
  | .bool _, h => by simp [isComplexKey] at h
  | .int _, h => by simp [isComplexKey] at h
  | .str _, h => by simp [isComplexKey] at h
  | .none, h => by simp [isComplexKey] at h
  | .unitVariant _ _, h => by simp [isComplexKey] at h
  | .flowSeq _, h => by simp [isComplexKey] at h
  | .flowMap _, h => by simp [isComplexKey] at h
  | .commented _ _, h => by simp [isComplexKey] at h
  | .spaceAfter _, h => by simp [isComplexKey] at h
  | .litStr _, h => by simp [isComplexKey] at h
  | .foldStr _, h => by simp [isComplexKey] at h

theorem keyOf_complex : ∀ (k : SVal), isComplexKey k = true → keyOf k = none
  | .str _, h => by simp [isComplexKey] at h
  | .seq _, _ => rfl
  | .tuple _, _ => rfl
  | .tupleStruct _, _ => rfl
  | .map _ _, _ => rfl
  | .newtypeVariant _ _, _ => rfl
  | .tupleVariant _ _, _ => rfl
  | .structVariant _ _, _ => rfl
  | .some _, _ => rfl
  | .newtypeStruct _, _ => rfl
  | .unit, _ => rfl
  | .bool _, _ => rfl
  | .int _, _ => rfl
  | .none, _ => rfl
  | .unitVariant _ _, _ => rfl
  | .flowSeq _, _ => rfl
  | .flowMap _, _ => rfl
  | .commented _ _, _ => rfl
  | .spaceAfter _, _ => rfl
  | .litStr _, _ => rfl
  | .foldStr _, _ => rfl

/-- one entry with a composite key of a block mapping: the key and the value are serialized in the
states `complexKeyCtx` / `complexValueCtx` -/
theorem serMapEntries_complex (m : MapSer) (k v : SVal) (es : List (SVal × SVal)) (s : St)
    (hm : m.flow = false) (hkt : keyText o f k = none) :
    serMapEntries o f m ((k, v) :: es) s =
      (match ser o f k (complexKeyCtx (mapKeyPrefix m s).1 (complexKeyMark o (mapKeyPrefix m s).1 (mapKeyPrefix m s).2)) with
       | .error e => .error e
       | .ok sk =>
         match ser o f v (complexValueCtx o (mapKeyPrefix m s).1 (complexKeyMark o (mapKeyPrefix m s).1 (mapKeyPrefix m s).2) sk) with
         | .error e => .error e
         | .ok sv => serMapEntries o f { (mapKeyPrefix m s).1 with first := false, lastKeyComplex := false } es
             (complexEntryDone (complexKeyMark o (mapKeyPrefix m s).1 (mapKeyPrefix m s).2) sv)) := by
  rw [serMapEntries]
  simp only [hm, Bool.false_eq_true, if_false, hkt]
  generalize mapKeyPrefix m s = p
  obtain ⟨m', s'⟩ := p
  rfl

/-- the key of a composite entry that starts a line: `? ` at column `c`, the key in item context -/
theorem complexKey_line (ho : FragOpts o) {m : MapSer} {s : St} {c : Nat} (hivs : m.inlineValueStart = false)
    (h : LineCtx o s) (hcol : Col o s m.depth c) :
    (mapKeyPrefix m s).1 = m ∧
    ItemCtx o (complexKeyCtx m (complexKeyMark o m (mapKeyPrefix m s).2)) m.depth c ∧
    (complexKeyCtx m (complexKeyMark o m (mapKeyPrefix m s).2)).out = s.out ++ spaces c ++ ['?', ' '] ∧
    (complexKeyCtx m (complexKeyMark o m (mapKeyPrefix m s).2)).lastValueWasBlock = s.lastValueWasBlock ∧
    (complexKeyCtx m (complexKeyMark o m (mapKeyPrefix m s).2)).indentShift = s.indentShift ∧
    (complexKeyMark o m (mapKeyPrefix m s).2).depth = s.depth ∧
    (complexKeyMark o m (mapKeyPrefix m s).2).currentMapDepth = s.currentMapDepth ∧
    (complexKeyMark o m (mapKeyPrefix m s).2).pendingInlineMap = false ∧
    (complexKeyMark o m (mapKeyPrefix m s).2).afterDashDepth = none := by
  have := h.als; have := h.psc; have := h.doc; have := doc_imp h.doc
  have hic := indentCols_col hcol
  have hsh : (complexKeyCtx m (complexKeyMark o m (mapKeyPrefix m s).2)).indentShift = s.indentShift := by
    by_cases hd : s.docStarted = true <;>
      simp [complexKeyCtx, complexKeyMark, mapKeyPrefix, writeIndent, St.write, hivs, *]
  refine ⟨?_, ?_, ?_, ?_, hsh, ?_, ?_, ?_, ?_⟩
  · simp [mapKeyPrefix, hivs, *]
  · constructor
    · constructor <;> (by_cases hd : s.docStarted = true <;>
        simp [complexKeyCtx, complexKeyMark, mapKeyPrefix, writeIndent, St.write, hivs, *, h.inFlow, h.pendingFlow, h.pss, h.pic])
    all_goals first
      | exact hcol.of_shift hsh
      | (by_cases hd : s.docStarted = true <;>
          simp [complexKeyCtx, complexKeyMark, mapKeyPrefix, writeIndent, St.write, hivs, *])
  all_goals (by_cases hd : s.docStarted = true <;>
    simp [complexKeyCtx, complexKeyMark, mapKeyPrefix, writeIndent, hic, St.write, hivs, List.append_assoc, *])

/-- the key of a composite FIRST entry of a mapping that starts right after `- `: `? ` on the dash line -/
theorem complexKey_inline {m : MapSer} {s : St} {c : Nat} (hivs : m.inlineValueStart = false)
    (hb : Base o s) (hals : s.atLineStart = false) (hpsc : s.pendingSpaceAfterColon = false) (hcol : Col o s m.depth c) :
    (mapKeyPrefix m s).1 = m ∧
    ItemCtx o (complexKeyCtx m (complexKeyMark o m (mapKeyPrefix m s).2)) m.depth c ∧
    (complexKeyCtx m (complexKeyMark o m (mapKeyPrefix m s).2)).out = s.out ++ ['?', ' '] ∧
    (complexKeyCtx m (complexKeyMark o m (mapKeyPrefix m s).2)).lastValueWasBlock = false ∧
    (complexKeyCtx m (complexKeyMark o m (mapKeyPrefix m s).2)).indentShift = s.indentShift ∧
    (complexKeyMark o m (mapKeyPrefix m s).2).depth = s.depth ∧
    (complexKeyMark o m (mapKeyPrefix m s).2).currentMapDepth = s.currentMapDepth ∧
    (complexKeyMark o m (mapKeyPrefix m s).2).pendingInlineMap = false ∧
    (complexKeyMark o m (mapKeyPrefix m s).2).afterDashDepth = none := by
  have hsh : (complexKeyCtx m (complexKeyMark o m (mapKeyPrefix m s).2)).indentShift = s.indentShift := by
    simp [complexKeyCtx, complexKeyMark, mapKeyPrefix, writeIndent, writeSpaceIfPending, St.write, hivs, *]
  refine ⟨?_, ?_, ?_, ?_, hsh, ?_, ?_, ?_, ?_⟩
  · simp [mapKeyPrefix, hivs, *]
  · constructor
    · constructor <;>
        simp [complexKeyCtx, complexKeyMark, mapKeyPrefix, writeIndent, writeSpaceIfPending, St.write, hivs, *, hb.inFlow, hb.pendingFlow, hb.pss, hb.pic, hb.doc]
    all_goals first
      | exact hcol.of_shift hsh
      | simp [complexKeyCtx, complexKeyMark, mapKeyPrefix, writeIndent, writeSpaceIfPending, St.write, hivs, *]
  all_goals
    simp [complexKeyCtx, complexKeyMark, mapKeyPrefix, writeIndent, writeSpaceIfPending, St.write, hivs, List.append_assoc, *]

/-- the value of a composite entry: `: ` at column `c`, the value in item context; `s0` = the state the
saved fields are taken from, `sk` = the state after the key -/
theorem complexValue_ctx (ho : FragOpts o) {m : MapSer} {s0 sk : St} {c : Nat}
    (hb : Base o sk) (hals : sk.atLineStart = true) (hcol : Col o sk m.depth c) :
    ItemCtx o (complexValueCtx o m s0 sk) m.depth c ∧
    (complexValueCtx o m s0 sk).out = sk.out ++ spaces c ++ [':', ' '] ∧
    (complexValueCtx o m s0 sk).lastValueWasBlock = false ∧
    (complexValueCtx o m s0 sk).indentShift = sk.indentShift := by
  have := hb.doc; have := doc_imp hb.doc
  have hic := indentCols_col hcol
  have hsh : (complexValueCtx o m s0 sk).indentShift = sk.indentShift := by
    by_cases hd : sk.docStarted = true <;> simp [complexValueCtx, explicitValueCtx, mapIndent, writeIndent, St.write, *]
  refine ⟨?_, ?_, ?_, hsh⟩
  · constructor
    · constructor <;> (by_cases hd : sk.docStarted = true <;>
        simp [complexValueCtx, explicitValueCtx, mapIndent, writeIndent, St.write, *, hb.inFlow, hb.pendingFlow, hb.pss, hb.pic])
    all_goals first
      | exact hcol.of_shift hsh
      | (by_cases hd : sk.docStarted = true <;> simp [complexValueCtx, explicitValueCtx, mapIndent, writeIndent, St.write, *])
  all_goals (by_cases hd : sk.docStarted = true <;>
    simp [complexValueCtx, explicitValueCtx, mapIndent, writeIndent, hic, St.write, List.append_assoc, *])


/-- `MapSer::serialize_value` with `last_key_complex` after a finished key line: `: ` at column `c`, the value in
item context -/
theorem explicitValue_ctx (ho : FragOpts o) {m : MapSer} {sk : St} {c : Nat}
    (hb : Base o sk) (hals : sk.atLineStart = true) (hcol : Col o sk m.depth c) :
    ItemCtx o (explicitValueCtx o m sk) m.depth c ∧
    (explicitValueCtx o m sk).out = sk.out ++ spaces c ++ [':', ' '] ∧
    (explicitValueCtx o m sk).lastValueWasBlock = sk.lastValueWasBlock ∧
    (explicitValueCtx o m sk).indentShift = sk.indentShift := by
  have := hb.doc; have := doc_imp hb.doc
  have hic := indentCols_col hcol
  have hsh : (explicitValueCtx o m sk).indentShift = sk.indentShift := by
    by_cases hd : sk.docStarted = true <;> simp [explicitValueCtx, mapIndent, writeIndent, St.write, *]
  refine ⟨?_, ?_, ?_, hsh⟩
  · constructor
    · constructor <;> (by_cases hd : sk.docStarted = true <;>
        simp [explicitValueCtx, mapIndent, writeIndent, St.write, *, hb.inFlow, hb.pendingFlow, hb.pss, hb.pic])
    all_goals first
      | exact hcol.of_shift hsh
      | (by_cases hd : sk.docStarted = true <;> simp [explicitValueCtx, mapIndent, writeIndent, St.write, *])
  all_goals (by_cases hd : sk.docStarted = true <;>
    simp [explicitValueCtx, mapIndent, writeIndent, hic, St.write, List.append_assoc, *])

/-! ### scalar keys too long for an implicit key: `? key` / `: value` -/

/-- one entry of a block mapping whose string key is written as an explicit key -/
theorem serMapEntries_long (hw : WriteContract o f P T) (m : MapSer) {k : List Char} (v : SVal) (es : List (SVal × SVal)) (s : St)
    (hm : m.flow = false) (hk : P.key k = true) (hfit : fitsImplicit (T.key k) = false) :
    serMapEntries o f m ((.str k, v) :: es) s =
      (match ser o f v (explicitValueCtx o (mapKeyPrefix m s).1 (longKeyLine o (mapKeyPrefix m s).1 (T.key k) (mapKeyPrefix m s).2)) with
       | .error e => .error e
       | .ok sv => serMapEntries o f { (mapKeyPrefix m s).1 with first := false, lastKeyComplex := false } es
           (complexEntryDone (longKeyLine o (mapKeyPrefix m s).1 (T.key k) (mapKeyPrefix m s).2) sv)) := by
  rw [serMapEntries]
  simp only [hm, Bool.false_eq_true, if_false, keyText_key hw hk, long_of_not_fits hfit, if_true]
  generalize mapKeyPrefix m s = p
  obtain ⟨m', s'⟩ := p
  rfl

/-- the line `? key` of a long key that starts a line, at column `c` -/
theorem longKey_line (ho : FragOpts o) {m : MapSer} {s : St} {c : Nat} (K : List Char) (hivs : m.inlineValueStart = false)
    (h : LineCtx o s) (hcol : Col o s m.depth c) :
    (mapKeyPrefix m s).1 = m ∧
    Base o (longKeyLine o m K (mapKeyPrefix m s).2) ∧
    (longKeyLine o m K (mapKeyPrefix m s).2).atLineStart = true ∧
    (longKeyLine o m K (mapKeyPrefix m s).2).out = s.out ++ spaces c ++ ['?', ' '] ++ K ++ ['\n'] ∧
    (longKeyLine o m K (mapKeyPrefix m s).2).lastValueWasBlock = false ∧
    (longKeyLine o m K (mapKeyPrefix m s).2).indentShift = s.indentShift ∧
    (longKeyLine o m K (mapKeyPrefix m s).2).depth = s.depth ∧
    (longKeyLine o m K (mapKeyPrefix m s).2).currentMapDepth = s.currentMapDepth ∧
    (longKeyLine o m K (mapKeyPrefix m s).2).pendingInlineMap = false := by
  have := h.als; have := h.psc; have := h.doc; have := doc_imp h.doc
  have hic := indentCols_col hcol
  refine ⟨?_, ?_, ?_, ?_, ?_, ?_, ?_, ?_, ?_⟩
  · simp [mapKeyPrefix, hivs, *]
  · constructor <;> (by_cases hd : s.docStarted = true <;>
      simp [longKeyLine, mapIndent, newline, mapKeyPrefix, writeIndent, St.write, hivs, *, h.inFlow, h.pendingFlow, h.pss, h.pic])
  all_goals (by_cases hd : s.docStarted = true <;>
    simp [longKeyLine, mapIndent, newline, mapKeyPrefix, writeIndent, hic, St.write, hivs, List.append_assoc, *])

/-- the line `? key` of a long FIRST key of a mapping that starts right after `- `: on the dash line -/
theorem longKey_inline {m : MapSer} {s : St} (K : List Char) (hivs : m.inlineValueStart = false)
    (hb : Base o s) (hals : s.atLineStart = false) (hpsc : s.pendingSpaceAfterColon = false) :
    (mapKeyPrefix m s).1 = m ∧
    Base o (longKeyLine o m K (mapKeyPrefix m s).2) ∧
    (longKeyLine o m K (mapKeyPrefix m s).2).atLineStart = true ∧
    (longKeyLine o m K (mapKeyPrefix m s).2).out = s.out ++ ['?', ' '] ++ K ++ ['\n'] ∧
    (longKeyLine o m K (mapKeyPrefix m s).2).lastValueWasBlock = false ∧
    (longKeyLine o m K (mapKeyPrefix m s).2).indentShift = s.indentShift ∧
    (longKeyLine o m K (mapKeyPrefix m s).2).depth = s.depth ∧
    (longKeyLine o m K (mapKeyPrefix m s).2).currentMapDepth = s.currentMapDepth ∧
    (longKeyLine o m K (mapKeyPrefix m s).2).pendingInlineMap = false := by
  refine ⟨?_, ?_, ?_, ?_, ?_, ?_, ?_, ?_, ?_⟩
  · simp [mapKeyPrefix, hivs, *]
  · constructor <;>
      simp [longKeyLine, mapIndent, newline, mapKeyPrefix, writeIndent, writeSpaceIfPending, St.write, hivs, *, hb.inFlow, hb.pendingFlow, hb.pss, hb.pic, hb.doc]
  all_goals
    simp [longKeyLine, mapIndent, newline, mapKeyPrefix, writeIndent, writeSpaceIfPending, St.write, hivs, List.append_assoc, *]

/-! ### enum variants with data: `begin_variant` / `end_variant` -/

theorem plainOrQuoted_name (hw : WriteContract o f P T) {n : List Char} (hn : P.name n = true) :
    plainOrQuoted o f n = T.name n := hw.name n hn

/-- `serialize_newtype_variant` / `serialize_tuple_variant` / `serialize_struct_variant`: the key, the
payload `P` in value position, `end_variant` -/
def variantRun (o : Opts) (f : ScalarFns) (n : List Char) (P : St → Except EmitErr St) (s : St) : Except EmitErr St :=
  match P (beginVariant o f n s).2 with
  | .error e => .error e
  | .ok s2 => .ok (endVariant (beginVariant o f n s).1 s2)

theorem ser_seq (xs : List SVal) (s : St) :
    ser o f (.seq xs) s =
      (match serSeqElems o f (serializeSeq o s).1 xs (serializeSeq o s).2 with
       | .error e => .error e
       | .ok (q, s') => .ok (seqEnd o q s')) := by
  rw [ser]
  generalize serializeSeq o s = p
  cases p; rfl

theorem ser_tuple (xs : List SVal) (s : St) : ser o f (.tuple xs) s = ser o f (.seq xs) s := by
  rw [ser, ser]

theorem ser_tupleStruct (xs : List SVal) (s : St) : ser o f (.tupleStruct xs) s = ser o f (.seq xs) s := by
  rw [ser, ser]

theorem ser_map (known : Bool) (es : List (SVal × SVal)) (s : St) :
    ser o f (.map known es) s =
      (match serMapEntries o f (serializeMap o (if known then some es.length else none) s).1 es
          (serializeMap o (if known then some es.length else none) s).2 with
       | .error e => .error e
       | .ok (m, s') => .ok (mapEnd o m s')) := by
  rw [ser]
  generalize serializeMap o (if known then some es.length else none) s = p
  cases p; rfl

theorem ser_newtypeVariant (n : List Char) (v : SVal) (s : St) :
    ser o f (.newtypeVariant n v) s = variantRun o f n (ser o f v) s := by
  rw [ser, variantRun]
  generalize beginVariant o f n s = p
  cases p; rfl

theorem ser_tupleVariant (n : List Char) (xs : List SVal) (s : St) :
    ser o f (.tupleVariant n xs) s = variantRun o f n (ser o f (.seq xs)) s := by
  rw [ser, variantRun, ser_seq]
  generalize beginVariant o f n s = p
  obtain ⟨fr, s1⟩ := p
  simp only
  generalize serializeSeq o s1 = p2
  obtain ⟨q, s2⟩ := p2
  simp only
  cases serSeqElems o f q xs s2 with
  | error e => rfl
  | ok r => rfl

theorem ser_structVariant (n : List Char) (fs : List (SVal × SVal)) (s : St) :
    ser o f (.structVariant n fs) s = variantRun o f n (ser o f (.map true fs)) s := by
  rw [ser, variantRun, ser_map]
  generalize beginVariant o f n s = p
  obtain ⟨fr, s1⟩ := p
  simp only [if_true]
  generalize serializeMap o (some fs.length) s1 = p2
  obtain ⟨m, s2⟩ := p2
  simp only
  cases serMapEntries o f m fs s2 with
  | error e => rfl
  | ok r => rfl

/-- `begin_variant` right after `key:`: the label goes to the next line one level deeper -/
theorem beginVariant_val (ho : FragOpts o) (hw : WriteContract o f P T) {s : St} {m c : Nat} (h : ValCtx o s m c) {n : List Char}
    (hn : P.name n = true) (hfit : fitsImplicit (T.name n) = true) :
    ∃ s3, beginVariant o f n s = ({ prevMapDepth := some s.currentMapDepth }, s3) ∧
      ValCtx o s3 (m + 1) (c + o.indentStep) ∧
      s3.out = s.out ++ ['\n'] ++ spaces (c + o.indentStep) ++ T.name n ++ [':'] ∧
      s3.lastValueWasBlock = s.lastValueWasBlock ∧ s3.indentShift = s.indentShift ∧ s3.currentMapDepth.isSome = true := by
  have := h.als; have := h.psc; have := h.doc; have := doc_imp h.doc
  have := h.inFlow
  have hic := indentCols_col (h.col.succ ho.indent)
  have hbase : s.currentMapDepth.getD s.depth = m := by
    rcases h.cmd with hc | ⟨hc, hm, hd0⟩
    · simp [hc]
    · simp [hc, hm, hd0]
  refine ⟨{ afterKey s (m + 1) (['\n'] ++ spaces (c + o.indentStep) ++ T.name n ++ [':']) true with afterDashDepth := s.afterDashDepth }, ?_, ?_, ?_, ?_, ?_, ?_⟩
  · by_cases hd : s.docStarted = true <;>
      simp [beginVariant, newline, writeIndent, hic, St.write, afterKey, plainOrQuoted_name hw hn, fits_not_long hfit, List.append_assoc, *]
  · constructor
    · constructor <;> simp [afterKey, h.inFlow, h.pendingFlow, h.pss, h.pic]
    all_goals first
      | exact (h.col.succ ho.indent).of_shift rfl
      | simp [afterKey, h.add]
  · simp [afterKey, List.append_assoc]
  · simp [afterKey]
  · simp [afterKey]
  · simp [afterKey]

/-- `begin_variant` right after `- `: the label stays on the dash line, the payload is laid out
under it (two columns after the dash) -/
theorem beginVariant_item (ho : FragOpts o) (hw : WriteContract o f P T) {s : St} {d c : Nat} (h : ItemCtx o s d c) {n : List Char}
    (hn : P.name n = true) (hfit : fitsImplicit (T.name n) = true) :
    ∃ s3, beginVariant o f n s = ({ prevMapDepth := some s.currentMapDepth, restoreShift := some s.indentShift }, s3) ∧
      ValCtx o s3 (d + 1) (c + 2) ∧ s3.out = s.out ++ T.name n ++ [':'] ∧ s3.lastValueWasBlock = s.lastValueWasBlock ∧
      s3.currentMapDepth.isSome = true := by
  have := h.als; have := h.psc; have := h.add; have := h.inFlow; have := h.doc
  refine ⟨shiftForInlineNode o (afterKey s (d + 1) (T.name n ++ [':']) s.docStarted), ?_, ?_, ?_, ?_, ?_⟩
  · simp [beginVariant, indentIfLineStart, St.write, afterKey, plainOrQuoted_name hw hn, fits_not_long hfit, List.append_assoc,
      shiftForInlineNode, *]
  · constructor
    · constructor <;> simp [shiftForInlineNode, afterKey, h.inFlow, h.pendingFlow, h.pss, h.pic, h.doc]
    all_goals first
      | exact Col.inline (h.col.of_shift rfl)
      | simp [shiftForInlineNode, afterKey]
  · simp [shiftForInlineNode, afterKey, List.append_assoc]
  · simp [shiftForInlineNode, afterKey]
  · simp [shiftForInlineNode, afterKey]


/-- `begin_variant` at the root: the label at column 0, the payload in `ValCtx _ 0 0` -/
theorem beginVariant_root (ho : FragOpts o) (hw : WriteContract o f P T) {n : List Char} (hn : P.name n = true)
    (hfit : fitsImplicit (T.name n) = true) :
    ∃ s3, beginVariant o f n (startSt o) = ({}, s3) ∧ ValCtx o s3 0 0 ∧ s3.out = prologue o ++ T.name n ++ [':'] ∧
      s3.lastValueWasBlock = false ∧ s3.currentMapDepth = none := by
  have hc0 : Col o (startSt o) 0 0 := by simp [Col, startSt]
  have hic := indentCols_col hc0
  refine ⟨{ afterKey (startSt o) 0 (T.name n ++ [':']) true with currentMapDepth := none }, ?_, ?_, ?_, ?_, ?_⟩
  · have hic' := hic (startSt o) rfl
    simp only [startSt] at hic'
    simp [beginVariant, indentIfLineStart, writeIndent, hic', St.write, afterKey, plainOrQuoted_name hw hn, fits_not_long hfit, spaces, startSt]
  · constructor
    · constructor <;> simp [afterKey, startSt]
    all_goals first
      | exact hc0.of_shift rfl
      | simp [afterKey, startSt]
  · simp [afterKey, startSt, List.append_assoc]
  · simp [afterKey, startSt]
  · simp [afterKey]

/-- `begin_variant` right after `key:` for a name too long for an implicit key: `? Variant` on the next line one level
deeper, `: ` under it, the payload in item context -/
theorem beginVariant_val_long (ho : FragOpts o) (hw : WriteContract o f P T) {s : St} {m c : Nat} (h : ValCtx o s m c) {n : List Char}
    (hn : P.name n = true) (hfit : fitsImplicit (T.name n) = false) :
    (beginVariant o f n s).1.flow = false ∧ (beginVariant o f n s).1.prevMapDepth = some s.currentMapDepth ∧
    (beginVariant o f n s).1.restoreShift = none ∧
    ItemCtx o (beginVariant o f n s).2 (m + 1) (c + o.indentStep) ∧
    (beginVariant o f n s).2.out = s.out ++ ['\n'] ++ spaces (c + o.indentStep) ++ ['?', ' '] ++ T.name n ++ ['\n'] ++
      spaces (c + o.indentStep) ++ [':', ' '] ∧
    (beginVariant o f n s).2.lastValueWasBlock = s.lastValueWasBlock ∧
    (beginVariant o f n s).2.indentShift = s.indentShift := by
  have := h.als; have := h.psc; have := h.doc; have := doc_imp h.doc
  have := h.inFlow
  have hic := indentCols_col (h.col.succ ho.indent)
  have hbase : s.currentMapDepth.getD s.depth = m := by
    rcases h.cmd with hc | ⟨hc, hm, hd0⟩
    · simp [hc]
    · simp [hc, hm, hd0]
  have hlong := long_of_not_fits hfit
  have hsh : (beginVariant o f n s).2.indentShift = s.indentShift := by
    by_cases hd : s.docStarted = true <;>
      simp [beginVariant, beginVariantExplicit, newline, writeIndent, St.write, plainOrQuoted_name hw hn, hlong, *]
  refine ⟨?_, ?_, ?_, ?_, ?_, ?_, hsh⟩
  · by_cases hd : s.docStarted = true <;>
      simp [beginVariant, beginVariantExplicit, newline, writeIndent, St.write, plainOrQuoted_name hw hn, hlong, *]
  · by_cases hd : s.docStarted = true <;>
      simp [beginVariant, beginVariantExplicit, newline, writeIndent, St.write, plainOrQuoted_name hw hn, hlong, *]
  · by_cases hd : s.docStarted = true <;>
      simp [beginVariant, beginVariantExplicit, newline, writeIndent, St.write, plainOrQuoted_name hw hn, hlong, *]
  · constructor
    · constructor <;> (by_cases hd : s.docStarted = true <;>
        simp [beginVariant, beginVariantExplicit, newline, writeIndent, St.write, plainOrQuoted_name hw hn, hlong, *,
          h.pendingFlow, h.pss, h.pic])
    all_goals first
      | exact (h.col.succ ho.indent).of_shift hsh
      | (by_cases hd : s.docStarted = true <;>
          simp [beginVariant, beginVariantExplicit, newline, writeIndent, St.write, plainOrQuoted_name hw hn, hlong, *])
  · by_cases hd : s.docStarted = true <;>
      simp [beginVariant, beginVariantExplicit, newline, writeIndent, hic, St.write, plainOrQuoted_name hw hn, hlong, List.append_assoc, *]
  · by_cases hd : s.docStarted = true <;>
      simp [beginVariant, beginVariantExplicit, newline, writeIndent, St.write, plainOrQuoted_name hw hn, hlong, *]

/-- `begin_variant` right after `- ` for a name too long for an implicit key: `? Variant` on the dash line, `: `
under the `?` (two columns after the dash), the payload in item context -/
theorem beginVariant_item_long (ho : FragOpts o) (hw : WriteContract o f P T) {s : St} {d c : Nat} (h : ItemCtx o s d c) {n : List Char}
    (hn : P.name n = true) (hfit : fitsImplicit (T.name n) = false) :
    (beginVariant o f n s).1.flow = false ∧ (beginVariant o f n s).1.prevMapDepth = some s.currentMapDepth ∧
    (beginVariant o f n s).1.restoreShift = some s.indentShift ∧
    ItemCtx o (beginVariant o f n s).2 (d + 1) (c + 2) ∧
    (beginVariant o f n s).2.out = s.out ++ ['?', ' '] ++ T.name n ++ ['\n'] ++ spaces (c + 2) ++ [':', ' '] ∧
    (beginVariant o f n s).2.lastValueWasBlock = s.lastValueWasBlock := by
  have := h.als; have := h.psc; have := h.add; have := h.inFlow; have := h.doc; have := doc_imp h.doc
  have hcol2 : Col o (shiftForInlineNode o s) (d + 1) (c + 2) := Col.inline h.col
  have hic := indentCols_col hcol2
  have hlong := long_of_not_fits hfit
  have hsh : (beginVariant o f n s).2.indentShift = (shiftForInlineNode o s).indentShift := by
    by_cases hd : s.docStarted = true <;>
      simp [beginVariant, beginVariantExplicit, newline, writeIndent, St.write, plainOrQuoted_name hw hn, hlong, shiftForInlineNode, *]
  refine ⟨?_, ?_, ?_, ?_, ?_, ?_⟩
  · by_cases hd : s.docStarted = true <;>
      simp [beginVariant, beginVariantExplicit, newline, writeIndent, St.write, plainOrQuoted_name hw hn, hlong, shiftForInlineNode, *]
  · by_cases hd : s.docStarted = true <;>
      simp [beginVariant, beginVariantExplicit, newline, writeIndent, St.write, plainOrQuoted_name hw hn, hlong, shiftForInlineNode, *]
  · by_cases hd : s.docStarted = true <;>
      simp [beginVariant, beginVariantExplicit, newline, writeIndent, St.write, plainOrQuoted_name hw hn, hlong, shiftForInlineNode, *]
  · constructor
    · constructor <;> (by_cases hd : s.docStarted = true <;>
        simp [beginVariant, beginVariantExplicit, newline, writeIndent, St.write, plainOrQuoted_name hw hn, hlong, shiftForInlineNode, *,
          h.pendingFlow, h.pss, h.pic])
    all_goals first
      | exact hcol2.of_shift hsh
      | (by_cases hd : s.docStarted = true <;>
          simp [beginVariant, beginVariantExplicit, newline, writeIndent, St.write, plainOrQuoted_name hw hn, hlong, shiftForInlineNode, *])
  · have hic' := hic (shiftForInlineNode o s) rfl
    simp only [shiftForInlineNode] at hic'
    by_cases hd : s.docStarted = true <;>
      simp [beginVariant, beginVariantExplicit, newline, writeIndent, hic', St.write, plainOrQuoted_name hw hn, hlong, shiftForInlineNode,
        List.append_assoc, *]
  · by_cases hd : s.docStarted = true <;>
      simp [beginVariant, beginVariantExplicit, newline, writeIndent, St.write, plainOrQuoted_name hw hn, hlong, shiftForInlineNode, *]

/-- `begin_variant` at the root for a name too long for an implicit key: `? Variant` at column 0, `: ` under it -/
theorem beginVariant_root_long (ho : FragOpts o) (hw : WriteContract o f P T) {n : List Char} (hn : P.name n = true)
    (hfit : fitsImplicit (T.name n) = false) :
    (beginVariant o f n (startSt o)).1.flow = false ∧ (beginVariant o f n (startSt o)).1.restoreShift = none ∧
    ItemCtx o (beginVariant o f n (startSt o)).2 0 0 ∧
    (beginVariant o f n (startSt o)).2.out = prologue o ++ ['?', ' '] ++ T.name n ++ ['\n'] ++ [':', ' '] ∧
    (beginVariant o f n (startSt o)).2.lastValueWasBlock = false := by
  have hc0 : Col o (startSt o) 0 0 := by simp [Col, startSt]
  have hic := indentCols_col hc0
  have hlong := long_of_not_fits hfit
  have hic' := hic (startSt o) rfl
  simp only [startSt] at hic'
  have hic2 : ∀ out, indentCols o { out := out, atLineStart := true, docStarted := true } 0 = 0 := by
    intro out; simp [indentCols]
  refine ⟨?_, ?_, ?_, ?_, ?_⟩
  · simp [beginVariant, beginVariantExplicit, newline, writeIndent, St.write, plainOrQuoted_name hw hn, hlong, startSt]
  · simp [beginVariant, beginVariantExplicit, newline, writeIndent, St.write, plainOrQuoted_name hw hn, hlong, startSt]
  · constructor
    · constructor <;> simp [beginVariant, beginVariantExplicit, newline, writeIndent, St.write, plainOrQuoted_name hw hn, hlong, startSt]
    all_goals first
      | (simp [beginVariant, beginVariantExplicit, newline, writeIndent, St.write, plainOrQuoted_name hw hn, hlong, startSt, Col]; done)
      | simp [beginVariant, beginVariantExplicit, newline, writeIndent, St.write, plainOrQuoted_name hw hn, hlong, startSt]
  · simp [beginVariant, beginVariantExplicit, newline, writeIndent, hic', hic2, St.write, plainOrQuoted_name hw hn, hlong, startSt, spaces,
      List.append_assoc, indentCols]
  · simp [beginVariant, beginVariantExplicit, newline, writeIndent, St.write, plainOrQuoted_name hw hn, hlong, startSt]

/-! ### the invariant: statements -/

/-- restoring `current_map_depth` (and `indent_shift`) after a nested value keeps the result shape -/
theorem Good.restore {s s3 : St} {r : List Char × List Line × Bool} {res : Except EmitErr St}
    (pre : List Char) (h : Good o s3 r res) (hout : s3.out = s.out ++ pre) (rs : Option Int)
    (hr : (rs = none ∧ s3.indentShift = s.indentShift) ∨ rs = some s.indentShift) :
    ∃ s5, res = .ok s5 ∧
      (restoreShift rs { s5 with currentMapDepth := s.currentMapDepth }).out = s.out ++ pre ++ r.1 ++ ['\n'] ++ renderLines r.2.1 ∧
      (restoreShift rs { s5 with currentMapDepth := s.currentMapDepth }).lastValueWasBlock = r.2.2 ∧
      Post o s (restoreShift rs { s5 with currentMapDepth := s.currentMapDepth }) := by
  obtain ⟨s5, he, ho5, hl5, hp5⟩ := h
  have hsh := hp5.shift
  refine ⟨s5, he, ?_, ?_, ?_⟩
  · rcases hr with ⟨hr, _⟩ | hr <;> simp [hr, restoreShift, ho5, hout, List.append_assoc]
  · rcases hr with ⟨hr, _⟩ | hr <;> simp [hr, restoreShift, hl5]
  · rcases hr with ⟨hr, hs⟩ | hr
    · constructor
      · constructor <;> simp [hr, restoreShift, hp5.inFlow, hp5.pendingFlow, hp5.pss, hp5.pic, hp5.doc]
      all_goals simp [hr, restoreShift, hp5.als, hp5.psc, hsh, hs]
    · constructor
      · constructor <;> simp [hr, restoreShift, hp5.inFlow, hp5.pendingFlow, hp5.pss, hp5.pic, hp5.doc]
      all_goals simp [hr, restoreShift, hp5.als, hp5.psc]

/-- value position (right after `key:`) -/
def ValOK (o : Opts) (f : ScalarFns) (T : Toks) (v : SVal) : Prop :=
  ∀ (s : St) (m c : Nat), ValCtx o s m c →
    Good o s (layVal T o.indentStep o.compactListIndent s.currentMapDepth.isSome c s.lastValueWasBlock v) (ser o f v s)
/-- item position (right after `- `) -/
def ItemOK (o : Opts) (f : ScalarFns) (T : Toks) (v : SVal) : Prop :=
  ∀ (s : St) (d c : Nat), ItemCtx o s d c → Good o s (layItem T o.indentStep o.compactListIndent c s.lastValueWasBlock v) (ser o f v s)
/-- the items of a block sequence, each starting at a line start -/
def ItemsOK (o : Opts) (f : ScalarFns) (T : Toks) (xs : List SVal) : Prop :=
  ∀ (s : St) (q : SeqSer) (c : Nat), q.flow = false → LineCtx o s → Col o s q.depth c →
    (q.first = true → s.pendingInlineMap = false) →
    ∃ q' s', serSeqElems o f q xs s = .ok (q', s') ∧ q'.flow = false ∧ q'.depth = q.depth ∧
      q'.restoreShift = q.restoreShift ∧
      q'.first = (q.first && xs.isEmpty) ∧ GoodLines o s (layItems T o.indentStep o.compactListIndent c s.lastValueWasBlock xs) s'
/-- the entries of a block mapping, each starting at a line start -/
def EntriesOK (o : Opts) (f : ScalarFns) (T : Toks) (es : List (SVal × SVal)) : Prop :=
  ∀ (s : St) (m : MapSer) (c : Nat), m.flow = false → m.inlineValueStart = false → LineCtx o s → Col o s m.depth c →
    ∃ m' s', serMapEntries o f m es s = .ok (m', s') ∧ m'.flow = false ∧ m'.restoreShift = m.restoreShift ∧
      m'.first = (m.first && es.isEmpty) ∧ GoodLines o s (layEntries T o.indentStep o.compactListIndent c s.lastValueWasBlock es) s'

section
variable (ho : FragOpts o) (hw : WriteContract o f P T)
include ho hw

/-! ### leaves -/

theorem leaf_val {v : SVal} {tok : List Char} (hser : ∀ s, s.pendingStrStyle = none → s.inFlow = 0 → ser o f v s = .ok (serToken o tok s))
    (hlay : ∀ k cp im c lvb, layVal T k cp im c lvb v = (' ' :: tok, [], false)) : ValOK o f T v := by
  intro s m c h
  rw [hser s h.pss h.inFlow, hlay]
  exact serToken_val (o := o) tok h

theorem leaf_item {v : SVal} {tok : List Char} (hser : ∀ s, s.pendingStrStyle = none → s.inFlow = 0 → ser o f v s = .ok (serToken o tok s))
    (hlay : ∀ k cp c lvb, layItem T k cp c lvb v = (tok, [], false)) : ItemOK o f T v := by
  intro s d c h
  rw [hser s h.pss h.inFlow, hlay]
  exact serToken_item (o := o) tok h

omit ho hw in
theorem ser_unit_tok (s : St) : ser o f .unit s = .ok (serToken o "null".toList s) := by rw [ser]
omit ho hw in
theorem ser_none_tok (s : St) : ser o f .none s = .ok (serToken o "null".toList s) := by rw [ser]
omit ho hw in
theorem ser_bool_tok (b : Bool) (s : St) :
    ser o f (.bool b) s = .ok (serToken o (if b then "true".toList else "false".toList) s) := by rw [ser]
omit ho hw in
theorem ser_int_tok (i : Int) (s : St) : ser o f (.int i) s = .ok (serToken o (intText i) s) := by rw [ser]

omit ho hw in
theorem ser_str (t : List Char) (s : St) : ser o f (.str t) s = .ok (serStr o f t s) := by rw [ser]

/-! ### sequences -/

omit ho hw in
theorem items_nil : ItemsOK o f T [] := by
  intro s q c hq h _ _
  refine ⟨q, s, by rw [serSeqElems], hq, rfl, rfl, by simp, ?_, ?_, ?_⟩
  · simp [layItems]
  · simp [layItems]
  · exact { toBase := h.toBase, als := h.als, psc := h.psc, cmd := rfl, shift := rfl }

omit hw in
theorem items_cons {x : SVal} {xs : List SVal} (hx : ItemOK o f T x) (hxs : ItemsOK o f T xs) : ItemsOK o f T (x :: xs) := by
  intro s q c hq h hcol hp
  obtain ⟨qd, qf, qfirst, qrs⟩ := q
  simp only at hq hcol
  subst hq
  rw [serSeqElems]
  simp only [Bool.false_eq_true, if_false]
  obtain ⟨hc3, hout3, hl3, hcmd3, hsh3⟩ := seqElemPrefix_line (o := o) (q := { depth := qd, flow := false, first := qfirst, restoreShift := qrs }) ho h rfl hcol hp
  obtain ⟨sx, hex, houtx, hlx, hpx⟩ := hx _ qd c hc3
  obtain ⟨q', s', he, hqf, hqd, hqr, hqfirst, hg⟩ :=
    hxs sx { depth := qd, flow := false, first := false, restoreShift := qrs } c rfl (LineCtx.ofPost hpx)
      (hcol.of_shift (by rw [hpx.shift, hsh3])) (by simp)
  refine ⟨q', s', by rw [hex]; exact he, hqf, by simpa using hqd, by simpa using hqr, by simpa using hqfirst, ?_, ?_, ?_⟩
  · rw [hg.1, houtx, hout3, hlx, hl3]
    simp [layItems, renderLines_append, List.append_assoc]
  · rw [hg.2.1, hlx, hl3]; simp [layItems]
  · exact { toBase := hg.2.2.toBase, als := hg.2.2.als, psc := hg.2.2.psc,
            cmd := by rw [hg.2.2.cmd, hpx.cmd, hcmd3], shift := by rw [hg.2.2.shift, hpx.shift, hsh3] }

/-- empty sequence right after `key:`: ` []` on the line of the key -/
theorem seq_empty_val {s : St} {m c : Nat} (h : ValCtx o s m c) :
    Good o s (" []".toList, [], false) (.ok (seqEnd o (serializeSeq o s).1 (serializeSeq o s).2)) := by
  have := h.als; have := h.psc; have := h.inFlow; have := h.pendingFlow; have := h.add; have := h.doc
  have := ho.braces; have := doc_imp h.doc
  refine ⟨_, rfl, ?_, ?_, ?_⟩
  · cases hl : s.lastValueWasBlock <;> simp [serializeSeq, takeFlow, seqEnd, restoreShift, newline, St.write, *]
  · cases hl : s.lastValueWasBlock <;> simp [serializeSeq, takeFlow, seqEnd, restoreShift, newline, St.write, *]
  · constructor
    · constructor <;> (cases hl : s.lastValueWasBlock <;> simp [serializeSeq, takeFlow, seqEnd, restoreShift, newline, St.write, *, h.pss])
    all_goals (cases hl : s.lastValueWasBlock <;> simp [serializeSeq, takeFlow, seqEnd, restoreShift, newline, St.write, *])

/-- empty sequence right after `- ` -/
theorem seq_empty_item {s : St} {d c : Nat} (h : ItemCtx o s d c) :
    Good o s ("[]".toList, [], s.lastValueWasBlock) (.ok (seqEnd o (serializeSeq o s).1 (serializeSeq o s).2)) := by
  have := h.als; have := h.psc; have := h.inFlow; have := h.pendingFlow; have := h.add; have := h.doc
  have := ho.braces
  refine ⟨_, rfl, ?_, ?_, ?_⟩
  · simp [serializeSeq, takeFlow, seqEnd, restoreShift, newline, St.write, shiftForInlineNode, *]
  · simp [serializeSeq, takeFlow, seqEnd, restoreShift, newline, St.write, shiftForInlineNode, *]
  · constructor
    · constructor <;> simp [serializeSeq, takeFlow, seqEnd, restoreShift, newline, St.write, shiftForInlineNode, *, h.pss]
    all_goals simp [serializeSeq, takeFlow, seqEnd, restoreShift, newline, St.write, shiftForInlineNode, *]

omit ho hw in
theorem serSeqElems_nil (q : SeqSer) (s : St) : serSeqElems o f q [] s = .ok (q, s) := by rw [serSeqElems]
omit ho hw in
theorem serMapEntries_nil (m : MapSer) (s : St) : serMapEntries o f m [] s = .ok (m, s) := by rw [serMapEntries]

/-- a sequence right after `key:` -/
theorem seq_val_step {xs : List SVal} (hxs : ItemsOK o f T xs) (s : St) (m c : Nat) (h : ValCtx o s m c) :
    Good o s (seqValOf xs.isEmpty (layItems T o.indentStep o.compactListIndent
      (seqCol o.indentStep o.compactListIndent s.currentMapDepth.isSome c) false xs).1) (ser o f (.seq xs) s) := by
  rw [ser_seq]
  cases xs with
  | nil =>
    rw [serSeqElems_nil]
    simpa [seqValOf] using seq_empty_val (o := o) (f := f) ho hw h
  | cons x xs' =>
    obtain ⟨s2, dq, heq, hc2, hp2, hout2, hl2, hcmd2, hsh2, hcolq⟩ := serializeSeq_val (f := f) ho h x xs'
    obtain ⟨q', s', he, hqf, hqd, hqr, hqfirst, hg⟩ :=
      hxs s2 { depth := dq, flow := false, first := true } _ rfl hc2 hcolq (fun _ => hp2)
    rw [heq, he]
    have hfirst : q'.first = false := by simpa using hqfirst
    obtain ⟨hp, hout, hlvb⟩ := seqEnd_nonempty (o := o) (s0 := s) hqf hfirst hg.2.2.toBase hg.2.2.als hg.2.2.psc
      (by rw [hg.2.2.cmd, hcmd2]) (Or.inl ⟨by simpa using hqr, by rw [hg.2.2.shift, hsh2]⟩)
    refine ⟨_, rfl, ?_, ?_, hp⟩
    · rw [hout, hg.1, hout2, hl2]; simp [seqValOf, List.append_assoc]
    · rw [hlvb]; simp [seqValOf]

/-- a sequence right after `- ` -/
theorem seq_item_step {xs : List SVal} (hx : ∀ x ∈ xs.head?, ItemOK o f T x) (hxs : ItemsOK o f T xs.tail)
    (s : St) (d c : Nat) (h : ItemCtx o s d c) :
    Good o s (laySeqItem T o.indentStep o.compactListIndent c s.lastValueWasBlock xs) (ser o f (.seq xs) s) := by
  rw [ser_seq]
  obtain ⟨hq, hb1, hals1, hpsc1, hout1, hl1, hcmd1, hcol1⟩ := serializeSeq_item (o := o) h
  cases xs with
  | nil =>
    rw [serSeqElems_nil]
    simpa [laySeqItem] using seq_empty_item (o := o) (f := f) ho hw h
  | cons x xs' =>
    rw [serSeqElems, hq]
    simp only [Bool.false_eq_true, if_false]
    obtain ⟨hc3, hout3, hl3, hcmd3, hsh3⟩ := seqElemPrefix_inline (o := o)
      (q := { depth := d + 1, flow := false, first := true, restoreShift := some s.indentShift }) hb1 hals1 hpsc1 rfl hcol1
    obtain ⟨sx, hex, houtx, hlx, hpx⟩ := hx x (by simp) _ (d + 1) (c + 2) hc3
    rw [hex]
    have hxs' : ItemsOK o f T xs' := hxs
    obtain ⟨q', s', he, hqf, hqd, hqr, hqfirst, hg⟩ :=
      hxs' sx { depth := d + 1, flow := false, first := false, restoreShift := some s.indentShift } (c + 2) rfl (LineCtx.ofPost hpx)
        (hcol1.of_shift (by rw [hpx.shift, hsh3])) (by simp)
    dsimp only
    rw [he]
    have hfirst : q'.first = false := by simpa using hqfirst
    obtain ⟨hp, hout, hlvb⟩ := seqEnd_nonempty (o := o) (s0 := s) hqf hfirst hg.2.2.toBase hg.2.2.als hg.2.2.psc
      (by rw [hg.2.2.cmd, hpx.cmd, hcmd3, hcmd1]) (Or.inr (by simpa using hqr))
    refine ⟨_, rfl, ?_, ?_, hp⟩
    · rw [hout, hg.1, houtx, hout3, hout1, hlx, hl3, hl1]
      simp [laySeqItem, renderLines_append, List.append_assoc]
    · rw [hlvb]; simp [laySeqItem]

/-! ### mappings -/

omit ho hw in
theorem entries_nil : EntriesOK o f T [] := by
  intro s m c hm _ h _
  refine ⟨m, s, by rw [serMapEntries], hm, rfl, by simp, ?_, ?_, ?_⟩
  · simp [layEntries]
  · simp [layEntries]
  · exact { toBase := h.toBase, als := h.als, psc := h.psc, cmd := rfl, shift := rfl }

theorem entries_cons {k : List Char} {v : SVal} {es : List (SVal × SVal)} (hk : P.key k = true)
    (hfit : fitsImplicit (T.key k) = true)
    (hv : ValOK o f T v) (hes : EntriesOK o f T es) : EntriesOK o f T ((.str k, v) :: es) := by
  intro s m c hm hivs h hcol
  obtain ⟨s4, hc4, hout4, hl4, hsh4, him4, heq⟩ := serMapEntries_cons_line (o := o) ho hw v es hk hfit hm hivs h hcol
  rw [heq]
  obtain ⟨sv, hev, houtv, hlv, hpv⟩ := hv s4 m.depth c hc4
  rw [him4] at houtv hlv
  rw [hev]
  obtain ⟨m', s', he, hmf, hmr, hmfirst, hg⟩ :=
    hes { sv with currentMapDepth := s.currentMapDepth, pendingInlineMap := false }
      { m with first := false, lastKeyComplex := false } c hm hivs
      { toBase := ⟨hpv.inFlow, hpv.pendingFlow, hpv.pss, hpv.pic, hpv.doc⟩, als := hpv.als, psc := hpv.psc }
      (hcol.of_shift (by simp [hpv.shift, hsh4]))
  refine ⟨m', s', he, hmf, by simpa using hmr, by simpa using hmfirst, ?_, ?_, ?_⟩
  · rw [hg.1]
    simp [houtv, hout4, hlv, hl4, layEntries, keyOf, hfit, renderLines_append, List.append_assoc]
  · rw [hg.2.1]; simp [hlv, hl4, layEntries, keyOf, hfit]
  · exact { toBase := hg.2.2.toBase, als := hg.2.2.als, psc := hg.2.2.psc, cmd := by rw [hg.2.2.cmd],
            shift := by rw [hg.2.2.shift]; simp [hpv.shift, hsh4] }

omit ho hw in
/-- what the composite-entry machinery leaves behind for the next entry -/
theorem complexEntryDone_line {s s0 s2 sv : St} (hpv : Post o s2 sv) (hd : s0.depth = s.depth)
    (hc : s0.currentMapDepth = s.currentMapDepth) (hp : s0.pendingInlineMap = false) :
    LineCtx o (complexEntryDone s0 sv) ∧ (complexEntryDone s0 sv).out = sv.out ∧
    (complexEntryDone s0 sv).lastValueWasBlock = sv.lastValueWasBlock ∧
    (complexEntryDone s0 sv).currentMapDepth = s.currentMapDepth ∧
    (complexEntryDone s0 sv).indentShift = sv.indentShift := by
  refine ⟨?_, rfl, rfl, by simp [complexEntryDone, hc], rfl⟩
  constructor
  · constructor <;> simp [complexEntryDone, hpv.inFlow, hpv.pendingFlow, hpv.pss, hpv.pic, hpv.doc]
  all_goals simp [complexEntryDone, hpv.als, hpv.psc]

/-- an entry with a composite key at a line start -/
theorem entries_cons_complex {k v : SVal} {es : List (SVal × SVal)} (hkc : isComplexKey k = true)
    (hk : ItemOK o f T k) (hv : ItemOK o f T v) (hes : EntriesOK o f T es) : EntriesOK o f T ((k, v) :: es) := by
  intro s m c hm hivs h hcol
  obtain ⟨hm1, hc1, hout1, hl1, hsh1, hd0, hcmd0, hpim0, hadd0⟩ := complexKey_line (o := o) ho hivs h hcol
  rw [serMapEntries_complex m k v es s hm (keyText_complex k hkc), hm1]
  obtain ⟨sk, hek, houtk, hlk, hpk⟩ := hk _ m.depth c hc1
  rw [hek]
  dsimp only
  obtain ⟨hc2, hout2, hl2, hsh2⟩ := complexValue_ctx (o := o) ho (m := m) (s0 := complexKeyMark o m (mapKeyPrefix m s).2)
    hpk.toBase hpk.als (hcol.of_shift (by rw [hpk.shift, hsh1]))
  obtain ⟨sv, hev, houtv, hlv, hpv⟩ := hv _ m.depth c hc2
  rw [hev]
  dsimp only
  obtain ⟨hc3, hout3, hl3, hcmd3, hsh3⟩ := complexEntryDone_line (s := s) hpv hd0 hcmd0 hpim0
  obtain ⟨m', s', he, hmf, hmr, hmfirst, hg⟩ :=
    hes _ { m with first := false, lastKeyComplex := false } c hm hivs hc3
      (hcol.of_shift (by rw [hsh3, hpv.shift, hsh2, hpk.shift, hsh1]))
  refine ⟨m', s', he, hmf, by simpa using hmr, by simpa using hmfirst, ?_, ?_, ?_⟩
  · rw [hg.1, hout3, houtv, hout2, houtk, hout1, hl3, hlv, hl2, hl1]
    simp [layEntries, keyOf_complex k hkc, renderLines_append, List.append_assoc]
  · rw [hg.2.1, hl3, hlv, hl2]; simp [layEntries, keyOf_complex k hkc]
  · exact { toBase := hg.2.2.toBase, als := hg.2.2.als, psc := hg.2.2.psc, cmd := by rw [hg.2.2.cmd, hcmd3],
            shift := by rw [hg.2.2.shift, hsh3, hpv.shift, hsh2, hpk.shift, hsh1] }

/-- an entry whose string key is too long for an implicit key, at a line start: `? key` / `: value` -/
theorem entries_cons_long {k : List Char} {v : SVal} {es : List (SVal × SVal)} (hk : P.key k = true)
    (hfit : fitsImplicit (T.key k) = false)
    (hv : ItemOK o f T v) (hes : EntriesOK o f T es) : EntriesOK o f T ((.str k, v) :: es) := by
  intro s m c hm hivs h hcol
  obtain ⟨hm1, hb0, hals0, hout0, hl0, hsh0, hd0, hcmd0, hpim0⟩ := longKey_line (o := o) ho (T.key k) hivs h hcol
  rw [serMapEntries_long hw m v es s hm hk hfit, hm1]
  obtain ⟨hc2, hout2, hl2, hsh2⟩ := explicitValue_ctx (o := o) ho (m := m) hb0 hals0 (hcol.of_shift hsh0)
  obtain ⟨sv, hev, houtv, hlv, hpv⟩ := hv _ m.depth c hc2
  rw [hev]
  dsimp only
  obtain ⟨hc3, hout3, hl3, hcmd3, hsh3⟩ := complexEntryDone_line (s := s) hpv hd0 hcmd0 hpim0
  obtain ⟨m', s', he, hmf, hmr, hmfirst, hg⟩ :=
    hes _ { m with first := false, lastKeyComplex := false } c hm hivs hc3
      (hcol.of_shift (by rw [hsh3, hpv.shift, hsh2, hsh0]))
  refine ⟨m', s', he, hmf, by simpa using hmr, by simpa using hmfirst, ?_, ?_, ?_⟩
  · rw [hg.1, hout3, houtv, hout2, hout0, hl3, hlv, hl2, hl0]
    simp [layEntries, keyOf, hfit, renderLines_append, List.append_assoc]
  · rw [hg.2.1, hl3, hlv, hl2, hl0]; simp [layEntries, keyOf, hfit]
  · exact { toBase := hg.2.2.toBase, als := hg.2.2.als, psc := hg.2.2.psc, cmd := by rw [hg.2.2.cmd, hcmd3],
            shift := by rw [hg.2.2.shift, hsh3, hpv.shift, hsh2, hsh0] }

/-- empty mapping right after `key:` -/
theorem map_empty_val {s : St} {m c : Nat} (h : ValCtx o s m c) (len : Option Nat)
    (hlen : len = some 0 ∨ len = none) :
    Good o s (mapValOf (c + o.indentStep) s.lastValueWasBlock true [])
      (.ok (mapEnd o (serializeMap o len s).1 (serializeMap o len s).2)) := by
  have := h.als; have := h.psc; have := h.inFlow; have := h.pendingFlow; have := h.pim; have := h.doc
  have := ho.braces; have := doc_imp h.doc
  have hic := indentCols_col (h.col.succ ho.indent)
  have hbase : (if s.currentMapDepth.isSome = true then s.currentMapDepth.getD s.depth else s.depth) = m := by
    rcases h.cmd with hc | ⟨hc, hm, hd0⟩
    · simp [hc]
    · simp [hc, hm, hd0]
  rcases hlen with rfl | rfl <;> cases hl : s.lastValueWasBlock
  all_goals refine ⟨_, rfl, ?_, ?_, ?_⟩
  all_goals first
    | (constructor
       · constructor <;> (by_cases hd : s.docStarted = true <;>
           simp [serializeMap, takeFlow, mapEnd, restoreShift, mapIndent, newline, writeIndent, St.write, *, h.pss, h.pic])
       all_goals (by_cases hd : s.docStarted = true <;>
           simp [serializeMap, takeFlow, mapEnd, restoreShift, mapIndent, newline, writeIndent, St.write, *]))
    | (by_cases hd : s.docStarted = true <;>
        simp [serializeMap, takeFlow, mapEnd, restoreShift, mapIndent, newline, writeIndent, hic, St.write, mapValOf, *])

/-- empty mapping right after `- ` -/
theorem map_empty_item {s : St} {d c : Nat} (h : ItemCtx o s d c) (len : Option Nat) :
    Good o s ("{}".toList, [], s.lastValueWasBlock) (.ok (mapEnd o (serializeMap o len s).1 (serializeMap o len s).2)) := by
  have := h.als; have := h.psc; have := h.inFlow; have := h.pendingFlow; have := h.add; have := h.doc
  have := h.pim; have := ho.braces
  refine ⟨_, rfl, ?_, ?_, ?_⟩
  · simp [serializeMap, takeFlow, mapEnd, restoreShift, newline, St.write, shiftForInlineNode, *]
  · simp [serializeMap, takeFlow, mapEnd, restoreShift, newline, St.write, shiftForInlineNode, *]
  · constructor
    · constructor <;> simp [serializeMap, takeFlow, mapEnd, restoreShift, newline, St.write, shiftForInlineNode, *, h.pss, h.pic]
    all_goals simp [serializeMap, takeFlow, mapEnd, restoreShift, newline, St.write, shiftForInlineNode, *]

/-- a mapping right after `key:` -/
theorem map_val_step (known : Bool) {es : List (SVal × SVal)} (hes : EntriesOK o f T es) (s : St) (m c : Nat) (h : ValCtx o s m c) :
    Good o s (mapValOf (c + o.indentStep) s.lastValueWasBlock es.isEmpty (layEntries T o.indentStep o.compactListIndent (c + o.indentStep) false es).1)
      (ser o f (.map known es) s) := by
  rw [ser_map]
  cases es with
  | nil =>
    rw [serMapEntries_nil]
    have := map_empty_val (o := o) (f := f) ho hw h (if known then some ([] : List (SVal × SVal)).length else none)
      (by cases known <;> simp)
    simpa [layEntries] using this
  | cons e es' =>
    obtain ⟨s2, heq, hc2, hout2, hl2, hcmd2, hsh2⟩ := serializeMap_val (f := f) ho h known e es'
    obtain ⟨m', s', he, hmf, hmr, hmfirst, hg⟩ :=
      hes s2 { depth := m + 1, flow := false, first := true } (c + o.indentStep) rfl rfl hc2 ((h.col.succ ho.indent).of_shift hsh2)
    rw [heq, he]
    have hfirst : m'.first = false := by simpa using hmfirst
    obtain ⟨hp, hout, hlvb⟩ := mapEnd_nonempty (o := o) (s0 := s) hmf hfirst hg.2.2.toBase hg.2.2.als hg.2.2.psc
      (by rw [hg.2.2.cmd, hcmd2]) (Or.inl ⟨by simpa using hmr, by rw [hg.2.2.shift, hsh2]⟩)
    refine ⟨_, rfl, ?_, ?_, hp⟩
    · rw [hout, hg.1, hout2, hl2]; simp [mapValOf, List.append_assoc]
    · rw [hlvb]; simp [mapValOf]

/-- a mapping right after `- ` -/
theorem map_item_step (known : Bool) {es : List (SVal × SVal)}
    (he1 : ∀ e ∈ es.head?, (∃ k, e.1 = .str k ∧ P.key k = true ∧ fitsImplicit (T.key k) = true) ∧ ValOK o f T e.2) (hes : EntriesOK o f T es.tail)
    (s : St) (d c : Nat) (h : ItemCtx o s d c) :
    Good o s (layMapItem T o.indentStep o.compactListIndent c s.lastValueWasBlock es) (ser o f (.map known es) s) := by
  rw [ser_map]
  generalize (if known = true then some es.length else none) = len
  cases es with
  | nil =>
    rw [serMapEntries_nil]
    simpa [layMapItem] using map_empty_item (o := o) (f := f) ho hw h len
  | cons e es' =>
    obtain ⟨hm1, hb1, hals1, hpsc1, hout1, hl1, hcmd1, hcol1⟩ := serializeMap_item (o := o) len h
    obtain ⟨⟨kt, hke, hk, hfit⟩, hvv⟩ := he1 e (by simp)
    obtain ⟨k, v⟩ := e
    simp only at hke hvv
    subst hke
    rw [hm1]
    obtain ⟨s4, hc4, hout4, hl4, hsh4, him4, heq⟩ := serMapEntries_cons_inline (o := o) hw
      (m := { depth := d + 1, flow := false, first := true, restoreShift := some s.indentShift }) v es' hk hfit rfl rfl hb1 hals1 hpsc1 hcol1
    rw [heq]
    obtain ⟨sv, hev, houtv, hlv, hpv⟩ := hvv s4 (d + 1) (c + 2) hc4
    rw [him4] at houtv hlv
    rw [hev]
    have hes' : EntriesOK o f T es' := hes
    obtain ⟨m', s', he, hmf, hmr, hmfirst, hg⟩ :=
      hes'
        { sv with currentMapDepth := (serializeMap o len s).2.currentMapDepth, pendingInlineMap := false }
        { depth := d + 1, flow := false, first := false, lastKeyComplex := false, restoreShift := some s.indentShift }
        (c + 2) rfl rfl
        { toBase := ⟨hpv.inFlow, hpv.pendingFlow, hpv.pss, hpv.pic, hpv.doc⟩, als := hpv.als, psc := hpv.psc }
        (hcol1.of_shift (by simp [hpv.shift, hsh4]))
    dsimp only
    rw [he]
    have hfirst : m'.first = false := by simpa using hmfirst
    obtain ⟨hp, hout, hlvb⟩ := mapEnd_nonempty (o := o) (s0 := s) hmf hfirst hg.2.2.toBase hg.2.2.als hg.2.2.psc
      (by rw [hg.2.2.cmd]; exact hcmd1) (Or.inr (by simpa using hmr))
    refine ⟨_, rfl, ?_, ?_, hp⟩
    · rw [hout, hg.1]
      simp [houtv, hout4, hout1, hlv, hl4, layMapItem, keyOf, hfit, renderLines_append, List.append_assoc]
    · rw [hlvb]; simp [layMapItem, keyOf, hfit]

/-- a mapping right after `- ` whose first key is composite: `- ? key` -/
theorem map_item_step_complex (known : Bool) {k v : SVal} {es : List (SVal × SVal)} (hkc : isComplexKey k = true)
    (hk : ItemOK o f T k) (hv : ItemOK o f T v) (hes : EntriesOK o f T es)
    (s : St) (d c : Nat) (h : ItemCtx o s d c) :
    Good o s (layMapItem T o.indentStep o.compactListIndent c s.lastValueWasBlock ((k, v) :: es)) (ser o f (.map known ((k, v) :: es)) s) := by
  rw [ser_map]
  generalize (if known = true then some ((k, v) :: es).length else none) = len
  obtain ⟨hm1, hb1, hals1, hpsc1, hout1, hl1, hcmd1, hcol1⟩ := serializeMap_item (o := o) len h
  rw [hm1]
  obtain ⟨hmk, hck, houtk0, hlk0, hshk0, hd0, hcmd0, hpim0, hadd0⟩ := complexKey_inline (o := o)
    (m := { depth := d + 1, flow := false, first := true, restoreShift := some s.indentShift }) rfl hb1 hals1 hpsc1 hcol1
  rw [serMapEntries_complex _ k v es _ rfl (keyText_complex k hkc), hmk]
  obtain ⟨sk, hek, houtk, hlk, hpk⟩ := hk _ (d + 1) (c + 2) hck
  rw [hek]
  dsimp only
  obtain ⟨hc2, hout2, hl2, hsh2⟩ := complexValue_ctx (o := o) ho
    (m := { depth := d + 1, flow := false, first := true, restoreShift := some s.indentShift })
    (s0 := complexKeyMark o { depth := d + 1, flow := false, first := true, restoreShift := some s.indentShift }
      (mapKeyPrefix { depth := d + 1, flow := false, first := true, restoreShift := some s.indentShift } (serializeMap o len s).2).2)
    hpk.toBase hpk.als (hcol1.of_shift (by rw [hpk.shift, hshk0]))
  obtain ⟨sv, hev, houtv, hlv, hpv⟩ := hv _ (d + 1) (c + 2) hc2
  rw [hev]
  dsimp only
  obtain ⟨hc3, hout3, hl3, hcmd3, hsh3⟩ := complexEntryDone_line (s := (serializeMap o len s).2) hpv hd0 hcmd0 hpim0
  obtain ⟨m', s', he, hmf, hmr, hmfirst, hg⟩ :=
    hes _ { depth := d + 1, flow := false, first := false, lastKeyComplex := false, restoreShift := some s.indentShift }
      (c + 2) rfl rfl hc3 (hcol1.of_shift (by rw [hsh3, hpv.shift, hsh2, hpk.shift, hshk0]))
  rw [he]
  have hfirst : m'.first = false := by simpa using hmfirst
  obtain ⟨hp, hout, hlvb⟩ := mapEnd_nonempty (o := o) (s0 := s) hmf hfirst hg.2.2.toBase hg.2.2.als hg.2.2.psc
    (by rw [hg.2.2.cmd, hcmd3]; exact hcmd1) (Or.inr (by simpa using hmr))
  refine ⟨_, rfl, ?_, ?_, hp⟩
  · rw [hout, hg.1, hout3, houtv, hout2, houtk, houtk0, hout1, hl3, hlv, hl2, hlk0]
    simp [layMapItem, keyOf_complex k hkc, renderLines_append, List.append_assoc]
  · rw [hlvb]; simp [layMapItem, keyOf_complex k hkc]

/-- a mapping right after `- ` whose first key is a string too long for an implicit key: `- ? key` -/
theorem map_item_step_long (known : Bool) {k : List Char} {v : SVal} {es : List (SVal × SVal)} (hk : P.key k = true)
    (hfit : fitsImplicit (T.key k) = false) (hv : ItemOK o f T v) (hes : EntriesOK o f T es)
    (s : St) (d c : Nat) (h : ItemCtx o s d c) :
    Good o s (layMapItem T o.indentStep o.compactListIndent c s.lastValueWasBlock ((.str k, v) :: es)) (ser o f (.map known ((.str k, v) :: es)) s) := by
  rw [ser_map]
  generalize (if known = true then some ((SVal.str k, v) :: es).length else none) = len
  obtain ⟨hm1, hb1, hals1, hpsc1, hout1, hl1, hcmd1, hcol1⟩ := serializeMap_item (o := o) len h
  rw [hm1]
  obtain ⟨hmk, hb0, hals0, hout0, hl0, hsh0, hd0, hcmd0, hpim0⟩ := longKey_inline (o := o)
    (m := { depth := d + 1, flow := false, first := true, restoreShift := some s.indentShift }) (T.key k) rfl hb1 hals1 hpsc1
  rw [serMapEntries_long hw _ v es _ rfl hk hfit, hmk]
  obtain ⟨hc2, hout2, hl2, hsh2⟩ := explicitValue_ctx (o := o) ho
    (m := { depth := d + 1, flow := false, first := true, restoreShift := some s.indentShift }) hb0 hals0 (hcol1.of_shift hsh0)
  obtain ⟨sv, hev, houtv, hlv, hpv⟩ := hv _ (d + 1) (c + 2) hc2
  rw [hev]
  dsimp only
  obtain ⟨hc3, hout3, hl3, hcmd3, hsh3⟩ := complexEntryDone_line (s := (serializeMap o len s).2) hpv hd0 hcmd0 hpim0
  obtain ⟨m', s', he, hmf, hmr, hmfirst, hg⟩ :=
    hes _ { depth := d + 1, flow := false, first := false, lastKeyComplex := false, restoreShift := some s.indentShift }
      (c + 2) rfl rfl hc3 (hcol1.of_shift (by rw [hsh3, hpv.shift, hsh2, hsh0]))
  rw [he]
  have hfirst : m'.first = false := by simpa using hmfirst
  obtain ⟨hp, hout, hlvb⟩ := mapEnd_nonempty (o := o) (s0 := s) hmf hfirst hg.2.2.toBase hg.2.2.als hg.2.2.psc
    (by rw [hg.2.2.cmd, hcmd3]; exact hcmd1) (Or.inr (by simpa using hmr))
  refine ⟨_, rfl, ?_, ?_, hp⟩
  · rw [hout, hg.1, hout3, houtv, hout2, hout0, hout1, hl3, hlv, hl2, hl0]
    simp [layMapItem, keyOf, hfit, renderLines_append, List.append_assoc]
  · rw [hlvb]; simp [layMapItem, keyOf, hfit]

/-- what the first entry of a mapping that starts right after `- ` / `: ` needs: its key a string of the class or a
composite key, its value in both positions (after `key:` / after `: `), the other entries at line starts -/
def FirstEntryOK (o : Opts) (f : ScalarFns) (P : LeafPred) (T : Toks) : List (SVal × SVal) → Prop
  | [] => True
  | (k, v) :: es => ((∃ kt, k = .str kt ∧ P.key kt = true) ∨ (isComplexKey k = true ∧ ItemOK o f T k)) ∧
      ValOK o f T v ∧ ItemOK o f T v ∧ EntriesOK o f T es

/-- an entry of a block mapping at a line start, whatever its key: implicit, long (explicit), composite -/
theorem entries_cons_any {k v : SVal} {es : List (SVal × SVal)} (h : FirstEntryOK o f P T ((k, v) :: es)) :
    EntriesOK o f T ((k, v) :: es) := by
  obtain ⟨hkey, hvv, hvi, hes⟩ := h
  rcases hkey with ⟨kt, rfl, hkt⟩ | ⟨hkc, hki⟩
  · cases hfit : fitsImplicit (T.key kt)
    · exact entries_cons_long ho hw hkt hfit hvi hes
    · exact entries_cons ho hw hkt hfit hvv hes
  · exact entries_cons_complex ho hw hkc hki hvi hes

/-- a mapping right after `- ` / `: `, whatever its first key -/
theorem map_item_any (known : Bool) {es : List (SVal × SVal)} (h : FirstEntryOK o f P T es) (s : St) (d c : Nat) (hc : ItemCtx o s d c) :
    Good o s (layMapItem T o.indentStep o.compactListIndent c s.lastValueWasBlock es) (ser o f (.map known es) s) := by
  cases es with
  | nil => exact map_item_step ho hw known (es := []) (by simp) entries_nil s d c hc
  | cons e es' =>
    obtain ⟨k, v⟩ := e
    obtain ⟨hkey, hvv, hvi, hes⟩ := h
    rcases hkey with ⟨kt, rfl, hkt⟩ | ⟨hkc, hki⟩
    · cases hfit : fitsImplicit (T.key kt)
      · exact map_item_step_long ho hw known hkt hfit hvi hes s d c hc
      · exact map_item_step ho hw known (es := (.str kt, v) :: es')
          (by intro e he; simp at he; subst he; exact ⟨⟨kt, rfl, hkt, hfit⟩, hvv⟩) hes s d c hc
    · exact map_item_step_complex ho hw known hkc hki hvi hes s d c hc

/-! ### variants -/

omit ho hw in
/-- `end_variant` after the payload (in whatever context `begin_variant` put it): `current_map_depth` and
`indent_shift` are back, the result shape is kept -/
theorem Good.afterVariant {s s3 : St} {r : List Char × List Line × Bool} {res : Except EmitErr St}
    (pre : List Char) (h : Good o s3 r res) (hout : s3.out = s.out ++ pre) (fr : VariantFrame)
    (hfl : fr.flow = false) (hpm : fr.prevMapDepth = some s.currentMapDepth)
    (hr : (fr.restoreShift = none ∧ s3.indentShift = s.indentShift) ∨ fr.restoreShift = some s.indentShift) :
    ∃ s5, res = .ok s5 ∧ (endVariant fr s5).out = s.out ++ pre ++ r.1 ++ ['\n'] ++ renderLines r.2.1 ∧
      (endVariant fr s5).lastValueWasBlock = r.2.2 ∧ Post o s (endVariant fr s5) := by
  obtain ⟨s5, he, ho5, hl5, hp5⟩ := h
  have hsh := hp5.shift
  obtain ⟨pm, rs, fl, rl⟩ := fr
  simp only at hfl hpm hr
  subst hfl hpm
  refine ⟨s5, he, ?_, ?_, ?_⟩
  · cases rl <;> (rcases hr with ⟨hr, _⟩ | hr <;> simp [endVariant, hr, restoreShift, ho5, hout, List.append_assoc])
  · cases rl <;> (rcases hr with ⟨hr, _⟩ | hr <;> simp [endVariant, hr, restoreShift, hl5])
  · cases rl <;> rcases hr with ⟨hr, hs⟩ | hr
    all_goals
      constructor
      · constructor <;> simp [endVariant, hr, restoreShift, hp5.inFlow, hp5.pendingFlow, hp5.pss, hp5.pic, hp5.doc]
      all_goals simp [endVariant, hr, restoreShift, hp5.als, hp5.psc, hsh, *]

/-- `Variant: payload` right after `key:` (`hP`: the payload after `Variant:`; `hI`: the payload after `: ` when the
name needs an explicit key) -/
theorem variant_val_step {n : List Char} (hn : P.name n = true) {Q : St → Except EmitErr St}
    {r : Nat → Bool → Bool → List Char × List Line × Bool} {ri : Nat → Bool → List Char × List Line × Bool}
    (hP : ∀ (s3 : St) (m c : Nat), ValCtx o s3 m c → Good o s3 (r c s3.currentMapDepth.isSome s3.lastValueWasBlock) (Q s3))
    (hI : ∀ (s3 : St) (d c : Nat), ItemCtx o s3 d c → Good o s3 (ri c s3.lastValueWasBlock) (Q s3))
    (s : St) (m c : Nat) (h : ValCtx o s m c) :
    Good o s (variantVal (c + o.indentStep) (T.name n) (r (c + o.indentStep) true s.lastValueWasBlock)
      (ri (c + o.indentStep) s.lastValueWasBlock)) (variantRun o f n Q s) := by
  cases hfit : fitsImplicit (T.name n)
  · obtain ⟨hfl, hpm, hrs, hc3, ho3, hl3, hsh3⟩ := beginVariant_val_long ho hw h hn hfit
    have ih := hI _ (m + 1) (c + o.indentStep) hc3
    rw [hl3] at ih
    obtain ⟨s5, he, hout, hlvb, hpost⟩ := Good.afterVariant (s := s) _ ih (by rw [ho3]; simp only [List.append_assoc]; rfl)
      (beginVariant o f n s).1 hfl hpm (Or.inl ⟨hrs, hsh3⟩)
    rw [variantRun]
    simp only [he]
    refine ⟨_, rfl, ?_, ?_, hpost⟩
    · rw [hout]; simp [variantVal, hfit, List.append_assoc]
    · rw [hlvb]; simp [variantVal, hfit]
  · obtain ⟨s3, hbv, hc3, ho3, hl3, hsh3, him3⟩ := beginVariant_val ho hw h hn hfit
    have ih := hP s3 (m + 1) (c + o.indentStep) hc3
    rw [hl3, him3] at ih
    obtain ⟨s5, he, hout, hlvb, hpost⟩ :=
      Good.restore (s := s) (['\n'] ++ spaces (c + o.indentStep) ++ T.name n ++ [':']) ih (by rw [ho3]; simp [List.append_assoc])
        none (Or.inl ⟨rfl, hsh3⟩)
    rw [variantRun, hbv]
    simp only [he]
    refine ⟨_, rfl, ?_, ?_, ?_⟩
    · simp only [endVariant, Bool.false_eq_true, if_false]
      rw [hout]; simp [variantVal, hfit, List.append_assoc]
    · simp only [endVariant, Bool.false_eq_true, if_false]
      rw [hlvb]; simp [variantVal, hfit]
    · simpa only [endVariant, Bool.false_eq_true, if_false] using hpost

/-- `Variant: payload` right after `- ` -/
theorem variant_item_step {n : List Char} (hn : P.name n = true) {Q : St → Except EmitErr St}
    {r : Nat → Bool → Bool → List Char × List Line × Bool} {ri : Nat → Bool → List Char × List Line × Bool}
    (hP : ∀ (s3 : St) (m c : Nat), ValCtx o s3 m c → Good o s3 (r c s3.currentMapDepth.isSome s3.lastValueWasBlock) (Q s3))
    (hI : ∀ (s3 : St) (d c : Nat), ItemCtx o s3 d c → Good o s3 (ri c s3.lastValueWasBlock) (Q s3))
    (s : St) (d c : Nat) (h : ItemCtx o s d c) :
    Good o s (variantItem c (T.name n) (r (c + 2) true s.lastValueWasBlock) (ri (c + 2) s.lastValueWasBlock)) (variantRun o f n Q s) := by
  cases hfit : fitsImplicit (T.name n)
  · obtain ⟨hfl, hpm, hrs, hc3, ho3, hl3⟩ := beginVariant_item_long ho hw h hn hfit
    have ih := hI _ (d + 1) (c + 2) hc3
    rw [hl3] at ih
    obtain ⟨s5, he, hout, hlvb, hpost⟩ := Good.afterVariant (s := s) _ ih (by rw [ho3]; simp only [List.append_assoc]; rfl)
      (beginVariant o f n s).1 hfl hpm (Or.inr hrs)
    rw [variantRun]
    simp only [he]
    refine ⟨_, rfl, ?_, ?_, hpost⟩
    · rw [hout]; simp [variantItem, hfit, List.append_assoc]
    · rw [hlvb]; simp [variantItem, hfit]
  · obtain ⟨s3, hbv, hc3, ho3, hl3, him3⟩ := beginVariant_item ho hw h hn hfit
    have ih := hP s3 (d + 1) (c + 2) hc3
    rw [hl3, him3] at ih
    obtain ⟨s5, he, hout, hlvb, hpost⟩ := Good.restore (s := s) (T.name n ++ [':']) ih (by rw [ho3]; simp [List.append_assoc])
      (some s.indentShift) (Or.inr rfl)
    rw [variantRun, hbv]
    simp only [he]
    refine ⟨_, rfl, ?_, ?_, ?_⟩
    · simp only [endVariant, Bool.false_eq_true, if_false]
      rw [hout]; simp [variantItem, hfit, List.append_assoc]
    · simp only [endVariant, Bool.false_eq_true, if_false]
      rw [hlvb]; simp [variantItem, hfit]
    · simpa only [endVariant, Bool.false_eq_true, if_false] using hpost

end


/-! ### the invariant -/

section
variable (ho : FragOpts o) (hw : WriteContract o f P T)
include ho hw

mutual
/-- value position (right after `key:`) -/
theorem ser_val : ∀ (v : SVal), inFragP P v = true → ValOK o f T v
  | .unit, _ => leaf_val ho hw (fun s _ _ => ser_unit_tok s) (fun _ _ _ _ _ => by simp [layVal])
  | .none, _ => leaf_val ho hw (fun s _ _ => ser_none_tok s) (fun _ _ _ _ _ => by simp [layVal])
  | .bool b, _ => leaf_val ho hw (fun s _ _ => ser_bool_tok b s) (fun _ _ _ _ _ => by simp [layVal])
  | .int i, _ => leaf_val ho hw (fun s _ _ => ser_int_tok i s) (fun _ _ _ _ _ => by simp [layVal])
  | .str t, hv => by
    simp only [inFragP] at hv
    intro s m c h
    rw [ser_str]; simpa [layVal] using hw.strVal t hv s m c h
  | .unitVariant e n, hv => by
    simp only [inFragP] at hv
    intro s m c h
    simpa [layVal] using hw.unitVal e n hv s m c h
  | .some v, hv => by
    simp only [inFragP] at hv
    intro s m c h
    rw [ser]; simpa [layVal] using ser_val v hv s m c h
  | .newtypeStruct v, hv => by
    simp only [inFragP] at hv
    intro s m c h
    rw [ser]; simpa [layVal] using ser_val v hv s m c h
  | .seq xs, hv => by
    simp only [inFragP] at hv
    intro s m c h
    simpa [layVal] using seq_val_step ho hw (ser_items xs hv) s m c h
  | .tuple xs, hv => by
    simp only [inFragP] at hv
    intro s m c h
    rw [ser_tuple]
    simpa [layVal] using seq_val_step ho hw (ser_items xs hv) s m c h
  | .tupleStruct xs, hv => by
    simp only [inFragP] at hv
    intro s m c h
    rw [ser_tupleStruct]
    simpa [layVal] using seq_val_step ho hw (ser_items xs hv) s m c h
  | .map known es, hv => by
    simp only [inFragP, Bool.and_eq_true] at hv
    intro s m c h
    simpa [layVal] using map_val_step ho hw known (ser_entries es hv.1) s m c h
  | .newtypeVariant n v, hv => by
    simp only [inFragP, Bool.and_eq_true] at hv
    intro s m c h
    rw [ser_newtypeVariant]
    simpa [layVal] using variant_val_step ho hw hv.1 (Q := ser o f v) (r := fun c im lvb => layVal T o.indentStep o.compactListIndent im c lvb v)
      (ri := fun c lvb => layItem T o.indentStep o.compactListIndent c lvb v) (ser_val v hv.2) (ser_item v hv.2) s m c h
  | .tupleVariant n xs, hv => by
    simp only [inFragP, Bool.and_eq_true] at hv
    intro s m c h
    rw [ser_tupleVariant]
    simpa [layVal] using variant_val_step ho hw hv.1 (Q := ser o f (.seq xs))
      (r := fun c im _ => seqValOf xs.isEmpty (layItems T o.indentStep o.compactListIndent (seqCol o.indentStep o.compactListIndent im c) false xs).1)
      (ri := fun c lvb => laySeqItem T o.indentStep o.compactListIndent c lvb xs)
      (seq_val_step ho hw (ser_items xs hv.2))
      (seq_item_step ho hw (ser_items_first xs hv.2).1 (ser_items_first xs hv.2).2) s m c h
  | .structVariant n fs, hv => by
    simp only [inFragP, Bool.and_eq_true] at hv
    intro s m c h
    rw [ser_structVariant]
    simpa [layVal] using variant_val_step ho hw hv.1 (Q := ser o f (.map true fs))
      (r := fun c _ lvb => mapValOf (c + o.indentStep) lvb fs.isEmpty (layEntries T o.indentStep o.compactListIndent (c + o.indentStep) false fs).1)
      (ri := fun c lvb => layMapItem T o.indentStep o.compactListIndent c lvb fs)
      (map_val_step ho hw true (ser_entries fs hv.2.1))
      (map_item_any ho hw true (ser_entries_first fs hv.2.1)) s m c h
  | .flowSeq _, hv => by simp [inFragP] at hv
  | .flowMap _, hv => by simp [inFragP] at hv
  | .commented _ _, hv => by simp [inFragP] at hv
  | .spaceAfter _, hv => by simp [inFragP] at hv
  | .litStr _, hv => by simp [inFragP] at hv
  | .foldStr _, hv => by simp [inFragP] at hv
/-- item position (right after `- `) -/
theorem ser_item : ∀ (v : SVal), inFragP P v = true → ItemOK o f T v
  | .unit, _ => leaf_item ho hw (fun s _ _ => ser_unit_tok s) (fun _ _ _ _ => by simp [layItem])
  | .none, _ => leaf_item ho hw (fun s _ _ => ser_none_tok s) (fun _ _ _ _ => by simp [layItem])
  | .bool b, _ => leaf_item ho hw (fun s _ _ => ser_bool_tok b s) (fun _ _ _ _ => by simp [layItem])
  | .int i, _ => leaf_item ho hw (fun s _ _ => ser_int_tok i s) (fun _ _ _ _ => by simp [layItem])
  | .str t, hv => by
    simp only [inFragP] at hv
    intro s d c h
    rw [ser_str]; simpa [layItem] using hw.strItem t hv s d c h
  | .unitVariant e n, hv => by
    simp only [inFragP] at hv
    intro s d c h
    simpa [layItem] using hw.unitItem e n hv s d c h
  | .some v, hv => by
    simp only [inFragP] at hv
    intro s d c h
    rw [ser]; simpa [layItem] using ser_item v hv s d c h
  | .newtypeStruct v, hv => by
    simp only [inFragP] at hv
    intro s d c h
    rw [ser]; simpa [layItem] using ser_item v hv s d c h
  | .seq [], _ => by
    intro s d c h
    simpa [layItem] using seq_item_step ho hw (xs := []) (by simp) items_nil s d c h
  | .seq (x :: xs), hv => by
    simp only [inFragP, inFragListP, Bool.and_eq_true] at hv
    intro s d c h
    simpa [layItem] using seq_item_step ho hw (xs := x :: xs)
      (by intro y hy; simp at hy; subst hy; exact ser_item x hv.1) (ser_items xs hv.2) s d c h
  | .tuple [], _ => by
    intro s d c h
    rw [ser_tuple]
    simpa [layItem] using seq_item_step ho hw (xs := []) (by simp) items_nil s d c h
  | .tuple (x :: xs), hv => by
    simp only [inFragP, inFragListP, Bool.and_eq_true] at hv
    intro s d c h
    rw [ser_tuple]
    simpa [layItem] using seq_item_step ho hw (xs := x :: xs)
      (by intro y hy; simp at hy; subst hy; exact ser_item x hv.1) (ser_items xs hv.2) s d c h
  | .tupleStruct [], _ => by
    intro s d c h
    rw [ser_tupleStruct]
    simpa [layItem] using seq_item_step ho hw (xs := []) (by simp) items_nil s d c h
  | .tupleStruct (x :: xs), hv => by
    simp only [inFragP, inFragListP, Bool.and_eq_true] at hv
    intro s d c h
    rw [ser_tupleStruct]
    simpa [layItem] using seq_item_step ho hw (xs := x :: xs)
      (by intro y hy; simp at hy; subst hy; exact ser_item x hv.1) (ser_items xs hv.2) s d c h
  | .map known es, hv => by
    simp only [inFragP, Bool.and_eq_true] at hv
    intro s d c h
    simpa [layItem] using map_item_any ho hw known (ser_entries_first es hv.1) s d c h
  | .newtypeVariant n v, hv => by
    simp only [inFragP, Bool.and_eq_true] at hv
    intro s d c h
    rw [ser_newtypeVariant]
    simpa [layItem] using variant_item_step ho hw hv.1 (Q := ser o f v) (r := fun c im lvb => layVal T o.indentStep o.compactListIndent im c lvb v)
      (ri := fun c lvb => layItem T o.indentStep o.compactListIndent c lvb v) (ser_val v hv.2) (ser_item v hv.2) s d c h
  | .tupleVariant n xs, hv => by
    simp only [inFragP, Bool.and_eq_true] at hv
    intro s d c h
    rw [ser_tupleVariant]
    simpa [layItem] using variant_item_step ho hw hv.1 (Q := ser o f (.seq xs))
      (r := fun c im _ => seqValOf xs.isEmpty (layItems T o.indentStep o.compactListIndent (seqCol o.indentStep o.compactListIndent im c) false xs).1)
      (ri := fun c lvb => laySeqItem T o.indentStep o.compactListIndent c lvb xs)
      (seq_val_step ho hw (ser_items xs hv.2))
      (seq_item_step ho hw (ser_items_first xs hv.2).1 (ser_items_first xs hv.2).2) s d c h
  | .structVariant n fs, hv => by
    simp only [inFragP, Bool.and_eq_true] at hv
    intro s d c h
    rw [ser_structVariant]
    simpa [layItem] using variant_item_step ho hw hv.1 (Q := ser o f (.map true fs))
      (r := fun c _ lvb => mapValOf (c + o.indentStep) lvb fs.isEmpty (layEntries T o.indentStep o.compactListIndent (c + o.indentStep) false fs).1)
      (ri := fun c lvb => layMapItem T o.indentStep o.compactListIndent c lvb fs)
      (map_val_step ho hw true (ser_entries fs hv.2.1))
      (map_item_any ho hw true (ser_entries_first fs hv.2.1)) s d c h
  | .flowSeq _, hv => by simp [inFragP] at hv
  | .flowMap _, hv => by simp [inFragP] at hv
  | .commented _ _, hv => by simp [inFragP] at hv
  | .spaceAfter _, hv => by simp [inFragP] at hv
  | .litStr _, hv => by simp [inFragP] at hv
  | .foldStr _, hv => by simp [inFragP] at hv
/-- the items of a block sequence, each starting at a line start -/
theorem ser_items : ∀ (xs : List SVal), inFragListP P xs = true → ItemsOK o f T xs
  | [], _ => items_nil
  | x :: xs, hv => by
    simp only [inFragListP, Bool.and_eq_true] at hv
    exact items_cons ho (ser_item x hv.1) (ser_items xs hv.2)
/-- the entries of a block mapping, each starting at a line start -/
theorem ser_entries : ∀ (es : List (SVal × SVal)), inFragEntriesP P es = true → EntriesOK o f T es
  | [], _ => entries_nil
  | (k, v) :: es, hv => entries_cons_any ho hw (ser_entries_first ((k, v) :: es) hv)
/-- a sequence that starts right after `- ` / `: `: its first item inline, the others at line starts -/
theorem ser_items_first : ∀ (xs : List SVal), inFragListP P xs = true →
    (∀ x ∈ xs.head?, ItemOK o f T x) ∧ ItemsOK o f T xs.tail
  | [], _ => ⟨by simp, items_nil⟩
  | x :: xs, hv => by
    simp only [inFragListP, Bool.and_eq_true] at hv
    exact ⟨by intro y hy; simp at hy; subst hy; exact ser_item x hv.1, ser_items xs hv.2⟩
/-- the first entry of a mapping: key and value in the positions they can stand in -/
theorem ser_entries_first : ∀ (es : List (SVal × SVal)), inFragEntriesP P es = true → FirstEntryOK o f P T es
  | [], _ => trivial
  | (k, v) :: es, hv => by
    simp only [inFragEntriesP, Bool.and_eq_true, Bool.or_eq_true] at hv
    refine ⟨?_, ser_val v hv.1.2, ser_item v hv.1.2, ser_entries es hv.2⟩
    rcases hv.1.1 with hsk | hck
    · obtain ⟨kt, rfl, hkt⟩ := keyOk_iff hsk
      exact Or.inl ⟨kt, rfl, hkt⟩
    · exact Or.inr ⟨hck.1, ser_item k hck.2⟩
end

end

/-! ### the root -/

theorem lineCtx_init : LineCtx o (startSt o) :=
  { inFlow := rfl, pendingFlow := rfl, pss := rfl, pic := rfl, doc := Or.inl rfl, als := rfl, psc := rfl }

theorem col_init : Col o (startSt o) 0 0 := by simp [Col, startSt]

section
variable (ho : FragOpts o) (hw : WriteContract o f P T)
include ho hw

/-- a sequence at the root -/
theorem seq_root {xs : List SVal} (hxs : ItemsOK o f T xs) :
    ∃ s', ser o f (.seq xs) (startSt o) = .ok s' ∧
      s'.out = prologue o ++ renderLines (if xs.isEmpty then [⟨0, "[]".toList⟩] else (layItems T o.indentStep o.compactListIndent 0 false xs).1) := by
  rw [ser_seq]
  obtain ⟨hq, hc1, hout1, hl1, hcmd1, hpim1, hsh1⟩ := serializeSeq_line (o := o) lineCtx_init rfl
  have hcol1 : Col o (serializeSeq o (startSt o)).2 0 0 := (col_init (o := o)).of_shift hsh1
  cases xs with
  | nil =>
    rw [serSeqElems_nil]
    refine ⟨_, rfl, ?_⟩
    have := ho.braces; have := hc1.doc; have := doc_imp hc1.doc
    have hic := indentCols_col hcol1
    by_cases hd : (serializeSeq o (startSt o)).2.docStarted = true <;>
      simp [hq, seqEnd, writeIndent, hic, newline, St.write, hc1.als, hc1.psc, hout1, spaces, *]
  | cons x xs' =>
    obtain ⟨q', s', he, hqf, hqd, hqr, hqfirst, hg⟩ :=
      hxs _ { depth := 0, flow := false, first := true } 0 rfl hc1 hcol1 (fun _ => by rw [hpim1]; rfl)
    rw [hq, he]
    refine ⟨_, rfl, ?_⟩
    have hfirst : q'.first = false := by simpa using hqfirst
    have hr : q'.restoreShift = none := by simpa using hqr
    simp [seqEnd, hr, hqf, hfirst, hg.1, hout1, hl1]

/-- a mapping at the root -/
theorem map_root (known : Bool) {es : List (SVal × SVal)} (hes : EntriesOK o f T es) :
    ∃ s', ser o f (.map known es) (startSt o) = .ok s' ∧
      s'.out = prologue o ++ renderLines (if es.isEmpty then [⟨0, "{}".toList⟩] else (layEntries T o.indentStep o.compactListIndent 0 false es).1) := by
  rw [ser_map]
  generalize (if known = true then some es.length else none) = len
  obtain ⟨hm1, hc1, hout1, hl1, hcmd1, hsh1⟩ := serializeMap_line (o := o) len lineCtx_init rfl rfl
  have hcol1 : Col o (serializeMap o len (startSt o)).2 0 0 := (col_init (o := o)).of_shift hsh1
  cases es with
  | nil =>
    rw [serMapEntries_nil]
    refine ⟨_, rfl, ?_⟩
    have := ho.braces; have := hc1.doc; have := doc_imp hc1.doc
    have hic := indentCols_col hcol1
    by_cases hd : (serializeMap o len (startSt o)).2.docStarted = true <;>
      simp [hm1, mapEnd, mapIndent, writeIndent, hic, newline, St.write, hc1.als, hc1.psc, hout1, spaces, *]
  | cons e es' =>
    obtain ⟨m', s', he, hmf, hmr, hmfirst, hg⟩ :=
      hes _ { depth := 0, flow := false, first := true } 0 rfl rfl hc1 hcol1
    rw [hm1, he]
    refine ⟨_, rfl, ?_⟩
    have hfirst : m'.first = false := by simpa using hmfirst
    have hr : m'.restoreShift = none := by simpa using hmr
    simp [mapEnd, hr, hmf, hfirst, hg.1, hout1, hl1]

omit ho hw in
theorem endVariant_out (fr : VariantFrame) (s : St) (h : fr.flow = false) : (endVariant fr s).out = s.out := by
  obtain ⟨pm, rs, fl, rl⟩ := fr
  simp only at h; subst h
  cases pm <;> cases rs <;> cases rl <;> simp [endVariant, restoreShift]

/-- `Variant: payload` at the root -/
theorem variant_root {n : List Char} (hn : P.name n = true) {Q : St → Except EmitErr St}
    {r ri : List Char × List Line × Bool}
    (hP : ∀ (s3 : St), ValCtx o s3 0 0 → s3.lastValueWasBlock = false → s3.currentMapDepth = none → Good o s3 r (Q s3))
    (hI : ∀ (s3 : St), ItemCtx o s3 0 0 → s3.lastValueWasBlock = false → Good o s3 ri (Q s3)) :
    ∃ s', variantRun o f n Q (startSt o) = .ok s' ∧ s'.out = prologue o ++ renderLines (variantRoot (T.name n) r ri) := by
  cases hfit : fitsImplicit (T.name n)
  · obtain ⟨hfl, _, hc3, ho3, hl3⟩ := beginVariant_root_long (o := o) (f := f) ho hw hn hfit
    obtain ⟨s5, he, hout, _, _⟩ := hI _ hc3 hl3
    rw [variantRun]
    simp only [he]
    refine ⟨_, rfl, ?_⟩
    rw [endVariant_out _ _ hfl, hout, ho3]
    simp [variantRoot, hfit, spaces, List.append_assoc]
  · obtain ⟨s3, hbv, hc3, ho3, hl3, hcmd3⟩ := beginVariant_root (o := o) (f := f) ho hw hn hfit
    obtain ⟨s5, he, hout, _, _⟩ := hP s3 hc3 hl3 hcmd3
    rw [variantRun, hbv]
    simp only [he]
    refine ⟨_, rfl, ?_⟩
    simp only [endVariant, restoreShift_none, Bool.false_eq_true, if_false]
    rw [hout, ho3]
    simp [variantRoot, hfit, spaces, List.append_assoc]

/-- The emitter invariant at the root: the state machine produces exactly the layout. -/
theorem ser_root : ∀ (v : SVal), inFragP P v = true →
    ∃ s', ser o f v (startSt o) = .ok s' ∧ s'.out = prologue o ++ renderLines (layRoot T o.indentStep o.compactListIndent v)
  | .unit, _ => ⟨_, by rw [ser], by simpa [layRoot, leafTok] using (serToken_line (o := o) ho "null".toList lineCtx_init rfl col_init).1⟩
  | .none, _ => ⟨_, by rw [ser], by simpa [layRoot, leafTok] using (serToken_line (o := o) ho "null".toList lineCtx_init rfl col_init).1⟩
  | .bool b, _ => ⟨_, by rw [ser], by
      simpa [layRoot, leafTok] using (serToken_line (o := o) ho (if b then "true".toList else "false".toList) lineCtx_init rfl col_init).1⟩
  | .int i, _ => ⟨_, by rw [ser], by simpa [layRoot, leafTok] using (serToken_line (o := o) ho (intText i) lineCtx_init rfl col_init).1⟩
  | .str t, hv => by
    simp only [inFragP] at hv
    exact ⟨_, ser_str t (startSt o), by simpa [layRoot] using hw.strRoot t hv⟩
  | .unitVariant e n, hv => by
    simp only [inFragP] at hv
    simpa [layRoot] using hw.unitRoot e n hv
  | .some v, hv => by
    simp only [inFragP] at hv
    rw [ser]; simpa [layRoot] using ser_root v hv
  | .newtypeStruct v, hv => by
    simp only [inFragP] at hv
    rw [ser]; simpa [layRoot] using ser_root v hv
  | .seq xs, hv => by
    simp only [inFragP] at hv
    simpa [layRoot] using seq_root ho hw (ser_items ho hw xs hv)
  | .tuple xs, hv => by
    simp only [inFragP] at hv
    rw [ser_tuple]
    simpa [layRoot] using seq_root ho hw (ser_items ho hw xs hv)
  | .tupleStruct xs, hv => by
    simp only [inFragP] at hv
    rw [ser_tupleStruct]
    simpa [layRoot] using seq_root ho hw (ser_items ho hw xs hv)
  | .map known es, hv => by
    simp only [inFragP, Bool.and_eq_true] at hv
    simpa [layRoot] using map_root ho hw known (ser_entries ho hw es hv.1)
  | .newtypeVariant n v, hv => by
    simp only [inFragP, Bool.and_eq_true] at hv
    rw [ser_newtypeVariant]
    simpa [layRoot] using variant_root ho hw hv.1 (Q := ser o f v) (r := layVal T o.indentStep o.compactListIndent false 0 false v)
      (ri := layItem T o.indentStep o.compactListIndent 0 false v)
      (fun s3 h3 hl3 hc3 => by simpa [hl3, hc3] using ser_val ho hw v hv.2 s3 0 0 h3)
      (fun s3 h3 hl3 => by simpa [hl3] using ser_item ho hw v hv.2 s3 0 0 h3)
  | .tupleVariant n xs, hv => by
    simp only [inFragP, Bool.and_eq_true] at hv
    rw [ser_tupleVariant]
    simpa [layRoot] using variant_root ho hw hv.1 (Q := ser o f (.seq xs))
      (r := seqValOf xs.isEmpty (layItems T o.indentStep o.compactListIndent o.indentStep false xs).1)
      (ri := laySeqItem T o.indentStep o.compactListIndent 0 false xs)
      (fun s3 h3 _ hc3 => by simpa [hc3, seqCol] using seq_val_step ho hw (ser_items ho hw xs hv.2) s3 0 0 h3)
      (fun s3 h3 hl3 => by
        simpa [hl3] using seq_item_step ho hw (ser_items_first ho hw xs hv.2).1 (ser_items_first ho hw xs hv.2).2 s3 0 0 h3)
  | .structVariant n fs, hv => by
    simp only [inFragP, Bool.and_eq_true] at hv
    rw [ser_structVariant]
    simpa [layRoot] using variant_root ho hw hv.1 (Q := ser o f (.map true fs))
      (r := mapValOf o.indentStep false fs.isEmpty (layEntries T o.indentStep o.compactListIndent o.indentStep false fs).1)
      (ri := layMapItem T o.indentStep o.compactListIndent 0 false fs)
      (fun s3 h3 hl3 _ => by simpa [hl3] using map_val_step ho hw true (ser_entries ho hw fs hv.2.1) s3 0 0 h3)
      (fun s3 h3 hl3 => by simpa [hl3] using map_item_any ho hw true (ser_entries_first ho hw fs hv.2.1) s3 0 0 h3)
  | .flowSeq _, hv => by simp [inFragP] at hv
  | .flowMap _, hv => by simp [inFragP] at hv
  | .commented _ _, hv => by simp [inFragP] at hv
  | .spaceAfter _, hv => by simp [inFragP] at hv
  | .litStr _, hv => by simp [inFragP] at hv
  | .foldStr _, hv => by simp [inFragP] at hv

end


/-! ### the prologue: the first `write_indent` of a document -/

/-- the state after the first `write_indent(d)` of a document -/
def firstIndent (o : Opts) (d : Nat) : St :=
  { out := prologue o ++ spaces (indentCols o {} d), atLineStart := false, docStarted := true }

theorem writeIndent_nil (d : Nat) : writeIndent o {} d = firstIndent o d := by
  cases hy : o.yaml12 <;> simp [writeIndent, St.write, firstIndent, prologue, prologueText, hy, indentCols]
theorem writeIndent_startSt (d : Nat) : writeIndent o { out := prologue o, docStarted := true } d = firstIndent o d := by
  simp [writeIndent, St.write, firstIndent, indentCols]

theorem serToken_init (tok : List Char) : serToken o tok {} = serToken o tok (startSt o) := by
  simp [serToken, indentIfLineStart, writeSpaceIfPending, startSt]
  simp [writeIndent_nil, writeIndent_startSt]

theorem seq_init (hb : o.emptyAsBraces = true) (xs : List SVal) : ser o f (.seq xs) {} = ser o f (.seq xs) (startSt o) := by
  rw [ser_seq, ser_seq]
  have h1 : (serializeSeq o ({} : St)).1 = { depth := 0, flow := false } := by simp [serializeSeq, takeFlow]
  have h1' : (serializeSeq o (startSt o)).1 = { depth := 0, flow := false } := by simp [serializeSeq, takeFlow, startSt]
  have h2 : (serializeSeq o ({} : St)).2 = {} := by simp [serializeSeq, takeFlow]
  have h2' : (serializeSeq o (startSt o)).2 = startSt o := by simp [serializeSeq, takeFlow, startSt]
  rw [h1, h1', h2, h2']
  cases xs with
  | nil =>
    rw [serSeqElems_nil, serSeqElems_nil]
    simp [seqEnd, restoreShift, newline, St.write, hb, startSt]
    simp [writeIndent_nil, writeIndent_startSt]
  | cons x xs' =>
    rw [serSeqElems, serSeqElems]
    have h3 : seqElemPrefix o { depth := 0, flow := false } ({} : St) = seqElemPrefix o { depth := 0, flow := false } (startSt o) := by
      simp [seqElemPrefix, startSt]
      simp [writeIndent_nil, writeIndent_startSt]
    simp only [Bool.false_eq_true, if_false, h3]

theorem map_init (hb : o.emptyAsBraces = true) (known : Bool) (es : List (SVal × SVal)) :
    ser o f (.map known es) {} = ser o f (.map known es) (startSt o) := by
  rw [ser_map, ser_map]
  generalize (if known = true then some es.length else none) = len
  have h1 : (serializeMap o len ({} : St)).1 = { depth := 0, flow := false } := by simp [serializeMap, takeFlow]
  have h1' : (serializeMap o len (startSt o)).1 = { depth := 0, flow := false } := by simp [serializeMap, takeFlow, startSt]
  have h2 : (serializeMap o len ({} : St)).2 = {} := by simp [serializeMap, takeFlow]
  have h2' : (serializeMap o len (startSt o)).2 = startSt o := by simp [serializeMap, takeFlow, startSt]
  rw [h1, h1', h2, h2']
  cases es with
  | nil =>
    rw [serMapEntries_nil, serMapEntries_nil]
    simp [mapEnd, mapIndent, restoreShift, newline, St.write, hb, startSt]
    simp [writeIndent_nil, writeIndent_startSt]
  | cons e es' =>
    obtain ⟨k, v⟩ := e
    rw [serMapEntries, serMapEntries]
    have h3 : mapKeyPrefix { depth := 0, flow := false } ({} : St) = ({ depth := 0, flow := false }, {}) := by
      simp [mapKeyPrefix]
    have h3' : mapKeyPrefix { depth := 0, flow := false } (startSt o) = ({ depth := 0, flow := false }, startSt o) := by
      simp [mapKeyPrefix, startSt]
    have h4 : mapIndent o { depth := 0, flow := false } ({} : St) = mapIndent o { depth := 0, flow := false } (startSt o) := by
      simp [mapIndent, startSt, writeIndent_nil, writeIndent_startSt]
    have h5 : complexKeyMark o { depth := 0, flow := false } ({} : St) = complexKeyMark o { depth := 0, flow := false } (startSt o) := by
      simp [complexKeyMark, startSt, writeIndent_nil, writeIndent_startSt]
    have h6 : ∀ text, longKeyLine o { depth := 0, flow := false } text ({} : St) = longKeyLine o { depth := 0, flow := false } text (startSt o) := by
      intro text; simp only [longKeyLine, h4]
    simp only [Bool.false_eq_true, if_false, h3, h3', h4, h5, h6]

theorem beginVariantExplicit_init (key : List Char) :
    beginVariantExplicit o key false {} = beginVariantExplicit o key false (startSt o) := by
  simp [beginVariantExplicit, startSt]
  simp [writeIndent_nil, writeIndent_startSt]

theorem beginVariant_init (n : List Char) : beginVariant o f n {} = beginVariant o f n (startSt o) := by
  by_cases hl : (plainOrQuoted o f n).length > maxImplicitKeyChars
  · simp only [beginVariant, hl, if_true]
    simpa [startSt] using beginVariantExplicit_init (o := o) (plainOrQuoted o f n)
  · simp [beginVariant, hl, indentIfLineStart, startSt]
    simp [writeIndent_nil, writeIndent_startSt]


/-- From the initial state a value of the fragment serializes exactly as from `startSt o`: the first
thing written is the indentation of the first line, by `write_indent`, which emits the prologue. -/
theorem ser_init (ho : FragOpts o) (hw : WriteContract o f P T) : ∀ (v : SVal), inFragP P v = true → ser o f v {} = ser o f v (startSt o)
  | .unit, _ => by rw [ser, ser, serToken_init]
  | .none, _ => by rw [ser, ser, serToken_init]
  | .bool b, _ => by rw [ser, ser, serToken_init]
  | .int i, _ => by rw [ser, ser, serToken_init]
  | .str t, hv => by
    simp only [inFragP] at hv
    rw [ser_str, ser_str, hw.strInit t hv]
  | .unitVariant e n, hv => by
    simp only [inFragP] at hv
    exact hw.unitInit e n hv
  | .some v, hv => by
    simp only [inFragP] at hv
    rw [ser, ser]; exact ser_init ho hw v hv
  | .newtypeStruct v, hv => by
    simp only [inFragP] at hv
    rw [ser, ser]; exact ser_init ho hw v hv
  | .seq xs, _ => seq_init ho.braces xs
  | .tuple xs, _ => by rw [ser_tuple, ser_tuple]; exact seq_init ho.braces xs
  | .tupleStruct xs, _ => by rw [ser_tupleStruct, ser_tupleStruct]; exact seq_init ho.braces xs
  | .map known es, _ => map_init ho.braces known es
  | .newtypeVariant n v, _ => by rw [ser_newtypeVariant, ser_newtypeVariant, variantRun, variantRun, beginVariant_init]
  | .tupleVariant n xs, _ => by rw [ser_tupleVariant, ser_tupleVariant, variantRun, variantRun, beginVariant_init]
  | .structVariant n fs, _ => by rw [ser_structVariant, ser_structVariant, variantRun, variantRun, beginVariant_init]
  | .flowSeq _, hv => by simp [inFragP] at hv
  | .flowMap _, hv => by simp [inFragP] at hv
  | .commented _ _, hv => by simp [inFragP] at hv
  | .spaceAfter _, hv => by simp [inFragP] at hv
  | .litStr _, hv => by simp [inFragP] at hv
  | .foldStr _, hv => by simp [inFragP] at hv

/-- the write contract of texts that are tokens (no block scalars): `serialize_str` writes a string of the class
like the fixed token `T.str` -/
theorem WriteContract.ofTok (ho : FragOpts o) (ht : T.IsTok)
    (hs : ∀ s, P.str s = true → ∀ st : St, st.pendingStrStyle = none → st.inFlow = 0 → serStr o f s st = serToken o (T.str s) st)
    (hu : ∀ e n, P.unit e n = true → ∀ st : St, st.pendingStrStyle = none → st.inFlow = 0 →
      ser o f (.unitVariant e n) st = .ok (serToken o (T.unit e n) st))
    (hk : ∀ s, P.key s = true → keyStrText o f s = T.key s) (hn : ∀ n, P.name n = true → plainOrQuoted o f n = T.name n) :
    WriteContract o f P T where
  strVal := fun s h st m c hc => by
    rw [ht.1, hs s h st hc.pss hc.inFlow]; exact serToken_val (o := o) _ hc
  strItem := fun s h st d c hc => by
    rw [ht.1, hs s h st hc.pss hc.inFlow]; exact serToken_item (o := o) _ hc
  strRoot := fun s h => by
    rw [ht.1, hs s h (startSt o) rfl rfl]
    simpa using (serToken_line (o := o) ho (T.str s) lineCtx_init rfl col_init).1
  strInit := fun s h => by rw [hs s h {} rfl rfl, hs s h (startSt o) rfl rfl, serToken_init]
  unitVal := fun e n h st m c hc => by
    rw [ht.2, hu e n h st hc.pss hc.inFlow]; exact serToken_val (o := o) _ hc
  unitItem := fun e n h st d c hc => by
    rw [ht.2, hu e n h st hc.pss hc.inFlow]; exact serToken_item (o := o) _ hc
  unitRoot := fun e n h => by
    rw [ht.2, hu e n h (startSt o) rfl rfl]
    exact ⟨_, rfl, by simpa using (serToken_line (o := o) ho (T.unit e n) lineCtx_init rfl col_init).1⟩
  unitInit := fun e n h => by rw [hu e n h {} rfl rfl, hu e n h (startSt o) rfl rfl, serToken_init]
  key := hk
  name := hn

section
variable (ho : FragOpts o) (hw : WriteContract o f P T)
include ho hw

/-- `to_string_with_options` on the fragment = the prologue (`%YAML 1.2` + `---` under `yaml_12`) and
the rendered layout -/
theorem emit_eq_layout (v : SVal) (hv : inFragP P v = true) :
    emit o f v = .ok (prologue o ++ renderLines (layRoot T o.indentStep o.compactListIndent v)) := by
  obtain ⟨s', he, hout⟩ := ser_root ho hw v hv
  have hne : (o.indentStep == 0) = false := by have := ho.indent; simp; omega
  simp [emit, hne, ser_init ho hw v hv, he, hout]

end


end SaphyrVerif.Emit
