import SaphyrVerif.Lemmas.C12Fold
import SaphyrVerif.Lemmas.C12LiteralDoc
/-!
Helper lemmas for C12: the automatic folded block at document level.
-/
set_option linter.unusedSimpArgs false

namespace SaphyrVerif.Lemmas.C12
open SaphyrVerif SaphyrVerif.SerScalar SaphyrVerif.Spec.Read SaphyrVerif.Scalars

theorem splitNl_go_single (v cur : List Char) (h : ∀ c ∈ v, c ≠ '\n') : splitNl.go v cur = [cur.reverse ++ v] := by
  induction v generalizing cur with
  | nil => simp [splitNl.go]
  | cons a v ih =>
    have ha : (a == '\n') = false := by simpa using h a (by simp)
    rw [splitNl.go, ha]
    simp only [Bool.false_eq_true, if_false]
    rw [ih (a :: cur) (fun c hc => h c (by simp [hc]))]
    simp

theorem splitNl_single (v : List Char) (h : ∀ c ∈ v, c ≠ '\n') : splitNl v = [v] := by
  simpa [splitNl] using splitNl_go_single v [] h

theorem trimEndNl_no_nl (v : List Char) (hne : v ≠ []) (h : ∀ c ∈ v, c ≠ '\n') : trimEndNl v = v := by
  unfold trimEndNl
  cases hr : v.reverse with
  | nil => simp at hr; exact absurd hr hne
  | cons a r =>
    have ha : a ∈ v := by
      have : a ∈ v.reverse := by rw [hr]; simp
      simpa using this
    have : (a == '\n') = false := by simpa using h a ha
    rw [List.dropWhile, this]
    simp only
    rw [← hr, List.reverse_reverse]

theorem joinSp_mem : ∀ (segs : List (List Char)) (e : List Char), e ∈ segs → ∀ c ∈ e, c ∈ joinSp segs := by
  intro segs
  induction segs with
  | nil => intro e he; cases he
  | cons x segs ih =>
    intro e he c hc
    cases segs with
    | nil =>
      simp only [List.mem_singleton] at he
      subst he; simpa [joinSp] using hc
    | cons y r =>
      simp only [List.mem_cons] at he
      rw [joinSp]
      rcases he with e1 | he
      · subst e1; simp [hc]
      · have := ih e (by simpa using he) c hc
        simp [this]

theorem writeFoldedBlock_single (v : List Char) (indent step wrap : Nat) (h : ∀ c ∈ v, c ≠ '\n') :
    writeFoldedBlock v indent step wrap = foldLine v (spaces (step * indent)) wrap := by
  unfold writeFoldedBlock
  rw [splitNl_single v h]
  simp only [writeFoldedBlock.go]
  cases foldLine v (spaces (step * indent)) wrap <;> simp [writeFoldedBlock.go]

/-- what the automatic folded selection implies -/
theorem autoStyle_folded {o : Opts} {v : List Char} (h : autoStyle o false v = some .folded) :
    o.quoteAll = false ∧ v.contains '\n' = false ∧ isPlainValueSafe v o.yaml12 false = true := by
  unfold autoStyle at h
  cases hq : o.quoteAll with
  | true => simp [hq] at h
  | false =>
    simp only [hq, Bool.not_false, Bool.and_true, Bool.true_and, if_true] at h
    cases hn : v.contains '\n' with
    | true =>
      simp only [hn, if_true] at h
      split at h
      · split at h
        · cases h
        · split at h <;> cases h
      · cases h
    | false =>
      simp only [hn, Bool.false_eq_true, if_false] at h
      split at h
      · split at h
        · rename_i h2
          simp only [Bool.and_eq_true] at h2
          exact ⟨rfl, rfl, h2.1⟩
        · cases h
      · cases h

/-- The automatic folded block round-trips at document level (root, map value, seq item, enum newtype
payload): whenever the writer selects it. -/
theorem folded_doc (o : Opts) (p : SerScalar.Pos) (v : List Char) (hp : blockSimplePos p = true)
    (hstep : 1 ≤ o.indentStep)
    (hauto : autoStyle o false v = some .folded) :
    ∃ t, emitDoc o p v = .ok t ∧ readDoc (toRead p) t = some (.folded, v) := by
  obtain ⟨hq, hnl, hpv⟩ := autoStyle_folded hauto
  obtain ⟨_, hhead, _, _, hsafe, _⟩ := pvs_unfold hpv
  have hnonl : ∀ c ∈ v, c ≠ '\n' := by
    intro c hc e; subst e
    have : v.contains '\n' = true := by simpa using hc
    rw [hnl] at this; cases this
  have hne : v ≠ [] := by intro e; subst e; simp [headRejects] at hhead
  obtain ⟨c0, r0, hv0⟩ : ∃ c r, v = c :: r := by cases v with | nil => exact absurd rfl hne | cons c r => exact ⟨c, r, rfl⟩
  have hc0 : isBlank c0 = false := by rw [hv0] at hhead; exact (head_facts hhead).1
  have hheadsp : v.head? ≠ some ' ' := by
    rw [hv0]; simp only [List.head?_cons, ne_eq, Option.some.injEq]
    intro e; subst e; revert hc0; decide
  let N := o.indentStep * (0 + 1)
  obtain ⟨segs, hfold, hjoin, hsne, hsegs⟩ := foldLine_spec v (spaces N) o.foldedWrap hne hheadsp
  -- characters of the segments
  have hsegchars : ∀ e ∈ segs, ∀ c ∈ e, isControl c = false := by
    intro e he c hc
    have := joinSp_mem segs e he c hc
    rw [hjoin] at this
    exact (hsafe c this).1
  have htrim : trimEndNl v = v := trimEndNl_no_nl v hne hnonl
  have hfls : firstLineLeadingSpaces v = 0 := by
    unfold firstLineLeadingSpaces
    rw [splitNl_single v hnonl, firstLineLeadingSpaces.go]
    have : v.isEmpty = false := by rw [hv0]; rfl
    rw [this]
    simp only [Bool.not_false, if_true]
    rw [hv0]
    have : (c0 == ' ') = false := by
      apply Bool.eq_false_iff.mpr; intro e; have := eq_of_beq e; subst this; revert hc0; decide
    simp [List.takeWhile, this]
  let body := '>' :: (['-'] ++ '\n' :: joinLines (segs.map (spaces N ++ ·)))
  have hemit : emitDoc o p v = .ok (preamble o ++ (opening (toRead p) ++ body)) := by
    have hV : writePlainOrQuoted ['V'] o.quoteAll = ['V'] := by rw [hq]; decide
    have hser : ∀ cx : Ctx, cx.inFlow = false → blockBase cx = 0 →
        serializeStr o cx v = .ok ((if cx.pendingSpace then [' '] else []) ++ writeIndent o cx 0 ++ body) := by
      intro cx hcf hb
      unfold serializeStr
      rw [hcf, hauto]
      simp only
      have hbase : (if cx.pendingSpace = true then cx.mapDepth.getD cx.depth else cx.afterDash.getD cx.depth) = 0 := hb
      rw [hbase, htrim, hfls]
      simp only [Nat.lt_irrefl, decide_false, Bool.false_and, Bool.and_false, Bool.or_self, Bool.false_eq_true, if_false, Nat.sub_self, chompInd]
      rw [writeFoldedBlock_single v _ _ _ hnonl]
      rw [show o.indentStep * (0 + 1) = N from rfl] at *
      rw [hfold]
      simp [body]
    cases p <;> first
      | (cases hp; done)
      | (simp only [emitDoc, hV]
         rw [hser _ rfl rfl]
         cases hy : o.yaml12 <;> simp [writeIndent, hy, spaces, opening, toRead, preamble])
  refine ⟨_, hemit, ?_⟩
  have hlines : ∀ l ∈ segs.map (spaces N ++ ·), ∀ c ∈ l, c ≠ '\n' ∧ c ≠ '\r' := by
    intro l hl c hc
    simp only [List.mem_map] at hl
    obtain ⟨e, he, rfl⟩ := hl
    simp only [List.mem_append] at hc
    rcases hc with hc | hc
    · have : c = ' ' := by simp [spaces] at hc; exact hc.2
      subst this; exact ⟨by decide, by decide⟩
    · obtain ⟨_, hb, _⟩ := not_control_facts (hsegchars e he c hc)
      simp only [isBreak, Bool.or_eq_false_iff] at hb
      exact ⟨by simpa using hb.1, by simpa using hb.2⟩
  have hhdr : ∀ c ∈ ['-'], isBreak c = false ∧ isNul c = false := by decide
  have hpp : simplePos (toRead p) = true := by cases p <;> first | rfl | (cases hp; done)
  have hso := stripOpening_opening (toRead p) hpp '>' (['-'] ++ '\n' :: joinLines (segs.map (spaces N ++ ·))) (by decide)
  have hcl : (toRead p).closing = [] := by cases p <;> first | rfl | (cases hp; done)
  have hfl : (toRead p).isFlow = false := by cases p <;> first | rfl | (cases hp; done)
  have hnode := readNode_block (toRead p) hcl hfl false ['-'] (segs.map (spaces N ++ ·))
    (posCol0 (toRead p)) (posParent (toRead p)) hhdr hlines
  -- the block reader on the segments
  have hN : 1 ≤ N := by simp only [N]; omega
  have hsegs2 : ∀ e ∈ segs, e ≠ [] ∧ headSat isBlank e = false := by
    intro e he
    obtain ⟨h1, h2⟩ := hsegs e he
    refine ⟨h1, ?_⟩
    cases e with
    | nil => exact absurd rfl h1
    | cons a r =>
      have hctl := hsegchars (a :: r) he a (by simp)
      obtain ⟨hnt, _, _⟩ := not_control_facts hctl
      simp only [headSat, isBlank, Bool.or_eq_false_iff]
      exact ⟨by simpa using h2, by simpa using hnt⟩
  have hns : firstNonEmptyNoSpace segs = true := by
    cases segs with
    | nil => exact absurd rfl hsne
    | cons e r =>
      obtain ⟨h1, h2⟩ := hsegs e (by simp)
      have : e.isEmpty = false := by cases e with | nil => exact absurd rfl h1 | cons a b => rfl
      simp [firstNonEmptyNoSpace, this, h2]
  have hex : ∃ l ∈ segs, l ≠ [] := by
    cases segs with
    | nil => exact absurd rfl hsne
    | cons e r => exact ⟨e, by simp, (hsegs e (by simp)).1⟩
  have hind : blockIndent (posParent (toRead p)) 0 (segs.map (spaces N ++ ·)) = N := by
    simp only [blockIndent, Nat.lt_irrefl, if_false]
    have := detectIndent_auto N segs [] hex hns 0 (by omega)
    rw [List.append_nil] at this
    rw [this]
    cases p <;> first | (cases hp; done) | (simp only [toRead, posParent]; omega)
  have htab : firstLineTab (segs.map (spaces N ++ ·)) = false := by
    cases segs with
    | nil => exact absurd rfl hsne
    | cons e r =>
      simp only [List.map_cons, firstLineTab]
      cases hN' : N with
      | zero => omega
      | succ n => simp [spaces, List.replicate_succ, headSat]
  have hread : readBlock false (posParent (toRead p)) ['-'] (segs.map (spaces N ++ ·)) = some (v, []) := by
    unfold readBlock
    have hph : parseHeader ['-'] = some (.strip, 0) := by decide
    rw [hph]
    simp only [htab, Bool.false_eq_true, if_false, hind]
    rw [blockBody_fold N hN segs hsegs2 true [] hsne]
    simp [chompTail, hjoin]
  rw [hread] at hnode
  obtain ⟨hh1, hh2⟩ := opening_head (toRead p) '>' (['-'] ++ '\n' :: joinLines (segs.map (spaces N ++ ·))) (by decide) (by decide)
  rw [readDoc_frame o (toRead p) _ hh1 hh2]
  have hpc : ((opening (toRead p) ++ body).head? == some '%') = false := by
    cases p <;> first | rfl | (cases hp; done)
  have hnul : (opening (toRead p) ++ body).any isNul = false := by
    have h1 : (opening (toRead p)).any isNul = false := by cases p <;> decide
    have h3 : (joinLines (segs.map (spaces N ++ ·))).any isNul = false := by
      apply Bool.eq_false_iff.mpr
      intro hc
      obtain ⟨c, hcm, hcn⟩ := List.any_eq_true.mp hc
      simp only [joinLines, List.mem_flatMap, List.mem_append, List.mem_singleton, List.mem_map] at hcm
      obtain ⟨l, ⟨e, he, rfl⟩, hcm⟩ := hcm
      rcases hcm with hcm | e1
      · simp only [List.mem_append] at hcm
        rcases hcm with hcm | hcm
        · have : c = ' ' := by simp [spaces] at hcm; exact hcm.2
          subst this; revert hcn; decide
        · rw [(not_control_facts (hsegchars e he c hcm)).2.2] at hcn; cases hcn
      · subst e1; revert hcn; decide
    simp only [body, List.any_append, List.any_cons, h1, h3]
    decide
  show readDocBody (toRead p) (opening (toRead p) ++ body) = _
  unfold readDocBody
  rw [hpc, hnul]
  simp only [Bool.or_self, Bool.false_eq_true, if_false]
  show (match stripOpening (toRead p) (opening (toRead p) ++ '>' :: (['-'] ++ '\n' :: joinLines (segs.map (spaces N ++ ·)))) with
    | none => none
    | some (s, col0, parent) => readNode (toRead p) s col0 parent) = _
  rw [hso]
  simp only [Bool.false_eq_true, if_false] at hnode
  simp only [hnode, Option.bind_some, onlyTrailers, List.all_nil, if_true]

end SaphyrVerif.Lemmas.C12
