import SaphyrVerif.Lemmas.C12Fold
import SaphyrVerif.Lemmas.C12LiteralDoc
/-!
Helper lemmas for C12: the automatic folded block at document level.
-/
set_option linter.unusedSimpArgs false

namespace SaphyrVerif.Lemmas.C12
open SaphyrVerif SaphyrVerif.SerScalar SaphyrVerif.Spec.Read SaphyrVerif.Scalars

theorem splitNl_go_single (v cur : List Char) (h : ∀ c ∈ v, c ≠ '\n') : splitNl.go v cur = [cur.reverse ++ v] := by
  induction v generalizing cur with
  | nil => simp [splitNl.go]
  | cons a v ih =>
    have ha : (a == '\n') = false := by simpa using h a (by simp)
    rw [splitNl.go, ha]
    simp only [Bool.false_eq_true, if_false]
    rw [ih (a :: cur) (fun c hc => h c (by simp [hc]))]
    simp

theorem splitNl_single (v : List Char) (h : ∀ c ∈ v, c ≠ '\n') : splitNl v = [v] := by
  simpa [splitNl] using splitNl_go_single v [] h

theorem trimEndNl_no_nl (v : List Char) (hne : v ≠ []) (h : ∀ c ∈ v, c ≠ '\n') : trimEndNl v = v := by
  unfold trimEndNl
  cases hr : v.reverse with
  | nil => simp at hr; exact absurd hr hne
  | cons a r =>
    have ha : a ∈ v := by
      have : a ∈ v.reverse := by rw [hr]; simp
      simpa using this
    have : (a == '\n') = false := by simpa using h a ha
    rw [List.dropWhile, this]
    simp only
    rw [← hr, List.reverse_reverse]

theorem joinSp_mem : ∀ (segs : List (List Char)) (e : List Char), e ∈ segs → ∀ c ∈ e, c ∈ joinSp segs := by
  intro segs
  induction segs with
  | nil => intro e he; cases he
  | cons x segs ih =>
    intro e he c hc
    cases segs with
    | nil =>
      simp only [List.mem_singleton] at he
      subst he; simpa [joinSp] using hc
    | cons y r =>
      simp only [List.mem_cons] at he
      rw [joinSp]
      rcases he with e1 | he
      · subst e1; simp [hc]
      · have := ih e (by simpa using he) c hc
        simp [this]

theorem writeFoldedBlock_single (v : List Char) (indent step wrap : Nat) (h : ∀ c ∈ v, c ≠ '\n') :
    writeFoldedBlock v indent step wrap = foldLine v (spaces (step * indent)) wrap := by
  unfold writeFoldedBlock
  rw [splitNl_single v h]
  simp only [writeFoldedBlock.go]
  cases foldLine v (spaces (step * indent)) wrap <;> simp [writeFoldedBlock.go]

/-- what the automatic folded selection implies -/
theorem autoStyle_folded {o : Opts} {v : List Char} (h : autoStyle o false v = some .folded) :
    o.quoteAll = false ∧ v.contains '\n' = false ∧ isPlainValueSafe v o.yaml12 false = true := by
  unfold autoStyle at h
  cases hq : o.quoteAll with
  | true => simp [hq] at h
  | false =>
    simp only [hq, Bool.not_false, Bool.and_true, Bool.true_and, if_true] at h
    cases hn : v.contains '\n' with
    | true =>
      simp only [hn, if_true] at h
      split at h
      · split at h
        · cases h
        · split at h <;> cases h
      · cases h
    | false =>
      simp only [hn, Bool.false_eq_true, if_false] at h
      split at h
      · split at h
        · rename_i h2
          simp only [Bool.and_eq_true] at h2
          exact ⟨rfl, rfl, h2.1⟩
        · cases h
      · cases h

/-- The automatic folded block round-trips at document level in every block value position with a
fixed opening, whenever the writer really emits it, under every option vector. -/
theorem folded_doc (o : Opts) (p : SerScalar.Pos) (v : List Char) (hp : isBlockPos p = true)
    (hstep : 1 ≤ o.indentStep) (hauto : autoStyle o false v = some .folded)
    (hnf : blockFallback o (posCtx o p) v = false) :
    ∃ t, emitDoc o p v = .ok t ∧ readDoc (toRead p) t = some (.folded, v) := by
  obtain ⟨hkey, hflow, hclosing⟩ := blockPos_facts p hp
  obtain ⟨hinflow, hN, hgeoA, _, _⟩ := block_geometry o p hp hstep v hnf
  obtain ⟨hq, hnl, hpv⟩ := autoStyle_folded hauto
  obtain ⟨_, hhead, _, _, hsafe, _⟩ := pvs_unfold hpv
  have hnonl : ∀ c ∈ v, c ≠ '\n' := by
    intro c hc e; subst e
    have : v.contains '\n' = true := by simpa using hc
    rw [hnl] at this; cases this
  have hne : v ≠ [] := by intro e; subst e; simp [headRejects] at hhead
  obtain ⟨c0, r0, hv0⟩ : ∃ c r, v = c :: r := by cases v with | nil => exact absurd rfl hne | cons c r => exact ⟨c, r, rfl⟩
  have hc0 : isBlank c0 = false := by rw [hv0] at hhead; exact (head_facts hhead).1
  have hheadsp : v.head? ≠ some ' ' := by
    rw [hv0]; simp only [List.head?_cons, ne_eq, Option.some.injEq]
    intro e; subst e; revert hc0; decide
  let N := blockCols o (posCtx o p)
  obtain ⟨segs, hfold, hjoin, hsne, hsegs⟩ := foldLine_spec v (spaces N) o.foldedWrap hne hheadsp
  have hsegchars : ∀ e ∈ segs, ∀ c ∈ e, isControl c = false := by
    intro e he c hc
    have := joinSp_mem segs e he c hc
    rw [hjoin] at this
    exact (hsafe c this).1
  have htrim : trimEndNl v = v := trimEndNl_no_nl v hne hnonl
  have hfls : firstLineLeadingSpaces v = 0 := by
    unfold firstLineLeadingSpaces
    rw [splitNl_single v hnonl, firstLineLeadingSpaces.go]
    have : v.isEmpty = false := by rw [hv0]; rfl
    rw [this]
    simp only [Bool.not_false, if_true]
    rw [hv0]
    have : (c0 == ' ') = false := by
      apply Bool.eq_false_iff.mpr; intro e; have := eq_of_beq e; subst this; revert hc0; decide
    simp [List.takeWhile, this]
  have hni : needsInd v = false := by simp [needsInd, htrim, hfls]
  have hhdr : blockHeaderTail o (posCtx o p) v = ['-'] := by
    simp [blockHeaderTail, hni, htrim, chompInd]
  let T := '>' :: (['-'] ++ '\n' :: joinLines (segs.map (spaces N ++ ·)))
  have hser : serializeStr o (posCtx o p) v =
      .ok (spOf (posCtx o p) ++ writeIndent o (posCtx o p) (blockBase (posCtx o p)) ++ T) := by
    unfold serializeStr
    rw [hinflow, hauto]
    simp only [hnf, Bool.false_eq_true, if_false]
    rw [writeFoldedBlock_single v _ _ _ hnonl]
    rw [show spaces (1 * blockCols o (posCtx o p)) = spaces N by simp [N]]
    rw [hfold]
    simp [spOf, T, hhdr]
  have hemit := emit_of_block o p hkey hflow v T (blockBase (posCtx o p)) (by intro e; subst e; rfl) hser
  refine ⟨_, hemit, ?_⟩
  have hlines : ∀ l ∈ segs.map (spaces N ++ ·), ∀ c ∈ l, c ≠ '\n' ∧ c ≠ '\r' := by
    intro l hl c hc
    simp only [List.mem_map] at hl
    obtain ⟨e, he, rfl⟩ := hl
    simp only [List.mem_append] at hc
    rcases hc with hc | hc
    · have : c = ' ' := by simp [spaces] at hc; exact hc.2
      subst this; exact ⟨by decide, by decide⟩
    · obtain ⟨_, hb, _⟩ := not_control_facts (hsegchars e he c hc)
      simp only [isBreak, Bool.or_eq_false_iff] at hb
      exact ⟨by simpa using hb.1, by simpa using hb.2⟩
  have hhdrc : ∀ c ∈ ['-'], isBreak c = false ∧ isNul c = false := by decide
  have hnode := readNode_block (toRead p) hclosing hflow false ['-'] (segs.map (spaces N ++ ·))
    (posCol0 (toRead p)) (posParentO o (toRead p)) hhdrc hlines
  have hsegs2 : ∀ e ∈ segs, e ≠ [] ∧ headSat isBlank e = false := by
    intro e he
    obtain ⟨h1, h2⟩ := hsegs e he
    refine ⟨h1, ?_⟩
    cases e with
    | nil => exact absurd rfl h1
    | cons a r =>
      have hctl := hsegchars (a :: r) he a (by simp)
      obtain ⟨hnt, _, _⟩ := not_control_facts hctl
      simp only [headSat, isBlank, Bool.or_eq_false_iff]
      exact ⟨by simpa using h2, by simpa using hnt⟩
  have hns : firstNonEmptyNoSpace segs = true := by
    cases segs with
    | nil => exact absurd rfl hsne
    | cons e r =>
      obtain ⟨h1, h2⟩ := hsegs e (by simp)
      have : e.isEmpty = false := by cases e with | nil => exact absurd rfl h1 | cons a b => rfl
      simp [firstNonEmptyNoSpace, this, h2]
  have hex : ∃ l ∈ segs, l ≠ [] := by
    cases segs with
    | nil => exact absurd rfl hsne
    | cons e r => exact ⟨e, by simp, (hsegs e (by simp)).1⟩
  have hind : blockIndent (posParentO o (toRead p)) 0 (segs.map (spaces N ++ ·)) = N := by
    simp only [blockIndent, Nat.lt_irrefl, if_false]
    have := detectIndent_auto N segs [] hex hns 0 (by omega)
    rw [List.append_nil] at this
    rw [this]
    have := hgeoA hni
    omega
  have htab : firstLineTab (segs.map (spaces N ++ ·)) = false := by
    cases segs with
    | nil => exact absurd rfl hsne
    | cons e r =>
      simp only [List.map_cons, firstLineTab]
      cases hN' : N with
      | zero => omega
      | succ n => simp [spaces, List.replicate_succ, headSat]
  have hread : readBlock false (posParentO o (toRead p)) ['-'] (segs.map (spaces N ++ ·)) = some (v, []) := by
    unfold readBlock
    have hph : parseHeader ['-'] = some (.strip, 0) := by decide
    rw [hph]
    simp only [htab, Bool.false_eq_true, if_false, hind]
    rw [blockBody_fold N hN segs hsegs2 true [] hsne]
    simp [chompTail, hjoin]
  rw [hread] at hnode
  have hnul : T.any isNul = false := by
    have h3 : (joinLines (segs.map (spaces N ++ ·))).any isNul = false := by
      apply Bool.eq_false_iff.mpr
      intro hc
      obtain ⟨c, hcm, hcn⟩ := List.any_eq_true.mp hc
      simp only [joinLines, List.mem_flatMap, List.mem_append, List.mem_singleton, List.mem_map] at hcm
      obtain ⟨l, ⟨e, he, rfl⟩, hcm⟩ := hcm
      rcases hcm with hcm | e1
      · simp only [List.mem_append] at hcm
        rcases hcm with hcm | hcm
        · have : c = ' ' := by simp [spaces] at hcm; exact hcm.2
          subst this; revert hcn; decide
        · rw [(not_control_facts (hsegchars e he c hcm)).2.2] at hcn; cases hcn
      · subst e1; revert hcn; decide
    simp only [T, List.any_append, List.any_cons, h3]
    decide
  show readDoc (toRead p) (preamble o ++ (openingO o (toRead p) ++ '>' :: (['-'] ++ '\n' :: joinLines (segs.map (spaces N ++ ·))))) = _
  rw [readDoc_open o (toRead p) hstep '>' _ (by decide) (by decide) (by decide) hnul]
  simp only [Bool.false_eq_true, if_false] at hnode
  simp only [hnode, Option.bind_some, onlyTrailers, List.all_nil, if_true]

end SaphyrVerif.Lemmas.C12
