import SaphyrVerif.Lemmas.C05_MapLoop
/-!
Helper lemmas for C05, part 12: field lookup, `structFinish`, the derived struct visitor `structEntries`,
and `deserMapLike` at any node.
-/
namespace SaphyrVerif.Lemmas.C05
open SaphyrVerif SaphyrVerif.Scalars SaphyrVerif.Pump SaphyrVerif.De SaphyrVerif.Spec

/-! ### field lookup -/

theorem fieldFns_nil (cfg : Cfg) : fieldFns cfg [] = [] := by rw [fieldFns]
theorem fieldFns_cons (cfg : Cfg) (n : String) (t : Ty) (rest : List (String × Ty)) :
    fieldFns cfg ((n, t) :: rest) = (n, isOptionTy t, interp cfg t) :: fieldFns cfg rest := by rw [fieldFns]

theorem eq_ofList_of_toList {s : String} {l : List Char} (h : s.toList = l) : s = String.ofList l := by
  subst h; simp

theorem lookupField_go_fieldFns (cfg : Cfg) (name : List Char) (fields : List (String × Ty)) (i : Nat) :
    match lookupField.go name fields i with
    | some (_, t) => (fieldFns cfg fields).find? (fun f => f.1.toList == name) =
        some (String.ofList name, isOptionTy t, interp cfg t) ∧ (String.ofList name, t) ∈ fields
    | none => (fieldFns cfg fields).find? (fun f => f.1.toList == name) = none := by
  induction fields generalizing i with
  | nil => simp [lookupField.go, fieldFns_nil]
  | cons f rest ih =>
    obtain ⟨n, t⟩ := f
    simp only [lookupField.go, fieldFns_cons, List.find?_cons]
    by_cases h : (n.toList == name) = true
    · have hn : n = String.ofList name := eq_ofList_of_toList (by simpa using h)
      simp [hn]
    · simp only [h, Bool.false_eq_true, if_false]
      have := ih (i + 1)
      cases hg : lookupField.go name rest (i + 1) with
      | none => simp only [hg] at this ⊢; exact this
      | some p =>
        simp only [hg] at this ⊢
        exact ⟨this.1, List.mem_cons_of_mem _ this.2⟩

theorem lookupField_fieldFns (cfg : Cfg) (name : List Char) (fields : List (String × Ty)) :
    match lookupField fields name with
    | some (_, t) => (fieldFns cfg fields).find? (fun f => f.1.toList == name) =
        some (String.ofList name, isOptionTy t, interp cfg t) ∧ (String.ofList name, t) ∈ fields
    | none => (fieldFns cfg fields).find? (fun f => f.1.toList == name) = none :=
  lookupField_go_fieldFns cfg name fields 0

/-! ### `structFinish` -/

theorem fill_spec (cfg : Cfg) (got : List (String × Val)) (fields : List (String × Ty)) (acc : List (String × Val)) :
    match fillFields (fieldFns cfg fields) got with
    | some r => structFinish.fill got fields acc = .ok (acc ++ r)
    | none => ∃ e, structFinish.fill got fields acc = .error e := by
  induction fields generalizing acc with
  | nil => simp [fieldFns_nil, fillFields, structFinish.fill]
  | cons f rest ih =>
    obtain ⟨n, t⟩ := f
    simp only [fieldFns_cons, fillFields, structFinish.fill]
    cases hf : got.find? (fun p => p.1 == n) with
    | some p =>
      simp only []
      have := ih (acc ++ [p])
      cases hr : fillFields (fieldFns cfg rest) got with
      | none => simp only [hr] at this ⊢; exact this
      | some r => simp only [hr] at this ⊢; rw [this]; simp
    | none =>
      simp only []
      cases t with
      | option t' =>
        have := ih (acc ++ [(n, Val.none)])
        cases hr : fillFields (fieldFns cfg rest) got with
        | none => simp only [hr] at this ⊢; exact this
        | some r => simp only [hr, isOptionTy, if_true] at this ⊢; rw [this]; simp
      | _ =>
        cases hr : fillFields (fieldFns cfg rest) got <;> simp [isOptionTy]

theorem structFinish_spec (cfg : Cfg) (fields : List (String × Ty)) (got : List (String × Val)) (c : Cur) :
    Expect (structFinish fields got c) ((fillFields (fieldFns cfg fields) got).map .struct) c := by
  have := fill_spec cfg got fields []
  simp only [structFinish]
  cases hr : fillFields (fieldFns cfg fields) got with
  | none =>
    simp only [hr] at this
    obtain ⟨e, he⟩ := this
    simp [he]
  | some r =>
    simp only [hr, List.nil_append] at this
    simp [this]

/-! ### the derived struct visitor -/

theorem structEntries_step (fuel : Nat) (cfg : Cfg) (fields : List (String × Ty)) (deny : Bool) (c : Cur) (m : MA)
    (acc : List (String × Val)) :
    structEntries (fuel + 1) cfg fields deny c m acc =
      match nextKey fuel cfg (.inr ()) c m with
      | .err e c => .err e c
      | .ok (.done, _) c => .ok acc c
      | .ok (.key (.str name) _, m) c =>
        match lookupField fields name with
        | some (_, t) =>
          if acc.any (fun p => p.1 == String.ofList name) then .err (serdeErr "duplicate_field") c
          else
            match nextValue fuel cfg t c m with
            | .err e c => .err e c
            | .ok (v, m) c => structEntries fuel cfg fields deny c m (acc ++ [(String.ofList name, v)])
        | none =>
          if deny then .err (serdeErr "unknown_field") c
          else
            match nextValue fuel cfg .any c m with
            | .err e c => .err e c
            | .ok (_, m) c => structEntries fuel cfg fields deny c m acc
      | .ok (.key _ _, _) c => .err ⟨"ModelMisuse", 0, 0⟩ c := by
  rw [structEntries]; rfl

theorem fieldEntriesFrom_cons (cfg : Cfg) (fs : FieldFns) (deny : Bool) (k v : ENode) (es : List (ENode × ENode))
    (acc : List (String × Val)) :
    fieldEntriesFrom cfg fs deny ((k, v) :: es) acc =
      match identOf cfg k with
      | none => none
      | some name =>
        match fs.find? (fun f => f.1.toList == name) with
        | some (fname, _, vf) =>
          if acc.any (fun p => p.1 == fname) then none
          else match vf v with
            | none => none
            | some val => fieldEntriesFrom cfg fs deny es (acc ++ [(fname, val)])
        | none =>
          if deny then none
          else match interpAny cfg (depthOf v) v with
            | none => none
            | some _ => fieldEntriesFrom cfg fs deny es acc := by
  simp only [fieldEntriesFrom]; rfl

theorem structEntries_spec (X : MCtx) (cfg : Cfg) (df : Bool) (fields : List (String × Ty)) (deny : Bool) (d : Nat)
    (hV : ∀ e, EntOK d e → ∀ nt ∈ fields, Ref df cfg nt.2 e.2) (hAny : ∀ e, EntOK d e → Ref df cfg .any e.2) :
    ∀ (st : ASt) (seen : List FP) (m : MA) (c : Cur), st.OK d → Rel X st seen m c →
      ∃ n, ∀ fuel, n ≤ fuel → ∀ acc,
        LoopOut X df ((remaining cfg.dup st seen).bind (fun es => fieldEntriesFrom cfg (fieldFns cfg fields) deny es acc))
          (structEntries fuel cfg fields deny c m acc) := by
  intro st
  induction st using ASt.wf_induction with
  | h st ih =>
    intro seen m c hok hrel
    have hnk := nextKey_spec X cfg (.inr ()) (identFn cfg) d (fun e _ => keyRef_ident cfg e.1) seen st m c hok hrel
    rw [remaining_step]
    cases hstep : nextStep cfg.dup st seen with
    | fail =>
      rw [hstep] at hnk
      obtain ⟨n, hn⟩ := hnk
      refine ⟨n + 1, fun fuel hf acc => ?_⟩
      obtain ⟨fuel, rfl⟩ : ∃ f, fuel = f + 1 := ⟨fuel - 1, by omega⟩
      obtain ⟨e, c', he⟩ := hn fuel (by omega)
      rw [structEntries_step, he]
      exact Or.inl (by simp)
    | done =>
      rw [hstep] at hnk
      obtain ⟨n, m', hn⟩ := hnk
      refine ⟨n + 1, fun fuel hf acc => ?_⟩
      obtain ⟨fuel, rfl⟩ : ∃ f, fuel = f + 1 := ⟨fuel - 1, by omega⟩
      rw [structEntries_step, hn fuel (by omega)]
      simp [fieldEntriesFrom, LoopOut]
    | deliver k v st' =>
      rw [hstep] at hnk
      simp only [NKOut] at hnk
      obtain ⟨hent, hok'⟩ := nextStep_ok hok hstep
      have hlt := nextStep_lt hstep
      simp only []
      -- the expected value, entry by entry
      have hexp : ∀ acc, ((remaining cfg.dup st' (fpOf k :: seen)).map ((k, v) :: ·)).bind
          (fun es => fieldEntriesFrom cfg (fieldFns cfg fields) deny es acc) =
          (remaining cfg.dup st' (fpOf k :: seen)).bind
            (fun es => fieldEntriesFrom cfg (fieldFns cfg fields) deny ((k, v) :: es) acc) := by
        intro acc; cases remaining cfg.dup st' (fpOf k :: seen) <;> rfl
      cases hid : identOf cfg k with
      | none =>
        have hk : identFn cfg k = none := by simp [identFn, hid]
        simp only [hk] at hnk
        obtain ⟨n, hn⟩ := hnk
        refine ⟨n + 1, fun fuel hf acc => ?_⟩
        obtain ⟨fuel, rfl⟩ : ∃ f, fuel = f + 1 := ⟨fuel - 1, by omega⟩
        obtain ⟨e, c', he⟩ := hn fuel (by omega)
        rw [structEntries_step, he, hexp]
        have : (remaining cfg.dup st' (fpOf k :: seen)).bind
            (fun es => fieldEntriesFrom cfg (fieldFns cfg fields) deny ((k, v) :: es) acc) = none := by
          cases remaining cfg.dup st' (fpOf k :: seen) <;> simp [fieldEntriesFrom_cons, hid]
        rw [this]
        exact Or.inl (by simp)
      | some name =>
        have hk : identFn cfg k = some (.str name) := by simp [identFn, hid]
        simp only [hk] at hnk
        obtain ⟨n1, m1, c1, hrelv, hn1⟩ := hnk
        have hlook := lookupField_fieldFns cfg name fields
        -- reading the value at type `t`, then continuing with `acc'`
        have hvalue : ∀ (t : Ty), Ref df cfg t v → ∀ (cont : Val → List (String × Val) → List (String × Val)),
            ∃ n, ∀ fuel, n ≤ fuel → ∀ acc,
              LoopOut X df ((interp cfg t v).bind fun val => (remaining cfg.dup st' (fpOf k :: seen)).bind
                (fun es => fieldEntriesFrom cfg (fieldFns cfg fields) deny es (cont val acc)))
              (match nextValue fuel cfg t c1 m1 with
                | .err e c => .err e c
                | .ok (val, m) c => structEntries fuel cfg fields deny c m (cont val acc)) := by
          intro t href cont
          have hnv := nextValue_spec X cfg df t hrelv href
          cases hv : interp cfg t v with
          | none =>
            simp only [hv] at hnv
            obtain ⟨n2, hn2⟩ := hnv
            refine ⟨n2, fun fuel hf acc => ?_⟩
            simp only [Option.bind_none]
            rcases hn2 fuel hf with ⟨e, c', he⟩ | ⟨hd, val, m2, j, he, hcont⟩
            · rw [he]; exact Or.inl (by simp)
            · rw [he]
              simp only []
              cases hres : structEntries fuel cfg fields deny (.replay X.buf j X.ref) m2 (cont val acc) with
              | err e c' => exact Or.inl (by simp)
              | ok got c' =>
                obtain ⟨j', rfl, h1, h2⟩ := hcont _ (structEntries_weak hres)
                exact Or.inr ⟨hd, got, j', rfl, h1, h2⟩
          | some val =>
            simp only [hv] at hnv
            obtain ⟨n2, m2, c2, hrel2, hn2⟩ := hnv
            obtain ⟨n3, hn3⟩ := ih st' hlt (fpOf k :: seen) m2 c2 hok' hrel2
            refine ⟨max n2 n3, fun fuel hf acc => ?_⟩
            simp only [hn2 fuel (by omega), Option.bind_some]
            exact hn3 fuel (by omega) (cont val acc)
        cases hl : lookupField fields name with
        | some p =>
          obtain ⟨idx, t⟩ := p
          simp only [hl] at hlook
          obtain ⟨hfind, hmem⟩ := hlook
          obtain ⟨n2, hn2⟩ := hvalue t (hV (k, v) hent _ hmem) (fun val acc => acc ++ [(String.ofList name, val)])
          refine ⟨max n1 n2 + 1, fun fuel hf acc => ?_⟩
          obtain ⟨fuel, rfl⟩ : ∃ f, fuel = f + 1 := ⟨fuel - 1, by omega⟩
          rw [structEntries_step, hn1 fuel (by omega), hexp]
          simp only [hl]
          have hE : (remaining cfg.dup st' (fpOf k :: seen)).bind
              (fun es => fieldEntriesFrom cfg (fieldFns cfg fields) deny ((k, v) :: es) acc) =
              if acc.any (fun p => p.1 == String.ofList name) then none
              else (interp cfg t v).bind fun val => (remaining cfg.dup st' (fpOf k :: seen)).bind
                (fun es => fieldEntriesFrom cfg (fieldFns cfg fields) deny es (acc ++ [(String.ofList name, val)])) := by
            cases remaining cfg.dup st' (fpOf k :: seen) with
            | none => cases interp cfg t v <;> simp
            | some es =>
              simp only [Option.bind_some, fieldEntriesFrom_cons, hid, hfind]
              split
              · rfl
              · cases interp cfg t v <;> rfl
          rw [hE]
          by_cases hdup : acc.any (fun p => p.1 == String.ofList name) = true
          · simp only [hdup, if_true]
            exact Or.inl (by simp)
          · simp only [hdup, Bool.false_eq_true, if_false]
            exact hn2 fuel (by omega) acc
        | none =>
          simp only [hl] at hlook
          obtain ⟨n2, hn2⟩ := hvalue .any (hAny (k, v) hent) (fun _ acc => acc)
          refine ⟨max n1 n2 + 1, fun fuel hf acc => ?_⟩
          obtain ⟨fuel, rfl⟩ : ∃ f, fuel = f + 1 := ⟨fuel - 1, by omega⟩
          rw [structEntries_step, hn1 fuel (by omega), hexp]
          simp only [hl]
          have hE : (remaining cfg.dup st' (fpOf k :: seen)).bind
              (fun es => fieldEntriesFrom cfg (fieldFns cfg fields) deny ((k, v) :: es) acc) =
              if deny then none
              else (interp cfg .any v).bind fun _ => (remaining cfg.dup st' (fpOf k :: seen)).bind
                (fun es => fieldEntriesFrom cfg (fieldFns cfg fields) deny es acc) := by
            rw [interp_any]
            cases remaining cfg.dup st' (fpOf k :: seen) with
            | none => cases interpAny cfg (depthOf v) v <;> simp
            | some es =>
              simp only [Option.bind_some, fieldEntriesFrom_cons, hid, hlook]
              split
              · rfl
              · cases interpAny cfg (depthOf v) v <;> rfl
          rw [hE]
          cases deny with
          | true => simp only [if_true]; exact Or.inl (by simp)
          | false =>
            simp only [Bool.false_eq_true, if_false]
            exact hn2 fuel (by omega) acc

/-! ### `deserMapLike` at any node -/

theorem deserMapLike_mapStart {buf : List Ev} {i : Nat} (ref : Option Loc) {a : Nat} {l : Loc} {tl : List Ev} (fuel : Nat)
    (cfg : Cfg) (shape : (Ty × Ty) ⊕ (List (String × Ty) × Bool)) (h : buf.drop i = .mapStart a l :: tl) :
    deserMapLike (fuel + 1) cfg shape (.replay buf i ref) =
      match shape with
      | .inl (k, v) =>
        match mapEntries fuel cfg k v (.replay buf (i + 1) ref) {} [] with
        | .err e c => .err e c
        | .ok es c => .ok (.map es) c
      | .inr (fields, deny) =>
        match structEntries fuel cfg fields deny (.replay buf (i + 1) ref) {} [] with
        | .err e c => .err e c
        | .ok got c => structFinish fields got c := by
  rw [deserMapLike]
  simp only [peek_cons ref h, next_cons ref h]
  rfl

theorem deserMapLike_seqStart {buf : List Ev} {i : Nat} (ref : Option Loc) {a tag : Nat} {rt : Option (List Char)} {l : Loc}
    {tl : List Ev} (fuel : Nat) (cfg : Cfg) (shape : (Ty × Ty) ⊕ (List (String × Ty) × Bool))
    (h : buf.drop i = .seqStart a tag rt l :: tl) : IsErr (deserMapLike fuel cfg shape (.replay buf i ref)) := by
  cases fuel with
  | zero => rw [deserMapLike]; simp
  | succ fuel => rw [deserMapLike]; simp [peek_cons ref h, next_cons ref h]

theorem deserMapLike_scalar {buf : List Ev} {i : Nat} (ref : Option Loc) {v : List Char} {tag : Nat} {rt : Option (List Char)}
    {st : Style} {a : Nat} {l : Loc} {tl : List Ev} (fuel : Nat) (cfg : Cfg)
    (shape : (Ty × Ty) ⊕ (List (String × Ty) × Bool)) (h : buf.drop i = .scalar v tag rt st a l :: tl) :
    deserMapLike (fuel + 1) cfg shape (.replay buf i ref) =
      if tag == tagNull || scalarIsNullish v st then
        match shape with
        | .inl _ => .ok (.map []) (.replay buf (i + 1) ref)
        | .inr (fields, _) => structFinish fields [] (.replay buf (i + 1) ref)
      else .err ⟨"Unexpected", l, 0⟩ (.replay buf (i + 1) ref) := by
  rw [deserMapLike]
  simp only [peek_cons ref h, next_cons ref h]
  split <;> rfl

theorem interp_map_map (cfg : Cfg) (kt vt : Ty) (a : Nat) (l el : Loc) (entries : List (ENode × ENode)) :
    interp cfg (.map kt vt) (.map a l el entries) =
      ((effEntries cfg.dup entries).bind (pairsFrom (keyFn cfg kt) (interp cfg vt))).map .map := by
  rw [interp]
  simp only []
  cases effEntries cfg.dup entries <;> rfl

theorem interp_map_scalar (cfg : Cfg) (kt vt : Ty) (v : List Char) (tag : Nat) (rt : Option (List Char)) (st : Style)
    (a : Nat) (l : Loc) :
    interp cfg (.map kt vt) (.scalar v tag rt st a l) =
      if tag == tagNull || scalarIsNullish v st then some (.map []) else none := by
  rw [interp]; rfl

theorem interp_map_seq (cfg : Cfg) (kt vt : Ty) (a tag : Nat) (rt : Option (List Char)) (l el : Loc) (items : List ENode) :
    interp cfg (.map kt vt) (.seq a tag rt l el items) = none := by rw [interp]

/-- the initial state of a map access on the mapping at index `i` -/
theorem rel_init {buf : List Ev} {i : Nat} (ref : Option Loc) {a : Nat} {l el : Loc} {entries : List (ENode × ENode)}
    {rest : List Ev} (h : buf.drop i = eflatten (.map a l el entries) ++ rest) :
    Rel ⟨buf, ref, i, i + (eflatten (.map a l el entries)).length⟩ (.live entries []) [] {}
      (.replay buf (i + 1) ref) := by
  refine ⟨i + 1, rfl, Nat.lt_succ_self _, ⟨el, rest, drop_succ_of_drop (drop_map h)⟩, ?_, rfl, rfl, PRel.nil, rfl⟩
  simp; omega

/-- a `HashMap<K, V>` at any node -/
theorem mapLike_inl {cfg : Cfg} {df : Bool} {kt vt : Ty} {t : ENode} (hk : kfree t = true)
    (hK : ∀ e, EntOK (depthOf t) e → KeyRef cfg (.inl kt) (keyFn cfg kt) e.1)
    (hV : ∀ e, EntOK (depthOf t) e → Ref df cfg vt e.2)
    {buf : List Ev} {i : Nat} (ref : Option Loc) {rest : List Ev} (h : buf.drop i = eflatten t ++ rest) :
    ∃ n, ∀ fuel, n ≤ fuel →
      NodeOut buf ref i (eflatten t).length df (interp cfg (.map kt vt) t)
        (deserMapLike fuel cfg (.inl (kt, vt)) (.replay buf i ref)) := by
  cases t with
  | scalar v tag rt st a l =>
    refine ⟨1, fun fuel hf => ?_⟩
    obtain ⟨fuel, rfl⟩ : ∃ f, fuel = f + 1 := ⟨fuel - 1, by omega⟩
    rw [deserMapLike_scalar ref fuel cfg _ (drop_scalar h), interp_map_scalar]
    apply NodeOut.of_expect
    split <;> simp
  | seq a tag rt l el items =>
    refine ⟨0, fun fuel _ => ?_⟩
    rw [interp_map_seq]
    exact NodeOut.of_err (deserMapLike_seqStart ref fuel cfg _ (drop_seq h))
  | map a l el entries =>
    simp only [kfree_map] at hk
    simp only [depthOf_map] at hK hV
    obtain ⟨n, hn⟩ := mapEntries_spec ⟨buf, ref, i, i + (eflatten (.map a l el entries)).length⟩ cfg df kt vt _ hK hV
      (.live entries []) [] {} _ ⟨allOK_of_kfreeE hk, AllOK.nil _⟩ (rel_init ref h)
    refine ⟨n + 1, fun fuel hf => ?_⟩
    obtain ⟨fuel, rfl⟩ : ∃ f, fuel = f + 1 := ⟨fuel - 1, by omega⟩
    rw [deserMapLike_mapStart ref fuel cfg _ (drop_map h), interp_map_map, ← remaining_init]
    have := hn fuel (by omega) []
    simp only []
    cases hexp : (remaining cfg.dup (.live entries []) []).bind (pairsFrom (keyFn cfg kt) (interp cfg vt)) with
    | some ps =>
      simp only [hexp, Option.map_some, List.nil_append, LoopOut] at this
      rw [this]; rfl
    | none =>
      simp only [hexp, Option.map_none, LoopOut] at this
      rcases this with ⟨e, c, he⟩ | ⟨hd, es, j, he, h1, h2⟩
      · rw [he]; exact NodeOut.of_err (by simp)
      · rw [he]; exact NodeOut.deficit hd h1 h2

theorem ref_map {cfg : Cfg} {df : Bool} {kt vt : Ty} {t : ENode} (hk : kfree t = true)
    (hK : ∀ e, EntOK (depthOf t) e → KeyRef cfg (.inl kt) (keyFn cfg kt) e.1)
    (hV : ∀ e, EntOK (depthOf t) e → Ref df cfg vt e.2) : Ref df cfg (.map kt vt) t := by
  intro buf i ref rest h
  obtain ⟨n, hn⟩ := mapLike_inl hk hK hV ref h
  refine ⟨n + 1, fun fuel hf => ?_⟩
  obtain ⟨fuel, rfl⟩ : ∃ f, fuel = f + 1 := ⟨fuel - 1, by omega⟩
  rw [deser]
  exact hn fuel (by omega)

theorem structNode_map (cfg : Cfg) (fs : FieldFns) (deny : Bool) (a : Nat) (l el : Loc) (entries : List (ENode × ENode)) :
    structNode cfg fs deny (.map a l el entries) =
      ((effEntries cfg.dup entries).bind (fun es => fieldEntriesFrom cfg fs deny es [])).bind
        (fun got => (fillFields fs got).map .struct) := by
  simp only [structNode, structFrom]
  cases effEntries cfg.dup entries with
  | none => rfl
  | some es =>
    simp only [Option.bind_some]
    cases fieldEntriesFrom cfg fs deny es [] <;> rfl

theorem structNode_scalar (cfg : Cfg) (fs : FieldFns) (deny : Bool) (v : List Char) (tag : Nat) (rt : Option (List Char))
    (st : Style) (a : Nat) (l : Loc) :
    structNode cfg fs deny (.scalar v tag rt st a l) =
      if tag == tagNull || scalarIsNullish v st then (fillFields fs []).map .struct else none := by
  simp only [structNode, structFrom, isNullScalar, fieldEntriesFrom]; rfl

/-- a struct at any node (also the payload of a struct variant) -/
theorem mapLike_inr {cfg : Cfg} {df : Bool} {fields : List (String × Ty)} {deny : Bool} {t : ENode} (hk : kfree t = true)
    (hV : ∀ e, EntOK (depthOf t) e → ∀ nt ∈ fields, Ref df cfg nt.2 e.2)
    (hAny : ∀ e, EntOK (depthOf t) e → Ref df cfg .any e.2)
    {buf : List Ev} {i : Nat} (ref : Option Loc) {rest : List Ev} (h : buf.drop i = eflatten t ++ rest) :
    ∃ n, ∀ fuel, n ≤ fuel →
      NodeOut buf ref i (eflatten t).length df (structNode cfg (fieldFns cfg fields) deny t)
        (deserMapLike fuel cfg (.inr (fields, deny)) (.replay buf i ref)) := by
  cases t with
  | scalar v tag rt st a l =>
    refine ⟨1, fun fuel hf => ?_⟩
    obtain ⟨fuel, rfl⟩ : ∃ f, fuel = f + 1 := ⟨fuel - 1, by omega⟩
    rw [deserMapLike_scalar ref fuel cfg _ (drop_scalar h), structNode_scalar]
    apply NodeOut.of_expect
    split
    · simpa using structFinish_spec cfg fields [] (.replay buf (i + 1) ref)
    · simp
  | seq a tag rt l el items =>
    refine ⟨0, fun fuel _ => ?_⟩
    exact NodeOut.of_err (deserMapLike_seqStart ref fuel cfg _ (drop_seq h))
  | map a l el entries =>
    simp only [kfree_map] at hk
    simp only [depthOf_map] at hV hAny
    obtain ⟨n, hn⟩ := structEntries_spec ⟨buf, ref, i, i + (eflatten (.map a l el entries)).length⟩ cfg df fields deny _
      hV hAny (.live entries []) [] {} _ ⟨allOK_of_kfreeE hk, AllOK.nil _⟩ (rel_init ref h)
    refine ⟨n + 1, fun fuel hf => ?_⟩
    obtain ⟨fuel, rfl⟩ : ∃ f, fuel = f + 1 := ⟨fuel - 1, by omega⟩
    rw [deserMapLike_mapStart ref fuel cfg _ (drop_map h), structNode_map, ← remaining_init]
    have := hn fuel (by omega) []
    simp only []
    cases hexp : (remaining cfg.dup (.live entries []) []).bind
        (fun es => fieldEntriesFrom cfg (fieldFns cfg fields) deny es []) with
    | some got =>
      simp only [hexp, LoopOut] at this
      rw [this]
      simp only [Option.bind_some]
      exact NodeOut.of_expect (structFinish_spec cfg fields got _)
    | none =>
      simp only [hexp, LoopOut] at this
      simp only [Option.bind_none]
      rcases this with ⟨e, c, he⟩ | ⟨hd, got, j, he, h1, h2⟩
      · rw [he]; exact NodeOut.of_err (by simp)
      · rw [he]
        simp only [structFinish]
        cases structFinish.fill got fields [] with
        | error e => exact NodeOut.of_err (by simp)
        | ok fs => exact NodeOut.deficit hd h1 h2

theorem ref_struct {cfg : Cfg} {df : Bool} {fields : List (String × Ty)} {deny : Bool} {t : ENode} (hk : kfree t = true)
    (hV : ∀ e, EntOK (depthOf t) e → ∀ nt ∈ fields, Ref df cfg nt.2 e.2)
    (hAny : ∀ e, EntOK (depthOf t) e → Ref df cfg .any e.2) : Ref df cfg (.struct fields deny) t := by
  intro buf i ref rest h
  obtain ⟨n, hn⟩ := mapLike_inr (deny := deny) hk hV hAny ref h
  refine ⟨n + 1, fun fuel hf => ?_⟩
  obtain ⟨fuel, rfl⟩ : ∃ f, fuel = f + 1 := ⟨fuel - 1, by omega⟩
  rw [deser, interp]
  exact hn fuel (by omega)

/-! ### the untyped target -/

theorem keyFn_any (cfg : Cfg) : keyFn cfg .any = interp cfg .any := by
  funext k; simp [keyFn, isOptionKeyTy]

theorem ref_any {cfg : Cfg} {df : Bool} {t : ENode} (hk : kfree t = true)
    (hsub : ∀ t', depthOf t' < depthOf t → kfree t' = true → Ref df cfg .any t') : Ref df cfg .any t := by
  intro buf i ref rest h
  cases t with
  | scalar v tag rt st a l =>
    refine ⟨1, fun fuel hf => ?_⟩
    obtain ⟨fuel, rfl⟩ : ∃ f, fuel = f + 1 := ⟨fuel - 1, by omega⟩
    have h' := drop_scalar h
    rw [deser, interp_any_scalar]
    simp only [peek_cons ref h']
    exact NodeOut.of_expect (by simpa using deserAnyScalar_scalar ref cfg h')
  | seq a tag rt l el items =>
    simp only [kfree_seq] at hk
    have hsub' : ∀ a' tag' rt' l' el' items', ENode.seq a tag rt l el items = .seq a' tag' rt' l' el' items' →
        ∀ it ∈ items', Ref df cfg .any it := by
      intro a' tag' rt' l' el' items' heq it hit
      injection heq with _ _ _ _ _ h6
      subst h6
      exact hsub it (by have := depthOfL_mem hit; simp; omega) (kfreeL_mem hk hit)
    obtain ⟨n, hn⟩ := seqLike_inl (te := .any) hsub' ref h
    refine ⟨n + 1, fun fuel hf => ?_⟩
    obtain ⟨fuel, rfl⟩ : ∃ f, fuel = f + 1 := ⟨fuel - 1, by omega⟩
    rw [deser, interp_any_seq cfg a tag rt l el items hk, ← interp_seq_seq]
    simp only [peek_cons ref (drop_seq h)]
    exact hn fuel (by omega)
  | map a l el entries =>
    have hk' : kfreeE entries = true := by simpa using hk
    obtain ⟨n, hn⟩ := mapLike_inl (kt := .any) (vt := .any) hk
      (fun e he => keyRef_ty (hsub e.1 he.1 he.2.2.1)) (fun e he => hsub e.2 he.2.1 he.2.2.2.1) ref h
    refine ⟨n + 1, fun fuel hf => ?_⟩
    obtain ⟨fuel, rfl⟩ : ∃ f, fuel = f + 1 := ⟨fuel - 1, by omega⟩
    rw [deser]
    simp only [peek_cons ref (drop_map h)]
    have := hn fuel (by omega)
    rw [interp_map_map, keyFn_any] at this
    rw [interp_any_map cfg a l el entries hk']
    cases hef : effEntries cfg.dup entries with
    | none => simpa [hef] using this
    | some es => simpa [hef] using this

end SaphyrVerif.Lemmas.C05
