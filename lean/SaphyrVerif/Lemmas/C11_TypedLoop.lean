import SaphyrVerif.Lemmas.C11_TypedDoc
/-!
Typed multi-document theorems (C11), part 9: the per-document specification `perDoc`, and what the batch
loop `multiLoop` does with one document.
-/
namespace SaphyrVerif.Lemmas.C11T
open SaphyrVerif SaphyrVerif.Scalars SaphyrVerif.Pump SaphyrVerif.De SaphyrVerif.Spec SaphyrVerif.Entry
open SaphyrVerif.Lemmas.C02 (Steps Good Post noFoldedIndent)
open SaphyrVerif.Lemmas.C11 (Boundary atDocStart atDocEnd)
open SaphyrVerif.Lemmas.Frame (Ctx FSim RF pos dep)

/-! ### the specification of one document, on its own -/

/-- what a document contributes -/
inductive DocRes where
  /-- the root is a null-like scalar: the document is skipped -/
  | skipped
  /-- the value, built from exactly the events of the document -/
  | clean (v : Val)
  /-- deserialization fails -/
  | failed
  /-- deserialization succeeds but stops before the end of the document -/
  | leftover (v : Val)
deriving Inhabited

/-- one document with (expansion) events `evs`, on its own: a null-like root scalar is skipped; otherwise the
typed deserializer is run on a replay cursor over `evs` — nothing else — with the fuel the entry points use -/
def perDoc (cfg : Cfg) (ty : Ty) (evs : List Ev) : DocRes :=
  let run : DocRes :=
    match deser (fuelFor 100000) cfg ty false false (.replay evs 0 none) with
    | .err _ _ => .failed
    | .ok v c =>
      match c.peek with
      | .ok none _ => .clean v
      | _ => .leftover v
  match evs.head? with
  | some (.scalar v _ _ st _ _) => if scalarIsNullish v st then .skipped else run
  | _ => run

/-! ### the end of a document -/

/-- a cursor that has served the whole document is a live cursor in front of the document-end marker; the
loops cannot tell it from the cursor just after that marker, which is at a document boundary -/
theorem doc_end {L : AliasLimits} {le : Loc} {X : List RawItem} {d : Cur}
    (h : LiveInvP L (.ev .docEnd le :: X) (AtEnd L (.ev .docEnd le :: X)) d []) :
    ∃ p2 q2, d = .live p2 (.ev .docEnd le :: X) ∧ Boundary L q2 ∧ q2.look = none ∧ q2.producedAny = true ∧
      Cur.peek d = Cur.peek (.live q2 X) := by
  obtain ⟨p2, inq, rfl, hst, hl, ⟨rfl, hg, hp⟩⟩ := liveInvP_nil h
  obtain ⟨hb, hpa⟩ := Lemmas.C11.boundary_atDocEnd hg hst.sade le
  rw [hst.lim] at hb
  have hl2 : (atDocEnd p2 le).look = none := hl
  exact ⟨p2, atDocEnd p2 le, rfl, hb, hl2, hpa.trans hp, peek_congr hl hl2 (Lemmas.C11.step_docEnd hg hst.sade le X)⟩

theorem multiLoop_congr (cfg : Cfg) (ty : Ty) {c c' : Cur} (h : c.peek = c'.peek) (fuel : Nat) (acc : List Val) :
    multiLoop cfg ty fuel c acc = multiLoop cfg ty fuel c' acc := by
  cases fuel with
  | zero => rfl
  | succ n => simp only [multiLoop, h]

/-! ### the batch loop inside a document -/

/-- strictly inside a document (after a deserialization that stopped early) the batch loop can only fail: every
round either fails, or leaves the cursor strictly inside again, until the container end of the root is met -/
theorem multi_inside {K : Ctx} (cfg : Cfg) (ty : Ty) : ∀ (m : Nat) (c d : Cur) (acc : List Val),
    FSim K c d → 1 ≤ dep K c → ∃ e, multiLoop cfg ty m d acc = .error e := by
  intro m
  induction m with
  | zero => intro c d acc _ _; exact ⟨_, rfl⟩
  | succ m ih =>
    intro c d acc hs hd
    have hin := hs.inside hd
    obtain ⟨e, d1, hb, hp, hp', hs1⟩ := hs.peek hin
    simp only [multiLoop, hp']
    have hdes : ∃ e, (match deser (fuelFor 100000) cfg ty false false d1 with
        | .err e _ => Except.error e
        | .ok v c => multiLoop cfg ty m c (acc ++ [v])) = .error e := by
      have hr := (Lemmas.Frame.frA K (fuelFor 100000)).deser cfg ty false false hs1 hin
      cases hL : deser (fuelFor 100000) cfg ty false false c with
      | err e1 c1 =>
        obtain ⟨e', d3, hR, -⟩ := hr.fwd_err hL
        rw [hR]
        exact ⟨_, rfl⟩
      | ok v c1 =>
        obtain ⟨v', d3, hR, rfl, hs3⟩ := hr.fwd_ok hL
        rw [hR]
        have hw := hs1.weak (k := 0) (fun i hi => by rw [hi] at hL; exact Lemmas.C05.deser_weak hL)
        exact ih c1 d3 _ hs3 (by omega)
    cases e with
    | scalar v tg rt st a l =>
      simp only []
      by_cases hn : scalarIsNullish v st = true
      · simp only [hn, if_true]
        obtain ⟨e2, c2, d2, hb2, hn2, hn2', hs2, hpos2, hdep2⟩ := hs1.next hin
        rw [hn2']
        have he : e2 = .scalar v tg rt st a l := by rw [hb] at hb2; exact (Option.some.inj hb2).symm
        subst he
        simp only [Lemmas.C05.Ev.delta, Int.add_zero] at hdep2
        exact ih c2 d2 acc hs2 (by omega)
      · simp only [hn, if_false, Bool.false_eq_true]
        exact hdes
    | seqStart a tg rt l => exact hdes
    | mapStart a l => exact hdes
    | seqEnd l => exact ⟨_, rfl⟩
    | mapEnd l => exact ⟨_, rfl⟩

/-- a deserialization that succeeds without consuming anything at the root makes the batch loop run out of
fuel (in the model) -/
theorem multi_stuck {K : Ctx} (cfg : Cfg) (ty : Ty) {c : Cur} {v : Val} {e0 : Ev}
    (hb : K.buf[pos c]? = some e0) (hin : pos c < K.buf.length)
    (hopen : Lemmas.C05.Ev.isOpen e0 = true)
    (hnn : ∀ s tg rt st a l, e0 = .scalar s tg rt st a l → scalarIsNullish s st = false)
    (hL : deser (fuelFor 100000) cfg ty false false c = .ok v c) : ∀ (m : Nat) (d : Cur) (acc : List Val),
    FSim K c d → ∃ e, multiLoop cfg ty m d acc = .error e := by
  intro m
  induction m with
  | zero => intro d acc _; exact ⟨_, rfl⟩
  | succ m ih =>
    intro d acc hs
    obtain ⟨e, d1, hb1, hp, hp', hs1⟩ := hs.peek hin
    have he : e = e0 := by rw [hb] at hb1; exact (Option.some.inj hb1).symm
    subst he
    simp only [multiLoop, hp']
    have hdes : ∃ e, (match deser (fuelFor 100000) cfg ty false false d1 with
        | .err e _ => Except.error e
        | .ok v c => multiLoop cfg ty m c (acc ++ [v])) = .error e := by
      have hr := (Lemmas.Frame.frA K (fuelFor 100000)).deser cfg ty false false hs1 hin
      obtain ⟨v', d3, hR, rfl, hs3⟩ := hr.fwd_ok hL
      rw [hR]
      exact ih d3 _ hs3
    cases e with
    | scalar s tg rt st a l =>
      simp only [hnn s tg rt st a l rfl, Bool.false_eq_true, if_false]
      exact hdes
    | seqStart a tg rt l => exact hdes
    | mapStart a l => exact hdes
    | seqEnd l => simp [Lemmas.C05.Ev.isOpen] at hopen
    | mapEnd l => simp [Lemmas.C05.Ev.isOpen] at hopen


/-- the outcome of the typed deserializer at the root of a good document, on the live cursor, in terms of
`perDoc` -/
theorem doc_deser {L : AliasLimits} {t : LNode} {evs : List Ev} (h : DocOk L t evs) (R : List RawItem) {d1 : Cur}
    (hI : (docCtx L R evs).Inv d1 evs) (cfg : Cfg) (ty : Ty) :
    RF (docCtx L R evs) Eq (deser (fuelFor 100000) cfg ty false false (.replay evs 0 none))
      (deser (fuelFor 100000) cfg ty false false d1) :=
  Lemmas.Frame.deser_frame (K := docCtx L R evs) (docCtx_ok h R) h.ne hI _ cfg ty false false

/-- the replay cursor of a frame relation at the end of the buffer / strictly inside -/
theorem fsim_peek_none {K : Ctx} {c d : Cur} (hs : FSim K c d) :
    (∃ c2, c.peek = .ok none c2) ↔ pos c = K.buf.length := by
  have heq := hs.eq
  have hle := hs.le
  generalize pos c = i at heq hle
  subst heq
  simp only [Cur.peek, R.ok.injEq, exists_and_left, exists_eq', and_true]
  rw [List.getElem?_eq_none_iff]
  omega

/-- what the batch loop does with one good document, in terms of `perDoc` -/
theorem multi_doc {L : AliasLimits} {t : LNode} {evs : List Ev} (h : DocOk L t evs) {q : Pump}
    (hq : Boundary L q) (hl : q.look = none) (ex : Bool) (ls le : Loc) (X : List RawItem) (cfg : Cfg) (ty : Ty) :
    match perDoc cfg ty evs with
    | .skipped => ∃ q2, Boundary L q2 ∧ q2.look = none ∧ q2.producedAny = true ∧ ∀ m acc,
        multiLoop cfg ty (m + 1) (.live q (.ev (.docStart ex) ls :: (itemsOf t ++ .ev .docEnd le :: X))) acc =
          multiLoop cfg ty m (.live q2 X) acc
    | .clean v => ∃ q2, Boundary L q2 ∧ q2.look = none ∧ q2.producedAny = true ∧ ∀ m acc,
        multiLoop cfg ty (m + 1) (.live q (.ev (.docStart ex) ls :: (itemsOf t ++ .ev .docEnd le :: X))) acc =
          multiLoop cfg ty m (.live q2 X) (acc ++ [v])
    | _ => ∀ m acc, ∃ e,
        multiLoop cfg ty m (.live q (.ev (.docStart ex) ls :: (itemsOf t ++ .ev .docEnd le :: X))) acc = .error e := by
  obtain ⟨e0, tl, d1, hcons, hopen, hsc, hpk, hI⟩ := doc_first_peek h hq hl ex ls (.ev .docEnd le :: X)
  have hK := docCtx_ok h (.ev .docEnd le :: X)
  have hs1 : FSim (docCtx L (.ev .docEnd le :: X) evs) (.replay evs 0 none) d1 :=
    FSim.mk' hK (Nat.zero_le _) hI
  have hb0 : evs[0]? = some e0 := by rw [hcons]; rfl
  -- the loop, unfolded up to the first `peek`
  have hloop : ∀ m acc, multiLoop cfg ty (m + 1)
      (.live q (.ev (.docStart ex) ls :: (itemsOf t ++ .ev .docEnd le :: X))) acc =
      (match e0 with
        | .scalar v _ _ st _ _ =>
          if scalarIsNullish v st then
            match d1.next with
            | .err e _ => .error e
            | .ok _ c => multiLoop cfg ty m c acc
          else
            match deser (fuelFor 100000) cfg ty false false d1 with
            | .err e _ => .error e
            | .ok v c => multiLoop cfg ty m c (acc ++ [v])
        | _ =>
          match deser (fuelFor 100000) cfg ty false false d1 with
          | .err e _ => .error e
          | .ok v c => multiLoop cfg ty m c (acc ++ [v])) := by
    intro m acc
    simp only [multiLoop, hpk]
    cases e0 <;> first | rfl | simp [Lemmas.C05.Ev.isOpen] at hopen
  -- the deserializer at the root
  have hrun : (∀ m acc, multiLoop cfg ty (m + 1)
        (.live q (.ev (.docStart ex) ls :: (itemsOf t ++ .ev .docEnd le :: X))) acc =
        (match deser (fuelFor 100000) cfg ty false false d1 with
          | .err e _ => Except.error e
          | .ok v c => multiLoop cfg ty m c (acc ++ [v]))) →
      (∀ s tg rt st a l, e0 = .scalar s tg rt st a l → scalarIsNullish s st = false) →
      match (match deser (fuelFor 100000) cfg ty false false (.replay evs 0 none) with
        | .err _ _ => DocRes.failed
        | .ok v c => match c.peek with
          | .ok none _ => DocRes.clean v
          | _ => DocRes.leftover v) with
      | .skipped => ∃ q2, Boundary L q2 ∧ q2.look = none ∧ q2.producedAny = true ∧ ∀ m acc,
          multiLoop cfg ty (m + 1) (.live q (.ev (.docStart ex) ls :: (itemsOf t ++ .ev .docEnd le :: X))) acc =
            multiLoop cfg ty m (.live q2 X) acc
      | .clean v => ∃ q2, Boundary L q2 ∧ q2.look = none ∧ q2.producedAny = true ∧ ∀ m acc,
          multiLoop cfg ty (m + 1) (.live q (.ev (.docStart ex) ls :: (itemsOf t ++ .ev .docEnd le :: X))) acc =
            multiLoop cfg ty m (.live q2 X) (acc ++ [v])
      | _ => ∀ m acc, ∃ e,
          multiLoop cfg ty m (.live q (.ev (.docStart ex) ls :: (itemsOf t ++ .ev .docEnd le :: X))) acc =
            .error e := by
    intro hlp hnn
    have hr := doc_deser h (.ev .docEnd le :: X) hI cfg ty
    have herr : ∀ (P : Nat → List Val → Except DErr (List Val)),
        (∀ m acc, ∃ e, P m acc = .error e) → (∀ m acc, multiLoop cfg ty (m + 1)
          (.live q (.ev (.docStart ex) ls :: (itemsOf t ++ .ev .docEnd le :: X))) acc = P m acc) →
        ∀ m acc, ∃ e, multiLoop cfg ty m
          (.live q (.ev (.docStart ex) ls :: (itemsOf t ++ .ev .docEnd le :: X))) acc = .error e := by
      intro P hP hE m acc
      cases m with
      | zero => exact ⟨_, rfl⟩
      | succ m => rw [hE]; exact hP m acc
    cases hL : deser (fuelFor 100000) cfg ty false false (.replay evs 0 none) with
    | err e1 c1 =>
      obtain ⟨e', d3, hR, -⟩ := hr.fwd_err hL
      simp only [hR] at hlp
      exact herr _ (fun m acc => ⟨_, rfl⟩) hlp
    | ok v c1 =>
      obtain ⟨v', d3, hR, rfl, hs3⟩ := hr.fwd_ok hL
      simp only [hR] at hlp
      by_cases hend : pos c1 = evs.length
      · obtain ⟨c2, hc2⟩ := (fsim_peek_none hs3).mpr hend
        simp only [hc2]
        have hI3 := hs3.inv
        rw [hend] at hI3
        simp only [docCtx, List.drop_length] at hI3
        obtain ⟨p2, q2, rfl, hb2, hl2, hp2, hpk2⟩ := doc_end hI3
        exact ⟨q2, hb2, hl2, hp2, fun m acc => (hlp m acc).trans (multiLoop_congr cfg ty hpk2 m _)⟩
      · have hne : ¬ ∃ c2, c1.peek = .ok none c2 := fun hx => hend ((fsim_peek_none hs3).mp hx)
        have hlt : pos c1 < evs.length := by have := hs3.le; simp only [docCtx] at this; omega
        have hres : (match c1.peek with
            | .ok none _ => DocRes.clean v
            | _ => DocRes.leftover v) = DocRes.leftover v := by
          split
          · rename_i c2 hc2
            exact absurd ⟨c2, hc2⟩ hne
          · rfl
        simp only [hres]
        refine herr _ (fun m acc => ?_) hlp
        by_cases h0 : pos c1 = 0
        · have hc1 : c1 = .replay evs 0 none := by
            have := hs3.eq
            rw [h0] at this
            exact this
          rw [hc1] at hL hs3
          exact multi_stuck (K := docCtx L (.ev .docEnd le :: X) evs) cfg ty (c := .replay evs 0 none) hb0 h.ne hopen hnn
            hL m d3 _ hs3
        · exact multi_inside cfg ty m c1 d3 _ hs3 (hs3.dep_pos (by omega) hlt)
  have hhead : evs.head? = some e0 := by rw [hcons]; rfl
  unfold perDoc
  simp only [hhead]
  cases e0 with
  | scalar s tg rt st a l =>
    simp only []
    by_cases hn : scalarIsNullish s st = true
    · simp only [hn, if_true]
      -- the document is skipped
      have htl := hsc s tg rt st a l rfl
      subst htl
      obtain ⟨e2, c2, d2, hb2, hn2, hn2', hs2, hpos2, -⟩ := hs1.next h.ne
      have hI2 := hs2.inv
      have hp2 : pos c2 = evs.length := by rw [hpos2, hcons]; rfl
      rw [hp2] at hI2
      simp only [docCtx, List.drop_length] at hI2
      obtain ⟨p2, q2, rfl, hb2', hl2, hpa2, hpk2⟩ := doc_end hI2
      refine ⟨q2, hb2', hl2, hpa2, fun m acc => ?_⟩
      rw [hloop]
      simp only [hn, if_true, hn2']
      exact multiLoop_congr cfg ty hpk2 m _
    · simp only [hn, if_false, Bool.false_eq_true]
      refine hrun (fun m acc => ?_) ?_
      · rw [hloop]
        simp only [hn, if_false, Bool.false_eq_true]
      · intro s' tg' rt' st' a' l' he
        cases he
        simpa using hn
  | seqStart a tg rt l =>
    exact hrun (fun m acc => by rw [hloop]) (fun _ _ _ _ _ _ he => by cases he)
  | mapStart a l =>
    exact hrun (fun m acc => by rw [hloop]) (fun _ _ _ _ _ _ he => by cases he)
  | seqEnd l => simp [Lemmas.C05.Ev.isOpen] at hopen
  | mapEnd l => simp [Lemmas.C05.Ev.isOpen] at hopen

end SaphyrVerif.Lemmas.C11T
