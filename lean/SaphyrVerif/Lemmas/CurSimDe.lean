import SaphyrVerif.Lemmas.CurSimLeaf
/-!
Cursor simulation, part 2: every function of the mutual block of `Model/De.lean` maps `Sim`-related
cursors (and map-access states equal up to reference locations) to results related by `RV`
(same value / related state, `Sim`-related cursors, or both fail).  One induction on the fuel.
-/
namespace SaphyrVerif.Lemmas.CurSim
open SaphyrVerif SaphyrVerif.Scalars SaphyrVerif.Pump SaphyrVerif.De

/-- result of `nextKey`: same step, states equal up to reference locations -/
def KM (a b : KeyStep × MA) : Prop := a.1 = b.1 ∧ MRel a.2 b.2
/-- result of `nextValue` -/
def VM (a b : Val × MA) : Prop := a.1 = b.1 ∧ MRel a.2 b.2

set_option linter.unusedSimpArgs false
set_option linter.unusedVariables false

/-- the simulation statement for all functions of the mutual block at one fuel value -/
structure SimA (fuel : Nat) : Prop where
  capture : ∀ {c c'}, Sim c c' → RV Eq (De.capture fuel c) (De.capture fuel c')
  captureSeq : ∀ fps evs {c c'}, Sim c c' → RV Eq (De.captureSeq fuel c fps evs) (De.captureSeq fuel c' fps evs)
  captureMap : ∀ fps evs {c c'}, Sim c c' → RV Eq (De.captureMap fuel c fps evs) (De.captureMap fuel c' fps evs)
  pendingFromEvents : ∀ events loc loc' ref ref',
    EV PL (De.pendingFromEvents fuel events loc ref) (De.pendingFromEvents fuel events loc' ref')
  mergeSeqBatches : ∀ {b b' c c'}, Sim c c' → PLL b b' →
    RV PLL (De.mergeSeqBatches fuel c b) (De.mergeSeqBatches fuel c' b')
  pendingFromLive : ∀ r r' {c c'}, Sim c c' → RV PL (De.pendingFromLive fuel c r) (De.pendingFromLive fuel c' r')
  collectEntriesFromMap : ∀ r r' {c c'}, Sim c c' →
    RV PL (De.collectEntriesFromMap fuel c r) (De.collectEntriesFromMap fuel c' r')
  collectLoop : ∀ r r' {f f' m m' c c'}, Sim c c' → PL f f' → PLL m m' →
    RV PL (De.collectLoop fuel c r f m) (De.collectLoop fuel c' r' f' m')
  skipOneNode : ∀ {c c'}, Sim c c' → RV Eq (De.skipOneNode fuel c) (De.skipOneNode fuel c')
  skipDepth : ∀ depth {c c'}, Sim c c' → RV Eq (De.skipDepth fuel c depth) (De.skipDepth fuel c' depth)
  deser : ∀ cfg ty ik km {c c'}, Sim c c' → RV Eq (De.deser fuel cfg ty ik km c) (De.deser fuel cfg ty ik km c')
  bytesLoop : ∀ cfg acc {c c'}, Sim c c' → RV Eq (De.bytesLoop fuel cfg c acc) (De.bytesLoop fuel cfg c' acc)
  deserSeqLike : ∀ cfg shape {c c'}, Sim c c' →
    RV Eq (De.deserSeqLike fuel cfg shape c) (De.deserSeqLike fuel cfg shape c')
  seqElems : ∀ cfg t acc {c c'}, Sim c c' → RV Eq (De.seqElems fuel cfg t c acc) (De.seqElems fuel cfg t c' acc)
  tupleElems : ∀ cfg ts acc {c c'}, Sim c c' →
    RV Eq (De.tupleElems fuel cfg ts c acc) (De.tupleElems fuel cfg ts c' acc)
  deserMapLike : ∀ cfg shape {c c'}, Sim c c' →
    RV Eq (De.deserMapLike fuel cfg shape c) (De.deserMapLike fuel cfg shape c')
  mapEntries : ∀ cfg kt vt acc {c c' m m'}, Sim c c' → MRel m m' →
    RV Eq (De.mapEntries fuel cfg kt vt c m acc) (De.mapEntries fuel cfg kt vt c' m' acc)
  structEntries : ∀ cfg fields deny acc {c c' m m'}, Sim c c' → MRel m m' →
    RV Eq (De.structEntries fuel cfg fields deny c m acc) (De.structEntries fuel cfg fields deny c' m' acc)
  nextKey : ∀ cfg ks {c c' m m'}, Sim c c' → MRel m m' →
    RV KM (De.nextKey fuel cfg ks c m) (De.nextKey fuel cfg ks c' m')
  nextValue : ∀ cfg vt {c c' m m'}, Sim c c' → MRel m m' →
    RV VM (De.nextValue fuel cfg vt c m) (De.nextValue fuel cfg vt c' m')
  deserEnum : ∀ cfg name variants {c c'}, Sim c c' →
    RV Eq (De.deserEnum fuel cfg name variants c) (De.deserEnum fuel cfg name variants c')
  collectTaggedSeq : ∀ depth acc {c c'}, Sim c c' →
    RV Eq (De.collectTaggedSeq fuel c depth acc) (De.collectTaggedSeq fuel c' depth acc)
  variantPayload : ∀ cfg variants vname vloc mapMode tagged {c c'}, Sim c c' →
    RV Eq (De.variantPayload fuel cfg variants vname vloc mapMode tagged c)
      (De.variantPayload fuel cfg variants vname vloc mapMode tagged c')

/-- the merge value is read with the reference location of the cursor it is read from -/
theorem SimA.pendingFromLive_ref {fuel : Nat} (ih : SimA fuel) {c c' : Cur} (hs : Sim c c') :
    RV PL (De.pendingFromLive fuel c c.refLoc) (De.pendingFromLive fuel c' c'.refLoc) :=
  ih.pendingFromLive _ _ hs

/-! ### automation -/

open Lean Elab Tactic Meta in
/-- transport the outcome of the call in the newest equation produced by `split` to the right side,
using the simulation fact for the called function -/
elab "sim_fwd" : tactic => do
  let some (n, isOk, h) ← newestCallEq | throwError "sim_fwd: no call"
  -- (kind, proof of the simulation fact): kind 0 = same value, 1 = relation kept, 2 = pair (value, state)
  let (kind, prf) ← (match n with
    | ``De.capture => do return (0, ← `(SimA.capture ‹SimA _› ‹Sim _ _›))
    | ``De.captureSeq => do return (0, ← `(SimA.captureSeq ‹SimA _› _ _ ‹Sim _ _›))
    | ``De.captureMap => do return (0, ← `(SimA.captureMap ‹SimA _› _ _ ‹Sim _ _›))
    | ``De.mergeSeqBatches => do return (1, ← `(SimA.mergeSeqBatches ‹SimA _› ‹Sim _ _› (by pl_tac)))
    | ``De.pendingFromLive => do return (3, ← `(SimA.pendingFromLive_ref ‹SimA _› ‹Sim _ _›))
    | ``De.skipOneNode => do return (0, ← `(SimA.skipOneNode ‹SimA _› ‹Sim _ _›))
    | ``De.skipDepth => do return (0, ← `(SimA.skipDepth ‹SimA _› _ ‹Sim _ _›))
    | ``De.deser => do return (0, ← `(SimA.deser ‹SimA _› _ _ _ _ ‹Sim _ _›))
    | ``De.bytesLoop => do return (0, ← `(SimA.bytesLoop ‹SimA _› _ _ ‹Sim _ _›))
    | ``De.deserSeqLike => do return (0, ← `(SimA.deserSeqLike ‹SimA _› _ _ ‹Sim _ _›))
    | ``De.seqElems => do return (0, ← `(SimA.seqElems ‹SimA _› _ _ _ ‹Sim _ _›))
    | ``De.tupleElems => do return (0, ← `(SimA.tupleElems ‹SimA _› _ _ _ ‹Sim _ _›))
    | ``De.deserMapLike => do return (0, ← `(SimA.deserMapLike ‹SimA _› _ _ ‹Sim _ _›))
    | ``De.mapEntries => do
      return (0, ← `(SimA.mapEntries ‹SimA _› _ _ _ _ ‹Sim _ _› (by first | assumption | exact MRel.refl _)))
    | ``De.structEntries => do
      return (0, ← `(SimA.structEntries ‹SimA _› _ _ _ _ ‹Sim _ _› (by first | assumption | exact MRel.refl _)))
    | ``De.nextKey => do return (2, ← `(SimA.nextKey ‹SimA _› _ _ ‹Sim _ _› ‹MRel _ _›))
    | ``De.nextValue => do return (2, ← `(SimA.nextValue ‹SimA _› _ _ ‹Sim _ _› ‹MRel _ _›))
    | ``De.deserEnum => do return (0, ← `(SimA.deserEnum ‹SimA _› _ _ _ ‹Sim _ _›))
    | ``De.collectTaggedSeq => do return (0, ← `(SimA.collectTaggedSeq ‹SimA _› _ _ ‹Sim _ _›))
    | ``De.variantPayload => do return (0, ← `(SimA.variantPayload ‹SimA _› _ _ _ _ _ _ ‹Sim _ _›))
    | ``De.takeStringScalar => do return (0, ← `(takeStringScalar_sim _ ‹Sim _ _›))
    | ``De.deserScalarTyped => do return (0, ← `(deserScalarTyped_sim _ _ ‹Sim _ _›))
    | ``De.deserString => do return (0, ← `(deserString_sim _ ‹Sim _ _›))
    | ``De.deserStr => do return (0, ← `(deserStr_sim _ ‹Sim _ _›))
    | _ => throwError "sim_fwd: no rule for {n}" : TacticM (Nat × Term))
  if !isOk then evalTactic (← `(tactic| fwde $h, $prf))
  else if kind == 0 then evalTactic (← `(tactic| fwdk_eq $h, $prf))
  else if kind == 1 then evalTactic (← `(tactic| fwdk_rel $h, $prf))
  else if kind == 3 then
    evalTactic (← `(tactic| (fwdk_rel $h, $prf; have hie := (PL.isEmpty ‹PL _ _›).symm)))
  else evalTactic (← `(tactic| fwdk_pair $h, $prf))

macro_rules
  | `(tactic| pl_leaf) =>
    `(tactic| exact EV.both_ok (SimA.pendingFromEvents ‹SimA _› _ _ _ _ _) ‹_ = Except.ok _› ‹_ = Except.ok _›)

/-- the two sides of `pendingFromEvents` cannot disagree about success -/
macro "pfe_absurd" : tactic =>
  `(tactic| first
    | (exfalso
       exact EV.not_ok_err (SimA.pendingFromEvents ‹SimA _› _ _ _ _ _)
         ‹De.pendingFromEvents _ _ _ _ = Except.ok _› ‹De.pendingFromEvents _ _ _ _ = Except.error _›)
    | (exfalso
       exact EV.not_err_ok (SimA.pendingFromEvents ‹SimA _› _ _ _ _ _)
         ‹De.pendingFromEvents _ _ _ _ = Except.error _› ‹De.pendingFromEvents _ _ _ _ = Except.ok _›))

/-- map-access states equal up to reference locations (side goals) -/
macro "mrel_tac" : tactic =>
  `(tactic| first
    | assumption
    | exact MRel.refl _
    | (simp only [MRel, er, MAe.mk.injEq, PL, PLL] at *
       simp [*, kv]))

/-- side goals of tail calls and of successful leaves -/
macro "sim_side" : tactic =>
  `(tactic| first
    | assumption
    | with_reducible rfl
    | pl_tac
    | (refine ⟨rfl, ?_⟩
       mrel_tac)
    | mrel_tac)

open Lean Elab Tactic Meta in
/-- the head symbols of the two sides of a goal `RV rel lhs rhs` / `EV rel lhs rhs` -/
def goalHeads : TacticM (Option (Name × Name)) := withMainContext do
  let tgt := (← instantiateMVars (← getMainTarget)).cleanupAnnotations
  if tgt.isAppOfArity ``RV 5 || tgt.isAppOfArity ``EV 5 then
    let l := (tgt.getArg! 3).cleanupAnnotations
    let r := (tgt.getArg! 4).cleanupAnnotations
    match l.getAppFn, r.getAppFn with
    | .const a _, .const b _ => return some (a, b)
    | _, _ => return none
  return none

open Lean Elab Tactic Meta in
/-- close a leaf: both sides failed, or both succeeded with related values -/
elab "sim_leaf" : tactic => do
  let some (a, b) ← goalHeads | throwError "sim_leaf: not a leaf"
  if a == ``R.err && b == ``R.err then evalTactic (← `(tactic| exact RV.err))
  else if a == ``Except.error && b == ``Except.error then evalTactic (← `(tactic| exact EV.err))
  else if a == ``R.ok && b == ``R.ok then evalTactic (← `(tactic| (refine RV.ok ?_ ?_ <;> sim_side)))
  else if a == ``Except.ok && b == ``Except.ok then evalTactic (← `(tactic| (refine EV.ok ?_ <;> sim_side)))
  else throwError "sim_leaf: not a leaf"

open Lean Elab Tactic Meta in
/-- close a tail call by the induction hypothesis (or by a leaf lemma) -/
elab "sim_tail" : tactic => do
  let some (a, b) ← goalHeads | throwError "sim_tail: not a call"
  unless a == b do throwError "sim_tail: different heads"
  let tac ← (match a with
    | ``De.capture => `(tactic| exact SimA.capture ‹SimA _› ‹Sim _ _›)
    | ``De.captureSeq => `(tactic| exact SimA.captureSeq ‹SimA _› _ _ ‹Sim _ _›)
    | ``De.captureMap => `(tactic| exact SimA.captureMap ‹SimA _› _ _ ‹Sim _ _›)
    | ``De.skipOneNode => `(tactic| exact SimA.skipOneNode ‹SimA _› ‹Sim _ _›)
    | ``De.skipDepth => `(tactic| exact SimA.skipDepth ‹SimA _› _ ‹Sim _ _›)
    | ``De.deser => `(tactic| exact SimA.deser ‹SimA _› _ _ _ _ ‹Sim _ _›)
    | ``De.bytesLoop => `(tactic| exact SimA.bytesLoop ‹SimA _› _ _ ‹Sim _ _›)
    | ``De.deserSeqLike => `(tactic| exact SimA.deserSeqLike ‹SimA _› _ _ ‹Sim _ _›)
    | ``De.seqElems => `(tactic| exact SimA.seqElems ‹SimA _› _ _ _ ‹Sim _ _›)
    | ``De.tupleElems => `(tactic| exact SimA.tupleElems ‹SimA _› _ _ _ ‹Sim _ _›)
    | ``De.deserMapLike => `(tactic| exact SimA.deserMapLike ‹SimA _› _ _ ‹Sim _ _›)
    | ``De.deserEnum => `(tactic| exact SimA.deserEnum ‹SimA _› _ _ _ ‹Sim _ _›)
    | ``De.collectTaggedSeq => `(tactic| exact SimA.collectTaggedSeq ‹SimA _› _ _ ‹Sim _ _›)
    | ``De.variantPayload => `(tactic| exact SimA.variantPayload ‹SimA _› _ _ _ _ _ _ ‹Sim _ _›)
    | ``De.pendingFromLive => `(tactic| exact SimA.pendingFromLive ‹SimA _› _ _ ‹Sim _ _›)
    | ``De.collectEntriesFromMap => `(tactic| exact SimA.collectEntriesFromMap ‹SimA _› _ _ ‹Sim _ _›)
    | ``De.pendingFromEvents => `(tactic| exact SimA.pendingFromEvents ‹SimA _› _ _ _ _ _)
    | ``De.mergeSeqBatches => `(tactic| (refine SimA.mergeSeqBatches ‹SimA _› ?_ ?_ <;> sim_side))
    | ``De.collectLoop => `(tactic| (refine SimA.collectLoop ‹SimA _› _ _ ?_ ?_ ?_ <;> sim_side))
    | ``De.mapEntries => `(tactic| exact SimA.mapEntries ‹SimA _› _ _ _ _ ‹Sim _ _› ‹MRel _ _›)
    | ``De.structEntries => `(tactic| exact SimA.structEntries ‹SimA _› _ _ _ _ ‹Sim _ _› ‹MRel _ _›)
    | ``De.nextKey => `(tactic| (refine SimA.nextKey ‹SimA _› _ _ ?_ ?_ <;> sim_side))
    | ``De.deserScalarTyped => `(tactic| exact deserScalarTyped_sim _ _ ‹Sim _ _›)
    | ``De.deserString => `(tactic| exact deserString_sim _ ‹Sim _ _›)
    | ``De.deserAnyScalar => `(tactic| exact deserAnyScalar_sim _ _ _ _ _ ‹Sim _ _›)
    | ``De.byteSeqVisit => `(tactic| exact byteSeqVisit_sim _ _ ‹Sim _ _›)
    | ``De.structFinish => `(tactic| exact structFinish_sim _ _ ‹Sim _ _›)
    | _ => throwError "sim_tail: no rule for {a}" : TacticM (TSyntax `tactic))
  evalTactic tac

theorem act1_eq1 (p : Prop) [Decidable p] : ((if p then (1 : Nat) else 0) == 1) = decide p := by
  by_cases h : p <;> simp [h]
theorem act1_eq2 (p : Prop) [Decidable p] : ((if p then (1 : Nat) else 0) == 2) = false := by
  by_cases h : p <;> simp [h]
theorem act2_eq1 (p : Prop) [Decidable p] : ((if p then (2 : Nat) else 0) == 1) = false := by
  by_cases h : p <;> simp [h]
theorem act2_eq2 (p : Prop) [Decidable p] : ((if p then (2 : Nat) else 0) == 2) = decide p := by
  by_cases h : p <;> simp [h]
/-- duplicate detection only looks at the fingerprints seen so far (stated as a proper rewrite rule: the
`Decidable` instances of the `if`s it occurs in have to follow) -/
theorem seenContains_mk (hk : Bool) (seen : List FP) (p : List PendingEntry) (ms : List (List PendingEntry))
    (fl : Bool) (pv : Option (List Ev × Loc)) (fp : FP) :
    MA.seenContains ⟨hk, seen, p, ms, fl, pv⟩ fp = seen.any (· == fp) := by
  simp only [MA.seenContains]
theorem act0_eq1 : ((0 : Nat) == 1) = false := rfl
theorem act0_eq2 : ((0 : Nat) == 2) = false := rfl

macro "sim_simp" : tactic =>
  `(tactic| simp only [*, ↓reduceIte, Bool.false_eq_true, act1_eq1, act1_eq2, act2_eq1, act2_eq2, act0_eq1, act0_eq2,
      decide_eq_true_eq, seenContains_mk])

macro "sim_loop" : tactic =>
  `(tactic| repeat' (first | sim_leaf | sim_step | sim_simp | (split <;> try sim_fwd) | pfe_absurd | sim_tail))

end SaphyrVerif.Lemmas.CurSim
