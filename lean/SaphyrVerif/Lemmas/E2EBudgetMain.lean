import SaphyrVerif.Lemmas.E2EBudgetA
import SaphyrVerif.Lemmas.E2EBudgetB
import SaphyrVerif.Lemmas.E2EBudgetC
import SaphyrVerif.Lemmas.E2EBudgetD
import SaphyrVerif.Lemmas.E2EBudgetE
/-!
End-to-end composition with the budget enforcer, part 6: the induction on the fuel — every function of the
mutual block of `Model/De.lean` relates a budgeted cursor and its stripped twin by `BR`.
-/
namespace SaphyrVerif.Lemmas.E2EBudget
open SaphyrVerif SaphyrVerif.Scalars SaphyrVerif.Pump SaphyrVerif.Budget SaphyrVerif.De

theorem bA {P : BP} (hcl : Closed P) : ∀ fuel, BA P fuel
  | 0 => by
    constructor
    · intro c _; rw [De.capture, De.capture]; exact BR.err
    · intro fps evs c _; rw [De.captureSeq, De.captureSeq]; exact BR.err
    · intro fps evs c _; rw [De.captureMap, De.captureMap]; exact BR.err
    · intro b c _; rw [De.mergeSeqBatches, De.mergeSeqBatches]; exact BR.err
    · intro r c _; rw [De.pendingFromLive, De.pendingFromLive]; exact BR.err
    · intro r c _; rw [De.collectEntriesFromMap, De.collectEntriesFromMap]; exact BR.err
    · intro r f m c _; rw [De.collectLoop, De.collectLoop]; exact BR.err
    · intro c _; rw [De.skipOneNode, De.skipOneNode]; exact BR.err
    · intro d c _; rw [De.skipDepth, De.skipDepth]; exact BR.err
    · intro cfg ty ik km c _; rw [De.deser, De.deser]; exact BR.err
    · intro cfg acc c _; rw [De.bytesLoop, De.bytesLoop]; exact BR.err
    · intro cfg shape c _; rw [De.deserSeqLike, De.deserSeqLike]; exact BR.err
    · intro cfg t acc c _; rw [De.seqElems, De.seqElems]; exact BR.err
    · intro cfg ts acc c _; rw [De.tupleElems, De.tupleElems]; exact BR.err
    · intro cfg shape c _; rw [De.deserMapLike, De.deserMapLike]; exact BR.err
    · intro cfg kt vt m acc c _; rw [De.mapEntries, De.mapEntries]; exact BR.err
    · intro cfg fields deny m acc c _; rw [De.structEntries, De.structEntries]; exact BR.err
    · intro cfg ks m c _; rw [De.nextKey, De.nextKey]; exact BR.err
    · intro cfg vt m c _; rw [De.nextValue, De.nextValue]; exact BR.err
    · intro cfg name variants c _; rw [De.deserEnum, De.deserEnum]; exact BR.err
    · intro depth acc c _; rw [De.collectTaggedSeq, De.collectTaggedSeq]; exact BR.err
    · intro cfg variants vname vloc mapMode tagged c _; rw [De.variantPayload, De.variantPayload]; exact BR.err
  | fuel + 1 =>
    have ih := bA hcl fuel
    { capture := capture_brStep hcl ih
      captureSeq := captureSeq_brStep hcl ih
      captureMap := captureMap_brStep hcl ih
      mergeSeqBatches := mergeSeqBatches_brStep hcl ih
      pendingFromLive := pendingFromLive_brStep hcl ih
      collectEntriesFromMap := collectEntriesFromMap_brStep hcl ih
      collectLoop := collectLoop_brStep hcl ih
      skipOneNode := skipOneNode_brStep hcl ih
      skipDepth := skipDepth_brStep hcl ih
      deser := deser_brStep hcl ih
      bytesLoop := bytesLoop_brStep hcl ih
      deserSeqLike := deserSeqLike_brStep hcl ih
      seqElems := seqElems_brStep hcl ih
      tupleElems := tupleElems_brStep hcl ih
      deserMapLike := deserMapLike_brStep hcl ih
      mapEntries := mapEntries_brStep hcl ih
      structEntries := structEntries_brStep hcl ih
      nextKey := nextKey_brStep hcl ih
      nextValue := nextValue_brStep hcl ih
      deserEnum := deserEnum_brStep hcl ih
      collectTaggedSeq := collectTaggedSeq_brStep hcl ih
      variantPayload := variantPayload_brStep hcl ih }

#print axioms bA

end SaphyrVerif.Lemmas.E2EBudget
