import SaphyrVerif.Lemmas.C13_BlockWrite
import SaphyrVerif.Lemmas.C13_BlockRead
/-!
C13 / C12 composition, block scalars, part 5: the CONTRACTS for the texts `blkToks` (plain / quoted token, or
block scalar: header + body lines) of ALL strings, for the crate's own scalar-text functions (`implFns`):

* write (`blk_write`): in every position of the fragment `serialize_str` writes what `blkStr` says;
* read (`blk_read`): the reference reader takes what `blkStr` says for the string.
-/
set_option linter.unusedSimpArgs false
set_option linter.unusedVariables false
namespace SaphyrVerif.Emit
open SaphyrVerif

variable {o : Opts} {f : ScalarFns}

/-! ### facts about the crate's plain-value test -/

theorem impl_pvs_nil (y fl : Bool) : implFns.isPlainValueSafe [] y fl = false := by
  cases y <;> cases fl <;> decide

/-- a string the crate's functions send to the literal style has content before its trailing line breaks -/
theorem impl_blockOk (o : Opts) (v : List Char) (ha : autoBlock o implFns v = true) : BlockOk v := by
  intro hn
  unfold autoBlock at ha
  simp only [hn, if_true, Bool.and_eq_true, Bool.or_eq_true, decide_eq_true_eq, Bool.not_eq_true'] at ha
  rcases ha.2 with ⟨_, _, h⟩ | h
  · exact h
  · cases he : (trimEndNl v).isEmpty
    · rfl
    · have : trimEndNl v = [] := List.isEmpty_iff.mp he
      rw [this] at h
      simp only [List.map_nil] at h
      rw [impl_pvs_nil] at h
      exact absurd h (by simp)

/-- a string the crate's plain-value test accepts: not empty, no leading blank, no control characters -/
theorem impl_pvs_facts {v : List Char} {y : Bool} (h : implFns.isPlainValueSafe v y false = true) :
    v ≠ [] ∧ v.head? ≠ some ' ' ∧ ∀ c ∈ v, isControl c = false := by
  obtain ⟨_, hfc, _, _, hctl⟩ := pvs_unfold (s := v) (y := y) (fl := false) h
  obtain ⟨c, cs, rfl, hps, _, _⟩ := firstCharOk_start hfc
  refine ⟨by simp, ?_, fun x hx => (noControl_mem hctl x hx).2⟩
  simp only [List.head?_cons, ne_eq, Option.some.injEq]
  exact keyStart_ne (plainStart_key hps) ' ' (by decide)

theorem lineChar_of_notControl {c : Char} (h : isControl c = false) : c ≠ '\n' ∧ c ≠ '\t' ∧ lineChar c = true := by
  have h1 : c ≠ '\n' := by rintro rfl; exact absurd h (by decide)
  have h2 : c ≠ '\t' := by rintro rfl; exact absurd h (by decide)
  have h3 : c ≠ '\r' := by rintro rfl; exact absurd h (by decide)
  have h4 : c ≠ Char.ofNat 0 := by rintro rfl; exact absurd h (by decide)
  exact ⟨h1, h2, by simp [lineChar, h1, h3, h4]⟩

/-! ### the write contract -/

section
variable (ho : FragOpts o) {s : List Char} (hb : autoBlock o f s = true → BlockOk s)
include ho hb

theorem blk_strVal {st : St} {m c : Nat} (hc : ValCtx o st m c) :
    Good o st (' ' :: (blkStr o f o.indentStep (.val c) s).1, (blkStr o f o.indentStep (.val c) s).2, false) (.ok (serStr o f s st)) := by
  cases ha : autoBlock o f s
  · have : blkStr o f o.indentStep (.val c) s = (strTok o f s, []) := by simp [blkStr, ha]
    rw [this, serStr_token hc.pss hc.inFlow ha]
    exact serToken_val (o := o) _ hc
  · exact serStr_block_val ho ha (hb ha) hc

theorem blk_strItem {st : St} {d c : Nat} (hc : ItemCtx o st d c) :
    Good o st ((blkStr o f o.indentStep (.item c) s).1, (blkStr o f o.indentStep (.item c) s).2, false) (.ok (serStr o f s st)) := by
  cases ha : autoBlock o f s
  · have : blkStr o f o.indentStep (.item c) s = (strTok o f s, []) := by simp [blkStr, ha]
    rw [this, serStr_token hc.pss hc.inFlow ha]
    exact serToken_item (o := o) _ hc
  · exact serStr_block_item ho ha (hb ha) hc

theorem blk_strRoot : (serStr o f s (startSt o)).out =
    prologue o ++ renderLines (⟨0, (blkStr o f o.indentStep .root s).1⟩ :: (blkStr o f o.indentStep .root s).2) := by
  cases ha : autoBlock o f s
  · have : blkStr o f o.indentStep .root s = (strTok o f s, []) := by simp [blkStr, ha]
    rw [this, serStr_token (s := startSt o) rfl rfl ha]
    simpa using (serToken_line (o := o) ho (strTok o f s) lineCtx_init rfl col_init).1
  · exact serStr_block_root ho ha (hb ha)

omit ho hb in
theorem blk_strInit (s : List Char) : serStr o f s {} = serStr o f s (startSt o) := by
  cases ha : autoBlock o f s
  · rw [serStr_token (s := ({} : St)) rfl rfl ha, serStr_token (s := startSt o) rfl rfl ha, serToken_init]
  · exact serStr_block_init ha

end

theorem ser_unit_untagged (ht : o.taggedEnums = false) (e n : List Char) (st : St) :
    ser o f (.unitVariant e n) st = .ok (serStr o f n st) := by
  rw [ser]; simp [ht]

/-- the write contract of `blkToks` for any scalar-text functions whose literal candidates have content -/
theorem blk_write_gen (ho : FragOpts o) {P : LeafPred} (hb : ∀ s, P.str s = true → autoBlock o f s = true → BlockOk s)
    (hu : ∀ e n, P.unit e n = true → o.taggedEnums = false → autoBlock o f n = true → BlockOk n) :
    WriteContract o f P (blkToks o f) where
  strVal := fun s h st m c hc => blk_strVal ho (hb s h) hc
  strItem := fun s h st d c hc => blk_strItem ho (hb s h) hc
  strRoot := fun s h => blk_strRoot ho (hb s h)
  strInit := fun s _ => blk_strInit s
  unitVal := fun e n h st m c hc => by
    cases ht : o.taggedEnums
    · rw [ser_unit_untagged ht]
      simpa [blkToks, blkUnit, ht] using blk_strVal ho (hu e n h ht) hc
    · rw [ser_unit_tagged ht e n hc.inFlow]
      simpa [blkToks, blkUnit, ht] using serToken_val (o := o) ('!' :: '!' :: e ++ ' ' :: plainOrQuotedValue o f false n) hc
  unitItem := fun e n h st d c hc => by
    cases ht : o.taggedEnums
    · rw [ser_unit_untagged ht]
      simpa [blkToks, blkUnit, ht] using blk_strItem ho (hu e n h ht) hc
    · rw [ser_unit_tagged ht e n hc.inFlow]
      simpa [blkToks, blkUnit, ht] using serToken_item (o := o) ('!' :: '!' :: e ++ ' ' :: plainOrQuotedValue o f false n) hc
  unitRoot := fun e n h => by
    cases ht : o.taggedEnums
    · rw [ser_unit_untagged ht]
      exact ⟨_, rfl, by simpa [blkToks, blkUnit, ht] using blk_strRoot ho (hu e n h ht)⟩
    · rw [ser_unit_tagged ht e n (s := startSt o) rfl]
      exact ⟨_, rfl, by
        simpa [blkToks, blkUnit, ht] using
          (serToken_line (o := o) ho ('!' :: '!' :: e ++ ' ' :: plainOrQuotedValue o f false n) lineCtx_init rfl col_init).1⟩
  unitInit := fun e n h => by
    cases ht : o.taggedEnums
    · rw [ser_unit_untagged ht, ser_unit_untagged ht, blk_strInit]
    · rw [ser_unit_tagged ht e n (s := ({} : St)) rfl, ser_unit_tagged ht e n (s := startSt o) rfl, serToken_init]
  key := fun s _ => rfl
  name := fun n _ => rfl

/-- (emitter side) for the crate's own scalar-text functions and EVERY string: in each position `serialize_str`
writes what `blkStr` says -/
theorem blk_write (ho : FragOpts o) : WriteContract o implFns (allStrPred o) (blkToks o implFns) :=
  blk_write_gen ho (fun s _ ha => impl_blockOk o s ha) (fun e n _ _ ha => impl_blockOk o n ha)

/-! ### the read contract -/

theorem posCols (k : Nat) (hk : k ≥ 1) (pos : StrPos) :
    1 ≤ bodyCol k pos ∧ pos.minIndent ≤ bodyCol k pos ∧ (parentCol pos = 0 → pos.minIndent ≤ 1) := by
  cases pos <;> simp [bodyCol, StrPos.minIndent, parentCol] <;> omega

/-- what `blkStr` says for a string reads as that string in every position (the crate's own scalar-text functions;
not a YAML 1.1 boolean word that `yaml_12` leaves plain) -/
theorem blkStr_leafOK (o : Opts) (k : Nat) (hk : k ≥ 1) (pos : StrPos) (s : List Char) (hbr : boolRisk o s = false) :
    LeafOK pos.minIndent (blkStr o implFns k pos s) (.str s) := by
  obtain ⟨hN1, hnN, hpar⟩ := posCols k hk pos
  unfold blkStr
  cases ha : autoBlock o implFns s
  · simp only [Bool.false_eq_true, if_false]
    exact (strTok_scalarTok s hbr).leafOK _
  · simp only [if_true]
    cases hfb : blockFallback k pos s
    · simp only [Bool.false_eq_true, if_false]
      have hfb' := hfb
      simp only [blockFallback, Bool.or_eq_false_iff, Bool.and_eq_false_iff] at hfb'
      obtain ⟨⟨hind, _⟩, hctl⟩ := hfb'
      cases hn : s.contains '\n'
      · -- folded: the string passed the plain-value test
        simp only [Bool.false_eq_true, if_false]
        have hpv : implFns.isPlainValueSafe s o.yaml12 false = true := by
          unfold autoBlock at ha
          simp only [hn, Bool.false_eq_true, if_false, Bool.and_eq_true] at ha
          exact ha.2.1
        obtain ⟨hne, hhead, hc⟩ := impl_pvs_facts hpv
        exact foldLeaf_ok _ _ _ s hN1 hne hhead (fun c hcm => lineChar_of_notControl (hc c hcm)) hnN
      · -- literal
        simp only [if_true]
        have hce := impl_blockOk o s ha hn
        have hcontent : trimEndNl s ≠ [] := by
          intro e; rw [e] at hce; exact absurd hce (by simp)
        refine litLeaf_ok _ _ s hN1 hcontent hctl (fun _ => hnN) (fun hni => ?_)
        rcases hind with hind | hind
        · rw [hni] at hind; exact absurd hind (by simp)
        · simp only [Bool.or_eq_false_iff, decide_eq_false_iff_not, Nat.not_lt, Nat.le_zero] at hind
          exact ⟨by omega, hpar (by omega)⟩
    · simp only [if_true]
      exact (pqv_scalarTok s hbr).leafOK _

/-- (reader side) for the crate's own scalar-text functions: what `blkStr` says for a string reads as that string
in every position — except for the YAML 1.1 boolean words `yaml_12` leaves plain -/
theorem blk_read (o : Opts) (k : Nat) (hk : k ≥ 1) : ReadContract (allStrPred o) (blkToks o implFns) k where
  str := fun pos s h => blkStr_leafOK o k hk pos s (by simpa [allStrPred] using h)
  unit := fun pos e n h => by
    simp only [allStrPred, Bool.and_eq_true, Bool.or_eq_true, Bool.not_eq_true'] at h
    show LeafOK pos.minIndent (blkUnit o implFns k pos e n) (.str n)
    cases ht : o.taggedEnums
    · simpa [blkUnit, ht] using blkStr_leafOK o k hk pos n h.2
    · have he : tagNameOk e = true := by simpa [ht] using h.1
      simpa [blkUnit, ht] using (tagged_scalarTok he (pqv_coreTok n h.2)).leafOK pos.minIndent
  key := fun s h => (impl_read o k).key s h
  name := fun n h => (impl_read o k).name n h

/-- the class of `emit_roundtrip_strings_partial` (strings that get no block style) is part of the class of all
strings -/
theorem implPred_all {v : SVal} (h : inFragP (implPred o) v = true) : inFragP (allStrPred o) v = true := by
  refine inFragP_mono (P := implPred o) (Q := allStrPred o) ?_ (fun _ h => h) (fun _ h => h) ?_ v h
  · intro s hs
    simp only [implPred, Bool.and_eq_true, Bool.not_eq_true'] at hs
    simp [allStrPred, hs.2]
  · intro e n hs
    cases ht : o.taggedEnums
    · simp only [implPred, ht, Bool.false_eq_true, if_false, Bool.and_eq_true, Bool.not_eq_true'] at hs
      simp [allStrPred, ht, hs.2]
    · simp only [implPred, ht, if_true, Bool.and_eq_true, Bool.not_eq_true'] at hs
      simp [allStrPred, ht, hs.1, hs.2]

end SaphyrVerif.Emit
