import SaphyrVerif.Lemmas.C11_TypedMulti
/-!
Typed multi-document theorems (C11), part 11: the streaming iterator over a stream of good documents, with
recovery (`skip_to_next_document`) after a document whose deserialization fails.
-/
namespace SaphyrVerif.Lemmas.C11T
open SaphyrVerif SaphyrVerif.Scalars SaphyrVerif.Pump SaphyrVerif.De SaphyrVerif.Spec SaphyrVerif.Entry
open SaphyrVerif.Lemmas.C02 (Steps Good Post noFoldedIndent)
open SaphyrVerif.Lemmas.C11 (Boundary atDocStart atDocEnd Doc docsItems)
open SaphyrVerif.Lemmas.Frame (Ctx FSim RF pos dep)

abbrev Item := Except DErr Val

theorem iterLoop_congr (cfg : Cfg) (ty : Ty) {p p' : Pump} {inp inp' : List RawItem}
    (h : Cur.peek (.live p inp) = Cur.peek (.live p' inp')) (fuel : Nat) (acc : List Item) :
    iterLoop cfg ty fuel p inp acc = iterLoop cfg ty fuel p' inp' acc := by
  cases fuel with
  | zero => rfl
  | succ n => simp only [iterLoop, h]

/-- the end of the stream, at a document boundary after at least one event: the iterator is done -/
theorem iter_end {L : AliasLimits} {q : Pump} (hq : Boundary L q) (hl : q.look = none) (hp : q.producedAny = true)
    (l1 : Loc) (cfg : Cfg) (ty : Ty) (m : Nat) (acc : List Item) :
    iterLoop cfg ty (m + 1) q [.ev .streamEnd l1] acc = acc := by
  obtain ⟨p', inp2, hn⟩ := Lemmas.C11.step_streamEnd hq hp l1
  have hb : p'.budget = none := by
    have := nextImpl_budget q [.ev .streamEnd l1] hq.bud
    rw [hn] at this
    exact this
  simp [iterLoop, Cur.peek, Pump.peek, hl, hn, finishCur, Pump.finish, hb]

/-- the recovery from inside a good document: the rest of the document and its end marker are skipped; the
iterator is done when the stream ends there, and otherwise stands — with a fresh per-document state — at the
next document -/
theorem skip_from_doc {L : AliasLimits} {le : Loc} {X : List RawItem} {evs : List Ev} {d3 : Cur}
    (hI : LiveInvP L (.ev .docEnd le :: X) (AtEnd L (.ev .docEnd le :: X)) d3 evs) :
    ∃ q3 inq3, d3 = .live q3 inq3 ∧
      (∀ l1, X = [.ev .streamEnd l1] → (skipToNextDocument q3 inq3).1 = false) ∧
      (∀ ex ls Y, X = .ev (.docStart ex) ls :: Y → ∃ q4, skipToNextDocument q3 inq3 = (true, q4, Y) ∧
        Boundary L q4 ∧ q4.look = none ∧
        Cur.peek (.live q4 Y) = Cur.peek (.live q4 (.ev (.docStart ex) ls :: Y))) := by
  obtain ⟨q3, inq3, rfl, hst, ⟨B, rfl, hB⟩, -⟩ := hI
  refine ⟨q3, _, rfl, ?_, ?_⟩
  · intro l1 hX
    subst hX
    unfold skipToNextDocument
    obtain ⟨l, hl⟩ := skipLoop_neutral B hB (.ev .docEnd le :: [.ev .streamEnd l1])
      { q3 with look := none, inject := [], recStack := [] }
    rw [hl]
    simp [skipLoop]
  · intro ex ls Y hX
    subst hX
    unfold skipToNextDocument
    obtain ⟨l, hl⟩ := skipLoop_neutral B hB (.ev .docEnd le :: .ev (.docStart ex) ls :: Y)
      { q3 with look := none, inject := [], recStack := [] }
    rw [hl]
    simp only [skipLoop, skipBudget, hst.bud]
    refine ⟨_, rfl, ?_, rfl, ?_⟩
    · constructor <;> simp [Pump.resetDocumentState, hst.bud, hst.rip, hst.lim, hst.sade]
    · symm
      apply peek_congr rfl rfl
      simp [nextImpl, serveInject, parserLoop, Pump.resetDocumentState, hst.bud]


/-- null-like root scalar -/
def evIsNull : Ev → Bool
  | .scalar v _ _ st _ _ => scalarIsNullish v st
  | _ => false

/-- what the iterator does with one good document (followed by the parser items `X`), in terms of `perDoc` -/
theorem iter_doc {L : AliasLimits} {t : LNode} {evs : List Ev} (h : DocOk L t evs) {q : Pump}
    (hq : Boundary L q) (hl : q.look = none) (ex : Bool) (ls le : Loc) (X : List RawItem)
    (cfg : Cfg) (ty : Ty) :
    match perDoc cfg ty evs with
    | .skipped => ∃ q2, Boundary L q2 ∧ q2.look = none ∧ q2.producedAny = true ∧ ∀ m acc,
        iterLoop cfg ty (m + 1) q (.ev (.docStart ex) ls :: (itemsOf t ++ .ev .docEnd le :: X)) acc =
          iterLoop cfg ty m q2 X acc
    | .clean v => ∃ q2, Boundary L q2 ∧ q2.look = none ∧ q2.producedAny = true ∧ ∀ m acc,
        iterLoop cfg ty (m + 1) q (.ev (.docStart ex) ls :: (itemsOf t ++ .ev .docEnd le :: X)) acc =
          iterLoop cfg ty m q2 X (acc ++ [.ok v])
    | .failed => ∃ e,
        (∀ l1, X = [.ev .streamEnd l1] → ∀ m acc,
          iterLoop cfg ty (m + 1) q (.ev (.docStart ex) ls :: (itemsOf t ++ .ev .docEnd le :: X)) acc =
            acc ++ [.error e]) ∧
        (∀ ex2 ls2 Y, X = .ev (.docStart ex2) ls2 :: Y → ∃ q2, Boundary L q2 ∧ q2.look = none ∧ ∀ m acc,
          iterLoop cfg ty (m + 1) q (.ev (.docStart ex) ls :: (itemsOf t ++ .ev .docEnd le :: X)) acc =
            iterLoop cfg ty m q2 X (acc ++ [.error e]))
    | .leftover _ => True := by
  obtain ⟨e0, tl, d1, hcons, hopen, hsc, hpk, hI⟩ := doc_first_peek h hq hl ex ls (.ev .docEnd le :: X)
  have hK := docCtx_ok h (.ev .docEnd le :: X)
  have hs1 : FSim (docCtx L (.ev .docEnd le :: X) evs) (.replay evs 0 none) d1 :=
    FSim.mk' hK (Nat.zero_le _) hI
  -- the loop, unfolded up to the first `peek`
  have hloop : ∀ m acc, iterLoop cfg ty (m + 1) q
      (.ev (.docStart ex) ls :: (itemsOf t ++ .ev .docEnd le :: X)) acc =
      (if evIsNull e0 then
        match d1.next with
        | .ok _ (.live p inp) => iterLoop cfg ty m p inp acc
        | .err e _ => acc ++ [.error e]
        | _ => acc
      else
        match deser (fuelFor 100000) cfg ty false false d1 with
        | .ok v (.live p inp) => iterLoop cfg ty m p inp (acc ++ [.ok v])
        | .err e (.live p inp) =>
          let (found, p, inp) := Pump.skipToNextDocument p inp
          if found then iterLoop cfg ty m p inp (acc ++ [.error e]) else acc ++ [.error e]
        | _ => acc) := by
    intro m acc
    simp only [iterLoop, hpk]
    cases e0 <;> first | rfl | simp [Lemmas.C05.Ev.isOpen] at hopen
  -- the deserializer at the root
  have hrun : evIsNull e0 = false →
      match (match deser (fuelFor 100000) cfg ty false false (.replay evs 0 none) with
        | .err _ _ => DocRes.failed
        | .ok v c => match c.peek with
          | .ok none _ => DocRes.clean v
          | _ => DocRes.leftover v) with
      | .skipped => ∃ q2, Boundary L q2 ∧ q2.look = none ∧ q2.producedAny = true ∧ ∀ m acc,
          iterLoop cfg ty (m + 1) q (.ev (.docStart ex) ls :: (itemsOf t ++ .ev .docEnd le :: X)) acc =
            iterLoop cfg ty m q2 X acc
      | .clean v => ∃ q2, Boundary L q2 ∧ q2.look = none ∧ q2.producedAny = true ∧ ∀ m acc,
          iterLoop cfg ty (m + 1) q (.ev (.docStart ex) ls :: (itemsOf t ++ .ev .docEnd le :: X)) acc =
            iterLoop cfg ty m q2 X (acc ++ [.ok v])
      | .failed => ∃ e,
          (∀ l1, X = [.ev .streamEnd l1] → ∀ m acc,
            iterLoop cfg ty (m + 1) q (.ev (.docStart ex) ls :: (itemsOf t ++ .ev .docEnd le :: X)) acc =
              acc ++ [.error e]) ∧
          (∀ ex2 ls2 Y, X = .ev (.docStart ex2) ls2 :: Y → ∃ q2, Boundary L q2 ∧ q2.look = none ∧ ∀ m acc,
            iterLoop cfg ty (m + 1) q (.ev (.docStart ex) ls :: (itemsOf t ++ .ev .docEnd le :: X)) acc =
              iterLoop cfg ty m q2 X (acc ++ [.error e]))
      | .leftover _ => True := by
    intro hnull
    have hr := doc_deser h (.ev .docEnd le :: X) hI cfg ty
    cases hL : deser (fuelFor 100000) cfg ty false false (.replay evs 0 none) with
    | err e1 c1 =>
      obtain ⟨e', d3, hR, hs3⟩ := hr.fwd_err hL
      obtain ⟨q3, inq3, rfl, hfin, hnext⟩ := skip_from_doc hs3.inv
      refine ⟨e', ?_, ?_⟩
      · intro l1 hX1 m acc
        have hf := hfin l1 hX1
        rw [hloop]
        simp only [hnull, Bool.false_eq_true, if_false, hR]
        rcases hsk : skipToNextDocument q3 inq3 with ⟨found, p4, inp4⟩
        rw [hsk] at hf
        simp only at hf
        subst hf
        simp
      · intro ex2 ls2 Y hX2
        obtain ⟨q4, hsk, hb4, hl4, hpk4⟩ := hnext ex2 ls2 _ hX2
        refine ⟨q4, hb4, hl4, fun m acc => ?_⟩
        rw [hloop]
        simp only [hnull, Bool.false_eq_true, if_false, hR, hsk, if_true]
        rw [hX2]
        exact iterLoop_congr cfg ty hpk4 m _
    | ok v c1 =>
      obtain ⟨v', d3, hR, rfl, hs3⟩ := hr.fwd_ok hL
      by_cases hend : pos c1 = evs.length
      · obtain ⟨c2, hc2⟩ := (fsim_peek_none hs3).mpr hend
        simp only [hc2]
        have hI3 := hs3.inv
        rw [hend] at hI3
        simp only [docCtx, List.drop_length] at hI3
        obtain ⟨p2, q2, rfl, hb2, hl2, hp2, hpk2⟩ := doc_end hI3
        refine ⟨q2, hb2, hl2, hp2, fun m acc => ?_⟩
        rw [hloop]
        simp only [hnull, Bool.false_eq_true, if_false, hR]
        exact iterLoop_congr cfg ty hpk2 m _
      · have hne : ¬ ∃ c2, c1.peek = .ok none c2 := fun hx => hend ((fsim_peek_none hs3).mp hx)
        have hres : (match c1.peek with
            | .ok none _ => DocRes.clean v
            | _ => DocRes.leftover v) = DocRes.leftover v := by
          split
          · rename_i c2 hc2
            exact absurd ⟨c2, hc2⟩ hne
          · rfl
        simp only [hres]
  have hhead : evs.head? = some e0 := by rw [hcons]; rfl
  unfold perDoc
  simp only [hhead]
  cases e0 with
  | scalar s tg rt st a l =>
    simp only []
    by_cases hn : scalarIsNullish s st = true
    · simp only [hn, if_true]
      -- the document is skipped
      have htl := hsc s tg rt st a l rfl
      subst htl
      obtain ⟨e2, c2, d2, hb2, hn2, hn2', hs2, hpos2, -⟩ := hs1.next h.ne
      have hI2 := hs2.inv
      have hp2 : pos c2 = evs.length := by rw [hpos2, hcons]; rfl
      rw [hp2] at hI2
      simp only [docCtx, List.drop_length] at hI2
      obtain ⟨p2, q2, rfl, hb2', hl2, hpa2, hpk2⟩ := doc_end hI2
      refine ⟨q2, hb2', hl2, hpa2, fun m acc => ?_⟩
      rw [hloop]
      simp only [evIsNull, hn, if_true, hn2']
      exact iterLoop_congr cfg ty hpk2 m _
    · simp only [hn, if_false, Bool.false_eq_true]
      exact hrun (by simpa [evIsNull] using hn)
  | seqStart a tg rt l => exact hrun rfl
  | mapStart a l => exact hrun rfl
  | seqEnd l => simp [Lemmas.C05.Ev.isOpen] at hopen
  | mapEnd l => simp [Lemmas.C05.Ev.isOpen] at hopen


/-! ### the iterator over the whole stream -/

/-- two items agree: the same value, or both are errors (the error payloads are not compared) -/
def sameItem : Item → Item → Prop
  | .ok v, .ok w => v = w
  | .error _, .error _ => True
  | _, _ => False

/-- two item lists agree item by item (an inductive predicate: stating it about a concrete stream must not
make the elaborator evaluate the stream) -/
inductive sameItems : List Item → List Item → Prop
  | nil : sameItems [] []
  | cons {a b : Item} {as bs : List Item} : sameItem a b → sameItems as bs → sameItems (a :: as) (b :: bs)

theorem sameItem.refl (a : Item) : sameItem a a := by cases a <;> simp [sameItem]
theorem sameItem.symm {a b : Item} (h : sameItem a b) : sameItem b a := by
  cases a <;> cases b <;> simp_all [sameItem]
theorem sameItem.trans {a b c : Item} (h1 : sameItem a b) (h2 : sameItem b c) : sameItem a c := by
  cases a <;> cases b <;> cases c <;> simp_all [sameItem]

theorem sameItems.refl : ∀ a : List Item, sameItems a a
  | [] => .nil
  | x :: xs => .cons (sameItem.refl x) (sameItems.refl xs)
theorem sameItems.symm {a b : List Item} (h : sameItems a b) : sameItems b a := by
  induction h with
  | nil => exact .nil
  | cons h1 _ ih => exact .cons h1.symm ih
theorem sameItems.trans {a b c : List Item} (h1 : sameItems a b) (h2 : sameItems b c) : sameItems a c := by
  induction h1 generalizing c with
  | nil => exact h2
  | cons hx _ ih =>
    cases h2 with
    | cons hy h2' => exact .cons (hx.trans hy) (ih h2')
theorem sameItems.append {a b c d : List Item} (h1 : sameItems a b) (h2 : sameItems c d) :
    sameItems (a ++ c) (b ++ d) := by
  induction h1 with
  | nil => exact h2
  | cons hx _ ih => exact .cons hx ih
theorem sameItems.length {a b : List Item} (h : sameItems a b) : a.length = b.length := by
  induction h with
  | nil => rfl
  | cons _ _ ih => simp [ih]

/-- the items a document contributes, by `perDoc` (a failed document: one error item, payload unspecified) -/
def docItems : DocRes → List Item
  | .skipped => []
  | .clean v => [.ok v]
  | .failed => [.error default]
  | .leftover v => [.ok v]

/-- the items of a stream, document by document -/
def specItems (cfg : Cfg) (ty : Ty) : List (List Ev) → List Item
  | [] => []
  | evs :: rest => docItems (perDoc cfg ty evs) ++ specItems cfg ty rest

def DocRes.isLeftover : DocRes → Bool
  | .leftover _ => true
  | _ => false

theorem iter_docs {L : AliasLimits} (l1 : Loc) (cfg : Cfg) (ty : Ty) :
    ∀ (ds : List Doc) (evss : List (List Ev)) (q : Pump) (fuel : Nat) (acc : List Item),
      DocsOk L ds evss → Boundary L q → q.look = none → (ds = [] → q.producedAny = true) →
      (∀ evs ∈ evss, (perDoc cfg ty evs).isLeftover = false) → ds.length + 1 ≤ fuel →
      ∃ items, iterLoop cfg ty fuel q (docsItems ds ++ [.ev .streamEnd l1]) acc = acc ++ items ∧
        sameItems items (specItems cfg ty evss) := by
  intro ds
  induction ds with
  | nil =>
    intro evss q fuel acc hds hq hl hp _ hf
    cases evss with
    | cons _ _ => exact hds.elim
    | nil =>
      obtain ⟨m, rfl⟩ : ∃ m, fuel = m + 1 := ⟨fuel - 1, by simp at hf; omega⟩
      exact ⟨[], by simpa [docsItems] using iter_end hq hl (hp rfl) l1 cfg ty m acc, .nil⟩
  | cons d ds ih =>
    intro evss q fuel acc hds hq hl _ hnl hf
    obtain ⟨t, ex, ls, le⟩ := d
    cases evss with
    | nil => exact hds.elim
    | cons evs evss' =>
      obtain ⟨hd, hrest⟩ := hds
      obtain ⟨m, rfl⟩ : ∃ m, fuel = m + 1 := ⟨fuel - 1, by simp at hf; omega⟩
      have hnd := hnl evs (List.mem_cons_self ..)
      have hnl' : ∀ e ∈ evss', (perDoc cfg ty e).isLeftover = false := fun e he => hnl e (List.mem_cons_of_mem _ he)
      have hdoc := iter_doc hd hq hl ex ls le (docsItems ds ++ [.ev .streamEnd l1]) cfg ty
      rw [docsItems_cons]
      have hm : ds.length + 1 ≤ m := by simp at hf; omega
      cases hres : perDoc cfg ty evs with
      | skipped =>
        rw [hres] at hdoc
        obtain ⟨q2, hb2, hl2, hp2, heq⟩ := hdoc
        obtain ⟨items, hi, hsame⟩ := ih evss' q2 m acc hrest hb2 hl2 (fun _ => hp2) hnl' hm
        exact ⟨items, by rw [heq, hi], by simpa [specItems, hres, docItems] using hsame⟩
      | clean v =>
        rw [hres] at hdoc
        obtain ⟨q2, hb2, hl2, hp2, heq⟩ := hdoc
        obtain ⟨items, hi, hsame⟩ := ih evss' q2 m (acc ++ [.ok v]) hrest hb2 hl2 (fun _ => hp2) hnl' hm
        refine ⟨.ok v :: items, by rw [heq, hi]; simp, ?_⟩
        simp only [specItems, hres, docItems, List.singleton_append]
        exact .cons rfl hsame
      | failed =>
        rw [hres] at hdoc
        obtain ⟨e, h1, h2⟩ := hdoc
        by_cases hds' : ds = []
        · subst hds'
          cases evss' with
          | cons _ _ => exact hrest.elim
          | nil =>
            refine ⟨[.error e], h1 l1 rfl m acc, ?_⟩
            simp only [specItems, hres, docItems, List.append_nil]
            exact .cons trivial .nil
        · obtain ⟨d2, ds2, rfl⟩ := List.exists_cons_of_ne_nil hds'
          obtain ⟨t2, ex2, ls2, le2⟩ := d2
          obtain ⟨q2, hb2, hl2, heq⟩ := h2 ex2 ls2 _ (docsItems_cons t2 ex2 ls2 le2 ds2 _)
          obtain ⟨items, hi, hsame⟩ := ih evss' q2 m (acc ++ [.error e]) hrest hb2 hl2
            (fun h => absurd h hds') hnl' hm
          refine ⟨.error e :: items, by rw [heq, hi]; simp, ?_⟩
          simp only [specItems, hres, docItems, List.singleton_append]
          exact .cons trivial hsame
      | leftover v => rw [hres] at hnd; cases hnd


/-- the iterator over a PREFIX of good documents, whatever follows the next document start: the items of
these documents, then the iterator stands — with a clean per-document state — at the next document -/
theorem iter_docs_prefix {L : AliasLimits} (cfg : Cfg) (ty : Ty) (exk : Bool) (lsk : Loc) (Y : List RawItem) :
    ∀ (ds : List Doc) (evss : List (List Ev)) (q : Pump) (fuel : Nat) (acc : List Item),
      DocsOk L ds evss → Boundary L q → q.look = none →
      (∀ evs ∈ evss, (perDoc cfg ty evs).isLeftover = false) → ds.length ≤ fuel →
      ∃ items q2, Boundary L q2 ∧ q2.look = none ∧
        iterLoop cfg ty fuel q (docsItems ds ++ .ev (.docStart exk) lsk :: Y) acc =
          iterLoop cfg ty (fuel - ds.length) q2 (.ev (.docStart exk) lsk :: Y) (acc ++ items) ∧
        sameItems items (specItems cfg ty evss) := by
  intro ds
  induction ds with
  | nil =>
    intro evss q fuel acc hds hq hl _ _
    cases evss with
    | cons _ _ => exact hds.elim
    | nil => exact ⟨[], q, hq, hl, by simp [docsItems], .nil⟩
  | cons d ds ih =>
    intro evss q fuel acc hds hq hl hnl hf
    obtain ⟨t, ex, ls, le⟩ := d
    cases evss with
    | nil => exact hds.elim
    | cons evs evss' =>
      obtain ⟨hd, hrest⟩ := hds
      obtain ⟨m, rfl⟩ : ∃ m, fuel = m + 1 := ⟨fuel - 1, by simp at hf; omega⟩
      have hnd := hnl evs (List.mem_cons_self ..)
      have hnl' : ∀ e ∈ evss', (perDoc cfg ty e).isLeftover = false := fun e he => hnl e (List.mem_cons_of_mem _ he)
      have hdoc := iter_doc hd hq hl ex ls le (docsItems ds ++ .ev (.docStart exk) lsk :: Y) cfg ty
      rw [docsItems_cons]
      have hm : ds.length ≤ m := by simp at hf; omega
      have hfu : m + 1 - ((t, ex, ls, le) :: ds).length = m - ds.length := by simp
      rw [hfu]
      cases hres : perDoc cfg ty evs with
      | skipped =>
        rw [hres] at hdoc
        obtain ⟨q2, hb2, hl2, hp2, heq⟩ := hdoc
        obtain ⟨items, q3, hb3, hl3, hi, hsame⟩ := ih evss' q2 m acc hrest hb2 hl2 hnl' hm
        exact ⟨items, q3, hb3, hl3, by rw [heq, hi], by simpa [specItems, hres, docItems] using hsame⟩
      | clean v =>
        rw [hres] at hdoc
        obtain ⟨q2, hb2, hl2, hp2, heq⟩ := hdoc
        obtain ⟨items, q3, hb3, hl3, hi, hsame⟩ := ih evss' q2 m (acc ++ [.ok v]) hrest hb2 hl2 hnl' hm
        refine ⟨.ok v :: items, q3, hb3, hl3, by rw [heq, hi]; simp, ?_⟩
        simp only [specItems, hres, docItems, List.singleton_append]
        exact .cons rfl hsame
      | failed =>
        rw [hres] at hdoc
        obtain ⟨e, -, h2⟩ := hdoc
        have hnext : ∃ ex2 ls2 Y2, docsItems ds ++ .ev (.docStart exk) lsk :: Y = .ev (.docStart ex2) ls2 :: Y2 := by
          cases ds with
          | nil => exact ⟨exk, lsk, Y, by simp [docsItems]⟩
          | cons d2 ds2 =>
            obtain ⟨t2, ex2, ls2, le2⟩ := d2
            exact ⟨ex2, ls2, _, docsItems_cons t2 ex2 ls2 le2 ds2 _⟩
        obtain ⟨ex2, ls2, Y2, hY2⟩ := hnext
        obtain ⟨q2, hb2, hl2, heq⟩ := h2 ex2 ls2 Y2 hY2
        obtain ⟨items, q3, hb3, hl3, hi, hsame⟩ := ih evss' q2 m (acc ++ [.error e]) hrest hb2 hl2 hnl' hm
        refine ⟨.error e :: items, q3, hb3, hl3, by rw [heq, hi]; simp, ?_⟩
        simp only [specItems, hres, docItems, List.singleton_append]
        exact .cons trivial hsame
      | leftover v => rw [hres] at hnd; cases hnd


/-- the iterator only appends to the items it has yielded -/
theorem iterLoop_extends (cfg : Cfg) (ty : Ty) : ∀ (fuel : Nat) (p : Pump) (inp : List RawItem) (acc : List Item),
    ∃ tail, iterLoop cfg ty fuel p inp acc = acc ++ tail := by
  intro fuel
  induction fuel with
  | zero => intro p inp acc; exact ⟨[], by simp [iterLoop]⟩
  | succ n ih =>
    intro p inp acc
    have hrec : ∀ p' inp' (x : List Item), ∃ tail, iterLoop cfg ty n p' inp' (acc ++ x) = acc ++ tail := by
      intro p' inp' x
      obtain ⟨t, ht⟩ := ih p' inp' (acc ++ x)
      exact ⟨x ++ t, by rw [ht, List.append_assoc]⟩
    have hskip : ∀ (e : DErr) (p1 : Pump) (inp1 : List RawItem), ∃ tail,
        (let (found, p, inp) := Pump.skipToNextDocument p1 inp1
         if found then iterLoop cfg ty n p inp (acc ++ [.error e]) else acc ++ [.error e]) = acc ++ tail := by
      intro e p1 inp1
      rcases Pump.skipToNextDocument p1 inp1 with ⟨found, p2, inp2⟩
      cases found
      · exact ⟨[.error e], by simp⟩
      · simpa using hrec p2 inp2 [.error e]
    simp only [iterLoop]
    repeat' split
    all_goals first
      | exact ⟨_, rfl⟩
      | exact hskip _ _ _
      | exact hrec _ _ _
      | exact ih _ _ acc
      | (refine ⟨[], ?_⟩; simp; done)

/-! ### a document that consists of an alias only -/

/-- at a document boundary every anchor table is empty: a document whose root is an alias fails at its very
first event, with `UnknownAnchor` at the alias — whatever earlier documents defined -/
theorem alias_root_peek {L : AliasLimits} {q : Pump} (hq : Boundary L q) (hl : q.look = none)
    (h1 : 1 ≤ L.maxAliasExpansionsPerAnchor) (h2 : 1 ≤ L.maxReplayStackDepth)
    (ex : Bool) (ls : Loc) (id : Nat) (aloc : Loc) (Z : List RawItem) :
    ∃ c, Cur.peek (.live q (.ev (.docStart ex) ls :: .ev (.alias id) aloc :: Z)) =
      .err ⟨"UnknownAnchor", aloc, 0⟩ c := by
  have h1' : L.maxAliasExpansionsPerAnchor ≠ 0 := by omega
  have h2' : L.maxReplayStackDepth ≠ 0 := by omega
  obtain ⟨hb, hr, hi, hrs, ha, hp, ht, hlim, hs⟩ := hq
  cases q
  simp only at hb hr hi hrs ha hp ht hlim hs hl
  subst hb hr hi hrs ha hp ht hlim hs hl
  simp [Cur.peek, Pump.peek, nextImpl, serveInject, parserLoop, Pump.resetDocumentState, lookupCount, lookupAnchor,
    ofPErr, Budget.USIZE_MAX, h1', h2']

/-- the iterator reports that error and is finished: later documents are never read -/
theorem iter_alias_root {L : AliasLimits} {q : Pump} (hq : Boundary L q) (hl : q.look = none)
    (h1 : 1 ≤ L.maxAliasExpansionsPerAnchor) (h2 : 1 ≤ L.maxReplayStackDepth)
    (ex : Bool) (ls : Loc) (id : Nat) (aloc : Loc) (Z : List RawItem) (cfg : Cfg) (ty : Ty) (m : Nat) (acc : List Item) :
    iterLoop cfg ty (m + 1) q (.ev (.docStart ex) ls :: .ev (.alias id) aloc :: Z) acc =
      acc ++ [.error ⟨"UnknownAnchor", aloc, 0⟩] := by
  obtain ⟨c, hc⟩ := alias_root_peek hq hl h1 h2 ex ls id aloc Z
  simp only [iterLoop, hc]

/-- … and the batch loop returns it -/
theorem multi_alias_root {L : AliasLimits} {q : Pump} (hq : Boundary L q) (hl : q.look = none)
    (h1 : 1 ≤ L.maxAliasExpansionsPerAnchor) (h2 : 1 ≤ L.maxReplayStackDepth)
    (ex : Bool) (ls : Loc) (id : Nat) (aloc : Loc) (Z : List RawItem) (cfg : Cfg) (ty : Ty) (m : Nat) (acc : List Val) :
    multiLoop cfg ty (m + 1) (.live q (.ev (.docStart ex) ls :: .ev (.alias id) aloc :: Z)) acc =
      .error ⟨"UnknownAnchor", aloc, 0⟩ := by
  obtain ⟨c, hc⟩ := alias_root_peek hq hl h1 h2 ex ls id aloc Z
  simp only [multiLoop, hc]

end SaphyrVerif.Lemmas.C11T
