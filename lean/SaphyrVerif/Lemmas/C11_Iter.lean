import SaphyrVerif.Lemmas.C11_DeserFam
import SaphyrVerif.Model.Entry
/-!
Helper lemmas for C11, part 7: the batch loop and the iterator loop in lock-step.
-/
namespace SaphyrVerif.Lemmas.C11
open SaphyrVerif SaphyrVerif.Scalars SaphyrVerif.Pump SaphyrVerif.De SaphyrVerif.Entry

theorem live_of_curK {c : Cur} (h : curK c = 1) : ∃ p inp, c = .live p inp := by
  cases c with
  | live p inp => exact ⟨p, inp, rfl⟩
  | replay buf idx ref => simp [curK] at h

theorem live_of_le {p : Pump} {inp : List RawItem} {c : Cur} (h : Le (.live p inp) c) :
    ∃ p' inp', c = .live p' inp' := live_of_curK h.1

/-- the typed deserializer returns a live cursor when it was given one -/
theorem deser_live {fuel : Nat} {cfg : Cfg} {ty : Ty} {ik k : Bool} {p : Pump} {inp : List RawItem} {r : R Val}
    (h : deser fuel cfg ty ik k (.live p inp) = r) : ∃ p' inp', rcur r = .live p' inp' := by
  have := (allLe fuel).deser cfg ty ik k (.live p inp)
  rw [h] at this
  exact live_of_le this

theorem peek_live (p : Pump) (inp : List RawItem) : ∃ p' inp', rcur (Cur.peek (.live p inp)) = .live p' inp' :=
  live_of_le (peek_le _)

theorem next_live (p : Pump) (inp : List RawItem) : ∃ p' inp', rcur (Cur.next (.live p inp)) = .live p' inp' :=
  live_of_le (next_le _)

/-- lock-step: a successful batch run and the iterator perform the same peeks, skips and `deser` calls -/
theorem multi_iter (cfg : Cfg) (ty : Ty) : ∀ (fuel : Nat) (p : Pump) (inp : List RawItem) (acc vs : List Val),
    multiLoop cfg ty fuel (.live p inp) acc = .ok vs →
    iterLoop cfg ty fuel p inp (acc.map .ok) = vs.map .ok := by
  intro fuel
  induction fuel with
  | zero => intro p inp acc vs h; simp [multiLoop] at h
  | succ n ih =>
    intro p inp acc vs h
    -- the common tail: run `deser` on the peeked cursor
    have hdeser : ∀ (p1 : Pump) (inp1 : List RawItem),
        (match deser (fuelFor 100000) cfg ty false false (.live p1 inp1) with
          | .err e _ => Except.error e
          | .ok v c => multiLoop cfg ty n c (acc ++ [v])) = .ok vs →
        (match deser (fuelFor 100000) cfg ty false false (.live p1 inp1) with
          | .ok v (.live p inp) => iterLoop cfg ty n p inp (acc.map .ok ++ [.ok v])
          | .err e (.live p inp) =>
            let (found, p, inp) := Pump.skipToNextDocument p inp
            if found then iterLoop cfg ty n p inp (acc.map .ok ++ [.error e]) else acc.map .ok ++ [.error e]
          | _ => acc.map .ok) = vs.map .ok := by
      intro p1 inp1 hd
      cases hr : deser (fuelFor 100000) cfg ty false false (.live p1 inp1) with
      | err e c => rw [hr] at hd; simp at hd
      | ok v c =>
        obtain ⟨p2, inp2, hc⟩ := deser_live hr
        simp only [rcur] at hc
        subst hc
        rw [hr] at hd
        simp only at hd ⊢
        have := ih p2 inp2 (acc ++ [v]) vs hd
        simpa using this
    simp only [multiLoop] at h
    simp only [iterLoop]
    obtain ⟨p1, inp1, hlive⟩ := peek_live p inp
    cases hpk : Cur.peek (.live p inp) with
    | err e c => rw [hpk] at h; simp at h
    | ok o c =>
      rw [hpk] at h hlive
      simp only [rcur] at hlive
      subst hlive
      cases o with
      | none =>
        simp only at h ⊢
        cases hf : finishCur (.live p1 inp1) with
        | some e => rw [hf] at h; simp at h
        | none =>
          rw [hf] at h
          simp only [Except.ok.injEq] at h
          subst h
          rfl
      | some ev =>
        cases ev with
        | scalar v tg rt st a l =>
          simp only at h ⊢
          by_cases hn : scalarIsNullish v st = true
          · simp only [hn, if_true] at h ⊢
            obtain ⟨p2, inp2, hlive2⟩ := next_live p1 inp1
            cases hnx : Cur.next (.live p1 inp1) with
            | err e c => rw [hnx] at h; simp at h
            | ok o2 c2 =>
              rw [hnx] at h hlive2
              simp only [rcur] at hlive2
              subst hlive2
              simp only at h ⊢
              exact ih p2 inp2 acc vs h
          · simp only [hn, if_false, Bool.false_eq_true] at h ⊢
            exact hdeser p1 inp1 h
        | seqStart a tg rt l => simp only at h ⊢; exact hdeser p1 inp1 h
        | seqEnd l => simp at h
        | mapStart a l => simp only at h ⊢; exact hdeser p1 inp1 h
        | mapEnd l => simp at h

end SaphyrVerif.Lemmas.C11
