import SaphyrVerif.Model.PathMap
/-! The index-faithful tokenizer loop never hits an out-of-range index and computes `tokenizePiece`. -/
namespace SaphyrVerif.PathMap

theorem lowerAscii_isEmpty (l : List Char) : (lowerAscii l).isEmpty = l.isEmpty := by
  cases l <;> rfl

/-- `cur` of the structural version = `chars[start..i]` reversed -/
def curOf (cs : List Char) (start i : Nat) : List Char := ((cs.drop start).take (i - start)).reverse

theorem curOf_ne_nil {cs : List Char} {start i : Nat} (h1 : start < i) (h2 : i ≤ cs.length) :
    curOf cs start i ≠ [] := by
  unfold curOf
  intro h
  have := congrArg List.length h
  simp at this
  omega

theorem curOf_succ {cs : List Char} {start i : Nat} (h1 : start ≤ i) (h2 : i < cs.length) :
    curOf cs start (i + 1) = cs[i] :: curOf cs start i := by
  unfold curOf
  have : i + 1 - start = (i - start) + 1 := by omega
  rw [this, List.take_add_one]
  have hg : (cs.drop start)[i - start]? = some cs[i] := by
    rw [List.getElem?_drop]
    have : start + (i - start) = i := by omega
    rw [this]
    exact List.getElem?_eq_getElem h2
  rw [hg]
  simp

theorem curOf_self_succ {cs : List Char} {i : Nat} (h2 : i < cs.length) : curOf cs i (i + 1) = [cs[i]] := by
  unfold curOf
  have : i + 1 - i = 1 := by omega
  rw [this, List.drop_eq_getElem_cons h2]
  rfl

theorem loop_inv (cs : List Char) :
    ∀ (fuel i start : Nat) (toks : List (List Char)) (hi : i + fuel = cs.length) (h1 : 1 ≤ i) (_hs : start < i),
      pieceFinishIdx cs (pieceLoopIdx cs fuel i start toks) =
        some (toks ++ pieceTokens (cs[i - 1]'(by omega)) (cs.drop i) (curOf cs start i))
  | 0, i, start, toks, hi, h1, hs => by
    have hil : i = cs.length := by omega
    subst hil
    have hne := curOf_ne_nil hs (Nat.le_refl _)
    simp only [pieceLoopIdx, pieceFinishIdx, List.drop_length, pieceTokens]
    have hsl : slice? cs start cs.length = some ((cs.drop start).take (cs.length - start)) := by
      unfold slice?
      rw [if_pos ⟨by omega, Nat.le_refl _⟩]
    rw [if_pos (by omega), hsl]
    have hcur : (curOf cs start cs.length).reverse = (cs.drop start).take (cs.length - start) := by
      unfold curOf; simp
    have he : (curOf cs start cs.length).isEmpty = false := by
      cases h : curOf cs start cs.length with
      | nil => exact absurd h hne
      | cons a as => rfl
    simp only [he, Bool.false_eq_true, if_false, hcur]
    have he2 : (lowerAscii ((cs.drop start).take (cs.length - start))).isEmpty = false := by
      rw [lowerAscii_isEmpty, ← hcur]
      cases h : curOf cs start cs.length with
      | nil => exact absurd h hne
      | cons a as => simp
    simp [he2]
  | fuel + 1, i, start, toks, hi, h1, hs => by
    have hil : i < cs.length := by omega
    have hne := curOf_ne_nil hs (Nat.le_of_lt hil)
    have hprev : cs[i - 1]? = some (cs[i - 1]'(by omega)) := List.getElem?_eq_getElem (by omega)
    have hcurr : cs[i]? = some cs[i] := List.getElem?_eq_getElem hil
    have hdrop : cs.drop i = cs[i] :: cs.drop (i + 1) := List.drop_eq_getElem_cons hil
    have hnext : (cs.drop (i + 1)).head? = cs[i + 1]? := by
      rw [List.head?_drop]
    have he : (curOf cs start i).isEmpty = false := by
      cases h : curOf cs start i with
      | nil => exact absurd h hne
      | cons a as => rfl
    rw [pieceLoopIdx, hprev, hcurr, hdrop, pieceTokens]
    simp only [hnext]
    by_cases hb : boundary (classify (cs[i - 1]'(by omega))) (classify cs[i]) (Option.map classify cs[i + 1]?) = true
    · simp only [hb, if_true, hs]
      have hsl : slice? cs start i = some ((cs.drop start).take (i - start)) := by
        unfold slice?
        rw [if_pos ⟨by omega, by omega⟩]
      have hcur : (curOf cs start i).reverse = (cs.drop start).take (i - start) := by
        unfold curOf; simp
      rw [hsl]
      have he2 : (lowerAscii ((cs.drop start).take (i - start))).isEmpty = false := by
        rw [lowerAscii_isEmpty, ← hcur]
        cases h : curOf cs start i with
        | nil => exact absurd h hne
        | cons a as => simp
      simp only [he2, Bool.false_eq_true, if_false, he]
      have ih := loop_inv cs fuel (i + 1) i (toks ++ [lowerAscii ((cs.drop start).take (i - start))])
        (by omega) (by omega) (by omega)
      rw [ih]
      simp only [Nat.add_sub_cancel, curOf_self_succ hil, hcur, List.append_assoc]
    · simp only [hb, Bool.false_eq_true, if_false]
      have ih := loop_inv cs fuel (i + 1) start toks (by omega) (by omega) (by omega)
      rw [ih]
      simp only [Nat.add_sub_cancel, curOf_succ (Nat.le_of_lt hs) hil]

theorem tokenizePieceIdx_eq (cs : List Char) : tokenizePieceIdx cs = some (tokenizePiece cs) := by
  unfold tokenizePieceIdx
  cases cs with
  | nil => rfl
  | cons c rest =>
    simp only [List.isEmpty_cons, Bool.false_eq_true, if_false]
    have := loop_inv (c :: rest) ((c :: rest).length - 1) 1 0 [] (by simp only [List.length_cons]; omega) (by omega) (by omega)
    rw [this]
    simp [tokenizePiece, curOf]

end SaphyrVerif.PathMap
