import SaphyrVerif.Lemmas.C05_Scalars
import SaphyrVerif.Lemmas.C05_Spec
/-!
Helper lemmas for C05, part 7: `deser` at the leaves — key flags, the absent payload, scalar targets, strings,
unit, newtype and option wrappers.
-/
namespace SaphyrVerif.Lemmas.C05
open SaphyrVerif SaphyrVerif.Scalars SaphyrVerif.Pump SaphyrVerif.De SaphyrVerif.Spec

theorem NodeOut.of_expect {α : Type} {buf : List Ev} {ref : Option Loc} {i L : Nat} {df : Bool} {exp : Option α} {x : R α}
    (h : Expect x exp (.replay buf (i + L) ref)) : NodeOut buf ref i L df exp x := by
  cases exp with
  | some v => exact h
  | none => exact Or.inl h

theorem NodeOut.of_err {α : Type} {buf : List Ev} {ref : Option Loc} {i L : Nat} {df : Bool} {x : R α}
    (h : IsErr x) : NodeOut buf ref i L df none x := Or.inl h

/-- the three outcomes, each with the equation that rewrites the enclosing function -/
theorem NodeOut.cases {α : Type} {buf : List Ev} {ref : Option Loc} {i L : Nat} {df : Bool} {exp : Option α} {x : R α}
    (h : NodeOut buf ref i L df exp x) :
    (∃ v, exp = some v ∧ x = .ok v (.replay buf (i + L) ref)) ∨ (exp = none ∧ ∃ e c, x = .err e c) ∨
      (exp = none ∧ df = true ∧ ∃ v j, x = .ok v (.replay buf j ref) ∧ i < j ∧ j < i + L) := by
  cases exp with
  | some v => exact Or.inl ⟨v, rfl, h⟩
  | none =>
    rcases h with h | ⟨h1, h2⟩
    · exact Or.inr (Or.inl ⟨rfl, h⟩)
    · exact Or.inr (Or.inr ⟨rfl, h1, h2⟩)

theorem NodeOut.ok {α : Type} {buf : List Ev} {ref : Option Loc} {i L : Nat} {df : Bool} {v : α} :
    NodeOut buf ref i L df (some v) (.ok v (.replay buf (i + L) ref)) := rfl

theorem NodeOut.deficit {α : Type} {buf : List Ev} {ref : Option Loc} {i L : Nat} {df : Bool} {v : α} {j : Nat}
    (hd : df = true) (h1 : i < j) (h2 : j < i + L) : NodeOut buf ref i L df none (.ok v (.replay buf j ref)) :=
  Or.inr ⟨hd, v, j, rfl, h1, h2⟩

/-! ### key flags -/

/-- the key flags matter only for an `Option` key on the explicit-empty-key path -/
theorem deser_flags (cfg : Cfg) : ∀ (fuel : Nat) (ty : Ty) (ik km : Bool) (c : Cur),
    ((ik && km) = false ∨ isOptionKeyTy ty = false) →
    deser fuel cfg ty ik km c = deser fuel cfg ty false false c := by
  intro fuel
  induction fuel with
  | zero => intro ty ik km c _; rw [deser, deser]
  | succ fuel ih =>
    intro ty ik km c h
    cases ty with
    | newtype t =>
      rw [deser, deser]
      exact ih t ik km c (by simpa [isOptionKeyTy] using h)
    | option t =>
      have h' : (ik && km) = false := by simpa [isOptionKeyTy] using h
      have ih' : ∀ c, deser fuel cfg t ik km c = deser fuel cfg t false false c := fun c => ih t ik km c (Or.inl h')
      rw [deser, deser]
      simp only [h', ih', Bool.false_eq_true, if_false, Bool.and_self]
    | _ => rw [deser, deser]

/-! ### the absent payload (scalar-form variant) -/

theorem deserSeqLike_nil (fuel : Nat) (cfg : Cfg) (shape : Ty ⊕ List Ty) {buf : List Ev} {i : Nat} (ref : Option Loc)
    (h : buf.drop i = []) : IsErr (deserSeqLike fuel cfg shape (.replay buf i ref)) := by
  cases fuel with
  | zero => rw [deserSeqLike]; simp
  | succ fuel => rw [deserSeqLike]; simp [peek_nil ref h, next_nil ref h]

theorem deserMapLike_nil (fuel : Nat) (cfg : Cfg) (shape : (Ty × Ty) ⊕ (List (String × Ty) × Bool)) {buf : List Ev} {i : Nat}
    (ref : Option Loc) (h : buf.drop i = []) : IsErr (deserMapLike fuel cfg shape (.replay buf i ref)) := by
  cases fuel with
  | zero => rw [deserMapLike]; simp
  | succ fuel => rw [deserMapLike]; simp [peek_nil ref h, next_nil ref h]

theorem deserEnum_nil (fuel : Nat) (cfg : Cfg) (name : String) (vs : List (String × VTy)) {buf : List Ev} {i : Nat}
    (ref : Option Loc) (h : buf.drop i = []) : IsErr (deserEnum fuel cfg name vs (.replay buf i ref)) := by
  cases fuel with
  | zero => rw [deserEnum]; simp
  | succ fuel => rw [deserEnum]; simp [peek_nil ref h]

theorem deser_absent (cfg : Cfg) : ∀ (t : Ty), ∃ n, ∀ fuel, n ≤ fuel →
    Expect (deser fuel cfg t false false (.replay [] 0 none)) (interpAbsent t) (.replay [] 0 none)
  | .newtype t => by
    obtain ⟨n, hn⟩ := deser_absent cfg t
    refine ⟨n + 1, fun fuel hf => ?_⟩
    obtain ⟨fuel, rfl⟩ : ∃ f, fuel = f + 1 := ⟨fuel - 1, by omega⟩
    rw [deser]
    simpa [interpAbsent] using hn fuel (by omega)
  | .option t => ⟨1, fun fuel hf => by
    obtain ⟨fuel, rfl⟩ : ∃ f, fuel = f + 1 := ⟨fuel - 1, by omega⟩
    rw [deser]; simp [peek_nil (buf := []) (i := 0) none rfl, interpAbsent]⟩
  | .unit => ⟨1, fun fuel hf => by
    obtain ⟨fuel, rfl⟩ : ∃ f, fuel = f + 1 := ⟨fuel - 1, by omega⟩
    rw [deser]; simp [peek_nil (buf := []) (i := 0) none rfl, interpAbsent]⟩
  | .any => ⟨1, fun fuel hf => by
    obtain ⟨fuel, rfl⟩ : ∃ f, fuel = f + 1 := ⟨fuel - 1, by omega⟩
    rw [deser]; simp [peek_nil (buf := []) (i := 0) none rfl, interpAbsent]⟩
  | .bool => ⟨0, fun fuel _ => by
    cases fuel with
    | zero => rw [deser]; simp [interpAbsent]
    | succ fuel => rw [deser]; simpa [interpAbsent] using deserScalarTyped_nil none cfg _ rfl⟩
  | .int s w => ⟨0, fun fuel _ => by
    cases fuel with
    | zero => rw [deser]; simp [interpAbsent]
    | succ fuel => rw [deser]; simpa [interpAbsent] using deserScalarTyped_nil none cfg _ rfl⟩
  | .float w => ⟨0, fun fuel _ => by
    cases fuel with
    | zero => rw [deser]; simp [interpAbsent]
    | succ fuel => rw [deser]; simpa [interpAbsent] using deserScalarTyped_nil none cfg _ rfl⟩
  | .char => ⟨0, fun fuel _ => by
    cases fuel with
    | zero => rw [deser]; simp [interpAbsent]
    | succ fuel => rw [deser]; simpa [interpAbsent] using deserScalarTyped_nil none cfg _ rfl⟩
  | .string => ⟨0, fun fuel _ => by
    cases fuel with
    | zero => rw [deser]; simp [interpAbsent]
    | succ fuel => rw [deser]; simpa [interpAbsent] using deserString_nil none cfg rfl⟩
  | .bytes => ⟨0, fun fuel _ => by
    cases fuel with
    | zero => rw [deser]; simp [interpAbsent]
    | succ fuel => rw [deser]; simp [peek_nil (buf := []) (i := 0) none rfl, interpAbsent]⟩
  | .seq t => ⟨0, fun fuel _ => by
    cases fuel with
    | zero => rw [deser]; simp [interpAbsent]
    | succ fuel => rw [deser]; simpa [interpAbsent] using deserSeqLike_nil fuel cfg _ none rfl⟩
  | .tuple ts => ⟨0, fun fuel _ => by
    cases fuel with
    | zero => rw [deser]; simp [interpAbsent]
    | succ fuel => rw [deser]; simpa [interpAbsent] using deserSeqLike_nil fuel cfg _ none rfl⟩
  | .map k v => ⟨0, fun fuel _ => by
    cases fuel with
    | zero => rw [deser]; simp [interpAbsent]
    | succ fuel => rw [deser]; simpa [interpAbsent] using deserMapLike_nil fuel cfg _ none rfl⟩
  | .struct fs d => ⟨0, fun fuel _ => by
    cases fuel with
    | zero => rw [deser]; simp [interpAbsent]
    | succ fuel => rw [deser]; simpa [interpAbsent] using deserMapLike_nil fuel cfg _ none rfl⟩
  | .enum name vs => ⟨0, fun fuel _ => by
    cases fuel with
    | zero => rw [deser]; simp [interpAbsent]
    | succ fuel => rw [deser]; simpa [interpAbsent] using deserEnum_nil fuel cfg name vs none rfl⟩

/-! ### what is at the cursor, by node kind -/

theorem drop_scalar {buf : List Ev} {i : Nat} {rest : List Ev} {v : List Char} {tag : Nat} {rt : Option (List Char)}
    {st : Style} {a : Nat} {l : Loc} (h : buf.drop i = eflatten (.scalar v tag rt st a l) ++ rest) :
    buf.drop i = .scalar v tag rt st a l :: rest := by simpa [eflatten] using h

theorem drop_seq {buf : List Ev} {i : Nat} {rest : List Ev} {a tag : Nat} {rt : Option (List Char)} {l el : Loc}
    {items : List ENode} (h : buf.drop i = eflatten (.seq a tag rt l el items) ++ rest) :
    buf.drop i = .seqStart a tag rt l :: (eflattenL items ++ .seqEnd el :: rest) := by simpa [eflatten] using h

theorem drop_map {buf : List Ev} {i : Nat} {rest : List Ev} {a : Nat} {l el : Loc}
    {entries : List (ENode × ENode)} (h : buf.drop i = eflatten (.map a l el entries) ++ rest) :
    buf.drop i = .mapStart a l :: (eflattenE entries ++ .mapEnd el :: rest) := by simpa [eflatten] using h

@[simp] theorem eflatten_scalar_length (v : List Char) (tag : Nat) (rt : Option (List Char)) (st : Style) (a : Nat) (l : Loc) :
    (eflatten (.scalar v tag rt st a l)).length = 1 := by simp [eflatten]
@[simp] theorem eflatten_seq_length (a tag : Nat) (rt : Option (List Char)) (l el : Loc) (items : List ENode) :
    (eflatten (.seq a tag rt l el items)).length = (eflattenL items).length + 2 := by simp [eflatten]
@[simp] theorem eflatten_map_length (a : Nat) (l el : Loc) (es : List (ENode × ENode)) :
    (eflatten (.map a l el es)).length = (eflattenE es).length + 2 := by simp [eflatten]

/-! ### scalar targets -/

theorem ref_of_scalarTyped (df : Bool) (cfg : Cfg) (ty : Ty)
    (hd : ∀ fuel ik km c, deser (fuel + 1) cfg ty ik km c = deserScalarTyped cfg ty c)
    (hi : ∀ n, interp cfg ty n = match n with
      | .scalar v tag _ st _ _ => scalarTyped cfg ty v tag st
      | _ => none) (t : ENode) : Ref df cfg ty t := by
  intro buf i ref rest h
  refine ⟨1, fun fuel hf => ?_⟩
  obtain ⟨fuel, rfl⟩ : ∃ f, fuel = f + 1 := ⟨fuel - 1, by omega⟩
  rw [hd, hi]
  cases t with
  | scalar v tag rt st a l =>
    have := deserScalarTyped_scalar ref cfg ty (drop_scalar h)
    exact NodeOut.of_expect (by simpa using this)
  | seq a tag rt l el items => exact NodeOut.of_err (deserScalarTyped_other ref cfg ty (drop_seq h) rfl)
  | map a l el es => exact NodeOut.of_err (deserScalarTyped_other ref cfg ty (drop_map h) rfl)

theorem ref_bool (df : Bool) (cfg : Cfg) (t : ENode) : Ref df cfg .bool t :=
  ref_of_scalarTyped df cfg .bool (fun _ _ _ _ => by rw [deser]) (fun n => by rw [interp]; rfl) t
theorem ref_int (df : Bool) (cfg : Cfg) (s : Bool) (w : Nat) (t : ENode) : Ref df cfg (.int s w) t :=
  ref_of_scalarTyped df cfg (.int s w) (fun _ _ _ _ => by rw [deser]) (fun n => by rw [interp]; rfl) t
theorem ref_float (df : Bool) (cfg : Cfg) (w : Nat) (t : ENode) : Ref df cfg (.float w) t :=
  ref_of_scalarTyped df cfg (.float w) (fun _ _ _ _ => by rw [deser]) (fun n => by rw [interp]; rfl) t
theorem ref_char (df : Bool) (cfg : Cfg) (t : ENode) : Ref df cfg .char t :=
  ref_of_scalarTyped df cfg .char (fun _ _ _ _ => by rw [deser]) (fun n => by rw [interp]; rfl) t

theorem ref_string (df : Bool) (cfg : Cfg) (t : ENode) : Ref df cfg .string t := by
  intro buf i ref rest h
  refine ⟨1, fun fuel hf => ?_⟩
  obtain ⟨fuel, rfl⟩ : ∃ f, fuel = f + 1 := ⟨fuel - 1, by omega⟩
  rw [deser, interp]
  cases t with
  | scalar v tag rt st a l =>
    have := deserString_scalar ref cfg (drop_scalar h)
    exact NodeOut.of_expect (by simpa using this)
  | seq a tag rt l el items => exact NodeOut.of_err (deserString_other ref cfg (drop_seq h) rfl)
  | map a l el es => exact NodeOut.of_err (deserString_other ref cfg (drop_map h) rfl)

theorem ref_unit (df : Bool) (cfg : Cfg) (t : ENode) : Ref df cfg .unit t := by
  intro buf i ref rest h
  refine ⟨1, fun fuel hf => ?_⟩
  obtain ⟨fuel, rfl⟩ : ∃ f, fuel = f + 1 := ⟨fuel - 1, by omega⟩
  rw [deser, interp]
  cases t with
  | scalar v tag rt st a l =>
    have h' := drop_scalar h
    simp only [peek_cons ref h', next_cons ref h']
    apply NodeOut.of_expect
    split <;> simp
  | seq a tag rt l el items =>
    simp only [peek_cons ref (drop_seq h)]
    exact NodeOut.of_err (by simp)
  | map a l el es =>
    simp only [peek_cons ref (drop_map h)]
    exact NodeOut.of_err (by simp)

theorem ref_newtype {df : Bool} {cfg : Cfg} {ty : Ty} {t : ENode} (h : Ref df cfg ty t) : Ref df cfg (.newtype ty) t := by
  intro buf i ref rest hb
  obtain ⟨n, hn⟩ := h buf i ref rest hb
  refine ⟨n + 1, fun fuel hf => ?_⟩
  obtain ⟨fuel, rfl⟩ : ∃ f, fuel = f + 1 := ⟨fuel - 1, by omega⟩
  rw [deser, interp]
  exact hn fuel (by omega)

theorem ref_option {df : Bool} {cfg : Cfg} {ty : Ty} {t : ENode} (h : Ref df cfg ty t) : Ref df cfg (.option ty) t := by
  intro buf i ref rest hb
  obtain ⟨n, hn⟩ := h buf i ref rest hb
  refine ⟨n + 1, fun fuel hf => ?_⟩
  obtain ⟨fuel, rfl⟩ : ∃ f, fuel = f + 1 := ⟨fuel - 1, by omega⟩
  have hsub := hn fuel (by omega)
  rw [deser, interp]
  simp only [Bool.and_self, Bool.false_eq_true, if_false]
  have key : NodeOut buf ref i (eflatten t).length df ((interp cfg ty t).map Val.some)
      (match deser fuel cfg ty false false (.replay buf i ref) with
        | .err e c => .err e c
        | .ok v c => .ok (.some v) c) := by
    rcases hsub.cases with ⟨v, hv, hx⟩ | ⟨hv, e, c, hx⟩ | ⟨hv, hd, v, j, hx, h1, h2⟩ <;> simp only [hv, hx]
    · exact NodeOut.ok
    · exact NodeOut.of_err (by simp)
    · exact NodeOut.deficit hd h1 h2
  cases t with
  | scalar v tag rt st a l =>
    have h' := drop_scalar hb
    simp only [peek_cons ref h', next_cons ref h']
    split
    · exact NodeOut.of_expect (by simp)
    · exact key
  | seq a tag rt l el items =>
    simp only [peek_cons ref (drop_seq hb)]
    exact key
  | map a l el es =>
    simp only [peek_cons ref (drop_map hb)]
    exact key

/-! ### bytes -/

/-- one element of an untagged byte sequence -/
def byteFn (cfg : Cfg) (it : ENode) : Option Nat :=
  match it with
  | .scalar v _ _ _ _ _ => parseIntUnsigned 8 cfg.legacyOctal v
  | _ => none

theorem bytesLoop_spec (cfg : Cfg) (items : List ENode) :
    ∀ {buf : List Ev} {i : Nat} (ref : Option Loc) {el : Loc} {rest : List Ev},
    buf.drop i = eflattenL items ++ .seqEnd el :: rest →
    ∃ n, ∀ fuel, n ≤ fuel → ∀ acc,
      Expect (bytesLoop fuel cfg (.replay buf i ref) acc) ((items.mapM (byteFn cfg)).map (fun bs => .bytes (acc ++ bs)))
        (.replay buf (i + (eflattenL items).length + 1) ref) := by
  induction items with
  | nil =>
    intro buf i ref el rest h
    refine ⟨1, fun fuel hf acc => ?_⟩
    obtain ⟨fuel, rfl⟩ : ∃ f, fuel = f + 1 := ⟨fuel - 1, by omega⟩
    simp only [eflattenL_nil, List.nil_append] at h
    rw [bytesLoop]
    simp [peek_cons ref h, next_cons ref h]
  | cons x xs ih =>
    intro buf i ref el rest h
    simp only [eflattenL_cons, List.append_assoc] at h
    obtain ⟨n, hn⟩ := ih ref (drop_add_of_drop h)
    refine ⟨n + 1, fun fuel hf acc => ?_⟩
    obtain ⟨fuel, rfl⟩ : ∃ f, fuel = f + 1 := ⟨fuel - 1, by omega⟩
    rw [bytesLoop]
    cases x with
    | scalar v tag rt st a l =>
      have h' : buf.drop i = .scalar v tag rt st a l :: (eflattenL xs ++ .seqEnd el :: rest) := by simpa [eflatten] using h
      have hs := deserScalarTyped_scalar ref cfg (.int false 8) h'
      simp only [peek_cons ref h', List.mapM_cons, byteFn]
      simp only [scalarTyped] at hs
      cases hp : parseIntUnsigned 8 cfg.legacyOctal v with
      | none =>
        simp only [hp, Option.map_none, expect_none] at hs
        obtain ⟨e, c, he⟩ := hs
        simp [he]
      | some u =>
        simp only [hp, Option.map_some, expect_some] at hs
        simp only [hs]
        have := hn fuel (by omega) (acc ++ [u])
        simp only [eflatten_scalar_length] at this
        have hidx : i + 1 + (eflattenL xs).length + 1 = i + ((eflatten (.scalar v tag rt st a l)).length + (eflattenL xs).length) + 1 := by
          simp; omega
        rw [hidx] at this
        have htn : (Int.ofNat u).toNat = u := by simp
        simp only [htn]
        cases hm : xs.mapM (byteFn cfg) with
        | none => simpa [hm] using this
        | some bs =>
          simp only [hm, Option.map_some, expect_some] at this
          simp [this]
    | seq a tag rt l el' items =>
      have h' := drop_seq (rest := eflattenL xs ++ .seqEnd el :: rest) (by simpa using h)
      obtain ⟨e, c, he⟩ := deserScalarTyped_other ref cfg (.int false 8) h' rfl
      simp [peek_cons ref h', he, byteFn]
    | map a l el' es =>
      have h' := drop_map (rest := eflattenL xs ++ .seqEnd el :: rest) (by simpa using h)
      obtain ⟨e, c, he⟩ := deserScalarTyped_other ref cfg (.int false 8) h' rfl
      simp [peek_cons ref h', he, byteFn]

theorem ref_bytes (df : Bool) (cfg : Cfg) (t : ENode) : Ref df cfg .bytes t := by
  intro buf i ref rest h
  cases t with
  | scalar v tag rt st a l =>
    refine ⟨1, fun fuel hf => ?_⟩
    obtain ⟨fuel, rfl⟩ : ∃ f, fuel = f + 1 := ⟨fuel - 1, by omega⟩
    rw [deser, interp]
    have h' := drop_scalar h
    simp only [peek_cons ref h', next_cons ref h']
    apply NodeOut.of_expect
    split
    · cases Base64.decode (utf8Bytes v) <;> simp
    · simp
  | seq a tag rt l el items =>
    have h' := drop_seq h
    obtain ⟨n, hn⟩ := bytesLoop_spec cfg items ref (drop_succ_of_drop h')
    refine ⟨n + 1, fun fuel hf => ?_⟩
    obtain ⟨fuel, rfl⟩ : ∃ f, fuel = f + 1 := ⟨fuel - 1, by omega⟩
    rw [deser, interp]
    simp only [peek_cons ref h', next_cons ref h']
    apply NodeOut.of_expect
    have := hn fuel (by omega) []
    simp only [List.nil_append] at this
    have e : i + (eflatten (.seq a tag rt l el items)).length = i + 1 + (eflattenL items).length + 1 := by
      simp; omega
    rw [e]
    exact this
  | map a l el es =>
    refine ⟨1, fun fuel hf => ?_⟩
    obtain ⟨fuel, rfl⟩ : ∃ f, fuel = f + 1 := ⟨fuel - 1, by omega⟩
    rw [deser, interp]
    simp only [peek_cons ref (drop_map h)]
    exact NodeOut.of_err (by simp)

end SaphyrVerif.Lemmas.C05
