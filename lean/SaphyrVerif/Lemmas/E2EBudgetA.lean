import SaphyrVerif.Lemmas.E2EBudgetDe
/-!
End-to-end composition with the budget enforcer, part 5a: the cursor-only loops.
-/
namespace SaphyrVerif.Lemmas.E2EBudget
open SaphyrVerif SaphyrVerif.Scalars SaphyrVerif.Pump SaphyrVerif.Budget SaphyrVerif.De

set_option linter.unusedSimpArgs false
set_option linter.unusedVariables false

variable {P : BP} (hcl : Closed P)
include hcl

theorem capture_brStep {fuel : Nat} (ih : BA P fuel) :
    ∀ {c}, P.Inv c → BR P (De.capture (fuel + 1) c) (De.capture (fuel + 1) (strip c)) := by
  intro c hi
  rw [De.capture, De.capture]
  b_loop

theorem captureSeq_brStep {fuel : Nat} (ih : BA P fuel) :
    ∀ fps evs {c}, P.Inv c → BR P (De.captureSeq (fuel + 1) c fps evs) (De.captureSeq (fuel + 1) (strip c) fps evs) := by
  intro fps evs c hi
  rw [De.captureSeq, De.captureSeq]
  b_loop

theorem captureMap_brStep {fuel : Nat} (ih : BA P fuel) :
    ∀ fps evs {c}, P.Inv c → BR P (De.captureMap (fuel + 1) c fps evs) (De.captureMap (fuel + 1) (strip c) fps evs) := by
  intro fps evs c hi
  rw [De.captureMap, De.captureMap]
  b_loop

theorem skipOneNode_brStep {fuel : Nat} (ih : BA P fuel) :
    ∀ {c}, P.Inv c → BR P (De.skipOneNode (fuel + 1) c) (De.skipOneNode (fuel + 1) (strip c)) := by
  intro c hi
  rw [De.skipOneNode, De.skipOneNode]
  b_loop

theorem skipDepth_brStep {fuel : Nat} (ih : BA P fuel) :
    ∀ depth {c}, P.Inv c → BR P (De.skipDepth (fuel + 1) c depth) (De.skipDepth (fuel + 1) (strip c) depth) := by
  intro depth c hi
  rw [De.skipDepth, De.skipDepth]
  b_loop

theorem collectTaggedSeq_brStep {fuel : Nat} (ih : BA P fuel) :
    ∀ depth acc {c}, P.Inv c →
      BR P (De.collectTaggedSeq (fuel + 1) c depth acc) (De.collectTaggedSeq (fuel + 1) (strip c) depth acc) := by
  intro depth acc c hi
  rw [De.collectTaggedSeq, De.collectTaggedSeq]
  b_loop

theorem bytesLoop_brStep {fuel : Nat} (ih : BA P fuel) :
    ∀ cfg acc {c}, P.Inv c → BR P (De.bytesLoop (fuel + 1) cfg c acc) (De.bytesLoop (fuel + 1) cfg (strip c) acc) := by
  intro cfg acc c hi
  rw [De.bytesLoop, De.bytesLoop]
  b_loop

theorem seqElems_brStep {fuel : Nat} (ih : BA P fuel) :
    ∀ cfg t acc {c}, P.Inv c → BR P (De.seqElems (fuel + 1) cfg t c acc) (De.seqElems (fuel + 1) cfg t (strip c) acc) := by
  intro cfg t acc c hi
  rw [De.seqElems, De.seqElems]
  b_loop

theorem tupleElems_brStep {fuel : Nat} (ih : BA P fuel) :
    ∀ cfg ts acc {c}, P.Inv c →
      BR P (De.tupleElems (fuel + 1) cfg ts c acc) (De.tupleElems (fuel + 1) cfg ts (strip c) acc) := by
  intro cfg ts acc c hi
  cases ts <;> rw [De.tupleElems, De.tupleElems]
  all_goals b_loop

end SaphyrVerif.Lemmas.E2EBudget
