import SaphyrVerif.Model.Event
/-!
Documents as trees (the parser's contract is that its events are the flattening of such trees).
Shared by the budget, pump and deserializer specifications.
-/
namespace SaphyrVerif

inductive Node where
  | scalar (value : List Char) (style : Scalars.Style) (anchor : Nat) (tag : Option (List Char))
  | seq (anchor : Nat) (tag : Option (List Char)) (items : List Node)
  | map (anchor : Nat) (tag : Option (List Char)) (entries : List (Node × Node))
  | alias (id : Nat)

mutual
def flatten : Node → List Raw
  | .scalar v st a t => [.scalar v st a t]
  | .seq a t items => .seqStart a t :: (flattenL items ++ [.seqEnd])
  | .map a t entries => .mapStart a t :: (flattenE entries ++ [.mapEnd])
  | .alias id => [.alias id]
def flattenL : List Node → List Raw
  | [] => []
  | n :: ns => flatten n ++ flattenL ns
def flattenE : List (Node × Node) → List Raw
  | [] => []
  | (k, v) :: es => flatten k ++ flatten v ++ flattenE es
end

/-- one document of a stream: `DocumentStart`, the root node, `DocumentEnd` -/
def flattenDoc (d : Node) : List Raw := .docStart false :: (flatten d ++ [.docEnd])

def flattenDocs : List Node → List Raw
  | [] => []
  | d :: ds => flattenDoc d ++ flattenDocs ds

/-- a whole stream as the parser emits it -/
def flattenStream (ds : List Node) : List Raw := .streamStart :: (flattenDocs ds ++ [.streamEnd])

end SaphyrVerif
