/-!
Specification of "the input stops inside a directive line" (fix bfd6267 of `ChunkedChars`): the text after
the last line break, with leading byte-order marks ignored, begins with `%`.  Written with list functions
only; shares nothing with the flag bookkeeping of the model (`Reader.noteChar`).
-/
namespace SaphyrVerif.Spec.Lines

/-- the characters `ChunkedChars` treats as line breaks -/
def isBreak (c : Char) : Bool := c == '\n' || c == '\r'

def isBom (c : Char) : Bool := c == Char.ofNat 0xFEFF

/-- the (unterminated) last line: everything after the last line break -/
def lastLine (t : List Char) : List Char := (t.reverse.takeWhile (fun c => !isBreak c)).reverse

/-- the unterminated last line begins with `%` (byte-order marks in front of it do not count) -/
def lastLineIsDirective (t : List Char) : Bool := ((lastLine t).dropWhile isBom).head? == some '%'

/-- what the reader path hands to the scanner for a text: the text, plus one line break when it stops inside
a directive line -/
def terminated (t : List Char) : List Char := if lastLineIsDirective t then t ++ ['\n'] else t

end SaphyrVerif.Spec.Lines
