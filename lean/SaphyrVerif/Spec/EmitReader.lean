import SaphyrVerif.Model.Emitter
/-!
Specification side of C13 / C20: a plain tree `PVal`, `erase : SVal → PVal` (what a value means as
YAML data: wrappers dropped, enum notations mapped to their YAML shape) and a line-structured
reference READER `readDoc : List Char → Option PVal` for the dialect the emitter produces:

* lines are split at LF (CR and CRLF are line breaks too); every line = indentation + text
* block sequences (`- `), block mappings with implicit keys (`key: value`, `key:`; at most 1024 characters up to the `:`), complex keys
  (`? key` / `: value`), compact nesting after `- `, `? `, `: `; a sequence that is the value of a key
  may start at the key's own indentation
* flow sequences / mappings on one line, plain / single-quoted / double-quoted scalars, multi-line plain
  scalars (continuation lines), literal and folded block scalars (indentation indicator, chomping)
* comments (` #…` after a token, `#…` lines), blank lines, tags (`!…` skipped), `%YAML` prologue
  (a directive must be followed by `---`), document markers at column 0 (a second document = `none`)
* plain scalars resolve as the untyped deserializer does: null words, YAML 1.1 booleans, decimal
  integers, otherwise strings; duplicate keys in one mapping = `none`

This is my formalisation of the YAML subset; it shares nothing with the emitter model (it only
imports it for `SVal` and the line splitter).  It is validated, not verified, against the real parser:
the differential run reads every emitted text with both.
-/
namespace SaphyrVerif.Emit
open SaphyrVerif

inductive PVal where
  | null
  | bool (b : Bool)
  | int (i : Int)
  | str (s : List Char)
  | seq (items : List PVal)
  | map (entries : List (PVal × PVal))
deriving Repr, Inhabited

mutual
def PVal.beq : PVal → PVal → Bool
  | .null, .null => true
  | .bool a, .bool b => a == b
  | .int a, .int b => a == b
  | .str a, .str b => a == b
  | .seq a, .seq b => PVal.beqList a b
  | .map a, .map b => PVal.beqEntries a b
  | _, _ => false
def PVal.beqList : List PVal → List PVal → Bool
  | [], [] => true
  | a :: as, b :: bs => PVal.beq a b && PVal.beqList as bs
  | _, _ => false
def PVal.beqEntries : List (PVal × PVal) → List (PVal × PVal) → Bool
  | [], [] => true
  | (k1, v1) :: as, (k2, v2) :: bs => PVal.beq k1 k2 && PVal.beq v1 v2 && PVal.beqEntries as bs
  | _, _ => false
end

instance : BEq PVal := ⟨PVal.beq⟩

/-! ### `erase` -/

mutual
/-- the YAML data a Serde value stands for -/
def erase : SVal → PVal
  | .unit => .null
  | .none => .null
  | .bool b => .bool b
  | .int i => .int i
  | .str s => .str s
  | .some v => erase v
  | .newtypeStruct v => erase v
  | .seq items => .seq (eraseList items)
  | .tuple items => .seq (eraseList items)
  | .tupleStruct items => .seq (eraseList items)
  | .map _ entries => .map (eraseEntries entries)
  | .unitVariant _ variant => .str variant
  | .newtypeVariant variant v => .map [(.str variant, erase v)]
  | .tupleVariant variant items => .map [(.str variant, .seq (eraseList items))]
  | .structVariant variant fields => .map [(.str variant, .map (eraseEntries fields))]
  | .flowSeq v => erase v
  | .flowMap v => erase v
  | .commented v _ => erase v
  | .spaceAfter v => erase v
  | .litStr s => .str s
  | .foldStr s => .str s
def eraseList : List SVal → List PVal
  | [] => []
  | v :: vs => erase v :: eraseList vs
def eraseEntries : List (SVal × SVal) → List (PVal × PVal)
  | [] => []
  | (k, v) :: es => (erase k, erase v) :: eraseEntries es
end

/-! ### lines -/

structure Line where
  indent : Nat
  text : List Char
deriving Repr, DecidableEq, Inhabited

/-- CR LF and CR are line breaks, like LF -/
def normBreaks : List Char → List Char
  | '\r' :: '\n' :: cs => '\n' :: normBreaks cs
  | '\r' :: cs => '\n' :: normBreaks cs
  | c :: cs => c :: normBreaks cs
  | [] => []

def mkLine (raw : List Char) : Line :=
  ⟨(raw.takeWhile (· == ' ')).length, raw.dropWhile (· == ' ')⟩

/-- the lines of a text (the piece after the final line break is not a line when it is empty) -/
def toLines (s : List Char) : List Line :=
  let pieces := splitNl (normBreaks s)
  let pieces := if pieces.getLast? == some [] then pieces.dropLast else pieces
  pieces.map mkLine

def Line.isBlank (l : Line) : Bool := l.text.isEmpty
/-- blank or comment-only -/
def Line.isSkippable (l : Line) : Bool := l.text.isEmpty || l.text.head? == some '#'

def skipBlank : List Line → List Line
  | l :: ls => if l.isSkippable then skipBlank ls else l :: ls
  | [] => []

def dropSpaces (cs : List Char) : List Char := cs.dropWhile (· == ' ')
def trimEndSpaces (cs : List Char) : List Char := (cs.reverse.dropWhile (fun c => c == ' ' || c == '\t')).reverse

/-- rest of a line after a token: only blanks and an optional comment (`#` must follow a blank or
start the rest) -/
def restIsEmptyOrComment (afterToken : List Char) : Bool :=
  match afterToken with
  | [] => true
  | c :: _ =>
    if c == ' ' || c == '\t' then
      match afterToken.dropWhile (fun c => c == ' ' || c == '\t') with
      | [] => true
      | '#' :: _ => true
      | _ => false
    else false

/-! ### scalars -/

def isDecDigit (c : Char) : Bool := '0' ≤ c && c ≤ '9'

def decValue : List Char → Nat → Nat
  | [], acc => acc
  | c :: cs, acc => decValue cs (acc * 10 + (c.toNat - 48))

/-- optional sign: (negative?, rest) -/
def splitSign (s : List Char) : Bool × List Char :=
  match s with
  | '-' :: r => (true, r)
  | '+' :: r => (false, r)
  | _ => (false, s)

/-- `[-+]?[0-9]+` -/
def parseDecInt (s : List Char) : Option Int :=
  let digits := (splitSign s).2
  if digits.isEmpty || !digits.all isDecDigit then none
  else some (if (splitSign s).1 then - Int.ofNat (decValue digits 0) else Int.ofNat (decValue digits 0))

/-- how the untyped deserializer resolves a plain scalar -/
def resolvePlain (s : List Char) : PVal :=
  let l := lowerAscii s
  if s.isEmpty || s == ['~'] || l == "null".toList then .null
  else if l == "true".toList || l == "yes".toList || l == "y".toList || l == "on".toList then .bool true
  else if l == "false".toList || l == "no".toList || l == "n".toList || l == "off".toList then .bool false
  else match parseDecInt s with
    | some i => .int i
    | none => .str s

def hexDigitVal (c : Char) : Option Nat :=
  if '0' ≤ c && c ≤ '9' then some (c.toNat - 48)
  else if 'a' ≤ c && c ≤ 'f' then some (c.toNat - 87)
  else if 'A' ≤ c && c ≤ 'F' then some (c.toNat - 55)
  else none

def hexValue : List Char → Option Nat
  | [] => some 0
  | cs => cs.foldl (fun acc c => match acc, hexDigitVal c with
      | some a, some d => some (a * 16 + d)
      | _, _ => none) (some 0)

/-- body of a double-quoted scalar up to the closing quote: (decoded text, rest after the quote) -/
def readDq : List Char → Option (List Char × List Char)
  | [] => none
  | '"' :: rest => some ([], rest)
  | '\\' :: e :: rest =>
    let simple (c : Char) := (readDq rest).map fun (t, r) => (c :: t, r)
    match e with
    | '\\' => simple '\\' | '"' => simple '"' | '/' => simple '/' | ' ' => simple ' '
    | '0' => simple (Char.ofNat 0) | 'a' => simple (Char.ofNat 7) | 'b' => simple (Char.ofNat 8)
    | 't' => simple '\t' | 'n' => simple '\n' | 'v' => simple (Char.ofNat 11) | 'f' => simple (Char.ofNat 12)
    | 'r' => simple '\r' | 'e' => simple (Char.ofNat 0x1b) | 'N' => simple (Char.ofNat 0x85)
    | '_' => simple (Char.ofNat 0xA0) | 'L' => simple (Char.ofNat 0x2028) | 'P' => simple (Char.ofNat 0x2029)
    | 'x' =>
      match hexValue (rest.take 2) with
      | some n => if (rest.take 2).length == 2 then (readDq (rest.drop 2)).map fun (t, r) => (Char.ofNat n :: t, r) else none
      | none => none
    | 'u' =>
      match hexValue (rest.take 4) with
      | some n => if (rest.take 4).length == 4 then (readDq (rest.drop 4)).map fun (t, r) => (Char.ofNat n :: t, r) else none
      | none => none
    | _ => none
  | c :: rest => (readDq rest).map fun (t, r) => (c :: t, r)
termination_by cs => cs.length
decreasing_by all_goals simp_wf <;> omega

/-- body of a single-quoted scalar -/
def readSq : List Char → Option (List Char × List Char)
  | [] => none
  | '\'' :: '\'' :: rest => (readSq rest).map fun (t, r) => ('\'' :: t, r)
  | '\'' :: rest => some ([], rest)
  | c :: rest => (readSq rest).map fun (t, r) => (c :: t, r)

/-- skip a tag token `!…` and the blanks after it -/
def skipTag (cs : List Char) : List Char :=
  match cs with
  | '!' :: _ => dropSpaces (cs.dropWhile (· != ' '))
  | _ => cs

/-- is `cs` (the text right after a `:`) the end of an implicit key: end of line or a blank -/
def colonEndsKey (after : List Char) : Bool :=
  match after with
  | [] => true
  | c :: _ => c == ' ' || c == '\t'

/-- split a block-context plain text at the first `: ` / trailing `:` that is not inside a comment:
`some (key, afterColon)`; the scan stops at ` #` -/
def splitPlainKey : List Char → List Char → Option (List Char × List Char)
  | _, [] => none
  | acc, ':' :: rest => if colonEndsKey rest then some (acc.reverse, rest) else splitPlainKey (':' :: acc) rest
  | acc, ' ' :: '#' :: _ => if acc.isEmpty then none else none
  | acc, '\t' :: '#' :: _ => if acc.isEmpty then none else none
  | acc, c :: rest => splitPlainKey (c :: acc) rest

/-- first line of a plain scalar in block context: text up to ` #`, without trailing blanks;
the flag tells whether a comment ended it -/
def plainFirstLine : List Char → List Char → List Char × Bool
  | acc, [] => (trimEndSpaces acc.reverse, false)
  | acc, ' ' :: '#' :: _ => (trimEndSpaces acc.reverse, true)
  | acc, '\t' :: '#' :: _ => (trimEndSpaces acc.reverse, true)
  | acc, c :: rest => plainFirstLine (c :: acc) rest

/-- does a plain continuation line contain a mapping indicator (`: ` or trailing `:`)? -/
def hasKeyIndicator (cs : List Char) : Bool := (splitPlainKey [] cs).isSome

/-- continuation lines of a multi-line plain scalar: lines indented at least `n`; blank lines
inside fold to line feeds; a comment ends the scalar.  Returns the folded tail, the remaining lines,
`none` if a continuation line holds a mapping indicator. -/
def plainContinuation (n : Nat) : List Line → Nat → Option (List Char × List Line)
  | [], _ => some ([], [])
  | l :: ls, blanks =>
    if l.isBlank then
      -- blank lines count only if the scalar continues after them
      match plainContinuation n ls (blanks + 1) with
      | some ([], _) => some ([], l :: ls)
      | r => r
    else if l.indent < n || l.text.head? == some '#' then some ([], l :: ls)
    else if hasKeyIndicator l.text then none
    else
      let (t, commented) := plainFirstLine [] l.text
      let sep := if blanks == 0 then [' '] else List.replicate blanks '\n'
      if commented then some (sep ++ t, ls)
      else match plainContinuation n ls 0 with
        | some (tail, rest) => some (sep ++ t ++ tail, rest)
        | none => none

/-! ### flow collections (one line) -/

def isFlowIndicator (c : Char) : Bool := c == ',' || c == '[' || c == ']' || c == '{' || c == '}'

/-- plain scalar inside a flow collection: up to a flow indicator, `: `, `:`+indicator, or ` #` -/
def flowPlain : List Char → List Char → List Char × List Char
  | acc, [] => (trimEndSpaces acc.reverse, [])
  | acc, ':' :: rest =>
    match rest with
    | [] => (trimEndSpaces acc.reverse, ':' :: rest)
    | c :: _ => if c == ' ' || isFlowIndicator c then (trimEndSpaces acc.reverse, ':' :: rest) else flowPlain (':' :: acc) rest
  | acc, ' ' :: '#' :: rest => (trimEndSpaces acc.reverse, ' ' :: '#' :: rest)
  | acc, c :: rest => if isFlowIndicator c then (trimEndSpaces acc.reverse, c :: rest) else flowPlain (c :: acc) rest

def hasDupKey : List (PVal × PVal) → Bool
  | [] => false
  | (k, _) :: es => es.any (fun e => e.1 == k) || hasDupKey es

mutual
/-- a flow node at the start of `cs` (blanks skipped): value and the rest of the line -/
def flowNode : Nat → List Char → Option (PVal × List Char)
  | 0, _ => none
  | fuel + 1, cs =>
    match skipTag (dropSpaces cs) with
    | '[' :: rest =>
      match dropSpaces rest with
      | ']' :: r => some (.seq [], r)
      | _ => (flowSeqItems fuel rest).map fun (xs, r) => (.seq xs, r)
    | '{' :: rest =>
      match dropSpaces rest with
      | '}' :: r => some (.map [], r)
      | _ => match flowMapEntries fuel rest with
        | some (es, r) => if hasDupKey es then none else some (.map es, r)
        | none => none
    | '"' :: rest => (readDq rest).map fun (t, r) => (.str t, r)
    | '\'' :: rest => (readSq rest).map fun (t, r) => (.str t, r)
    | cs =>
      match cs with
      | [] => none
      | c :: _ =>
        if c == '&' || c == '*' || c == '%' || c == '@' || c == '`' || c == '#' || isFlowIndicator c then none
        else let (t, r) := flowPlain [] cs
          some (resolvePlain t, r)
/-- the value after a `:` inside a flow collection; nothing before the next `,` / `]` / `}` = null -/
def flowValue : Nat → List Char → Option (PVal × List Char)
  | 0, _ => none
  | fuel + 1, cs =>
    match dropSpaces cs with
    | [] => some (.null, [])
    | c :: r => if c == ',' || c == ']' || c == '}' then some (.null, c :: r) else flowNode fuel (c :: r)
/-- items of a flow sequence after `[` up to and including `]`; an item `k: v` is a one-pair mapping -/
def flowSeqItems : Nat → List Char → Option (List PVal × List Char)
  | 0, _ => none
  | fuel + 1, cs =>
    match flowNode fuel cs with
    | none => none
    | some (v, r) =>
      let item? : Option (PVal × List Char) :=
        match dropSpaces r with
        | ':' :: after => (flowValue fuel after).map fun (x, r) => (.map [(v, x)], r)
        | r' => some (v, r')
      match item? with
      | none => none
      | some (item, r) =>
        match dropSpaces r with
        | ']' :: r => some ([item], r)
        | ',' :: r =>
          -- a comma before the closing bracket is allowed
          (match dropSpaces r with
           | ']' :: r' => some ([item], r')
           | _ => (flowSeqItems fuel r).map fun (vs, r) => (item :: vs, r))
        | _ => none
/-- entries of a flow mapping after `{` up to and including `}` -/
def flowMapEntries : Nat → List Char → Option (List (PVal × PVal) × List Char)
  | 0, _ => none
  | fuel + 1, cs =>
    match flowNode fuel cs with
    | none => none
    | some (k, r) =>
      match dropSpaces r with
      | ':' :: r =>
        match flowValue fuel r with
        | none => none
        | some (v, r) =>
          match dropSpaces r with
          | '}' :: r => some ([(k, v)], r)
          | ',' :: r =>
            (match dropSpaces r with
             | '}' :: r' => some ([(k, v)], r')
             | _ => (flowMapEntries fuel r).map fun (es, r) => ((k, v) :: es, r))
          | _ => none
      | _ => none
end

/-- A flow collection that starts with text `t` and may continue on the following lines: the
lines are joined (one blank between lines, line feeds for blank lines — flow line folding) until the
collection closes; after it only blanks / a comment may follow on its last line. -/
def flowAcross : Nat → List Char → Nat → List Line → Option (PVal × List Line)
  | 0, _, _, _ => none
  | fuel + 1, t, blanks, ls =>
    match flowNode (t.length + 2) t with
    | some (v, after) => if after.isEmpty || restIsEmptyOrComment after then some (v, ls) else none
    | none =>
      match ls with
      | [] => none
      | l :: rest =>
        if l.isBlank then flowAcross fuel t (blanks + 1) rest
        else
          let sep := if blanks == 0 then [' '] else List.replicate blanks '\n'
          flowAcross fuel (trimEndSpaces t ++ sep ++ l.text) 0 rest

/-! ### block scalars -/

inductive Chomp where
  | strip | clip | keep
deriving Repr, DecidableEq

/-- header after `|` / `>`: indentation indicator and chomping indicator in either order, then only
blanks / a comment -/
def blockHeader (cs : List Char) : Option (Option Nat × Chomp) :=
  let digit (c : Char) : Option Nat := if '1' ≤ c && c ≤ '9' then some (c.toNat - 48) else none
  let chomp (c : Char) : Option Chomp := if c == '-' then some .strip else if c == '+' then some .keep else none
  let fin (r : List Char) (d : Option Nat) (ch : Chomp) := if restIsEmptyOrComment r then some (d, ch) else none
  match cs with
  | [] => some (none, .clip)
  | a :: r1 =>
    match digit a, chomp a with
    | some d, _ =>
      (match r1 with
       | b :: r2 => match chomp b with
         | some ch => fin r2 (some d) ch
         | none => fin r1 (some d) .clip
       | [] => some (some d, .clip))
    | none, some ch =>
      (match r1 with
       | b :: r2 => match digit b with
         | some d => fin r2 (some d) ch
         | none => fin r1 none ch
       | [] => some (none, ch))
    | none, none => fin cs none .clip

/-- the lines that belong to a block scalar with content indentation `ind`: blank lines and lines
indented at least `ind`; each is returned without the indentation -/
def blockLines (ind : Nat) : List Line → List (List Char) × List Line
  | [] => ([], [])
  | l :: ls =>
    if l.isBlank then
      let (body, rest) := blockLines ind ls
      ((if l.indent > ind then List.replicate (l.indent - ind) ' ' else []) :: body, rest)
    else if l.indent ≥ ind then
      let (body, rest) := blockLines ind ls
      ((List.replicate (l.indent - ind) ' ' ++ l.text) :: body, rest)
    else ([], l :: ls)

/-- remove the trailing empty lines; returns (lines, number removed) -/
def stripTrailingEmpty (ls : List (List Char)) : List (List Char) × Nat :=
  let kept := (ls.reverse.dropWhile (·.isEmpty)).reverse
  (kept, ls.length - kept.length)

def isSpaced (l : List Char) : Bool := l.head? == some ' ' || l.head? == some '\t'

/-- separator between a line `prev` and the next non-empty line `nxt` with `blanks` empty lines
between them: only two unspaced text lines fold to a blank; otherwise the breaks are kept -/
def foldSep (prev nxt : List Char) (blanks : Nat) : List Char :=
  if prev.isEmpty then List.replicate (blanks + 1) '\n'
  else if isSpaced prev || isSpaced nxt then List.replicate (blanks + 1) '\n'
  else if blanks == 0 then [' '] else List.replicate blanks '\n'

def foldLinesAux : List Char → Nat → List (List Char) → List Char
  | _, _, [] => []
  | prev, blanks, l :: rest =>
    if l.isEmpty then foldLinesAux prev (blanks + 1) rest
    else foldSep prev l blanks ++ l ++ foldLinesAux l 0 rest

/-- line folding of a folded block scalar (lines without their trailing empty lines) -/
def foldLines : List (List Char) → List Char
  | [] => []
  | l :: rest => l ++ foldLinesAux l 0 rest

def joinNl : List (List Char) → List Char
  | [] => []
  | [l] => l
  | l :: rest => l ++ ['\n'] ++ joinNl rest

/-- a block scalar whose header text (after `|` or `>`) is `hdr`; `n` = the least indentation the
node may have (parent indentation + 1; 0 at the root, where the parent indentation is −1) -/
def readBlockScalar (folded : Bool) (hdr : List Char) (n : Nat) (ls : List Line) : Option (List Char × List Line) :=
  match blockHeader hdr with
  | none => none
  | some (explicit, chomp) =>
    -- content indentation: explicit = parent + digit, else that of the first non-blank line
    let ind? : Option Nat :=
      match explicit with
      | some d => some (n - 1 + d)   -- parent indentation = n − 1 (0 at the root, as the parser has it)
      | none =>
        match ls.find? (fun l => !l.isBlank) with
        | some l => if l.indent ≥ n then some l.indent else none
        | none => none
    match ind? with
    | none =>
      -- no content lines: only the blank lines belong to the scalar
      let blanks := ls.takeWhile (·.isBlank)
      let rest := ls.dropWhile (·.isBlank)
      -- the external parser clips an empty scalar that runs to the end of the input to one line feed
      some (match chomp with
        | .keep => List.replicate blanks.length '\n'
        | .clip => if rest.isEmpty then ['\n'] else []
        | .strip => [], rest)
    | some ind =>
      -- leading blank lines must not be indented deeper than the content
      let leading := ls.takeWhile (·.isBlank)
      if explicit.isNone && leading.any (fun l => l.indent > ind) then none else
      let (body, rest) := blockLines ind ls
      let (kept, trailing) := stripTrailingEmpty body
      let text := if folded then foldLines kept else joinNl kept
      let tail := match chomp with
        | .strip => []
        | .clip => if kept.isEmpty then (if rest.isEmpty then ['\n'] else []) else ['\n']
        | .keep => List.replicate (if kept.isEmpty then trailing else trailing + 1) '\n'
      some (text ++ tail, rest)

/-! ### block structure -/

/-- what the text of a line starts with -/
inductive Head where
  | dash (rest : List Char) (gap : Nat)        -- `- rest` / `-`: gap = blanks after the dash
  | question (rest : List Char) (gap : Nat)    -- `? rest` / `?`
  | other

def classify (t : List Char) : Head :=
  match t with
  | ['-'] => .dash [] 0
  | '-' :: ' ' :: r => .dash (dropSpaces r) (1 + (r.takeWhile (· == ' ')).length)
  | ['?'] => .question [] 0
  | '?' :: ' ' :: r => .question (dropSpaces r) (1 + (r.takeWhile (· == ' ')).length)
  | _ => .other

/-- an implicit key at the start of `t`: (key value, text after the colon) -/
def implicitKey (t : List Char) : Option (PVal × List Char) :=
  match skipTag t with
  | '"' :: r =>
    match readDq r with
    | some (k, ':' :: after) => if colonEndsKey after then some (.str k, after) else none
    | _ => none
  | '\'' :: r =>
    match readSq r with
    | some (k, ':' :: after) => if colonEndsKey after then some (.str k, after) else none
    | _ => none
  | t' =>
    match t' with
    | [] => none
    | c :: _ =>
      if c == '[' || c == '{' || c == '|' || c == '>' || c == '#' || c == '&' || c == '*' || c == '%' || c == '@' || c == '`' then none
      else (splitPlainKey [] t').map fun (k, after) => (resolvePlain (trimEndSpaces k), after)

/-- the longest implicit key `key:` (YAML: the `:` must follow within 1024 characters of the start of the key, on
the same line; the blanks before the `:` count).  Longer keys need the explicit form `? key`; inside flow
collections there is no limit. -/
def maxImplicitKey : Nat := 1024

/-- the column at which `rest` starts when `after` = the text following a token that ended at
column `col`, with `rest = dropSpaces after` -/
def restColumn (col : Nat) (after : List Char) : Nat := col + (after.takeWhile (· == ' ')).length

mutual
/-- A block node whose first line is the head of `ls` (blank / comment lines skipped); its lines are
indented at least `n`.  `seqAt` = `some c`: a block sequence at indentation `c` (< `n`) is also
accepted (the value of a key at column `c`).  `inlineOnly`: the node starts on the line of its key
(`key: node`), where block collections are not allowed.  No line of its own = null. -/
def blockNode : Nat → (n : Nat) → (seqAt : Option Nat) → (inlineOnly : Bool) → List Line → Option (PVal × List Line)
  | 0, _, _, _, _ => none
  | fuel + 1, n, seqAt, inlineOnly, ls =>
    match skipBlank ls with
    | [] => some (.null, [])
    | l :: rest =>
      let isDash := match classify l.text with | .dash _ _ => true | _ => false
      if l.indent < n && !(seqAt == some l.indent && isDash) then some (.null, l :: rest)
      else
        match classify l.text with
        | .dash _ _ => if inlineOnly then none else (blockSeq fuel l.indent (l :: rest)).map fun (xs, r) => (.seq xs, r)
        | .question _ _ =>
          if inlineOnly then none else
          match blockMap fuel l.indent (l :: rest) with
          | some (es, r) => if hasDupKey es then none else some (.map es, r)
          | none => none
        | .other =>
          let t := skipTag l.text
          let tagCol := l.indent + (l.text.length - t.length)
          match t with
          | [] => -- a tag alone: the node follows on the next lines
            if l.text.isEmpty then none else blockNode fuel n seqAt false rest
          | c :: body =>
            if c == '[' || c == '{' then flowAcross (rest.length + 1) t 0 rest
            else if c == '|' then
              (readBlockScalar false body n rest).map fun (s, r) => (.str s, r)
            else if c == '>' then
              (readBlockScalar true body n rest).map fun (s, r) => (.str s, r)
            else if c == '&' || c == '*' || c == '%' || c == '@' || c == '`' then none
            else
              match implicitKey t with
              | some _ =>
                if inlineOnly then none else
                match blockMap fuel tagCol ({ indent := tagCol, text := t } :: rest) with
                | some (es, r) => if hasDupKey es then none else some (.map es, r)
                | none => none
              | none =>
                if c == '"' then
                  match readDq body with
                  | some (s, after) => if after.isEmpty || restIsEmptyOrComment after then some (.str s, rest) else none
                  | none => none
                else if c == '\'' then
                  match readSq body with
                  | some (s, after) => if after.isEmpty || restIsEmptyOrComment after then some (.str s, rest) else none
                  | none => none
                else if c == '#' then none
                else
                  let (first, commented) := plainFirstLine [] t
                  if commented then some (resolvePlain first, rest)
                  else match plainContinuation n rest 0 with
                    | some ([], r) => some (resolvePlain first, r)
                    | some (tail, r) => some (.str (first ++ tail), r)
                    | none => none
/-- the entries `- node` of a block sequence at indentation `col` -/
def blockSeq : Nat → (col : Nat) → List Line → Option (List PVal × List Line)
  | 0, _, _ => none
  | fuel + 1, col, ls =>
    match skipBlank ls with
    | [] => some ([], [])
    | l :: rest =>
      if l.indent != col then (if l.indent > col then none else some ([], l :: rest))
      else match classify l.text with
        | .dash item gap =>
          -- the item starts on the dash line (compact) or on the following lines
          let ls' := if item.isEmpty then rest else { indent := col + 1 + gap, text := item } :: rest
          match blockNode fuel (col + 1) none false ls' with
          | none => none
          | some (v, r) => (blockSeq fuel col r).map fun (vs, r) => (v :: vs, r)
        | _ => some ([], l :: rest)
/-- the entries of a block mapping at indentation `col` -/
def blockMap : Nat → (col : Nat) → List Line → Option (List (PVal × PVal) × List Line)
  | 0, _, _ => none
  | fuel + 1, col, ls =>
    match skipBlank ls with
    | [] => some ([], [])
    | l :: rest =>
      if l.indent != col then (if l.indent > col then none else some ([], l :: rest))
      else match classify l.text with
        | .dash _ _ => some ([], l :: rest)
        | .question keyText gap =>
          let ls' := if keyText.isEmpty then rest else { indent := col + 1 + gap, text := keyText } :: rest
          match blockNode fuel (col + 1) none false ls' with
          | none => none
          | some (k, r) =>
            -- optional `: value` line at the same indentation
            match skipBlank r with
            | vl :: r2 =>
              if vl.indent == col && (vl.text == [':'] || (vl.text.take 2 == [':', ' '])) then
                let after := vl.text.drop 1
                let item := dropSpaces after
                let ls2 := if item.isEmpty then r2 else { indent := restColumn (col + 1) after, text := item } :: r2
                match blockNode fuel (col + 1) (some col) false ls2 with
                | none => none
                | some (v, r3) => (blockMap fuel col r3).map fun (es, r) => ((k, v) :: es, r)
              else (blockMap fuel col (vl :: r2)).map fun (es, r) => ((k, .null) :: es, r)
            | [] => some ([(k, .null)], [])
        | .other =>
          match implicitKey l.text with
          | none => if l.text.head? == some ':' then none else none
          | some (k, after) =>
            let item := dropSpaces after
            let keyLen := l.text.length - after.length
            -- an implicit key is limited: its `:` must follow within 1024 characters of the start of the key
            if keyLen > maxImplicitKey + 1 then none else
            let value :=
              if item.isEmpty || item.head? == some '#' then blockNode fuel (col + 1) (some col) false rest
              else blockNode fuel (col + 1) none true ({ indent := restColumn (col + keyLen) after, text := item } :: rest)
            match value with
            | none => none
            | some (v, r) => (blockMap fuel col r).map fun (es, r) => ((k, v) :: es, r)
end

/-- is the line a document marker `---` / `...` at column 0 (alone or followed by a blank)? -/
def isDocMarker (l : Line) (m : List Char) : Bool :=
  l.indent == 0 && l.text.take 3 == m && (match l.text.drop 3 with | [] => true | c :: _ => c == ' ' || c == '\t')

/-- Read a text as ONE YAML document: `none` = not well-formed / not exactly one document.
A NUL character ends the input (the external scanner pads the end of input with NUL). -/
def readDoc (text : List Char) : Option PVal :=
  let text := text.takeWhile (· != Char.ofNat 0)
  let ls := toLines text
  -- prologue: directives must be followed by `---`
  let (hasDirective, ls) :=
    match skipBlank ls with
    | l :: rest => if l.indent == 0 && l.text.head? == some '%' then (true, rest) else (false, ls)
    | [] => (false, ls)
  let body? : Option (List Line) :=
    match skipBlank ls with
    | l :: rest =>
      if isDocMarker l "---".toList then
        let after := dropSpaces (l.text.drop 3)
        some (if after.isEmpty then rest else { indent := 3 + ((l.text.drop 3).takeWhile (· == ' ')).length, text := after } :: rest)
      else if hasDirective then none else some (l :: rest)
    | [] => if hasDirective then none else some []
  match body? with
  | none => none
  | some body =>
    -- a document end marker: nothing but blank lines / comments may follow
    let doc := body.takeWhile (fun l => !isDocMarker l "...".toList)
    let marker := (body.dropWhile (fun l => !isDocMarker l "...".toList)).head?
    let after := (body.dropWhile (fun l => !isDocMarker l "...".toList)).drop 1
    let markerOk := match marker with
      | some l => (l.text.drop 3).isEmpty || restIsEmptyOrComment (l.text.drop 3)
      | none => true
    if !markerOk || !(skipBlank after).isEmpty then none
    else if doc.any (fun l => isDocMarker l "---".toList) then none
    else
      let fuel := 2 * text.length + 2 * doc.length + 8
      match blockNode fuel 0 none false doc with
      | some (v, rest) => if (skipBlank rest).isEmpty then some v else none
      | none => none

end SaphyrVerif.Emit
