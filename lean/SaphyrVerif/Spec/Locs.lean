import SaphyrVerif.Model.Event
/-!
Specification of text positions for C16, stated by counting (no walk, no state):
a line ends after an LF, and after a CR that is not directly followed by an LF; the line of character
offset `i` is one more than the number of line ends before `i`; its column is the distance to the
character after the last line end before `i` (or to the start of the text); its byte offset is the UTF-8
length of the text before it.
-/
namespace SaphyrVerif.Spec.Locs
open SaphyrVerif

/-- character `j` of the text ends a line -/
def endsLine (text : List Char) (j : Nat) : Bool :=
  match text[j]? with
  | some c => c == '\n' || (c == '\r' && text[j + 1]? != some '\n')
  | none => false

/-- the offsets before `i` at which a line ends, in increasing order -/
def lineEndsBefore (text : List Char) (i : Nat) : List Nat := (List.range i).filter (endsLine text)

/-- 1-based line of character offset `i` -/
def lineOf (text : List Char) (i : Nat) : Nat := 1 + (lineEndsBefore text i).length

/-- offset of the first character of the line that contains offset `i` -/
def lineStart (text : List Char) (i : Nat) : Nat :=
  match (lineEndsBefore text i).getLast? with
  | some j => j + 1
  | none => 0

/-- 0-based column of character offset `i` -/
def colOf (text : List Char) (i : Nat) : Nat := i - lineStart text i

/-- byte offset of character offset `i` -/
def byteOf (text : List Char) (i : Nat) : Nat := utf8Len (text.take i)

end SaphyrVerif.Spec.Locs
