import SaphyrVerif.Model.PathMap
/-!
Specification side of C18 (what the model is proved against).  Deliberately free of loops and state:

* `candidates m t f` — the entries of the map a comparison `f` accepts for the target `t`;
* `uniqueOf` — "exactly one candidate, and it has a leaf", else nothing;
* `positions v` — the tree paths (relative to the node) of every position the target type consumes and
  the recorder can see in a traversal `v`, each with the locations of the node at that position;
  `ignoredAt v` — the tree paths of the values Serde discards (`IgnoredAny`);
* `reports ds`, `passing ds` — the validation reports / accepted values of a stream, in order.
-/
namespace SaphyrVerif.PathMap

def candidates {α} (m : Map α) (t : Path) (f : Path → Path → Bool) : List (Path × α) :=
  m.filter (fun e => f t e.1)

def uniqueOf {α} : List (Path × α) → Option (α × List Char)
  | [(c, loc)] => (leafString c).map (fun leaf => (loc, leaf))
  | _ => none

/-- intended meaning of `find_unique_by` -/
def findUniqueSpec {α} (m : Map α) (t : Path) (f : Path → Path → Bool) : Option (α × List Char) :=
  if t = [] then none else uniqueOf (candidates m t f)

mutual
/-- relative tree paths (with node locations) of the positions the target type CONSUMES and the
    recorder can see; values handed to `IgnoredAny` (and everything below them) are not positions -/
def positions {α} : Visit α → List (Path × α)
  | .leaf _ => []
  | .seq items => positionsItems items 0
  | .map c entries => ([], c) :: positionsEntries entries
  | .ignored _ => []
def positionsItems {α} : List (α × Visit α) → Nat → List (Path × α)
  | [], _ => []
  | (loc, v) :: rest, i =>
    (if v.isIgnored then [] else
      ([idxSeg i], loc) :: (positions v).map (fun e => (idxSeg i :: e.1, e.2))) ++ positionsItems rest (i + 1)
def positionsEntries {α} : List (Option (List Char) × α × Visit α) → List (Path × α)
  | [] => []
  | (none, _, _) :: rest => positionsEntries rest
  | (some k, loc, v) :: rest =>
    (if v.isIgnored then [] else
      ([keySeg k], loc) :: (positions v).map (fun e => (keySeg k :: e.1, e.2))) ++ positionsEntries rest
end

mutual
/-- relative tree paths of the values handed to `IgnoredAny` (what `deserialize_ignored_any` forgets) -/
def ignoredAt {α} : Visit α → List Path
  | .leaf _ => []
  | .seq items => ignoredItems items 0
  | .map _ entries => ignoredEntries entries
  | .ignored _ => [[]]
def ignoredItems {α} : List (α × Visit α) → Nat → List Path
  | [], _ => []
  | (_, v) :: rest, i => (ignoredAt v).map (fun q => idxSeg i :: q) ++ ignoredItems rest (i + 1)
def ignoredEntries {α} : List (Option (List Char) × α × Visit α) → List Path
  | [] => []
  | (none, _, _) :: rest => ignoredEntries rest
  | (some k, _, v) :: rest => (ignoredAt v).map (fun q => keySeg k :: q) ++ ignoredEntries rest
end

/-- Serde decides by the key text whether a value is a field or ignored, so in a real traversal no tree
    path is both consumed and ignored -/
def Consistent {α} (v : Visit α) : Prop := ∀ q ∈ (positions v).map (·.1), q ∉ ignoredAt v

def Doc.isDeErr {V E R} : Doc V E R → Bool
  | .deErr _ => true
  | _ => false

/-- validation passes (or there is nothing to validate) -/
def Doc.passes {V E R} : Doc V E R → Bool
  | .value _ (some _) => false
  | _ => true

def reports {V E R} : List (Doc V E R) → List R
  | [] => []
  | .value _ (some r) :: ds => r :: reports ds
  | _ :: ds => reports ds

def passing {V E R} : List (Doc V E R) → List V
  | [] => []
  | .value v none :: ds => v :: passing ds
  | _ :: ds => passing ds

/-- number of documents whose validation fails -/
def failingCount {V E R} (ds : List (Doc V E R)) : Nat := (ds.filter (fun d => !d.passes)).length

/-- the location map of ONE document on its own: a fresh recorder run over that document's traversal -/
def docMap {α} (visit : Visit α) : Map α := (record visit { current := [], map := [] }).2.map

/-- what a document contributes to a validating loop, as a function of THAT document alone -/
def DocR.alone {α V E P} : DocR α V E P → Doc V E (P × Map α)
  | .skip => .skip
  | .deErr e => .deErr e
  | .value v _ none => .value v none
  | .value v visit (some p) => .value v (some (p, docMap visit))

end SaphyrVerif.PathMap
