import SaphyrVerif.Model.De
/-!
Specification for C03 / C04 / C05: the meaning of a *tree* of logical events under a target type.
Plain structural recursion over the parsed tree (no cursor, no pending queues, no look-ahead):
`interp cfg ty t` fills every Rust position from the YAML node at the corresponding position;
mappings are first turned into their *effective entry list* `effEntries` — own entries under the
duplicate-key policy, then the entries of the merge sources from last to first, skipping keys already
present — which is what "the mapping written out in full" means.
-/
namespace SaphyrVerif.Spec
open SaphyrVerif SaphyrVerif.Scalars SaphyrVerif.Pump SaphyrVerif.De

/-- a node of the logical (alias-free) event stream -/
inductive ENode where
  | scalar (v : List Char) (tag : Nat) (rawTag : Option (List Char)) (st : Style) (anchor : Nat) (loc : Loc)
  | seq (anchor tag : Nat) (rawTag : Option (List Char)) (loc eloc : Loc) (items : List ENode)
  | map (anchor : Nat) (loc eloc : Loc) (entries : List (ENode × ENode))
deriving Repr, Inhabited

mutual
def eflatten : ENode → List Ev
  | .scalar v tag rt st a l => [.scalar v tag rt st a l]
  | .seq a tag rt l el items => .seqStart a tag rt l :: (eflattenL items ++ [.seqEnd el])
  | .map a l el entries => .mapStart a l :: (eflattenE entries ++ [.mapEnd el])
def eflattenL : List ENode → List Ev
  | [] => []
  | n :: ns => eflatten n ++ eflattenL ns
def eflattenE : List (ENode × ENode) → List Ev
  | [] => []
  | (k, v) :: es => eflatten k ++ eflatten v ++ eflattenE es
end

def ENode.loc : ENode → Loc
  | .scalar _ _ _ _ _ l | .seq _ _ _ l _ _ | .map _ l _ _ => l

mutual
/-- identity of a key: structure, scalar text and tag class — style, anchors, locations ignored -/
def fpOf : ENode → FP
  | .scalar v tag _ _ _ _ => .scalar v tag
  | .seq _ _ _ _ _ items => .seq (fpOfL items)
  | .map _ _ _ entries => .map (fpOfE entries)
def fpOfL : List ENode → List FP
  | [] => []
  | n :: ns => fpOf n :: fpOfL ns
def fpOfE : List (ENode × ENode) → List (FP × FP)
  | [] => []
  | (k, v) :: es => (fpOf k, fpOf v) :: fpOfE es
end

/-- the merge key: one plain untagged scalar `<<` -/
def isMergeKeyNode : ENode → Bool
  | .scalar v tag _ st _ _ => st == .plain && tag == tagNone && v == ['<', '<']
  | _ => false

/-- null-like scalar node (plain `""`, `~`, `null`) -/
def isNullishNode : ENode → Bool
  | .scalar v _ _ st _ _ => scalarIsNullish v st
  | _ => false

/-- a scalar merge value that is YAML null: tagged `!!null`, or plain null-like text (`""`, `~`, `null`),
and not forced to a string by `!!str` or the non-specific tag `!` -/
def isNullMergeNode : ENode → Bool
  | .scalar v tag _ st _ _ => (tag == tagNull || scalarIsNullish v st) && tag != tagString && tag != tagNonSpecific
  | _ => false

mutual
/-- entries contributed by a merge value: a mapping gives its own fields in order followed by its own
merge sources from last to first (recursively); a sequence gives its elements' contributions from last to
first; a null scalar (`isNullMergeNode`) gives nothing; anything else is an error (`none`). No de-duplication here. -/
def sourceEntries : ENode → Option (List (ENode × ENode))
  | .scalar v tag rt st a l => if isNullMergeNode (.scalar v tag rt st a l) then some [] else none
  | .map _ _ _ entries => mapSourceEntries entries
  | .seq _ _ _ _ _ items => seqSourceEntries items
/-- own fields first, then (accumulated) nested merge batches, newest batch first -/
def mapSourceEntries : List (ENode × ENode) → Option (List (ENode × ENode))
  | [] => some []
  | (k, v) :: rest =>
    if isMergeKeyNode k then
      match sourceEntries v, mapSourceEntries rest with
      | some b, some r =>
        -- `r` = fields of the rest ++ later batches; this batch goes after all of them
        some (r ++ b)
      | _, _ => none
    else
      match mapSourceEntries rest with
      | some r => some ((k, v) :: r)
      | none => none
/-- elements from last to first -/
def seqSourceEntries : List ENode → Option (List (ENode × ENode))
  | [] => some []
  | n :: ns =>
    match sourceEntries n, seqSourceEntries ns with
    | some b, some r => some (r ++ b)
    | _, _ => none
end

/-- own (non-merge) entries of a mapping and its merge values, in document order -/
def splitEntries : List (ENode × ENode) → List (ENode × ENode) × List ENode
  | [] => ([], [])
  | (k, v) :: rest =>
    let (own, ms) := splitEntries rest
    if isMergeKeyNode k then (own, v :: ms) else ((k, v) :: own, ms)

/-- duplicate-key policy over the own entries: `none` = duplicate-key error -/
def applyPolicy (dup : DupPolicy) : List (ENode × ENode) → List FP → Option (List (ENode × ENode))
  | [], _ => some []
  | (k, v) :: rest, seen =>
    let fp := fpOf k
    let isDup := seen.any (· == fp)
    match dup with
    | .error => if isDup then none else (applyPolicy dup rest (fp :: seen)).map ((k, v) :: ·)
    | .firstWins => if isDup then applyPolicy dup rest seen else (applyPolicy dup rest (fp :: seen)).map ((k, v) :: ·)
    | .lastWins => (applyPolicy dup rest (fp :: seen)).map ((k, v) :: ·)

/-- merged entries: skip every key already present (own keys override merged ones; first merged wins) -/
def dropSeen : List (ENode × ENode) → List FP → List (ENode × ENode)
  | [], _ => []
  | (k, v) :: rest, seen =>
    let fp := fpOf k
    if seen.any (· == fp) then dropSeen rest seen else (k, v) :: dropSeen rest (fp :: seen)

/-- The effective entry list of a mapping = "the mapping written out in full". -/
def effEntries (dup : DupPolicy) (entries : List (ENode × ENode)) : Option (List (ENode × ENode)) :=
  let (own, merges) := splitEntries entries
  match applyPolicy dup own [] with
  | none => none
  | some ownKept =>
    -- merge sources from last to first
    match (merges.reverse.mapM sourceEntries) with
    | none => none
    | some batches =>
      let seen := (ownKept.map fun p => fpOf p.1).reverse
      some (ownKept ++ dropSeen batches.flatten seen)

/-! ### scalars -/

def scalarTyped (cfg : Cfg) (ty : Ty) (v : List Char) (tag : Nat) (st : Style) : Option Val :=
  match ty with
  | .bool => (if cfg.strictBooleans then parseStrictBool v else parseYaml11Bool v).map .bool
  | .int true w => (parseIntSigned w cfg.legacyOctal v).map .int
  | .int false w => (parseIntUnsigned w cfg.legacyOctal v).map (fun n => .int (Int.ofNat n))
  | .float w => (Float.parseYaml12Float w v).map (.float w)
  | .char =>
    if tag != tagString && (tag == tagNull || scalarIsNullish v st) then none
    else if tag != tagString && cfg.noSchema && maybeNotString v st then none
    else match v with
      | [c] => some (.char c)
      | _ => none
  | _ => none

def stringOfScalar (cfg : Cfg) (v : List Char) (tag : Nat) : Option (List Char) :=
  if tag == tagBinary && !cfg.ignoreBinaryTagForString then
    (Base64.decode (utf8Bytes v)).bind utf8DecodeBytes
  else if !canParseIntoString tag && tag != tagNonSpecific && !(cfg.ignoreBinaryTagForString && tag == tagBinary) then none
  else some v

def stringTyped (cfg : Cfg) (v : List Char) (tag : Nat) (st : Style) : Option (List Char) :=
  if (tag == tagNull || scalarIsNullish v st) && tag != tagString then none
  else if cfg.noSchema && maybeNotString v st && tag != tagString then none
  else stringOfScalar cfg v tag

/-- identifier (struct field name): a key node is read as a field name exactly as a scalar node is read
as a string (`deserialize_str` = `deserialize_string` on scalars) -/
def identOf (cfg : Cfg) : ENode → Option (List Char)
  | .scalar v tag _ st _ _ => stringTyped cfg v tag st
  | _ => none

def anyScalar (cfg : Cfg) (v : List Char) (tag : Nat) (st : Style) : Option Val :=
  if tag == tagNull || scalarIsNullish v st then some .unit
  else if !(st == .plain) || !canParseIntoString tag || tag == tagBinary || tag == tagString then
    (stringOfScalar cfg v tag).map .str
  else
    match (if cfg.strictBooleans then parseStrictBool v else parseYaml11Bool v) with
    | some b => some (.bool b)
    | none =>
      let t := trim v
      let int? : Option Int :=
        if t.head? == some '-' && !leadingZeroDecimal t then parseIntSigned 64 cfg.legacyOctal t
        else match parseIntUnsigned 64 cfg.legacyOctal t with
          | some u => some (Int.ofNat u)
          | none => parseIntSigned 64 cfg.legacyOctal t
      match int? with
      | some i => some (.int i)
      | none =>
        match Float.parseYaml12Float 64 v with
        | some f =>
          if f.isFinite 64 then some (.float 64 f)
          else if f == .nan then some (.str ".nan".toList)
          else if f.isNegative 64 then some (.str "-.inf".toList)
          else some (.str ".inf".toList)
        | none => some (.str v)

/-! ### untyped target -/

mutual
/-- nesting depth of a node (fuel for `interpAny`) -/
def depthOf : ENode → Nat
  | .scalar .. => 1
  | .seq _ _ _ _ _ items => depthOfL items + 1
  | .map _ _ _ entries => depthOfE entries + 1
def depthOfL : List ENode → Nat
  | [] => 0
  | n :: ns => max (depthOf n) (depthOfL ns)
def depthOfE : List (ENode × ENode) → Nat
  | [] => 0
  | (k, v) :: es => max (max (depthOf k) (depthOf v)) (depthOfE es)
end

/-- untyped interpretation: scalars resolved by the core-schema heuristics, sequences to lists, mappings
to their effective entries in order. Fuel = nesting depth (merged entries are sub-nodes). -/
def interpAny (cfg : Cfg) : Nat → ENode → Option Val
  | 0, _ => none
  | fuel + 1, n =>
    match n with
    | .scalar v tag _ st _ _ => anyScalar cfg v tag st
    | .seq _ _ _ _ _ items => (items.mapM (interpAny cfg fuel)).map .seq
    | .map _ _ _ entries =>
      match effEntries cfg.dup entries with
      | none => none
      | some es =>
        (es.mapM fun (k, v) =>
          match interpAny cfg fuel k, interpAny cfg fuel v with
          | some a, some b => some (a, b)
          | _, _ => none).map .map

/-! ### typed targets -/

def isNullScalar (n : ENode) : Bool :=
  match n with
  | .scalar v tag _ st _ _ => tag == tagNull || scalarIsNullish v st
  | _ => false

/-- value of a position with no node at all (scalar-form variant `Variant` whose variant has a payload
type): only unit-like types have one -/
def interpAbsent : Ty → Option Val
  | .option _ => some .none
  | .unit => some .unit
  | .any => some .unit
  | .newtype t => interpAbsent t
  | _ => none

/-- an interpreter of one position -/
abbrev NodeFn := ENode → Option Val

/-- field table of a struct: name, "is an `Option` type" (missing ⇒ `None`), interpreter of the value -/
abbrev FieldFns := List (String × Bool × NodeFn)

/-- tuples: exactly one node per component — surplus or missing elements are errors -/
def tupleFrom : List NodeFn → List ENode → Option (List Val)
  | [], [] => some []
  | f :: fs, n :: ns =>
    match f n, tupleFrom fs ns with
    | some v, some vs => some (v :: vs)
    | _, _ => none
  | _, _ => none

def listFrom (f : NodeFn) : List ENode → Option (List Val)
  | [] => some []
  | n :: ns =>
    match f n, listFrom f ns with
    | some v, some vs => some (v :: vs)
    | _, _ => none

def pairsFrom (kf vf : NodeFn) : List (ENode × ENode) → Option (List (Val × Val))
  | [] => some []
  | (k, v) :: es =>
    match kf k, vf v, pairsFrom kf vf es with
    | some a, some b, some r => some ((a, b) :: r)
    | _, _, _ => none

/-- each effective entry is looked up by field name; unknown fields are ignored (their value must still be
well-formed for the untyped target) or rejected; a second entry for the same field is an error -/
def fieldEntriesFrom (cfg : Cfg) (fs : FieldFns) (deny : Bool) : List (ENode × ENode) → List (String × Val) →
    Option (List (String × Val))
  | [], acc => some acc
  | (k, v) :: es, acc =>
    match identOf cfg k with
    | none => none
    | some name =>
      match fs.find? (fun f => f.1.toList == name) with
      | some (fname, _, vf) =>
        if acc.any (fun p => p.1 == fname) then none
        else match vf v with
          | none => none
          | some val => fieldEntriesFrom cfg fs deny es (acc ++ [(fname, val)])
      | none =>
        if deny then none
        else match interpAny cfg (depthOf v) v with
          | none => none
          | some _ => fieldEntriesFrom cfg fs deny es acc

/-- missing `Option` fields are `None`, other missing fields are errors; declaration order -/
def fillFields : FieldFns → List (String × Val) → Option (List (String × Val))
  | [], _ => some []
  | (n, isOpt, _) :: rest, got =>
    match got.find? (fun p => p.1 == n), fillFields rest got with
    | some p, some r => some (p :: r)
    | none, some r => if isOpt then some ((n, Val.none) :: r) else none
    | _, none => none

def structFrom (cfg : Cfg) (fs : FieldFns) (deny : Bool) (es : List (ENode × ENode)) : Option Val :=
  match fieldEntriesFrom cfg fs deny es [] with
  | none => none
  | some got => (fillFields fs got).map .struct

/-- a struct-shaped node: a mapping (effective entries) or a null-like scalar (no entries) -/
def structNode (cfg : Cfg) (fs : FieldFns) (deny : Bool) (n : ENode) : Option Val :=
  match n with
  | .map _ _ _ entries =>
    match effEntries cfg.dup entries with
    | none => none
    | some es => structFrom cfg fs deny es
  | .scalar .. => if isNullScalar n then structFrom cfg fs deny [] else none
  | _ => none

/-- a tuple-shaped node: a sequence with exactly one item per component; a null-like scalar for the empty
tuple; or a `!!binary` scalar whose payload has exactly one byte per component, every component being an
integer (or untyped) position (`acc` = "this component accepts a byte") -/
def tupleNode (fs : List NodeFn) (acc : List Bool) (n : ENode) : Option Val :=
  match n with
  | .seq _ _ _ _ _ items => (tupleFrom fs items).map .seq
  | .scalar v tag _ _ _ _ =>
    if isNullScalar n then (if fs.isEmpty then some (.seq []) else none)
    else if tag == tagBinary then
      match Base64.decode (utf8Bytes v) with
      | none => none
      | some bs =>
        if bs.length == acc.length && acc.all id then some (.seq (bs.map fun b => .int (Int.ofNat b))) else none
    else none
  | _ => none

/-- positions that accept a byte of a `!!binary` payload -/
def acceptsByte : Ty → Bool
  | .int _ _ | .any => true
  | _ => false

/-- payload interpreters of one variant -/
inductive VarFn where
  | unit
  | newtype (absent : Option Val) (f : NodeFn)
  | tuple (fs : List NodeFn) (acc : List Bool)
  | struct (fs : FieldFns)

/-- payload of the selected variant; `payload = none` is the scalar form `Variant` (no payload node);
`tagged` = the `!Variant payload` notation -/
def variantFrom (cfg : Cfg) : List (String × VarFn) → List Char → Option ENode → Bool → Option Val
  | [], _, _, _ => none
  | (n, vf) :: rest, vname, payload, tagged =>
    if n.toList != vname then variantFrom cfg rest vname payload tagged else
    match vf, payload with
    | .unit, none => some (.variant n .unit)
    | .unit, some p => if tagged || isNullishNode p then some (.variant n .unit) else none
    | .newtype _ f, some p => (f p).map (.variant n)
    | .newtype absent _, none => absent.map (.variant n)
    | .tuple fs acc, some p => (tupleNode fs acc p).map (.variant n)
    | .tuple _ _, none => none
    | .struct fs, some p => (structNode cfg fs false p).map (.variant n)
    | .struct _, none => none

/-- enums: `Variant`, `{Variant: payload}`, `!Variant payload` -/
def enumFrom (cfg : Cfg) (name : String) (vs : List (String × VarFn)) : ENode → Option Val
  | .scalar v tag rawTag st a l =>
    if cfg.noSchema && tag != tagString && maybeNotString v st then none else
    match simpleTaggedEnumName rawTag tag with
    | some tn =>
      if (vs.find? (fun p => p.1.toList == tn)).isSome then
        -- `!Variant payload`: the payload is the scalar itself read as a string-tagged scalar
        variantFrom cfg vs tn (some (.scalar v tagString none st a l)) true
      else if String.ofList tn != name then none
      else variantFrom cfg vs v none false
    | none => variantFrom cfg vs v none false
  | .map _ _ _ entries =>
    match entries with
    | [(.scalar v tag _ st _ _, payload)] =>
      if cfg.noSchema && tag != tagString && maybeNotString v st then none
      else variantFrom cfg vs v (some payload) false
    | _ => none
  | .seq a tag rawTag l el items =>
    match simpleTaggedEnumName rawTag tag with
    | some tn =>
      if (vs.find? (fun p => p.1.toList == tn)).isSome then
        variantFrom cfg vs tn (some (.seq a tagNone none l el items)) true
      else none
    | none => none

def isOptionTy : Ty → Bool
  | .option _ => true
  | _ => false

/-- an `Option` possibly wrapped in newtype structs (the key flags travel through `visit_newtype_struct`) -/
def isOptionKeyTy : Ty → Bool
  | .option _ => true
  | .newtype t => isOptionKeyTy t
  | _ => false

mutual
/-- `interp cfg ty t`: the value of tree `t` at a Rust position of type `ty`; `none` = error.
Structural recursion on the type. -/
def interp (cfg : Cfg) : Ty → NodeFn
  | .any => fun n => interpAny cfg (depthOf n) n
  | .newtype t => interp cfg t
  | .bool => fun n => match n with
    | .scalar v tag _ st _ _ => scalarTyped cfg .bool v tag st
    | _ => none
  | .int s w => fun n => match n with
    | .scalar v tag _ st _ _ => scalarTyped cfg (.int s w) v tag st
    | _ => none
  | .float w => fun n => match n with
    | .scalar v tag _ st _ _ => scalarTyped cfg (.float w) v tag st
    | _ => none
  | .char => fun n => match n with
    | .scalar v tag _ st _ _ => scalarTyped cfg .char v tag st
    | _ => none
  | .string => fun n => match n with
    | .scalar v tag _ st _ _ => (stringTyped cfg v tag st).map .str
    | _ => none
  | .unit => fun n => match n with
    | .scalar v _ _ st _ _ => if scalarIsNullish v st then some .unit else none
    | _ => none
  | .option t => fun n => match n with
    | .scalar v tag _ st _ _ =>
      if tag == tagNull || scalarIsNullishForOption v st then some .none else (interp cfg t n).map .some
    | _ => (interp cfg t n).map .some
  | .bytes => fun n => match n with
    | .scalar v tag _ _ _ _ => if tag == tagBinary then (Base64.decode (utf8Bytes v)).map .bytes else none
    | .seq _ _ _ _ _ items =>
      (items.mapM fun it => match it with
        | ENode.scalar v _ _ _ _ _ => parseIntUnsigned 8 cfg.legacyOctal v
        | _ => none).map .bytes
    | _ => none
  | .seq t => fun n => match n with
    | .seq _ _ _ _ _ items => (listFrom (interp cfg t) items).map .seq
    | .scalar v tag _ _ _ _ =>
      if isNullScalar n then some (.seq [])
      else if tag == tagBinary then
        match t with
        | .int _ _ | .any => (Base64.decode (utf8Bytes v)).map (fun bs => .seq (bs.map fun b => .int (Int.ofNat b)))
        | _ =>
          -- an EMPTY byte string is the empty sequence of any element type; bytes fit only integer elements
          (Base64.decode (utf8Bytes v)).bind (fun bs => if bs.isEmpty then some (.seq []) else none)
      else none
    | _ => none
  | .tuple ts => tupleNode (interpFns cfg ts) (ts.map acceptsByte)
  | .map kt vt => fun n => match n with
    | .map _ _ _ entries =>
      match effEntries cfg.dup entries with
      | none => none
      | some es =>
        -- a key position is like a value position, except that an empty mapping in `Option` key position is `None`
        let kf : NodeFn := fun k => match isOptionKeyTy kt, k with
          | true, .map _ _ _ [] => some .none
          | _, _ => interp cfg kt k
        (pairsFrom kf (interp cfg vt) es).map .map
    | .scalar .. => if isNullScalar n then some (.map []) else none
    | _ => none
  | .struct fields deny => structNode cfg (fieldFns cfg fields) deny
  | .enum name variants => enumFrom cfg name (variantFns cfg variants)

def interpFns (cfg : Cfg) : List Ty → List NodeFn
  | [] => []
  | t :: ts => interp cfg t :: interpFns cfg ts

def fieldFns (cfg : Cfg) : List (String × Ty) → FieldFns
  | [] => []
  | (n, t) :: rest => (n, isOptionTy t, interp cfg t) :: fieldFns cfg rest

def variantFns (cfg : Cfg) : List (String × VTy) → List (String × VarFn)
  | [] => []
  | (n, vt) :: rest =>
    (n, match vt with
        | .unit => VarFn.unit
        | .newtype t => VarFn.newtype (interpAbsent t) (interp cfg t)
        | .tuple ts => VarFn.tuple (interpFns cfg ts) (ts.map acceptsByte)
        | .struct fs => VarFn.struct (fieldFns cfg fs)) :: variantFns cfg rest
end

/-- the whole document into `ty` -/
def interpDoc (cfg : Cfg) (ty : Ty) (t : ENode) : Option Val := interp cfg ty t

end SaphyrVerif.Spec

namespace SaphyrVerif.Spec
open SaphyrVerif SaphyrVerif.Pump SaphyrVerif.De

mutual
/-- parse a logical event list back into a tree (inverse of `eflatten`); fuel = list length -/
def parseNode : Nat → List Ev → Option (ENode × List Ev)
  | 0, _ => none
  | fuel + 1, evs =>
    match evs with
    | .scalar v tag rt st a l :: rest => some (.scalar v tag rt st a l, rest)
    | .seqStart a tag rt l :: rest =>
      match parseItems fuel rest with
      | some (items, el, rest') => some (.seq a tag rt l el items, rest')
      | none => none
    | .mapStart a l :: rest =>
      match parseEntries fuel rest with
      | some (es, el, rest') => some (.map a l el es, rest')
      | none => none
    | _ => none
def parseItems : Nat → List Ev → Option (List ENode × Loc × List Ev)
  | 0, _ => none
  | fuel + 1, evs =>
    match evs with
    | .seqEnd el :: rest => some ([], el, rest)
    | _ =>
      match parseNode fuel evs with
      | some (n, rest) =>
        match parseItems fuel rest with
        | some (ns, el, rest') => some (n :: ns, el, rest')
        | none => none
      | none => none
def parseEntries : Nat → List Ev → Option (List (ENode × ENode) × Loc × List Ev)
  | 0, _ => none
  | fuel + 1, evs =>
    match evs with
    | .mapEnd el :: rest => some ([], el, rest)
    | _ =>
      match parseNode fuel evs with
      | some (k, rest) =>
        match parseNode fuel rest with
        | some (v, rest') =>
          match parseEntries fuel rest' with
          | some (es, el, rest'') => some ((k, v) :: es, el, rest'')
          | none => none
        | none => none
      | none => none
end

/-- the single root node of a well-formed logical event list -/
def treeOf (evs : List Ev) : Option ENode :=
  match parseNode (evs.length + 1) evs with
  | some (n, []) => some n
  | _ => none

end SaphyrVerif.Spec
