import SaphyrVerif.Spec.Interp
/-!
Specification for C05 (negative clause, nested form): the *sub-positions* of a typed position.

`SubPos cfg ty n ty' n'` — "while the tree `n` is read at a Rust position of type `ty`, the node `n'` is read at
a Rust position of type `ty'`" — is the reflexive-transitive closure of the one-step "component of" relation of
every container type: the element of a `Vec`, the component of a tuple, key and value of an (effective) entry of a
map, the value of an (effective) entry of a struct whose key names a declared field, the payload of an enum
variant in map notation `{Variant: payload}` and in tag notation `!Variant [ … ]`, and the transparent
wrappers `Option` / newtype struct.  It mentions neither the deserializer model nor `interp`; the only
specification-level notions it uses are `effEntries` ("the mapping written out in full": duplicates resolved by
the policy, merge keys expanded), `identOf` (a key read as a field name) and `simpleTaggedEnumName`.

It is used to state that a failing position (for instance a tuple position on a sequence of the wrong length)
makes EVERY enclosing position fail: `Props.C05.arity_mismatch_is_error`.
-/
namespace SaphyrVerif.Spec
open SaphyrVerif SaphyrVerif.Scalars SaphyrVerif.Pump SaphyrVerif.De

/-- the Rust position that reads the payload node of a variant (`unit` variants have none) -/
def payloadTy : VTy → Option Ty
  | .unit => none
  | .newtype t => some t
  | .tuple ts => some (.tuple ts)
  | .struct fs => some (.struct fs false)

/-- `SubPos cfg ty n ty' n'`: reading `n` at type `ty` reads `n'` at type `ty'` (see the module comment) -/
inductive SubPos (cfg : Cfg) : Ty → ENode → Ty → ENode → Prop where
  /-- the position itself -/
  | here (ty : Ty) (n : ENode) : SubPos cfg ty n ty n
  /-- newtype structs are transparent -/
  | newtype {t : Ty} {n : ENode} {ty' : Ty} {n' : ENode} :
      SubPos cfg t n ty' n' → SubPos cfg (.newtype t) n ty' n'
  /-- `Option<T>` reads a (non-null) node as `T` -/
  | option {t : Ty} {n : ENode} {ty' : Ty} {n' : ENode} :
      SubPos cfg t n ty' n' → SubPos cfg (.option t) n ty' n'
  /-- every item of a sequence is an element of the `Vec<T>` -/
  | seqItem {te : Ty} {a tag : Nat} {rt : Option (List Char)} {l el : Loc} {items : List ENode} {it : ENode}
      {ty' : Ty} {n' : ENode} :
      it ∈ items → SubPos cfg te it ty' n' → SubPos cfg (.seq te) (.seq a tag rt l el items) ty' n'
  /-- the `i`-th item of a sequence is the `i`-th component of the tuple -/
  | tupleItem {ts : List Ty} {a tag : Nat} {rt : Option (List Char)} {l el : Loc} {items : List ENode} {te : Ty}
      {it : ENode} {ty' : Ty} {n' : ENode} :
      (te, it) ∈ ts.zip items → SubPos cfg te it ty' n' → SubPos cfg (.tuple ts) (.seq a tag rt l el items) ty' n'
  /-- the key of an effective entry of a mapping read as `Map<K, V>` -/
  | mapKey {kt vt : Ty} {a : Nat} {l el : Loc} {entries es : List (ENode × ENode)} {k v : ENode}
      {ty' : Ty} {n' : ENode} :
      effEntries cfg.dup entries = some es → (k, v) ∈ es → SubPos cfg kt k ty' n' →
      SubPos cfg (.map kt vt) (.map a l el entries) ty' n'
  /-- the value of an effective entry of a mapping read as `Map<K, V>` -/
  | mapValue {kt vt : Ty} {a : Nat} {l el : Loc} {entries es : List (ENode × ENode)} {k v : ENode}
      {ty' : Ty} {n' : ENode} :
      effEntries cfg.dup entries = some es → (k, v) ∈ es → SubPos cfg vt v ty' n' →
      SubPos cfg (.map kt vt) (.map a l el entries) ty' n'
  /-- the value of an effective entry of a mapping read as a struct, when the key names a declared field (the
  first field of that name) -/
  | field {fields : List (String × Ty)} {deny : Bool} {a : Nat} {l el : Loc} {entries es : List (ENode × ENode)}
      {k v : ENode} {name : List Char} {fname : String} {fty : Ty} {ty' : Ty} {n' : ENode} :
      effEntries cfg.dup entries = some es → (k, v) ∈ es → identOf cfg k = some name →
      fields.find? (fun f => f.1.toList == name) = some (fname, fty) → SubPos cfg fty v ty' n' →
      SubPos cfg (.struct fields deny) (.map a l el entries) ty' n'
  /-- `{Variant: payload}`: the payload of the (first) variant of that name -/
  | variantMap {name : String} {variants : List (String × VTy)} {a : Nat} {l el : Loc} {kv : List Char} {ktag : Nat}
      {krt : Option (List Char)} {kst : Style} {ka : Nat} {kl : Loc} {payload : ENode} {vn : String} {vty : VTy}
      {pty : Ty} {ty' : Ty} {n' : ENode} :
      variants.find? (fun p => p.1.toList == kv) = some (vn, vty) → payloadTy vty = some pty →
      SubPos cfg pty payload ty' n' →
      SubPos cfg (.enum name variants) (.map a l el [(.scalar kv ktag krt kst ka kl, payload)]) ty' n'
  /-- `!Variant [ … ]`: the sequence itself, without its tag, is the payload of the (first) variant of that name -/
  | variantTagged {name : String} {variants : List (String × VTy)} {a tag : Nat} {rt : Option (List Char)} {l el : Loc}
      {items : List ENode} {tn : List Char} {vn : String} {vty : VTy} {pty : Ty} {ty' : Ty} {n' : ENode} :
      simpleTaggedEnumName rt tag = some tn → variants.find? (fun p => p.1.toList == tn) = some (vn, vty) →
      payloadTy vty = some pty → SubPos cfg pty (.seq a tagNone none l el items) ty' n' →
      SubPos cfg (.enum name variants) (.seq a tag rt l el items) ty' n'

/-- a node with at least one child, or a sequence: not a scalar and not the empty mapping (the two node shapes
`Option` positions and `Option` key positions read as `None` without looking at the inner type) -/
def solid : ENode → Bool
  | .seq .. => true
  | .map _ _ _ (_ :: _) => true
  | _ => false

end SaphyrVerif.Spec
