import SaphyrVerif.Model.Pump
/-!
Specification for C02: documents as located trees with anchor marks and alias leaves, and `expand`,
the substitution that replaces every alias by the expansion of the most recently *completed* node
with that id (and keeps the ids on definitions).  No frames, no inject stack, no counters.
-/
namespace SaphyrVerif.Spec
open SaphyrVerif SaphyrVerif.Scalars SaphyrVerif.Pump

/-- a document node with the locations the parser attaches to its events -/
inductive LNode where
  | scalar (v : List Char) (st : Style) (a : Nat) (tag : Option (List Char)) (loc : Loc)
  | seq (a : Nat) (tag : Option (List Char)) (loc eloc : Loc) (items : List LNode)
  | map (a : Nat) (tag : Option (List Char)) (loc eloc : Loc) (entries : List (LNode × LNode))
  | alias (id : Nat) (loc : Loc)

mutual
/-- the parser items of a node -/
def itemsOf : LNode → List RawItem
  | .scalar v st a tag loc => [.ev (.scalar v st a tag) loc]
  | .seq a tag loc eloc items => .ev (.seqStart a tag) loc :: (itemsOfL items ++ [.ev .seqEnd eloc])
  | .map a tag loc eloc entries => .ev (.mapStart a tag) loc :: (itemsOfE entries ++ [.ev .mapEnd eloc])
  | .alias id loc => [.ev (.alias id) loc]
def itemsOfL : List LNode → List RawItem
  | [] => []
  | n :: ns => itemsOf n ++ itemsOfL ns
def itemsOfE : List (LNode × LNode) → List RawItem
  | [] => []
  | (k, v) :: es => itemsOf k ++ itemsOf v ++ itemsOfE es
end

/-- style of a delivered scalar: unchanged (the former special case that turned an *anchored* empty quoted
scalar into a plain one was repaired in /repo, see known_findings.json C02-anchored-empty-quoted) -/
def normStyle (_v : List Char) (st : Style) (_a : Nat) : Style := st

def scalarEv (v : List Char) (st : Style) (a : Nat) (tag : Option (List Char)) (loc : Loc) : Ev :=
  .scalar v (tagCode tag) tag (normStyle v st a) a loc

abbrev Tab := List (Nat × List Ev)

inductive ExpErr where
  | unknown (loc : Loc)
  | recursive (loc : Loc)
deriving Repr, DecidableEq

/-- result of an expansion: delivered events, the extended anchor table, and the number of *replayed*
events (Σ over the aliases of the length of the buffer each one replays) -/
structure Exp where
  evs : List Ev
  tab : Tab
  replayed : Nat
deriving Repr, DecidableEq

mutual
/-- `expand σ opn t`: events of `t` with every alias replaced by the buffer of the most recently
completed anchor of that id; `opn` = ids of the enclosing anchored containers (an alias to one of them
is a recursive reference); the table is extended by the anchors completed inside `t`. -/
def expand (σ : Tab) (opn : List Nat) : LNode → Except ExpErr Exp
  | .scalar v st a tag loc =>
    let e := scalarEv v st a tag loc
    .ok ⟨[e], if a != 0 then setAnchor σ a [e] else σ, 0⟩
  | .alias id loc =>
    if opn.contains id then .error (.recursive loc)
    else match lookupAnchor σ id with
      | none => .error (.unknown loc)
      | some buf => .ok ⟨buf, σ, buf.length⟩
  | .seq a tag loc eloc items =>
    match expandL σ (if a != 0 then a :: opn else opn) items with
    | .error e => .error e
    | .ok r =>
      let whole := Ev.seqStart a (tagCode tag) tag loc :: (r.evs ++ [Ev.seqEnd eloc])
      .ok ⟨whole, if a != 0 then setAnchor r.tab a whole else r.tab, r.replayed⟩
  | .map a _ loc eloc entries =>
    match expandE σ (if a != 0 then a :: opn else opn) entries with
    | .error e => .error e
    | .ok r =>
      let whole := Ev.mapStart a loc :: (r.evs ++ [Ev.mapEnd eloc])
      .ok ⟨whole, if a != 0 then setAnchor r.tab a whole else r.tab, r.replayed⟩
def expandL (σ : Tab) (opn : List Nat) : List LNode → Except ExpErr Exp
  | [] => .ok ⟨[], σ, 0⟩
  | n :: ns =>
    match expand σ opn n with
    | .error e => .error e
    | .ok r1 =>
      match expandL r1.tab opn ns with
      | .error e => .error e
      | .ok r2 => .ok ⟨r1.evs ++ r2.evs, r2.tab, r1.replayed + r2.replayed⟩
def expandE (σ : Tab) (opn : List Nat) : List (LNode × LNode) → Except ExpErr Exp
  | [] => .ok ⟨[], σ, 0⟩
  | (k, v) :: es =>
    match expand σ opn k with
    | .error e => .error e
    | .ok r1 =>
      match expand r1.tab opn v with
      | .error e => .error e
      | .ok r2 =>
        match expandE r2.tab opn es with
        | .error e => .error e
        | .ok r3 => .ok ⟨r1.evs ++ r2.evs ++ r3.evs, r3.tab, r1.replayed + r2.replayed + r3.replayed⟩
end

mutual
/-- number of alias occurrences referring to `id` -/
def aliasCount (id : Nat) : LNode → Nat
  | .scalar .. => 0
  | .alias i _ => if i == id then 1 else 0
  | .seq _ _ _ _ items => aliasCountL id items
  | .map _ _ _ _ entries => aliasCountE id entries
def aliasCountL (id : Nat) : List LNode → Nat
  | [] => 0
  | n :: ns => aliasCount id n + aliasCountL id ns
def aliasCountE (id : Nat) : List (LNode × LNode) → Nat
  | [] => 0
  | (k, v) :: es => aliasCount id k + aliasCount id v + aliasCountE id es
end

mutual
/-- erase all anchor marks (for alias-free trees) -/
def eraseAnchors : LNode → LNode
  | .scalar v st _ tag loc => .scalar v st 0 tag loc
  | .alias id loc => .alias id loc
  | .seq _ tag loc eloc items => .seq 0 tag loc eloc (eraseAnchorsL items)
  | .map _ tag loc eloc entries => .map 0 tag loc eloc (eraseAnchorsE entries)
def eraseAnchorsL : List LNode → List LNode
  | [] => []
  | n :: ns => eraseAnchors n :: eraseAnchorsL ns
def eraseAnchorsE : List (LNode × LNode) → List (LNode × LNode)
  | [] => []
  | (k, v) :: es => (eraseAnchors k, eraseAnchors v) :: eraseAnchorsE es
end

mutual
def aliasFree : LNode → Bool
  | .scalar .. => true
  | .alias .. => false
  | .seq _ _ _ _ items => aliasFreeL items
  | .map _ _ _ _ entries => aliasFreeE entries
def aliasFreeL : List LNode → Bool
  | [] => true
  | n :: ns => aliasFree n && aliasFreeL ns
def aliasFreeE : List (LNode × LNode) → Bool
  | [] => true
  | (k, v) :: es => aliasFree k && aliasFree v && aliasFreeE es
end

mutual
/-- no anchored empty single/double-quoted scalar occurs (the excluded class of `anchor_mark_transparent`) -/
def noAnchoredEmptyQuoted : LNode → Bool
  | .scalar v st a _ _ => !(v.isEmpty && a != 0 && (st == .single || st == .double))
  | .alias .. => true
  | .seq _ _ _ _ items => noAnchoredEmptyQuotedL items
  | .map _ _ _ _ entries => noAnchoredEmptyQuotedE entries
def noAnchoredEmptyQuotedL : List LNode → Bool
  | [] => true
  | n :: ns => noAnchoredEmptyQuoted n && noAnchoredEmptyQuotedL ns
def noAnchoredEmptyQuotedE : List (LNode × LNode) → Bool
  | [] => true
  | (k, v) :: es => noAnchoredEmptyQuoted k && noAnchoredEmptyQuoted v && noAnchoredEmptyQuotedE es
end

/-- erase the anchor id of a delivered event -/
def Ev.eraseAnchor : Ev → Ev
  | .scalar v t rt st _ l => .scalar v t rt st 0 l
  | .seqStart _ t rt l => .seqStart 0 t rt l
  | .mapStart _ l => .mapStart 0 l
  | e => e

/-- a single-document stream as the parser emits it -/
def docStream (t : LNode) (l0 l1 l2 l3 : Loc) : List RawItem :=
  [.ev .streamStart l0, .ev (.docStart false) l1] ++ itemsOf t ++ [.ev .docEnd l2, .ev .streamEnd l3]

/-- Pull `next_impl` until end of input or an error; `none` = out of fuel. -/
def pumpAll : Nat → Pump → List RawItem → List Ev → Option (List Ev × Option PErr × Pump)
  | 0, _, _, _ => none
  | fuel + 1, p, inp, acc =>
    match nextImpl p inp with
    | (.event e, p', rest) => pumpAll fuel p' rest (e :: acc)
    | (.eof, p', _) => some (acc.reverse, none, p')
    | (.error e, p', _) => some (acc.reverse, some e, p')

end SaphyrVerif.Spec
