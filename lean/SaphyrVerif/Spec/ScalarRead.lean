import SaphyrVerif.Basic.Text
import SaphyrVerif.Model.Scalars
import SaphyrVerif.Model.Float
/-!
# Specification side of C12: a YAML *reader* for single scalars

This is a formalisation (mine, not derived from the scanner's source by a tool) of how a YAML 1.2 scanner —
concretely `saphyr-parser-bw` as used by serde-saphyr — reads ONE scalar in the document shapes the
differential uses: double-quoted (`readDq`), single-quoted (`readSq`), plain (`readPlain`), literal and
folded block scalars (`readBlock`), the dispatch on the first character (`startKind`), the document
frame (`readDoc`: optional byte-order mark, `%YAML 1.2` preamble, the position prefix, trailing blanks
and comments), and `resolve`: which core-schema type a *plain* scalar denotes for this crate's reader.

It does not share any machinery with the writer model (`Model/SerScalar.lean`). It is validated — not
verified — against the real parser by the differential run (`scalarrt docs` / `scalarrt rd`).

Dialect restrictions (the reader answers `none`, i.e. claims nothing, outside them): quoted and plain
scalars on one line (no raw line break inside), no NUL, every document ends with a line break, nothing
follows the scalar except blanks / comments / the fixed closing of the position.
-/
namespace SaphyrVerif.Spec.Read
open SaphyrVerif SaphyrVerif.Scalars

def isBlank (c : Char) : Bool := c == ' ' || c == '\t'
def isBreak (c : Char) : Bool := c == '\n' || c == '\r'
def isNul (c : Char) : Bool := c.toNat == 0
def isFlowInd (c : Char) : Bool := c == ',' || c == '[' || c == ']' || c == '{' || c == '}'
def isBlankOrBreakZ (c : Char) : Bool := isBlank c || isBreak c || isNul c

/-! ## double-quoted -/

def hexVal? (c : Char) : Option Nat :=
  let n := c.toNat
  if 48 ≤ n && n ≤ 57 then some (n - 48)
  else if 97 ≤ n && n ≤ 102 then some (n - 87)
  else if 65 ≤ n && n ≤ 70 then some (n - 55)
  else none

/-- a Unicode scalar value (`char::from_u32`) -/
def charOfCode? (v : Nat) : Option Char :=
  if v < 0xD800 || (0xDFFF < v && v < 0x110000) then some (Char.ofNat v) else none

/-- single-character escapes of YAML 1.2 (5.7) as the scanner's table has them -/
def simpleEscape (e : Char) : Option Char :=
  if e == '0' then some (Char.ofNat 0)
  else if e == 'a' then some (Char.ofNat 7)
  else if e == 'b' then some (Char.ofNat 8)
  else if e == 't' || e == '\t' then some '\t'
  else if e == 'n' then some '\n'
  else if e == 'v' then some (Char.ofNat 0xB)
  else if e == 'f' then some (Char.ofNat 0xC)
  else if e == 'r' then some '\r'
  else if e == 'e' then some (Char.ofNat 0x1B)
  else if e == ' ' then some ' '
  else if e == '"' then some '"'
  else if e == '/' then some '/'
  else if e == '\\' then some '\\'
  else if e == 'N' then some (Char.ofNat 0x85)
  else if e == '_' then some (Char.ofNat 0xA0)
  else if e == 'L' then some (Char.ofNat 0x2028)
  else if e == 'P' then some (Char.ofNat 0x2029)
  else none

inductive DqSt where
  | norm
  | esc
  | hex (left : Nat) (val : Nat)

/-- Reader of the inside of a double-quoted scalar (after the opening quote): content and the text
after the closing quote. `none`: unterminated, unknown escape, bad hex, raw break / NUL (outside the
dialect), escaped line break (outside the dialect). -/
def dqRun : DqSt → List Char → List Char → Option (List Char × List Char)
  | .norm, [], _ => none
  | .norm, c :: t, acc =>
    if c == '"' then some (acc.reverse, t)
    else if c == '\\' then dqRun .esc t acc
    else if isBreak c || isNul c then none
    else dqRun .norm t (c :: acc)
  | .esc, [], _ => none
  | .esc, e :: t, acc =>
    match simpleEscape e with
    | some ch => dqRun .norm t (ch :: acc)
    | none =>
      if e == 'x' then dqRun (.hex 2 0) t acc
      else if e == 'u' then dqRun (.hex 4 0) t acc
      else if e == 'U' then dqRun (.hex 8 0) t acc
      else none
  | .hex _ _, [], _ => none
  | .hex 0 _, _ :: _, _ => none
  | .hex (n + 1) v, c :: t, acc =>
    match hexVal? c with
    | none => none
    | some d =>
      let v' := v * 16 + d
      if n == 0 then
        (match charOfCode? v' with
         | some ch => dqRun .norm t (ch :: acc)
         | none => none)
      else dqRun (.hex n v') t acc

/-- a double-quoted scalar at the head of the text -/
def readDq (t : List Char) : Option (List Char × List Char) :=
  match t with
  | '"' :: rest => dqRun .norm rest []
  | _ => none

/-! ## single-quoted -/

/-- inside of a single-quoted scalar; `afterQuote`: a `'` was just seen (it is either the first half of
an escaped `''` or the closing quote) -/
def sqRun : (afterQuote : Bool) → List Char → List Char → Option (List Char × List Char)
  | false, [], _ => none
  | false, c :: t, acc =>
    if c == '\'' then sqRun true t acc
    else if isBreak c || isNul c then none
    else sqRun false t (c :: acc)
  | true, [], acc => some (acc.reverse, [])
  | true, c :: t, acc =>
    if c == '\'' then sqRun false t ('\'' :: acc) else some (acc.reverse, c :: t)

def readSq (t : List Char) : Option (List Char × List Char) :=
  match t with
  | '\'' :: rest => sqRun false rest []
  | _ => none

/-! ## plain -/

/-- the first character exists and satisfies `p` -/
def headSat (p : Char → Bool) : List Char → Bool
  | [] => false
  | n :: _ => p n

/-- does a plain scalar stop in front of `c` (followed by `next`)? — blank/break/NUL is handled by the caller -/
def plainStops (flow : Bool) (c : Char) (next : Option Char) : Bool :=
  (c == ':' && (match next with
                | none => true
                | some n => isBlankOrBreakZ n || (flow && isFlowInd n)))
  || (flow && isFlowInd c)

/-- One-line plain scalar: content (inner blanks kept, trailing blanks dropped) and the rest of the line,
which starts at the terminator: a break / NUL / end, `:` + blank, a flow indicator (flow context), or
`#` after at least one blank. In flow context a `-` directly followed by a flow indicator after blanks
is a scan error (`none`). `acc` and `ws` are reversed. -/
def plainScan (flow : Bool) : List Char → List Char → List Char → Option (List Char × List Char)
  | [], acc, _ => some (acc.reverse, [])
  | c :: t, acc, ws =>
    if isBlank c then plainScan flow t acc (c :: ws)
    else if isBreak c || isNul c then some (acc.reverse, c :: t)
    else if c == '#' && !ws.isEmpty then some (acc.reverse, c :: t)
    else if flow && c == '-' && !ws.isEmpty && headSat isFlowInd t then none
    else if plainStops flow c t.head? then some (acc.reverse, c :: t)
    else plainScan flow t (c :: (ws ++ acc)) []

def readPlain (flow : Bool) (t : List Char) : Option (List Char × List Char) := plainScan flow t [] []

/-! ## which token starts here -/

inductive Kind where
  | plain | dq | sq | literal | folded | other
deriving DecidableEq, Repr

/-- the end of the text, or a blank / break / NUL -/
def endOrBlankZ (r : List Char) : Bool :=
  match r with
  | [] => true
  | c :: _ => isBlankOrBreakZ c

/-- `---` / `...` followed by blank, break or end, at column 0 -/
def isDocMarker (t : List Char) : Bool :=
  match t with
  | a :: b :: c :: r =>
    ((a == '-' && b == '-' && c == '-') || (a == '.' && b == '.' && c == '.')) && endOrBlankZ r
  | _ => false

/-- The scanner's dispatch on the first character `c` of a node (next character `nc`), in flow or block
context, at column 0 or not. `other` = not a scalar token (indicator, anchor, tag, alias, directive,
document marker, comment, error). -/
def startKind (flow col0 : Bool) (t : List Char) : Kind :=
  match t with
  | [] => .other
  | c :: r =>
    let nblank : Bool := match r with | [] => true | n :: _ => isBlankOrBreakZ n
    let nflow : Bool := match r with | [] => false | n :: _ => isFlowInd n
    if col0 && (c == '%' || isDocMarker t) then .other
    else if isFlowInd c then .other
    else if c == '-' then (if nblank then .other else if flow && nflow then .other else .plain)
    else if c == '?' then (if nblank then .other else .plain)
    else if c == ':' then (if nblank then .other else if flow && nflow then .other else .plain)
    else if c == '*' || c == '&' || c == '!' then .other
    else if c == '|' then (if flow then .plain else .literal)
    else if c == '>' then (if flow then .plain else .folded)
    else if c == '\'' then .sq
    else if c == '"' then .dq
    else if c == '%' || c == '@' || c == '`' then .other
    else if c == '#' || isBlankOrBreakZ c then .other
    else .plain

/-! ## block scalars -/

inductive Chomp where
  | strip | clip | keep
deriving DecidableEq, Repr

/-- line breaks are `\n`, `\r` and `\r\n`; all are read as `\n` -/
def normBreaks : List Char → Bool → List Char
  | [], _ => []
  | c :: t, prevCr =>
    if c == '\r' then '\n' :: normBreaks t true
    else if c == '\n' then (if prevCr then normBreaks t false else '\n' :: normBreaks t false)
    else c :: normBreaks t false

def splitNlTerminated : List Char → List Char → Option (List (List Char))
  | [], cur => if cur.isEmpty then some [] else none
  | c :: t, cur =>
    if c == '\n' then (splitNlTerminated t []).map (cur.reverse :: ·)
    else splitNlTerminated t (c :: cur)

/-- split a text in which every line is terminated by a break; `none` if the last line is not -/
def splitLines (t : List Char) (_cur : List Char) : Option (List (List Char)) :=
  splitNlTerminated (normBreaks t false) []

/-- blanks, then optionally a comment — what may follow a token on its line. The comment needs at least
one blank in front of it (`hadBlank`). -/
def isTrailer (hadBlank : Bool) (t : List Char) : Bool :=
  let r := t.dropWhile isBlank
  match r with
  | [] => true
  | c :: _ => c == '#' && (hadBlank || r.length < t.length)

/-- block scalar header after `|` / `>`: chomping and indentation indicators in either order, then a
trailer. Returns (chomp, increment) -/
def parseHeader (h : List Char) : Option (Chomp × Nat) :=
  let digit? (c : Char) : Option Nat := if 48 ≤ c.toNat && c.toNat ≤ 57 then some (c.toNat - 48) else none
  let chomp? (c : Char) : Option Chomp := if c == '+' then some .keep else if c == '-' then some .strip else none
  let fin (ch : Chomp) (inc : Nat) (rest : List Char) : Option (Chomp × Nat) :=
    if isTrailer false rest then some (ch, inc) else none
  match h with
  | [] => some (.clip, 0)
  | c :: r =>
    match chomp? c with
    | some ch =>
      (match r with
       | d :: r2 =>
         (match digit? d with
          | some 0 => none
          | some k => fin ch k r2
          | none => fin ch 0 r)
       | [] => some (ch, 0))
    | none =>
      match digit? c with
      | some 0 => none
      | some k =>
        (match r with
         | c2 :: r2 =>
           (match chomp? c2 with
            | some ch => fin ch k r2
            | none => fin .clip k r)
         | [] => some (.clip, k))
      | none => fin .clip 0 h

def leadingSpaces (l : List Char) : Nat := (l.takeWhile (· == ' ')).length
def allSpaces (l : List Char) : Bool := l.all (· == ' ')
def nls (n : Nat) : List Char := List.replicate n '\n'

/-- a line that only carries a comment (possibly indented) or nothing -/
def isCommentOrBlankLine (l : List Char) : Bool :=
  match l.dropWhile isBlank with
  | [] => true
  | c :: _ => c == '#'

/-- With the indentation `ind` known: is `l` an "empty" line (nothing after at most `ind` spaces)? -/
def isEmptyAt (ind : Nat) (l : List Char) : Bool := allSpaces l && l.length ≤ ind

/-- `...` followed by blank, break or end (checked by the scanner when the block indentation is 0) -/
def isDocEnd (t : List Char) : Bool :=
  match t with
  | '.' :: '.' :: '.' :: r => (match r with | [] => true | c :: _ => isBlankOrBreakZ c)
  | _ => false

/-- Body of a block scalar, line by line, with the indentation `ind` known. `first`: no content line
yet; `prevBlank`: the previous content line started with a blank ("more indented"); `pend`: number of
empty lines since the previous content line. Returns the content before final chomping, the number of
trailing empty lines, the lines left over once a less indented line ended the scalar, and whether no
content line was seen at all.
Folding (`>`): a single break between two lines that both start with a non-blank becomes a space; with
empty lines in between only those are kept; next to a more-indented line all breaks are kept. -/
def blockBody (literal : Bool) (ind : Nat) :
    List (List Char) → (first prevBlank : Bool) → (pend : Nat) → List Char →
      (List Char × Nat × List (List Char) × Bool)
  | [], first, _, pend, acc => (acc, pend, [], first)
  | l :: ls, first, prevBlank, pend, acc =>
    if isEmptyAt ind l then blockBody literal ind ls first prevBlank (pend + 1) acc
    else if leadingSpaces l < ind then (acc, pend, l :: ls, first)
    else if ind == 0 && isDocEnd l then (acc, pend, l :: ls, first)
    else
      let content := l.drop ind
      let curBlank := headSat isBlank content
      let sep : List Char :=
        if first then nls pend
        else if !literal && !prevBlank && !curBlank then (if pend == 0 then [' '] else nls pend)
        else '\n' :: nls pend
      blockBody literal ind ls false curBlank 0 (acc ++ sep ++ content)

/-- indentation detection: the longest of the leading all-space lines and the indentation of the first
content line (`m`: longest so far) -/
def detectIndent : List (List Char) → Nat → Nat
  | [], m => m
  | l :: ls, m => if allSpaces l then detectIndent ls (max m l.length) else max m (leadingSpaces l)

/-- indentation of a block scalar: explicit indicator (relative to the parent node), or detected, at
least parent+1 -/
def blockIndent (parent : Int) (inc : Nat) (lines : List (List Char)) : Nat :=
  if inc > 0 then (if parent ≥ 0 then parent.toNat + inc else inc)
  else max (detectIndent lines 0) (parent + 1).toNat

/-- "a block scalar content cannot start with a tab" -/
def firstLineTab : List (List Char) → Bool
  | l :: _ => headSat (· == '\t') l
  | [] => false

def chompTail (chomp : Chomp) (body : List Char) (pend : Nat) : List Char :=
  match chomp with
  | .strip => body
  | .clip => body ++ ['\n']
  | .keep => body ++ ['\n'] ++ nls pend

/-- Reader of a block scalar: `hdr` is the rest of the header line after `|`/`>`, `lines` the following
lines (each was terminated by a break), `parent` the indentation of the enclosing block node (−1 at
the root). Result: value and left-over lines. -/
def readBlock (literal : Bool) (parent : Int) (hdr : List Char) (lines : List (List Char)) :
    Option (List Char × List (List Char)) :=
  match parseHeader hdr with
  | none => none
  | some (chomp, inc) =>
    if firstLineTab lines then none
    else
      let ind := blockIndent parent inc lines
      match blockBody literal ind lines true false 0 [] with
      | (body, pend, rest, noContent) =>
        if noContent then
          match rest with
          | [] =>
            -- end of stream without any content line
            some ((match chomp with
                   | .strip => []
                   | .clip => ['\n']
                   | .keep => if pend == 0 then ['\n'] else nls pend), [])
          | l :: _ =>
            -- the first non-empty line is less indented than the scalar: an error if it is still
            -- deeper than the parent, else the scalar is empty
            if leadingSpaces l < ind && (leadingSpaces l : Int) > parent then none
            else some ((match chomp with | .keep => nls pend | _ => []), rest)
        else some (chompTail chomp body pend, rest)

/-! ## documents of the fixed shapes -/

/-- positions, same codes as `SerScalar.Pos` -/
inductive Pos where
  | root | mapValue | mapKey | seqItem | flowSeq | flowMapValue | flowMapKey | variant
  | nestedMapValue | seqInMap | seqInSeq
deriving DecidableEq, Repr

def Pos.ofCode : Nat → Pos
  | 0 => .root | 1 => .mapValue | 2 => .mapKey | 3 => .seqItem | 4 => .flowSeq | 5 => .flowMapValue
  | 6 => .flowMapKey | 7 => .variant | 8 => .nestedMapValue | 9 => .seqInMap | _ => .seqInSeq

def Pos.isFlow : Pos → Bool
  | .flowSeq | .flowMapValue | .flowMapKey => true
  | _ => false

/-- what must follow the scalar (after blanks) on its line for the document to have the shape -/
def Pos.closing : Pos → List Char
  | .flowSeq => [']']
  | .flowMapValue => ['}']
  | .mapKey => ": 1".toList
  | .flowMapKey => ": 1}".toList
  | _ => []

/-- at least one space after `:` / `-`, further blanks skipped -/
def sepBlank (t : List Char) : Option (List Char) :=
  match t with
  | ' ' :: r => some (r.dropWhile isBlank)
  | _ => none

/-- `pre`, then a separating space -/
def afterIndicator (pre : List Char) (t : List Char) : Option (List Char) :=
  (stripPrefix? pre t).bind sepBlank

/-- Strip the fixed opening of a position. Returns (text at the scalar, the scalar starts at column 0,
indentation of the parent block node). -/
def stripOpening (p : Pos) (t : List Char) : Option (List Char × Bool × Int) :=
  match p with
  | .root => some (t.dropWhile isBlank, !(headSat isBlank t), -1)
  | .mapKey => some (t.dropWhile isBlank, !(headSat isBlank t), -1)
  | .mapValue => (afterIndicator ['k', ':'] t).map (·, false, 0)
  | .variant =>
    (match afterIndicator ['V', ':'] t with
     | some r => some r
     | none => afterIndicator ['\'', 'V', '\'', ':'] t).map (·, false, 0)
  | .seqItem => (afterIndicator ['-'] t).map (·, false, 0)
  | .flowSeq => (stripPrefix? ['['] t).map (fun r => (r.dropWhile isBlank, false, 0))
  | .flowMapValue => (afterIndicator ['{', 'k', ':'] t).map (·, false, 0)
  | .flowMapKey => (stripPrefix? ['{'] t).map (fun r => (r.dropWhile isBlank, false, 0))
  | .seqInSeq => ((afterIndicator ['-'] t).bind (afterIndicator ['-'])).map (·, false, 2)
  | .nestedMapValue =>
    (stripPrefix? ['a', ':', '\n'] t).bind fun r =>
      let n := leadingSpaces r
      if n == 0 then none else (afterIndicator ['k', ':'] (r.drop n)).map (·, false, (n : Int))
  | .seqInMap =>
    (stripPrefix? ['a', ':', '\n'] t).bind fun r =>
      let n := leadingSpaces r
      (afterIndicator ['-'] (r.drop n)).map (·, false, (n : Int))

/-- all remaining lines are blank, comments or document end markers `...` -/
def onlyTrailers (ls : List (List Char)) : Bool :=
  ls.all fun l =>
    isCommentOrBlankLine l ||
      (match l with
       | '.' :: '.' :: '.' :: r => isTrailer false r
       | _ => false)

/-- a single trailing `,` is allowed before the closing bracket of a flow collection -/
def skipTrailingComma (p : Pos) (t : List Char) : List Char :=
  match p, t with
  | .flowSeq, ',' :: r => r.dropWhile isBlank
  | .flowMapValue, ',' :: r => r.dropWhile isBlank
  | _, _ => t

/-- After a one-line scalar `v` of style `style`: the rest of its line must be blanks, the closing of
the position and an optional comment; the following lines only blanks / comments / `...`. -/
def finishLine (p : Pos) (style : Style) (v : List Char) (hadBlank : Bool) (rest : List Char) :
    Option (Style × List Char) :=
  let line := rest.takeWhile (fun c => !isBreak c)
  let more := rest.dropWhile (fun c => !isBreak c)
  if line.any isNul then none else
  let afterBlanks := line.dropWhile isBlank
  let hadBlank := hadBlank || afterBlanks.length < line.length
  match stripPrefix? p.closing (skipTrailingComma p afterBlanks) with
  | none => none
  | some tail =>
    if !(isTrailer (hadBlank && p.closing.isEmpty) tail) then none
    else match splitLines more [] with
      | some (_ :: ls) => if onlyTrailers ls then some (style, v) else none
      | _ => none

/-- stream start: one byte-order mark is not content -/
def stripBom (doc : List Char) : List Char :=
  match doc with
  | c :: r => if c.toNat == 0xFEFF then r else doc
  | [] => doc

/-- the scalar at the head of `s` in position `p` -/
def readNode (p : Pos) (s : List Char) (col0 : Bool) (parent : Int) : Option (Style × List Char) :=
  let flow := p.isFlow
  match startKind flow col0 s with
  | .other => none
  | .dq => (readDq s).bind fun (v, rest) => finishLine p .double v false rest
  | .sq => (readSq s).bind fun (v, rest) => finishLine p .single v false rest
  | .plain =>
    (readPlain flow s).bind fun (v, rest) =>
      -- blanks before a comment were consumed by the scan
      finishLine p .plain v (headSat (· == '#') rest) rest
  | .literal | .folded =>
    let literal := startKind flow col0 s == .literal
    let hdr := (s.drop 1).takeWhile (fun c => !isBreak c)
    let more := (s.drop 1).dropWhile (fun c => !isBreak c)
    if hdr.any isNul || !p.closing.isEmpty then none else
    match splitLines more [] with
    | some (_ :: lines) =>
      (readBlock literal parent hdr lines).bind fun (v, rest) =>
        if onlyTrailers rest then some (if literal then .literal else .folded, v) else none
    | _ => none

/-- the document proper (after the stream-start normalisation): no directive, no U+0000 (it ends the
stream for the scanner: such documents are outside the dialect) -/
def readDocBody (p : Pos) (t : List Char) : Option (Style × List Char) :=
  match (if t.head? == some '%' || t.any isNul then none else stripOpening p t) with
  | none => none
  | some (s, col0, parent) => readNode p s col0 parent

/-- the one directive preamble the writer produces: `%YAML 1.2`, then the document start marker it
requires, each on its own line -/
def yamlPreamble : List Char := "%YAML 1.2\n---\n".toList

/-- Read the single scalar of a document of shape `p`: style and value. A byte-order mark at the start
of the stream is not content; the only directive inside the dialect is the exact preamble above (any
other directive: the reader claims nothing). -/
def readDoc (p : Pos) (doc : List Char) : Option (Style × List Char) :=
  let t := stripBom doc
  readDocBody p (match stripPrefix? yamlPreamble t with
                 | some r => r
                 | none => t)

/-! ## `resolve`: the type a plain scalar denotes for this crate's schema-less reader -/

inductive Resolved where
  | str | null | bool | int | float
deriving DecidableEq, Repr

/-- `parse_yaml12_float::<f64>` accepts the text (the crate's float reader, modelled in `Model/Float.lean`:
trim, the `.nan` / `.inf` spellings, else the grammar of Rust's `f64::from_str`) -/
def isYamlFloatText (s : List Char) : Bool := (Float.parseYaml12Float 64 s).isSome

/-- Would the plain scalar `s` be read as something else than a string (the crate's `maybe_not_string`
order: null, bool, integer, float)? -/
def resolve (s : List Char) : Resolved :=
  if scalarIsNullish s .plain then .null
  else if (parseYaml11Bool s).isSome then .bool
  else if (parseIntSigned 128 false s).isSome || (parseIntUnsigned 128 false s).isSome then .int
  else if isYamlFloatText s then .float
  else .str

/-- merge key: a plain `<<` in key position -/
def isMergeKey (s : List Char) : Bool := s == ['<', '<']

end SaphyrVerif.Spec.Read
