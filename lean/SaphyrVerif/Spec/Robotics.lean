import SaphyrVerif.Model.Robotics
/-!
Specification for C19: the expression language of the robotics extension as an AST grammar with the
standard precedence (`* /` bind tighter than `+ -`, all binary operators associate to the left, unary
signs bind tightest) and a reference evaluator over the IEEE-754 model, plus the grammar of ordinary
decimal float literals.

The AST is a *concrete* syntax tree: it records the white space and the spelling of every token, so that
`render` gives back the exact bytes of the scalar.  Precedence and associativity are encoded in the
types: `Expr.add (l : Expr) _ (r : Term)`, `Term.mul (l : Term) _ (r : Unary)`.

Number-like tokens (decimal numbers with separators, `.inf`/`.nan`, sexagesimal forms) are leaves whose
denotation is fixed by `TokenOk` (the token scanner run on exactly this token in its context); ordinary
decimal literals get an independent meaning through `PlainLit.value` (theorem
`plain_literal_unchanged_f64`).
-/
namespace SaphyrVerif.Spec.Robotics
open SaphyrVerif SaphyrVerif.F64 SaphyrVerif.Robotics

/-! ## ordinary decimal float literals -/

def signBytes : Option Bool → List Nat
  | none => []
  | some false => [43]
  | some true => [45]

/-- `[+-] digits [. digits] [(e|E) [+-] digits]` -/
structure PlainLit where
  sign : Option Bool                              -- `some true` = '-'
  ip : List Nat                                   -- integer digits
  frac : Option (List Nat)                        -- digits after the '.', if there is one
  exp : Option (Bool × Option Bool × List Nat)    -- (upper case `E`?, sign, digits)

namespace PlainLit

def fracDigits (l : PlainLit) : List Nat := l.frac.getD []
def expDigits (l : PlainLit) : List Nat := match l.exp with | none => [] | some (_, _, ds) => ds

def expBytes (l : PlainLit) : List Nat :=
  match l.exp with
  | none => []
  | some (up, sg, ds) => (if up then 69 else 101) :: (signBytes sg ++ ds)

def fracBytes (l : PlainLit) : List Nat :=
  match l.frac with
  | none => []
  | some fp => 46 :: fp

/-- the literal without its sign -/
def body (l : PlainLit) : List Nat := l.ip ++ l.fracBytes ++ l.expBytes
def render (l : PlainLit) : List Nat := signBytes l.sign ++ l.body

def digitCount (l : PlainLit) : Nat := l.ip.length + l.fracDigits.length + l.expDigits.length

structure WF (l : PlainLit) : Prop where
  ip : ∀ c ∈ l.ip, isDigit c = true
  fp : ∀ c ∈ l.fracDigits, isDigit c = true
  ed : ∀ c ∈ l.expDigits, isDigit c = true
  mant : l.ip.length + l.fracDigits.length ≠ 0
  expNonempty : l.exp.isSome → l.expDigits ≠ []

/-- decimal exponent written in the literal -/
def expVal (l : PlainLit) : Int :=
  match l.exp with
  | none => 0
  | some (_, sg, ds) => if sg == some true then - (digitsVal ds 0 : Nat) else (digitsVal ds 0 : Nat)

/-- The meaning of the literal: its exact decimal value `± mantissa · 10^(exp − #fraction digits)`,
rounded once (to nearest, ties to even) into the target format. -/
def value (f : Fmt) (l : PlainLit) : Fl :=
  decRound f (l.sign == some true) (digitsVal (l.ip ++ l.fracDigits) 0) (l.ip.length + l.fracDigits.length)
    (l.expVal - (l.fracDigits.length : Int))

end PlainLit

/-! ## numbers with digit separators -/

/-- Digits in groups separated by single underscores: `12_345_6` is `[[49,50],[51,52,53],[54]]`. -/
abbrev Groups := List (List Nat)

def Groups.render : Groups → List Nat
  | [] => []
  | [g] => g
  | g :: g' :: gs => g ++ 95 :: Groups.render (g' :: gs)

/-- the digits without the separators -/
def Groups.digits (gs : Groups) : List Nat := gs.flatten

/-- every group is a non-empty run of digits (so an underscore sits strictly between two digits) -/
def Groups.WF (gs : Groups) : Prop := ∀ g ∈ gs, g ≠ [] ∧ ∀ c ∈ g, isDigit c = true

/-- A decimal number token of the extension: `groups [. groups] [(e|E) [+-] groups]`. -/
structure NumTok where
  ip : Groups
  frac : Option Groups
  exp : Option (Bool × Option Bool × Groups)

namespace NumTok

def render (t : NumTok) : List Nat :=
  t.ip.render ++
  (match t.frac with | none => [] | some g => 46 :: g.render) ++
  (match t.exp with | none => [] | some (up, sg, g) => (if up then 69 else 101) :: (signBytes sg ++ g.render))

/-- the same number with the separators removed: an ordinary literal -/
def plain (t : NumTok) : PlainLit :=
  ⟨none, t.ip.digits, t.frac.map Groups.digits, t.exp.map fun (up, sg, g) => (up, sg, g.digits)⟩

structure WF (t : NumTok) : Prop where
  ip : t.ip.WF
  fp : ∀ g, t.frac = some g → g.WF
  ed : ∀ up sg g, t.exp = some (up, sg, g) → g.WF
  plain : t.plain.WF

end NumTok

/-- bytes that end a number token: not a digit, `_`, `.`, `:`, `e`, `E` -/
def StopsToken (k : List Nat) : Prop :=
  ∀ c r, k = c :: r → isDigit c = false ∧ c ≠ 95 ∧ c ≠ 46 ∧ c ≠ 58 ∧ c ≠ 69 ∧ c ≠ 101

/-! ## expression grammar -/

inductive Const where
  | pi | tau | inf | nan
deriving DecidableEq, Repr

/-- lower-case spelling -/
def Const.name : Const → List Nat
  | .pi => [112, 105] | .tau => [116, 97, 117] | .inf => [105, 110, 102] | .nan => [110, 97, 110]

def Const.value : Const → Fl
  | .pi => PI | .tau => mul F TWO PI | .inf => .inf false | .nan => .nan

mutual
  /-- `expr := term (('+'|'-') term)*`, left associative -/
  inductive Expr where
    | term (t : Term)
    | add (l : Expr) (ws : List Nat) (r : Term)
    | sub (l : Expr) (ws : List Nat) (r : Term)
  /-- `term := unary (('*'|'/') unary)*`, left associative -/
  inductive Term where
    | un (u : Unary)
    | mul (l : Term) (ws : List Nat) (r : Unary)
    | div (l : Term) (ws : List Nat) (r : Unary)
  /-- `unary := ws ('+'|'-')* primary` (`true` = '-') -/
  inductive Unary where
    | mk (ws : List Nat) (signs : List Bool) (p : Primary)
  inductive Primary where
    /-- a number-like token with its denotation `(value, used_unit, saw_plain)` -/
    | atom (ws : List Nat) (tok : List Nat) (ev : Eval)
    /-- `pi`, `tau`, `inf`, `nan` in any letter case -/
    | const (ws : List Nat) (tok : List Nat) (c : Const)
    | paren (ws : List Nat) (e : Expr) (ws' : List Nat)
    /-- `deg ws ( expr ws' )` / `rad ws ( expr ws' )`, name in any letter case -/
    | fn (ws : List Nat) (isDeg : Bool) (name : List Nat) (ws1 : List Nat) (e : Expr) (ws' : List Nat)
end

mutual
  def Expr.render : Expr → List Nat
    | .term t => t.render
    | .add l ws r => l.render ++ (ws ++ 43 :: r.render)
    | .sub l ws r => l.render ++ (ws ++ 45 :: r.render)
  def Term.render : Term → List Nat
    | .un u => u.render
    | .mul l ws r => l.render ++ (ws ++ 42 :: r.render)
    | .div l ws r => l.render ++ (ws ++ 47 :: r.render)
  def Unary.render : Unary → List Nat
    | .mk ws signs p => ws ++ (signs.map (fun s => if s then 45 else 43) ++ p.render)
  def Primary.render : Primary → List Nat
    | .atom ws tok _ => ws ++ tok
    | .const ws tok _ => ws ++ tok
    | .paren ws e ws' => ws ++ 40 :: (e.render ++ (ws' ++ [41]))
    | .fn ws _ name ws1 e ws' => ws ++ (name ++ (ws1 ++ 40 :: (e.render ++ (ws' ++ [41]))))
end

/-- `±1.0` accumulated by a chain of unary signs: starts at `1.0`, every '-' flips it -/
def signValue (signs : List Bool) : Fl := signs.foldl (fun s b => if b then neg s else s) ONE

def orFlags (a b : Eval) (v : Fl) : Eval := (v, a.2.1 || b.2.1, a.2.2 || b.2.2)

mutual
  /-- Reference evaluator: `(IEEE value, uses a unit construct, has a bare term outside unit functions)`. -/
  def Expr.eval : Expr → Eval
    | .term t => t.eval
    | .add l _ r => orFlags l.eval r.eval (F64.add F l.eval.1 r.eval.1)
    | .sub l _ r => orFlags l.eval r.eval (F64.sub F l.eval.1 r.eval.1)
  def Term.eval : Term → Eval
    | .un u => u.eval
    | .mul l _ r => orFlags l.eval r.eval (F64.mul F l.eval.1 r.eval.1)
    | .div l _ r => orFlags l.eval r.eval (F64.div F l.eval.1 r.eval.1)
  def Unary.eval : Unary → Eval
    | .mk _ signs p => (F64.mul F (signValue signs) p.eval.1, p.eval.2.1, p.eval.2.2)
  def Primary.eval : Primary → Eval
    | .atom _ _ ev => ev
    | .const _ _ c => (c.value, false, true)
    | .paren _ e _ => e.eval
    | .fn _ isDeg _ _ e _ => (if isDeg then F64.mul F e.eval.1 DEG2RAD else e.eval.1, true, false)
end

mutual
  /-- nesting depth of parentheses and unit functions -/
  def Expr.nest : Expr → Nat
    | .term t => t.nest
    | .add l _ r => max l.nest r.nest
    | .sub l _ r => max l.nest r.nest
  def Term.nest : Term → Nat
    | .un u => u.nest
    | .mul l _ r => max l.nest r.nest
    | .div l _ r => max l.nest r.nest
  def Unary.nest : Unary → Nat
    | .mk _ _ p => p.nest
  def Primary.nest : Primary → Nat
    | .atom _ _ _ => 0
    | .const _ _ _ => 0
    | .paren _ e _ => e.nest + 1
    | .fn _ _ _ _ e _ => e.nest + 1
end

/-- the IEEE value of the tree -/
def Expr.value (e : Expr) : Fl := e.eval.1
/-- some `deg(..)`, `rad(..)` or sexagesimal form occurs (outside other unit functions) -/
def Expr.usesUnit (e : Expr) : Bool := e.eval.2.1
/-- some bare number / constant occurs outside the unit functions -/
def Expr.hasBare (e : Expr) : Bool := e.eval.2.2

def IsWs (l : List Nat) : Prop := ∀ c ∈ l, isWs c = true

/-- A number-like token `tok` followed by `k`, read in sexagesimal mode `timeMode` under tag class `tag`,
denotes `ev`: the token scanner (`parse_number_or_special`: `.inf`/`.nan`, sexagesimal, decimal number
with separators) started at the token consumes exactly `tok` and yields `ev`. -/
def TokenOk (tag : Nat) (timeMode : Bool) (tok k : List Nat) (ev : Eval) : Prop :=
  (∃ c r, tok ++ k = c :: r ∧ (isDigit c = true ∨ c = 46)) ∧
  ∃ pre depth pre', parseNumberOrSpecial tag ⟨pre, tok ++ k, depth, timeMode⟩ = .ok (ev, ⟨pre', k, depth, timeMode⟩)

mutual
  /-- Lexical well-formedness of a tree followed by `k`: white space is white space, constants and
  function names are spelled right, every number-like leaf denotes what the tree says (`TokenOk` — in
  time mode outside unit functions, in angle mode inside). -/
  def Expr.lexOk (tag : Nat) (tm : Bool) : Expr → List Nat → Prop
    | .term t, k => t.lexOk tag tm k
    | .add l ws r, k => l.lexOk tag tm (ws ++ 43 :: (r.render ++ k)) ∧ IsWs ws ∧ r.lexOk tag tm k
    | .sub l ws r, k => l.lexOk tag tm (ws ++ 45 :: (r.render ++ k)) ∧ IsWs ws ∧ r.lexOk tag tm k
  def Term.lexOk (tag : Nat) (tm : Bool) : Term → List Nat → Prop
    | .un u, k => u.lexOk tag tm k
    | .mul l ws r, k => l.lexOk tag tm (ws ++ 42 :: (r.render ++ k)) ∧ IsWs ws ∧ r.lexOk tag tm k
    | .div l ws r, k => l.lexOk tag tm (ws ++ 47 :: (r.render ++ k)) ∧ IsWs ws ∧ r.lexOk tag tm k
  def Unary.lexOk (tag : Nat) (tm : Bool) : Unary → List Nat → Prop
    | .mk ws _ p, k => IsWs ws ∧ p.lexOk tag tm k
  def Primary.lexOk (tag : Nat) (tm : Bool) : Primary → List Nat → Prop
    | .atom ws tok ev, k => IsWs ws ∧ TokenOk tag tm tok k ev
    | .const ws tok c, _ => IsWs ws ∧ tok.map lowerByte = c.name
    | .paren ws e ws', k => IsWs ws ∧ IsWs ws' ∧ e.lexOk tag tm (ws' ++ 41 :: k)
    | .fn ws isDeg name ws1 e ws', k =>
      IsWs ws ∧ IsWs ws1 ∧ IsWs ws' ∧ name.map lowerByte = (if isDeg then [100, 101, 103] else [114, 97, 100]) ∧
      e.lexOk tag false (ws' ++ 41 :: k)
end

/-- What the whole scalar denotes under tag class `tag`, given the tree's `(value, unit, bare)`:
* no unit construct: the value, converted to radians ONCE if the tag is `!degrees`;
* unit constructs (each `deg(..)` converted its argument once, `rad(..)`/sexagesimal as they are): the
  value as it is — unless the tag is `!degrees` and a bare term occurs outside the unit functions,
  which is rejected as ambiguous (`none`). -/
def topValue (tag : Nat) (ev : Eval) : Option Fl :=
  if !ev.2.1 then some (if tag == TAG_DEGREES then F64.mul F ev.1 DEG2RAD else ev.1)
  else if tag == TAG_DEGREES && ev.2.2 then none
  else some ev.1

end SaphyrVerif.Spec.Robotics
