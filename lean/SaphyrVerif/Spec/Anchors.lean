import SaphyrVerif.Model.Anchors
/-!
Specification side of C14: what a correctly anchored document looks like, and when two graphs have the
same sharing.  Nothing here shares machinery with the serializer / deserializer models.
-/
namespace SaphyrVerif.Spec.Anchors
open SaphyrVerif.Anchors

mutual
/-- Pre-order walk of a document with `d` = number of anchors defined so far.  Accepts iff the
definitions are numbered `d+1, d+2, …` in order of appearance (so every id is defined exactly once and
the ids are dense) and every alias refers to a definition that has already appeared (`1 ≤ id ≤ d`).
Returns the number of definitions after the walk. -/
def wellScoped : Out → Nat → Option Nat
  | .leaf a _, d => if a = 0 then some d else if a = d + 1 then some (d + 1) else none
  | .alias id, d => if 1 ≤ id ∧ id ≤ d then some d else none
  | .node a _ items, d =>
    if a = 0 then wellScopedList items d
    else if a = d + 1 then wellScopedList items (d + 1) else none
def wellScopedList : List Out → Nat → Option Nat
  | [], d => some d
  | x :: xs, d =>
    match wellScoped x d with
    | none => none
    | some d1 => wellScopedList xs d1
end

mutual
/-- every anchor mark and every alias id of the document lies in `1 … n-1` -/
def idsBelow (n : Nat) : Out → Bool
  | .leaf a _ => a = 0 || (1 ≤ a && a < n)
  | .alias id => 1 ≤ id && id < n
  | .node a _ items => (a = 0 || (1 ≤ a && a < n)) && idsBelowList n items
def idsBelowList (n : Nat) : List Out → Bool
  | [] => true
  | x :: xs => idsBelow n x && idsBelowList n xs
end

/-- the payload of a shared allocation is written by a serializer path that emits the pending anchor -/
def takesRoot : Val → Bool
  | .leaf k => k.takesAnchor
  | .node _ _ => true
  | .strong .. => false
  | .weak .. => false

/-- every live allocation's payload takes its anchor: anything but a block scalar (the one serializer path
that still ignores the pending anchor) or another wrapper (which shares the node and the id) -/
def AnchorTaking (H : Heap) : Prop := ∀ p v, H.lookup p = some v → takesRoot v = true

mutual
/-- a rebuilt value without pointers (what a plain, wrapper-free type yields) -/
def pointerFree : RVal → Bool
  | .leaf _ => true
  | .node _ items => pointerFreeList items
  | .strong .. => false
  | .weak .. => false
  | .weakNull _ => false
def pointerFreeList : List RVal → Bool
  | [] => true
  | x :: xs => pointerFree x && pointerFreeList xs
end

mutual
/-- a wrapper-free type -/
def plainTy : Ty → Bool
  | .leaf _ => true
  | .node items => plainTyList items
  | .strong .. => false
  | .weak .. => false
def plainTyList : List Ty → Bool
  | [] => true
  | t :: ts => plainTy t && plainTyList ts
end

mutual
/-- the value a wrapper-free type reads from an alias-free node: the node itself without its marks -/
def plainVal : Out → RVal
  | .leaf _ k => .leaf k
  | .node _ isMap items => .node isMap (plainValList items)
  | .alias _ => .leaf .null
def plainValList : List Out → List RVal
  | [] => []
  | x :: xs => plainVal x :: plainValList xs
end

mutual
/-- a wrapper-free Rust value -/
def plainV : Val → Bool
  | .leaf _ => true
  | .node _ items => plainVList items
  | .strong .. => false
  | .weak .. => false
def plainVList : List Val → Bool
  | [] => true
  | x :: xs => plainV x && plainVList xs
end

mutual
/-- the rebuilt form of a wrapper-free value: the same tree -/
def plainOf : Val → RVal
  | .leaf k => .leaf k
  | .node isMap items => .node isMap (plainOfList items)
  | .strong .. => .leaf .null
  | .weak .. => .leaf .null
def plainOfList : List Val → List RVal
  | [] => []
  | x :: xs => plainOf x :: plainOfList xs
end

mutual
/-- `RelV ρ v rv`: the rebuilt value `rv` is the original value `v` with every pointer `p` replaced by
`ρ p`; a dangling weak edge (no heap cell) must come back as a dangling weak. -/
def RelV (H : Heap) (ρ : Ptr → Option Ptr) : Val → RVal → Prop
  | .leaf k, rv => rv = .leaf k
  | .node isMap items, rv => ∃ rvs, rv = .node isMap rvs ∧ RelVList H ρ items rvs
  | .strong k _ p, rv => ∃ q, ρ p = some q ∧ rv = .strong k q
  | .weak k _ p, rv => if H.lookup p = none then rv = .weakNull k else ∃ q, ρ p = some q ∧ rv = .weak k q
def RelVList (H : Heap) (ρ : Ptr → Option Ptr) : List Val → List RVal → Prop
  | [], rvs => rvs = []
  | x :: xs, rvs => ∃ r rs, rvs = r :: rs ∧ RelV H ρ x r ∧ RelVList H ρ xs rs
end

/-- **Same sharing**: there is a renaming `ρ` of the original pointers to rebuilt allocations such that
the rebuilt value is the renamed original, distinct original pointers are renamed to distinct
allocations (so two fields point to one allocation afterwards exactly if they did before; a weak edge
upgrades to the allocation its strong owner was renamed to), and every rebuilt allocation holds the
renamed payload of its original. -/
def SameSharing (H : Heap) (v : Val) (s : DeSt) (rv : RVal) : Prop :=
  ∃ ρ : Ptr → Option Ptr, RelV H ρ v rv ∧
    (∀ p1 p2 q, ρ p1 = some q → ρ p2 = some q → p1 = p2) ∧
    (∀ p q, ρ p = some q → ∃ payload c, H.lookup p = some payload ∧ s.cell q = some c ∧ RelV H ρ payload c)

/-- in a record: every live weak field comes after a strong field with the same pointer (`seen` =
pointers of the strong fields so far); dangling weak fields may be anywhere -/
def weaksAfterStrong (H : Heap) (seen : List Ptr) : List Val → Bool
  | [] => true
  | .weak _ _ p :: rest => ((H.lookup p).isNone || seen.contains p) && weaksAfterStrong H seen rest
  | .strong _ _ p :: rest => weaksAfterStrong H (p :: seen) rest
  | .leaf _ :: rest => weaksAfterStrong H seen rest
  | .node _ _ :: rest => weaksAfterStrong H seen rest

end SaphyrVerif.Spec.Anchors

namespace SaphyrVerif.Anchors

mutual
/-- flat code of a rebuilt value (for decidable comparison in examples) -/
def RVal.code : RVal → List Nat
  | .leaf (.int n) => [0, n]
  | .leaf .word => [0]
  | .leaf .null => [1]
  | .leaf .block => [2]
  | .node _ items => 3 :: items.length :: RVal.codeList items
  | .strong k q => [4, k.code, q]
  | .weak k q => [5, k.code, q]
  | .weakNull k => [6, k.code]
def RVal.codeList : List RVal → List Nat
  | [] => []
  | x :: xs => RVal.code x ++ RVal.codeList xs
end

end SaphyrVerif.Anchors
