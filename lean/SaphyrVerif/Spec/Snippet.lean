import SaphyrVerif.Model.Event
/-!
Specification side of C17 (rendered reports are terminal-safe, cropped, show the right line).
Deliberately tiny and independent of the model's machinery: characters only, no bytes, no loops.
-/
namespace SaphyrVerif.Spec.Snippet
open SaphyrVerif

/-- the characters a rendered report must not contain: C0 other than `\n` and `\t`, DEL, C1 -/
def isControl (c : Char) : Bool :=
  let n := c.toNat
  (n < 0x20 && n != 0x0A && n != 0x09) || n == 0x7F || (0x80 ≤ n && n ≤ 0x9F)

/-- a text is terminal-safe when it contains no such character -/
def clean (s : List Char) : Bool := s.all fun c => !isControl c

/-- intended sanitiser: C0 / DEL become a space, C1 becomes NBSP, everything else is kept -/
def sanitizeChar (c : Char) : Char :=
  let n := c.toNat
  if (n < 0x20 && n != 0x0A && n != 0x09) || n == 0x7F then ' '
  else if 0x80 ≤ n && n ≤ 0x9F then Char.ofNat 0xA0
  else c

def sanitize (s : List Char) : List Char := s.map sanitizeChar

/-- the character in (1-based) column `col` of a line; `none` at / after end of line -/
def charAtCol (line : List Char) (col : Nat) : Option Char :=
  if col = 0 then none else line[col - 1]?

/-- the first `k` rows of a text, each row including its line break `\n` (all of the text when it has
fewer rows) -/
def takeRows : Nat → List Char → List Char
  | 0, _ => []
  | _ + 1, [] => []
  | k + 1, c :: cs => if c = '\n' then c :: takeRows k cs else c :: takeRows (k + 1) cs

/-- the text after its first `k` rows; `takeRows k s ++ dropRows k s = s` -/
def dropRows : Nat → List Char → List Char
  | 0, s => s
  | _ + 1, [] => []
  | k + 1, c :: cs => if c = '\n' then dropRows k cs else dropRows (k + 1) cs

/-- row number `k` (1-based) of a text, with its line break if it has one -/
def row (text : List Char) (k : Nat) : List Char := takeRows 1 (dropRows (k - 1) text)

def stripCr (l : List Char) : List Char :=
  if l.getLast? = some '\r' then l.dropLast else l

def stripNl (l : List Char) : List Char :=
  if l.getLast? = some '\n' then l.dropLast else l

/-- what a reader sees on line `k` (1-based): the row without its line break (`\n` or `\r\n`); the
line after a final line break is the empty line -/
def visibleLine (text : List Char) (k : Nat) : List Char := stripCr (stripNl (row text k))

/-- number of lines a reader sees in a window text: one per line break, plus an unterminated last line -/
def shownLines (s : List Char) : Nat :=
  s.count '\n' + (if s = [] ∨ s.getLast? = some '\n' then 0 else 1)

/-! ## lines as YAML counts them (LF, CRLF, lone CR)

The parser — and therefore every reported `Location` — ends a line at a line feed, at a carriage
return + line feed pair (one break) and at a carriage return that is not followed by a line feed. -/

/-- the lines of a text under the YAML line-break rule, without their line breaks. A text that ends
with a line break has the empty line after it as its last line (end-of-input locations are reported
there); the empty text is one empty line. -/
def yamlLines : List Char → List (List Char)
  | [] => [[]]
  | c :: cs =>
    if c = '\n' then [] :: yamlLines cs                                  -- LF (alone, or closing a CRLF pair)
    else if c = '\r' then
      if cs.head? = some '\n' then yamlLines cs                          -- the CR of a CRLF pair: part of that break
      else [] :: yamlLines cs                                             -- a lone CR ends the line
    else match yamlLines cs with
      | l :: ls => (c :: l) :: ls                                         -- any other character belongs to the line
      | [] => [[c]]

/-- line `k` (1-based) of a text under the YAML rule; `none` when the text has no such line -/
def yamlLine (text : List Char) (k : Nat) : Option (List Char) :=
  if k = 0 then none else (yamlLines text)[k - 1]?

/-- `(line, column)` is a position of the text under the YAML rule: an existing line, and a column on one
of its characters or right after its last character (where end-of-line / end-of-input is reported) -/
def IsYamlPosition (text : List Char) (line column : Nat) : Prop :=
  ∃ l, yamlLine text line = some l ∧ 1 ≤ column ∧ column ≤ l.length + 1

/-- number of YAML line breaks of a text -/
def yamlBreaks (text : List Char) : Nat := (yamlLines text).length - 1

/-- byte view (the reader's ring of recent bytes works on raw bytes): byte `i` of a byte stream ends a
line under the YAML rule when it is a line feed, or a carriage return that is not followed by a line
feed -/
def endsLineAt (s : List Nat) (i : Nat) : Bool :=
  s[i]? == some 0x0A || (s[i]? == some 0x0D && s[i + 1]? != some 0x0A)

/-- number of lines of the byte stream that end within its first `n` bytes; byte `n` lies on line
`1 + linesEndedBefore s n` -/
def linesEndedBefore (s : List Nat) (n : Nat) : Nat := (List.range n).countP (endsLineAt s)

end SaphyrVerif.Spec.Snippet
