import SaphyrVerif.Spec.Interp
/-!
Specification for C03 at the level of whole trees: "the document with every merge written out".

`explicitTree dup t` replaces, bottom-up, every mapping of `t` that stands at a VALUE position (the root, a
sequence item, the value of an entry — also the values of the entries of merge sources) by the ordinary
mapping of its effective entries under the duplicate-key policy `dup`, and every mapping that is used as a
MERGE SOURCE (the value of a `<<` entry, an element of a merge sequence, recursively) by the ordinary mapping
of its effective entries under *first-wins*: a merge source is never checked against the configured policy —
of two entries of a source with the same key the first one is the one a merge can deliver, under every
policy.  KEY nodes are left untouched: the identity of a key (`fpOf`, used by the duplicate-key policy and
by "own keys override merged ones") is the structure of the key as written, so rewriting a mapping that is
used as a key would change which keys collide (`Props/C03_Typed.lean: explicit_keys_would_be_unsound`).

The result is `none` when some mapping has no effective entry list (an invalid merge value, a repeated own
key under the `Error` policy).  `writeOut` is the total variant (such a mapping is left as written); the
theorems are proved for `writeOut` and specialised to `explicitTree`.

Nothing here is used by the model or the driver: these are the definitions the C03 theorems at the level of
typed values (`Props/C03_Typed.lean`) are stated with.
-/
namespace SaphyrVerif.Spec
open SaphyrVerif SaphyrVerif.Scalars SaphyrVerif.Pump SaphyrVerif.De

mutual
/-- explicit form of a node at a value position -/
def explicitTree (dup : DupPolicy) : ENode → Option ENode
  | .scalar v tag rt st a l => some (.scalar v tag rt st a l)
  | .seq a tag rt l el items =>
    match explicitL dup items with
    | some items' => some (.seq a tag rt l el items')
    | none => none
  | .map a l el entries =>
    match explicitE dup entries with
    | some es1 =>
      match effEntries dup es1 with
      | some es' => some (.map a l el es')
      | none => none
    | none => none
/-- explicit form of a node used as a merge value: mappings under first-wins, sequences element-wise -/
def explicitSrc (dup : DupPolicy) : ENode → Option ENode
  | .scalar v tag rt st a l => some (.scalar v tag rt st a l)
  | .seq a tag rt l el items =>
    match explicitSrcL dup items with
    | some items' => some (.seq a tag rt l el items')
    | none => none
  | .map a l el entries =>
    match explicitE dup entries with
    | some es1 =>
      match effEntries .firstWins es1 with
      | some es' => some (.map a l el es')
      | none => none
    | none => none
def explicitL (dup : DupPolicy) : List ENode → Option (List ENode)
  | [] => some []
  | n :: ns =>
    match explicitTree dup n, explicitL dup ns with
    | some n', some ns' => some (n' :: ns')
    | _, _ => none
def explicitSrcL (dup : DupPolicy) : List ENode → Option (List ENode)
  | [] => some []
  | n :: ns =>
    match explicitSrc dup n, explicitSrcL dup ns with
    | some n', some ns' => some (n' :: ns')
    | _, _ => none
/-- the entries of a mapping with their values made explicit: the value of a merge entry as a merge
source, every other value as a value; keys unchanged -/
def explicitE (dup : DupPolicy) : List (ENode × ENode) → Option (List (ENode × ENode))
  | [] => some []
  | (k, v) :: rest =>
    match (if isMergeKeyNode k then explicitSrc dup v else explicitTree dup v), explicitE dup rest with
    | some v', some rest' => some ((k, v') :: rest')
    | _, _ => none
end

/-! ### the total variant: write out what can be written out

`explicitTree` is strict: it is `none` as soon as ANY mapping of the tree has no effective entry list — also
one inside an entry that a merge drops anyway (which the deserializer never looks at).  `writeOut` is the
same transformation made total: a mapping (or merge source) without effective entry list is left exactly as
written, everything else is written out.  Where `explicitTree` is defined the two agree
(`Lemmas.C03T.writeOut_of_explicitTree`). -/

mutual
/-- a node at a value position, written out -/
def writeOut (dup : DupPolicy) : ENode → ENode
  | .scalar v tag rt st a l => .scalar v tag rt st a l
  | .seq a tag rt l el items => .seq a tag rt l el (writeOutL dup items)
  | .map a l el entries =>
    match effEntries dup (writeOutE dup entries) with
    | some es' => .map a l el es'
    | none => .map a l el entries
/-- a node used as a merge value, written out (mappings under first-wins) -/
def writeOutSrc (dup : DupPolicy) : ENode → ENode
  | .scalar v tag rt st a l => .scalar v tag rt st a l
  | .seq a tag rt l el items => .seq a tag rt l el (writeOutSrcL dup items)
  | .map a l el entries =>
    match effEntries .firstWins (writeOutE dup entries) with
    | some es' => .map a l el es'
    | none => .map a l el entries
def writeOutL (dup : DupPolicy) : List ENode → List ENode
  | [] => []
  | n :: ns => writeOut dup n :: writeOutL dup ns
def writeOutSrcL (dup : DupPolicy) : List ENode → List ENode
  | [] => []
  | n :: ns => writeOutSrc dup n :: writeOutSrcL dup ns
/-- the entries with their values written out (merge values as merge sources); keys unchanged -/
def writeOutE (dup : DupPolicy) : List (ENode × ENode) → List (ENode × ENode)
  | [] => []
  | (k, v) :: rest => (k, if isMergeKeyNode k then writeOutSrc dup v else writeOut dup v) :: writeOutE dup rest
end

/-! ### what "explicit" means: no merge entry is left at any value position -/

mutual
/-- no mapping at a value position (the root, items, values — keys are not looked into) has a merge entry -/
def mergeFree : ENode → Bool
  | .scalar .. => true
  | .seq _ _ _ _ _ items => mergeFreeL items
  | .map _ _ _ entries => mergeFreeE entries
def mergeFreeL : List ENode → Bool
  | [] => true
  | n :: ns => mergeFree n && mergeFreeL ns
def mergeFreeE : List (ENode × ENode) → Bool
  | [] => true
  | (k, v) :: rest => !isMergeKeyNode k && mergeFree v && mergeFreeE rest
end

/-! ### where the equality "merge form = explicit form" needs a side condition: enum positions

An externally tagged enum `{Variant: payload}` is read from the FIRST RAW entry of the mapping (the variant
name is the first key as written, `deserialize_enum`), not from its effective entries: there a `<<` key is
the variant name `<<`, and a mapping with two entries is rejected even if the two entries collapse to one.
So at an enum position the two forms can differ; they agree when no enum position is met
(`enumFree`), or when every mapping of the tree keeps its "one entry / not one entry" shape
(`enumStable`). -/

/-- an enum (possibly wrapped in `Option`s / newtype structs) is the target of the node itself -/
def enumHead : Ty → Bool
  | .enum _ _ => true
  | .option t | .newtype t => enumHead t
  | _ => false

mutual
/-- no enum at any value position of the type (key types do not matter: keys are not rewritten) -/
def enumFree : Ty → Bool
  | .enum _ _ => false
  | .option t | .seq t | .newtype t => enumFree t
  | .tuple ts => enumFreeL ts
  | .map _ v => enumFree v
  | .struct fs _ => enumFreeF fs
  | _ => true
def enumFreeL : List Ty → Bool
  | [] => true
  | t :: ts => enumFree t && enumFreeL ts
def enumFreeF : List (String × Ty) → Bool
  | [] => true
  | (_, t) :: r => enumFree t && enumFreeF r
end

/-- a one-entry mapping has an ordinary key; any other mapping does not collapse to one entry -/
def shapeStable (dup : DupPolicy) (entries : List (ENode × ENode)) : Bool :=
  match entries with
  | [(k, _)] => !isMergeKeyNode k
  | _ =>
    match effEntries dup entries with
    | some es => es.length != 1
    | none => true

mutual
/-- every mapping at a value position (also inside merge sources) is `shapeStable` -/
def enumStable (dup : DupPolicy) : ENode → Bool
  | .scalar .. => true
  | .seq _ _ _ _ _ items => enumStableL dup items
  | .map _ _ _ entries => shapeStable dup entries && enumStableE dup entries
def enumStableSrc (dup : DupPolicy) : ENode → Bool
  | .scalar .. => true
  | .seq _ _ _ _ _ items => enumStableSrcL dup items
  | .map _ _ _ entries => enumStableE dup entries
def enumStableL (dup : DupPolicy) : List ENode → Bool
  | [] => true
  | n :: ns => enumStable dup n && enumStableL dup ns
def enumStableSrcL (dup : DupPolicy) : List ENode → Bool
  | [] => true
  | n :: ns => enumStableSrc dup n && enumStableSrcL dup ns
def enumStableE (dup : DupPolicy) : List (ENode × ENode) → Bool
  | [] => true
  | (k, v) :: rest => (if isMergeKeyNode k then enumStableSrc dup v else enumStable dup v) && enumStableE dup rest
end

end SaphyrVerif.Spec
