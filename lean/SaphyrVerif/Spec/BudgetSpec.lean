import SaphyrVerif.Spec.Tree
import SaphyrVerif.Model.Budget
/-!
Specification for C07: independent counts of a document tree / event list (no enforcer state).
-/
namespace SaphyrVerif.Spec
open SaphyrVerif SaphyrVerif.Scalars SaphyrVerif.Budget

def isNodeEv : Raw → Bool
  | .scalar .. | .seqStart .. | .mapStart .. => true
  | _ => false

def isAliasEv : Raw → Bool
  | .alias _ => true
  | _ => false

def anchorOf : Raw → Nat
  | .scalar _ _ a _ | .seqStart a _ | .mapStart a _ => a
  | _ => 0

def scalarBytesOf : Raw → Nat
  | .scalar v _ _ _ => utf8Len v
  | _ => 0

def nEvents (evs : List Raw) : Nat := evs.length
def nNodes (evs : List Raw) : Nat := (evs.filter isNodeEv).length
def nAliases (evs : List Raw) : Nat := (evs.filter isAliasEv).length
def nAnchors (evs : List Raw) : Nat := ((evs.map anchorOf).filter (· != 0)).eraseDups.length
def scalarBytes (evs : List Raw) : Nat := (evs.map scalarBytesOf).sum
def nDocuments (evs : List Raw) : Nat := (evs.filter (fun e => match e with | .docStart _ => true | _ => false)).length

/-- nesting depth after a prefix, and the maximum over all prefixes (for well-bracketed lists) -/
def depthStep (d : Nat) : Raw → Nat
  | .seqStart .. | .mapStart .. => d + 1
  | .seqEnd | .mapEnd => d - 1
  | _ => d

def maxDepthFrom (d m : Nat) : List Raw → Nat
  | [] => m
  | e :: es => let d' := depthStep d e; maxDepthFrom d' (max m d') es

def maxDepth (evs : List Raw) : Nat := maxDepthFrom 0 0 evs

/-- a key node that is the merge key: plain, untagged scalar `<<` -/
def isMergeKeyTree : Node → Bool
  | .scalar v st _ t => t.isNone && st == .plain && v == ['<', '<']
  | _ => false

mutual
/-- merge keys of a tree: mapping entries whose key is the merge-key scalar, anywhere in the tree -/
def mergeKeys : Node → Nat
  | .scalar .. => 0
  | .alias _ => 0
  | .seq _ _ items => mergeKeysL items
  | .map _ _ entries => mergeKeysE entries
def mergeKeysL : List Node → Nat
  | [] => 0
  | n :: ns => mergeKeys n + mergeKeysL ns
def mergeKeysE : List (Node × Node) → Nat
  | [] => 0
  | (k, v) :: es => (if isMergeKeyTree k then 1 else 0) + mergeKeys k + mergeKeys v + mergeKeysE es
end

def mergeKeysDocs : List Node → Nat
  | [] => 0
  | d :: ds => mergeKeys d + mergeKeysDocs ds

/-- the independent usage count of a stream of documents (what the report must say under AllContent) -/
def usage (ds : List Node) : Report :=
  let evs := flattenStream ds
  { events := nEvents evs, aliases := nAliases evs, anchors := nAnchors evs, documents := nDocuments evs,
    nodes := nNodes evs, maxDepth := maxDepth evs, totalScalarBytes := min (scalarBytes evs) USIZE_MAX,
    mergeKeys := mergeKeysDocs ds }

/-- the independent usage count of ONE document under the per-document policy: the counts of its own events,
`DocumentStart` through `DocumentEnd` (stream framing belongs to no document; the documents counter is not used by
this policy and stays 0).  The same function of `d` at every position of a stream. -/
def usageDoc (d : Node) : Report :=
  let evs := flattenDoc d
  { events := nEvents evs, aliases := nAliases evs, anchors := nAnchors evs, documents := 0,
    nodes := nNodes evs, maxDepth := maxDepth evs, totalScalarBytes := min (scalarBytes evs) USIZE_MAX,
    mergeKeys := mergeKeys d }

/-- every counted quantity within its limit -/
def within (lim : Limits) (r : Report) : Bool :=
  r.events ≤ lim.maxEvents && r.aliases ≤ lim.maxAliases && r.anchors ≤ lim.maxAnchors &&
  r.maxDepth ≤ lim.maxDepth && r.documents ≤ lim.maxDocuments && r.nodes ≤ lim.maxNodes &&
  r.totalScalarBytes ≤ lim.maxTotalScalarBytes && r.mergeKeys ≤ lim.maxMergeKeys

/-- the alias/anchor ratio heuristic, stated mathematically (no saturation) -/
def ratioOk (lim : Limits) (r : Report) : Bool :=
  !(lim.enforceRatio && r.aliases ≥ lim.minAliases && (r.anchors == 0 || r.aliases > lim.multiplier * r.anchors))

end SaphyrVerif.Spec
