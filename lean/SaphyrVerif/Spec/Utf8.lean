/-!
Specification of UTF-8 (RFC 3629): the encoding of one Unicode scalar value, written arithmetically,
and what it means for a byte string to *begin with* a well-formed encoded character.  Shares nothing
with the table-driven validator of the model (`Reader.decode1`).  Bytes are `Nat`.
-/
namespace SaphyrVerif.Spec.Utf8

/-- UTF-8 encoding of one Unicode scalar value -/
def encodeChar (c : Char) : List Nat :=
  let n := c.toNat
  if n < 0x80 then [n]
  else if n < 0x800 then [0xC0 + n / 64, 0x80 + n % 64]
  else if n < 0x10000 then [0xE0 + n / 4096, 0x80 + (n / 64) % 64, 0x80 + n % 64]
  else [0xF0 + n / 262144, 0x80 + (n / 4096) % 64, 0x80 + (n / 64) % 64, 0x80 + n % 64]

/-- UTF-8 encoding of a text -/
def encode : List Char → List Nat
  | [] => []
  | c :: cs => encodeChar c ++ encode cs

/-- the byte string begins with the encoding of some scalar value (so decoding can make progress) -/
def StartsWithChar (bs : List Nat) : Prop := ∃ c tail, bs = encodeChar c ++ tail

end SaphyrVerif.Spec.Utf8
