/-!
Specification side of the raw-byte gate (C10): when does a raw byte string that starts with a UTF-16
byte-order mark END INSIDE A CHARACTER?  Stated directly on the byte list — number of bytes after the mark
and the last complete code unit — without any of the gate's state.  Bytes are `Nat` (< 256 on real input).
Import-free.
-/
namespace SaphyrVerif.Spec.Utf16

/-- the code unit made of two consecutive bytes (`u16::from_le_bytes` / `u16::from_be_bytes`) -/
def unit (be : Bool) (a b : Nat) : Nat := if be then a * 256 + b else b * 256 + a

/-- high (leading) surrogate: the first half of a surrogate pair -/
def isHigh (u : Nat) : Bool := 0xD800 ≤ u && u ≤ 0xDBFF

/-- the complete code units of a byte list (a trailing single byte is not a unit) -/
def units (be : Bool) : List Nat → List Nat
  | a :: b :: rest => unit be a b :: units be rest
  | _ => []

/-- the text after the byte-order mark ends inside a character: inside a code unit (odd number of bytes), or
right after a high surrogate whose partner is missing -/
def cutAfterBom (be : Bool) (rest : List Nat) : Bool :=
  rest.length % 2 == 1 ||
    (match (units be rest).getLast? with
     | some u => isHigh u
     | none => false)

/-- byte order announced by the first two bytes: `FF FE` = little endian (`some false`), `FE FF` = big endian
(`some true`), anything else (a UTF-8 mark, no mark, fewer than two bytes) = not UTF-16 -/
def bomOf : List Nat → Option Bool
  | 0xFF :: 0xFE :: _ => some false
  | 0xFE :: 0xFF :: _ => some true
  | _ => none

/-- **the predicate**: the raw input is UTF-16 (by its mark) and ends inside a character -/
def endsInsideChar (bs : List Nat) : Bool :=
  match bomOf bs with
  | some be => cutAfterBom be (bs.drop 2)
  | none => false

/-- the two bytes of a code unit in the given byte order -/
def unitBytes (be : Bool) (u : Nat) : List Nat := if be then [u / 256, u % 256] else [u % 256, u / 256]

/-- raw bytes of a UTF-16 text: the mark, then the code units -/
def encode (be : Bool) (us : List Nat) : List Nat :=
  (if be then [0xFE, 0xFF] else [0xFF, 0xFE]) ++ us.flatMap (unitBytes be)

end SaphyrVerif.Spec.Utf16
