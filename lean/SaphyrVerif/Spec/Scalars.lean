import SaphyrVerif.Model.Scalars
import SaphyrVerif.Model.Base64
/-!
Specifications for C06: the *mathematical* meaning of an integer notation (no accumulator, no
overflow handling) and the RFC 4648 encoder.
-/
namespace SaphyrVerif.Spec
open SaphyrVerif SaphyrVerif.Scalars

/-- Exact value of a digit string in `radix` with `_` separators; `none` when there is no digit or
some character is not a digit of that radix. -/
def digitsValue? (radix : Nat) (s : List Char) : Option Nat :=
  let cs := s.filter (fun c => c != '_')
  if cs.isEmpty then none
  else (cs.mapM (digitOf radix)).map (List.foldl (fun a d => a * radix + d) 0)

/-- The documented signed notation: optional sign, optional radix prefix, digits. Exact integer. -/
def intNotation (legacyOctal : Bool) (s : List Char) : Option Int :=
  let t := trim s
  let (neg, rest) := match t with
    | '+' :: r => (false, r)
    | '-' :: r => (true, r)
    | _ => (false, t)
  let (radix, digits) := radixAndDigits legacyOctal rest
  (digitsValue? radix digits).map (fun m => if neg then - (Int.ofNat m) else Int.ofNat m)

/-- The documented unsigned notation: no `-` at all (not even `-0`). -/
def uintNotation (legacyOctal : Bool) (s : List Char) : Option Nat :=
  let t := trim s
  match t with
  | '-' :: _ => none
  | _ =>
    let rest := match t with
      | '+' :: r => r
      | _ => t
    let (radix, digits) := radixAndDigits legacyOctal rest
    digitsValue? radix digits

/-- RFC 4648 alphabet. -/
def encVal (n : Nat) : Nat :=
  if n < 26 then 65 + n else if n < 52 then 97 + (n - 26) else if n < 62 then 48 + (n - 52)
  else if n == 62 then 43 else 47

/-- RFC 4648 base64 encoder with padding. -/
def b64encode : List Nat → List Nat
  | [] => []
  | [x] => [encVal (x / 4), encVal ((x % 4) * 16), 61, 61]
  | [x, y] => [encVal (x / 4), encVal ((x % 4) * 16 + y / 16), encVal ((y % 16) * 4), 61]
  | x :: y :: z :: rest =>
    [encVal (x / 4), encVal ((x % 4) * 16 + y / 16), encVal ((y % 16) * 4 + z / 64), encVal (z % 64)]
      ++ b64encode rest

end SaphyrVerif.Spec
