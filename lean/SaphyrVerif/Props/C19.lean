import SaphyrVerif.Model.Robotics
import SaphyrVerif.Lemmas.C19Total
import SaphyrVerif.Lemmas.C19Float
import SaphyrVerif.Lemmas.C19Ast
import SaphyrVerif.Lemmas.C19Literal
import SaphyrVerif.Lemmas.C19Wf
import SaphyrVerif.Lemmas.C19Token
import SaphyrVerif.Lemmas.C19Complete
/-!
# C19 — robotics expressions evaluate totally and exactly; plain numbers are unchanged

Property theorems about the model of `src/robotics.rs` / `parse_scalars.rs::parse_yaml12_float`
(`Model/Robotics.lean`) over the IEEE-754 model `Model/F64.lean`.
Helper lemmas: `Lemmas/C19*.lean` (`C19Ast`: soundness against the grammar, `C19Pre` + `C19Complete`: the
converse).  Further clauses (step count, frame count, tags for both widths, sexagesimal tokens):
`Props/C19_More.lean`.  The model is the code AFTER the repairs bebcb49 (`starts_ci` compares
bytes) and 78f916b (plain literals are returned as parsed); `Props/C19_Findings.lean` keeps the former
counter-example witnesses as regression examples of the repaired behaviour.
-/
namespace SaphyrVerif.Props.C19
open SaphyrVerif SaphyrVerif.F64 SaphyrVerif.Robotics SaphyrVerif.Spec.Robotics

/-- A value or an error — not a panic, not "out of fuel". -/
def Res.total {α} : Res α → Prop
  | .ok _ => True
  | .err _ _ => True
  | .panic _ => False
  | .fuel => False

/-! ## totality -/

/-- (T) `eval_total`, byte level: for every byte string in which continuation bytes occur only directly
behind non-ASCII bytes (every suffix of the bytes of a `str` is such), every tag: a value or an error —
no panic (no `str` slice off a char boundary, no `b[i-1]` out of range, no `depth` under/overflow) and
no fuel exhaustion. -/
theorem eval_total_bytes (tag : Nat) (s : List Nat) (h : Lemmas.C19.AdjOk s) :
    Res.total (evalExpr tag s) := by
  have := Lemmas.C19.evalExpr_good (ap := false) tag s (Or.inr h)
  revert this
  cases evalExpr tag s <;> simp [Lemmas.C19.TopGood, Res.total]

/-- (T) `eval_total` at full strength: EVERY scalar text (any Unicode string), every tag, is evaluated
to a value or an error — never a panic, never unbounded recursion or work.  (Before bebcb49 this was
false: `&self.s[i..i+4]` in `starts_ci` could end inside a multi-byte character.) -/
theorem eval_total (tag : Nat) (s : List Char) : Res.total (evalExpr tag (utf8 s)) :=
  eval_total_bytes tag (utf8 s) (Lemmas.C19.utf8_ok s).1

/-- (T) the call site is total as well: `parse_yaml12_float` with the option on or off, either width. -/
theorem parse_float_total (f32 : Bool) (s : List Char) (tag : Nat) (angle : Bool) :
    (∃ v, parseYaml12Float f32 s tag angle = .ok v) ∨ parseYaml12Float f32 s tag angle = .invalid ∨
    (∃ e, parseYaml12Float f32 s tag angle = .hook e) := by
  have ht := eval_total tag s
  have hp : (∃ v, parsePlain (fmtOf f32) s = .ok v) ∨ parsePlain (fmtOf f32) s = .invalid := by
    unfold parsePlain
    simp only []
    split
    · exact Or.inl ⟨_, rfl⟩
    · split
      · exact Or.inl ⟨_, rfl⟩
      · split
        · exact Or.inl ⟨_, rfl⟩
        · split
          · exact Or.inl ⟨_, rfl⟩
          · exact Or.inr rfl
  have hev : (∃ v, (match evalExpr tag (utf8 s) with
      | .ok v => FRes.ok (fromF64 f32 v) | .err e _ => .hook e | .panic p => .panic p | .fuel => .fuel) = .ok v) ∨
      (∃ e, (match evalExpr tag (utf8 s) with
      | .ok v => FRes.ok (fromF64 f32 v) | .err e _ => .hook e | .panic p => .panic p | .fuel => .fuel) = .hook e) := by
    revert ht
    cases evalExpr tag (utf8 s) with
    | ok v => intro _; exact Or.inl ⟨_, rfl⟩
    | err e d => intro _; exact Or.inr ⟨_, rfl⟩
    | panic p => intro h; exact absurd h (by simp [Res.total])
    | fuel => intro h; exact absurd h (by simp [Res.total])
  unfold parseYaml12Float
  simp only []
  cases angle with
  | false =>
    simp only [Bool.false_eq_true, ↓reduceIte]
    rcases hp with ⟨v, hv⟩ | hi
    · exact Or.inl ⟨v, hv⟩
    · exact Or.inr (Or.inl hi)
  | true =>
    simp only [↓reduceIte]
    rcases hp with ⟨v, hv⟩ | hi
    · rw [hv]
      simp only []
      split
      · exact Or.inl ⟨v, rfl⟩
      · rcases hev with h | h
        · exact Or.inl h
        · exact Or.inr (Or.inr h)
    · rw [hi]
      simp only []
      rcases hev with h | h
      · exact Or.inl h
      · exact Or.inr (Or.inr h)

theorem eval_total_ascii (tag : Nat) (s : List Nat) (h : ∀ c ∈ s, c < 128) : Res.total (evalExpr tag s) :=
  eval_total_bytes tag s (Lemmas.C19.AdjOk.of_noCont (Lemmas.C19.NoCont.of_ascii h))

/-- (T) bounded recursion and bounded work for EVERY byte string (valid UTF-8 or not): the model runs `expr` with recursion fuel `MAX_EXPR_DEPTH + 1` — one unit per nesting level
`expr → term → unary → primary → expr`, i.e. at most `4 · (MAX_EXPR_DEPTH + 1)` parser frames — and
gives every `loop` of `expr`/`term` `length + 1` iterations; neither fuel is ever exhausted. All other
loops are structural recursions over the remaining bytes. -/
theorem eval_fuel_suffices (tag : Nat) (s : List Nat) : evalExpr tag s ≠ .fuel := by
  have := Lemmas.C19.evalExpr_good (ap := true) tag s (Or.inl rfl)
  intro h
  rw [h] at this
  exact this

/-- (T) the recursion fuel of `eval_fuel_suffices`, spelled out: with `depth + n ≥ MAX_EXPR_DEPTH`,
`n + 1` nested `expr` activations suffice from any parser state, whatever the input length. -/
theorem expr_depth_bounded (tag lf n : Nat) (st : St) (hd : MAX_EXPR_DEPTH ≤ st.depth + n)
    (hl : st.rest.length < lf) : expr tag lf (n + 1) st ≠ .fuel := by
  have := Lemmas.C19.expr_good (ap := true) tag lf n st hd (Or.inl rfl) hl
  intro h
  rw [h] at this
  exact this

/-- (T) every successful parser step only moves the cursor forward and restores `depth` and the
sexagesimal mode (the invariant behind "work linear in the input": each loop iteration and each nesting
level consumes at least one byte, nothing is re-scanned except the bounded look-aheads). -/
theorem expr_cursor_monotone (tag lf n : Nat) (st st' : St) (ev : Eval)
    (hd : MAX_EXPR_DEPTH ≤ st.depth + n) (hl : st.rest.length < lf)
    (h : expr tag lf (n + 1) st = .ok (ev, st')) :
    (∃ consumed, st.rest = consumed ++ st'.rest) ∧ st'.depth = st.depth ∧ st'.sexTime = st.sexTime := by
  have := Lemmas.C19.expr_good (ap := true) tag lf n st hd (Or.inl rfl) hl
  rw [h] at this
  exact this

/-! ## the option -/

/-- (T) nothing changes unless the option is switched on: with `angle_conversions = false` the result
is the plain YAML 1.2 float reading (`.nan`/`.inf` forms, else `str::parse`) — the evaluator is not
entered, the tag is ignored.  (The plain path is the same text as the function compiled without the
`robotics` feature.) -/
theorem option_off_unchanged (f32 : Bool) (s : List Char) (tag : Nat) :
    parseYaml12Float f32 s tag false = parsePlain (fmtOf f32) s := by
  simp [parseYaml12Float]

theorem option_off_ignores_tag (f32 : Bool) (s : List Char) (t1 t2 : Nat) :
    parseYaml12Float f32 s t1 false = parseYaml12Float f32 s t2 false := by
  simp [parseYaml12Float]

/-! ## IEEE-754 model: facts used below -/

/-- (T) the rounding function always returns a canonical value of the format. -/
theorem round_wellformed64 (neg : Bool) (num den : Nat) (hd : den ≠ 0) : WF binary64 (round binary64 neg num den) :=
  Lemmas.C19F.round_wf binary64 Lemmas.C19F.prec64 Lemmas.C19F.range64 neg num den hd

theorem round_wellformed32 (neg : Bool) (num den : Nat) (hd : den ≠ 0) : WF binary32 (round binary32 neg num den) :=
  Lemmas.C19F.round_wf binary32 Lemmas.C19F.prec32 Lemmas.C19F.range32 neg num den hd

/-- (T) the exponent `round` works at comes from `ilog2 num den = ⌊log2 (num/den)⌋`:
`2^k ≤ num/den < 2^(k+1)` (comparisons through `scale`, i.e. cross-multiplied integers). -/
theorem ilog2_is_floor_log2 (num den : Nat) (hn : num ≠ 0) (hd : den ≠ 0) :
    Lemmas.C19F.P num den (ilog2 num den) ∧ ¬ Lemmas.C19F.P num den (ilog2 num den + 1) :=
  Lemmas.C19F.ilog2_spec num den hn hd

/-- (T) the significand `round` returns is the quotient rounded to NEAREST, ties to EVEN:
`roundEven q r d` (value `q + r/d`) is `q` below the half, `q + 1` above it, the even one on a tie. -/
theorem round_nearest_even (q r d : Nat) :
    (roundEven q r d = q ∧ 2 * r ≤ d ∧ (2 * r = d → q % 2 = 0)) ∨
    (roundEven q r d = q + 1 ∧ d ≤ 2 * r ∧ (2 * r = d → (q + 1) % 2 = 0)) :=
  Lemmas.C19F.roundEven_nearest q r d

/-- (T) every result of `+ - * /`, of narrowing and of `u32 → f64` is a canonical value (whatever the
operands). -/
theorem ops_wellformed (a b : Fl) :
    WF binary64 (add F a b) ∧ WF binary64 (sub F a b) ∧ WF binary64 (mul F a b) ∧ WF binary64 (div F a b) ∧
    WF binary32 (convert binary32 a) :=
  ⟨Lemmas.C19F.add_wf Lemmas.C19F.ok64 a b, Lemmas.C19F.sub_wf Lemmas.C19F.ok64 a b,
   Lemmas.C19F.mul_wf Lemmas.C19F.ok64 a b, Lemmas.C19F.div_wf Lemmas.C19F.ok64 a b,
   Lemmas.C19F.convert_wf Lemmas.C19F.ok32 a⟩

/-- (T) rounding is exact on representable values (`num/den = m · 2^e`, `(m, e)` canonical). -/
theorem round_exact (f : Fmt) (neg : Bool) (m a b : Nat) (e : Int) (hm : m ≠ 0) (hwf : WF f (.fin neg m e))
    (he : (a : Int) - b = e) : round f neg (m * 2 ^ a) (2 ^ b) = .fin neg m e :=
  Lemmas.C19F.round_exact f neg hm hwf ⟨a, b, rfl, rfl, he⟩

/-- (T) the `sign * v` of `unary`: multiplying by `1.0` / `-1.0` is the identity / IEEE negation. -/
theorem unary_sign_exact (x : Fl) (hx : WF binary64 x) :
    mul F ONE x = x ∧ mul F (neg ONE) x = neg x :=
  ⟨Lemmas.C19F.mul_one x hx, Lemmas.C19F.mul_neg_one x hx⟩

/-- (E) `0.1 + 0.2 = 0.30000000000000004`, `1/3`, subnormal underflow, overflow, signed zero, `inf − inf`. -/
example : toBits F (add F (ofBits F 0x3FB999999999999A) (ofBits F 0x3FC999999999999A)) = 0x3FD3333333333334 := by decide
example : toBits F (div F ONE (ofNat F 3)) = 0x3FD5555555555555 := by decide
example : toBits F (mul F (ofBits F 1) (ofBits F 0x3FE0000000000000)) = 0 := by decide +kernel
example : mul F (ofBits F 0x7FEFFFFFFFFFFFFF) TWO = .inf false := by decide +kernel
example : toBits F (sub F (zero F true) (zero F false)) = 0x8000000000000000 := by decide
example : add F (.inf false) (.inf true) = .nan := by decide

/-- (E) `DEG2RAD = PI / 180.0` in the model is the constant rustc computes. -/
example : DEG2RAD = ofBits binary64 0x3F91DF46A2529D39 := by decide
example : toBits binary64 PI = 0x400921FB54442D18 := by decide
example : toBits binary64 (mul F TWO PI) = 0x401921FB54442D18 := by decide

/-! ## ordinary float literals -/

/-- (T) Rust's `str::parse` (as modelled: the contract "correctly rounded exact decimal") on an ordinary
decimal literal `[+-] digits [. digits] [(e|E) [+-] digits]` yields `PlainLit.value`: the exact decimal
value rounded once to the target format. -/
theorem plain_literal_value (f : Fmt) (l : PlainLit) (hwf : l.WF) : fromStr f l.render = some (l.value f) :=
  Lemmas.C19L.fromStr_lit f l hwf

/-- (T) `plain_literal_unchanged` at full strength (both widths): whatever text the plain reading
accepts — decimal literals of any length, `inf`/`infinity`/`nan` in any case, the `.inf`/`.nan` forms,
Unicode white space around them — keeps EXACTLY that value when the option is switched on, for every
tag class except `!degrees` (which converts by design). -/
theorem plain_literal_unchanged (f32 : Bool) (s : List Char) (tag : Nat) (htag : tag ≠ TAG_DEGREES) (v : Fl)
    (h : parseYaml12Float f32 s tag false = .ok v) : parseYaml12Float f32 s tag true = .ok v := by
  rw [option_off_unchanged] at h
  unfold parseYaml12Float
  have ht : (tag != TAG_DEGREES) = true := by simpa using htag
  simp only [↓reduceIte, h, ht]

/-- (T) f64 instance -/
theorem plain_literal_unchanged_f64 (s : List Char) (tag : Nat) (htag : tag ≠ TAG_DEGREES) (v : Fl)
    (h : parseYaml12Float false s tag false = .ok v) : parseYaml12Float false s tag true = .ok v :=
  plain_literal_unchanged false s tag htag v h

/-- (T) f32 instance: no double rounding any more (the former counter-example
`1.00000005960464477540` is a regression example in `C19_Findings`). -/
theorem plain_literal_unchanged_f32 (s : List Char) (tag : Nat) (htag : tag ≠ TAG_DEGREES) (v : Fl)
    (h : parseYaml12Float true s tag false = .ok v) : parseYaml12Float true s tag true = .ok v :=
  plain_literal_unchanged true s tag htag v h

/-- (T) the value itself, for ordinary decimal literals `[+-] digits [. digits] [(e|E) [+-] digits]`
(any number of digits), either width, option on or off, tag ≠ `!degrees`: the exact decimal value
rounded ONCE into the target format. -/
theorem plain_literal_exact (f32 : Bool) (l : PlainLit) (hwf : l.WF) (tag : Nat) (htag : tag ≠ TAG_DEGREES)
    (angle : Bool) :
    parseYaml12Float f32 (l.render.map Char.ofNat) tag angle = .ok (l.value (fmtOf f32)) := by
  have hoff : parseYaml12Float f32 (l.render.map Char.ofNat) tag false = .ok (l.value (fmtOf f32)) := by
    rw [option_off_unchanged]
    exact Lemmas.C19L.parsePlain_lit (fmtOf f32) l hwf
  cases angle with
  | false => exact hoff
  | true => exact plain_literal_unchanged f32 _ tag htag _ hoff

/-- (T) what the EVALUATOR makes of an ordinary literal (≤ `MAX_NUM_DIGITS` digits) — the path taken
under `!degrees`, and for literals inside larger expressions: the same correctly rounded value (the
`sign * v` of `unary` is exact), converted to radians by ONE multiplication under `!degrees`. -/
theorem evaluator_on_literal (l : PlainLit) (hwf : l.WF) (hcap : l.digitCount ≤ MAX_NUM_DIGITS) (tag : Nat) :
    evalExpr tag l.render =
      .ok (if tag == TAG_DEGREES then mul F (l.value binary64) DEG2RAD else l.value binary64) :=
  Lemmas.C19L.evalExpr_lit_any tag l hwf hcap

/-- (T) an ordinary literal under the `!degrees` tag, f64: the value in degrees times `DEG2RAD`, once. -/
theorem degrees_tag_literal (l : PlainLit) (hwf : l.WF) (hcap : l.digitCount ≤ MAX_NUM_DIGITS) :
    parseYaml12Float false (l.render.map Char.ofNat) TAG_DEGREES true =
      .ok (mul F (l.value binary64) DEG2RAD) := by
  have hoff := Lemmas.C19L.parsePlain_lit binary64 l hwf
  unfold parseYaml12Float
  simp only [↓reduceIte, fmtOf, Bool.false_eq_true]
  rw [hoff]
  simp only [bne_self_eq_false, Bool.false_eq_true, ↓reduceIte]
  rw [Lemmas.C19L.utf8_chars _ (Lemmas.C19L.allowed_render l hwf), Lemmas.C19L.evalExpr_lit_any TAG_DEGREES l hwf hcap]
  simp [fromF64]

/-- (E) the hypotheses are satisfiable: `-12.5e+3` is an ordinary literal; its value is −12500. -/
example : (⟨some true, [49, 50], some [53], some (false, some false, [51])⟩ : PlainLit).render =
    "-12.5e+3".toList.map Char.toNat := by decide
example : (⟨some true, [49, 50], some [53], some (false, some false, [51])⟩ : PlainLit).value binary64 =
    neg (ofNat binary64 12500) := by decide

/-- (T) numbers with digit separators and exponents: a token `groups [. groups] [(e|E) [+-] groups]`
(underscores strictly between digits, at least one mantissa digit, at most `MAX_NUM_DIGITS` digits),
followed by bytes `k` that do not continue it, is scanned as exactly that token and denotes the
correctly rounded exact decimal value of the same number written WITHOUT the separators
(`t.plain.value`).  This discharges `TokenOk` for decimal number leaves of `eval_eq_ast`. -/
theorem number_token_value (tag : Nat) (tm : Bool) (t : NumTok) (hwf : t.WF)
    (hcap : t.plain.digitCount ≤ MAX_NUM_DIGITS) (k : List Nat) (hk : StopsToken k) :
    TokenOk tag tm t.render k (t.plain.value binary64, false, true) := by
  refine ⟨?_, [], 0, ?_⟩
  · obtain ⟨c, r, h, hc⟩ := Lemmas.C19L.tok_head t hwf k
    refine ⟨c, r, h, ?_⟩
    rcases hc with h | ⟨h, _⟩
    · exact Or.inl h
    · exact Or.inr h
  · exact Lemmas.C19L.parseNumberOrSpecial_tok tag t hwf hcap k hk [] 0 tm

/-- (T) the YAML forms `.inf` / `.nan` in any letter case denote +∞ / NaN (a bare value); a leading sign
is a unary sign of the grammar. -/
theorem dot_special_token_value (tag : Nat) (tm : Bool) (a b c d : Nat) (k : List Nat) :
    ([a, b, c, d].map lowerByte = [46, 105, 110, 102] → TokenOk tag tm [a, b, c, d] k (.inf false, false, true)) ∧
    ([a, b, c, d].map lowerByte = [46, 110, 97, 110] → TokenOk tag tm [a, b, c, d] k (.nan, false, true)) := by
  have key : ∀ ev, (∀ pre dp, parseNumberOrSpecial tag ⟨pre, a :: b :: c :: d :: k, dp, tm⟩ =
      .ok (ev, ⟨d :: c :: b :: a :: pre, k, dp, tm⟩)) → lowerByte a = 46 → TokenOk tag tm [a, b, c, d] k ev := by
    intro ev h ha
    refine ⟨⟨a, b :: c :: d :: k, rfl, ?_⟩, [], 0, _, h [] 0⟩
    right
    unfold lowerByte at ha
    split at ha
    · rename_i hc
      simp only [Bool.and_eq_true, decide_eq_true_eq] at hc
      omega
    · exact ha
  constructor
  · intro hl
    exact key _ (fun pre dp => Lemmas.C19L.dotInf_tok tag a b c d hl k pre dp tm) (by simp at hl; exact hl.1)
  · intro hl
    exact key _ (fun pre dp => Lemmas.C19L.dotNan_tok tag a b c d hl k pre dp tm) (by simp at hl; exact hl.1)

/-- (E) `1_000.2_5e1_0` is such a token; without separators it is `1000.25e10`. -/
example : (⟨[[49], [48, 48, 48]], some [[50], [53]], some (false, none, [[49], [48]])⟩ : NumTok).render =
    "1_000.2_5e1_0".toList.map Char.toNat := by decide
example : (⟨[[49], [48, 48, 48]], some [[50], [53]], some (false, none, [[49], [48]])⟩ : NumTok).plain.render =
    "1000.25e10".toList.map Char.toNat := by decide

/-! ## accepted expressions denote the evaluation of their syntax tree -/

/-- The scalar `s` is white space, the rendering of the tree `e`, white space; all leaves are lexically
well-formed (sexagesimal forms in time mode outside unit functions, angle mode inside); nesting within
`MAX_EXPR_DEPTH`. -/
def Parses (tag : Nat) (s : List Nat) (e : Expr) : Prop := Lemmas.C19.Parses tag s e

/-- (T) `eval_eq_ast`: every scalar the evaluator accepts (any byte string, any tag) is the rendering of a
syntax tree of the grammar `expr := term (('+'|'-') term)*`, `term := unary (('*'|'/') unary)*`,
`unary := ('+'|'-')* primary`, `primary := number-like | pi|tau|inf|nan | '(' expr ')' | deg|rad '(' expr ')'`
— binary operators grouped to the LEFT at two precedence levels, sign chains applied to the primary —
and the returned value is the reference evaluation of that tree with the IEEE operations of
`Model/F64.lean`, finished by `topValue` (tag handling).  Number-like leaves (decimal numbers with
separators, `.inf`/`.nan`, sexagesimal) denote what the token scanner yields on exactly that token
(`TokenOk`); `plain_literal_unchanged_f64` pins that down for ordinary decimal literals. -/
theorem eval_eq_ast (tag : Nat) (s : List Nat) (v : Fl) (h : evalExpr tag s = .ok v) :
    ∃ e : Expr, Parses tag s e ∧ topValue tag e.eval = some v :=
  Lemmas.C19.evalExpr_sound tag s v h

/-- (T) a chain of unary signs multiplies by `1.0` flipped once per '-' … -/
theorem sign_chain_value (signs : List Bool) :
    signValue signs = if (signs.count true) % 2 = 1 then neg ONE else ONE :=
  Lemmas.C19.signFold signs ONE

/-- … (T) which on every well-formed value is IEEE negation applied (number of '-') times: `--x = x`,
`-x` flips the sign bit (also of zero and infinity). -/
theorem sign_chain_is_negation (signs : List Bool) (x : Fl) (hx : WF binary64 x) :
    mul F (signValue signs) x = if (signs.count true) % 2 = 1 then neg x else x := by
  rw [sign_chain_value]
  split
  · exact (unary_sign_exact x hx).2
  · exact (unary_sign_exact x hx).1

/-- (T) in the tree of an accepted expression every unary node is IEEE negation applied once per '-'
to the value of its primary (all values the evaluator computes are canonical, so `±1.0 * v` is exact):
`--x = x`, `-x` flips the sign bit. -/
theorem unary_minus_is_negation (tag : Nat) (tm : Bool) (ws : List Nat) (signs : List Bool) (p : Primary)
    (k : List Nat) (h : (Unary.mk ws signs p).lexOk tag tm k) :
    (Unary.mk ws signs p).eval.1 = if (signs.count true) % 2 = 1 then neg p.eval.1 else p.eval.1 :=
  Lemmas.C19.unary_value tag tm ws signs p k h

/-- (T) every value in the tree of an accepted expression is a canonical binary64 value. -/
theorem values_wellformed (tag : Nat) (tm : Bool) (e : Expr) (k : List Nat) (h : e.lexOk tag tm k) :
    WF binary64 e.eval.1 :=
  Lemmas.C19.Expr.eval_wf tag tm e k h

/-- (T) `deg_once`: in the reference evaluation `deg(e)` is `e · DEG2RAD` (one multiplication) whatever the
tag and the inner units, `rad(e)` is `e`; and for an accepted scalar the tag converts exactly when the
tree uses no unit construct at all — so a degree quantity is converted to radians exactly once:
by its `deg(..)`, or by the `!degrees` tag, never by both. -/
theorem deg_once (tag : Nat) (s : List Nat) (v : Fl) (h : evalExpr tag s = .ok v) :
    ∃ e : Expr, Parses tag s e ∧
      (e.usesUnit = false → v = if tag = TAG_DEGREES then mul F e.value DEG2RAD else e.value) ∧
      (e.usesUnit = true → v = e.value) := by
  obtain ⟨e, hp, ht⟩ := eval_eq_ast tag s v h
  refine ⟨e, hp, ?_, ?_⟩
  · intro hu
    unfold Expr.usesUnit at hu
    unfold topValue at ht
    simp only [hu, Bool.not_false, ↓reduceIte, Option.some.injEq] at ht
    rw [← ht]
    by_cases htag : tag = TAG_DEGREES
    · simp [htag, Expr.value]
    · have : (tag == TAG_DEGREES) = false := by simpa using htag
      simp [htag, this, Expr.value]
  · intro hu
    unfold Expr.usesUnit at hu
    unfold topValue at ht
    simp only [hu, Bool.not_true, Bool.false_eq_true, ↓reduceIte] at ht
    split at ht
    · cases ht
    · simp only [Option.some.injEq] at ht
      exact ht.symm

theorem deg_fn_value (ws name ws1 ws' : List Nat) (e : Expr) :
    (Primary.fn ws true name ws1 e ws').eval = (mul F e.eval.1 DEG2RAD, true, false) ∧
    (Primary.fn ws false name ws1 e ws').eval = (e.eval.1, true, false) := ⟨rfl, rfl⟩

/-- (T) `eval_complete`, the converse of `eval_eq_ast`: EVERY tree of the grammar — any nesting of the
four binary operators, sign chains, parentheses, `deg(..)`/`rad(..)`, constants and number-like tokens,
with arbitrary white space, lexically well-formed, nested no deeper than `MAX_EXPR_DEPTH` — is accepted:
on its rendering (between white space) the evaluator returns the reference IEEE evaluation of the tree,
finished by the tag rule `topValue`; the only rejection is the `ambiguous mix` error, raised exactly when
`topValue` is `none`.  Together with `eval_eq_ast`: the evaluator IS the reference evaluator on the
language of the grammar, and rejects everything outside it. -/
theorem eval_complete (tag : Nat) (s : List Nat) (e : Expr) (h : Parses tag s e) :
    evalExpr tag s = match topValue tag e.eval with
      | some v => .ok v
      | none => .err .ambiguousMix 0 :=
  Lemmas.C19.evalExpr_complete tag s e h

/-- (T) `eval_iff_ast`: the evaluator accepts a scalar with value `v` EXACTLY when the scalar is the rendering
of a tree of the grammar whose reference evaluation, finished by the tag rule, is `v` (soundness
`eval_eq_ast` + completeness `eval_complete`). -/
theorem eval_iff_ast (tag : Nat) (s : List Nat) (v : Fl) :
    evalExpr tag s = .ok v ↔ ∃ e : Expr, Parses tag s e ∧ topValue tag e.eval = some v := by
  constructor
  · exact eval_eq_ast tag s v
  · rintro ⟨e, hp, ht⟩
    have := eval_complete tag s e hp
    rw [ht] at this
    exact this

/-- (T) a scalar has only one reading: two trees of the same scalar (they can differ only in where white
space is attached) have the same reference evaluation — the value and both unit flags. -/
theorem parse_eval_unique (tag : Nat) (s : List Nat) (e e' : Expr) (h : Parses tag s e) (h' : Parses tag s e') :
    e.eval = e'.eval :=
  Lemmas.C19.parses_eval_unique tag s e e' h h'

/-- (T) `mixed_units_rejected`, soundness form: a scalar accepted under `!degrees` never mixes unit
constructs with bare terms outside them — its tree either uses no unit construct (then the tag converts)
or has no bare term outside `deg(..)`/`rad(..)`. -/
theorem mixed_units_rejected_accepted (s : List Nat) (v : Fl) (h : evalExpr TAG_DEGREES s = .ok v) :
    ∃ e : Expr, Parses TAG_DEGREES s e ∧ ¬ (e.usesUnit = true ∧ e.hasBare = true) := by
  obtain ⟨e, hp, ht⟩ := eval_eq_ast TAG_DEGREES s v h
  refine ⟨e, hp, ?_⟩
  rintro ⟨hu, hb⟩
  unfold Expr.usesUnit at hu
  unfold Expr.hasBare at hb
  unfold topValue at ht
  simp [hu, hb] at ht

/-- the reference semantics of the final check -/
theorem mixed_units_spec (ev : Eval) (hu : ev.2.1 = true) (hb : ev.2.2 = true) : topValue TAG_DEGREES ev = none := by
  unfold topValue
  simp [hu, hb]

/-- `mixed_units_rejected` at full strength: EVERY tree under `!degrees` that uses a unit construct
(`deg(..)`, `rad(..)`, a sexagesimal form) and also has a bare number / constant outside the unit
functions is rejected, whatever the rest of the expression. -/
def mixed_units_rejected_Full : Prop :=
  ∀ (s : List Nat) (e : Expr), Parses TAG_DEGREES s e → e.usesUnit = true → e.hasBare = true →
    ∀ v, evalExpr TAG_DEGREES s ≠ .ok v

/-- (T) `mixed_units_rejected` (full): through `eval_complete` — the scalar has only the one reading. -/
theorem mixed_units_rejected : mixed_units_rejected_Full := by
  intro s e hp hu hb v hv
  have h := eval_complete TAG_DEGREES s e hp
  rw [mixed_units_spec e.eval hu hb] at h
  rw [h] at hv
  cases hv

/-- (T) … and the error is the dedicated one: `ambiguous mix of unitized values and Degrees tag`. -/
theorem mixed_units_error (s : List Nat) (e : Expr) (hp : Parses TAG_DEGREES s e) (hu : e.usesUnit = true)
    (hb : e.hasBare = true) : evalExpr TAG_DEGREES s = .err .ambiguousMix 0 := by
  have h := eval_complete TAG_DEGREES s e hp
  rw [mixed_units_spec e.eval hu hb] at h
  exact h

/-- (T) conversely the `ambiguous mix` rejection happens ONLY for such trees, and only under `!degrees`:
every other tree of the grammar is accepted. -/
theorem accepted_unless_mixed (tag : Nat) (s : List Nat) (e : Expr) (hp : Parses tag s e)
    (h : ¬ (tag = TAG_DEGREES ∧ e.usesUnit = true ∧ e.hasBare = true)) :
    ∃ v, evalExpr tag s = .ok v ∧ topValue tag e.eval = some v := by
  have hc := eval_complete tag s e hp
  cases ht : topValue tag e.eval with
  | some v => rw [ht] at hc; exact ⟨v, hc, rfl⟩
  | none =>
    exfalso
    apply h
    unfold topValue at ht
    unfold Expr.usesUnit Expr.hasBare
    cases hu : e.eval.2.1 <;> cases hb : e.eval.2.2 <;> simp [hu, hb] at ht ⊢
    all_goals first | exact ht | (simp_all)

/-- ASCII bytes of a string literal (for the examples) -/
def bytes (s : String) : List Nat := s.toList.map Char.toNat

/-! ### instances for the theorems about trees -/

instance (l : List Nat) : Decidable (IsWs l) := by unfold IsWs; infer_instance

/-- the token `90` denotes 90.0 in every context that ends it -/
theorem tok90 (tag : Nat) (tm : Bool) (k : List Nat) (hk : StopsToken k) :
    TokenOk tag tm [57, 48] k (ofNat F 90, false, true) := by
  have := number_token_value tag tm ⟨[[57, 48]], none, none⟩
    ⟨by simp [Groups.WF, isDigit], by simp, by simp,
      ⟨by simp [NumTok.plain, Groups.digits, isDigit], by simp [NumTok.plain, PlainLit.fracDigits],
       by simp [NumTok.plain, PlainLit.expDigits], by simp [NumTok.plain, Groups.digits], by simp [NumTok.plain]⟩⟩
    (by decide) k hk
  have hv : (NumTok.plain ⟨[[57, 48]], none, none⟩).value binary64 = ofNat F 90 := by decide
  rw [hv] at this
  exact this

def n90 (ws : List Nat) : Primary := .atom ws [57, 48] (ofNat F 90, false, true)
/-- the tree of `deg(90) + 90` -/
def exMixed : Expr :=
  .add (.term (.un (.mk [] [] (.fn [] true [100, 101, 103] [] (.term (.un (.mk [] [] (n90 [])))) []))))
    [32] (.un (.mk [32] [] (n90 [])))

/-- (E) the hypotheses of `eval_complete` / `mixed_units_rejected` are satisfiable: `deg(90) + 90` is a
scalar of the grammar, its tree uses a unit function and has a bare term … -/
theorem exMixed_parses (tag : Nat) : Parses tag (bytes "deg(90) + 90") exMixed := by
  refine ⟨[], [], by decide, by decide, by decide, ?_, by decide⟩
  simp only [exMixed, n90, Expr.lexOk, Term.lexOk, Unary.lexOk, Primary.lexOk, Term.render, Unary.render,
    Primary.render]
  exact ⟨⟨by decide, by decide, by decide, by decide, by decide, by decide, by decide,
    tok90 _ _ _ (by simp [StopsToken, isDigit])⟩, by decide, by decide, by decide, tok90 _ _ _ (by simp [StopsToken])⟩

example : exMixed.usesUnit = true ∧ exMixed.hasBare = true := by decide
/-- … (E) so it is rejected under `!degrees` (by the theorem, not by evaluation) and accepted otherwise. -/
example : evalExpr TAG_DEGREES (bytes "deg(90) + 90") = .err .ambiguousMix 0 :=
  mixed_units_error _ exMixed (exMixed_parses _) (by decide) (by decide)
example : ∃ v, evalExpr TAG_RADIANS (bytes "deg(90) + 90") = .ok v ∧ topValue TAG_RADIANS exMixed.eval = some v :=
  accepted_unless_mixed TAG_RADIANS _ exMixed (exMixed_parses _) (by decide)

/-- (E) a scalar can have two different trees (the blank of ` 90` belongs to the unary or to the primary);
`parse_eval_unique` says they evaluate alike. -/
example :
    Parses 0 (bytes " 90") (.term (.un (.mk [32] [] (n90 [])))) ∧
    Parses 0 (bytes " 90") (.term (.un (.mk [] [] (n90 [32])))) ∧
    Expr.term (.un (.mk [32] [] (n90 []))) ≠ Expr.term (.un (.mk [] [] (n90 [32]))) := by
  refine ⟨⟨[], [], by decide, by decide, by decide, ?_, by decide⟩,
    ⟨[], [], by decide, by decide, by decide, ?_, by decide⟩, by simp [n90]⟩
  · simp only [n90, Expr.lexOk, Term.lexOk, Unary.lexOk, Primary.lexOk]
    exact ⟨by decide, by decide, tok90 _ _ _ (by simp [StopsToken])⟩
  · simp only [n90, Expr.lexOk, Term.lexOk, Unary.lexOk, Primary.lexOk]
    exact ⟨by decide, by decide, tok90 _ _ _ (by simp [StopsToken])⟩

/-! ## non-vacuity -/

/-- (E) `1 + 2*(3 - 4/5)` is accepted and evaluates to 5.4 (bits of `5.4f64`). -/
example : evalExpr 0 (bytes "1 + 2*(3 - 4/5)") = .ok (ofBits binary64 0x401599999999999A) := by decide

/-- (E) `deg(180)` is π, also under the `!degrees` tag (converted exactly once). -/
example : evalExpr TAG_DEGREES (bytes "deg(180)") = .ok PI := by decide
example : evalExpr 0 (bytes "deg(180)") = .ok PI := by decide
/-- (E) mixed units under `!degrees` are rejected. -/
example : evalExpr TAG_DEGREES (bytes "deg(90) + 90") = .err .ambiguousMix 0 := by decide
set_option maxRecDepth 100000 in
/-- (E) 257 nested parentheses are rejected by the depth guard, 256 are accepted. -/
example : evalExpr 0 (List.replicate 257 40 ++ [49] ++ List.replicate 257 41) = .err .tooDeep 0 := by decide
set_option maxRecDepth 100000 in
example : evalExpr 0 (List.replicate 256 40 ++ [49] ++ List.replicate 256 41) = .ok ONE := by decide

end SaphyrVerif.Props.C19
