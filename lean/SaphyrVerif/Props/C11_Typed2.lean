import SaphyrVerif.Props.C11_Typed
import SaphyrVerif.Lemmas.C11_Typed2Stream
import SaphyrVerif.Lemmas.C11_Typed2Check
import SaphyrVerif.Lemmas.C11_Typed2FailStream
import SaphyrVerif.Lemmas.C11_Typed2Dangling
import SaphyrVerif.Lemmas.C11_Typed2Mix
import SaphyrVerif.Lemmas.CurSimVal
/-!
# C11 at the level of typed values, continued — left-over documents, nested dangling aliases, the per-document budget

`Props/C11_Typed.lean` proves "each document on its own" for the streaming iterator `read*` (`Entry.readIter`)
over streams in which no document is LEFT OVER (`T::deserialize` succeeds before the end of the document), and
without a budget.  Here:

* (1) left-over documents.  `roundsOf cfg ty N evs` (`Lemmas.C11B.docRounds`) is the loop `ReadIter::next` makes
  INSIDE one document, on the replay cursor over the events of that document and nothing else: after a value that
  stops early the left-over events are read as if further documents started there (a null-like scalar is
  skipped, a container end is an error item and the rest of the document is skipped, anything else is handed to
  `T::deserialize` again: `roundsOf_leftover`).  `iter_eq_rounds_partial`: the iterator over a stream yields,
  document by document, exactly these items — for every document, left over or not; the hypothesis that is left
  is about the MODEL's loop fuel `items.length + 10` (`hfuel`: it covers the rounds).
  `iter_isolated_rounds_partial`: "each on its own" whenever every document needs at most (number of its parser
  items) + 2 rounds (`Fits`) — which holds for every document that is not left over (`fits_of_not_leftover`), so
  `iter_isolated_partial` is a special case (`iter_isolated_partial_of_rounds`).  Whether `Fits` can fail at all
  is open: no document was found that needs more rounds than it has parser items (all 9114 trees of a small grammar
  with nested anchors and aliases × 8 early-stopping types, and 60000 larger ones).
* (3) the iterator WITH a per-document budget (`readPump L (some lim)`, the pump of `read_with_options`).  A
  document is SERVED (`Lemmas.C11B.DocServe`, established by evaluation: `served_of_check`) when the pump with the
  freshly reset enforcer delivers all its events, its `DocumentEnd` marker is within the limits too, and its final
  alias/anchor ratio check is silent; `budget_reset_at_document_start`: the state after the `DocumentStart` marker does
  not depend on the earlier documents (`Props.C07.perdoc_position_independent` at the pump level, also on the recovery
  path).  `iter_isolated_budgeted_partial`: over a stream of served documents the budgeted iterator yields
  the items of the one-document streams under the same limits, also after documents whose deserialization failed
  — and these are the items without any budget (`iter_budget_invisible`).  Without the hypothesis the statement is
  FALSE also of the repaired accounting (fix bc28f13: a document is charged from its own `DocumentStart` through its
  `DocumentEnd`).  `iter_isolated_budgeted_counterexample`: a document that exceeds `max_events` exactly AT its
  `DocumentEnd` yields its value, and the breach — observed lazily, by the iterator's own `peek` for the next
  document — ends the iteration.  `iter_isolated_budgeted_counting_counterexample`: the same happens with the
  alias/anchor ratio, which the per-document policy judges at every `DocumentEnd` (fix: it used to be judged by
  `finish()` only, against the counters of the LAST document — a violating document contributed an extra error item
  on its own but not inside a stream; `ratio_judged_per_document_regression`: now the same two items, value and
  `Budget` at its own `DocumentEnd`, at every position).  Both halves of `TrailOk` are needed.
* (2) / (3) documents in which the PUMP fails before the document ends — an alias to an anchor of an earlier
  document NESTED anywhere (`pumpFailsInside_of_no_expansion`: every document without an expansion from the empty
  table), a budget breach inside the document, an alias limit, a scan error.  What such a document contributes on
  its own is computed on the live pump of the one-document stream (`soloOf`).  `iter_failing_doc` /
  `anchors_not_visible_across_docs_typed_nested`: inside ANY stream, from any document boundary, the iterator
  yields EXACTLY these items (lock-step comparison of the two live cursors, `Lemmas.Lock.lA`: equal values and
  equal errors), and then resumes with the next document (the failure was met inside `T::deserialize`: error item
  + recovery, enforcer and anchor table reset) or is finished (the failure was met by its own `peek`).
  `iter_isolated_mixed_partial`: "each on its own" for streams that mix served and failing documents in any order.
-/
namespace SaphyrVerif.Props.C11
open SaphyrVerif SaphyrVerif.Scalars SaphyrVerif.Pump SaphyrVerif.Spec SaphyrVerif.De SaphyrVerif.Entry SaphyrVerif.Budget
open SaphyrVerif.Lemmas.C11T (DocRes DocOk DocsOk sameItem sameItems Item)
open SaphyrVerif.Lemmas.C11B (Rounds docRounds docSpec streamSpec DocServe DocsServe pumpOf freshBud)

/-! ### specification -/

/-- the pump of the `read*` iterators: alias limits `L` and, with `ob = some lim`, a budget enforcer with the
limits `lim` under the per-document policy (`EnforcingPolicy::PerDocument`) -/
abbrev readPump (L : AliasLimits) (ob : Option Limits) : Pump := pumpOf L ob

theorem readPump_none (L : AliasLimits) : readPump L none = initPump L := rfl
theorem readPump_some (L : AliasLimits) (lim : Limits) :
    readPump L (some lim) = { limits := L, budget := some (Enf.new lim true) } := rfl

/-- the rounds of the iterator inside ONE document with (expansion) events `evs`, on its own: the items, whether
the document was left through its end (`true`) or through the recovery after an error item (`false`), and the
number of rounds (`none`: more than `N` rounds) -/
abbrev roundsOf (cfg : Cfg) (ty : Ty) (N : Nat) (evs : List Ev) : Option Rounds := docSpec cfg ty N evs

/-- `roundsOf` unfolded: one round -/
theorem roundsOf_succ (cfg : Cfg) (ty : Ty) (N : Nat) (c : Cur) :
    docRounds cfg ty (N + 1) c =
      (match c.peek with
      | .err _ _ => none
      | .ok none _ => some ([], true, 0)
      | .ok (some (.seqEnd l)) _ => some ([.error ⟨"UnexpectedSequenceEnd", l, 0⟩], false, 1)
      | .ok (some (.mapEnd l)) _ => some ([.error ⟨"UnexpectedMappingEnd", l, 0⟩], false, 1)
      | .ok (some ev) c1 =>
        if Lemmas.C11T.evIsNull ev then
          match c1.next with
          | .ok _ c2 => (docRounds cfg ty N c2).map (Rounds.push [])
          | .err _ _ => none
        else
          match deser (fuelFor 100000) cfg ty false false c1 with
          | .err e _ => some ([.error e], false, 1)
          | .ok v c2 => (docRounds cfg ty N c2).map (Rounds.push [.ok v])) := by
  rw [docRounds]
  cases c.peek with
  | err e c' => rfl
  | ok o c' =>
    cases o with
    | none => rfl
    | some ev => cases ev <;> rfl

/-- every document is served by the pump with the optional enforcer `ob` (for `ob = none`: `docsServe_none`) -/
abbrev Served (L : AliasLimits) (ob : Option Limits) (ds : List (LNode × Bool × Loc × Loc)) (evss : List (List Ev)) :
    Prop := DocsServe L ob ds evss

/-- without an enforcer the hypotheses of `docs_pump_eq_concat` suffice -/
theorem docsServe_none (L : AliasLimits) (ds : List (LNode × Bool × Loc × Loc)) (evss : List (List Ev))
    (hL : Unlimited L ds) (hnf : ∀ d ∈ ds, Lemmas.C02.noFoldedIndent d.1 = true)
    (hexp : expandEach ds = .ok evss) : Served L none ds evss := by
  have hok := docsOk_of_hyps L ds evss hL hnf hexp
  clear hL hnf hexp
  induction ds generalizing evss with
  | nil =>
    cases evss with
    | nil => trivial
    | cons _ _ => exact hok.elim
  | cons d ds ih =>
    cases evss with
    | nil => exact hok.elim
    | cons evs evss => exact ⟨Lemmas.C11B.docServe_none hok.1, ih evss hok.2⟩

theorem served_ok {L : AliasLimits} {ob : Option Limits} : ∀ {ds : List (LNode × Bool × Loc × Loc)}
    {evss : List (List Ev)}, Served L ob ds evss → DocsOk L ds evss
  | [], [], _ => trivial
  | _ :: _, _ :: _, h => ⟨h.1.ok, served_ok h.2⟩
  | [], _ :: _, h => h.elim
  | _ :: _, [], h => h.elim

/-! ### (1) / (3): the iterator, document by document with its rounds -/

/-- (T, general form: with or without a per-document enforcer) over a stream of served documents the iterator
yields, document by document, the items of the rounds of each document on its own (`streamSpec`: the
concatenation of the items of `roundsOf`), provided the loop fuel of the model covers the rounds (`hfuel`). -/
theorem iter_eq_rounds (L : AliasLimits) (ob : Option Limits) (ds : List (LNode × Bool × Loc × Loc)) (l0 l1 : Loc)
    (evss : List (List Ev)) (cfg : Cfg) (ty : Ty) (N : Nat) (its : List Item) (k : Nat)
    (hmax : ∀ lim, ob = some lim → 1 ≤ lim.maxEvents) (hne : ds ≠ [])
    (hserve : Served L ob ds evss)
    (hspec : streamSpec cfg ty N evss = some (its, k))
    (hfuel : k + 1 ≤ (streamOf ds l0 l1).length + 10) :
    sameItems (readIter cfg ty (readPump L ob) (streamOf ds l0 l1)) its := by
  have hitems : streamOf ds l0 l1 = .ev .streamStart l0 :: (Lemmas.C11.docsItems ds ++ [.ev .streamEnd l1]) := by
    simp [streamOf, docsStream_eq]
  obtain ⟨q, hq, hl, hpk⟩ := Lemmas.C11B.start_boundaryB L ob hmax l0 (Lemmas.C11.docsItems ds ++ [.ev .streamEnd l1])
  unfold readIter
  rw [hitems] at hfuel ⊢
  rw [Lemmas.C11T.iterLoop_congr cfg ty hpk]
  obtain ⟨items, hi, hsame⟩ := Lemmas.C11B.iter_docsB l1 cfg ty N ds evss q _ []
    its k hserve hq hl (fun h => absurd h hne) hspec hfuel
  rw [hi]
  simpa using hsame

/-- (T, partial: the loop fuel of the model covers the rounds) the iterator without a budget yields, document by
document, the items of the rounds of each document on its own — whether or not a document is left over. -/
theorem iter_eq_rounds_partial (L : AliasLimits) (ds : List (LNode × Bool × Loc × Loc)) (l0 l1 : Loc)
    (evss : List (List Ev)) (cfg : Cfg) (ty : Ty) (N : Nat) (its : List Item) (k : Nat)
    (hL : Unlimited L ds) (hnf : ∀ d ∈ ds, Lemmas.C02.noFoldedIndent d.1 = true)
    (hexp : expandEach ds = .ok evss)
    (hspec : streamSpec cfg ty N evss = some (its, k))
    (hfuel : k + 1 ≤ (streamOf ds l0 l1).length + 10) :
    sameItems (readIter cfg ty (initPump L) (streamOf ds l0 l1)) its := by
  by_cases hne : ds = []
  · subst hne
    simp only [expandEach, Except.ok.injEq] at hexp
    subst hexp
    simp only [streamSpec, Option.some.injEq, Prod.mk.injEq] at hspec
    obtain ⟨rfl, rfl⟩ := hspec
    have : readIter cfg ty (initPump L) (streamOf [] l0 l1) = [] := by rfl
    rw [this]
    exact .nil
  exact iter_eq_rounds L none ds l0 l1 evss cfg ty N its k (fun lim h => by cases h) hne
    (docsServe_none L ds evss hL hnf hexp) hspec hfuel

/-! ### "each on its own", with rounds -/

/-- every document needs at most (number of its parser items) + 2 rounds inside it: then the loop fuel of the
model covers the rounds of the stream and of every one-document stream -/
abbrev Fits (cfg : Cfg) (ty : Ty) (ds : List (LNode × Bool × Loc × Loc)) (evss : List (List Ev)) : Prop :=
  Lemmas.C11B.Fits cfg ty ds evss

theorem streamOf_length (ds : List (LNode × Bool × Loc × Loc)) (l0 l1 : Loc) :
    (streamOf ds l0 l1).length = (Lemmas.C11.docsItems ds).length + 2 := by
  simp [streamOf, docsStream_eq]

/-- the items of `streamSpec` are those of the one-document streams -/
theorem spec_eq_singles (L : AliasLimits) (ob : Option Limits) (l0 l1 : Loc) (cfg : Cfg) (ty : Ty) (N : Nat)
    (hmax : ∀ lim, ob = some lim → 1 ≤ lim.maxEvents) :
    ∀ (ds : List (LNode × Bool × Loc × Loc)) (evss : List (List Ev)) (its : List Item) (k : Nat),
      Served L ob ds evss → Fits cfg ty ds evss → (Lemmas.C11.docsItems ds).length ≤ N →
      streamSpec cfg ty N evss = some (its, k) →
      sameItems its (ds.map fun d => readIter cfg ty (readPump L ob) (streamOf [d] l0 l1)).flatten := by
  intro ds
  induction ds with
  | nil =>
    intro evss its k hs _ _ hspec
    cases evss with
    | cons _ _ => exact hs.elim
    | nil =>
      simp only [streamSpec, Option.some.injEq, Prod.mk.injEq] at hspec
      obtain ⟨rfl, -⟩ := hspec
      exact .nil
  | cons d ds ih =>
    intro evss its k hs hfit hN hspec
    cases evss with
    | nil => exact hs.elim
    | cons evs evss =>
      obtain ⟨hd, hrest⟩ := hs
      obtain ⟨⟨r0, hr0⟩, hfrest⟩ := hfit
      rw [Lemmas.C11B.docsItems_length_cons] at hN
      have hr := Lemmas.C11B.docSpec_mono hr0 (by omega : (itemsOf d.1).length + 2 ≤ N)
      have hle := Lemmas.C11B.docRounds_le cfg ty _ _ r0 hr0
      simp only [streamSpec, hr] at hspec
      cases hr2 : streamSpec cfg ty N evss with
      | none => rw [hr2] at hspec; cases hspec
      | some r2 =>
        obtain ⟨its2, k2⟩ := r2
        rw [hr2] at hspec
        simp only [Option.some.injEq, Prod.mk.injEq] at hspec
        obtain ⟨rfl, rfl⟩ := hspec
        have hone := iter_eq_rounds L ob [d] l0 l1 [evs] cfg ty N (r0.1 ++ []) (r0.2.2 + 0) hmax (by simp)
          ⟨hd, trivial⟩ (by simp [streamSpec, hr]) (by
            rw [streamOf_length, Lemmas.C11B.docsItems_length_cons]
            simp only [Lemmas.C11.docsItems, List.length_nil]
            omega)
        simp only [List.append_nil] at hone
        simp only [List.map_cons, List.flatten_cons]
        exact Lemmas.C11T.sameItems.append hone.symm (ih evss its2 k2 hrest hfrest (by omega) hr2)

/-- (T, general form: with or without a per-document enforcer; partial: `Fits`) "each on its own": over a stream
of served documents, each of which needs at most (number of its parser items) + 2 rounds, the items of the
iterator are the concatenation, over the documents in order, of the items of the ONE-document streams (same
pump, same limits) — left-over documents and documents whose deserialization fails included. -/
theorem iter_isolated_rounds (L : AliasLimits) (ob : Option Limits) (ds : List (LNode × Bool × Loc × Loc)) (l0 l1 : Loc)
    (evss : List (List Ev)) (cfg : Cfg) (ty : Ty)
    (hmax : ∀ lim, ob = some lim → 1 ≤ lim.maxEvents) (hne : ds ≠ [])
    (hserve : Served L ob ds evss) (hfit : Fits cfg ty ds evss) :
    sameItems (readIter cfg ty (readPump L ob) (streamOf ds l0 l1))
      (ds.map fun d => readIter cfg ty (readPump L ob) (streamOf [d] l0 l1)).flatten := by
  obtain ⟨its, k, hspec, hk⟩ := Lemmas.C11B.fits_streamSpec cfg ty (Lemmas.C11.docsItems ds).length ds evss hfit
    (Nat.le_refl _)
  refine (iter_eq_rounds L ob ds l0 l1 evss cfg ty _ its k hmax hne hserve hspec (by
    rw [streamOf_length]; omega)).trans ?_
  exact spec_eq_singles L ob l0 l1 cfg ty _ hmax ds evss its k hserve hfit (Nat.le_refl _) hspec

/-- (T, partial: `Fits`) iter_isolated without a budget, left-over documents included: the items of a stream are
the concatenation of the items of the one-document streams, for every stream (under the hypotheses of
`docs_pump_eq_concat`) each of whose documents needs at most (number of its parser items) + 2 rounds of the
iterator inside it.  (`iter_isolated_Full` drops `Fits`; whether the model's loop fuel `items.length + 10` can
be exceeded on such a stream is not decided here — no document was found that needs more rounds than it has
parser items.) -/
theorem iter_isolated_rounds_partial (L : AliasLimits) (ds : List (LNode × Bool × Loc × Loc)) (l0 l1 : Loc)
    (evss : List (List Ev)) (cfg : Cfg) (ty : Ty)
    (hL : Unlimited L ds) (hnf : ∀ d ∈ ds, Lemmas.C02.noFoldedIndent d.1 = true)
    (hexp : expandEach ds = .ok evss) (hfit : Fits cfg ty ds evss) :
    sameItems (readIter cfg ty (initPump L) (streamOf ds l0 l1))
      (ds.map fun d => readIter cfg ty (initPump L) (streamOf [d] l0 l1)).flatten := by
  by_cases hne : ds = []
  · subst hne
    have : readIter cfg ty (initPump L) (streamOf [] l0 l1) = [] := by rfl
    rw [this]
    exact .nil
  exact iter_isolated_rounds L none ds l0 l1 evss cfg ty (fun lim h => by cases h) hne
    (docsServe_none L ds evss hL hnf hexp) hfit

/-- a stream without left-over documents fits: each of its documents takes ONE round -/
theorem fits_of_not_leftover (L : AliasLimits) (ds : List (LNode × Bool × Loc × Loc)) (evss : List (List Ev))
    (cfg : Cfg) (ty : Ty) (hok : DocsOk L ds evss) (hnl : ∀ evs ∈ evss, ∀ v, perDoc cfg ty evs ≠ .leftover v) :
    Fits cfg ty ds evss :=
  Lemmas.C11B.fits_of_not_leftover cfg ty ds evss hok (fun evs he => by
    have := hnl evs he
    show (perDoc cfg ty evs).isLeftover = false
    cases hp : perDoc cfg ty evs with
    | leftover v => exact absurd hp (this v)
    | _ => rfl)

/-- (T) … so `iter_isolated_partial` of `Props/C11_Typed.lean` is the special case "no document is left over"
of `iter_isolated_rounds_partial` -/
theorem iter_isolated_partial_of_rounds (L : AliasLimits) (ds : List (LNode × Bool × Loc × Loc)) (l0 l1 : Loc)
    (evss : List (List Ev)) (cfg : Cfg) (ty : Ty)
    (hL : Unlimited L ds) (hnf : ∀ d ∈ ds, Lemmas.C02.noFoldedIndent d.1 = true)
    (hexp : expandEach ds = .ok evss)
    (hnl : ∀ evs ∈ evss, ∀ v, perDoc cfg ty evs ≠ .leftover v) :
    sameItems (readIter cfg ty (initPump L) (streamOf ds l0 l1))
      (ds.map fun d => readIter cfg ty (initPump L) (streamOf [d] l0 l1)).flatten :=
  iter_isolated_rounds_partial L ds l0 l1 evss cfg ty hL hnf hexp
    (fits_of_not_leftover L ds evss cfg ty (docsOk_of_hyps L ds evss hL hnf hexp) hnl)

/-- (T) what a LEFT-OVER document contributes: first the value `T::deserialize` returned before the end of the
document, then the items of the rounds from the event where it stopped (`c2`), strictly inside the document —
on the replay cursor over the events of that document alone. -/
theorem roundsOf_leftover (L : AliasLimits) (t : LNode) (cfg : Cfg) (ty : Ty) (evs : List Ev) (v : Val) (N : Nat)
    (hok : DocOk L t evs) (h : perDoc cfg ty evs = .leftover v) :
    ∃ c2, deser (fuelFor 100000) cfg ty false false (.replay evs 0 none) = .ok v c2 ∧
      roundsOf cfg ty (N + 1) evs = (docRounds cfg ty N c2).map (Rounds.push [.ok v]) := by
  obtain ⟨nd, hn⟩ := hok.tree
  obtain ⟨e0, tl, hcons, hopen, -⟩ := Lemmas.C05.eflatten_cons nd
  rw [← hn] at hcons
  have hsc : ∀ v tg rt st a l, e0 = .scalar v tg rt st a l → tl = [] := by
    intro v tg rt st a l he
    subst he
    rw [hn] at hcons
    cases nd <;> simp [eflatten] at hcons
    exact hcons.2
  have := Lemmas.C11B.docSpec_of_perDoc cfg ty hcons hopen hsc N
  simp only [perDoc] at h
  rw [h] at this
  exact this

/-! #### (E) a left-over document inside a stream -/

theorem ex2_unlimited : Unlimited lim [exA, exNull, exC] := ex_unlimited'
theorem ex2_nofolded : ∀ d ∈ [exA, exNull, exC], Lemmas.C02.noFoldedIndent d.1 = true := fun d hd =>
  ex_nofolded d (by
    simp only [List.mem_cons, List.mem_nil_iff, or_false] at hd ⊢
    rcases hd with rfl | rfl | rfl <;> simp)
theorem ex2_expandEach : expandEach [exA, exNull, exC] = .ok [evsA, evsNull, evsC] := by rfl

/-- the rounds of `[&1 x, *1]` read as the 1-tuple `(String,)`: the value `("x",)`, then the replayed `x` is
handed to the target type again — an error item, and the rest of the document is skipped: 2 rounds -/
theorem ex2_roundsA : roundsOf {} (.tuple [.string]) 5 evsA =
    some ([.ok (.seq [.str ['x']]), .error ⟨"Unexpected", 11, 0⟩], false, 2) := by rfl

theorem ex2_spec : streamSpec {} (.tuple [.string]) 5 [evsA, evsNull, evsC] =
    some ([.ok (.seq [.str ['x']]), .error ⟨"Unexpected", 11, 0⟩, .ok (.seq [.str ['z']])], 4) := by rfl

/-- (E) `[&1 x, *1]` / `~` / `[z]` read as `(String,)`: the LEFT-OVER first document gives its truncated value and
an error item, the null document nothing, and the iterator resumes with the last document -/
example : sameItems (readIter {} (.tuple [.string]) (initPump lim) (streamOf [exA, exNull, exC] 1 99))
    [.ok (.seq [.str ['x']]), .error ⟨"Unexpected", 11, 0⟩, .ok (.seq [.str ['z']])] :=
  iter_eq_rounds_partial lim [exA, exNull, exC] 1 99 [evsA, evsNull, evsC] {} (.tuple [.string]) 5 _ 4
    ex2_unlimited ex2_nofolded ex2_expandEach ex2_spec (by decide)

theorem ex2_fits : Fits {} (.tuple [.string]) [exA, exNull, exC] [evsA, evsNull, evsC] :=
  ⟨⟨_, by rfl⟩, ⟨_, by rfl⟩, ⟨_, by rfl⟩, trivial⟩

/-- (E) … and these are the items of the three one-document streams -/
example : sameItems (readIter {} (.tuple [.string]) (initPump lim) (streamOf [exA, exNull, exC] 1 99))
    ([exA, exNull, exC].map fun d => readIter {} (.tuple [.string]) (initPump lim) (streamOf [d] 1 99)).flatten :=
  iter_isolated_rounds_partial lim [exA, exNull, exC] 1 99 [evsA, evsNull, evsC] {} (.tuple [.string])
    ex2_unlimited ex2_nofolded ex2_expandEach ex2_fits

/-- (E) `roundsOf_leftover` applies to the first document -/
example : ∃ c2, deser (fuelFor 100000) {} (.tuple [.string]) false false (.replay evsA 0 none) = .ok (.seq [.str ['x']]) c2 ∧
    roundsOf {} (.tuple [.string]) 5 evsA = (docRounds {} (.tuple [.string]) 4 c2).map (Rounds.push [.ok (.seq [.str ['x']])]) :=
  roundsOf_leftover lim exA.1 {} (.tuple [.string]) evsA _ 4
    (docsOk_of_hyps lim [exA, exNull, exC] [evsA, evsNull, evsC] ex2_unlimited ex2_nofolded ex2_expandEach).1
    ex_perDocA_tuple

/-! ### (3) the iterator with a per-document budget -/

open SaphyrVerif.Lemmas.C11B (BoundaryB StartB startB serveCheck)

/-- (T) the enforcer is reset at every document start — `Props.C07.perdoc_position_independent` /
`perdoc_recovery_position_independent` at the level of the pump, on BOTH paths: (a) a `DocumentStart` marker met at a
document boundary, whatever the enforcer has counted, leaves the pump in a start state whose enforcer is
`docStartState lim 0` (everything forgotten, the marker counted as the FIRST event of the new document); (b) so does
the recovery `skip_to_next_document` from anywhere inside a document (`begin_document_at`; the skipped events are
not charged).  A start state (`StartB`) fixes every field of the pump that `next_impl` reads before the first event
of the document: what the earlier documents did cannot matter. -/
theorem budget_reset_at_document_start (L : AliasLimits) (lim : Limits) :
    (∀ (q : Pump) (ex : Bool) (ls : Loc) (X : List RawItem), BoundaryB L (some lim) q → q.look = none →
      nextImpl q (.ev (.docStart ex) ls :: X) = nextImpl (startB (some lim) q ls) X ∧
      StartB L (some lim) ls (startB (some lim) q ls) ∧
      (startB (some lim) q ls).budget = some (Lemmas.C07.docStartState lim 0)) ∧
    (∀ (q3 : Pump) (B X : List RawItem) (le : Loc) (ex : Bool) (ls : Loc),
      Lemmas.C11B.StatB L (some lim) q3 → (∀ x ∈ B, Lemmas.C11T.skipNeutral x = true) →
      ∃ q4, skipToNextDocument q3 (B ++ .ev .docEnd le :: .ev (.docStart ex) ls :: X) = (true, q4, X) ∧
        StartB L (some lim) ls q4 ∧ q4.budget = some (Lemmas.C07.docStartState lim 0)) := by
  constructor
  · intro q ex ls X hq hl
    exact ⟨Lemmas.C11B.step_docStartB hq ex ls X, (Lemmas.C11B.startB_start hq hl ls).1, rfl⟩
  · intro q3 B X le ex ls hst hB
    obtain ⟨-, h2⟩ := Lemmas.C11B.skip_from_docB (le := le) (X := .ev (.docStart ex) ls :: X) hst ⟨B, rfl, hB⟩
    obtain ⟨q4, hsk, hs4, -⟩ := h2 ex ls X rfl
    exact ⟨q4, hsk, hs4, hs4.bud⟩

/-- (bridge) every document passes the executable check `serveCheck`: the pump with the freshly reset enforcer
delivers its events, its `DocumentEnd` is within the limits and its ratio check is silent — "every document is within
its limits, its `DocumentEnd` included" -/
theorem served_of_check (L : AliasLimits) (ob : Option Limits) (ds : List (LNode × Bool × Loc × Loc))
    (evss : List (List Ev)) (hL : Unlimited L ds) (hnf : ∀ d ∈ ds, Lemmas.C02.noFoldedIndent d.1 = true)
    (hexp : expandEach ds = .ok evss)
    (hchk : ((ds.zip evss).all fun x => serveCheck L ob x.1 x.2) = true) : Served L ob ds evss := by
  have hok := docsOk_of_hyps L ds evss hL hnf hexp
  clear hL hnf hexp
  induction ds generalizing evss with
  | nil =>
    cases evss with
    | nil => trivial
    | cons _ _ => exact hok.elim
  | cons d ds ih =>
    cases evss with
    | nil => exact hok.elim
    | cons evs evss =>
      simp only [List.zip_cons_cons, List.all_cons, Bool.and_eq_true] at hchk
      exact ⟨Lemmas.C11B.docServe_of_check hok.1 hchk.1, ih evss hchk.2 hok.2⟩

/-- the full statement: whatever the limits are -/
def iter_isolated_budgeted_Full : Prop :=
  ∀ (L : AliasLimits) (lim : Limits) (ds : List (LNode × Bool × Loc × Loc)) (l0 l1 : Loc) (evss : List (List Ev))
    (cfg : Cfg) (ty : Ty),
    Unlimited L ds → (∀ d ∈ ds, Lemmas.C02.noFoldedIndent d.1 = true) → expandEach ds = .ok evss →
    sameItems (readIter cfg ty (readPump L (some lim)) (streamOf ds l0 l1))
      (ds.map fun d => readIter cfg ty (readPump L (some lim)) (streamOf [d] l0 l1)).flatten

/-- (T, partial: every document is served — its own events from `DocumentStart` through `DocumentEnd` are within the
limits and its alias/anchor ratio check is silent —, and `Fits`)
iter_isolated_budgeted — "each on its own" with the per-document budget: for `Entry.readIter` over the pump of
`read_with_options` with a `PerDocument` enforcer, the items of a stream are the concatenation, over its documents
in order, of the items of the ONE-document streams under the same limits — also after a document whose
deserialization failed (the recovery resets the enforcer: `budget_reset_at_document_start`), and for left-over
documents. -/
theorem iter_isolated_budgeted_partial (L : AliasLimits) (lim : Limits) (ds : List (LNode × Bool × Loc × Loc))
    (l0 l1 : Loc) (evss : List (List Ev)) (cfg : Cfg) (ty : Ty)
    (hmax : 1 ≤ lim.maxEvents) (hne : ds ≠ [])
    (hserve : Served L (some lim) ds evss) (hfit : Fits cfg ty ds evss) :
    sameItems (readIter cfg ty (readPump L (some lim)) (streamOf ds l0 l1))
      (ds.map fun d => readIter cfg ty (readPump L (some lim)) (streamOf [d] l0 l1)).flatten :=
  iter_isolated_rounds L (some lim) ds l0 l1 evss cfg ty (fun l h => by cases h; exact hmax) hne hserve hfit

/-- (T) … and these are the items of the iterator WITHOUT a budget: a per-document budget that no document
breaches is invisible to `read*` (values, and where the error items are). -/
theorem iter_budget_invisible (L : AliasLimits) (lim : Limits) (ds : List (LNode × Bool × Loc × Loc))
    (l0 l1 : Loc) (evss : List (List Ev)) (cfg : Cfg) (ty : Ty)
    (hmax : 1 ≤ lim.maxEvents) (hne : ds ≠ [])
    (hserve : Served L (some lim) ds evss) (hfit : Fits cfg ty ds evss) :
    sameItems (readIter cfg ty (readPump L (some lim)) (streamOf ds l0 l1))
      (readIter cfg ty (initPump L) (streamOf ds l0 l1)) := by
  obtain ⟨its, k, hspec, hk⟩ := Lemmas.C11B.fits_streamSpec cfg ty (Lemmas.C11.docsItems ds).length ds evss hfit
    (Nat.le_refl _)
  have hfuel : k + 1 ≤ (streamOf ds l0 l1).length + 10 := by rw [streamOf_length]; omega
  have h1 := iter_eq_rounds L (some lim) ds l0 l1 evss cfg ty _ its k (fun l h => by cases h; exact hmax) hne hserve
    hspec hfuel
  have hnone : Served L none ds evss := by
    have hok := served_ok hserve
    clear hserve hfit hspec h1 hfuel hk hne
    induction ds generalizing evss with
    | nil =>
      cases evss with
      | nil => trivial
      | cons _ _ => exact hok.elim
    | cons d ds ih =>
      cases evss with
      | nil => exact hok.elim
      | cons evs evss => exact ⟨Lemmas.C11B.docServe_none hok.1, ih evss hok.2⟩
  have h2 := iter_eq_rounds L none ds l0 l1 evss cfg ty _ its k (fun l h => by cases h) hne hnone hspec hfuel
  exact h1.trans h2.symm

/-! #### (E) / (F): a stream under a per-document budget -/

/-- limits that are EXACTLY the usage of the largest document `[&1 x, *1]` (7 events of its own: `DocumentStart`,
5 node / alias / replayed events, `DocumentEnd`; 3 nodes — the replayed `x` counts —, 1 alias, 1 anchor, depth 1,
2 scalar bytes), ratio check on -/
def exLim : Limits :=
  { maxEvents := 7, maxAliases := 1, maxAnchors := 1, maxDepth := 1, maxDocuments := 0, maxNodes := 3,
    maxTotalScalarBytes := 2, maxMergeKeys := 0, enforceRatio := true, minAliases := 1, multiplier := 1 }

theorem ex3_served : Served lim (some exLim) [exA, exBad, exNull, exC] [evsA, evsBad, evsNull, evsC] :=
  served_of_check lim (some exLim) _ _ ex_unlimited ex_nofolded ex_expandEach (by decide +kernel)

theorem ex3_fits : Fits {} (.seq .string) [exA, exBad, exNull, exC] [evsA, evsBad, evsNull, evsC] :=
  ⟨⟨_, by rfl⟩, ⟨_, by rfl⟩, ⟨_, by rfl⟩, ⟨_, by rfl⟩, trivial⟩

/-- (E) `[&1 x, *1]` / `y` / `~` / `[z]` read as `Vec<String>` under the per-document budget `exLim`: every
document is charged on its own (the four documents together have 10 nodes, the limit is 3), the items are those
of the four one-document streams under the same limits … -/
example : sameItems (readIter {} (.seq .string) (readPump lim (some exLim)) (streamOf [exA, exBad, exNull, exC] 1 99))
    ([exA, exBad, exNull, exC].map fun d =>
      readIter {} (.seq .string) (readPump lim (some exLim)) (streamOf [d] 1 99)).flatten :=
  iter_isolated_budgeted_partial lim exLim _ 1 99 _ {} (.seq .string) (by decide) (by simp) ex3_served ex3_fits

/-- (E) … and those of the iterator without a budget -/
example : sameItems (readIter {} (.seq .string) (readPump lim (some exLim)) (streamOf [exA, exBad, exNull, exC] 1 99))
    (readIter {} (.seq .string) (initPump lim) (streamOf [exA, exBad, exNull, exC] 1 99)) :=
  iter_budget_invisible lim exLim _ 1 99 _ {} (.seq .string) (by decide) (by simp) ex3_served ex3_fits

/-- one event less than the first document has of its own: its six events up to its last node event are within the
limit, its `DocumentEnd` is the 7th -/
def exLim6 : Limits := { exLim with maxEvents := 6 }

/-- kind and location of an item (`("", 0)` for a value) -/
def itemKind : Item → String × Loc
  | .ok _ => ("", 0)
  | .error e => (e.kind, e.loc)

/-- (F) the stream under `exLim6`: the value of the first document (`T::deserialize` returns at the last node event),
then `Budget` at the `DocumentEnd` marker of the FIRST document (location 3) — the marker is observed lazily, by the
iterator's own `peek` for the next document, so `ReadIter::next` sets `finished`: the three later documents are
never read -/
theorem cx_budget_stream :
    (readIter {} (.seq .string) (readPump lim (some exLim6)) (streamOf [exA, exBad, exNull, exC] 1 99)).map itemKind =
      [("", 0), ("Budget", 3)] := by decide +kernel

/-- (F) … while on their own the first document yields the same two items, the second one is read and rejected by
its type only, the third one is skipped and the fourth one is read -/
theorem cx_budget_singles :
    ([exA, exBad, exNull, exC].map fun d =>
      (readIter {} (.seq .string) (readPump lim (some exLim6)) (streamOf [d] 1 99)).map itemKind) =
      [[("", 0), ("Budget", 3)], [("Unexpected", 51)], [], [("", 0)]] := by decide +kernel

theorem cx_budget_lengths :
    (readIter {} (.seq .string) (readPump lim (some exLim6)) (streamOf [exA, exBad, exNull, exC] 1 99)).length = 2 ∧
    ([exA, exBad, exNull, exC].map fun d =>
      readIter {} (.seq .string) (readPump lim (some exLim6)) (streamOf [d] 1 99)).flatten.length = 4 := by
  decide +kernel

/-- (F) iter_isolated_budgeted without a hypothesis on the limits is false also of the repaired accounting
(a document is charged from its `DocumentStart` through its `DocumentEnd`): a document that exceeds `max_events`
exactly AT its `DocumentEnd` is read completely and yields its value; the breach surfaces as the NEXT item, met by
the iterator's own `peek`, and ends the iteration — the later documents are lost, although each of them is within
the limits.  The hypothesis that excludes it: every document is within the limits INCLUDING its `DocumentEnd`
(`TrailOk`, part of `Served`). -/
theorem iter_isolated_budgeted_counterexample : ¬ iter_isolated_budgeted_Full := by
  intro h
  have := (h lim exLim6 [exA, exBad, exNull, exC] 1 99 [evsA, evsBad, evsNull, evsC] {} (.seq .string)
    ex_unlimited ex_nofolded ex_expandEach).length
  rw [cx_budget_lengths.1, cx_budget_lengths.2] at this
  cases this

/-- `exLim` with a ratio limit that `[&1 x, *1]` violates (1 alias > 0 × 1 anchor); all COUNTING limits are as in
`exLim`, i.e. every document is within them, `DocumentEnd` included -/
def exLimR : Limits := { exLim with multiplier := 0 }

/-- the second half of the hypothesis: the statement for documents that are within all counting limits, their
`DocumentEnd` included (served when the ratio check is switched off) -/
def iter_isolated_budgeted_counting_Full : Prop :=
  ∀ (L : AliasLimits) (lim : Limits) (ds : List (LNode × Bool × Loc × Loc)) (l0 l1 : Loc) (evss : List (List Ev))
    (cfg : Cfg) (ty : Ty),
    1 ≤ lim.maxEvents → ds ≠ [] → Served L (some { lim with enforceRatio := false }) ds evss → Fits cfg ty ds evss →
    sameItems (readIter cfg ty (readPump L (some lim)) (streamOf ds l0 l1))
      (ds.map fun d => readIter cfg ty (readPump L (some lim)) (streamOf [d] l0 l1)).flatten

theorem ex3_served_counting :
    Served lim (some { exLimR with enforceRatio := false }) [exA, exBad, exNull, exC] [evsA, evsBad, evsNull, evsC] :=
  served_of_check lim _ _ _ ex_unlimited ex_nofolded ex_expandEach (by decide +kernel)

/-- the stream under `exLimR`: the alias/anchor ratio is judged at the `DocumentEnd` of the document that violates it
(per-document policy; before the fix it was judged by `finish()` only, at the end of the stream, against the counters
of the LAST document: the stream yielded three items without any `Budget` error, the first document on its own four).
The first document yields its value, then `Budget` at ITS `DocumentEnd` marker (location 3) — observed lazily, by the
iterator's own `peek` for the next document, which ends the iteration; on its own it yields the same two items -/
theorem cx_ratio :
    (readIter {} (.seq .string) (readPump lim (some exLimR)) (streamOf [exA, exBad, exNull, exC] 1 99)).map itemKind =
      [("", 0), ("Budget", 3)] ∧
    ([exA, exBad, exNull, exC].map fun d =>
      (readIter {} (.seq .string) (readPump lim (some exLimR)) (streamOf [d] 1 99)).map itemKind) =
      [[("", 0), ("Budget", 3)], [("Unexpected", 51)], [], [("", 0)]] := by decide +kernel

/-- regression (the ratio used to be applied to the LAST document only): the document that violates the ratio is
rejected at every position — first, middle, last, alone — with the same two items: its value and the `Budget` error at
its own `DocumentEnd` (location 3); the documents before it are delivered as on their own -/
theorem ratio_judged_per_document_regression :
    (readIter {} (.seq .string) (readPump lim (some exLimR)) (streamOf [exA] 1 99)).map itemKind =
      [("", 0), ("Budget", 3)] ∧
    (readIter {} (.seq .string) (readPump lim (some exLimR)) (streamOf [exA, exBad, exNull, exC] 1 99)).map itemKind =
      [("", 0), ("Budget", 3)] ∧
    (readIter {} (.seq .string) (readPump lim (some exLimR)) (streamOf [exBad, exA, exC] 1 99)).map itemKind =
      [("Unexpected", 51), ("", 0), ("Budget", 3)] ∧
    (readIter {} (.seq .string) (readPump lim (some exLimR)) (streamOf [exC, exA] 1 99)).map itemKind =
      [("", 0), ("", 0), ("Budget", 3)] := by decide +kernel

theorem cx_ratio_lengths :
    (readIter {} (.seq .string) (readPump lim (some exLimR)) (streamOf [exA, exBad, exNull, exC] 1 99)).length = 2 ∧
    ([exA, exBad, exNull, exC].map fun d =>
      readIter {} (.seq .string) (readPump lim (some exLimR)) (streamOf [d] 1 99)).flatten.length = 4 := by
  decide +kernel

/-- (F) … so "every document within the counting limits, `DocumentEnd` included" is not enough either.  The
alias/anchor ratio heuristic IS applied per document (at the document's own `DocumentEnd`, wherever the document stands:
`ratio_judged_per_document_regression`, `Props.C07.perdoc_ratio_position_independent`), but — like every breach raised
at a `DocumentEnd` (`iter_isolated_budgeted_counterexample`) — it is observed lazily, after the value of the document
has been yielded, by the iterator's own `peek`, and ends the iteration: the later documents, each of which is
accepted on its own, are lost.  The hypothesis that excludes it: the ratio check at the `DocumentEnd` of every document
is silent (the other half of `TrailOk`). -/
theorem iter_isolated_budgeted_counting_counterexample : ¬ iter_isolated_budgeted_counting_Full := by
  intro h
  have := (h lim exLimR [exA, exBad, exNull, exC] 1 99 [evsA, evsBad, evsNull, evsC] {} (.seq .string)
    (by decide) (by simp) ex3_served_counting ex3_fits).length
  rw [cx_ratio_lengths.1, cx_ratio_lengths.2] at this
  cases this

/-! ### (2) / (3): a document in which the pump fails — nested dangling alias, budget breach, …

A document may make the pump ITSELF fail before the document ends: an alias whose anchor is defined in an earlier
document only (at the root or NESTED anywhere), an event that the per-document enforcer rejects, an alias limit,
a scan error.  Such a document has no events "on its own" for the replay cursor of `perDoc` / `roundsOf`; what it
contributes on its own is what the iterator yields for the one-document stream.  `soloOf` computes this on the
live pump (canonical start state after the `DocumentStart` marker, the document, `DocumentEnd`, `StreamEnd`):
the items, whether the document was left through the recovery `skip_to_next_document` (`true`) or the iterator
finished (`false`: the failure was met by the iterator's own `peek`), and the number of rounds. -/

open SaphyrVerif.Lemmas.C11B (FailRun soloRounds canonStart failCheck)

/-- the pump (with the optional per-document enforcer `ob`) fails inside the document, before its end marker -/
def PumpFailsInside (L : AliasLimits) (ob : Option Limits) (d : LNode × Bool × Loc × Loc) : Prop :=
  ∃ es, FailRun [.ev .docEnd 0] (canonStart L ob d.2.2.1) (itemsOf d.1 ++ [.ev .docEnd 0]) es

/-- (bridge) established by evaluation -/
theorem pumpFailsInside_of_check {L : AliasLimits} {ob : Option Limits} {d : LNode × Bool × Loc × Loc}
    (h : failCheck L ob d = true) : PumpFailsInside L ob d :=
  Lemmas.C11B.failRun_of_check h

/-- what the document contributes ON ITS OWN (the one-document stream, on the live pump) -/
abbrev soloOf (cfg : Cfg) (ty : Ty) (L : AliasLimits) (ob : Option Limits) (N : Nat) (d : LNode × Bool × Loc × Loc)
    (l1 : Loc) : Option Rounds :=
  soloRounds cfg ty N (canonStart L ob d.2.2.1) (itemsOf d.1 ++ [.ev .docEnd d.2.2.2, .ev .streamEnd l1])

/-- (T, general form: with or without a per-document enforcer) a stream `pre ++ dk :: post` whose document `dk`
makes the pump fail, while the documents of `pre` and `post` are served: the iterator yields the items of `pre`
(each on its own), then EXACTLY the items `r.1` of `dk` on its own (equal values AND equal errors — the lock-step
comparison does not lose the error payloads), and then
* if `dk` was left through the recovery (`r.2.1 = true`: an error item from `T::deserialize` or a container end,
  then `skip_to_next_document`): the items of `post`, each on its own — the failing document does not affect
  the later documents;
* otherwise (`r.2.1 = false`: the failure was met by the iterator's own `peek`, `finished = true`): nothing —
  the later documents are lost. -/
theorem iter_failing_doc (L : AliasLimits) (ob : Option Limits)
    (pre post : List (LNode × Bool × Loc × Loc)) (dk : LNode × Bool × Loc × Loc) (l0 l1 : Loc)
    (evssPre evssPost : List (List Ev)) (cfg : Cfg) (ty : Ty) (N Ns : Nat) (its1 its2 : List Item) (k1 k2 : Nat)
    (r : Rounds)
    (hmax : ∀ lim, ob = some lim → 1 ≤ lim.maxEvents)
    (hpre : Served L ob pre evssPre) (hspec1 : streamSpec cfg ty N evssPre = some (its1, k1))
    (hfail : PumpFailsInside L ob dk) (hsolo : soloOf cfg ty L ob Ns dk l1 = some r)
    (hpost : Served L ob post evssPost) (hspec2 : streamSpec cfg ty N evssPost = some (its2, k2))
    (hfuel : k1 + r.2.2 + k2 + 1 ≤ (streamOf (pre ++ dk :: post) l0 l1).length + 10) :
    ∃ A B, readIter cfg ty (readPump L ob) (streamOf (pre ++ dk :: post) l0 l1) = A ++ r.1 ++ B ∧
      sameItems A its1 ∧ (r.2.1 = true → sameItems B its2) ∧ (r.2.1 = false → B = []) := by
  obtain ⟨t, ex, ls, le⟩ := dk
  obtain ⟨es, hes⟩ := hfail
  have hitems : streamOf (pre ++ (t, ex, ls, le) :: post) l0 l1 =
      .ev .streamStart l0 :: (Lemmas.C11.docsItems (pre ++ (t, ex, ls, le) :: post) ++ [.ev .streamEnd l1]) := by
    simp [streamOf, docsStream_eq]
  obtain ⟨q, hq, hl, hpk⟩ := Lemmas.C11B.start_boundaryB L ob hmax l0
    (Lemmas.C11.docsItems (pre ++ (t, ex, ls, le) :: post) ++ [.ev .streamEnd l1])
  unfold readIter
  rw [hitems] at hfuel ⊢
  rw [Lemmas.C11T.iterLoop_congr cfg ty hpk]
  obtain ⟨A, B, hi, hA, hB1, hB2⟩ := Lemmas.C11B.iter_fail_stream l1 cfg ty N
    Ns pre evssPre t ex ls le post evssPost its1 its2 k1 k2 r [.ev .docEnd 0] [.ev .streamEnd l1] (by simp) hpre hspec1 hes
    hsolo hpost hspec2 hq hl _ (by simp only [List.length_cons] at hfuel ⊢; omega) []
  exact ⟨A, B, by simpa using hi, hA, hB1, hB2⟩

/-- (T) … in particular the one-document stream of `dk` yields exactly `r.1`: `soloOf` IS "the document on its
own" -/
theorem iter_failing_doc_alone (L : AliasLimits) (ob : Option Limits) (dk : LNode × Bool × Loc × Loc) (l0 l1 : Loc)
    (cfg : Cfg) (ty : Ty) (Ns : Nat) (r : Rounds)
    (hmax : ∀ lim, ob = some lim → 1 ≤ lim.maxEvents)
    (hfail : PumpFailsInside L ob dk) (hsolo : soloOf cfg ty L ob Ns dk l1 = some r)
    (hfuel : r.2.2 + 1 ≤ (streamOf [dk] l0 l1).length + 10) :
    readIter cfg ty (readPump L ob) (streamOf [dk] l0 l1) = r.1 := by
  obtain ⟨A, B, hi, hA, hB1, hB2⟩ := iter_failing_doc L ob [] [] dk l0 l1 [] [] cfg ty 0 Ns [] [] 0 0 r hmax trivial rfl
    hfail hsolo trivial rfl (by simpa using hfuel)
  have hA' : A = [] := by cases hA; rfl
  have hB' : B = [] := by
    cases hf : r.2.1 with
    | true => have := hB1 hf; cases this; rfl
    | false => exact hB2 hf
  simpa [hA', hB'] using hi

/-- (T) EVERY document that has no expansion from the EMPTY anchor table — in particular a document with an alias,
at its root or NESTED anywhere, to an anchor that is defined in an earlier document only (`.unknown aloc`) — makes
the pump (without a budget) fail inside the document, whatever the alias limits are: at a document boundary the
anchor table is empty (`Props.C11.alias_to_earlier_document_is_error` at the pump level). -/
theorem pumpFailsInside_of_no_expansion (L : AliasLimits) (d : LNode × Bool × Loc × Loc) (e : ExpErr)
    (hexp : expand [] [] d.1 = .error e) : PumpFailsInside L none d :=
  Lemmas.C11B.failRun_of_no_expansion L d.1 d.2.2.1 e hexp

/-- (T) anchors_not_visible_across_docs at the level of typed values, for a dangling alias ANYWHERE in document
`k` (root or nested; the previous theorem `anchors_not_visible_across_docs_typed_partial` covers the root only):
for `pre ++ dk :: post` with `expand [] [] dk.1 = .error _` the iterator yields the items of `pre`, then exactly the
items `r.1` of `dk` on its own (`soloOf`, computed on the one-document stream: they end with an error item,
`solo_ends_with_error`, and contain no value built from an anchor of an earlier document — the pump fails AT the
alias), then
* the items of `post` when `dk` was left through the recovery (`T::deserialize` itself ran into the alias);
* nothing when the alias was met by the iterator's own `peek` (`r.2.1 = false`: possible only after a left-over
  value / skipped null-like scalars, or when the alias is the root of the document).
The batch entry point is an error in every case: `anchors_not_visible_across_docs_batch`. -/
theorem anchors_not_visible_across_docs_typed_nested (L : AliasLimits)
    (pre post : List (LNode × Bool × Loc × Loc)) (dk : LNode × Bool × Loc × Loc) (l0 l1 : Loc) (e : ExpErr)
    (evssPre evssPost : List (List Ev)) (cfg : Cfg) (ty : Ty) (N Ns : Nat) (its1 its2 : List Item) (k1 k2 : Nat)
    (r : Rounds)
    (hLpre : Unlimited L pre) (hnfpre : ∀ d ∈ pre, Lemmas.C02.noFoldedIndent d.1 = true)
    (hexpPre : expandEach pre = .ok evssPre) (hspec1 : streamSpec cfg ty N evssPre = some (its1, k1))
    (hexp : expand [] [] dk.1 = .error e) (hsolo : soloOf cfg ty L none Ns dk l1 = some r)
    (hLpost : Unlimited L post) (hnfpost : ∀ d ∈ post, Lemmas.C02.noFoldedIndent d.1 = true)
    (hexpPost : expandEach post = .ok evssPost) (hspec2 : streamSpec cfg ty N evssPost = some (its2, k2))
    (hfuel : k1 + r.2.2 + k2 + 1 ≤ (streamOf (pre ++ dk :: post) l0 l1).length + 10) :
    (∃ A B, readIter cfg ty (initPump L) (streamOf (pre ++ dk :: post) l0 l1) = A ++ r.1 ++ B ∧
      sameItems A its1 ∧ (r.2.1 = true → sameItems B its2) ∧ (r.2.1 = false → B = [])) ∧
    (∃ err, fromMultiple cfg ty (initPump L) (streamOf (pre ++ dk :: post) l0 l1) = .error err) := by
  constructor
  · exact iter_failing_doc L none pre post dk l0 l1 evssPre evssPost cfg ty N Ns its1 its2 k1 k2 r
      (fun l h => by cases h) (docsServe_none L pre evssPre hLpre hnfpre hexpPre) hspec1
      (pumpFailsInside_of_no_expansion L dk e hexp) hsolo (docsServe_none L post evssPost hLpost hnfpost hexpPost)
      hspec2 hfuel
  · obtain ⟨err', he'⟩ := expandDocs_error_of_mem (pre ++ dk :: post) dk (by simp) e hexp
    exact anchors_not_visible_across_docs_batch L _ l0 l1 cfg ty err' he'

/-- (T) what a failing document contributes always ends with an error item -/
theorem solo_ends_with_error (cfg : Cfg) (ty : Ty) (L : AliasLimits) (ob : Option Limits) (Ns : Nat)
    (d : LNode × Bool × Loc × Loc) (l1 : Loc) (r : Rounds) (h : soloOf cfg ty L ob Ns d l1 = some r) :
    ∃ init e, r.1 = init ++ [.error e] :=
  Lemmas.C11B.soloRounds_last cfg ty Ns _ _ r h

/-! ### "each on its own" for streams that mix served and failing documents -/

open SaphyrVerif.Lemmas.C11B (Mix DocCase mixItems)

/-- (T, general form) over a stream that mixes, in any order, documents the pump serves (whatever `T::deserialize`
makes of them: value, skipped, error item + recovery, left over) and documents in which the pump fails (dangling
alias, budget breach, …), each with its own result (`Mix`: items, whether the iterator goes on, rounds), the
iterator yields the items of the documents, in order, up to and including the first document that finishes it
(`mixItems`). -/
theorem iter_eq_mix (L : AliasLimits) (ob : Option Limits) (ds : List (LNode × Bool × Loc × Loc)) (l0 l1 : Loc)
    (rs : List Rounds) (cfg : Cfg) (ty : Ty)
    (hmax : ∀ lim, ob = some lim → 1 ≤ lim.maxEvents) (hne : ds ≠ [])
    (hmix : Mix L ob cfg ty l1 ds rs) :
    sameItems (readIter cfg ty (readPump L ob) (streamOf ds l0 l1)) (mixItems rs).1 := by
  have hitems : streamOf ds l0 l1 = .ev .streamStart l0 :: (Lemmas.C11.docsItems ds ++ [.ev .streamEnd l1]) := by
    simp [streamOf, docsStream_eq]
  obtain ⟨q, hq, hl, hpk⟩ := Lemmas.C11B.start_boundaryB L ob hmax l0 (Lemmas.C11.docsItems ds ++ [.ev .streamEnd l1])
  unfold readIter
  rw [hitems, Lemmas.C11T.iterLoop_congr cfg ty hpk]
  have hle := Lemmas.C11B.mixItems_le ds rs hmix
  obtain ⟨items, hi, hsame⟩ := Lemmas.C11B.iter_mix l1 cfg ty ds rs q
    ((RawItem.ev .streamStart l0 :: (Lemmas.C11.docsItems ds ++ [.ev .streamEnd l1])).length + 10) []
    hmix hq hl (fun h => absurd h hne) (by simp only [List.length_cons, List.length_append, List.length_nil]; omega)
  rw [hi]
  simpa using hsame

/-- (T, partial: every document is served or fails inside (`Mix`, with its rounds fitting), and no document except
possibly the last one finishes the iterator) iter_isolated with a per-document budget, in its strongest proved
form: the items of the stream are the concatenation, over ALL its documents in order, of the items of the
ONE-document streams under the same limits — also behind documents that failed: by their type (error item +
recovery), by a budget breach or a dangling alias met inside `T::deserialize` (error item + recovery; the
enforcer and the anchor table are reset), or left over. -/
theorem iter_isolated_mixed_partial (L : AliasLimits) (ob : Option Limits) (ds : List (LNode × Bool × Loc × Loc))
    (l0 l1 : Loc) (rs : List Rounds) (cfg : Cfg) (ty : Ty)
    (hmax : ∀ lim, ob = some lim → 1 ≤ lim.maxEvents) (hne : ds ≠ [])
    (hmix : Mix L ob cfg ty l1 ds rs) (hgo : ∀ r ∈ rs.dropLast, r.2.1 = true) :
    sameItems (readIter cfg ty (readPump L ob) (streamOf ds l0 l1))
      (ds.map fun d => readIter cfg ty (readPump L ob) (streamOf [d] l0 l1)).flatten := by
  refine (iter_eq_mix L ob ds l0 l1 rs cfg ty hmax hne hmix).trans ?_
  rw [Lemmas.C11B.mixItems_all rs hgo]
  clear hgo hne
  induction ds generalizing rs with
  | nil =>
    cases rs with
    | nil => exact .nil
    | cons _ _ => exact hmix.elim
  | cons d ds ih =>
    cases rs with
    | nil => exact hmix.elim
    | cons r rs =>
      have hone := iter_eq_mix L ob [d] l0 l1 [r] cfg ty hmax (by simp) ⟨hmix.1, trivial⟩
      have hr1 : (mixItems [r]).1 = r.1 := by
        simp only [mixItems]
        split <;> simp
      rw [hr1] at hone
      simp only [List.map_cons, List.flatten_cons]
      exact Lemmas.C11T.sameItems.append hone.symm (ih rs hmix.2)

/-- items can be compared by evaluation (`Lemmas/CurSimVal.lean`: `DecidableEq Val`) -/
instance instDecidableEqItem : DecidableEq Item := fun a b =>
  match a, b with
  | .ok x, .ok y => if h : x = y then isTrue (by rw [h]) else isFalse (by intro h'; cases h'; exact h rfl)
  | .error x, .error y => if h : x = y then isTrue (by rw [h]) else isFalse (by intro h'; cases h'; exact h rfl)
  | .ok _, .error _ => isFalse (by intro h; cases h)
  | .error _, .ok _ => isFalse (by intro h; cases h)

/-! #### (E) a dangling alias NESTED inside a document -/

theorem ex4_fails : PumpFailsInside lim none exNested :=
  pumpFailsInside_of_no_expansion lim exNested (.unknown 22) (by rfl)

/-- `[a, *1]` on its own, read as `Vec<String>`: `T::deserialize` reaches the alias: ONE error item `UnknownAnchor` at
the alias (22) — whatever an earlier document defined —, and the document is left through the recovery -/
theorem ex4_solo : soloOf {} (.seq .string) lim none 5 exNested 99 = some ([.error ⟨"UnknownAnchor", 22, 0⟩], true, 1) := by
  decide +kernel

theorem ex4_served : Served lim none [exA] [evsA] ∧ Served lim none [exC] [evsC] := by
  have h := docsServe_none lim [exA, exBad, exNull, exC] _ ex_unlimited ex_nofolded ex_expandEach
  exact ⟨⟨h.1, trivial⟩, ⟨h.2.2.2.1, trivial⟩⟩

/-- (E) `[&1 x, *1]` / `[a, *1]` / `[z]` read as `Vec<String>`: the alias NESTED in the second document does not see
the anchor of the first one: the first document's value, ONE error item `UnknownAnchor` at the alias, and the
third document's value — the iterator has recovered -/
example : ∃ A B, readIter {} (.seq .string) (initPump lim) (streamOf ([exA] ++ exNested :: [exC]) 1 99) =
      A ++ [.error ⟨"UnknownAnchor", 22, 0⟩] ++ B ∧
    sameItems A [.ok (.seq [.str ['x'], .str ['x']])] ∧ sameItems B [.ok (.seq [.str ['z']])] := by
  obtain ⟨A, B, h, hA, hB, -⟩ := iter_failing_doc lim none [exA] [exC] exNested 1 99 [evsA] [evsC] {} (.seq .string) 5 5
    _ _ 1 1 _ (fun l h => by cases h) ex4_served.1 (by rfl) ex4_fails ex4_solo ex4_served.2 (by rfl) (by decide)
  exact ⟨A, B, h, hA, hB rfl⟩

/-- `[~, *1]` — the anchor is defined in an earlier document only -/
def exN2 : LNode × Bool × Loc × Loc := (.seq 0 none 20 29 [.scalar ['~'] .plain 0 none 21, .alias 1 22], true, 4, 5)

theorem ex5_fails : PumpFailsInside lim none exN2 := pumpFailsInside_of_check (by rfl)

/-- `[~, *1]` on its own, read as the 0-tuple `()`: the value `()` (the deserializer stops behind `[`), the
null-like `~` is skipped, and then the iterator's OWN `peek` meets the alias: an error item, and the iterator is
finished (3 rounds) -/
theorem ex5_solo : soloOf {} (.tuple []) lim none 5 exN2 99 =
    some ([.ok (.seq []), .error ⟨"UnknownAnchor", 22, 0⟩], false, 3) := by
  decide +kernel

/-- (E) `[&1 x, *1]` / `[~, *1]` / `[z]` read as `()`: when the dangling alias is met by the iterator's own `peek`
(here: after a left-over value and a skipped null), the later documents are LOST — the nested counterpart of
`anchors_not_visible_across_docs_typed_counterexample` -/
example : ∃ A, readIter {} (.tuple []) (initPump lim) (streamOf ([exA] ++ exN2 :: [exC]) 1 99) =
      A ++ [.ok (.seq []), .error ⟨"UnknownAnchor", 22, 0⟩] ∧
    sameItems A [.ok (.seq []), .error ⟨"Unexpected", 11, 0⟩] := by
  obtain ⟨A, B, h, hA, -, hB⟩ := iter_failing_doc lim none [exA] [exC] exN2 1 99 [evsA] [evsC] {} (.tuple []) 5 5
    _ _ 2 2 _ (fun l h => by cases h) ex4_served.1 (by rfl) ex5_fails ex5_solo ex4_served.2 (by rfl) (by decide)
  rw [hB rfl, List.append_nil] at h
  exact ⟨A, h, hA⟩

/-! #### (E) a document that breaches the per-document budget inside `T::deserialize` -/

/-- one node less than `[&1 x, *1]` needs (the replayed `x` is the third node) -/
def exLimN : Limits := { exLim with maxNodes := 2 }

theorem ex6_fails : PumpFailsInside lim (some exLimN) exA := pumpFailsInside_of_check (by decide +kernel)

/-- `[&1 x, *1]` on its own under `exLimN`: `T::deserialize` meets the breach: ONE error item `Budget`, and the
document is left through the recovery -/
theorem ex6_solo : soloOf {} (.seq .string) lim (some exLimN) 5 exA 99 = some ([.error ⟨"Budget", 11, 0⟩], true, 1) := by
  decide +kernel

theorem ex6_served : Served lim (some exLimN) [exC] [evsC] ∧ Served lim (some exLimN) [exBad, exNull, exC] [evsBad, evsNull, evsC] := by
  have hU : Unlimited lim [exBad, exNull, exC] :=
    ⟨ex_unlimited.1, fun d hd => ex_unlimited.2 d (List.mem_cons_of_mem _ hd)⟩
  have hN : ∀ d ∈ [exBad, exNull, exC], Lemmas.C02.noFoldedIndent d.1 = true :=
    fun d hd => ex_nofolded d (List.mem_cons_of_mem _ hd)
  have h := served_of_check lim (some exLimN) [exBad, exNull, exC] [evsBad, evsNull, evsC] hU hN (by rfl) (by decide +kernel)
  exact ⟨⟨h.2.2.1, trivial⟩, h⟩

/-- (E) `[z]` / `[&1 x, *1]` / `y` / `~` / `[z]` read as `Vec<String>` under the per-document budget `exLimN`: the
second document breaches the node limit INSIDE `T::deserialize`: it yields exactly ONE error item (`Budget`, the
item of its one-document stream), and the documents behind it are read as if it had not been there: the enforcer
is reset by the recovery (`budget_reset_at_document_start`) -/
example : ∃ A B, readIter {} (.seq .string) (readPump lim (some exLimN))
      (streamOf ([exC] ++ exA :: [exBad, exNull, exC]) 1 99) = A ++ [.error ⟨"Budget", 11, 0⟩] ++ B ∧
    sameItems A [.ok (.seq [.str ['z']])] ∧ sameItems B [.error ⟨"Unexpected", 51, 0⟩, .ok (.seq [.str ['z']])] := by
  obtain ⟨A, B, h, hA, hB, -⟩ := iter_failing_doc lim (some exLimN) [exC] [exBad, exNull, exC] exA 1 99 [evsC]
    [evsBad, evsNull, evsC] {} (.seq .string) 5 5 _ _ 1 3 _ (fun l h => by cases h; decide) ex6_served.1 (by rfl)
    ex6_fails ex6_solo ex6_served.2 (by rfl) (by decide)
  exact ⟨A, B, h, hA, hB rfl⟩

/-! #### (E) a mixed stream under a per-document budget -/

theorem ex7_docOk : DocsOk lim [exA, exBad, exNull, exC] [evsA, evsBad, evsNull, evsC] :=
  docsOk_of_hyps lim _ _ ex_unlimited ex_nofolded ex_expandEach

theorem ex7_fails : PumpFailsInside lim (some exLimN) exNested := pumpFailsInside_of_check (by decide +kernel)

theorem ex7_solo : soloOf {} (.seq .string) lim (some exLimN) 5 exNested 99 =
    some ([.error ⟨"UnknownAnchor", 22, 0⟩], true, 1) := by decide +kernel

/-- `[z]` / `[&1 x, *1]` / `y` / `[a, *1]` / `~` / `[z]` under `exLimN`, each document with its own result: served, BUDGET
BREACH inside `T::deserialize`, served (type error), DANGLING ALIAS nested, served (skipped), served -/
theorem ex7_mix : Mix lim (some exLimN) {} (.seq .string) 99 [exC, exA, exBad, exNested, exNull, exC]
    [([.ok (.seq [.str ['z']])], true, 1), ([.error ⟨"Budget", 11, 0⟩], true, 1), ([.error ⟨"Unexpected", 51, 0⟩], true, 1),
     ([.error ⟨"UnknownAnchor", 22, 0⟩], true, 1), ([], true, 1), ([.ok (.seq [.str ['z']])], true, 1)] := by
  have hC : DocCase lim (some exLimN) {} (.seq .string) 99 exC ([.ok (.seq [.str ['z']])], true, 1) :=
    DocCase.served evsC ([.ok (.seq [.str ['z']])], true, 1)
      (Lemmas.C11B.docServe_of_check ex7_docOk.2.2.2.1 (by decide +kernel)) (by rfl)
  refine ⟨hC, ?_, ?_, ?_, ?_, hC, trivial⟩
  · obtain ⟨es, hes⟩ := ex6_fails
    exact DocCase.failing es 5 _ hes ex6_solo (by decide)
  · exact DocCase.served evsBad ([.error ⟨"Unexpected", 51, 0⟩], false, 1)
      (Lemmas.C11B.docServe_of_check ex7_docOk.2.1 (by decide +kernel)) (by rfl)
  · obtain ⟨es, hes⟩ := ex7_fails
    exact DocCase.failing es 5 _ hes ex7_solo (by decide)
  · exact DocCase.served evsNull ([], true, 1)
      (Lemmas.C11B.docServe_of_check ex7_docOk.2.2.1 (by decide +kernel)) (by rfl)

/-- (E) … the items of the stream are those of the six one-document streams: a value, `Budget`, `Unexpected`,
`UnknownAnchor`, nothing, a value — each document on its own, also behind the failed ones -/
example : sameItems (readIter {} (.seq .string) (readPump lim (some exLimN))
      (streamOf [exC, exA, exBad, exNested, exNull, exC] 1 99))
    ([exC, exA, exBad, exNested, exNull, exC].map fun d =>
      readIter {} (.seq .string) (readPump lim (some exLimN)) (streamOf [d] 1 99)).flatten :=
  iter_isolated_mixed_partial lim (some exLimN) _ 1 99 _ {} (.seq .string) (fun l h => by cases h; decide) (by simp)
    ex7_mix (by
      intro r hr
      simp only [List.dropLast, List.mem_cons, List.mem_nil_iff, or_false] at hr
      rcases hr with rfl | rfl | rfl | rfl | rfl <;> rfl)

#print axioms iter_eq_rounds
#print axioms iter_eq_rounds_partial
#print axioms iter_isolated_rounds
#print axioms iter_isolated_rounds_partial
#print axioms fits_of_not_leftover
#print axioms iter_isolated_partial_of_rounds
#print axioms roundsOf_leftover
#print axioms budget_reset_at_document_start
#print axioms served_of_check
#print axioms iter_isolated_budgeted_partial
#print axioms iter_budget_invisible
#print axioms cx_budget_stream
#print axioms cx_budget_singles
#print axioms iter_isolated_budgeted_counterexample
#print axioms iter_isolated_budgeted_counting_counterexample
#print axioms ratio_judged_per_document_regression
#print axioms iter_failing_doc
#print axioms iter_failing_doc_alone
#print axioms pumpFailsInside_of_no_expansion
#print axioms anchors_not_visible_across_docs_typed_nested
#print axioms solo_ends_with_error
#print axioms iter_eq_mix
#print axioms iter_isolated_mixed_partial
#print axioms ex7_mix

end SaphyrVerif.Props.C11
