import SaphyrVerif.Gen.Tables
import SaphyrVerif.Model.Budget
/-!
Default budget regenerated from `/repo/src/budget.rs` (Gen/Tables.lean) as a model `Limits` value, and
the facts about it that other properties rely on (C01: recursion bound; C08: work bounds).
-/
namespace SaphyrVerif.Props.C07_Tables
open SaphyrVerif SaphyrVerif.Budget

/-- `Budget::default()` as model limits -/
def defaultLimits : Limits :=
  { maxEvents := Gen.budgetDefault_maxEvents, maxAliases := Gen.budgetDefault_maxAliases,
    maxAnchors := Gen.budgetDefault_maxAnchors, maxDepth := Gen.budgetDefault_maxDepth,
    maxDocuments := Gen.budgetDefault_maxDocuments, maxNodes := Gen.budgetDefault_maxNodes,
    maxTotalScalarBytes := Gen.budgetDefault_maxTotalScalarBytes, maxMergeKeys := Gen.budgetDefault_maxMergeKeys,
    enforceRatio := Gen.budgetDefault_enforceAliasAnchorRatio, minAliases := Gen.budgetDefault_aliasAnchorMinAliases,
    multiplier := Gen.budgetDefault_aliasAnchorRatioMultiplier }

/-- the default nesting limit is what the 8 MiB-stack argument of C01 uses -/
theorem default_depth_le_2000 : defaultLimits.maxDepth ≤ 2000 := by decide

theorem default_limits_fit_usize :
    defaultLimits.maxDepth < USIZE_MAX ∧ defaultLimits.maxEvents < USIZE_MAX ∧ defaultLimits.maxNodes ≤ defaultLimits.maxEvents := by
  decide

end SaphyrVerif.Props.C07_Tables
