import SaphyrVerif.Spec.Expand
import SaphyrVerif.Lemmas.C02_Doc
import SaphyrVerif.Lemmas.C02_Misc
/-!
# C02 — anchors and aliases are transparent: an alias equals a copy of its anchor

Theorems about the pump model (Model/Pump.lean = `LiveEvents::next_impl` with recording frames,
inject stack, per-anchor / total / nesting limits) against the tree substitution `expand`
(Spec/Expand.lean).  No budget here (budget rejections are C07/C08).

Finding: `pump_eq_expand` and `pump_errors_classified` as originally stated are FALSE of the model: a
folded block scalar at column 0 with non-blank text is rejected by the parser loop with `foldedIndent`
(a syntax-level error independent of anchors), while `expand` succeeds.  They are kept as
`pump_eq_expand_Full` / `pump_errors_classified_Full : Prop`, refuted by `*_counterexample`, and proved
as `*_partial` with the visible extra hypothesis `noFoldedIndent t = true` (Lemmas/C02_Node.lean).
-/
namespace SaphyrVerif.Props.C02
open SaphyrVerif SaphyrVerif.Scalars SaphyrVerif.Pump SaphyrVerif.Spec
open SaphyrVerif.Lemmas.C02 (noFoldedIndent)

def initPump (L : AliasLimits) : Pump := { limits := L }

/-- the three alias-limit errors -/
def isLimitErr : PErr → Bool
  | .aliasExpansionLimit .. | .replayStackDepth .. | .replayLimit .. => true
  | _ => false

theorem isLimitErr_eq : isLimitErr = Lemmas.C02.isLimit := by
  funext e; cases e <;> rfl

/-- more fuel never changes a finished run -/
theorem pumpAll_fuel_mono (fuel k : Nat) (p : Pump) (inp : List RawItem) (acc : List Ev) (x)
    (h : pumpAll fuel p inp acc = some x) : pumpAll (fuel + k) p inp acc = some x :=
  Lemmas.C02.pumpAll_fuel_mono fuel k p inp acc x h

/-- (F) pump_eq_expand as originally stated (false: see `pump_eq_expand_counterexample`). -/
def pump_eq_expand_Full : Prop :=
  ∀ (L : AliasLimits) (t : LNode) (l0 l1 l2 l3 : Loc) (r : Exp),
    expand [] [] t = .ok r →
    1 ≤ L.maxReplayStackDepth →
    r.replayed ≤ L.maxTotalReplayedEvents →
    (∀ id, aliasCount id t ≤ L.maxAliasExpansionsPerAnchor) →
    ∃ n, ∀ fuel, n ≤ fuel →
      ∃ p', pumpAll fuel (initPump L) (docStream t l0 l1 l2 l3) [] = some (r.evs, none, p')

/-- the witness: a folded scalar `>` at column 0 with text `x`, no anchors, no aliases -/
def foldedCex : LNode := .scalar ['x'] .folded 0 none 1

def foldedCexL : AliasLimits :=
  { maxTotalReplayedEvents := 10, maxReplayStackDepth := 10, maxAliasExpansionsPerAnchor := 10 }

/-- the run on the witness: no event, then `foldedIndent` -/
theorem foldedCex_run :
    (pumpAll 5 (initPump foldedCexL) (docStream foldedCex 1 2 3 4) []).map (fun x => (x.1, x.2.1)) =
      some ([], some (.foldedIndent 1)) := by decide

theorem foldedCex_expand :
    expand [] [] foldedCex = .ok ⟨[.scalar ['x'] 0 none .folded 0 1], [], 0⟩ := by
  simp [foldedCex, expand, scalarEv, normStyle, tagCode]

theorem foldedCex_run' : ∃ q, pumpAll 5 (initPump foldedCexL) (docStream foldedCex 1 2 3 4) [] =
    some ([], some (.foldedIndent 1), q) := by
  have h := foldedCex_run
  cases hx : pumpAll 5 (initPump foldedCexL) (docStream foldedCex 1 2 3 4) [] with
  | none => rw [hx] at h; cases h
  | some x =>
    obtain ⟨a, b, q⟩ := x
    rw [hx] at h
    simp only [Option.map_some, Option.some.injEq, Prod.mk.injEq] at h
    exact ⟨q, by rw [h.1, h.2]⟩

/-- (F) counterexample to `pump_eq_expand_Full`: the expansion exists, all limits are generous, and
the pump stops with `foldedIndent`. -/
theorem pump_eq_expand_counterexample : ¬ pump_eq_expand_Full := by
  intro h
  obtain ⟨n, hn⟩ := h foldedCexL foldedCex 1 2 3 4 _ foldedCex_expand (by decide) (by decide)
    (by intro id; simp [foldedCex, aliasCount])
  obtain ⟨p', hp⟩ := hn (5 + n) (by omega)
  obtain ⟨q, hq⟩ := foldedCex_run'
  have := pumpAll_fuel_mono 5 n _ _ _ _ hq
  rw [this] at hp
  simp at hp

/-- (T) pump_eq_expand (partial: excludes folded scalars at column 0 with non-blank text): whenever
the expansion exists and stays within the configured alias limits, the pump delivers exactly the
expansion of the document (every alias replaced by a copy of the most recently completed node
anchored under that id), for every document tree. -/
theorem pump_eq_expand_partial (L : AliasLimits) (t : LNode) (l0 l1 l2 l3 : Loc) (r : Exp)
    (hnf : noFoldedIndent t = true)
    (hexp : expand [] [] t = .ok r)
    (hL1 : 1 ≤ L.maxReplayStackDepth)
    (hL2 : r.replayed ≤ L.maxTotalReplayedEvents)
    (hL3 : ∀ id, aliasCount id t ≤ L.maxAliasExpansionsPerAnchor) :
    ∃ n, ∀ fuel, n ≤ fuel →
      ∃ p', pumpAll fuel (initPump L) (docStream t l0 l1 l2 l3) [] = some (r.evs, none, p') := by
  have h := Lemmas.C02.doc_outcome L t l0 l1 l2 l3
  rw [hexp] at h
  simp only [Lemmas.C02.DocOutcome] at h
  rcases h with ⟨p', he⟩ | ⟨es, err, q, _, _, _, hx⟩ | ⟨hf, _⟩
  · refine ⟨r.evs.length + 1, fun fuel hf => ⟨p', ?_⟩⟩
    obtain ⟨k, rfl⟩ := Nat.exists_eq_add_of_le hf
    exact pumpAll_fuel_mono _ k _ _ _ _ (Lemmas.C02.pumpAll_ends he)
  · exfalso
    rcases hx with hx | hx | ⟨id, hx⟩
    · omega
    · omega
    · have := hL3 id
      have hx' : L.maxAliasExpansionsPerAnchor < aliasCount id t := hx
      omega
  · rw [hnf] at hf; cases hf

/-- (T) soundness for ALL limits (`limits_only_reject` + `alias_unknown_is_error`): a run that ends
without error delivered exactly the expansion — in particular an alias without a completed anchor can
never produce an event sequence that is accepted. -/
theorem pump_sound (L : AliasLimits) (t : LNode) (l0 l1 l2 l3 : Loc) (fuel : Nat) (evs : List Ev) (p' : Pump)
    (h : pumpAll fuel (initPump L) (docStream t l0 l1 l2 l3) [] = some (evs, none, p')) :
    ∃ r, expand [] [] t = .ok r ∧ evs = r.evs := by
  have ho := Lemmas.C02.doc_outcome L t l0 l1 l2 l3
  cases hexp : expand [] [] t with
  | ok r =>
    rw [hexp] at ho
    simp only [Lemmas.C02.DocOutcome] at ho
    rcases ho with ⟨q, he⟩ | ⟨es, err, q, hs, _⟩ | ⟨_, es, l, q, hs⟩
    · have := Lemmas.C02.run_of_ends he h
      exact ⟨r, rfl, (Prod.mk.inj this).1⟩
    · have := Lemmas.C02.run_of_stops hs h
      simp at this
    · have := Lemmas.C02.run_of_stops hs h
      simp at this
  | error e =>
    rw [hexp] at ho
    simp only [Lemmas.C02.DocOutcome] at ho
    rcases ho with ⟨es, q, hs⟩ | ⟨es, err, q, hs, _⟩ | ⟨_, es, l, q, hs⟩
    all_goals
      have := Lemmas.C02.run_of_stops hs h
      simp at this

/-- (T) classification of every error of a run, valid for ALL documents: an alias-limit error (after a
prefix of the expansion), the error the specification assigns to the document, or the syntax-level
`foldedIndent` rejection of a folded scalar at column 0 (only if the document contains one). -/
theorem pump_errors_classified_general (L : AliasLimits) (t : LNode) (l0 l1 l2 l3 : Loc) (fuel : Nat)
    (evs : List Ev) (err : PErr) (p' : Pump)
    (h : pumpAll fuel (initPump L) (docStream t l0 l1 l2 l3) [] = some (evs, some err, p')) :
    (isLimitErr err = true ∧ ∀ r, expand [] [] t = .ok r → evs <+: r.evs) ∨
    (∃ l, expand [] [] t = .error (.unknown l) ∧ err = .unknownAnchor l) ∨
    (∃ l, expand [] [] t = .error (.recursive l) ∧ err = .recursiveRef l) ∨
    (∃ l, err = .foldedIndent l ∧ noFoldedIndent t = false) := by
  have ho := Lemmas.C02.doc_outcome L t l0 l1 l2 l3
  cases hexp : expand [] [] t with
  | ok r =>
    rw [hexp] at ho
    simp only [Lemmas.C02.DocOutcome] at ho
    rcases ho with ⟨q, he⟩ | ⟨es, err', q, hs, hl, hp, _⟩ | ⟨hf, es, l, q, hs⟩
    · have := Lemmas.C02.run_of_ends he h
      simp at this
    · have := Lemmas.C02.run_of_stops hs h
      simp only [Prod.mk.injEq, Option.some.injEq] at this
      obtain ⟨rfl, rfl, _⟩ := this
      refine Or.inl ⟨by rw [isLimitErr_eq]; exact hl, ?_⟩
      intro r' hr'
      cases hr'
      exact hp
    · have := Lemmas.C02.run_of_stops hs h
      simp only [Prod.mk.injEq, Option.some.injEq] at this
      obtain ⟨_, rfl, _⟩ := this
      exact Or.inr (Or.inr (Or.inr ⟨l, rfl, hf⟩))
  | error e =>
    rw [hexp] at ho
    simp only [Lemmas.C02.DocOutcome] at ho
    rcases ho with ⟨es, q, hs⟩ | ⟨es, err', q, hs, hl, _⟩ | ⟨hf, es, l, q, hs⟩
    · have := Lemmas.C02.run_of_stops hs h
      simp only [Prod.mk.injEq, Option.some.injEq] at this
      obtain ⟨_, rfl, _⟩ := this
      cases e with
      | unknown l => exact Or.inr (Or.inl ⟨l, rfl, rfl⟩)
      | recursive l => exact Or.inr (Or.inr (Or.inl ⟨l, rfl, rfl⟩))
    · have := Lemmas.C02.run_of_stops hs h
      simp only [Prod.mk.injEq, Option.some.injEq] at this
      obtain ⟨_, rfl, _⟩ := this
      refine Or.inl ⟨by rw [isLimitErr_eq]; exact hl, ?_⟩
      intro r' hr'
      cases hr'
    · have := Lemmas.C02.run_of_stops hs h
      simp only [Prod.mk.injEq, Option.some.injEq] at this
      obtain ⟨_, rfl, _⟩ := this
      exact Or.inr (Or.inr (Or.inr ⟨l, rfl, hf⟩))

/-- (F) pump_errors_classified as originally stated (false: see the counterexample below). -/
def pump_errors_classified_Full : Prop :=
  ∀ (L : AliasLimits) (t : LNode) (l0 l1 l2 l3 : Loc) (fuel : Nat) (evs : List Ev) (err : PErr) (p' : Pump),
    pumpAll fuel (initPump L) (docStream t l0 l1 l2 l3) [] = some (evs, some err, p') →
    (isLimitErr err = true ∧ ∀ r, expand [] [] t = .ok r → evs <+: r.evs) ∨
    (∃ l, expand [] [] t = .error (.unknown l) ∧ err = .unknownAnchor l) ∨
    (∃ l, expand [] [] t = .error (.recursive l) ∧ err = .recursiveRef l)

/-- (F) counterexample to `pump_errors_classified_Full`: `foldedIndent` is none of the three kinds. -/
theorem pump_errors_classified_counterexample : ¬ pump_errors_classified_Full := by
  intro h
  obtain ⟨q, hq⟩ := foldedCex_run'
  rcases h foldedCexL foldedCex 1 2 3 4 5 [] _ q hq with ⟨hl, _⟩ | ⟨l, he, _⟩ | ⟨l, he, _⟩
  · cases hl
  · rw [foldedCex_expand] at he; cases he
  · rw [foldedCex_expand] at he; cases he

/-- (T) every error of a run (partial: excludes folded scalars at column 0 with non-blank text) is
either one of the three alias-limit errors, or it is the error the specification assigns to the
document (unknown anchor / recursive reference at that alias); never a scan, budget or internal
error, and the events delivered before it are a prefix of the expansion when the expansion exists. -/
theorem pump_errors_classified_partial (L : AliasLimits) (t : LNode) (l0 l1 l2 l3 : Loc) (fuel : Nat)
    (evs : List Ev) (err : PErr) (p' : Pump)
    (hnf : noFoldedIndent t = true)
    (h : pumpAll fuel (initPump L) (docStream t l0 l1 l2 l3) [] = some (evs, some err, p')) :
    (isLimitErr err = true ∧ ∀ r, expand [] [] t = .ok r → evs <+: r.evs) ∨
    (∃ l, expand [] [] t = .error (.unknown l) ∧ err = .unknownAnchor l) ∨
    (∃ l, expand [] [] t = .error (.recursive l) ∧ err = .recursiveRef l) := by
  rcases pump_errors_classified_general L t l0 l1 l2 l3 fuel evs err p' h with h1 | h2 | h3 | ⟨l, _, hf⟩
  · exact Or.inl h1
  · exact Or.inr (Or.inl h2)
  · exact Or.inr (Or.inr h3)
  · rw [hnf] at hf; cases hf

/-- (T) alias_unknown_is_error, stated directly: if the specification says the document contains an alias
with no completed anchor (or a recursive one), no run of the pump ends without error. -/
theorem alias_unknown_is_error (L : AliasLimits) (t : LNode) (l0 l1 l2 l3 : Loc) (e : ExpErr)
    (hexp : expand [] [] t = .error e) (fuel : Nat) (evs : List Ev) (p' : Pump) :
    pumpAll fuel (initPump L) (docStream t l0 l1 l2 l3) [] ≠ some (evs, none, p') := by
  intro h
  obtain ⟨r, hr, _⟩ := pump_sound L t l0 l1 l2 l3 fuel evs p' h
  rw [hexp] at hr
  cases hr

/-- (T) anchor_mark_transparent: erasing every anchor mark of an alias-free document changes the
delivered events only by erasing the ids — attaching an anchor never changes a node's own value.
(Full statement; before the repair recorded as C02-anchored-empty-quoted it needed the exclusion
"no anchored empty quoted scalar".) -/
theorem anchor_mark_transparent (t : LNode) (haf : aliasFree t = true)
    (σ σ' : Tab) (opn opn' : List Nat) (r r' : Exp)
    (h1 : expand σ opn t = .ok r) (h2 : expand σ' opn' (eraseAnchors t) = .ok r') :
    r'.evs = r.evs.map Ev.eraseAnchor :=
  Lemmas.C02.erase_node t haf σ σ' opn opn' r r' h1 h2

/-- the former witness of the defect now behaves: `&a ""` and `""` deliver the same scalar modulo the id -/
example :
    ((expand [] [] (.scalar [] .double 1 none 7)).toOption.map (·.evs.map Ev.eraseAnchor)) =
    ((expand [] [] (eraseAnchors (.scalar [] .double 1 none 7))).toOption.map (·.evs)) := by
  decide

/-- (T) inject_len_le_one: the replay stack never holds more than one frame (recorded buffers are
alias-free), so `max_replay_stack_depth` only matters at 0. One-step invariant of `next_impl`. -/
theorem inject_len_le_one (p : Pump) (inp : List RawItem) (h : p.inject.length ≤ 1) :
    (nextImpl p inp).2.1.inject.length ≤ 1 :=
  Lemmas.C02.nextImpl_inject p inp h

/-- (T) events_peek_next_coherent: after `peek` returned an event, `next` returns that same event
(never end of input, never a different event, never an error) and does not touch the parser input. -/
theorem peek_next_coherent (p : Pump) (inp : List RawItem) (e : Ev) (p1 : Pump) (in1 : List RawItem)
    (h : peek p inp = (.event e, p1, in1)) :
    ∃ p2, next p1 in1 = (.event e, p2, in1) ∧ p2.look = none := by
  unfold peek at h
  cases hl : p.look with
  | some ev =>
    rw [hl] at h
    simp only [Prod.mk.injEq, Step.event.injEq] at h
    obtain ⟨rfl, rfl, rfl⟩ := h
    simp [next]
  | none =>
    rw [hl] at h
    rcases hn : nextImpl p inp with ⟨s, p', rest⟩
    rw [hn] at h
    cases s with
    | event ev =>
      simp only [Prod.mk.injEq, Step.event.injEq] at h
      obtain ⟨rfl, rfl, rfl⟩ := h
      simp [next]
    | eof => simp at h
    | error err => simp at h

/-- (T) replayed events are copies of the definition's events: they keep the definition's anchor ids and
locations (used by C14/C16). Stated on the specification: every event of an alias' expansion is an
element of the stored buffer. -/
theorem alias_expansion_is_buffer (σ : Tab) (opn : List Nat) (id : Nat) (loc : Loc) (r : Exp)
    (h : expand σ opn (.alias id loc) = .ok r) : lookupAnchor σ id = some r.evs ∧ r.tab = σ := by
  simp only [expand] at h
  split at h
  · cases h
  · split at h
    · cases h
    · rename_i buf hb
      cases h
      exact ⟨hb, rfl⟩

-- (E) non-vacuity: a document with a re-defined anchor, an alias inside an anchored container and
-- an alias to it; the hypotheses of `pump_eq_expand` are satisfiable and the pump really runs.
def demo : LNode :=
  .seq 0 none 10 19 [.scalar ['x'] .plain 1 none 11, .seq 2 none 12 15 [.alias 1 13, .scalar ['y'] .plain 1 none 14],
                     .alias 2 16, .alias 1 17]

def demoL : AliasLimits := { maxTotalReplayedEvents := 6, maxReplayStackDepth := 1, maxAliasExpansionsPerAnchor := 2 }

example : (expand [] [] demo).toOption.map (·.replayed) = some 6 := by decide
example : (pumpAll 100 (initPump demoL) (docStream demo 1 2 3 4) []).map (fun x => (x.1.length, x.2.1)) = some (12, none) := by
  decide
example : (pumpAll 100 (initPump { demoL with maxTotalReplayedEvents := 5 }) (docStream demo 1 2 3 4) []).map (·.2.1)
    = some (some (.replayLimit 6 5 14)) := by decide
example : (pumpAll 100 (initPump demoL) (docStream (.seq 1 none 1 3 [.alias 1 2]) 1 2 3 4) []).map (·.2.1)
    = some (some (.recursiveRef 2)) := by decide
-- the extra hypothesis of the partial theorems holds for the demo document
example : noFoldedIndent demo = true := by decide

#print axioms pumpAll_fuel_mono
#print axioms pump_eq_expand_partial
#print axioms pump_eq_expand_counterexample
#print axioms pump_sound
#print axioms pump_errors_classified_general
#print axioms pump_errors_classified_partial
#print axioms pump_errors_classified_counterexample
#print axioms alias_unknown_is_error
#print axioms anchor_mark_transparent
#print axioms inject_len_le_one
#print axioms peek_next_coherent
#print axioms alias_expansion_is_buffer

end SaphyrVerif.Props.C02
