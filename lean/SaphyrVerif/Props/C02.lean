import SaphyrVerif.Spec.Expand
/-!
# C02 — anchors and aliases are transparent: an alias equals a copy of its anchor

Theorems about the pump model (Model/Pump.lean = `LiveEvents::next_impl` with recording frames,
inject stack, per-anchor / total / nesting limits) against the tree substitution `expand`
(Spec/Expand.lean).  No budget here (budget rejections are C07/C08).
-/
namespace SaphyrVerif.Props.C02
open SaphyrVerif SaphyrVerif.Scalars SaphyrVerif.Pump SaphyrVerif.Spec

def initPump (L : AliasLimits) : Pump := { limits := L }

/-- the three alias-limit errors -/
def isLimitErr : PErr → Bool
  | .aliasExpansionLimit .. | .replayStackDepth .. | .replayLimit .. => true
  | _ => false

/-- more fuel never changes a finished run -/
theorem pumpAll_fuel_mono (fuel k : Nat) (p : Pump) (inp : List RawItem) (acc : List Ev) (x)
    (h : pumpAll fuel p inp acc = some x) : pumpAll (fuel + k) p inp acc = some x := by
  sorry

/-- (T) pump_eq_expand: whenever the expansion exists and stays within the configured alias limits,
the pump delivers exactly the expansion of the document (every alias replaced by a copy of the most
recently completed node anchored under that id), for every document tree. -/
theorem pump_eq_expand (L : AliasLimits) (t : LNode) (l0 l1 l2 l3 : Loc) (r : Exp)
    (hexp : expand [] [] t = .ok r)
    (hL1 : 1 ≤ L.maxReplayStackDepth)
    (hL2 : r.replayed ≤ L.maxTotalReplayedEvents)
    (hL3 : ∀ id, aliasCount id t ≤ L.maxAliasExpansionsPerAnchor) :
    ∃ n, ∀ fuel, n ≤ fuel →
      ∃ p', pumpAll fuel (initPump L) (docStream t l0 l1 l2 l3) [] = some (r.evs, none, p') := by
  sorry

/-- (T) soundness for ALL limits (`limits_only_reject` + `alias_unknown_is_error`): a run that ends
without error delivered exactly the expansion — in particular an alias without a completed anchor can
never produce an event sequence that is accepted. -/
theorem pump_sound (L : AliasLimits) (t : LNode) (l0 l1 l2 l3 : Loc) (fuel : Nat) (evs : List Ev) (p' : Pump)
    (h : pumpAll fuel (initPump L) (docStream t l0 l1 l2 l3) [] = some (evs, none, p')) :
    ∃ r, expand [] [] t = .ok r ∧ evs = r.evs := by
  sorry

/-- (T) every error of a run is either one of the three alias-limit errors, or it is the error the
specification assigns to the document (unknown anchor / recursive reference at that alias);
never a scan, budget or internal error, and the events delivered before it are a prefix of the
expansion when the expansion exists. -/
theorem pump_errors_classified (L : AliasLimits) (t : LNode) (l0 l1 l2 l3 : Loc) (fuel : Nat)
    (evs : List Ev) (err : PErr) (p' : Pump)
    (h : pumpAll fuel (initPump L) (docStream t l0 l1 l2 l3) [] = some (evs, some err, p')) :
    (isLimitErr err = true ∧ ∀ r, expand [] [] t = .ok r → evs <+: r.evs) ∨
    (∃ l, expand [] [] t = .error (.unknown l) ∧ err = .unknownAnchor l) ∨
    (∃ l, expand [] [] t = .error (.recursive l) ∧ err = .recursiveRef l) := by
  sorry

/-- (T) alias_unknown_is_error, stated directly: if the specification says the document contains an alias
with no completed anchor (or a recursive one), no run of the pump ends without error. -/
theorem alias_unknown_is_error (L : AliasLimits) (t : LNode) (l0 l1 l2 l3 : Loc) (e : ExpErr)
    (hexp : expand [] [] t = .error e) (fuel : Nat) (evs : List Ev) (p' : Pump) :
    pumpAll fuel (initPump L) (docStream t l0 l1 l2 l3) [] ≠ some (evs, none, p') := by
  sorry

/-- (T) anchor_mark_transparent (partial: excludes anchored empty quoted scalars, see the finding
below): erasing every anchor mark of an alias-free document changes the delivered events only by
erasing the ids. -/
theorem anchor_mark_transparent_partial (t : LNode) (haf : aliasFree t = true)
    (hq : noAnchoredEmptyQuoted t = true) (σ σ' : Tab) (opn opn' : List Nat) (r r' : Exp)
    (h1 : expand σ opn t = .ok r) (h2 : expand σ' opn' (eraseAnchors t) = .ok r') :
    r'.evs = r.evs.map Ev.eraseAnchor := by
  sorry

/-- (F) the full statement "attaching an anchor never changes the node's own value" is false of the
model and of the code: an anchored empty double-quoted scalar is delivered as a plain (null-like)
scalar. Witness `&a ""` vs `""`. -/
theorem anchored_empty_quoted_changes_value :
    ((expand [] [] (.scalar [] .double 1 none 7)).toOption.map (·.evs.map Ev.eraseAnchor)) ≠
    ((expand [] [] (eraseAnchors (.scalar [] .double 1 none 7))).toOption.map (·.evs)) := by
  decide

/-- (T) inject_len_le_one: the replay stack never holds more than one frame (recorded buffers are
alias-free), so `max_replay_stack_depth` only matters at 0. One-step invariant of `next_impl`. -/
theorem inject_len_le_one (p : Pump) (inp : List RawItem) (h : p.inject.length ≤ 1) :
    (nextImpl p inp).2.1.inject.length ≤ 1 := by
  sorry

/-- (T) events_peek_next_coherent: after `peek` returned an event, `next` returns that same event
(never end of input, never a different event, never an error) and does not touch the parser input. -/
theorem peek_next_coherent (p : Pump) (inp : List RawItem) (e : Ev) (p1 : Pump) (in1 : List RawItem)
    (h : peek p inp = (.event e, p1, in1)) :
    ∃ p2, next p1 in1 = (.event e, p2, in1) ∧ p2.look = none := by
  sorry

/-- (T) replayed events are copies of the definition's events: they keep the definition's anchor ids and
locations (used by C14/C16). Stated on the specification: every event of an alias' expansion is an
element of the stored buffer. -/
theorem alias_expansion_is_buffer (σ : Tab) (opn : List Nat) (id : Nat) (loc : Loc) (r : Exp)
    (h : expand σ opn (.alias id loc) = .ok r) : lookupAnchor σ id = some r.evs ∧ r.tab = σ := by
  sorry

-- (E) non-vacuity: a document with a re-defined anchor, an alias inside an anchored container and
-- an alias to it; the hypotheses of `pump_eq_expand` are satisfiable and the pump really runs.
def demo : LNode :=
  .seq 0 none 10 19 [.scalar ['x'] .plain 1 none 11, .seq 2 none 12 15 [.alias 1 13, .scalar ['y'] .plain 1 none 14],
                     .alias 2 16, .alias 1 17]

def demoL : AliasLimits := { maxTotalReplayedEvents := 6, maxReplayStackDepth := 1, maxAliasExpansionsPerAnchor := 2 }

example : (expand [] [] demo).toOption.map (·.replayed) = some 6 := by decide
example : (pumpAll 100 (initPump demoL) (docStream demo 1 2 3 4) []).map (fun x => (x.1.length, x.2.1)) = some (12, none) := by
  decide
example : (pumpAll 100 (initPump { demoL with maxTotalReplayedEvents := 5 }) (docStream demo 1 2 3 4) []).map (·.2.1)
    = some (some (.replayLimit 6 5 14)) := by decide
example : (pumpAll 100 (initPump demoL) (docStream (.seq 1 none 1 3 [.alias 1 2]) 1 2 3 4) []).map (·.2.1)
    = some (some (.recursiveRef 2)) := by decide

end SaphyrVerif.Props.C02
