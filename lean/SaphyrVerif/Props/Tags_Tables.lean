import SaphyrVerif.Gen.Tables
/-!
Semantic pins on the tag table regenerated from `/repo/src/tags.rs` (Gen/Tables.lean).

The typed model and the tree-level specification both classify tags through this table, so a change to the
table in the source is followed by model AND specification. These obligations state what the properties need
from the table itself (C03: a tagged `<<` is an ordinary key; C05/C06: the core-schema tags keep their
meaning, no explicit tag text is ever classified as "no tag"); they break when the table stops providing it.
-/
namespace SaphyrVerif.Props.Tags_Tables
open SaphyrVerif

/-- class code of a raw tag text according to the regenerated table -/
def classOf (t : String) : Option Nat := (Gen.tagLookupTable.find? (fun p => p.1 == t)).map (·.2)

/-- No explicit tag text is classified as `SfTag::None` (code 0): "untagged" is reserved for nodes without a tag.
In particular a tagged `<<` (`!!merge <<`, `!!str <<`, `! <<`) can never satisfy the merge-key test, which
requires the untagged class. -/
theorem no_tag_text_is_untagged : ∀ p ∈ Gen.tagLookupTable, p.2 ≠ 0 := by decide

/-- the YAML 1.1 merge tag is not in the table at all (it is an ordinary application tag: class Other) -/
theorem merge_tag_unclassified :
    classOf "tag:yaml.org,2002:merge" = none ∧ classOf "tag:yaml.org,2002:!merge" = none ∧ classOf "!merge" = none := by decide

/-- the core-schema tags keep their classes (declaration order of `SfTag`) -/
theorem core_tags_classified :
    classOf "tag:yaml.org,2002:int" = some 1 ∧ classOf "tag:yaml.org,2002:float" = some 2 ∧
    classOf "tag:yaml.org,2002:bool" = some 3 ∧ classOf "tag:yaml.org,2002:null" = some 4 ∧
    classOf "tag:yaml.org,2002:seq" = some 5 ∧ classOf "tag:yaml.org,2002:map" = some 6 ∧
    classOf "tag:yaml.org,2002:timestamp" = some 7 ∧ classOf "tag:yaml.org,2002:binary" = some 8 ∧
    classOf "tag:yaml.org,2002:str" = some 9 := by decide

/-- every class in the table is one of the declared ones (1 … 12; 13 = Other is never stored) -/
theorem classes_in_range : ∀ p ∈ Gen.tagLookupTable, 1 ≤ p.2 ∧ p.2 ≤ 12 := by decide

/-- only untagged, `!!str` and application tags (`Other`) may be read into a string target -/
theorem can_parse_into_string_table :
    Gen.tagCanParseIntoString = [true, false, false, false, false, false, false, false, false, true, false, false, false, true] := by decide

/-- the table is keyed by exact text: a lookup is case-sensitive (`!Null`, `!Binary` are application tags) -/
theorem lookup_is_case_sensitive :
    classOf "tag:yaml.org,2002:Null" = none ∧ classOf "tag:yaml.org,2002:Binary" = none ∧ classOf "!Null" = none ∧ classOf "!Binary" = none := by decide

end SaphyrVerif.Props.Tags_Tables
