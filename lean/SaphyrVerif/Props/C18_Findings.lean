import SaphyrVerif.Props.C18
/-!
# C18 — counter-example theorem (F) and regression theorems of two repaired findings

* `C18-decoy-key-shadows-field`, `C18-decoy-key-ambiguous` (repaired in /repo: a value Serde asks for as
  `IgnoredAny` no longer enters the path map): the former counter-example documents are now regression
  theorems of the good behaviour — the reported path resolves to the field's own value. The general
  statement is `search_answers_consumed_position` in `Props/C18.lean`.
* `C18-rename-unresolvable` (still present): validation crates report RUST field names; the recorder
  stores YAML key spellings; `search` bridges the two by spelling only.
-/
namespace SaphyrVerif.PathMap

private def K (s : String) : Seg := ⟨.key, s.toList⟩

/-- traversal of
    ```yaml
    owner:              # struct Person, #[serde(rename_all = "camelCase")]
      first_name: decoy # unknown key: Serde reads its value as IgnoredAny     (location 40)
      firstName: x      # the value of field `first_name`, violates length≥2   (location 50)
    ```
-/
private def decoyDoc : Visit Nat :=
  .map 1 [(some "owner".toList, 2,
    .map 2 [(some "first_name".toList, 40, .ignored (.leaf true)), (some "firstName".toList, 50, .leaf true)])]

/-- regression of `C18-decoy-key-shadows-field`: the validator reports `owner.first_name`; the ignored
    key is not in the map, so the token pass finds the field's own key and location (50). -/
theorem decoy_key_does_not_shadow_field :
    get (record decoyDoc { current := [], map := [] }).2.map [K "owner", K "first_name"] = none ∧
    search (record decoyDoc { current := [], map := [] }).2.map [K "owner", K "first_name"]
      = some (50, "firstName".toList) := by decide

/-- the same document with the unknown key spelt `FirstName` (differs from the YAML key by case only) -/
private def decoyCaseDoc : Visit Nat :=
  .map 1 [(some "owner".toList, 2,
    .map 2 [(some "FirstName".toList, 40, .ignored (.leaf true)), (some "firstName".toList, 50, .leaf true)])]

/-- regression of `C18-decoy-key-ambiguous`: the ignored look-alike is not a candidate of any pass. -/
theorem decoy_key_does_not_make_field_ambiguous :
    search (record decoyCaseDoc { current := [], map := [] }).2.map [K "owner", K "first_name"]
      = some (50, "firstName".toList) := by decide

/-- the ignored key first or last makes no difference (the removal concerns its own path only) -/
theorem decoy_key_order_irrelevant :
    search (record (.map 1 [(some "owner".toList, 2,
        .map 2 [(some "firstName".toList, 50, .leaf true), (some "first_name".toList, 40, .ignored (.leaf true))])])
      { current := [], map := ([] : Map Nat) }).2.map [K "owner", K "first_name"]
      = some (50, "firstName".toList) := by decide

/-- traversal of `label: x` for `struct S { #[serde(rename = "label")] name: String }` -/
private def renamedDoc : Visit Nat := .map 1 [(some "label".toList, 7, .leaf true)]

/-- (F) **unrelated rename**: the validator reports `name`; no pass relates `name` to `label`, so the
    error carries no location at all although the value was recorded (at 7). -/
theorem rename_unresolvable_counterexample :
    get (record renamedDoc { current := [], map := [] }).2.map [K "label"] = some 7 ∧
    search (record renamedDoc { current := [], map := [] }).2.map [K "name"] = none ∧
    searchWithAncestorFallback (record renamedDoc { current := [], map := [] }).2.map [K "name"] = none := by
  decide

/-- the positive half that is true for every field: if the reported path is spelt exactly like the
    recorded YAML path of the field, the field's own entry is returned (`search_exact_first`; keys are
    distinct in a `HashMap`, and since the repair an ignored key cannot own that spelling). -/
theorem located_when_spelt_as_recorded {α : Type} {m : Map α} (hm : KeysNodup m) {p : Path} {loc : α}
    (h : (p, loc) ∈ m) (hp : p ≠ []) : (search m p).map (·.1) = some loc := by
  rw [search_exact_first_nonempty hm h hp]; rfl

end SaphyrVerif.PathMap
