import SaphyrVerif.Props.C18
/-!
# C18 — counter-example theorems (F)

The model is faithful to the code on these inputs (the `pathmap` differential agrees, and the oracle
stream reproduces each of them on the implementation, classes `C18-decoy-key-shadows-field`,
`C18-decoy-key-ambiguous`, `C18-rename-unresolvable` of `known_findings.json`); the property
("every reported field path is mapped to the position where that field's value is used") is false on
them.  Validation crates report RUST field names; the recorder stores YAML key spellings, including the
keys Serde ignores as unknown; `search` bridges the two by spelling only.
-/
namespace SaphyrVerif.PathMap

private def K (s : String) : Seg := ⟨.key, s.toList⟩

/-- traversal of
    ```yaml
    owner:              # struct Person, #[serde(rename_all = "camelCase")]
      first_name: decoy # unknown key: ignored by Serde, still recorded      (location 40)
      firstName: x      # the value of field `first_name`, violates length≥2 (location 50)
    ```
-/
private def decoyDoc : Visit Nat :=
  .map 1 [(some "owner".toList, 2,
    .map 2 [(some "first_name".toList, 40, .leaf true), (some "firstName".toList, 50, .leaf true)])]

/-- (F) **decoy key shadows the field**: the validator reports `owner.first_name` for the value at 50;
    `search` takes the exact-match pass and answers with the location of the unknown key (40). -/
theorem decoy_key_shadows_field_counterexample :
    get (record decoyDoc { current := [], map := [] }).2.map [K "owner", K "firstName"] = some 50 ∧
    search (record decoyDoc { current := [], map := [] }).2.map [K "owner", K "first_name"]
      = some (40, "first_name".toList) := by decide

/-- the same document with the unknown key spelt `FirstName` (differs from the YAML key by case only) -/
private def decoyCaseDoc : Visit Nat :=
  .map 1 [(some "owner".toList, 2,
    .map 2 [(some "FirstName".toList, 40, .leaf true), (some "firstName".toList, 50, .leaf true)])]

/-- (F) **decoy key makes the field ambiguous**: every fuzzy pass sees two candidates, so the reported
    path resolves to nothing although the field's value was recorded (at 50). -/
theorem decoy_key_ambiguous_counterexample :
    get (record decoyCaseDoc { current := [], map := [] }).2.map [K "owner", K "firstName"] = some 50 ∧
    search (record decoyCaseDoc { current := [], map := [] }).2.map [K "owner", K "first_name"] = none := by
  decide

/-- traversal of `label: x` for `struct S { #[serde(rename = "label")] name: String }` -/
private def renamedDoc : Visit Nat := .map 1 [(some "label".toList, 7, .leaf true)]

/-- (F) **unrelated rename**: the validator reports `name`; no pass relates `name` to `label`, so the
    error carries no location at all although the value was recorded (at 7). -/
theorem rename_unresolvable_counterexample :
    get (record renamedDoc { current := [], map := [] }).2.map [K "label"] = some 7 ∧
    search (record renamedDoc { current := [], map := [] }).2.map [K "name"] = none ∧
    searchWithAncestorFallback (record renamedDoc { current := [], map := [] }).2.map [K "name"] = none := by
  decide

/-- the positive half that remains true: if the reported path is spelt exactly like the recorded YAML
    path of the field and no OTHER recorded key has that spelling (keys are distinct in a `HashMap`),
    the field's own entry is returned.  This is `search_exact_first`; the two decoy findings are
    exactly the cases where a different key owns the reported spelling or shares its fuzzy class. -/
theorem located_when_spelt_as_recorded {α : Type} {m : Map α} (hm : KeysNodup m) {p : Path} {loc : α}
    (h : (p, loc) ∈ m) (hp : p ≠ []) : (search m p).map (·.1) = some loc := by
  rw [search_exact_first_nonempty hm h hp]; rfl

end SaphyrVerif.PathMap
