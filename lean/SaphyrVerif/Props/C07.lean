import SaphyrVerif.Spec.BudgetSpec
import SaphyrVerif.Lemmas.C07
/-!
# C07 — budget limits are enforced exactly and the usage report is accurate

Theorems about the model of `BudgetEnforcer` (Model/Budget.lean) against the independent counts of
Spec/BudgetSpec.lean, for every stream of document trees (the parser contract: events are the
flattening of trees).  The hypothesis `length < 2^64` is physical (`usize` counters cannot overflow on
an input that fits in memory); it is what makes the saturating `depth + 1` exact.
-/
namespace SaphyrVerif.Props.C07
open SaphyrVerif SaphyrVerif.Scalars SaphyrVerif.Budget SaphyrVerif.Spec
open SaphyrVerif.Lemmas.C07

/-- (T, as given) On trees the enforcer never reports an unbalanced structure.
FALSE as stated (no bound on the input): the `usize` depth counter saturates on a sequence nested `2^64`
deep, and the last `SequenceEnd` then finds `depth == 0`.  Kept as a `Prop`; see the counterexample and the
two corrected versions below. -/
def no_unbalanced_on_trees_Full : Prop :=
  ∀ (lim : Limits) (pd : Bool) (ds : List Node) (i : Nat),
    run lim pd (flattenStream ds) ≠ .error (i, .unbalanced)

/-- The counterexample (it has `2^65 + 5` events, so it cannot be checked by evaluation; it is proved):
one document, a sequence nested `2^64` deep, with all limits at `2^70`. -/
theorem no_unbalanced_on_trees_counterexample :
    ∃ i, run bigLim false (flattenStream [nest (USIZE_MAX + 1)]) = .error (i, .unbalanced) :=
  counter_unbalanced USIZE_MAX rfl

theorem no_unbalanced_on_trees_Full_false : ¬ no_unbalanced_on_trees_Full := by
  intro h
  obtain ⟨i, hi⟩ := no_unbalanced_on_trees_counterexample
  exact h _ _ _ i hi

/-- (T) On trees that fit in memory (the physical hypothesis of the other theorems) the enforcer never
reports an unbalanced structure, under either policy. -/
theorem no_unbalanced_on_trees_partial (lim : Limits) (pd : Bool) (ds : List Node) (i : Nat)
    (hlen : (flattenStream ds).length < 2 ^ 64) :
    run lim pd (flattenStream ds) ≠ .error (i, .unbalanced) := by
  intro h
  have := unbalanced_wfAll_false (e := Enf.new lim pd) rfl (by simpa [Enf.new] using hlen) h
  have hw : wfAll pd [] (flattenStream ds) = true := congrArg (·.2.2) (G_stream pd ds)
  simp only [Enf.new] at this
  rw [hw] at this; cases this

/-- (T) The same without any bound on the input, for every configuration whose depth limit is below
`usize::MAX` (the breach `depth` fires before the counter can saturate). -/
theorem no_unbalanced_on_trees_partial_maxDepth (lim : Limits) (pd : Bool) (ds : List Node) (i : Nat)
    (hlim : lim.maxDepth < USIZE_MAX) :
    run lim pd (flattenStream ds) ≠ .error (i, .unbalanced) := by
  intro h
  have := unbalanced_wfAll_false' (e := Enf.new lim pd) hlim (depthInv_new lim pd) h
  have hw : wfAll pd [] (flattenStream ds) = true := congrArg (·.2.2) (G_stream pd ds)
  simp only [Enf.new] at this
  rw [hw] at this; cases this

/-- (T) report_eq_counts: when the stream is accepted, the report handed to the callback equals the
independent count — including merge keys, which the enforcer tracks with its container-state stack
while the specification counts them on the tree. -/
theorem report_eq_usage (lim : Limits) (ds : List Node) (e : Enf)
    (hlen : (flattenStream ds).length < 2 ^ 64)
    (h : run lim false (flattenStream ds) = .ok e) :
    e.finalize.1 = usage ds := by
  obtain ⟨rfl, -⟩ := runFrom_ok h
  obtain ⟨-, hmd⟩ := fresh_depth lim (flattenStream ds) hlen
  have hmk : mkAll false [] (flattenStream ds) = mergeKeysDocs ds := congrArg (·.2.1) (G_stream false ds)
  rw [finalize_fst]
  simp only [usage, nEvents]
  rw [fresh_events, fresh_aliases, fresh_anchors, fresh_documents, fresh_nodes, fresh_tsb, fresh_mergeKeys, hmd, hmk]

/-- (T) observe_accepts_iff: the stream is accepted by `observe` ⇔ every counted quantity is within its
limit.  (Counters are monotone, so "every prefix" and "the whole stream" coincide.) -/
theorem accepts_iff (lim : Limits) (ds : List Node) (hlen : (flattenStream ds).length < 2 ^ 64) :
    (∃ e, run lim false (flattenStream ds) = .ok e) ↔ within lim (usage ds) = true := by
  have hmk : mkAll false [] (flattenStream ds) = mergeKeysDocs ds := congrArg (·.2.1) (G_stream false ds)
  constructor
  · rintro ⟨e, h⟩
    have hu := report_eq_usage lim ds e hlen h
    obtain ⟨rfl, hw⟩ := runFrom_ok h
    have hw := hw (within_new lim false)
    rw [← hu, finalize_fst]
    simp only [Within, fresh_lim] at hw
    rw [within_iff]
    dsimp only
    omega
  · intro hwi
    cases h : run lim false (flattenStream ds) with
    | ok e => exact ⟨e, rfl⟩
    | error p =>
      exfalso
      obtain ⟨j, b⟩ := p
      have hnu := no_unbalanced_on_trees_partial lim false ds j hlen
      unfold run at h
      obtain ⟨pre, ev, post, heq, -, -, herr⟩ := runFrom_err h
      have hb := observe_err herr
      rw [within_iff] at hwi
      simp only [usage, nEvents, maxDepth] at hwi
      rw [← hmk, heq] at hwi
      rw [heq] at hlen
      simp only [List.length_append, List.length_cons] at hlen hwi
      have hlen' : pre.length < 2 ^ 64 := by omega
      cases b <;> simp only [BreachSpec, fresh_lim] at hb
      case events n => rw [fresh_events] at hb; omega
      case nodes n =>
        rw [fresh_nodes] at hb
        rw [nNodes_append, nNodes_cons, hb.1] at hwi; simp only [b2n, if_true] at hwi; omega
      case aliases n =>
        rw [fresh_aliases] at hb
        rw [nAliases_append, nAliases_cons, hb.1] at hwi; simp only [b2n, if_true] at hwi; omega
      case documents n =>
        rw [fresh_documents] at hb
        rw [nDocuments_append, nDocuments_cons, hb.1] at hwi; simp only [b2n, if_true] at hwi; omega
      case anchors n =>
        rw [fresh_defined] at hb
        have h1 : nAnchors (pre ++ ev :: post) = (defAfter (defIns (defAfter [] pre) (anchorOf ev)) post).length := by
          rw [nAnchors_eq, defAfter_append]; rfl
        have h2 := defAfter_length_ge (defIns (defAfter [] pre) (anchorOf ev)) post
        omega
      case scalarBytes n =>
        rw [fresh_tsb, satAdd_eq_min] at hb
        rw [scalarBytes_append, scalarBytes_cons] at hwi; omega
      case depth n =>
        obtain ⟨hd, hm⟩ := fresh_depth lim pre hlen'
        have hle := depthAfter_le 0 pre
        rw [hd, hm, satAdd_one (by omega)] at hb
        have hge := maxDepthFrom_ge (depthStep (depthAfter 0 pre) ev)
          (max (maxDepthFrom 0 0 pre) (depthStep (depthAfter 0 pre) ev)) post
        rw [maxDepthFrom_append] at hwi
        simp only [maxDepthFrom] at hwi
        rw [depthStep_eq, hb.1] at hge hwi
        simp only [if_true, maxDepth] at hge hwi hb
        omega
      case mergeKeys n =>
        rw [fresh_mergeKeys, fresh_containers] at hb
        rw [mkAll_append] at hwi; simp only [mkAll] at hwi; omega
      case unbalanced => exact hnu h

/-- (T) the ratio heuristic applied by `finalize` is the mathematical one (the product saturates
instead of overflowing, which cannot change the comparison). -/
theorem ratio_exact (lim : Limits) (ds : List Node) (e : Enf)
    (hlen : (flattenStream ds).length < 2 ^ 64)
    (h : run lim false (flattenStream ds) = .ok e) :
    (e.finalize.2 = none ↔ ratioOk lim (usage ds) = true) ∧
    (∀ b, e.finalize.2 = some b → b = .ratio (usage ds).aliases (usage ds).anchors) := by
  have hu := report_eq_usage lim ds e hlen h
  have hl : e.lim = lim := by
    obtain ⟨rfl, -⟩ := runFrom_ok h; exact fresh_lim _ _
  have ha : (usage ds).aliases ≤ USIZE_MAX := by
    have := nAliases_le_length (flattenStream ds)
    simp only [usage, USIZE_MAX]; omega
  have hs := finalize_snd e
  rw [hu, hl] at hs
  rw [hs]
  have hdec : decide ((usage ds).aliases > satMul lim.multiplier (usage ds).anchors) =
      decide ((usage ds).aliases > lim.multiplier * (usage ds).anchors) :=
    decide_eq_decide.mpr (gt_satMul lim.multiplier (usage ds).anchors ha)
  rw [hdec]
  simp only [ratioOk]
  generalize (lim.enforceRatio && decide ((usage ds).aliases ≥ lim.minAliases) &&
    ((usage ds).anchors == 0 || decide ((usage ds).aliases > lim.multiplier * (usage ds).anchors))) = c
  cases c <;> simp

/-- limits set exactly to the measured usage -/
def limitsOf (r : Report) (lim : Limits) : Limits :=
  { lim with maxEvents := r.events, maxAliases := r.aliases, maxAnchors := r.anchors, maxDepth := r.maxDepth,
             maxDocuments := r.documents, maxNodes := r.nodes, maxTotalScalarBytes := r.totalScalarBytes,
             maxMergeKeys := r.mergeKeys }

/-- (T) threshold_exact, upper half: limit = measured usage accepts -/
theorem exact_limits_accept (lim : Limits) (ds : List Node) (hlen : (flattenStream ds).length < 2 ^ 64) :
    ∃ e, run (limitsOf (usage ds) lim) false (flattenStream ds) = .ok e := by
  rw [accepts_iff _ ds hlen, within_iff]
  simp [limitsOf]

/-- (T) threshold_exact, lower half: any limit below the measured usage rejects -/
theorem below_usage_rejects (lim : Limits) (ds : List Node) (hlen : (flattenStream ds).length < 2 ^ 64)
    (h : within lim (usage ds) = false) :
    ∃ i b, run lim false (flattenStream ds) = .error (i, b) := by
  cases hr : run lim false (flattenStream ds) with
  | ok e =>
    have := (accepts_iff lim ds hlen).1 ⟨e, hr⟩
    rw [h] at this; cases this
  | error p => exact ⟨p.1, p.2, rfl⟩

/-- (T) first_breach_kind: the breach names a counter, carries that counter's value after the offending
event, and that value exceeds the limit; everything before was within the limits. -/
theorem first_breach_kind (lim : Limits) (evs : List Raw) (i : Nat) (b : Breach)
    (h : run lim false evs = .error (i, b)) :
    (∃ e, run lim false (evs.take i) = .ok e) ∧ i < evs.length ∧
    match b with
    | .events n => n = i + 1 ∧ n > lim.maxEvents
    | .nodes n => n = nNodes (evs.take (i + 1)) ∧ n > lim.maxNodes
    | .aliases n => n = nAliases (evs.take (i + 1)) ∧ n > lim.maxAliases
    | .anchors n => n = nAnchors (evs.take (i + 1)) ∧ n > lim.maxAnchors
    | .documents n => n = nDocuments (evs.take (i + 1)) ∧ n > lim.maxDocuments
    | .scalarBytes n => n = min (scalarBytes (evs.take (i + 1))) USIZE_MAX ∧ n > lim.maxTotalScalarBytes
    | .depth n => n > lim.maxDepth
    | .mergeKeys n => n > lim.maxMergeKeys
    | .ratio _ _ => False
    | .unbalanced => True := by
  unfold run at h ⊢
  obtain ⟨pre, ev, post, rfl, rfl, hok, herr⟩ := runFrom_err h
  have hb := observe_err herr
  have ht : (pre ++ ev :: post).take (0 + pre.length) = pre := by simp
  have ht1 : (pre ++ ev :: post).take (0 + pre.length + 1) = pre ++ [ev] := by
    rw [show pre ++ ev :: post = (pre ++ [ev]) ++ post by simp]; exact List.take_left' (by simp)
  refine ⟨⟨_, by rw [ht]; exact hok⟩, by simp, ?_⟩
  rw [ht1]
  cases b <;> simp only [BreachSpec, fresh_lim] at hb ⊢
  case events n => rw [fresh_events] at hb; omega
  case nodes n =>
    rw [fresh_nodes] at hb
    rw [nNodes_append, nNodes_cons, nNodes_nil, hb.1]; simp only [b2n, if_true]; omega
  case aliases n =>
    rw [fresh_aliases] at hb
    rw [nAliases_append, nAliases_cons, nAliases_nil, hb.1]; simp only [b2n, if_true]; omega
  case documents n =>
    rw [fresh_documents] at hb
    rw [nDocuments_append, nDocuments_cons, nDocuments_nil, hb.1]; simp only [b2n, if_true]; omega
  case anchors n =>
    rw [fresh_defined] at hb
    rw [nAnchors_eq, defAfter_append]; exact hb
  case scalarBytes n =>
    rw [fresh_tsb, satAdd_eq_min] at hb
    rw [scalarBytes_append, scalarBytes_cons, scalarBytes_nil]; omega
  case depth n => exact hb.2.2
  case mergeKeys n => exact hb.2.2

/-- a stream under the per-document policy -/
def perDocAccepts (lim : Limits) (ds : List Node) : Bool :=
  match run lim true (flattenStream ds) with
  | .ok _ => true
  | .error _ => false

/-- (T) perdoc_independent: under per-document enforcement a stream is accepted exactly when each of
its documents is accepted as a stream of its own — the documents already read never matter.
(True of the repaired code: anchors, depth and container state are reset at every DocumentStart.) -/
theorem perdoc_independent (lim : Limits) (ds : List Node) (hne : ds ≠ []) :
    perDocAccepts lim ds = ds.all (fun d => perDocAccepts lim [d]) := by
  have hacc : ∀ ds, perDocAccepts lim ds = acc (run lim true (flattenStream ds)) := fun ds => by
    unfold perDocAccepts acc; rfl
  have hsingle : ∀ d, perDocAccepts lim [d] = docOk lim d := fun d => by
    rw [hacc, perDoc_eq]
    simp only [List.all_cons, List.all_nil, Bool.and_true]
    cases hd : docOk lim d
    · simp
    · have := docOk_events hd
      simp; omega
  simp only [hsingle]
  rw [hacc, perDoc_eq]
  cases ds with
  | nil => exact absurd rfl hne
  | cons d ds =>
    simp only [List.all_cons]
    cases hd : docOk lim d
    · simp
    · have := docOk_events hd
      have h1 : decide (1 ≤ lim.maxEvents) = true := by simp; omega
      have h2 : decide (2 ≤ lim.maxEvents) = true := by simp; omega
      simp [h1, h2]

/-- (T) the per-document enforcer state right after a DocumentStart does not depend on the history -/
theorem perdoc_state_reset (e e' : Enf) (x : Bool) (hpd : e.perDocument = true)
    (h : e.observe (.docStart x) = .ok e') :
    e'.report = { documents := e.report.documents } ∧ e'.defined = [] ∧ e'.depth = 0 ∧ e'.containers = [] := by
  obtain ⟨rfl, -⟩ := observe_ok h
  simp [next, hpd, isDocStart]

-- (E) non-vacuity and concrete thresholds
def demoLim : Limits :=
  { maxEvents := 100, maxAliases := 10, maxAnchors := 10, maxDepth := 10, maxDocuments := 10, maxNodes := 100,
    maxTotalScalarBytes := 1000, maxMergeKeys := 10, enforceRatio := true, minAliases := 100, multiplier := 10 }

/-- `{<<: *a, k: [&a x, *a]}` -/
def demoDoc : Node :=
  .map 0 none [(.scalar ['<', '<'] .plain 0 none, .alias 1),
               (.scalar ['k'] .plain 0 none, .seq 0 none [.scalar ['x'] .plain 1 none, .alias 1])]

example : (usage [demoDoc]).mergeKeys = 1 ∧ (usage [demoDoc]).maxDepth = 2 ∧ (usage [demoDoc]).events = 13 := by decide
example : ∃ e, run demoLim false (flattenStream [demoDoc]) = .ok e := ⟨_, rfl⟩
example : run { demoLim with maxDepth := 1 } false (flattenStream [demoDoc]) = .error (6, .depth 2) := by rfl
example : run { demoLim with maxMergeKeys := 0 } false (flattenStream [demoDoc]) = .error (3, .mergeKeys 1) := by rfl
example : perDocAccepts { demoLim with maxAnchors := 1 } [demoDoc, demoDoc, demoDoc] = true := by decide

#print axioms no_unbalanced_on_trees_counterexample
#print axioms no_unbalanced_on_trees_Full_false
#print axioms no_unbalanced_on_trees_partial
#print axioms no_unbalanced_on_trees_partial_maxDepth
#print axioms report_eq_usage
#print axioms accepts_iff
#print axioms ratio_exact
#print axioms exact_limits_accept
#print axioms below_usage_rejects
#print axioms first_breach_kind
#print axioms perdoc_independent
#print axioms perdoc_state_reset

end SaphyrVerif.Props.C07
