import SaphyrVerif.Spec.BudgetSpec
/-!
# C07 — budget limits are enforced exactly and the usage report is accurate

Theorems about the model of `BudgetEnforcer` (Model/Budget.lean) against the independent counts of
Spec/BudgetSpec.lean, for every stream of document trees (the parser contract: events are the
flattening of trees).  The hypothesis `length < 2^64` is physical (`usize` counters cannot overflow on
an input that fits in memory); it is what makes the saturating `depth + 1` exact.
-/
namespace SaphyrVerif.Props.C07
open SaphyrVerif SaphyrVerif.Scalars SaphyrVerif.Budget SaphyrVerif.Spec

/-- (T) On trees the enforcer never reports an unbalanced structure. -/
theorem no_unbalanced_on_trees (lim : Limits) (pd : Bool) (ds : List Node) (i : Nat) :
    run lim pd (flattenStream ds) ≠ .error (i, .unbalanced) := by
  sorry

/-- (T) report_eq_counts: when the stream is accepted, the report handed to the callback equals the
independent count — including merge keys, which the enforcer tracks with its container-state stack
while the specification counts them on the tree. -/
theorem report_eq_usage (lim : Limits) (ds : List Node) (e : Enf)
    (hlen : (flattenStream ds).length < 2 ^ 64)
    (h : run lim false (flattenStream ds) = .ok e) :
    e.finalize.1 = usage ds := by
  sorry

/-- (T) observe_accepts_iff: the stream is accepted by `observe` ⇔ every counted quantity is within its
limit.  (Counters are monotone, so "every prefix" and "the whole stream" coincide.) -/
theorem accepts_iff (lim : Limits) (ds : List Node) (hlen : (flattenStream ds).length < 2 ^ 64) :
    (∃ e, run lim false (flattenStream ds) = .ok e) ↔ within lim (usage ds) = true := by
  sorry

/-- (T) the ratio heuristic applied by `finalize` is the mathematical one (the product saturates
instead of overflowing, which cannot change the comparison). -/
theorem ratio_exact (lim : Limits) (ds : List Node) (e : Enf)
    (hlen : (flattenStream ds).length < 2 ^ 64)
    (h : run lim false (flattenStream ds) = .ok e) :
    (e.finalize.2 = none ↔ ratioOk lim (usage ds) = true) ∧
    (∀ b, e.finalize.2 = some b → b = .ratio (usage ds).aliases (usage ds).anchors) := by
  sorry

/-- limits set exactly to the measured usage -/
def limitsOf (r : Report) (lim : Limits) : Limits :=
  { lim with maxEvents := r.events, maxAliases := r.aliases, maxAnchors := r.anchors, maxDepth := r.maxDepth,
             maxDocuments := r.documents, maxNodes := r.nodes, maxTotalScalarBytes := r.totalScalarBytes,
             maxMergeKeys := r.mergeKeys }

/-- (T) threshold_exact, upper half: limit = measured usage accepts -/
theorem exact_limits_accept (lim : Limits) (ds : List Node) (hlen : (flattenStream ds).length < 2 ^ 64) :
    ∃ e, run (limitsOf (usage ds) lim) false (flattenStream ds) = .ok e := by
  sorry

/-- (T) threshold_exact, lower half: any limit below the measured usage rejects -/
theorem below_usage_rejects (lim : Limits) (ds : List Node) (hlen : (flattenStream ds).length < 2 ^ 64)
    (h : within lim (usage ds) = false) :
    ∃ i b, run lim false (flattenStream ds) = .error (i, b) := by
  sorry

/-- (T) first_breach_kind: the breach names a counter, carries that counter's value after the offending
event, and that value exceeds the limit; everything before was within the limits. -/
theorem first_breach_kind (lim : Limits) (evs : List Raw) (i : Nat) (b : Breach)
    (h : run lim false evs = .error (i, b)) :
    (∃ e, run lim false (evs.take i) = .ok e) ∧ i < evs.length ∧
    match b with
    | .events n => n = i + 1 ∧ n > lim.maxEvents
    | .nodes n => n = nNodes (evs.take (i + 1)) ∧ n > lim.maxNodes
    | .aliases n => n = nAliases (evs.take (i + 1)) ∧ n > lim.maxAliases
    | .anchors n => n = nAnchors (evs.take (i + 1)) ∧ n > lim.maxAnchors
    | .documents n => n = nDocuments (evs.take (i + 1)) ∧ n > lim.maxDocuments
    | .scalarBytes n => n = min (scalarBytes (evs.take (i + 1))) USIZE_MAX ∧ n > lim.maxTotalScalarBytes
    | .depth n => n > lim.maxDepth
    | .mergeKeys n => n > lim.maxMergeKeys
    | .ratio _ _ => False
    | .unbalanced => True := by
  sorry

/-- a stream under the per-document policy -/
def perDocAccepts (lim : Limits) (ds : List Node) : Bool :=
  match run lim true (flattenStream ds) with
  | .ok _ => true
  | .error _ => false

/-- (T) perdoc_independent: under per-document enforcement a stream is accepted exactly when each of
its documents is accepted as a stream of its own — the documents already read never matter.
(True of the repaired code: anchors, depth and container state are reset at every DocumentStart.) -/
theorem perdoc_independent (lim : Limits) (ds : List Node) (hne : ds ≠ []) :
    perDocAccepts lim ds = ds.all (fun d => perDocAccepts lim [d]) := by
  sorry

/-- (T) the per-document enforcer state right after a DocumentStart does not depend on the history -/
theorem perdoc_state_reset (e e' : Enf) (x : Bool) (hpd : e.perDocument = true)
    (h : e.observe (.docStart x) = .ok e') :
    e'.report = { documents := e.report.documents } ∧ e'.defined = [] ∧ e'.depth = 0 ∧ e'.containers = [] := by
  sorry

-- (E) non-vacuity and concrete thresholds
def demoLim : Limits :=
  { maxEvents := 100, maxAliases := 10, maxAnchors := 10, maxDepth := 10, maxDocuments := 10, maxNodes := 100,
    maxTotalScalarBytes := 1000, maxMergeKeys := 10, enforceRatio := true, minAliases := 100, multiplier := 10 }

/-- `{<<: *a, k: [&a x, *a]}` -/
def demoDoc : Node :=
  .map 0 none [(.scalar ['<', '<'] .plain 0 none, .alias 1),
               (.scalar ['k'] .plain 0 none, .seq 0 none [.scalar ['x'] .plain 1 none, .alias 1])]

example : (usage [demoDoc]).mergeKeys = 1 ∧ (usage [demoDoc]).maxDepth = 2 ∧ (usage [demoDoc]).events = 13 := by decide
example : ∃ e, run demoLim false (flattenStream [demoDoc]) = .ok e := ⟨_, rfl⟩
example : run { demoLim with maxDepth := 1 } false (flattenStream [demoDoc]) = .error (6, .depth 2) := by rfl
example : run { demoLim with maxMergeKeys := 0 } false (flattenStream [demoDoc]) = .error (3, .mergeKeys 1) := by rfl
example : perDocAccepts { demoLim with maxAnchors := 1 } [demoDoc, demoDoc, demoDoc] = true := by decide

end SaphyrVerif.Props.C07
