import SaphyrVerif.Spec.BudgetSpec
import SaphyrVerif.Lemmas.C07
import SaphyrVerif.Lemmas.C07_PerDoc
import SaphyrVerif.Model.Pump
/-!
# C07 — budget limits are enforced exactly and the usage report is accurate

Theorems about the model of `BudgetEnforcer` (Model/Budget.lean) against the independent counts of
Spec/BudgetSpec.lean, for every stream of document trees (the parser contract: events are the
flattening of trees).  The hypothesis `length < 2^64` is physical (`usize` counters cannot overflow on
an input that fits in memory); it is what makes the saturating `depth + 1` exact.
-/
namespace SaphyrVerif.Props.C07
open SaphyrVerif SaphyrVerif.Scalars SaphyrVerif.Budget SaphyrVerif.Spec
open SaphyrVerif.Lemmas.C07

/-- (T, as given) On trees the enforcer never reports an unbalanced structure.
FALSE as stated (no bound on the input): the `usize` depth counter saturates on a sequence nested `2^64`
deep, and the last `SequenceEnd` then finds `depth == 0`.  Kept as a `Prop`; see the counterexample and the
two corrected versions below. -/
def no_unbalanced_on_trees_Full : Prop :=
  ∀ (lim : Limits) (pd : Bool) (ds : List Node) (i : Nat),
    run lim pd (flattenStream ds) ≠ .error (i, .unbalanced)

/-- The counterexample (it has `2^65 + 5` events, so it cannot be checked by evaluation; it is proved):
one document, a sequence nested `2^64` deep, with all limits at `2^70`. -/
theorem no_unbalanced_on_trees_counterexample :
    ∃ i, run bigLim false (flattenStream [nest (USIZE_MAX + 1)]) = .error (i, .unbalanced) :=
  counter_unbalanced USIZE_MAX rfl

theorem no_unbalanced_on_trees_Full_false : ¬ no_unbalanced_on_trees_Full := by
  intro h
  obtain ⟨i, hi⟩ := no_unbalanced_on_trees_counterexample
  exact h _ _ _ i hi

/-- (T) On trees that fit in memory (the physical hypothesis of the other theorems) the enforcer never
reports an unbalanced structure, under either policy. -/
theorem no_unbalanced_on_trees_partial (lim : Limits) (pd : Bool) (ds : List Node) (i : Nat)
    (hlen : (flattenStream ds).length < 2 ^ 64) :
    run lim pd (flattenStream ds) ≠ .error (i, .unbalanced) := by
  intro h
  have := unbalanced_wfAll_false (e := Enf.new lim pd) rfl (by simpa [Enf.new] using hlen) h
  have hw : wfAll pd [] (flattenStream ds) = true := congrArg (·.2.2) (G_stream pd ds)
  simp only [Enf.new] at this
  rw [hw] at this; cases this

/-- (T) The same without any bound on the input, for every configuration whose depth limit is below
`usize::MAX` (the breach `depth` fires before the counter can saturate). -/
theorem no_unbalanced_on_trees_partial_maxDepth (lim : Limits) (pd : Bool) (ds : List Node) (i : Nat)
    (hlim : lim.maxDepth < USIZE_MAX) :
    run lim pd (flattenStream ds) ≠ .error (i, .unbalanced) := by
  intro h
  have := unbalanced_wfAll_false' (e := Enf.new lim pd) hlim (depthInv_new lim pd) h
  have hw : wfAll pd [] (flattenStream ds) = true := congrArg (·.2.2) (G_stream pd ds)
  simp only [Enf.new] at this
  rw [hw] at this; cases this

/-- (T) report_eq_counts: when the stream is accepted, the report handed to the callback equals the
independent count — including merge keys, which the enforcer tracks with its container-state stack
while the specification counts them on the tree. -/
theorem report_eq_usage (lim : Limits) (ds : List Node) (e : Enf)
    (hlen : (flattenStream ds).length < 2 ^ 64)
    (h : run lim false (flattenStream ds) = .ok e) :
    e.finalize.1 = usage ds := by
  obtain ⟨rfl, -⟩ := runFrom_ok h
  obtain ⟨-, hmd⟩ := fresh_depth lim (flattenStream ds) hlen
  have hmk : mkAll false [] (flattenStream ds) = mergeKeysDocs ds := congrArg (·.2.1) (G_stream false ds)
  rw [finalize_fst]
  simp only [usage, nEvents]
  rw [fresh_events, fresh_aliases, fresh_anchors, fresh_documents, fresh_nodes, fresh_tsb, fresh_mergeKeys, hmd, hmk]

/-- (T) observe_accepts_iff: the stream is accepted by `observe` ⇔ every counted quantity is within its
limit.  (Counters are monotone, so "every prefix" and "the whole stream" coincide.) -/
theorem accepts_iff (lim : Limits) (ds : List Node) (hlen : (flattenStream ds).length < 2 ^ 64) :
    (∃ e, run lim false (flattenStream ds) = .ok e) ↔ within lim (usage ds) = true := by
  have hmk : mkAll false [] (flattenStream ds) = mergeKeysDocs ds := congrArg (·.2.1) (G_stream false ds)
  constructor
  · rintro ⟨e, h⟩
    have hu := report_eq_usage lim ds e hlen h
    obtain ⟨rfl, hw⟩ := runFrom_ok h
    have hw := hw (within_new lim false)
    rw [← hu, finalize_fst]
    simp only [Within, fresh_lim] at hw
    rw [within_iff]
    dsimp only
    omega
  · intro hwi
    cases h : run lim false (flattenStream ds) with
    | ok e => exact ⟨e, rfl⟩
    | error p =>
      exfalso
      obtain ⟨j, b⟩ := p
      have hnu := no_unbalanced_on_trees_partial lim false ds j hlen
      unfold run at h
      obtain ⟨pre, ev, post, heq, -, -, herr⟩ := runFrom_err h
      have hb := observe_err herr
      rw [pro_of_not_pd ev (by simp [Enf.new])] at hb
      rw [within_iff] at hwi
      simp only [usage, nEvents, maxDepth] at hwi
      rw [← hmk, heq] at hwi
      rw [heq] at hlen
      simp only [List.length_append, List.length_cons] at hlen hwi
      have hlen' : pre.length < 2 ^ 64 := by omega
      cases b <;> simp only [BreachSpec, fresh_lim] at hb
      case events n => rw [fresh_events] at hb; omega
      case nodes n =>
        rw [fresh_nodes] at hb
        rw [nNodes_append, nNodes_cons, hb.1] at hwi; simp only [b2n, if_true] at hwi; omega
      case aliases n =>
        rw [fresh_aliases] at hb
        rw [nAliases_append, nAliases_cons, hb.1] at hwi; simp only [b2n, if_true] at hwi; omega
      case documents n =>
        rw [fresh_documents] at hb
        rw [nDocuments_append, nDocuments_cons, hb.1] at hwi; simp only [b2n, if_true] at hwi; omega
      case anchors n =>
        rw [fresh_defined] at hb
        have h1 : nAnchors (pre ++ ev :: post) = (defAfter (defIns (defAfter [] pre) (anchorOf ev)) post).length := by
          rw [nAnchors_eq, defAfter_append]; rfl
        have h2 := defAfter_length_ge (defIns (defAfter [] pre) (anchorOf ev)) post
        omega
      case scalarBytes n =>
        rw [fresh_tsb, satAdd_eq_min] at hb
        rw [scalarBytes_append, scalarBytes_cons] at hwi; omega
      case depth n =>
        obtain ⟨hd, hm⟩ := fresh_depth lim pre hlen'
        have hle := depthAfter_le 0 pre
        rw [hd, hm, satAdd_one (by omega)] at hb
        have hge := maxDepthFrom_ge (depthStep (depthAfter 0 pre) ev)
          (max (maxDepthFrom 0 0 pre) (depthStep (depthAfter 0 pre) ev)) post
        rw [maxDepthFrom_append] at hwi
        simp only [maxDepthFrom] at hwi
        rw [depthStep_eq, hb.1] at hge hwi
        simp only [if_true, maxDepth] at hge hwi hb
        omega
      case mergeKeys n =>
        rw [fresh_mergeKeys, fresh_containers] at hb
        rw [mkAll_append] at hwi; simp only [mkAll] at hwi; omega
      case unbalanced => exact hnu h
      case ratio a n => simp [Enf.new] at hb

/-- (T) the ratio heuristic applied by `finalize` is the mathematical one (the product saturates
instead of overflowing, which cannot change the comparison). -/
theorem ratio_exact (lim : Limits) (ds : List Node) (e : Enf)
    (hlen : (flattenStream ds).length < 2 ^ 64)
    (h : run lim false (flattenStream ds) = .ok e) :
    (e.finalize.2 = none ↔ ratioOk lim (usage ds) = true) ∧
    (∀ b, e.finalize.2 = some b → b = .ratio (usage ds).aliases (usage ds).anchors) := by
  have hu := report_eq_usage lim ds e hlen h
  have hl : e.lim = lim := by
    obtain ⟨rfl, -⟩ := runFrom_ok h; exact fresh_lim _ _
  have ha : (usage ds).aliases ≤ USIZE_MAX := by
    have := nAliases_le_length (flattenStream ds)
    simp only [usage, USIZE_MAX]; omega
  have hpd : e.perDocument = false := by
    obtain ⟨rfl, -⟩ := runFrom_ok h; simp [Enf.new]
  have hs := finalize_snd e hpd
  rw [hu, hl] at hs
  rw [hs]
  have hdec : decide ((usage ds).aliases > satMul lim.multiplier (usage ds).anchors) =
      decide ((usage ds).aliases > lim.multiplier * (usage ds).anchors) :=
    decide_eq_decide.mpr (gt_satMul lim.multiplier (usage ds).anchors ha)
  rw [hdec]
  simp only [ratioOk]
  generalize (lim.enforceRatio && decide ((usage ds).aliases ≥ lim.minAliases) &&
    ((usage ds).anchors == 0 || decide ((usage ds).aliases > lim.multiplier * (usage ds).anchors))) = c
  cases c <;> simp

/-- limits set exactly to the measured usage -/
def limitsOf (r : Report) (lim : Limits) : Limits :=
  { lim with maxEvents := r.events, maxAliases := r.aliases, maxAnchors := r.anchors, maxDepth := r.maxDepth,
             maxDocuments := r.documents, maxNodes := r.nodes, maxTotalScalarBytes := r.totalScalarBytes,
             maxMergeKeys := r.mergeKeys }

/-- (T) threshold_exact, upper half: limit = measured usage accepts -/
theorem exact_limits_accept (lim : Limits) (ds : List Node) (hlen : (flattenStream ds).length < 2 ^ 64) :
    ∃ e, run (limitsOf (usage ds) lim) false (flattenStream ds) = .ok e := by
  rw [accepts_iff _ ds hlen, within_iff]
  simp [limitsOf]

/-- (T) threshold_exact, lower half: any limit below the measured usage rejects -/
theorem below_usage_rejects (lim : Limits) (ds : List Node) (hlen : (flattenStream ds).length < 2 ^ 64)
    (h : within lim (usage ds) = false) :
    ∃ i b, run lim false (flattenStream ds) = .error (i, b) := by
  cases hr : run lim false (flattenStream ds) with
  | ok e =>
    have := (accepts_iff lim ds hlen).1 ⟨e, hr⟩
    rw [h] at this; cases this
  | error p => exact ⟨p.1, p.2, rfl⟩

/-- (T) first_breach_kind: the breach names a counter, carries that counter's value after the offending
event, and that value exceeds the limit; everything before was within the limits. -/
theorem first_breach_kind (lim : Limits) (evs : List Raw) (i : Nat) (b : Breach)
    (h : run lim false evs = .error (i, b)) :
    (∃ e, run lim false (evs.take i) = .ok e) ∧ i < evs.length ∧
    match b with
    | .events n => n = i + 1 ∧ n > lim.maxEvents
    | .nodes n => n = nNodes (evs.take (i + 1)) ∧ n > lim.maxNodes
    | .aliases n => n = nAliases (evs.take (i + 1)) ∧ n > lim.maxAliases
    | .anchors n => n = nAnchors (evs.take (i + 1)) ∧ n > lim.maxAnchors
    | .documents n => n = nDocuments (evs.take (i + 1)) ∧ n > lim.maxDocuments
    | .scalarBytes n => n = min (scalarBytes (evs.take (i + 1))) USIZE_MAX ∧ n > lim.maxTotalScalarBytes
    | .depth n => n > lim.maxDepth
    | .mergeKeys n => n > lim.maxMergeKeys
    | .ratio _ _ => False
    | .unbalanced => True := by
  unfold run at h ⊢
  obtain ⟨pre, ev, post, rfl, rfl, hok, herr⟩ := runFrom_err h
  have hb := observe_err herr
  rw [pro_of_not_pd ev (by simp [Enf.new])] at hb
  have ht : (pre ++ ev :: post).take (0 + pre.length) = pre := by simp
  have ht1 : (pre ++ ev :: post).take (0 + pre.length + 1) = pre ++ [ev] := by
    rw [show pre ++ ev :: post = (pre ++ [ev]) ++ post by simp]; exact List.take_left' (by simp)
  refine ⟨⟨_, by rw [ht]; exact hok⟩, by simp, ?_⟩
  rw [ht1]
  cases b <;> simp only [BreachSpec, fresh_lim] at hb ⊢
  case events n => rw [fresh_events] at hb; omega
  case nodes n =>
    rw [fresh_nodes] at hb
    rw [nNodes_append, nNodes_cons, nNodes_nil, hb.1]; simp only [b2n, if_true]; omega
  case aliases n =>
    rw [fresh_aliases] at hb
    rw [nAliases_append, nAliases_cons, nAliases_nil, hb.1]; simp only [b2n, if_true]; omega
  case documents n =>
    rw [fresh_documents] at hb
    rw [nDocuments_append, nDocuments_cons, nDocuments_nil, hb.1]; simp only [b2n, if_true]; omega
  case anchors n =>
    rw [fresh_defined] at hb
    rw [nAnchors_eq, defAfter_append]; exact hb
  case scalarBytes n =>
    rw [fresh_tsb, satAdd_eq_min] at hb
    rw [scalarBytes_append, scalarBytes_cons, scalarBytes_nil]; omega
  case depth n => exact hb.2.2
  case mergeKeys n => exact hb.2.2
  case ratio a n => simp [Enf.new] at hb

/-! ## per-document policy (`EnforcingPolicy::PerDocument`, the `read*` iterators)

A document is charged from its own `DocumentStart` through its `DocumentEnd`: `observe` forgets the previous
document BEFORE it counts a `DocumentStart`, and does not count `StreamStart` / `StreamEnd`.  (Before the
repair the `DocumentStart` of the NEXT document was counted and limit-checked against the counters of the
document already read, and `StreamEnd` was charged to the last document: see the regression examples and
`observeOld` below.) -/

/-- a stream under the per-document policy -/
def perDocAccepts (lim : Limits) (ds : List Node) : Bool :=
  match run lim true (flattenStream ds) with
  | .ok _ => true
  | .error _ => false

/-- everything the enforcer sees before a document that is preceded by the documents `pre` -/
def beforeDoc (pre : List Node) : List Raw := .streamStart :: flattenDocs pre

/-- (T) perdoc_independent: under per-document enforcement a stream is accepted exactly when each of
its documents is accepted as a stream of its own — the documents already read never matter.
For ALL streams (the old code needed `ds ≠ []` and satisfied it only because a one-document stream was charged
the same two framing events as the first document of a longer one). -/
theorem perdoc_independent (lim : Limits) (ds : List Node) :
    perDocAccepts lim ds = ds.all (fun d => perDocAccepts lim [d]) := by
  have hacc : ∀ ds, perDocAccepts lim ds = acc (run lim true (flattenStream ds)) := fun ds => by
    unfold perDocAccepts acc; rfl
  have hsingle : ∀ d, perDocAccepts lim [d] = acc (docRun lim d) := fun d => by
    rw [hacc, perDoc_single, acc_shiftErr]
  simp only [hsingle]
  rw [hacc, perDoc_run_eq, acc_perDocSpec]

/-- (T) the per-document enforcer state right after a DocumentStart does not depend on the history: everything is
reset, and the DocumentStart itself is the one event charged so far. -/
theorem perdoc_state_reset (e e' : Enf) (x : Bool) (hpd : e.perDocument = true)
    (h : e.observe (.docStart x) = .ok e') :
    e'.report = { events := 1, documents := e.report.documents } ∧ e'.defined = [] ∧ e'.depth = 0 ∧
      e'.containers = [] := by
  obtain ⟨rfl, -⟩ := observe_ok h
  simp [next, hpd, isDocStart]

/-- (T) perdoc_position_independent, event level, at full generality: under the per-document policy the run over ANY
event list that begins with a `DocumentStart` (a document, or a document and everything after it) is the same —
final state (report, defined anchors, depth, containers) and every breach with its index — from any two enforcer
states with the same limits and documents counter.  The states are arbitrary: whatever was counted before, whatever
anchors / depth / containers an earlier (also an abandoned, half-read) document left behind, is irrelevant. -/
theorem perdoc_position_independent_raw (e e' : Enf) (hpd : e.perDocument = true) (hpd' : e'.perDocument = true)
    (hl : e.lim = e'.lim) (hdoc : e.report.documents = e'.report.documents) (x : Bool) (evs : List Raw) (i : Nat) :
    runFrom e i (.docStart x :: evs) = runFrom e' i (.docStart x :: evs) :=
  runFrom_docStart_pd hpd hpd' hl hdoc x evs i

/-- (T) perdoc_position_independent: in a stream `pre ++ [d] ++ post` the run over `d`'s events
(`DocumentStart … DocumentEnd`) from the state `e` reached after `pre` EQUALS the run from the fresh state: the same
enforcer state at `d`'s `DocumentEnd` (report, defined anchors, depth, containers — the whole `Enf`) and the same
breach at the same event.  (`post` cannot occur in the statement: the run over `d` is over before `post` is seen;
that nothing in `post` is charged to `d` is `perdoc_stream_decomp` / `perdoc_followers_independent` /
`perdoc_breach_in_doc`.) -/
theorem perdoc_position_independent (lim : Limits) (pre : List Node) (d : Node) (e : Enf) (k : Nat)
    (hpre : run lim true (beforeDoc pre) = .ok e) :
    runFrom e k (flattenDoc d) = runFrom (Enf.new lim true) k (flattenDoc d) :=
  have hs : PdState lim e := pdState_run (pdState_new lim) hpre
  runFrom_docStart_pd hs.1 rfl hs.2.1 hs.2.2 _ _ _

/-- (T) the whole stream, decomposed at a document: once the documents before `d` are accepted, what happens from `d`
on does not depend on the state they left (`.ok _`); `d` is run from the fresh state; and what follows `d` is run
from the state `d` ended in — which `perdoc_followers_independent` shows to be irrelevant as well. -/
theorem perdoc_stream_decomp (lim : Limits) (pre : List Node) (d : Node) (post : List Node) :
    run lim true (flattenStream (pre ++ d :: post)) =
      match run lim true (beforeDoc pre) with
      | .error x => .error x
      | .ok _ =>
        match runFrom (Enf.new lim true) (beforeDoc pre).length (flattenDoc d) with
        | .error x => .error x
        | .ok e1 =>
          runFrom e1 ((beforeDoc pre).length + (flattenDoc d).length) (flattenDocs post ++ [.streamEnd]) := by
  have hsplit : flattenStream (pre ++ d :: post) = beforeDoc pre ++ (flattenDoc d ++ (flattenDocs post ++ [.streamEnd])) := by
    have h : ∀ xs ys : List Node, flattenDocs (xs ++ ys) = flattenDocs xs ++ flattenDocs ys := by
      intro xs ys
      induction xs with
      | nil => rfl
      | cons x xs ih => simp only [List.cons_append, flattenDocs, ih, List.append_assoc]
    simp only [flattenStream, beforeDoc, h, flattenDocs, List.cons_append, List.append_assoc]
  unfold run
  rw [hsplit, runFrom_append]
  cases hpre : runFrom (Enf.new lim true) 0 (beforeDoc pre) with
  | error x => rfl
  | ok e =>
    simp only []
    rw [runFrom_append, Nat.zero_add,
      perdoc_position_independent lim pre d e (beforeDoc pre).length hpre]
    rfl

/-- (T) nothing that FOLLOWS a document is charged to it, part 1: `StreamEnd` is not observed — the state at the
last `DocumentEnd` is the final state, and no breach can be raised there. -/
theorem perdoc_streamEnd_free (e : Enf) (k : Nat) (hpd : e.perDocument = true) :
    runFrom e k [.streamEnd] = .ok e := by
  simp only [runFrom, observe_frame_pd hpd (ev := .streamEnd) rfl]

/-- (T) nothing that FOLLOWS a document is charged to it, part 2: the run over the following documents (beginning
with the `DocumentStart` of the next one — the event the old code charged to the document already read) is the
same from the state `d` ended in as from the fresh state. -/
theorem perdoc_followers_independent (lim : Limits) (e1 : Enf) (k : Nat) (d2 : Node) (post : List Node)
    (hpd : e1.perDocument = true) (hl : e1.lim = lim) (hdoc : e1.report.documents = 0) :
    runFrom e1 k (flattenDocs (d2 :: post) ++ [.streamEnd]) =
      runFrom (Enf.new lim true) k (flattenDocs (d2 :: post) ++ [.streamEnd]) := by
  simp only [flattenDocs, flattenDoc, List.cons_append]
  exact runFrom_docStart_pd hpd rfl hl hdoc _ _ _

/-- (T) every breach raised inside a document is that document's own: if the stream `pre ++ [d] ++ post` is rejected
at an event of `d` (index within `d`'s `DocumentStart … DocumentEnd`), then `d` read on its own from the fresh
state is rejected at the same event with the same breach. -/
theorem perdoc_breach_in_doc (lim : Limits) (pre : List Node) (d : Node) (post : List Node) (j : Nat) (b : Breach)
    (h : run lim true (flattenStream (pre ++ d :: post)) = .error ((beforeDoc pre).length + j, b))
    (hj : j < (flattenDoc d).length) :
    runFrom (Enf.new lim true) 0 (flattenDoc d) = .error (j, b) := by
  rw [perdoc_stream_decomp] at h
  split at h
  · rename_i x hx
    obtain ⟨x1, x2⟩ := x
    injection h with h; injection h with h1 h2; subst h1 h2
    have := (runFrom_err_index hx).2
    omega
  · split at h
    · rename_i x hx
      obtain ⟨x1, x2⟩ := x
      injection h with h; injection h with h1 h2; subst h1 h2
      have hsh := runFrom_shift (Enf.new lim true) (beforeDoc pre).length 0 (flattenDoc d)
      rw [Nat.add_zero, hx] at hsh
      cases h0 : runFrom (Enf.new lim true) 0 (flattenDoc d) with
      | ok e1 => rw [h0] at hsh; cases hsh
      | error p =>
        obtain ⟨p1, p2⟩ := p
        rw [h0] at hsh
        simp only [shiftErr] at hsh
        injection hsh with hsh; injection hsh with h1 h2
        have : p1 = j := by omega
        subst this; subst h2; rfl
    · rename_i e1 he1
      have := (runFrom_err_index h).1
      omega

/-- (T) … and conversely: when the documents before `d` are accepted, a breach of `d` on its own surfaces in the
stream at the same event of `d`, whatever follows. -/
theorem perdoc_doc_breach_surfaces (lim : Limits) (pre : List Node) (d : Node) (post : List Node) (j : Nat) (b : Breach)
    (hpre : perDocAccepts lim pre = true)
    (h : runFrom (Enf.new lim true) 0 (flattenDoc d) = .error (j, b)) :
    run lim true (flattenStream (pre ++ d :: post)) = .error ((beforeDoc pre).length + j, b) := by
  rw [perdoc_stream_decomp]
  have hp : ∃ e, run lim true (beforeDoc pre) = .ok e := by
    unfold perDocAccepts at hpre
    rw [perDoc_run_eq] at hpre
    unfold beforeDoc
    rw [perDoc_prefix_eq]
    cases h0 : perDocSpec lim 1 (Enf.new lim true) pre with
    | ok e => exact ⟨e, rfl⟩
    | error p => rw [h0] at hpre; cases hpre
  obtain ⟨e, he⟩ := hp
  rw [he]
  simp only []
  have hsh := runFrom_shift (Enf.new lim true) (beforeDoc pre).length 0 (flattenDoc d)
  rw [Nat.add_zero, h] at hsh
  rw [hsh]; rfl

/-- the usage charged to document `d` when it is read after the documents `pre`: the report (`finalize` /
`into_report`) taken at its `DocumentEnd`; `none` if the run is rejected before -/
def chargedTo (lim : Limits) (pre : List Node) (d : Node) : Option Report :=
  okReport (run lim true (beforeDoc pre ++ flattenDoc d))

/-- the usage report of the one-document stream `[d]` (`StreamStart`, `d`, `StreamEnd`) -/
def usageOfSingle (lim : Limits) (d : Node) : Option Report :=
  okReport (run lim true (flattenStream [d]))

theorem prefix_ok_of_accepts {lim : Limits} {pre : List Node} (hpre : perDocAccepts lim pre = true) :
    ∃ e, run lim true (beforeDoc pre) = .ok e := by
  unfold perDocAccepts at hpre
  rw [perDoc_run_eq] at hpre
  unfold beforeDoc
  rw [perDoc_prefix_eq]
  cases h0 : perDocSpec lim 1 (Enf.new lim true) pre with
  | ok e => exact ⟨e, rfl⟩
  | error p => rw [h0] at hpre; cases hpre

/-- (T) perdoc_usage_eq_single, states: the enforcer state at `d`'s `DocumentEnd` after ANY accepted documents `pre`
is the final state of the one-document stream `[d]` — and so is the final state of a stream that ends with `d`. -/
theorem perdoc_state_eq_single (lim : Limits) (pre : List Node) (d : Node) (hpre : perDocAccepts lim pre = true) :
    run lim true (beforeDoc pre ++ flattenDoc d) = shiftErr (beforeDoc pre).length (docRun lim d) ∧
    run lim true (flattenStream (pre ++ [d])) = shiftErr (beforeDoc pre).length (docRun lim d) ∧
    run lim true (flattenStream [d]) = shiftErr 1 (docRun lim d) := by
  obtain ⟨e, he⟩ := prefix_ok_of_accepts hpre
  have hs : PdState lim e := pdState_run (pdState_new lim) he
  have h1 : run lim true (beforeDoc pre ++ flattenDoc d) = shiftErr (beforeDoc pre).length (docRun lim d) := by
    unfold run at he ⊢
    rw [runFrom_append, he]
    simp only [Nat.zero_add]
    exact runFrom_flattenDoc_pd hs _ d
  refine ⟨h1, ?_, perDoc_single lim d⟩
  rw [perdoc_stream_decomp, he]
  simp only []
  have hsh := runFrom_shift (Enf.new lim true) (beforeDoc pre).length 0 (flattenDoc d)
  rw [Nat.add_zero] at hsh
  rw [hsh]
  unfold docRun
  cases h0 : runFrom (Enf.new lim true) 0 (flattenDoc d) with
  | error p => rfl
  | ok e1 =>
    simp only [shiftErr, flattenDocs, List.nil_append]
    exact perdoc_streamEnd_free e1 _ (pdState_run (pdState_new lim) h0).1

/-- (T) perdoc_usage_eq_single: the usage charged to `d` — events, aliases, anchors, nodes, depth, scalar bytes, merge
keys — is the usage of the one-document stream `[d]`, whatever accepted documents were read before it.
First position is `pre = []`, a middle position is any `pre` with something following (what follows is not part of
`chargedTo`: see `perdoc_followers_independent`), the last position is `perdoc_usage_last`. -/
theorem perdoc_usage_eq_single (lim : Limits) (pre : List Node) (d : Node) (hpre : perDocAccepts lim pre = true) :
    chargedTo lim pre d = usageOfSingle lim d := by
  obtain ⟨h1, -, h3⟩ := perdoc_state_eq_single lim pre d hpre
  unfold chargedTo usageOfSingle
  rw [h1, h3, okReport_shiftErr, okReport_shiftErr]

/-- (T) perdoc_usage_eq_single, last position: the report `finalize` returns at the end of a stream is the usage of
its LAST document on its own (`StreamEnd` is charged to nobody). -/
theorem perdoc_usage_last (lim : Limits) (pre : List Node) (d : Node) (hpre : perDocAccepts lim pre = true) :
    okReport (run lim true (flattenStream (pre ++ [d]))) = usageOfSingle lim d := by
  obtain ⟨-, h2, h3⟩ := perdoc_state_eq_single lim pre d hpre
  unfold usageOfSingle
  rw [h2, h3, okReport_shiftErr, okReport_shiftErr]

/-- (T) the usage charged to a document is the independent count of ITS OWN events (`DocumentStart … DocumentEnd`,
Spec `usageDoc`): when document `d` is accepted from the fresh per-document state, the report equals `usageDoc d`.
With `perdoc_usage_eq_single` / `perdoc_usage_last`: the same numbers at the first, a middle and the last position. -/
theorem perdoc_report_eq_usageDoc (lim : Limits) (d : Node) (e : Enf)
    (hlen : (flattenDoc d).length < 2 ^ 64)
    (h : runFrom (Enf.new lim true) 0 (flattenDoc d) = .ok e) :
    e.finalize.1 = usageDoc d := by
  have h' : docRun lim d = .ok e := h
  rw [docRun_eq] at h'
  split at h'
  · cases h'
  · obtain ⟨rfl, -⟩ := runFrom_ok h'
    have hp := docBody_plain d
    have hl : (docBody d).length < 2 ^ 64 := by
      rw [flattenDoc_eq] at hlen; simp only [List.length_cons] at hlen; omega
    obtain ⟨-, hmd⟩ := doc_depth lim _ hp hl
    have hmk : mkAll false [] (docBody d) = mergeKeys d := congrArg (·.2.1) (G_docBody false d)
    rw [finalize_fst]
    simp only [usageDoc]
    rw [doc_events lim _ hp, doc_aliases lim _ hp, doc_defined lim _ hp, doc_documents, doc_nodes lim _ hp, hmd,
      doc_tsb lim _ hp, doc_mergeKeys lim _ hp, hmk,
      nEvents_doc, nAliases_doc, nAnchors_doc, nNodes_doc, maxDepth_doc, scalarBytes_doc]

/-! ### the alias/anchor ratio is a per-document quantity

Under the per-document policy the ratio heuristic is judged by `observe` at every `DocumentEnd`, on the counters of the
document that ends there; `finalize` is silent.  (Before this repair only `finalize` judged it, at the end of the
stream, on the counters of the LAST document: `a: &x 1` / `b: [*x, *x, *x]` with `min_aliases = 1`, `multiplier = 1`
passed as a non-last document and was rejected as the last one or alone.) -/

/-- (T) a document accepted from the fresh per-document state: every count within its limit, the ratio check silent,
the report is the independent count -/
theorem perdoc_ok_spec (lim : Limits) (d : Node) (e : Enf) (hlen : (flattenDoc d).length < 2 ^ 64)
    (h : docRun lim d = .ok e) :
    within lim (usageDoc d) = true ∧ ratioOk lim (usageDoc d) = true ∧ e.finalize.1 = usageDoc d := by
  have hu := perdoc_report_eq_usageDoc lim d e hlen h
  rw [docRun_eq] at h
  split at h
  · cases h
  · rename_i h1
    have hfull := h
    obtain ⟨rfl, hw⟩ := runFrom_ok h
    have hw := hw (by simp [Within, docStartState]; omega)
    refine ⟨within_of_docFinal lim d hlen hw, ?_, hu⟩
    -- the last event is the DocumentEnd: its ratio check was silent
    rw [docBody_eq, runFrom_append] at hfull
    split at hfull
    · cases hfull
    · rename_i e1 he1
      simp only [runFrom] at hfull
      split at hfull
      · cases hfull
      · rename_i e2 he2
        have hpd1 : e1.perDocument = true := by
          obtain ⟨rfl, -⟩ := runFrom_ok he1; rw [nextAll_pd]; rfl
        have hr := (observe_docEnd_ok_pd hpd1 he2).2
        injection hfull with hfull
        subst hfull
        rw [← docBody_eq, docFinal_ratio lim d hlen] at hr
        split at hr
        · assumption
        · cases hr

/-- (T) within the limits the only breach a document can raise is the ratio breach -/
theorem perdoc_no_other_breach (lim : Limits) (d : Node) (hlen : (flattenDoc d).length < 2 ^ 64)
    (hwi : within lim (usageDoc d) = true) (j : Nat) (b : Breach) (h : docRun lim d = .error (j, b)) :
    ∃ a n, b = .ratio a n := by
  have hp := docBody_plain d
  have hl : (docBody d).length < 2 ^ 64 := by
    rw [flattenDoc_eq] at hlen; simp only [List.length_cons] at hlen; omega
  have hmk : mkAll false [] (docBody d) = mergeKeys d := congrArg (·.2.1) (G_docBody false d)
  by_cases hrb : ∃ a n, b = .ratio a n
  · exact hrb
  · exfalso
    rw [within_iff] at hwi
    simp only [usageDoc] at hwi
    rw [nEvents_doc, nAliases_doc, nAnchors_doc, nNodes_doc, maxDepth_doc, scalarBytes_doc, ← hmk] at hwi
    rw [docRun_eq] at h
    split at h
    · omega
    · have hnu : b ≠ .unbalanced := by
        rintro rfl
        have := unbalanced_wfAll_false (e := docStartState lim 0) rfl (by simpa [docStartState] using hl) h
        have hw : wfAll true [] (docBody d) = true := congrArg (·.2.2) (G_docBody true d)
        simp only [docStartState] at this
        rw [hw] at this; cases this
      obtain ⟨pre, ev, post, heq, -, -, herr⟩ := runFrom_err h
      have hb := observe_err herr
      rw [heq] at hp hl hwi
      simp only [List.all_append, List.all_cons, Bool.and_eq_true] at hp
      obtain ⟨hpp, hpe, -⟩ := hp
      rw [pro_of_not_docStart (plainEv_iff.1 hpe).1] at hb
      simp only [List.length_append, List.length_cons] at hl hwi
      have hlen' : pre.length < 2 ^ 64 := by omega
      cases b <;> simp only [BreachSpec, doc_lim] at hb
      case ratio a n => exact hrb ⟨a, n, rfl⟩
      case events n => rw [doc_events lim pre hpp] at hb; omega
      case nodes n =>
        rw [doc_nodes lim pre hpp] at hb
        rw [nNodes_append, nNodes_cons, hb.1] at hwi; simp only [b2n, if_true] at hwi; omega
      case aliases n =>
        rw [doc_aliases lim pre hpp] at hb
        rw [nAliases_append, nAliases_cons, hb.1] at hwi; simp only [b2n, if_true] at hwi; omega
      case documents n =>
        have : (nextAll (docStartState lim 0) pre).perDocument = true := by rw [nextAll_pd]; rfl
        rw [this] at hb; cases hb.2.1
      case anchors n =>
        rw [doc_defined lim pre hpp] at hb
        have h1 : (defAfter [] (pre ++ ev :: post)).length =
            (defAfter (defIns (defAfter [] pre) (anchorOf ev)) post).length := by
          rw [defAfter_append]; rfl
        have h2 := defAfter_length_ge (defIns (defAfter [] pre) (anchorOf ev)) post
        omega
      case scalarBytes n =>
        rw [doc_tsb lim pre hpp, satAdd_eq_min] at hb
        rw [scalarBytes_append, scalarBytes_cons] at hwi; omega
      case depth n =>
        obtain ⟨hd, hm⟩ := doc_depth lim pre hpp hlen'
        have hle := depthAfter_le 0 pre
        rw [hd, hm, satAdd_one (by omega)] at hb
        have hge := maxDepthFrom_ge (depthStep (depthAfter 0 pre) ev)
          (max (maxDepthFrom 0 0 pre) (depthStep (depthAfter 0 pre) ev)) post
        rw [maxDepthFrom_append] at hwi
        simp only [maxDepthFrom] at hwi
        rw [depthStep_eq, hb.1] at hge hwi
        simp only [if_true] at hge hwi hb
        omega
      case mergeKeys n =>
        rw [doc_mergeKeys lim pre hpp, doc_containers lim pre hpp] at hb
        rw [mkAll_append] at hwi; simp only [mkAll] at hwi; omega
      case unbalanced => exact hnu rfl

/-- (T) a ratio breach is raised at the document's own `DocumentEnd` (its last event), after every count — this event
included — passed its limit, carries the alias and anchor counts of the document, and means that the Spec ratio check
fails on them -/
theorem perdoc_ratio_breach_spec (lim : Limits) (d : Node) (hlen : (flattenDoc d).length < 2 ^ 64) (j a n : Nat)
    (h : docRun lim d = .error (j, .ratio a n)) :
    j = (flattenDoc d).length - 1 ∧ a = (usageDoc d).aliases ∧ n = (usageDoc d).anchors ∧
      within lim (usageDoc d) = true ∧ ratioOk lim (usageDoc d) = false := by
  rw [docRun_eq] at h
  split at h
  · cases h
  · rename_i h1
    obtain ⟨pre, ev, post, heq, hj, hok, herr⟩ := runFrom_err h
    have hb := observe_err herr
    simp only [BreachSpec] at hb
    obtain ⟨-, hev, hevents, hr⟩ := hb
    subst hev
    rw [pro_of_not_docStart rfl] at hevents hr
    rw [docBody_eq] at heq
    obtain ⟨rfl, rfl⟩ := split_at_docEnd (flatten_noDocEnd d) heq
    have hS : nextAll (docStartState lim 0) (docBody d) = next (nextAll (docStartState lim 0) (flatten d)) .docEnd := by
      rw [docBody_eq, nextAll_append]; rfl
    have hw : Within (nextAll (docStartState lim 0) (docBody d)) := by
      rw [hS]
      exact within_next_docEnd ((runFrom_ok hok).2 (by simp [Within, docStartState]; omega)) hevents
    have hr' := docFinal_ratio lim d hlen
    rw [hS, ratioBreach_next_docEnd, hr] at hr'
    have hro : ratioOk lim (usageDoc d) = false ∧ a = (usageDoc d).aliases ∧ n = (usageDoc d).anchors := by
      split at hr'
      · cases hr'
      · rename_i hno
        injection hr' with hr'; injection hr' with h2 h3
        exact ⟨by simpa using hno, h2, h3⟩
    refine ⟨?_, hro.2.1, hro.2.2, within_of_docFinal lim d hlen hw, hro.1⟩
    rw [hj, flattenDoc_eq, docBody_eq]; simp; omega

/-- (T) per-document `accepts_iff`, ratio included: a document is accepted under the per-document policy ⇔ every count of
its own events is within its limit AND the alias/anchor ratio check passes on its own alias and anchor counts
(`max_documents` plays no role: the documents counter stays 0). -/
theorem perdoc_accepts_iff (lim : Limits) (d : Node) (hlen : (flattenDoc d).length < 2 ^ 64) :
    perDocAccepts lim [d] = true ↔ (within lim (usageDoc d) = true ∧ ratioOk lim (usageDoc d) = true) := by
  have hacc : perDocAccepts lim [d] = acc (docRun lim d) := by
    have : perDocAccepts lim [d] = acc (run lim true (flattenStream [d])) := by unfold perDocAccepts acc; rfl
    rw [this, perDoc_single, acc_shiftErr]
  rw [hacc]
  constructor
  · intro ha
    cases h : docRun lim d with
    | error p => rw [h] at ha; cases ha
    | ok e => exact ⟨(perdoc_ok_spec lim d e hlen h).1, (perdoc_ok_spec lim d e hlen h).2.1⟩
  · rintro ⟨hwi, hro⟩
    cases h : docRun lim d with
    | ok e => rfl
    | error p =>
      exfalso
      obtain ⟨j, b⟩ := p
      obtain ⟨a, n, rfl⟩ := perdoc_no_other_breach lim d hlen hwi j b h
      have := (perdoc_ratio_breach_spec lim d hlen j a n h).2.2.2.2
      rw [hro] at this; cases this

/-- (T) ratio_exact, per document: the document read on its own raises the ratio breach — at its own `DocumentEnd`, with its
own alias and anchor counts — exactly when its counts are within the limits and the Spec ratio check fails on them. -/
theorem perdoc_ratio_exact (lim : Limits) (d : Node) (hlen : (flattenDoc d).length < 2 ^ 64) (j a n : Nat) :
    runFrom (Enf.new lim true) 0 (flattenDoc d) = .error (j, .ratio a n) ↔
      (j = (flattenDoc d).length - 1 ∧ a = (usageDoc d).aliases ∧ n = (usageDoc d).anchors ∧
        within lim (usageDoc d) = true ∧ ratioOk lim (usageDoc d) = false) := by
  constructor
  · exact perdoc_ratio_breach_spec lim d hlen j a n
  · rintro ⟨rfl, rfl, rfl, hwi, hro⟩
    show docRun lim d = _
    cases h : docRun lim d with
    | ok e =>
      have := (perdoc_ok_spec lim d e hlen h).2.1
      rw [hro] at this; cases this
    | error p =>
      obtain ⟨j, b⟩ := p
      obtain ⟨a, n, rfl⟩ := perdoc_no_other_breach lim d hlen hwi j b h
      obtain ⟨rfl, rfl, rfl, -, -⟩ := perdoc_ratio_breach_spec lim d hlen j a n h
      rfl

/-- (T) perdoc_ratio_position_independent: in a stream `pre ++ [d] ++ post` whose documents before `d` are accepted, the
ratio breach is raised at `d`'s own `DocumentEnd` ⇔ the one-document stream `[d]` raises it at its `DocumentEnd` ⇔ the
Spec verdict on `d`'s own counts — whatever precedes, whatever follows.  (Index of `d`'s `DocumentEnd`: everything before
`d` plus `d`'s events but one.) -/
theorem perdoc_ratio_position_independent (lim : Limits) (pre : List Node) (d : Node) (post : List Node) (a n : Nat)
    (hlen : (flattenDoc d).length < 2 ^ 64) (hpre : perDocAccepts lim pre = true) :
    (run lim true (flattenStream (pre ++ d :: post)) =
        .error ((beforeDoc pre).length + ((flattenDoc d).length - 1), .ratio a n) ↔
      run lim true (flattenStream [d]) = .error (1 + ((flattenDoc d).length - 1), .ratio a n)) ∧
    (run lim true (flattenStream [d]) = .error (1 + ((flattenDoc d).length - 1), .ratio a n) ↔
      (a = (usageDoc d).aliases ∧ n = (usageDoc d).anchors ∧
        within lim (usageDoc d) = true ∧ ratioOk lim (usageDoc d) = false)) := by
  have hpos : 0 < (flattenDoc d).length := by rw [flattenDoc_eq]; simp
  have hsingle : run lim true (flattenStream [d]) = .error (1 + ((flattenDoc d).length - 1), .ratio a n) ↔
      docRun lim d = .error ((flattenDoc d).length - 1, .ratio a n) := by
    rw [perDoc_single]
    cases h : docRun lim d with
    | ok e => simp [shiftErr]
    | error p =>
      obtain ⟨j, b⟩ := p
      simp only [shiftErr, Except.error.injEq, Prod.mk.injEq]
      constructor
      · rintro ⟨h1, h2⟩; exact ⟨by omega, h2⟩
      · rintro ⟨h1, h2⟩; exact ⟨by omega, h2⟩
  refine ⟨?_, ?_⟩
  · rw [hsingle]
    constructor
    · intro h
      exact perdoc_breach_in_doc lim pre d post _ _ h (by omega)
    · intro h
      exact perdoc_doc_breach_surfaces lim pre d post _ _ hpre h
  · rw [hsingle]
    have := perdoc_ratio_exact lim d hlen ((flattenDoc d).length - 1) a n
    constructor
    · intro h
      exact (this.1 h).2
    · intro h
      exact this.2 ⟨rfl, h⟩

/-- (T) under the per-document policy `finalize` never reports a breach: the ratio of every document was judged at its
`DocumentEnd` (and the counters left at the end of a stream may belong to a document that was abandoned half-way) -/
theorem perdoc_finalize_silent (e : Enf) (hpd : e.perDocument = true) : e.finalize.2 = none :=
  finalize_snd_pd e hpd

/-- the complete verdict on a stream under the per-document policy: `observe` accepts every event AND `finalize` reports
nothing -/
def perDocAcceptsFull (lim : Limits) (ds : List Node) : Bool :=
  match run lim true (flattenStream ds) with
  | .ok e => e.finalize.2.isNone
  | .error _ => false

/-- (T) perdoc_independent, ratio included: the complete verdict (all counters, the ratio heuristic, `finalize`) on a
stream is the conjunction of the complete verdicts on its documents, each as a stream of its own. -/
theorem perdoc_independent_full (lim : Limits) (ds : List Node) :
    perDocAcceptsFull lim ds = ds.all (fun d => perDocAcceptsFull lim [d]) := by
  have hfull : ∀ ds, perDocAcceptsFull lim ds = perDocAccepts lim ds := by
    intro ds
    unfold perDocAcceptsFull perDocAccepts
    cases h : run lim true (flattenStream ds) with
    | error p => rfl
    | ok e =>
      have hpd : e.perDocument = true := by
        obtain ⟨rfl, -⟩ := runFrom_ok h; rw [nextAll_pd]; rfl
      simp only [finalize_snd_pd e hpd]; rfl
  simp only [hfull]
  exact perdoc_independent lim ds

-- (E) non-vacuity and concrete thresholds
def demoLim : Limits :=
  { maxEvents := 100, maxAliases := 10, maxAnchors := 10, maxDepth := 10, maxDocuments := 10, maxNodes := 100,
    maxTotalScalarBytes := 1000, maxMergeKeys := 10, enforceRatio := true, minAliases := 100, multiplier := 10 }

/-- `{<<: *a, k: [&a x, *a]}` -/
def demoDoc : Node :=
  .map 0 none [(.scalar ['<', '<'] .plain 0 none, .alias 1),
               (.scalar ['k'] .plain 0 none, .seq 0 none [.scalar ['x'] .plain 1 none, .alias 1])]

example : (usage [demoDoc]).mergeKeys = 1 ∧ (usage [demoDoc]).maxDepth = 2 ∧ (usage [demoDoc]).events = 13 := by decide
example : ∃ e, run demoLim false (flattenStream [demoDoc]) = .ok e := ⟨_, rfl⟩
example : run { demoLim with maxDepth := 1 } false (flattenStream [demoDoc]) = .error (6, .depth 2) := by rfl
example : run { demoLim with maxMergeKeys := 0 } false (flattenStream [demoDoc]) = .error (3, .mergeKeys 1) := by rfl
example : perDocAccepts { demoLim with maxAnchors := 1 } [demoDoc, demoDoc, demoDoc] = true := by decide

/-! ### regression: the witness of the repaired defect — the stream `[a]` / `b` / `c` with `max_events = 4`

Before the repair `observe` charged 4 events to `[a]` (its `DocumentStart` was reset away, `StreamStart` too), accepted
it, and then counted the `DocumentStart` of `b` as event 5 of `[a]`: the iterator yielded `[Ok, Err(Events{5})]` —
document 2 (three events of its own) was rejected because of document 1.
Now every document is charged exactly its own events: `[a]` has 5 (`DocumentStart`, `SequenceStart`, scalar,
`SequenceEnd`, `DocumentEnd`) and is over `max_events = 4` ITSELF, at its own `DocumentEnd`; `b` and `c` have 3 and are
accepted wherever they stand. -/

/-- `[a]` -/
def regA : Node := .seq 0 none [.scalar ['a'] .plain 0 none]
/-- `b` -/
def regB : Node := .scalar ['b'] .plain 0 none
/-- `c` -/
def regC : Node := .scalar ['c'] .plain 0 none
def lim4 : Limits := { demoLim with maxEvents := 4 }
def lim5 : Limits := { demoLim with maxEvents := 5 }

/-- each document on its own under `max_events = 4`: `[Err(Events{5}), Ok, Ok]` -/
example : [regA, regB, regC].map (fun d => perDocAccepts lim4 [d]) = [false, true, true] := by decide
/-- the breach of `[a]` is its own: raised at its own `DocumentEnd` (index 4 of the document), `events 5` -/
example : runFrom (Enf.new lim4 true) 0 (flattenDoc regA) = .error (4, .events 5) := by rfl
/-- the enforcer run over the whole witness stops in document 1, at ITS `DocumentEnd` (event index 5 of the stream),
no longer at the `DocumentStart` of document 2 (index 6) -/
example : run lim4 true (flattenStream [regA, regB, regC]) = .error (5, .events 5) := by rfl
/-- `b` and `c` are accepted behind any accepted documents, e.g. behind each other (the old code rejected the second
of two three-event documents under `max_events = 3`: 1 + 3 framing-shifted events) -/
example : perDocAccepts { demoLim with maxEvents := 3 } [regB, regC, regB, regC] = true := by decide
/-- with `max_events = 5` (the true size of `[a]`) all three are accepted, in every order -/
example : perDocAccepts lim5 [regA, regB, regC] = true ∧ perDocAccepts lim5 [regC, regB, regA] = true ∧
    perDocAccepts lim5 [regB, regA, regC] = true := by decide
/-- identical documents are charged identically at the first, a middle and the last position: `[a]` is 5 events,
1 + 1 nodes, depth 1, one scalar byte — `perdoc_usage_eq_single` / `perdoc_usage_last` on an instance
(the old code said 4 events at the first and middle position and 5 at the last) -/
example :
    chargedTo lim5 [] regA = some (usageDoc regA) ∧ chargedTo lim5 [regB] regA = some (usageDoc regA) ∧
    chargedTo lim5 [regB, regA, regC] regA = some (usageDoc regA) ∧
    okReport (run lim5 true (flattenStream [regB, regC, regA])) = some (usageDoc regA) ∧
    usageOfSingle lim5 regA = some (usageDoc regA) ∧
    usageDoc regA = { events := 5, nodes := 2, maxDepth := 1, totalScalarBytes := 1 } := by decide
/-- exact threshold per document: `max_events` = its own event count accepts, one less rejects (`perdoc_accepts_iff`) -/
example : within lim5 (usageDoc regA) = true ∧ within lim4 (usageDoc regA) = false := by decide

/-- FOR THE RECORD ONLY — `observe` as it was before the repair (not part of the model): every event was counted and
limit-checked first, and only then did a `DocumentStart` reset the per-document state. -/
def observeOld (e : Enf) (ev : Raw) : Except Breach Enf :=
  match e.observeCounted ev with
  | .error b => .error b
  | .ok e1 =>
    match ev with
    | .docStart _ => .ok e1.beginDocument
    | _ => .ok e1

def runFromOld (e : Enf) (i : Nat) : List Raw → Except (Nat × Breach) Enf
  | [] => .ok e
  | ev :: rest =>
    match observeOld e ev with
    | .error b => .error (i, b)
    | .ok e' => runFromOld e' (i + 1) rest

/-- the old code on the witness: document 1 (`[a]`, indices 1–5) passes, the breach is raised at index 6 — the
`DocumentStart` of document 2 — with the count of document 1 (`events 5`); and the same document `b` was accepted
in first position but rejected behind `[a]`: position dependence, now excluded by `perdoc_position_independent`. -/
example : runFromOld (Enf.new lim4 true) 0 (flattenStream [regA, regB, regC]) = .error (6, .events 5) := by rfl
example :
    (∃ e, runFromOld (Enf.new lim4 true) 0 (beforeDoc [] ++ flattenDoc regB) = .ok e) ∧
    runFromOld (Enf.new lim4 true) 0 (beforeDoc [regA] ++ flattenDoc regB) = .error (6, .events 5) ∧
    (∃ e, run lim4 true (beforeDoc [] ++ flattenDoc regB) = .ok e) ∧
    (∃ e, run lim5 true (beforeDoc [regA] ++ flattenDoc regB) = .ok e ∧ e.report.events = 3) :=
  ⟨⟨_, rfl⟩, rfl, ⟨_, rfl⟩, ⟨_, rfl, rfl⟩⟩
/-- the old code charged `StreamEnd` to the last document: `[a]` in last position was rejected at the `StreamEnd`
(index 9), and the same document was charged 4 events at its `DocumentEnd` when something followed but 5 when it was
the last one -/
example : runFromOld (Enf.new lim4 true) 0 (flattenStream [regB, regA]) = .error (9, .events 5) := by rfl
example :
    (∃ e, runFromOld (Enf.new lim5 true) 0 (beforeDoc [regA]) = .ok e ∧ e.report.events = 4) ∧
    (∃ e, runFromOld (Enf.new lim5 true) 0 (flattenStream [regA]) = .ok e ∧ e.report.events = 5) :=
  ⟨⟨_, rfl, rfl⟩, ⟨_, rfl, rfl⟩⟩

/-! ### regression: the alias/anchor ratio was judged for the LAST document only

`{a: &x 1, b: [*x, *x, *x]}` (3 aliases, 1 anchor) under `alias_anchor_min_aliases = 1`, `alias_anchor_ratio_multiplier = 1`.
Before the repair `observe` never judged the ratio and `finalize` judged it once, on the counters left at the end of the
stream: the document passed as a non-last document and was rejected as the last one or alone. -/

/-- `{a: &x 1, b: [*x, *x, *x]}` -/
def ratioDoc : Node :=
  .map 0 none [(.scalar ['a'] .plain 0 none, .scalar ['1'] .plain 1 none),
               (.scalar ['b'] .plain 0 none, .seq 0 none [.alias 1, .alias 1, .alias 1])]
def ratioLim : Limits := { demoLim with minAliases := 1, multiplier := 1 }

/-- FOR THE RECORD — the verdict of the code before this repair on the ratio: the events pass `observe` without any
ratio check (expressed with the current model by switching the heuristic off), then `finalize` judges the counters the
stream ended with -/
def ratioAtEndOnly (lim : Limits) (ds : List Node) : Option Breach :=
  match run { lim with enforceRatio := false } true (flattenStream ds) with
  | .ok e => ({ e with lim := lim }).ratioBreach
  | .error _ => none

/-- the old code: accepted in first position, rejected in last position and alone -/
example : ratioAtEndOnly ratioLim [ratioDoc, regB] = none ∧ ratioAtEndOnly ratioLim [regB, ratioDoc] = some (.ratio 3 1) ∧
    ratioAtEndOnly ratioLim [ratioDoc] = some (.ratio 3 1) := by decide

/-- now: rejected wherever it stands, at its own `DocumentEnd` (its 12th event), with its own counts -/
example : run ratioLim true (flattenStream [ratioDoc]) = .error (12, .ratio 3 1) ∧
    run ratioLim true (flattenStream [ratioDoc, regB]) = .error (12, .ratio 3 1) ∧
    run ratioLim true (flattenStream [regB, ratioDoc]) = .error (15, .ratio 3 1) ∧
    run ratioLim true (flattenStream [regB, ratioDoc, regC]) = .error (15, .ratio 3 1) ∧
    (beforeDoc [regB]).length + ((flattenDoc ratioDoc).length - 1) = 15 := ⟨rfl, rfl, rfl, rfl, rfl⟩
example : [[ratioDoc, regB], [regB, ratioDoc], [ratioDoc], [regB, regC]].map (perDocAcceptsFull ratioLim) =
    [false, false, false, true] := by decide
/-- the Spec verdict on the document's own counts (`perdoc_accepts_iff`, `perdoc_ratio_exact`) -/
example : within ratioLim (usageDoc ratioDoc) = true ∧ ratioOk ratioLim (usageDoc ratioDoc) = false ∧
    (usageDoc ratioDoc).aliases = 3 ∧ (usageDoc ratioDoc).anchors = 1 ∧
    ratioOk { ratioLim with multiplier := 3 } (usageDoc ratioDoc) = true := by decide
/-- with a multiplier the document satisfies it is accepted at every position, and `finalize` stays silent -/
example : [[ratioDoc, regB], [regB, ratioDoc], [ratioDoc]].map (perDocAcceptsFull { ratioLim with multiplier := 3 }) =
    [true, true, true] := by decide
/-- the whole-input policy is unchanged: the ratio is judged by `finalize` over the whole stream -/
example : (∃ e, run ratioLim false (flattenStream [ratioDoc, regB]) = .ok e ∧ e.finalize.2 = some (.ratio 3 1)) :=
  ⟨_, rfl, rfl⟩

/-! ### the iterator's recovery path (`LiveEvents::skip_to_next_document`)

After a deserialization error the iterator skips to the next `DocumentStart`, pulling raw events WITHOUT `observe`.
The first version of the repair left `begin_document()` at that `DocumentStart`: the event itself was not observed, so
a document read right after an abandoned one was charged ONE EVENT LESS than the same document anywhere else
(on that code, target `Vec<i64>`, `max_events = 4`: `[x]` / `[1]` / `[2]` gave
`[Err(InvalidScalar), Ok([1]), Ok([2]), Err(Events{5})]` while `[1]` / `[2]` gave `[Ok([1]), Err(Events{5})]`).
The completed repair calls `begin_document_at(&raw)` = `observe(&raw)` under the per-document policy (model:
`Enf.beginDocumentAt`, `Pump.skipBudget`): the recovery path starts a document with exactly the state the normal
path starts it with. -/

/-- the enforcer state in which document `[x]` is abandoned (type error at the scalar), `max_events = 4` -/
def eAbandoned : Enf :=
  { lim := lim4, perDocument := true, report := { events := 3, nodes := 2, maxDepth := 1, totalScalarBytes := 1 },
    depth := 1, containers := [.seq false] }

example : runFrom (Enf.new lim4 true) 0 [.streamStart, .docStart false, .seqStart 0 none, .scalar ['x'] .plain 0 none] =
    .ok eAbandoned := by rfl

/-- (T) perdoc_recovery_position_independent: when `skip_to_next_document` finds a document, the enforcer state with
which the pump starts that document is the state with which the NORMAL path (`observe(DocumentStart)` in the parser
loop) starts the same document — from the abandoned state itself and from any other per-document state with the same
limits (the fresh one, the one after any accepted documents): report `{events := 1}` (the `DocumentStart` is charged),
no anchors, depth 0, no containers.  Hence a document is charged identically after an abandoned document and anywhere
else (`perdoc_position_independent_raw` applies to the run that follows). -/
theorem perdoc_recovery_position_independent (p p' : Pump.Pump) (inp rest : List Pump.RawItem) (enf : Enf)
    (hb : p.budget = some enf) (hpd : enf.perDocument = true)
    (h : Pump.skipToNextDocument p inp = (true, p', rest)) :
    ∃ e', p'.budget = some e' ∧
      e' = docStartState enf.lim enf.report.documents ∧
      (∀ (e0 : Enf) (x : Bool), e0.perDocument = true → e0.lim = enf.lim → e0.report.documents = enf.report.documents →
        e0.observe (.docStart x) = .ok e') ∧
      e'.report = { events := 1, documents := enf.report.documents } ∧ e'.defined = [] ∧ e'.depth = 0 ∧
      e'.containers = [] := by
  unfold Pump.skipToNextDocument at h
  obtain ⟨b, hsb⟩ := skipLoop_budget _ p' inp rest h
  simp only [hb] at hsb
  cases hp' : p'.budget with
  | none =>
    rw [hp'] at hsb
    simp only [Pump.skipBudget] at hsb
    split at hsb <;> cases hsb
  | some e' =>
    rw [hp'] at hsb
    have hobs := skipBudget_some_pd hpd hsb
    rw [observe_docStart_pd b hpd] at hobs
    split at hobs
    · cases hobs
    · rename_i hle
      injection hobs with hobs
      subst hobs
      refine ⟨_, rfl, rfl, ?_, rfl, rfl, rfl, rfl⟩
      intro e0 x h0 h1 h2
      rw [observe_docStart_pd x h0, h1, h2, if_neg hle]

/-- (T) the recovery finds no document only for a reason that would stop the normal path as well: if the skip reaches
a `DocumentStart` under the per-document policy and gives up there, then `max_events = 0` — no document at all can be
read under that budget. -/
theorem perdoc_recovery_breach_only_zero (enf : Enf) (b : Bool) (hpd : enf.perDocument = true)
    (h : Pump.skipBudget (some enf) (.docStart b) = none) : enf.lim.maxEvents = 0 := by
  simp only [Pump.skipBudget, Enf.beginDocumentAt, hpd, if_true, observe_docStart_pd b hpd] at h
  split at h
  · rename_i h1
    split at h1
    · omega
    · cases h1
  · cases h

/-- regression (formerly the (F) witness `perdoc_recovery_path_counterexample`): after `skip_to_next_document` from the
state in which `[x]` was abandoned, the document `[a]` is charged its 5 events and rejected under `max_events = 4` at its
own `DocumentEnd` — exactly as on the normal path from the very same state, and as on its own (`docRun`); under
`max_events = 5` it is accepted on both paths with the report `usageDoc regA`. -/
theorem perdoc_recovery_path_regression :
    ∃ p' e',
      Pump.skipToNextDocument { limits := ⟨1000, 10, 100⟩, budget := some eAbandoned }
          [.ev .seqEnd 0, .ev .docEnd 0, .ev (.docStart true) 0] = (true, p', []) ∧
      p'.budget = some e' ∧
      runFrom e' 1 (docBody regA) = .error (4, .events 5) ∧
      runFrom eAbandoned 0 (flattenDoc regA) = .error (4, .events 5) ∧
      docRun lim4 regA = .error (4, .events 5) :=
  ⟨_, _, rfl, rfl, rfl, rfl, rfl⟩

example :
    ∃ p' e' e2,
      Pump.skipToNextDocument { limits := ⟨1000, 10, 100⟩, budget := some { eAbandoned with lim := lim5 } }
          [.ev .seqEnd 0, .ev .docEnd 0, .ev (.docStart true) 0] = (true, p', []) ∧
      p'.budget = some e' ∧ runFrom e' 1 (docBody regA) = .ok e2 ∧ e2.finalize.1 = usageDoc regA ∧
      docRun lim5 regA = .ok e2 :=
  ⟨_, _, _, rfl, rfl, rfl, by decide, rfl⟩

/-- for the record: what `begin_document()` alone (the recovery path before the completed repair) left behind differs
from what `observe(DocumentStart)` leaves in exactly one event — `events = 0` instead of `events = 1` -/
theorem perdoc_recovery_path_diff (e e1 : Enf) (x : Bool) (hpd : e.perDocument = true)
    (h : e.observe (.docStart x) = .ok e1) :
    e.beginDocument = { e1 with report := { e1.report with events := 0 } } := by
  obtain ⟨rfl, -⟩ := observe_ok h
  simp [next, hpd, isDocStart, Enf.beginDocument, Report.reset]

/-- the whole-input policy is untouched by the recovery hook: skipped events are not counted -/
theorem recovery_allcontent_noop (e : Enf) (ev : Raw) (hpd : e.perDocument = false) : e.beginDocumentAt ev = .ok e := by
  simp [Enf.beginDocumentAt, hpd]

-- satisfiability of the hypotheses of the per-document theorems on non-trivial instances
example : ∃ e, run demoLim true (beforeDoc [demoDoc, regA]) = .ok e ∧ e.report.events = 5 ∧ e.perDocument = true :=
  ⟨_, rfl, rfl, rfl⟩
example : perDocAccepts demoLim [demoDoc, regA] = true := by decide
example : ∃ e, runFrom (Enf.new demoLim true) 0 (flattenDoc demoDoc) = .ok e ∧ e.finalize.1 = usageDoc demoDoc :=
  ⟨_, rfl, by decide⟩
/-- `perdoc_breach_in_doc` / `perdoc_doc_breach_surfaces`: a middle document over the limit -/
example : run { demoLim with maxDepth := 1 } true (flattenStream ([regA, regB] ++ demoDoc :: [regC])) =
      .error ((beforeDoc [regA, regB]).length + 5, .depth 2) ∧
    runFrom (Enf.new { demoLim with maxDepth := 1 } true) 0 (flattenDoc demoDoc) = .error (5, .depth 2) ∧
    5 < (flattenDoc demoDoc).length := ⟨rfl, rfl, by decide⟩
/-- `perdoc_position_independent_raw` on a state left behind by an abandoned, half-read document (open containers,
anchors, depth 2): the next document runs as from the fresh state -/
example :
    ∃ e, runFrom (Enf.new demoLim true) 0 [.docStart false, .mapStart 7 none, .scalar ['k'] .plain 0 none, .seqStart 8 none] = .ok e ∧
      e.depth = 2 ∧ e.defined = [8, 7] ∧
      runFrom e 0 (flattenDoc demoDoc) = runFrom (Enf.new demoLim true) 0 (flattenDoc demoDoc) :=
  ⟨_, rfl, rfl, rfl, rfl⟩

#print axioms no_unbalanced_on_trees_counterexample
#print axioms no_unbalanced_on_trees_Full_false
#print axioms no_unbalanced_on_trees_partial
#print axioms no_unbalanced_on_trees_partial_maxDepth
#print axioms report_eq_usage
#print axioms accepts_iff
#print axioms ratio_exact
#print axioms exact_limits_accept
#print axioms below_usage_rejects
#print axioms first_breach_kind
#print axioms perdoc_independent
#print axioms perdoc_state_reset
#print axioms perdoc_position_independent_raw
#print axioms perdoc_position_independent
#print axioms perdoc_stream_decomp
#print axioms perdoc_streamEnd_free
#print axioms perdoc_followers_independent
#print axioms perdoc_breach_in_doc
#print axioms perdoc_doc_breach_surfaces
#print axioms perdoc_state_eq_single
#print axioms perdoc_usage_eq_single
#print axioms perdoc_usage_last
#print axioms perdoc_report_eq_usageDoc
#print axioms perdoc_accepts_iff
#print axioms perdoc_ok_spec
#print axioms perdoc_no_other_breach
#print axioms perdoc_ratio_breach_spec
#print axioms perdoc_ratio_exact
#print axioms perdoc_ratio_position_independent
#print axioms perdoc_finalize_silent
#print axioms perdoc_independent_full
#print axioms perdoc_recovery_position_independent
#print axioms perdoc_recovery_breach_only_zero
#print axioms perdoc_recovery_path_regression
#print axioms recovery_allcontent_noop
#print axioms perdoc_recovery_path_diff

end SaphyrVerif.Props.C07
