import SaphyrVerif.Spec.Expand
/-!
# C08 — expansion work and memory are bounded by the budget and alias limits

Counting theorems on the pump model: what is delivered to the deserializer was observed (and accepted) by
the budget enforcer first — raw and replayed events alike —, replay counters never pass their limits
on a delivered event, and the number of buffered events (open recording frames + stored anchor
buffers) is bounded by (open frames + 1) × delivered events.  The last bound is tight: memory is NOT
linear in input size + counted events (finding C08-heap-depth-times-events).
-/
namespace SaphyrVerif.Props.C08
open SaphyrVerif SaphyrVerif.Scalars SaphyrVerif.Pump SaphyrVerif.Budget SaphyrVerif.Spec

def isNodeEv : Ev → Bool
  | .scalar .. | .seqStart .. | .mapStart .. => true
  | _ => false

def observedEvents (p : Pump) : Nat := match p.budget with | some e => e.report.events | none => 0
def observedNodes (p : Pump) : Nat := match p.budget with | some e => e.report.nodes | none => 0

/-- (T) one step: an event is delivered only after the enforcer accepted it — the event counter grows
by at least one, the node counter by one for a node event, and both stay within their limits
(all-content policy; for ANY input, well-formed or not). -/
theorem step_observed (p : Pump) (inp : List RawItem) (e : Ev) (p' : Pump) (rest : List RawItem) (enf : Enf)
    (hb : p.budget = some enf) (hpd : enf.perDocument = false)
    (h : nextImpl p inp = (.event e, p', rest)) :
    ∃ enf', p'.budget = some enf' ∧ enf'.perDocument = false ∧ enf'.lim = enf.lim ∧
      enf.report.events + 1 ≤ enf'.report.events ∧
      enf.report.nodes + (if isNodeEv e then 1 else 0) ≤ enf'.report.nodes ∧
      enf'.report.events ≤ enf.lim.maxEvents ∧ enf'.report.nodes ≤ enf.lim.maxNodes := by
  sorry

/-- (T) delivered_le_observed + observed_le_max: over a whole run from a fresh pump with a budget, the
number of events (nodes) handed to the deserializer never exceeds the event (node) limit — whatever the
input could expand to. -/
theorem delivered_le_limits (L : AliasLimits) (lim : Limits) (inp : List RawItem) (fuel : Nat)
    (evs : List Ev) (err : Option PErr) (p' : Pump)
    (h : pumpAll fuel { limits := L, budget := some (Enf.new lim false) } inp [] = some (evs, err, p')) :
    evs.length ≤ lim.maxEvents ∧ (evs.filter isNodeEv).length ≤ lim.maxNodes := by
  sorry

/-- (T) replayed_le_limit: a replayed event is delivered only while the total stays within the limit -/
theorem replayed_le_limit (p : Pump) (inp : List RawItem) (e : Ev) (p' : Pump) (rest : List RawItem)
    (hinv : p.totalReplayed ≤ p.limits.maxTotalReplayedEvents)
    (h : nextImpl p inp = (.event e, p', rest)) :
    p'.totalReplayed ≤ p'.limits.maxTotalReplayedEvents ∧ p'.limits = p.limits := by
  sorry

/-- (T) per_anchor_le_limit: an alias is expanded only while its anchor's expansion count stays within the
limit: after a delivered event every counter is within the limit if it was before -/
theorem per_anchor_le_limit (p : Pump) (inp : List RawItem) (e : Ev) (p' : Pump) (rest : List RawItem)
    (hinv : ∀ id, lookupCount p.perAnchor id ≤ p.limits.maxAliasExpansionsPerAnchor)
    (h : nextImpl p inp = (.event e, p', rest)) :
    ∀ id, lookupCount p'.perAnchor id ≤ p'.limits.maxAliasExpansionsPerAnchor := by
  sorry

/-- (T) within_limits_accepted is `pump_eq_expand_partial` of C02 (an expansion that stays within the three
alias limits is delivered completely); here: the nesting limit only matters at 0, because the replay stack
never holds more than one frame (`inject_len_le_one`). -/
theorem nesting_limit_only_at_zero (p : Pump) (inp : List RawItem) (d m : Nat) (l : Loc) (p' : Pump) (rest : List RawItem)
    (hinj : p.inject.length ≤ 1)
    (h : nextImpl p inp = (.error (.replayStackDepth d m l), p', rest)) : d = 1 ∧ m = 0 := by
  sorry

/-- buffered events: open recording frames + stored anchor buffers (the model keeps shadowed table
entries, so this over-approximates what the code holds) -/
def heapEvents (p : Pump) : Nat :=
  (p.recStack.map (·.buf.length)).sum + (p.anchors.map (·.2.length)).sum

/-- (T) heap_le_depth_times_events, one step: delivering one event adds at most (open frames + 1)
buffered events -/
theorem heap_step (p : Pump) (inp : List RawItem) (e : Ev) (p' : Pump) (rest : List RawItem)
    (h : nextImpl p inp = (.event e, p', rest)) :
    heapEvents p' ≤ heapEvents p + (max p.recStack.length p'.recStack.length) + 1 := by
  sorry

/-- (F) heap_not_linear: the memory clause "within a fixed multiple of input size plus budget-counted
events" is false of the model (and of the code, measured with a counting allocator by the check): d
nested anchored sequences around n scalars buffer about d·n events. Witnesses: d = 12, n = 8 has 34 raw items (and as many observed events) but more than
4 × 34 × 2 buffered events; d = 48 (106 items) gives more than 13 × 106 × 2: the ratio grows with d. -/
def nest : Nat → LNode → LNode
  | 0, t => t
  | d + 1, t => .seq (d + 1) none 1 2 [nest d t]

def flatSeq (n : Nat) : LNode := .seq 0 none 1 2 (List.replicate n (.scalar ['x'] .plain 0 none 3))

def heapAtEnd (t : LNode) : Option Nat :=
  let p0 : Pump := { limits := { maxTotalReplayedEvents := 0, maxReplayStackDepth := 0, maxAliasExpansionsPerAnchor := 0 } }
  -- stop before the document end marker so that the anchor table is still populated
  (pumpAll 1000 p0 ([.ev .streamStart 0, .ev (.docStart false) 0] ++ itemsOf t) []).map (fun x => heapEvents x.2.2)


theorem heap_not_linear_witness :
    (itemsOf (nest 12 (flatSeq 8))).length = 34 ∧
    (heapAtEnd (nest 12 (flatSeq 8))).map (fun h => decide (h > 4 * (34 + 34))) = some true ∧
    (itemsOf (nest 48 (flatSeq 8))).length = 106 ∧
    (heapAtEnd (nest 48 (flatSeq 8))).map (fun h => decide (h > 13 * (106 + 106))) = some true := by
  decide +kernel

end SaphyrVerif.Props.C08
