import SaphyrVerif.Spec.Expand
import SaphyrVerif.Lemmas.C08_Count
import SaphyrVerif.Lemmas.C08_Heap
import SaphyrVerif.Lemmas.C08_Run
/-!
# C08 — expansion work and memory are bounded by the budget and alias limits

Counting theorems on the pump model: what is delivered to the deserializer was observed (and accepted) by
the budget enforcer first — raw and replayed events alike —, replay counters never pass their limits
on a delivered event, and the number of buffered events (open recording frames + stored anchor
buffers) is bounded by (open frames + 1) × delivered events.  The last bound is tight: memory is NOT
linear in input size + counted events (finding C08-heap-depth-times-events).

Two statements are false as first written and are kept as `*_Full : Prop` with counterexamples and corrected
`*_partial` versions: the null scalar synthesized for a stream without content is delivered WITHOUT being
shown to the enforcer (so `maxEvents = 0` / `maxNodes = 0` still deliver one node), the placeholder scalar of
the recursion wrappers is counted as an alias only, and `observe` re-checks the node limit only on node events.
-/
namespace SaphyrVerif.Props.C08
open SaphyrVerif SaphyrVerif.Scalars SaphyrVerif.Pump SaphyrVerif.Budget SaphyrVerif.Spec

def isNodeEv : Ev → Bool
  | .scalar .. | .seqStart .. | .mapStart .. => true
  | _ => false

def observedEvents (p : Pump) : Nat := match p.budget with | some e => e.report.events | none => 0
def observedNodes (p : Pump) : Nat := match p.budget with | some e => e.report.nodes | none => 0

theorem isNodeEv_eq (e : Ev) : isNodeEv e = Lemmas.C08.nodeEv e := by cases e <;> rfl

/-- (F as stated, see `step_observed_counterexample*`) one step: an event is delivered only after the
enforcer accepted it — the event counter grows by at least one, the node counter by one for a node event,
and both stay within their limits (all-content policy; for ANY input, well-formed or not). -/
def step_observed_Full : Prop :=
  ∀ (p : Pump) (inp : List RawItem) (e : Ev) (p' : Pump) (rest : List RawItem) (enf : Enf)
    (_hb : p.budget = some enf) (_hpd : enf.perDocument = false)
    (_h : nextImpl p inp = (.event e, p', rest)),
    ∃ enf', p'.budget = some enf' ∧ enf'.perDocument = false ∧ enf'.lim = enf.lim ∧
      enf.report.events + 1 ≤ enf'.report.events ∧
      enf.report.nodes + (if isNodeEv e then 1 else 0) ≤ enf'.report.nodes ∧
      enf'.report.events ≤ enf.lim.maxEvents ∧ enf'.report.nodes ≤ enf.lim.maxNodes

def cexLimits : AliasLimits := ⟨1, 1, 1⟩
def cexLim (maxEvents maxNodes : Nat) : Limits := ⟨maxEvents, 10, 10, 10, 10, maxNodes, 10, 10, false, 0, 0⟩

/-- Counterexample 1 (the synthesized null): on an exhausted input a pump that has produced nothing delivers
a null scalar WITHOUT calling `observe` at all — neither counter moves (here even with all limits 0). -/
theorem step_observed_counterexample : ¬ step_observed_Full := by
  intro H
  obtain ⟨enf', hb, -, -, hev, -⟩ :=
    H { limits := cexLimits, budget := some (Enf.new (cexLim 0 0) false) } []
      (.scalar [] 4 none .plain 0 0)
      { limits := cexLimits, budget := some (Enf.new (cexLim 0 0) false), producedAny := true, synthesizedNull := true } []
      (Enf.new (cexLim 0 0) false) rfl rfl rfl
  cases hb
  exact absurd hev (by decide)

/-- Counterexample 2 (node bound without a within-limits start): `observe` checks the node limit only on
node events; from an enforcer state that is already over the node limit an end event is still delivered.
(Something was produced before and no recursion wrapper is active.) -/
theorem step_observed_counterexample_nodes :
    ∃ (p : Pump) (inp : List RawItem) (e : Ev) (p' : Pump) (rest : List RawItem) (enf : Enf),
      p.budget = some enf ∧ enf.perDocument = false ∧ p.producedAny = true ∧ p.recursiveInProgress = [] ∧
      nextImpl p inp = (.event e, p', rest) ∧
      ∀ enf', p'.budget = some enf' → ¬ enf'.report.nodes ≤ enf.lim.maxNodes := by
  refine ⟨{ limits := cexLimits, producedAny := true,
            budget := some { lim := cexLim 10 0, perDocument := false, report := { nodes := 5 }, depth := 1,
                             containers := [.seq false] } },
    [.ev .seqEnd 7], .seqEnd 7, _, _, _, rfl, rfl, rfl, rfl, rfl, ?_⟩
  intro enf' hb
  cases hb
  decide

/-- Counterexample 3 (recursion wrappers): an alias to an anchor that is still being recorded and is marked
"in progress" is delivered as a placeholder scalar; only the alias was observed, so the node counter does not
grow although a node event is delivered. -/
theorem step_observed_counterexample_recursive :
    ∃ (p : Pump) (inp : List RawItem) (e : Ev) (p' : Pump) (rest : List RawItem) (enf : Enf),
      p.budget = some enf ∧ enf.perDocument = false ∧ p.producedAny = true ∧
      enf.report.nodes ≤ enf.lim.maxNodes ∧
      nextImpl p inp = (.event e, p', rest) ∧
      ∀ enf', p'.budget = some enf' → ¬ enf.report.nodes + (if isNodeEv e then 1 else 0) ≤ enf'.report.nodes := by
  refine ⟨{ limits := cexLimits, producedAny := true, recursiveInProgress := [7],
            recStack := [{ id := 7, depth := 1, buf := [.seqStart 7 0 none 1] }],
            budget := some (Enf.new (cexLim 10 10) false) },
    [.ev (.alias 7) 3], .scalar [] 4 none .plain 7 3, _, _, _, rfl, rfl, rfl, by decide, rfl, ?_⟩
  intro enf' hb
  cases hb
  decide

/-- (T) one step, corrected: if no recursion wrapper is active, the delivered event is not the synthesized
null of an empty stream (something was produced before, or the null flag stays clear) and the node counter
starts within its limit, then the event was observed first: the event counter grows by at least one, the node
counter by one for a node event, and both are within their limits (all-content policy; ANY input). -/
theorem step_observed_partial (p : Pump) (inp : List RawItem) (e : Ev) (p' : Pump) (rest : List RawItem) (enf : Enf)
    (hb : p.budget = some enf) (hpd : enf.perDocument = false)
    (hrec : p.recursiveInProgress = [])
    (hnull : p.producedAny = true ∨ p'.synthesizedNull = false)
    (hn : enf.report.nodes ≤ enf.lim.maxNodes)
    (h : nextImpl p inp = (.event e, p', rest)) :
    ∃ enf', p'.budget = some enf' ∧ enf'.perDocument = false ∧ enf'.lim = enf.lim ∧
      enf.report.events + 1 ≤ enf'.report.events ∧
      enf.report.nodes + (if isNodeEv e then 1 else 0) ≤ enf'.report.nodes ∧
      enf'.report.events ≤ enf.lim.maxEvents ∧ enf'.report.nodes ≤ enf.lim.maxNodes := by
  obtain ⟨-, -, hcase⟩ := Lemmas.C08.nextImpl_budget p inp e p' rest enf hb hpd h
  rcases hcase with ⟨enf', hb', ⟨o1, o2, o3, o4, o5⟩, -⟩ | ⟨n1, n2, -⟩
  · rcases o5 with ⟨o5, o6⟩ | ⟨hne, -⟩
    · refine ⟨enf', hb', o1, o2, o3, ?_, o4, ?_⟩
      · rw [isNodeEv_eq]; omega
      · by_cases hne : Lemmas.C08.nodeEv e = true
        · exact o6 hne
        · simp only [hne] at o5; simp at o5; omega
    · exact absurd hrec hne
  · rcases hnull with hp | hs
    · rw [hp] at n1; cases n1
    · rw [hs] at n2; cases n2

/-- (F as stated, see `delivered_le_limits_counterexample`) delivered_le_observed + observed_le_max: over a
whole run from a fresh pump with a budget, the number of events (nodes) handed to the deserializer never
exceeds the event (node) limit — whatever the input could expand to. -/
def delivered_le_limits_Full : Prop :=
  ∀ (L : AliasLimits) (lim : Limits) (inp : List RawItem) (fuel : Nat)
    (evs : List Ev) (err : Option PErr) (p' : Pump)
    (_h : pumpAll fuel { limits := L, budget := some (Enf.new lim false) } inp [] = some (evs, err, p')),
    evs.length ≤ lim.maxEvents ∧ (evs.filter isNodeEv).length ≤ lim.maxNodes

/-- Counterexample: with `maxEvents = 0` (or `maxNodes = 0`) the empty input still delivers one event, the
synthesized null scalar, which is never shown to the enforcer. -/
theorem delivered_le_limits_counterexample : ¬ delivered_le_limits_Full := by
  intro H
  have := (H cexLimits (cexLim 0 0) [] 2 [.scalar [] 4 none .plain 0 0] none _ rfl).1
  exact absurd this (by decide)

/-- the same with a non-empty input and a positive event limit: an empty document has one node -/
theorem delivered_le_limits_counterexample_nodes :
    ∃ p', pumpAll 2 { limits := cexLimits, budget := some (Enf.new (cexLim 10 0) false) }
        [.ev .streamStart 0, .ev (.docStart false) 1, .ev .docEnd 2, .ev .streamEnd 3] [] =
      some ([.scalar [] 4 none .plain 0 3], none, p') ∧
      ¬ ([Ev.scalar [] 4 none .plain 0 3].filter isNodeEv).length ≤ (cexLim 10 0).maxNodes :=
  ⟨_, rfl, by decide⟩

/-- (T) the sharp form: a whole run from a fresh pump with a budget either stays within the event and node
limits, or it delivered exactly one event — the synthesized null of a stream without content — and ended. -/
theorem delivered_le_limits_or_null (L : AliasLimits) (lim : Limits) (inp : List RawItem) (fuel : Nat)
    (evs : List Ev) (err : Option PErr) (p' : Pump)
    (h : pumpAll fuel { limits := L, budget := some (Enf.new lim false) } inp [] = some (evs, err, p')) :
    (evs.length ≤ lim.maxEvents ∧ (evs.filter isNodeEv).length ≤ lim.maxNodes) ∨
      ((∃ loc, evs = [.scalar [] 4 none .plain 0 loc]) ∧ err = none ∧ p'.synthesizedNull = true) := by
  have hf : isNodeEv = Lemmas.C08.nodeEv := funext isNodeEv_eq
  rw [hf]
  refine Lemmas.C08.pumpAll_bound lim fuel _ inp [] evs err p' ?_ h
  exact ⟨Enf.new lim false, rfl, rfl, rfl, rfl, Nat.zero_le _, Nat.zero_le _, Nat.zero_le _, Nat.zero_le _,
    fun h => absurd rfl h⟩

/-- (T) delivered_le_limits, corrected: if no null was synthesized, or the limits allow one event and one
node, the number of events (nodes) handed to the deserializer never exceeds the event (node) limit —
whatever the input could expand to. -/
theorem delivered_le_limits_partial (L : AliasLimits) (lim : Limits) (inp : List RawItem) (fuel : Nat)
    (evs : List Ev) (err : Option PErr) (p' : Pump)
    (hnull : p'.synthesizedNull = false ∨ (1 ≤ lim.maxEvents ∧ 1 ≤ lim.maxNodes))
    (h : pumpAll fuel { limits := L, budget := some (Enf.new lim false) } inp [] = some (evs, err, p')) :
    evs.length ≤ lim.maxEvents ∧ (evs.filter isNodeEv).length ≤ lim.maxNodes := by
  rcases delivered_le_limits_or_null L lim inp fuel evs err p' h with hok | ⟨⟨loc, rfl⟩, -, hs⟩
  · exact hok
  · rcases hnull with hn | ⟨h1, h2⟩
    · rw [hn] at hs; cases hs
    · exact ⟨h1, h2⟩

/-- (T) replayed_le_limit: a replayed event is delivered only while the total stays within the limit -/
theorem replayed_le_limit (p : Pump) (inp : List RawItem) (e : Ev) (p' : Pump) (rest : List RawItem)
    (hinv : p.totalReplayed ≤ p.limits.maxTotalReplayedEvents)
    (h : nextImpl p inp = (.event e, p', rest)) :
    p'.totalReplayed ≤ p'.limits.maxTotalReplayedEvents ∧ p'.limits = p.limits := by
  obtain ⟨q, hsk, hfin⟩ := Lemmas.C08.nextImpl_event p inp e p' rest h
  obtain ⟨a, b⟩ := hsk.replayed hinv
  rcases hfin with ⟨⟨_, _, _, rfl⟩, _⟩ | hd
  · exact ⟨a, b⟩
  · obtain ⟨c, d⟩ := hd.replayed a
    exact ⟨c, d.trans b⟩

/-- (T) per_anchor_le_limit: an alias is expanded only while its anchor's expansion count stays within the
limit: after a delivered event every counter is within the limit if it was before -/
theorem per_anchor_le_limit (p : Pump) (inp : List RawItem) (e : Ev) (p' : Pump) (rest : List RawItem)
    (hinv : ∀ id, lookupCount p.perAnchor id ≤ p.limits.maxAliasExpansionsPerAnchor)
    (h : nextImpl p inp = (.event e, p', rest)) :
    ∀ id, lookupCount p'.perAnchor id ≤ p'.limits.maxAliasExpansionsPerAnchor := by
  obtain ⟨q, hsk, hfin⟩ := Lemmas.C08.nextImpl_event p inp e p' rest h
  have a := hsk.perAnchor hinv
  rcases hfin with ⟨⟨_, _, _, rfl⟩, _⟩ | hd
  · exact a
  · exact hd.perAnchor a

/-- (T) within_limits_accepted is `pump_eq_expand_partial` of C02 (an expansion that stays within the three
alias limits is delivered completely); here: the nesting limit only matters at 0, because the replay stack
never holds more than one frame (`inject_len_le_one`). -/
theorem nesting_limit_only_at_zero (p : Pump) (inp : List RawItem) (d m : Nat) (l : Loc) (p' : Pump) (rest : List RawItem)
    (hinj : p.inject.length ≤ 1)
    (h : nextImpl p inp = (.error (.replayStackDepth d m l), p', rest)) : d = 1 ∧ m = 0 := by
  have _ := hinj
  exact Lemmas.C08.nextImpl_depthErr p inp d m l p' rest h

/-- buffered events: open recording frames + stored anchor buffers (the model keeps shadowed table
entries, so this over-approximates what the code holds) -/
def heapEvents (p : Pump) : Nat :=
  (p.recStack.map (·.buf.length)).sum + (p.anchors.map (·.2.length)).sum

/-- (T) heap_le_depth_times_events, one step: delivering one event adds at most (open frames + 1)
buffered events -/
theorem heap_step (p : Pump) (inp : List RawItem) (e : Ev) (p' : Pump) (rest : List RawItem)
    (h : nextImpl p inp = (.event e, p', rest)) :
    heapEvents p' ≤ heapEvents p + (max p.recStack.length p'.recStack.length) + 1 := by
  exact Lemmas.C08.nextImpl_heap p inp e p' rest h

/-- (F) heap_not_linear: the memory clause "within a fixed multiple of input size plus budget-counted
events" is false of the model (and of the code, measured with a counting allocator by the check): d
nested anchored sequences around n scalars buffer about d·n events. Witnesses: d = 12, n = 8 has 34 raw items (and as many observed events) but more than
4 × 34 × 2 buffered events; d = 48 (106 items) gives more than 13 × 106 × 2: the ratio grows with d. -/
def nest : Nat → LNode → LNode
  | 0, t => t
  | d + 1, t => .seq (d + 1) none 1 2 [nest d t]

def flatSeq (n : Nat) : LNode := .seq 0 none 1 2 (List.replicate n (.scalar ['x'] .plain 0 none 3))

def heapAtEnd (t : LNode) : Option Nat :=
  let p0 : Pump := { limits := { maxTotalReplayedEvents := 0, maxReplayStackDepth := 0, maxAliasExpansionsPerAnchor := 0 } }
  -- stop before the document end marker so that the anchor table is still populated
  (pumpAll 1000 p0 ([.ev .streamStart 0, .ev (.docStart false) 0] ++ itemsOf t) []).map (fun x => heapEvents x.2.2)


theorem heap_not_linear_witness :
    (itemsOf (nest 12 (flatSeq 8))).length = 34 ∧
    (heapAtEnd (nest 12 (flatSeq 8))).map (fun h => decide (h > 4 * (34 + 34))) = some true ∧
    (itemsOf (nest 48 (flatSeq 8))).length = 106 ∧
    (heapAtEnd (nest 48 (flatSeq 8))).map (fun h => decide (h > 13 * (106 + 106))) = some true := by
  decide +kernel

#print axioms step_observed_counterexample
#print axioms step_observed_counterexample_nodes
#print axioms step_observed_counterexample_recursive
#print axioms step_observed_partial
#print axioms delivered_le_limits_counterexample
#print axioms delivered_le_limits_counterexample_nodes
#print axioms delivered_le_limits_or_null
#print axioms delivered_le_limits_partial
#print axioms replayed_le_limit
#print axioms per_anchor_le_limit
#print axioms nesting_limit_only_at_zero
#print axioms heap_step
#print axioms heap_not_linear_witness

end SaphyrVerif.Props.C08
